//go:build verif

// vh c08batch — obipairing.IAssemblePESequencesBatch in process: the pairs are given to the function the way the command
// gives them (read A paired with the reverse read R = reverse complement of B, batches of `size` pairs, `workers`
// goroutines that each own an arena and a shift map, in-place assembly); the observation lists one consensus per pair in
// input order.  With "unpaired" the iterator is not marked as paired: the function must refuse it (logrus Fatal).
package main

import (
	"bufio"
	"fmt"

	log "github.com/sirupsen/logrus"

	"git.metabarcoding.org/obitools/obitools4/obitools4/pkg/obiiter"
	"git.metabarcoding.org/obitools/obitools4/obitools4/pkg/obiseq"
	"git.metabarcoding.org/obitools/obitools4/obitools4/pkg/obitools/obipairing"
)

type c08batchCase struct {
	Pairs    []c08case `json:"pairs"` // the settings are those of the first pair
	Workers  int       `json:"workers"`
	Size     int       `json:"size"`
	NoStat   bool      `json:"nostat"`
	Unpaired bool      `json:"unpaired"`
}

type c08batchObs struct {
	Kind    string    `json:"kind"` // ok | fatal | panic
	Err     string    `json:"err,omitempty"`
	N       int       `json:"n"`
	Ids     []string  `json:"ids"`
	Records []*c08asm `json:"records"`
}

func c08batchRun(c c08batchCase) (res any) {
	o := &c08batchObs{Kind: "ok"}
	res = o
	if len(c.Pairs) == 0 {
		o.Kind = "badcase"
		return
	}
	if c.Size < 1 {
		c.Size = 1
	}
	if c.Workers < 1 {
		c.Workers = 1
	}
	old := log.StandardLogger().ExitFunc
	log.StandardLogger().ExitFunc = func(int) { panic("logrus fatal") }
	defer func() {
		log.StandardLogger().ExitFunc = old
		if e := recover(); e != nil {
			o.Records, o.Ids = nil, nil
			if fmt.Sprint(e) == "logrus fatal" {
				o.Kind = "fatal"
			} else {
				o.Kind, o.Err = "panic", fmt.Sprint(e)
			}
		}
	}()
	fw := make(obiseq.BioSequenceSlice, len(c.Pairs))
	rv := make(obiseq.BioSequenceSlice, len(c.Pairs))
	for i, p := range c.Pairs {
		fw[i] = c08mkA(fmt.Sprintf("p%d", i), p)
		rv[i] = c08mk(fmt.Sprintf("p%d", i), p.B, p.QB).ReverseComplement(true)
	}
	if !c.Unpaired {
		fw.PairTo(&rv)
	}
	it := obiiter.IBatchOver("c08", fw, c.Size)
	p := c.Pairs[0]
	out := obipairing.IAssemblePESequencesBatch(it, p.Gap, p.Scale, p.Delta, p.MinOv, p.MinId, p.Fast, p.Rel, !c.NoStat, c.Workers)
	o.Records = make([]*c08asm, len(c.Pairs))
	o.Ids = make([]string, len(c.Pairs))
	for out.Next() {
		b := out.Get()
		for k, s := range b.Slice() {
			i := b.Order()*c.Size + k
			if i >= len(c.Pairs) || o.Records[i] != nil {
				o.Kind, o.Err = "panic", fmt.Sprintf("batch %d item %d: no such pair or pair answered twice", b.Order(), k)
				return
			}
			o.Ids[i] = s.Id()
			o.Records[i] = &c08asm{Kind: "ok", Seq: string(s.Sequence()), Qual: c08ints(s.Qualities()), Annot: c08annot(s.Annotations())}
			o.N++
		}
	}
	return
}

func init() {
	register("c08batch", func(in *bufio.Reader, out *bufio.Writer) error {
		return eachLine(in, out, c08batchRun)
	})
}
