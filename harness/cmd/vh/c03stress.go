package main

import (
	"fmt"
	"sort"
	"strconv"
	"time"

	"git.metabarcoding.org/obitools/obitools4/obitools4/pkg/obiiter"
	"git.metabarcoding.org/obitools/obitools4/obitools4/pkg/obiseq"
)

// c03Stress: many tiny batches through a combinator, several rounds: every batch / record must come
// out exactly once with the right number (a lost / duplicated batch needs an interleaving a few
// nanoseconds wide, so it only shows on long streams).
//
// case: size = batches per round, mod = rounds, nw = workers, data[0] selects the combinator:
// 0 MakeIWorker (numbers kept: a permutation of 0..n-1), 1 FilterOn (identity predicate, size 1),
// 2 DivideOn (id odd / even, size 1), 3 Distribute (id mod 4, size 1), 4 Rebatch(1) on an input arriving in
// reversed blocks of 64, 5 SortBatches on the same input, 6 FilterAnd, 7 worker pool | Rebatch(3).
type c03StressObs struct {
	Kind      string `json:"kind"`
	Rounds    int    `json:"rounds"`
	BadRounds int    `json:"bad_rounds"`
	Missing   []int  `json:"missing,omitempty"`
	Dup       []int  `json:"dup,omitempty"`
	Hang      bool   `json:"hang,omitempty"`
	Detail    string `json:"detail,omitempty"`
}

var c03StressSeqs []*obiseq.BioSequence

// the k-th batch pushed has number c03StressOrder(k, n, scrambled): identity, or reversed blocks of 64
func c03StressOrder(k, n int, scrambled bool) int {
	if !scrambled {
		return k
	}
	b := (k / 64) * 64
	e := b + 64
	if e > n {
		e = n
	}
	return b + (e - 1 - k)
}

// batch number o carries the single record of id (o mod 8)
func c03StressSource(n int, scrambled bool) obiiter.IBioSequence {
	it := obiiter.MakeIBioSequence()
	it.Add(1)
	go func() {
		for k := 0; k < n; k++ {
			o := c03StressOrder(k, n, scrambled)
			it.Push(obiiter.MakeBioSequenceBatch("src", o, obiseq.BioSequenceSlice{c03StressSeqs[o%8]}))
		}
		it.Done()
	}()
	go it.WaitAndClose()
	return it
}

// c03StressDrain: checks one output stream; want(j) = id of the record expected in the j-th delivered
// batch (batches of one record numbered 0,1,2.. in delivery order), or permutation mode (numbers only).
type c03StressSink struct {
	n    int
	bad  string
	done chan struct{}
}

func c03StressInOrder(it obiiter.IBioSequence, expect int, want func(j int) int) *c03StressSink {
	s := &c03StressSink{done: make(chan struct{})}
	go func() {
		j := 0
		for it.Next() {
			b := it.Get()
			if s.bad == "" {
				if b.Order() != j {
					s.bad = fmt.Sprintf("batch delivered at position %d has number %d", j, b.Order())
				} else if b.Len() != 1 {
					s.bad = fmt.Sprintf("batch %d has %d records", j, b.Len())
				} else if id := c03Id(b.Slice()[0]); id != want(j) {
					s.bad = fmt.Sprintf("batch %d holds record %d, expected %d", j, id, want(j))
				}
			}
			j++
		}
		if s.bad == "" && j != expect {
			s.bad = fmt.Sprintf("%d batches delivered, expected %d", j, expect)
		}
		s.n = j
		close(s.done)
	}()
	return s
}

func c03StressRun(c c03Case) c03StressObs {
	obs := c03StressObs{Kind: "stress"}
	n := c.Size
	what := 0
	if len(c.Data) > 0 {
		what = c.Data[0]
	}
	if c03StressSeqs == nil {
		for i := 0; i < 8; i++ {
			c03StressSeqs = append(c03StressSeqs, c03Seq(i))
		}
	}
	id := func(s *obiseq.BioSequence) (obiseq.BioSequenceSlice, error) { return obiseq.BioSequenceSlice{s}, nil }
	yes := func(s *obiseq.BioSequence) bool { return true }
	for r := 0; r < c.Mod; r++ {
		obs.Rounds++
		sinks := []*c03StressSink{}
		var seen []int
		permDone := make(chan struct{})
		switch what {
		case 0:
			out := c03StressSource(n, false).MakeIWorker(id, false, c.NW)
			seen = make([]int, n)
			go func() {
				for out.Next() {
					o := out.Get().Order()
					if o >= 0 && o < n {
						seen[o]++
					}
				}
				close(permDone)
			}()
		case 1:
			sinks = append(sinks, c03StressInOrder(c03StressSource(n, false).FilterOn(yes, 1, c.NW), n, func(j int) int { return j % 8 }))
		case 6:
			sinks = append(sinks, c03StressInOrder(c03StressSource(n, false).FilterAnd(yes, 1, c.NW), n, func(j int) int { return j % 8 }))
		case 2:
			t, f := c03StressSource(n, true).DivideOn(func(s *obiseq.BioSequence) bool { return c03Id(s)%2 == 1 }, 1)
			sinks = append(sinks, c03StressInOrder(t, n/2, func(j int) int { return (2*j + 1) % 8 }),
				c03StressInOrder(f, n-n/2, func(j int) int { return (2 * j) % 8 }))
		case 3:
			cl := &obiseq.BioSequenceClassifier{
				Code:  func(s *obiseq.BioSequence) int { return c03Id(s) % 4 },
				Value: func(k int) string { return strconv.Itoa(k) },
				Reset: func() {},
				Type:  "verif",
			}
			d := c03StressSource(n, true).Distribute(cl, 1)
			keys := 0
			for k := range d.News() {
				k := k
				it, err := d.Outputs(k)
				if err != nil {
					obs.Detail = err.Error()
					continue
				}
				keys++
				cnt := 0
				for i := k; i < n; i += 4 {
					cnt++
				}
				sinks = append(sinks, c03StressInOrder(it, cnt, func(j int) int { return (4*j + k) % 8 }))
			}
			if keys != 4 && n >= 8 {
				obs.Detail = fmt.Sprintf("%d keys announced", keys)
			}
		case 4:
			sinks = append(sinks, c03StressInOrder(c03StressSource(n, true).Rebatch(1), n, func(j int) int { return j % 8 }))
		case 5:
			sinks = append(sinks, c03StressInOrder(c03StressSource(n, true).SortBatches(), n, func(j int) int { return j % 8 }))
		case 7:
			sinks = append(sinks, c03StressInOrder(c03StressSource(n, false).MakeIWorker(id, false, c.NW).Rebatch(1), n, func(j int) int { return j % 8 }))
		}
		deadline := time.After(120 * time.Second)
		bad := false
		if seen != nil {
			select {
			case <-permDone:
			case <-deadline:
				obs.Hang = true
				obs.BadRounds++
				return obs
			}
			for i, k := range seen {
				if k == 0 {
					bad = true
					if len(obs.Missing) < 5 {
						obs.Missing = append(obs.Missing, i)
					}
				} else if k > 1 {
					bad = true
					if len(obs.Dup) < 5 {
						obs.Dup = append(obs.Dup, i)
					}
				}
			}
		}
		for _, s := range sinks {
			select {
			case <-s.done:
				if s.bad != "" {
					bad = true
					if obs.Detail == "" {
						obs.Detail = s.bad
					}
				}
			case <-deadline:
				obs.Hang = true
				obs.BadRounds++
				return obs
			}
		}
		if bad || (obs.Detail != "" && what == 3) {
			obs.BadRounds++
		}
	}
	sort.Ints(obs.Missing)
	return obs
}
