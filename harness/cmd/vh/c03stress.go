package main

import (
	"sort"
	"time"

	"git.metabarcoding.org/obitools/obitools4/obitools4/pkg/obiiter"
	"git.metabarcoding.org/obitools/obitools4/obitools4/pkg/obiseq"
)

// c03Stress: many tiny batches through the parallel worker pool, several rounds: every batch number
// 0..n-1 must come out exactly once (a lost / duplicated batch needs an interleaving a few
// nanoseconds wide, so it only shows on long streams).
type c03StressObs struct {
	Kind      string `json:"kind"`
	Rounds    int    `json:"rounds"`
	BadRounds int    `json:"bad_rounds"`
	Missing   []int  `json:"missing,omitempty"`
	Dup       []int  `json:"dup,omitempty"`
	Hang      bool   `json:"hang,omitempty"`
}

func c03StressRun(c c03Case) c03StressObs {
	obs := c03StressObs{Kind: "stress"}
	n := c.Size
	shared := obiseq.BioSequenceSlice{c03Seq(0)}
	for r := 0; r < c.Mod; r++ {
		obs.Rounds++
		it := obiiter.MakeIBioSequence()
		it.Add(1)
		go func() {
			for i := 0; i < n; i++ {
				it.Push(obiiter.MakeBioSequenceBatch("src", i, shared))
			}
			it.Done()
		}()
		go it.WaitAndClose()
		id := func(s *obiseq.BioSequence) (obiseq.BioSequenceSlice, error) { return obiseq.BioSequenceSlice{s}, nil }
		out := it.MakeIWorker(id, false, c.NW)
		seen := make([]int, n)
		done := make(chan struct{})
		go func() {
			for out.Next() {
				o := out.Get().Order()
				if o >= 0 && o < n {
					seen[o]++
				}
			}
			close(done)
		}()
		select {
		case <-done:
		case <-time.After(60 * time.Second):
			obs.Hang = true
			obs.BadRounds++
			return obs
		}
		bad := false
		for i, k := range seen {
			if k == 0 {
				bad = true
				if len(obs.Missing) < 5 {
					obs.Missing = append(obs.Missing, i)
				}
			} else if k > 1 {
				bad = true
				if len(obs.Dup) < 5 {
					obs.Dup = append(obs.Dup, i)
				}
			}
		}
		if bad {
			obs.BadRounds++
		}
	}
	sort.Ints(obs.Missing)
	return obs
}
