package main

import (
	"bufio"
	"fmt"
	"strconv"

	"git.metabarcoding.org/obitools/obitools4/obitools4/pkg/obifp"
)

// case: width 64|128|256, op, operands as decimal limb strings (least significant first), n shift / small operand
type c20case struct {
	W  int      `json:"w"`
	Op string   `json:"op"`
	A  []string `json:"a"`
	B  []string `json:"b"`
	N  uint     `json:"n"`
}

type c20obs struct {
	Kind  string   `json:"kind"` // limbs | panic | int | bool
	Limbs []string `json:"limbs,omitempty"`
	Limbs2 []string `json:"limbs2,omitempty"`
	Int   int64    `json:"int"`
}

func limbs(s []string, n int) []uint64 {
	r := make([]uint64, n)
	for i := 0; i < n && i < len(s); i++ {
		v, err := strconv.ParseUint(s[i], 10, 64)
		if err != nil {
			panic(err)
		}
		r[i] = v
	}
	return r
}

func strs(l []uint64) []string {
	r := make([]string, len(l))
	for i, v := range l {
		r[i] = strconv.FormatUint(v, 10)
	}
	return r
}

func b2i(b bool) int64 {
	if b {
		return 1
	}
	return 0
}

func c20run(c c20case) (o c20obs) {
	defer func() {
		if r := recover(); r != nil {
			o = c20obs{Kind: "panic"}
		}
	}()
	L := func(l []uint64) c20obs { return c20obs{Kind: "limbs", Limbs: strs(l)} }
	I := func(i int64) c20obs { return c20obs{Kind: "int", Int: i} }
	switch c.W {
	case 64:
		a := obifp.VerifMake64([1]uint64(limbs(c.A, 1)))
		b := obifp.VerifMake64([1]uint64(limbs(c.B, 1)))
		switch c.Op {
		case "shl":
			return L(a.LeftShift(c.N).VerifLimbs())
		case "shr":
			return L(a.RightShift(c.N).VerifLimbs())
		case "add":
			return L(a.Add(b).VerifLimbs())
		case "sub":
			return L(a.Sub(b).VerifLimbs())
		case "mul":
			return L(a.Mul(b).VerifLimbs())
		case "cmp":
			return I(int64(a.Cmp(b)))
		case "lt":
			return I(b2i(a.LessThan(b)))
		case "le":
			return I(b2i(a.LessThanOrEqual(b)))
		case "gt":
			return I(b2i(a.GreaterThan(b)))
		case "ge":
			return I(b2i(a.GreaterThanOrEqual(b)))
		case "eq":
			return I(b2i(a.Equals(b)))
		case "and":
			return L(a.And(b).VerifLimbs())
		case "or":
			return L(a.Or(b).VerifLimbs())
		case "xor":
			return L(a.Xor(b).VerifLimbs())
		case "not":
			return L(a.Not().VerifLimbs())
		case "to64":
			return L(a.Uint64().VerifLimbs())
		case "to128":
			return L(a.Uint128().VerifLimbs())
		case "to256":
			return L(a.Uint256().VerifLimbs())
		case "iszero":
			return I(b2i(a.IsZero()))
		case "as64":
			return L([]uint64{a.AsUint64()})
		case "lsh64":
			v, cy := a.LeftShift64(c.N, limbs(c.B, 1)[0])
			return L([]uint64{v, cy})
		case "rsh64":
			v, cy := a.RightShift64(c.N, limbs(c.B, 1)[0])
			return L([]uint64{v, cy})
		case "zero":
			return L(a.Zero().VerifLimbs())
		case "max":
			return L(a.MaxValue().VerifLimbs())
		case "set64":
			return L(a.Set64(limbs(c.B, 1)[0]).VerifLimbs())
		case "zerouint":
			return L(obifp.ZeroUint[obifp.Uint64]().VerifLimbs())
		case "oneuint":
			return L(obifp.OneUint[obifp.Uint64]().VerifLimbs())
		case "from64":
			return L(obifp.From64[obifp.Uint64](limbs(c.B, 1)[0]).VerifLimbs())
		}
	case 128:
		a := obifp.VerifMake128([2]uint64(limbs(c.A, 2)))
		b := obifp.VerifMake128([2]uint64(limbs(c.B, 2)))
		b64 := limbs(c.B, 1)[0]
		switch c.Op {
		case "shl":
			return L(a.LeftShift(c.N).VerifLimbs())
		case "shr":
			return L(a.RightShift(c.N).VerifLimbs())
		case "add":
			return L(a.Add(b).VerifLimbs())
		case "add64":
			return L(a.Add64(b64).VerifLimbs())
		case "sub":
			return L(a.Sub(b).VerifLimbs())
		case "mul":
			return L(a.Mul(b).VerifLimbs())
		case "mul64":
			return L(a.Mul64(b64).VerifLimbs())
		case "quorem":
			q, r := a.QuoRem(b)
			return c20obs{Kind: "limbs", Limbs: strs(q.VerifLimbs()), Limbs2: strs(r.VerifLimbs())}
		case "quorem64":
			q, r := a.QuoRem64(b64)
			return c20obs{Kind: "limbs", Limbs: strs(q.VerifLimbs()), Limbs2: strs([]uint64{r})}
		case "div":
			return L(a.Div(b).VerifLimbs())
		case "mod":
			return L(a.Mod(b).VerifLimbs())
		case "div64":
			return L(a.Div64(b64).VerifLimbs())
		case "mod64":
			return L([]uint64{a.Mod64(b64)})
		case "cmp":
			return I(int64(a.Cmp(b)))
		case "cmp64":
			return I(int64(a.Cmp64(b64)))
		case "lt":
			return I(b2i(a.LessThan(b)))
		case "le":
			return I(b2i(a.LessThanOrEqual(b)))
		case "gt":
			return I(b2i(a.GreaterThan(b)))
		case "ge":
			return I(b2i(a.GreaterThanOrEqual(b)))
		case "eq":
			return I(b2i(a.Equals(b)))
		case "and":
			return L(a.And(b).VerifLimbs())
		case "or":
			return L(a.Or(b).VerifLimbs())
		case "xor":
			return L(a.Xor(b).VerifLimbs())
		case "not":
			return L(a.Not().VerifLimbs())
		case "to64":
			return L(a.Uint64().VerifLimbs())
		case "to128":
			return L(a.Uint128().VerifLimbs())
		case "to256":
			return L(a.Uint256().VerifLimbs())
		case "iszero":
			return I(b2i(a.IsZero()))
		case "as64":
			return L([]uint64{a.AsUint64()})
		case "zero":
			return L(a.Zero().VerifLimbs())
		case "max":
			return L(a.MaxValue().VerifLimbs())
		case "set64":
			return L(a.Set64(b64).VerifLimbs())
		case "zerouint":
			return L(obifp.ZeroUint[obifp.Uint128]().VerifLimbs())
		case "oneuint":
			return L(obifp.OneUint[obifp.Uint128]().VerifLimbs())
		case "from64":
			return L(obifp.From64[obifp.Uint128](b64).VerifLimbs())
		}
	case 256:
		a := obifp.VerifMake256([4]uint64(limbs(c.A, 4)))
		b := obifp.VerifMake256([4]uint64(limbs(c.B, 4)))
		switch c.Op {
		case "shl":
			return L(a.LeftShift(c.N).VerifLimbs())
		case "shr":
			return L(a.RightShift(c.N).VerifLimbs())
		case "add":
			return L(a.Add(b).VerifLimbs())
		case "sub":
			return L(a.Sub(b).VerifLimbs())
		case "mul":
			return L(a.Mul(b).VerifLimbs())
		case "div":
			return L(a.Div(b).VerifLimbs())
		case "cmp":
			return I(int64(a.Cmp(b)))
		case "lt":
			return I(b2i(a.LessThan(b)))
		case "le":
			return I(b2i(a.LessThanOrEqual(b)))
		case "gt":
			return I(b2i(a.GreaterThan(b)))
		case "ge":
			return I(b2i(a.GreaterThanOrEqual(b)))
		case "eq":
			return I(b2i(a.Equals(b)))
		case "and":
			return L(a.And(b).VerifLimbs())
		case "or":
			return L(a.Or(b).VerifLimbs())
		case "xor":
			return L(a.Xor(b).VerifLimbs())
		case "not":
			return L(a.Not().VerifLimbs())
		case "to64":
			return L(a.Uint64().VerifLimbs())
		case "to128":
			return L(a.Uint128().VerifLimbs())
		case "to256":
			return L(a.Uint256().VerifLimbs())
		case "iszero":
			return I(b2i(a.IsZero()))
		case "as64":
			return L([]uint64{a.AsUint64()})
		case "zero":
			return L(a.Zero().VerifLimbs())
		case "max":
			return L(a.MaxValue().VerifLimbs())
		case "set64":
			return L(a.Set64(limbs(c.B, 1)[0]).VerifLimbs())
		case "zerouint":
			return L(obifp.ZeroUint[obifp.Uint256]().VerifLimbs())
		case "oneuint":
			return L(obifp.OneUint[obifp.Uint256]().VerifLimbs())
		case "from64":
			return L(obifp.From64[obifp.Uint256](limbs(c.B, 1)[0]).VerifLimbs())
		}
	}
	// not a panic of the code under test: an unknown operation must never be mistaken for one
	return c20obs{Kind: fmt.Sprintf("unknown-op %d/%s", c.W, c.Op)}
}

func init() {
	register("c20", func(in *bufio.Reader, out *bufio.Writer) error {
		return eachLine(in, out, func(c c20case) any {
			// ops that may loop forever on the unchanged tree are run by the caller under a timeout
			return c20run(c)
		})
	})
}
