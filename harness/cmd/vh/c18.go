package main

// C18 — the real WriteFasta / WriteFastq / WriteJSON / WriteCSV write into an io.WriteCloser that
// fails after k bytes and/or at Close. logrus' exit function is replaced: the first call records
// "the process would have exited here with a non-zero status" together with what the device had
// received at that moment, then returns (what the code does afterwards is ignored).

import (
	"bufio"
	"bytes"
	"encoding/hex"
	"errors"
	"fmt"
	"io"
	"io/fs"
	"os"
	"sync"
	"sync/atomic"
	"syscall"
	"time"

	"git.metabarcoding.org/obitools/obitools4/obitools4/pkg/obiformats"
	"git.metabarcoding.org/obitools/obitools4/obitools4/pkg/obiiter"
	"git.metabarcoding.org/obitools/obitools4/obitools4/pkg/obiseq"
	"git.metabarcoding.org/obitools/obitools4/obitools4/pkg/obiutils"
	log "github.com/sirupsen/logrus"
)

type c18case struct {
	Writer     string `json:"writer"`  // fasta | fastq | json | csv
	Sizes      []int  `json:"sizes"`   // records per batch
	Arrival    []int  `json:"arrival"` // delivery order of the batch numbers
	Workers    int    `json:"workers"`
	Compressed bool   `json:"compressed"`
	SeqLen     int    `json:"seqlen"`      // 0: tiny sequences; else every sequence has this length
	FailAt     int    `json:"fail_at"`     // the device accepts this many bytes, then every write fails (-1: never)
	CloseFails bool   `json:"close_fails"` // Close of the device returns an error
	ErrKind    string `json:"err_kind,omitempty"` // identity of the injected error: "" (a plain error) | closed | eof | shortwrite | closedpipe | epipe
	Bytes      []int  `json:"bytes"`       // if set: batch i holds one record sized so that its formatted chunk has exactly bytes[i] bytes (0: empty batch)
	CutAt      int    `json:"cut_at"`      // > 0: the first write crossing this absolute offset stops there and reports NO error (once)
	ZeroErr    bool   `json:"zero_err"`    // a zero-length write returns an error
	// round 3
	Unowned  bool   `json:"unowned"`   // OptionDontCloseFile: the stream is not closed by the writer (JSON / CSV on stdout)
	SlowLog  bool   `json:"slow_log"`  // the logger is slow (25 ms per message): "main" runs ahead of a log.Fatalf that is issued after completion was signalled
	Rich     bool   `json:"rich"`      // records with definition, annotations (escapes, non-ASCII), qualities, taxid, count; CSV with all optional columns
	Mode     string `json:"mode"`      // "" : the four writers | "chunk" : WriteSeqFileChunk fed with the formatted chunks | "wfile" : calls on one obiutils.Wfile
	KeepOpen bool   `json:"keep_open"` // chunk mode: toBeClosed = false, the caller (the harness) closes afterwards and checks the error
	Ops      []int  `json:"ops"`       // wfile mode: sizes of the successive writes (negative: WriteString)
	Path     string `json:"path"`      // wfile mode: OpenWritingFile(path) instead of CompressStream(sink)
	Append   bool   `json:"append"`    // wfile mode with path
	Pre      int    `json:"pre"`       // wfile mode with path: bytes already in the file
	Empty    bool   `json:"empty"`     // every non-empty batch also holds a record with an empty sequence; the writers run with OptionsSkipEmptySequence(true)
}

type c18obs struct {
	Kind   string   `json:"kind"`   // ok | hang
	Exit   string   `json:"exit"`   // ok | fatal : what the process would do
	Got    string   `json:"got"`    // hex: bytes received by the device when the process exits
	Closes int      `json:"closes"` // Close calls received by the device when the process exits
	Chunks []string `json:"chunks"` // hex of the formatted batch i (csv: rows only)
	Header string   `json:"header"`
	Err    string   `json:"err,omitempty"`
	// what the device saw (at the end of the run)
	Zeros     int  `json:"zero_writes"` // zero-length writes received
	Syncs     int  `json:"syncs"`       // calls of Sync (it would fail)
	DevFailed bool `json:"dev_failed"`  // some Write or Close of the device returned an error
	// wfile mode
	Reported bool   `json:"reported"`       // some Write / WriteString / Close of the Wfile returned an error
	OpenErr  bool   `json:"open_err"`       // OpenWritingFile returned an error
	File     string `json:"file,omitempty"` // path mode: hex of the file afterwards (regular files only)
}

var errC18Full = errors.New("no space left on device (injected)")
var errC18Close = errors.New("close failed (injected)")

type c18sink struct {
	mu         sync.Mutex
	buf        []byte
	closes     int
	failAt     int
	closeFails bool
	errKind    string // identity of the error the device returns (see c18errOf)
	done       chan struct{}
	cutAt      int
	cutDone    bool
	zeroErr    bool
	zeros      int
	syncs      int
	failed     bool
}

var errC18Zero = errors.New("zero-length write refused (injected)")
var errC18Sync = errors.New("sync failed (injected)")

func (s *c18sink) Write(p []byte) (int, error) {
	s.mu.Lock()
	defer s.mu.Unlock()
	if len(p) == 0 {
		s.zeros++
		if s.zeroErr {
			s.failed = true
			return 0, errC18Zero
		}
		return 0, nil
	}
	if s.cutAt > 0 && !s.cutDone && len(s.buf) < s.cutAt && s.cutAt < len(s.buf)+len(p) {
		// a short write WITHOUT error
		p = p[:s.cutAt-len(s.buf)]
		s.cutDone = true
	}
	if s.failAt < 0 || len(s.buf)+len(p) <= s.failAt {
		s.buf = append(s.buf, p...)
		return len(p), nil
	}
	n := s.failAt - len(s.buf)
	if n < 0 {
		n = 0
	}
	s.buf = append(s.buf, p[:n]...)
	s.failed = true
	return n, c18errOf(s.errKind, "write", errC18Full)
}

// c18errOf: the error value a failing device returns. The writers must treat EVERY non-nil error of Write / Close as a
// failure, whatever its identity: os.ErrClosed (the stream was closed by somebody else), io.EOF, io.ErrShortWrite,
// io.ErrClosedPipe, EPIPE - wrapped in a *fs.PathError the way os.File reports them.
func c18errOf(kind, op string, dflt error) error {
	var e error
	switch kind {
	case "closed":
		e = os.ErrClosed
	case "eof":
		e = io.EOF
	case "shortwrite":
		e = io.ErrShortWrite
	case "closedpipe":
		e = io.ErrClosedPipe
	case "epipe":
		e = syscall.EPIPE
	default:
		return dflt
	}
	return &fs.PathError{Op: op, Path: "/injected/device", Err: e}
}

// Sync would fail: nothing on the output path calls it (counted)
func (s *c18sink) Sync() error {
	s.mu.Lock()
	defer s.mu.Unlock()
	s.syncs++
	s.failed = true
	return errC18Sync
}

func (s *c18sink) Close() error {
	s.mu.Lock()
	defer s.mu.Unlock()
	s.closes++
	if s.closes == 1 {
		close(s.done)
	}
	if s.closeFails {
		s.failed = true
		return c18errOf(s.errKind, "close", errC18Close)
	}
	return nil
}

// state of the fatal hook for the running case
var c18mu sync.Mutex
var c18cur *c18sink
var c18fatal bool
var c18snapGot []byte
var c18snapCloses int

func c18exit(code int) {
	c18mu.Lock()
	defer c18mu.Unlock()
	if c18fatal || c18cur == nil {
		return
	}
	c18fatal = true
	c18cur.mu.Lock()
	c18snapGot = append([]byte{}, c18cur.buf...)
	c18snapCloses = c18cur.closes
	c18cur.mu.Unlock()
}

var c18poisoned = false
var c18hangs = 0 // after a few hangs the remaining cases are not run (fail fast)

func c18batch(w string, b, n, order, seqlen int) obiiter.BioSequenceBatch {
	return c18batchP(w, b, n, order, seqlen, 0)
}

// c18sized: sequence length and id padding such that the single record of batch b is formatted
// (under its true number) into exactly target bytes
func c18sized(w string, b, target int) (seqlen, idpad int, ok bool) {
	seqlen = 1
	for it := 0; it < 40; it++ {
		got := len(c18format(w, c18batchP(w, b, 1, b, seqlen, idpad)))
		d := target - got
		if d == 0 {
			return seqlen, idpad, true
		}
		if w == "fastq" {
			if d >= 2 || d <= -2 {
				seqlen += d / 2
			} else if d == 1 {
				idpad++
			} else {
				seqlen--
				idpad++
			}
		} else if d == 1 && it > 3 {
			idpad++
		} else {
			seqlen += d
		}
		if seqlen < 1 {
			return 0, 0, false
		}
	}
	return 0, 0, false
}

var c18rich = false  // records of the running case carry annotations etc. (set by c18run)
var c18empty = false // a record with an empty sequence in every non-empty batch, skipped by the writers

func c18batchP(w string, b, n, order, seqlen, idpad int) obiiter.BioSequenceBatch {
	sl := make(obiseq.BioSequenceSlice, 0, n)
	for i := 0; i < n; i++ {
		id := fmt.Sprintf("b%dr%d", b, i)
		for k := 0; k < idpad; k++ {
			id += "x"
		}
		var sq []byte
		if seqlen <= 0 {
			sq = []byte("acgtacgt")[:1+(b+i)%3]
		} else {
			sq = make([]byte, seqlen)
			for k := range sq {
				sq[k] = "acgt"[(k+b+i)%4]
			}
		}
		var s *obiseq.BioSequence
		if w == "fastq" {
			q := make([]byte, len(sq))
			for k := range q {
				q[k] = byte(20 + k%20)
			}
			s = obiseq.NewBioSequenceWithQualities(id, sq, "", q)
		} else {
			s = obiseq.NewBioSequence(id, sq, "")
		}
		if c18rich {
			s.SetDefinition(fmt.Sprintf("d\u00e9finition \"%d\", a<b>&c", i))
			s.SetAttribute("k1", "x \"q\" \\u00e9 \t \u00e9\u2028<&> \U0001F600,;\n.")
			s.SetAttribute("k2", map[string]interface{}{"a": 1, "b": []interface{}{1.5, "z", true}})
			s.SetAttribute("k3", 3.25+float64(i))
			s.SetCount(3 + i)
			if (b+i)%2 == 0 {
				s.SetTaxid(9606 + i)
				s.SetAttribute("scientific_name", "Homo, \"sapiens\"")
			} else if i%2 == 1 {
				s.SetTaxid(7 + i) // a taxid without a name
			}
			if w != "fastq" && (b+i)%3 != 1 {
				q := make([]byte, len(sq))
				for k := range q {
					q[k] = byte(1 + k%40)
				}
				s.SetQualities(q)
			}
		}
		sl = append(sl, s)
		if c18empty && i == n/2 {
			if w == "fastq" {
				sl = append(sl, obiseq.NewBioSequenceWithQualities(id+"_empty", []byte{}, "", []byte{}))
			} else {
				sl = append(sl, obiseq.NewBioSequence(id+"_empty", []byte{}, ""))
			}
		}
	}
	return obiiter.MakeBioSequenceBatch("verif", order, sl)
}

// options that change the formatted text
func c18fmtopts() []obiformats.WithOption {
	if !c18rich {
		return nil
	}
	return []obiformats.WithOption{obiformats.CSVCount(true), obiformats.CSVTaxon(true), obiformats.CSVDefinition(true),
		obiformats.CSVQuality(true), obiformats.CSVKeys([]string{"k1", "k3", "absent", "k2"}), obiformats.CSVNAValue("n/a")}
}

func c18format(w string, batch obiiter.BioSequenceBatch) []byte {
	opt := obiformats.MakeOptions(c18fmtopts())
	switch w {
	case "fasta":
		return obiformats.FormatFastaBatch(batch, opt.FormatFastSeqHeader(), c18empty).Bytes()
	case "fastq":
		return obiformats.FormatFastqBatch(batch, opt.FormatFastSeqHeader(), c18empty).Bytes()
	case "json":
		return obiformats.FormatJSONBatch(batch)
	case "csv":
		return obiformats.FormatCVSBatch(batch, opt)
	}
	return nil
}

func c18run(c c18case) (o c18obs) {
	if c18hangs >= 3 {
		o.Kind, o.Err = "hang", "not run: the writers hung on 3 earlier cases of this process"
		return
	}
	defer func() {
		if o.Kind == "hang" {
			c18hangs++
		}
	}()
	o.Kind = "ok"
	c18rich, c18empty = c.Rich, c.Empty && (c.Writer == "fasta" || c.Writer == "fastq")
	if c.Mode == "wfile" {
		return c18wfile(c)
	}
	if c.SlowLog {
		log.SetOutput(c18slowlog{n: new(int32)})
		defer log.SetOutput(os.Stderr)
	}
	n := len(c.Sizes)
	type shape struct{ n, seqlen, idpad int }
	var shapes []shape
	if len(c.Bytes) > 0 {
		n = len(c.Bytes)
		for b := 0; b < n; b++ {
			if c.Bytes[b] == 0 {
				shapes = append(shapes, shape{0, 0, 0})
				continue
			}
			sl, pad, ok := c18sized(c.Writer, b, c.Bytes[b])
			if !ok {
				o.Kind, o.Err = "skip", "chunk size not reachable"
				return
			}
			shapes = append(shapes, shape{1, sl, pad})
		}
	} else {
		for b := 0; b < n; b++ {
			shapes = append(shapes, shape{c.Sizes[b], c.SeqLen, 0})
		}
	}
	mk := func(b, order int) obiiter.BioSequenceBatch {
		return c18batchP(c.Writer, b, shapes[b].n, order, shapes[b].seqlen, shapes[b].idpad)
	}
	for b := 0; b < n; b++ {
		order := b
		if c.Writer == "csv" {
			order = b + 1 // rows only
		}
		o.Chunks = append(o.Chunks, hex.EncodeToString(c18format(c.Writer, mk(b, order))))
	}
	if c.Writer == "csv" {
		o.Header = hex.EncodeToString(c18format("csv", c18batch("csv", 0, 0, 0, 0)))
	}

	sink := &c18sink{done: make(chan struct{}), failAt: c.FailAt, closeFails: c.CloseFails, cutAt: c.CutAt, zeroErr: c.ZeroErr, errKind: c.ErrKind}
	c18mu.Lock()
	c18cur, c18fatal, c18snapGot, c18snapCloses = sink, false, nil, 0
	c18mu.Unlock()

	if c.Mode == "chunk" {
		// WriteSeqFileChunk (the variant without completion signal) fed directly with the formatted chunks, in
		// the arrival order, over a Wfile; toBeClosed = false: the caller closes afterwards
		wf, _ := obiutils.CompressStream(sink, c.Compressed, !c.Unowned)
		ch := obiformats.WriteSeqFileChunk(wf, !c.KeepOpen)
		go func() {
			for _, b := range c.Arrival {
				ch <- obiformats.SeqFileChunk{Source: "verif", Raw: bytes.NewBuffer(c18format(c.Writer, mk(b, b))), Order: b}
			}
			close(ch)
		}()
		all := make(chan struct{})
		go func() { obiiter.WaitForLastPipe(); close(all) }()
		select {
		case <-all:
		case <-time.After(15 * time.Second):
			o.Kind, o.Err, c18poisoned = "hang", "pipes never unregistered", true
		}
		if c.KeepOpen && o.Kind == "ok" {
			c18mu.Lock()
			dead := c18fatal
			c18mu.Unlock()
			if !dead {
				if e := wf.Close(); e != nil {
					c18exit(1) // the caller reports it
				}
			}
		}
		return c18finish(c, sink, o)
	}
	input := obiiter.MakeIBioSequence()
	batches := make([]obiiter.BioSequenceBatch, n)
	for b := 0; b < n; b++ {
		batches[b] = mk(b, b)
	}
	go func() {
		for _, b := range c.Arrival {
			input.Push(batches[b])
		}
		input.Close()
	}()
	opts := []obiformats.WithOption{obiformats.OptionsParallelWorkers(c.Workers), obiformats.OptionCloseFile(),
		obiformats.OptionsCompressed(c.Compressed)}
	if c.Unowned {
		opts[1] = obiformats.OptionDontCloseFile()
	}
	opts = append(opts, c18fmtopts()...)
	if c18empty {
		opts = append(opts, obiformats.OptionsSkipEmptySequence(true))
	}
	var res obiiter.IBioSequence
	var err error
	switch c.Writer {
	case "fasta":
		res, err = obiformats.WriteFasta(input, sink, opts...)
	case "fastq":
		res, err = obiformats.WriteFastq(input, sink, opts...)
	case "json":
		res, err = obiformats.WriteJSON(input, sink, opts...)
	case "csv":
		res, err = obiformats.WriteCSV(input, sink, opts...)
	default:
		o.Kind, o.Err = "hang", "unknown writer"
		return
	}
	if err != nil {
		// CLIWriteBioSequences: log.Fatalf("Write file error")
		c18exit(1)
		o.Err = err.Error()
	}
	consumed := make(chan struct{})
	go func() { res.Consume(); close(consumed) }()
	tmo := time.After(15 * time.Second)
	select {
	case <-consumed:
	case <-tmo:
		o.Kind, o.Err, c18poisoned = "hang", "result iterator never finished", true
	}
	if !c18poisoned {
		all := make(chan struct{})
		go func() { obiiter.WaitForLastPipe(); close(all) }()
		select {
		case <-all:
		case <-tmo:
			o.Kind, o.Err, c18poisoned = "hang", "pipes never unregistered", true
		}
	} else if o.Kind == "ok" && c.Unowned {
		time.Sleep(20 * time.Millisecond) // a stream that is not owned is never closed: nothing to wait for
	} else if o.Kind == "ok" {
		select {
		case <-sink.done:
			time.Sleep(5 * time.Millisecond)
		case <-tmo:
			o.Kind, o.Err = "hang", "sink never closed"
		}
	}
	return c18finish(c, sink, o)
}

func c18finish(c c18case, sink *c18sink, o c18obs) c18obs {
	sink.mu.Lock()
	o.Zeros, o.Syncs, o.DevFailed = sink.zeros, sink.syncs, sink.failed
	sink.mu.Unlock()
	c18mu.Lock()
	defer c18mu.Unlock()
	if c18fatal {
		o.Exit = "fatal"
		o.Got, o.Closes = hex.EncodeToString(c18snapGot), c18snapCloses
	} else {
		o.Exit = "ok"
		sink.mu.Lock()
		o.Got, o.Closes = hex.EncodeToString(sink.buf), sink.closes
		sink.mu.Unlock()
	}
	c18cur = nil
	return o
}

// a slow log device: what a terminal / a pipe to a busy reader is for log.Fatalf
type c18slowlog struct{ n *int32 }

// only the first message of a case is slow: it is the one that races with main (after the intercepted exit the code
// goes on and may log one fatal message per remaining write)
func (l c18slowlog) Write(p []byte) (int, error) {
	if atomic.AddInt32(l.n, 1) == 1 {
		time.Sleep(25 * time.Millisecond)
	}
	return len(p), nil
}

// c18wfile: a history of calls on ONE obiutils.Wfile: Write / WriteString of the given sizes, then Close.
// Observed: did any call return an error; what the device holds; how often it was closed.
func c18wfile(c c18case) (o c18obs) {
	o.Kind = "ok"
	sink := &c18sink{done: make(chan struct{}), failAt: c.FailAt, closeFails: c.CloseFails, cutAt: c.CutAt, zeroErr: c.ZeroErr, errKind: c.ErrKind}
	var wf *obiutils.Wfile
	var err error
	if c.Path != "" {
		if c.Pre >= 0 {
			pre := make([]byte, c.Pre)
			for i := range pre {
				pre[i] = 'P'
			}
			if e := os.WriteFile(c.Path, pre, 0o644); e != nil && c.Path != "/dev/full" {
				o.Kind, o.Err = "skip", e.Error()
				return
			}
		}
		wf, err = obiutils.OpenWritingFile(c.Path, c.Compressed, c.Append)
		if err != nil {
			o.OpenErr, o.Reported, o.Exit = true, true, "fatal"
			return
		}
	} else {
		wf, _ = obiutils.CompressStream(sink, c.Compressed, !c.Unowned)
	}
	pos := 0
	for _, n := range c.Ops {
		m := n
		if m < 0 {
			m = -m
		}
		p := make([]byte, m)
		for i := range p {
			p[i] = "acgt"[(pos+i)%4]
		}
		pos += m
		o.Chunks = append(o.Chunks, hex.EncodeToString(p))
		var e error
		if n < 0 {
			_, e = wf.WriteString(string(p))
		} else {
			_, e = wf.Write(p)
		}
		if e != nil {
			o.Reported = true
		}
	}
	if e := wf.Close(); e != nil {
		o.Reported = true
	}
	o.Exit = "ok"
	if o.Reported {
		o.Exit = "fatal"
	}
	sink.mu.Lock()
	o.Zeros, o.Syncs, o.DevFailed = sink.zeros, sink.syncs, sink.failed
	o.Got, o.Closes = hex.EncodeToString(sink.buf), sink.closes
	sink.mu.Unlock()
	if c.Path != "" && c.Path != "/dev/full" {
		if data, e := os.ReadFile(c.Path); e == nil {
			o.File = hex.EncodeToString(data)
		}
	}
	return
}

func init() {
	register("c18", func(in *bufio.Reader, out *bufio.Writer) error {
		log.StandardLogger().ExitFunc = c18exit
		return eachLine(in, out, func(c c18case) any { return c18run(c) })
	})
}
