package main

// C18 — the real WriteFasta / WriteFastq / WriteJSON / WriteCSV write into an io.WriteCloser that
// fails after k bytes and/or at Close. logrus' exit function is replaced: the first call records
// "the process would have exited here with a non-zero status" together with what the device had
// received at that moment, then returns (what the code does afterwards is ignored).

import (
	"bufio"
	"encoding/hex"
	"errors"
	"fmt"
	"sync"
	"time"

	"git.metabarcoding.org/obitools/obitools4/obitools4/pkg/obiformats"
	"git.metabarcoding.org/obitools/obitools4/obitools4/pkg/obiiter"
	"git.metabarcoding.org/obitools/obitools4/obitools4/pkg/obiseq"
	log "github.com/sirupsen/logrus"
)

type c18case struct {
	Writer     string `json:"writer"`  // fasta | fastq | json | csv
	Sizes      []int  `json:"sizes"`   // records per batch
	Arrival    []int  `json:"arrival"` // delivery order of the batch numbers
	Workers    int    `json:"workers"`
	Compressed bool   `json:"compressed"`
	SeqLen     int    `json:"seqlen"`      // 0: tiny sequences; else every sequence has this length
	FailAt     int    `json:"fail_at"`     // the device accepts this many bytes, then every write fails (-1: never)
	CloseFails bool   `json:"close_fails"` // Close of the device returns an error
	Bytes      []int  `json:"bytes"`       // if set: batch i holds one record sized so that its formatted chunk has exactly bytes[i] bytes (0: empty batch)
	CutAt      int    `json:"cut_at"`      // > 0: the first write crossing this absolute offset stops there and reports NO error (once)
	ZeroErr    bool   `json:"zero_err"`    // a zero-length write returns an error
}

type c18obs struct {
	Kind   string   `json:"kind"`   // ok | hang
	Exit   string   `json:"exit"`   // ok | fatal : what the process would do
	Got    string   `json:"got"`    // hex: bytes received by the device when the process exits
	Closes int      `json:"closes"` // Close calls received by the device when the process exits
	Chunks []string `json:"chunks"` // hex of the formatted batch i (csv: rows only)
	Header string   `json:"header"`
	Err    string   `json:"err,omitempty"`
	// what the device saw (at the end of the run)
	Zeros     int  `json:"zero_writes"` // zero-length writes received
	Syncs     int  `json:"syncs"`       // calls of Sync (it would fail)
	DevFailed bool `json:"dev_failed"`  // some Write or Close of the device returned an error
}

var errC18Full = errors.New("no space left on device (injected)")
var errC18Close = errors.New("close failed (injected)")

type c18sink struct {
	mu         sync.Mutex
	buf        []byte
	closes     int
	failAt     int
	closeFails bool
	done       chan struct{}
	cutAt      int
	cutDone    bool
	zeroErr    bool
	zeros      int
	syncs      int
	failed     bool
}

var errC18Zero = errors.New("zero-length write refused (injected)")
var errC18Sync = errors.New("sync failed (injected)")

func (s *c18sink) Write(p []byte) (int, error) {
	s.mu.Lock()
	defer s.mu.Unlock()
	if len(p) == 0 {
		s.zeros++
		if s.zeroErr {
			s.failed = true
			return 0, errC18Zero
		}
		return 0, nil
	}
	if s.cutAt > 0 && !s.cutDone && len(s.buf) < s.cutAt && s.cutAt < len(s.buf)+len(p) {
		// a short write WITHOUT error
		p = p[:s.cutAt-len(s.buf)]
		s.cutDone = true
	}
	if s.failAt < 0 || len(s.buf)+len(p) <= s.failAt {
		s.buf = append(s.buf, p...)
		return len(p), nil
	}
	n := s.failAt - len(s.buf)
	if n < 0 {
		n = 0
	}
	s.buf = append(s.buf, p[:n]...)
	s.failed = true
	return n, errC18Full
}

// Sync would fail: nothing on the output path calls it (counted)
func (s *c18sink) Sync() error {
	s.mu.Lock()
	defer s.mu.Unlock()
	s.syncs++
	s.failed = true
	return errC18Sync
}

func (s *c18sink) Close() error {
	s.mu.Lock()
	defer s.mu.Unlock()
	s.closes++
	if s.closes == 1 {
		close(s.done)
	}
	if s.closeFails {
		s.failed = true
		return errC18Close
	}
	return nil
}

// state of the fatal hook for the running case
var c18mu sync.Mutex
var c18cur *c18sink
var c18fatal bool
var c18snapGot []byte
var c18snapCloses int

func c18exit(code int) {
	c18mu.Lock()
	defer c18mu.Unlock()
	if c18fatal || c18cur == nil {
		return
	}
	c18fatal = true
	c18cur.mu.Lock()
	c18snapGot = append([]byte{}, c18cur.buf...)
	c18snapCloses = c18cur.closes
	c18cur.mu.Unlock()
}

var c18poisoned = false
var c18hangs = 0 // after a few hangs the remaining cases are not run (fail fast)

func c18batch(w string, b, n, order, seqlen int) obiiter.BioSequenceBatch {
	return c18batchP(w, b, n, order, seqlen, 0)
}

// c18sized: sequence length and id padding such that the single record of batch b is formatted
// (under its true number) into exactly target bytes
func c18sized(w string, b, target int) (seqlen, idpad int, ok bool) {
	seqlen = 1
	for it := 0; it < 40; it++ {
		got := len(c18format(w, c18batchP(w, b, 1, b, seqlen, idpad)))
		d := target - got
		if d == 0 {
			return seqlen, idpad, true
		}
		if w == "fastq" {
			if d >= 2 || d <= -2 {
				seqlen += d / 2
			} else if d == 1 {
				idpad++
			} else {
				seqlen--
				idpad++
			}
		} else if d == 1 && it > 3 {
			idpad++
		} else {
			seqlen += d
		}
		if seqlen < 1 {
			return 0, 0, false
		}
	}
	return 0, 0, false
}

func c18batchP(w string, b, n, order, seqlen, idpad int) obiiter.BioSequenceBatch {
	sl := make(obiseq.BioSequenceSlice, 0, n)
	for i := 0; i < n; i++ {
		id := fmt.Sprintf("b%dr%d", b, i)
		for k := 0; k < idpad; k++ {
			id += "x"
		}
		var sq []byte
		if seqlen <= 0 {
			sq = []byte("acgtacgt")[:1+(b+i)%3]
		} else {
			sq = make([]byte, seqlen)
			for k := range sq {
				sq[k] = "acgt"[(k+b+i)%4]
			}
		}
		var s *obiseq.BioSequence
		if w == "fastq" {
			q := make([]byte, len(sq))
			for k := range q {
				q[k] = byte(20 + k%20)
			}
			s = obiseq.NewBioSequenceWithQualities(id, sq, "", q)
		} else {
			s = obiseq.NewBioSequence(id, sq, "")
		}
		sl = append(sl, s)
	}
	return obiiter.MakeBioSequenceBatch("verif", order, sl)
}

func c18format(w string, batch obiiter.BioSequenceBatch) []byte {
	opt := obiformats.MakeOptions(nil)
	switch w {
	case "fasta":
		return obiformats.FormatFastaBatch(batch, opt.FormatFastSeqHeader(), false).Bytes()
	case "fastq":
		return obiformats.FormatFastqBatch(batch, opt.FormatFastSeqHeader(), false).Bytes()
	case "json":
		return obiformats.FormatJSONBatch(batch)
	case "csv":
		return obiformats.FormatCVSBatch(batch, opt)
	}
	return nil
}

func c18run(c c18case) (o c18obs) {
	if c18hangs >= 3 {
		o.Kind, o.Err = "hang", "not run: the writers hung on 3 earlier cases of this process"
		return
	}
	defer func() {
		if o.Kind == "hang" {
			c18hangs++
		}
	}()
	o.Kind = "ok"
	n := len(c.Sizes)
	type shape struct{ n, seqlen, idpad int }
	var shapes []shape
	if len(c.Bytes) > 0 {
		n = len(c.Bytes)
		for b := 0; b < n; b++ {
			if c.Bytes[b] == 0 {
				shapes = append(shapes, shape{0, 0, 0})
				continue
			}
			sl, pad, ok := c18sized(c.Writer, b, c.Bytes[b])
			if !ok {
				o.Kind, o.Err = "skip", "chunk size not reachable"
				return
			}
			shapes = append(shapes, shape{1, sl, pad})
		}
	} else {
		for b := 0; b < n; b++ {
			shapes = append(shapes, shape{c.Sizes[b], c.SeqLen, 0})
		}
	}
	mk := func(b, order int) obiiter.BioSequenceBatch {
		return c18batchP(c.Writer, b, shapes[b].n, order, shapes[b].seqlen, shapes[b].idpad)
	}
	for b := 0; b < n; b++ {
		order := b
		if c.Writer == "csv" {
			order = b + 1 // rows only
		}
		o.Chunks = append(o.Chunks, hex.EncodeToString(c18format(c.Writer, mk(b, order))))
	}
	if c.Writer == "csv" {
		o.Header = hex.EncodeToString(c18format("csv", c18batch("csv", 0, 0, 0, 0)))
	}

	sink := &c18sink{done: make(chan struct{}), failAt: c.FailAt, closeFails: c.CloseFails, cutAt: c.CutAt, zeroErr: c.ZeroErr}
	c18mu.Lock()
	c18cur, c18fatal, c18snapGot, c18snapCloses = sink, false, nil, 0
	c18mu.Unlock()

	input := obiiter.MakeIBioSequence()
	batches := make([]obiiter.BioSequenceBatch, n)
	for b := 0; b < n; b++ {
		batches[b] = mk(b, b)
	}
	go func() {
		for _, b := range c.Arrival {
			input.Push(batches[b])
		}
		input.Close()
	}()
	opts := []obiformats.WithOption{obiformats.OptionsParallelWorkers(c.Workers), obiformats.OptionCloseFile(),
		obiformats.OptionsCompressed(c.Compressed)}
	var res obiiter.IBioSequence
	var err error
	switch c.Writer {
	case "fasta":
		res, err = obiformats.WriteFasta(input, sink, opts...)
	case "fastq":
		res, err = obiformats.WriteFastq(input, sink, opts...)
	case "json":
		res, err = obiformats.WriteJSON(input, sink, opts...)
	case "csv":
		res, err = obiformats.WriteCSV(input, sink, opts...)
	default:
		o.Kind, o.Err = "hang", "unknown writer"
		return
	}
	if err != nil {
		// CLIWriteBioSequences: log.Fatalf("Write file error")
		c18exit(1)
		o.Err = err.Error()
	}
	consumed := make(chan struct{})
	go func() { res.Consume(); close(consumed) }()
	tmo := time.After(15 * time.Second)
	select {
	case <-consumed:
	case <-tmo:
		o.Kind, o.Err, c18poisoned = "hang", "result iterator never finished", true
	}
	if !c18poisoned {
		all := make(chan struct{})
		go func() { obiiter.WaitForLastPipe(); close(all) }()
		select {
		case <-all:
		case <-tmo:
			o.Kind, o.Err, c18poisoned = "hang", "pipes never unregistered", true
		}
	} else if o.Kind == "ok" {
		select {
		case <-sink.done:
			time.Sleep(5 * time.Millisecond)
		case <-tmo:
			o.Kind, o.Err = "hang", "sink never closed"
		}
	}
	sink.mu.Lock()
	o.Zeros, o.Syncs, o.DevFailed = sink.zeros, sink.syncs, sink.failed
	sink.mu.Unlock()
	c18mu.Lock()
	defer c18mu.Unlock()
	if c18fatal {
		o.Exit = "fatal"
		o.Got, o.Closes = hex.EncodeToString(c18snapGot), c18snapCloses
	} else {
		o.Exit = "ok"
		sink.mu.Lock()
		o.Got, o.Closes = hex.EncodeToString(sink.buf), sink.closes
		sink.mu.Unlock()
	}
	c18cur = nil
	return
}

func init() {
	register("c18", func(in *bufio.Reader, out *bufio.Writer) error {
		log.StandardLogger().ExitFunc = c18exit
		return eachLine(in, out, func(c c18case) any { return c18run(c) })
	})
}
