// c03 round 3 — the anchored code that no case executed before: Count / Consume, chained workers and
// workers that return errors (SeqToSliceWorker, ChainWorkers, breakOnError), the Pipeable glue (Pipeline,
// WorkerPipe, MergePipe), two Rebatch stages of the same size around a filter (PairTo | FilterOn /
// FilterAnd as paired obigrep composes them), ExpandListOfFiles on a real directory tree, the accessors
// of batches and iterators.
package main

import (
	"errors"
	"os"
	"path/filepath"
	"sort"
	"strconv"
	"strings"

	"git.metabarcoding.org/obitools/obitools4/obitools4/pkg/obiiter"
	"git.metabarcoding.org/obitools/obitools4/obitools4/pkg/obioptions"
	"git.metabarcoding.org/obitools/obitools4/obitools4/pkg/obiseq"
	"git.metabarcoding.org/obitools/obitools4/obitools4/pkg/obitools/obiconvert"
)

// c03Node: one entry of the directory tree of an "expand" case. Kind: "f" regular file, "d" directory,
// "l" symbolic link to Target (a path of the same tree).
type c03Node struct {
	Path   string `json:"path"`
	Kind   string `json:"kind"`
	Target string `json:"target,omitempty"`
}

// c03WorkerE: c03Worker(mod) that moreover returns an error on the records with id mod errmod == rem
func c03WorkerE(mod, yield, errmod, rem int) obiseq.SeqWorker {
	w := c03Worker(mod, yield)
	if errmod <= 0 {
		return w
	}
	return func(s *obiseq.BioSequence) (obiseq.BioSequenceSlice, error) {
		if c03Id(s)%errmod == rem {
			return obiseq.BioSequenceSlice{}, errors.New("verif: worker error")
		}
		return w(s)
	}
}

// c03Result: an iterator that delivers ONE batch numbered 0 holding the values computed by f (as record ids),
// or no batch when f returns nil; closed when f has returned
func c03Result(f func() []int) obiiter.IBioSequence {
	res := obiiter.MakeIBioSequence()
	res.Add(1)
	go func() {
		if v := f(); v != nil {
			sl := obiseq.BioSequenceSlice{}
			for _, x := range v {
				sl = append(sl, c03Seq(x))
			}
			res.Push(obiiter.MakeBioSequenceBatch("res", 0, sl))
		}
		res.Done()
	}()
	go res.WaitAndClose()
	return res
}

func c03Expand(c c03Case, obs *c03Obs) {
	root, err := os.MkdirTemp("", "c03expand")
	if err != nil {
		panic(err)
	}
	defer os.RemoveAll(root)
	if r, e := filepath.EvalSymlinks(root); e == nil {
		root = r
	}
	for _, n := range c.Tree {
		p := filepath.Join(root, n.Path)
		switch n.Kind {
		case "d":
			err = os.MkdirAll(p, 0o755)
		case "f":
			if err = os.MkdirAll(filepath.Dir(p), 0o755); err == nil {
				err = os.WriteFile(p, []byte(">x\nacgt\n"), 0o644)
			}
		case "l":
			if err = os.MkdirAll(filepath.Dir(p), 0o755); err == nil {
				err = os.Symlink(filepath.Join(root, n.Target), p)
			}
		}
		if err != nil {
			panic(err)
		}
	}
	args := []string{}
	for _, a := range c.Args {
		args = append(args, filepath.Join(root, a))
	}
	files, e := obiconvert.ExpandListOfFiles(false, args...)
	obs.Files = []string{}
	if e != nil {
		obs.Err = "error"
		return
	}
	for _, f := range files {
		rel, e := filepath.Rel(root, f)
		if e != nil {
			rel = f
		}
		obs.Files = append(obs.Files, filepath.ToSlash(rel))
	}
}

// c03RunR3 runs the round-3 combinators; false: unknown op
func c03RunR3(c c03Case, col *c03Collector, src func(int) obiiter.IBioSequence, nw int, obs *c03Obs) bool {
	switch c.Op {
	case "count":
		// Count: (variants, reads, nucleotides) of the whole stream, whatever the partition and the arrival order
		it := src(0)
		col.drain(0, c03Result(func() []int {
			v, r, n := it.Count(true)
			return []int{v, r, n}
		}), false)
	case "consume":
		// Consume reads the stream to its end: the output is closed once Consume has returned, after
		// the source has delivered its last batch
		it := src(0)
		col.drain(0, c03Result(func() []int {
			it.Consume()
			return nil
		}), false)
	case "chain", "chain_brk":
		// w1.ChainWorkers(w2) in the worker pool; w1 fails on id mod errmod == 3, w2 on id mod errmod == 4
		var w1, w2 obiseq.SeqWorker
		if c.NilW&1 == 0 {
			w1 = c03WorkerE(c.Mod, c.Yield, c.ErrMod, 3)
		}
		if c.NilW&2 == 0 {
			w2 = c03WorkerE(c.Mod2, 0, c.ErrMod, 4)
		}
		col.drain(0, src(0).MakeIWorker(w1.ChainWorkers(w2), c.Op == "chain_brk", nw).SortBatches(), false)
	case "cond_err", "cond_err_brk":
		// MakeIConditionalWorker whose worker fails on id mod errmod == 3
		col.drain(0, src(0).MakeIConditionalWorker(c03Pred(c.Mod2), c03WorkerE(c.Mod, c.Yield, c.ErrMod, 3), c.Op == "cond_err_brk", nw).SortBatches(), false)
	case "pipeparts":
		// Pipeline of several Pipeables: WorkerPipe | WorkerPipe(NilSeqWorker) | SliceWorkerPipe (every part changes
		// the stream or is the identity: a part that is skipped, doubled or moved shows)
		p := obiiter.Pipeline(
			obiiter.WorkerPipe(c03Worker(c.Mod, c.Yield), false, nw),
			obiiter.WorkerPipe(obiseq.NilSeqWorker, false, nw),
			obiiter.SliceWorkerPipe(obiseq.SeqToSliceWorker(c03Worker(c.Mod2, 0), false), false, nw))
		col.drain(0, p(src(0)).SortBatches(), false)
	case "mergepipe":
		col.drain(0, src(0).Pipe(obiiter.MergePipe("NA", obiseq.StatsOnDescriptions{}, c.Size)), false)
	case "rebatch_filter":
		// two Rebatch stages of the same size around a filter
		col.drain(0, src(0).Rebatch(c.Size).FilterOn(c03Pred(c.Mod), c.Size, nw), false)
	case "pairto_filteron", "pairto_filterand":
		// paired obigrep: PairTo (both streams through Rebatch(batch size)) then FilterOn / FilterAnd (workers + Rebatch)
		obioptions.SetBatchSize(c.Size)
		it := src(0).PairTo(src(1))
		if c.Op == "pairto_filteron" {
			it = it.FilterOn(c03Pred(c.Mod), c.Size, nw)
		} else {
			it = it.FilterAnd(c03Pred(c.Mod), c.Size, nw)
		}
		col.drain(0, it, true)
	case "accessors":
		// the small accessors of batches and iterators, judged on a batch made of c.Data:
		// key 0 = the answers, key 1 = a live iterator closed through its own Add/Done, key 2 = the batch after Pop0
		it := obiiter.MakeIBioSequence()
		b := obiiter.MakeBioSequenceBatch("src", 7, c03Slice(c.Data))
		v := []int{}
		add := func(ok bool) {
			if ok {
				v = append(v, 1)
			} else {
				v = append(v, 0)
			}
		}
		add(b.NotEmpty())
		add(b.IsPaired())
		add(it.IsNil())
		v = append(v, it.BatchSize()+1)
		add(it.SetBatchSize(c.Size) == nil)
		v = append(v, it.BatchSize()+1)
		add(it.SetBatchSize(-1) == nil)
		v = append(v, it.BatchSize()+1)
		it.Lock()
		it.Unlock()
		it.RLock()
		it.RUnlock()
		func() { // IsNil of the nil iterator: 1 true, 0 false, 2 panic
			defer func() {
				if recover() != nil {
					v = append(v, 2)
				}
			}()
			add(obiiter.NilIBioSequence.IsNil())
		}()
		bb := obiiter.MakeBioSequenceBatch("src", 7, c03Slice(c.Data))
		bb.UnPair()
		add(bb.IsPaired())
		v = append(v, c03Id(b.Pop0())+1) // 0: nothing to pop
		// a chained worker on a nil record: no record, no error
		r, e := c03Worker(2, 0).ChainWorkers(c03Worker(3, 0))(nil)
		add(len(r) == 0 && e == nil)
		it.Add(1)
		go it.WaitAndClose()
		it.Done()
		col.drain(1, it, false)
		col.drain(0, c03Result(func() []int { return v }), false)
		after := obiiter.MakeIBioSequence()
		after.Add(1)
		go func() {
			after.Push(b)
			after.Done()
		}()
		go after.WaitAndClose()
		col.drain(2, after, false)
	case "expand":
		c03Expand(c, obs)
	default:
		return false
	}
	return true
}

var _ = sort.Ints
var _ = strconv.Itoa
var _ = strings.Index
