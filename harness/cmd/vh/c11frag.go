package main

// vh c11frag — obiiter.IFragments (the cutting of long sequences behind `obipcr --fragmented`).
// One case = sequence lengths + (minsize, length, overlap); the observation lists, per input sequence, the
// fragments [start, end) produced for it, in the order they were emitted.

import (
	"bufio"
	"fmt"
	"regexp"
	"strconv"
	"strings"

	"git.metabarcoding.org/obitools/obitools4/obitools4/pkg/obiiter"
	"git.metabarcoding.org/obitools/obitools4/obitools4/pkg/obiseq"
)

type c11fragCase struct {
	Lens    []int `json:"lens"`
	Minsize int   `json:"minsize"`
	Length  int   `json:"length"`
	Overlap int   `json:"overlap"`
	Batch   int   `json:"batch"`
	Workers int   `json:"workers"`
}

type c11fragObs struct {
	Kind  string     `json:"kind"`
	Err   string     `json:"err,omitempty"`
	Frags [][][2]int `json:"frags"`
}

var c11fragId = regexp.MustCompile(`^s(\d+)(?:_sub\[(\d+)\.\.(\d+)\])?$`)

func c11fragRun(c c11fragCase) (o c11fragObs) {
	defer func() {
		if r := recover(); r != nil {
			o = c11fragObs{Kind: "panic", Err: fmt.Sprint(r)}
		}
	}()
	seqs := make(obiseq.BioSequenceSlice, len(c.Lens))
	for i, n := range c.Lens {
		seqs[i] = obiseq.NewBioSequence(fmt.Sprintf("s%d", i), []byte(strings.Repeat("a", n)), "")
	}
	if c.Batch < 1 {
		c.Batch = 3
	}
	if c.Workers < 1 {
		c.Workers = 1
	}
	it := obiiter.IFragments(c.Minsize, c.Length, c.Overlap, 100, c.Workers)(obiiter.IBatchOver("c11frag", seqs, c.Batch))
	frags := make([][][2]int, len(c.Lens))
	for i := range frags {
		frags[i] = [][2]int{}
	}
	for it.Next() {
		for _, f := range it.Get().Slice() {
			m := c11fragId.FindStringSubmatch(f.Id())
			if m == nil {
				return c11fragObs{Kind: "panic", Err: "unexpected fragment id " + f.Id()}
			}
			k, _ := strconv.Atoi(m[1])
			if k < 0 || k >= len(frags) {
				return c11fragObs{Kind: "panic", Err: "unexpected fragment id " + f.Id()}
			}
			if m[2] == "" {
				frags[k] = append(frags[k], [2]int{0, f.Len()})
			} else {
				a, _ := strconv.Atoi(m[2])
				b, _ := strconv.Atoi(m[3])
				if b-(a-1) != f.Len() {
					return c11fragObs{Kind: "panic", Err: fmt.Sprintf("fragment %s has %d bases", f.Id(), f.Len())}
				}
				frags[k] = append(frags[k], [2]int{a - 1, b})
			}
		}
	}
	return c11fragObs{Kind: "ok", Frags: frags}
}

func init() {
	register("c11frag", func(in *bufio.Reader, out *bufio.Writer) error {
		return eachLine(in, out, func(c c11fragCase) any { return c11fragRun(c) })
	})
}
