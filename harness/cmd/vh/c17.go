package main

// C17 — truncated / corrupt compressed input is reported, never silently accepted.
//
// Every case names a container file (written once by the Python side), a cut (keep the first
// `cut` bytes, -1 = all), a bit to flip (-1 = none) and an optional injected read fault (the raw
// reader returns a custom error after `fault_at` bytes, -1 = none). Modes:
//   probe  : Buf(reader) then read everything: decoded bytes + class of the final error
//            (in-process, no log.Fatal on this path) — validates the codec contract.
//   reader : Buf(reader) -> OBIMimeTypeGuesser -> ReadFasta/ReadFastq (the body of
//            ReadSequencesFromFile on an arbitrary reader, production buffer sizes)
//   file   : the bytes are written to a temporary file; obiformats.ReadSequencesFromFile(path)
//   xzlib  : the ulikunitz/xz reader alone on the bytes (no obitools code): how the library itself ends
//            the stream — delimits the known finding "xz-clean-eof-on-truncation"
//   expand : obiconvert.ExpandListOfFiles(false, args...) (in-process): the files a command given these arguments would read
//   http   : obiformats.ReadSequencesFromFile(URL of a local server which hands the bytes over, possibly fewer than announced)
//   chunk  : Buf(reader) -> ReadSeqFileChunk(source, r, make([]byte,B), EndOfLastFastaEntry)
//            with a small B: chunks delivered
// reader/file/http/chunk run in one child process per case (the same binary, `vh c17child`): a
// log.Fatalf anywhere in the library terminates the child with status 1 = outcome "fatal".

import (
	"bufio"
	"bytes"
	"encoding/base64"
	"encoding/json"
	"errors"
	"fmt"
	"io"
	"net/http"
	"net/http/httptest"
	"os"
	"os/exec"
	"strconv"
	"strings"
	"sync"
	"time"

	"git.metabarcoding.org/obitools/obitools4/obitools4/pkg/obiformats"
	"git.metabarcoding.org/obitools/obitools4/obitools4/pkg/obiiter"
	"git.metabarcoding.org/obitools/obitools4/obitools4/pkg/obitools/obiconvert"
	"github.com/ulikunitz/xz"
)

type c17case struct {
	Mode    string `json:"mode"`
	Path    string `json:"path"`
	Cut     int    `json:"cut"`
	Flip    int    `json:"flip"`
	FaultAt int    `json:"fault_at"`
	B       int    `json:"b"`
	Step    int    `json:"step"`   // read schedule: at most Step bytes per Read call (0: as many as asked)
	Eager   bool   `json:"eager"`  // the final error (io.EOF or the injected fault) comes together with the last bytes (n > 0)
	NoData  bool   `json:"nodata"` // probe: only the number of decoded bytes is sent back (nrec), not the bytes
	// round 3: which error the raw reader ends with after fault_at bytes: "" = a custom error, "unexpected" =
	// io.ErrUnexpectedEOF itself (what net/http answers for a body shorter than its Content-Length), "wrapped_eof" = an
	// error which wraps io.EOF (errors.Is(err, io.EOF) but err != io.EOF). (A reader answering (0, nil) for ever is not an error
	// in the sense of the property: bufio hands the (0, nil) over and io.ReadFull spins, as it does on any such reader.)
	FaultKind string `json:"fault_kind,omitempty"`
	// mode expand: the arguments handed to obiconvert.ExpandListOfFiles
	Args []string `json:"args,omitempty"`
}

type c17obs struct {
	Kind    string   `json:"kind"`           // ok | fatal | timeout | panic | crash
	Open    string   `json:"open,omitempty"` // probe: ok | nocontent | error
	Fin     string   `json:"fin,omitempty"`  // probe: eof | unexpected | injected | other
	FinText string   `json:"fin_text,omitempty"`
	Data    string   `json:"data,omitempty"`   // probe: decoded bytes (base64)
	NRec    int      `json:"nrec"`             // reader/file: records delivered
	Ids     string   `json:"ids,omitempty"`    // reader/file: id:length of every record, in order
	NChunks int      `json:"nchunks"`          // chunk: chunks delivered
	Chunks  string   `json:"chunks,omitempty"` // chunk: concatenation of the chunks (base64)
	Err     string   `json:"err,omitempty"`
	Files   []string `json:"files,omitempty"` // expand: the list of files the command would read
}

var errC17Injected = errors.New("c17: injected read fault")
var errC17WrappedEOF = fmt.Errorf("c17: injected read fault wrapping %w", io.EOF)

// c17reader delivers data[:limit] then fails with err for ever (io.EOF when no fault is injected);
// step > 0: at most step bytes per call; eager: the error is returned together with the last bytes.
type c17reader struct {
	data  []byte
	pos   int
	err   error
	step  int
	eager bool
}

func (r *c17reader) Read(p []byte) (int, error) {
	if r.pos >= len(r.data) {
		return 0, r.err
	}
	if r.step > 0 && r.step < len(p) {
		p = p[:r.step]
	}
	n := copy(p, r.data[r.pos:])
	r.pos += n
	if r.eager && r.pos >= len(r.data) {
		return n, r.err
	}
	return n, nil
}

func c17bytes(c c17case) ([]byte, error) {
	b, err := os.ReadFile(c.Path)
	if err != nil {
		return nil, err
	}
	b = bytes.Clone(b)
	if c.Flip >= 0 && c.Flip/8 < len(b) {
		b[c.Flip/8] ^= 1 << uint(c.Flip%8)
	}
	if c.Cut >= 0 && c.Cut < len(b) {
		b = b[:c.Cut]
	}
	return b, nil
}

func c17source(c c17case) (io.Reader, error) {
	b, err := c17bytes(c)
	if err != nil {
		return nil, err
	}
	r := &c17reader{data: b, err: io.EOF, step: c.Step, eager: c.Eager}
	if c.FaultAt >= 0 {
		if c.FaultAt < len(b) {
			r.data = b[:c.FaultAt]
		}
		switch c.FaultKind {
		case "unexpected":
			r.err = io.ErrUnexpectedEOF
		case "wrapped_eof":
			r.err = errC17WrappedEOF
		default:
			r.err = errC17Injected
		}
	}
	return r, nil
}

// the xz library alone
func c17xzlib(c c17case) (o c17obs) {
	defer func() {
		if r := recover(); r != nil {
			o = c17obs{Kind: "panic", Err: fmt.Sprint(r)}
		}
	}()
	b, err := c17bytes(c)
	if err != nil {
		return c17obs{Kind: "crash", Err: err.Error()}
	}
	r, err := xz.NewReader(bytes.NewReader(b))
	if err != nil {
		return c17obs{Kind: "ok", Open: "error", FinText: err.Error()}
	}
	d, err := io.ReadAll(r)
	o = c17obs{Kind: "ok", Open: "ok", Fin: "eof", NRec: len(d)}
	if err != nil {
		o.Fin, o.FinText = "other", err.Error()
	}
	return o
}

func c17probe(c c17case) (o c17obs) {
	defer func() {
		if r := recover(); r != nil {
			o = c17obs{Kind: "panic", Err: fmt.Sprint(r)}
		}
	}()
	src, err := c17source(c)
	if err != nil {
		return c17obs{Kind: "crash", Err: err.Error()}
	}
	rd, err := obiformats.Buf(src)
	if err == obiformats.ErrNoContent {
		return c17obs{Kind: "ok", Open: "nocontent"}
	}
	if err != nil {
		return c17obs{Kind: "ok", Open: "error", FinText: err.Error()}
	}
	var out bytes.Buffer
	buf := make([]byte, 4096)
	var fin error
	for {
		n, e := rd.Read(buf)
		out.Write(buf[:n])
		if e != nil {
			fin = e
			break
		}
	}
	o = c17obs{Kind: "ok", Open: "ok", FinText: fin.Error(), NRec: out.Len()}
	if !c.NoData {
		o.Data = base64.StdEncoding.EncodeToString(out.Bytes())
	}
	switch {
	case fin == io.EOF:
		o.Fin = "eof"
	case fin == io.ErrUnexpectedEOF || strings.Contains(fin.Error(), "truncated"):
		// the decompressor's io.ErrUnexpectedEOF, as it is (unrepaired tree) or renamed
		// ErrTruncatedInput by xopen's wrapper (repaired tree)
		o.Fin = "unexpected"
	case errors.Is(fin, errC17Injected) || fin == errC17WrappedEOF:
		o.Fin = "injected"
	default:
		o.Fin = "other"
	}
	return o
}

func c17consume(it obiiter.IBioSequence, err error) c17obs {
	if err != nil {
		// what every command does with this error: OpenSequenceDataErrorMessage -> os.Exit(1)
		return c17obs{Kind: "fatal", Err: err.Error()}
	}
	var ids bytes.Buffer
	n := 0
	for it.Next() {
		b := it.Get()
		for _, s := range b.Slice() {
			fmt.Fprintf(&ids, "%s:%d;", s.Id(), s.Len())
			n++
		}
	}
	return c17obs{Kind: "ok", NRec: n, Ids: ids.String()}
}

// the case analysis of ReadSequencesFromFile, on an arbitrary reader
func c17readerRoute(c c17case) c17obs {
	src, err := c17source(c)
	if err != nil {
		return c17obs{Kind: "crash", Err: err.Error()}
	}
	file, err := obiformats.Buf(src)
	if err == obiformats.ErrNoContent {
		return c17consume(obiformats.ReadEmptyFile())
	}
	if err != nil {
		return c17obs{Kind: "fatal", Err: "open file error: " + err.Error()}
	}
	mime, reader, err := obiformats.OBIMimeTypeGuesser(file)
	if err != nil {
		return c17obs{Kind: "fatal", Err: err.Error()}
	}
	reader = bufio.NewReader(reader)
	opts := []obiformats.WithOption{obiformats.OptionsSource("c17"), obiformats.OptionsParallelWorkers(2)}
	switch mime.String() {
	case "text/fastq":
		return c17consume(obiformats.ReadFastq(reader, opts...))
	case "text/fasta":
		return c17consume(obiformats.ReadFasta(reader, opts...))
	}
	return c17obs{Kind: "fatal", Err: "guessed format " + mime.String() + " not implemented"}
}

// the parent has written the (cut / flipped) bytes to c.Path: see c17spawnOnce
func c17fileRoute(c c17case) c17obs {
	return c17consume(obiformats.ReadSequencesFromFile(c.Path, obiformats.OptionsParallelWorkers(2)))
}

// round 3: the input is an URL (XReader's http branch): a local server hands the (cut / flipped) bytes over; fault kinds:
// "short_body" = the response announces the length of the COMPLETE file and carries the first `cut` bytes only (the client's
// body reader ends with io.ErrUnexpectedEOF), "http404" = status 404
func c17httpRoute(c c17case) c17obs {
	b, err := c17bytes(c)
	if err != nil {
		return c17obs{Kind: "crash", Err: err.Error()}
	}
	full, err := os.ReadFile(c.Path)
	if err != nil {
		return c17obs{Kind: "crash", Err: err.Error()}
	}
	srv := httptest.NewServer(http.HandlerFunc(func(w http.ResponseWriter, r *http.Request) {
		w.Header().Set("Content-Type", "application/octet-stream")
		switch c.FaultKind {
		case "http404":
			http.Error(w, "not found", http.StatusNotFound)
			return
		case "short_body":
			w.Header().Set("Content-Length", strconv.Itoa(len(full)))
		}
		w.Write(b)
	}))
	defer srv.Close()
	return c17consume(obiformats.ReadSequencesFromFile(srv.URL+"/input.dat", obiformats.OptionsParallelWorkers(2)))
}

func c17chunkRoute(c c17case) c17obs {
	src, err := c17source(c)
	if err != nil {
		return c17obs{Kind: "crash", Err: err.Error()}
	}
	file, err := obiformats.Buf(src)
	if err == obiformats.ErrNoContent {
		return c17obs{Kind: "ok"}
	}
	if err != nil {
		return c17obs{Kind: "fatal", Err: "open file error: " + err.Error()}
	}
	if c.B < 2 {
		return c17obs{Kind: "crash", Err: "B < 2"}
	}
	ch := obiformats.ReadSeqFileChunk("c17", file, make([]byte, c.B), obiformats.EndOfLastFastaEntry)
	var all bytes.Buffer
	n := 0
	for k := range ch {
		all.Write(k.Raw.Bytes())
		n++
	}
	return c17obs{Kind: "ok", NChunks: n, Chunks: base64.StdEncoding.EncodeToString(all.Bytes())}
}

// round 3: the list of input files of a command (file and directory arguments)
func c17expand(c c17case) (o c17obs) {
	defer func() {
		if r := recover(); r != nil {
			o = c17obs{Kind: "panic", Err: fmt.Sprint(r)}
		}
	}()
	l, err := obiconvert.ExpandListOfFiles(false, c.Args...)
	if err != nil {
		return c17obs{Kind: "fatal", Err: err.Error()}
	}
	return c17obs{Kind: "ok", Files: l}
}

func c17one(c c17case) c17obs {
	switch c.Mode {
	case "expand":
		return c17expand(c)
	case "probe":
		return c17probe(c)
	case "xzlib":
		return c17xzlib(c)
	case "reader":
		return c17readerRoute(c)
	case "file":
		return c17fileRoute(c)
	case "chunk":
		return c17chunkRoute(c)
	case "http":
		return c17httpRoute(c)
	}
	return c17obs{Kind: "crash", Err: "unknown mode"}
}

// child: one case on stdin, observation on stdout; log.Fatal exits 1 (logrus), a panic exits 2
func c17child(in *bufio.Reader, out *bufio.Writer) error {
	var c c17case
	if err := json.NewDecoder(in).Decode(&c); err != nil {
		return err
	}
	o := c17one(c)
	if err := json.NewEncoder(out).Encode(o); err != nil {
		return err
	}
	out.Flush()
	if o.Kind == "fatal" {
		os.Exit(1)
	}
	return nil
}

// a child that does not answer within the timeout is tried a second time (loaded machine) before
// the case is declared hung
func c17spawn(self string, c c17case) c17obs {
	o := c17spawnOnce(self, c)
	if o.Kind == "timeout" {
		o = c17spawnOnce(self, c)
	}
	return o
}

func c17spawnOnce(self string, c c17case) c17obs {
	if c.Mode == "file" {
		// the damaged file is written (and removed) here: a child that ends in log.Fatal runs no defer
		b, err := c17bytes(c)
		if err != nil {
			return c17obs{Kind: "crash", Err: err.Error()}
		}
		f, err := os.CreateTemp("", "c17-*.dat")
		if err != nil {
			return c17obs{Kind: "crash", Err: err.Error()}
		}
		defer os.Remove(f.Name())
		f.Write(b)
		f.Close()
		c.Path, c.Cut, c.Flip = f.Name(), -1, -1
	}
	inp, _ := json.Marshal(c)
	cmd := exec.Command(self, "c17child")
	cmd.Stdin = bytes.NewReader(inp)
	var so bytes.Buffer
	cmd.Stdout = &so
	cmd.Stderr = io.Discard
	if err := cmd.Start(); err != nil {
		return c17obs{Kind: "crash", Err: err.Error()}
	}
	done := make(chan error, 1)
	go func() { done <- cmd.Wait() }()
	select {
	case err := <-done:
		var o c17obs
		if err == nil {
			if e := json.Unmarshal(so.Bytes(), &o); e != nil {
				return c17obs{Kind: "crash", Err: "bad child output"}
			}
			return o
		}
		code := cmd.ProcessState.ExitCode()
		if code == 1 {
			if json.Unmarshal(so.Bytes(), &o) == nil && o.Kind == "fatal" {
				return o
			}
			return c17obs{Kind: "fatal", Err: "log.Fatal"}
		}
		return c17obs{Kind: "panic", Err: fmt.Sprintf("exit status %d", code)}
	case <-time.After(45 * time.Second):
		cmd.Process.Kill()
		<-done
		return c17obs{Kind: "timeout"}
	}
}

func init() {
	register("c17child", c17child)
	register("c17", func(in *bufio.Reader, out *bufio.Writer) error {
		self, err := os.Executable()
		if err != nil {
			return err
		}
		var cases []c17case
		dec := json.NewDecoder(in)
		for {
			var c c17case
			err := dec.Decode(&c)
			if err == io.EOF {
				break
			}
			if err != nil {
				return err
			}
			cases = append(cases, c)
		}
		obs := make([]c17obs, len(cases))
		var wg sync.WaitGroup
		sem := make(chan struct{}, 12)
		for i := range cases {
			if cases[i].Mode == "probe" || cases[i].Mode == "xzlib" || cases[i].Mode == "expand" {
				obs[i] = c17one(cases[i])
				continue
			}
			wg.Add(1)
			sem <- struct{}{}
			go func(i int) {
				defer wg.Done()
				defer func() { <-sem }()
				obs[i] = c17spawn(self, cases[i])
			}(i)
		}
		wg.Wait()
		enc := json.NewEncoder(out)
		for i := range obs {
			if err := enc.Encode(obs[i]); err != nil {
				return err
			}
		}
		return nil
	})
}
