package main

// vh c01 — chunk reader / chunk parsers of pkg/obiformats on generated files.
//
// case kinds
//   sweep : run the REAL ReadSeqFileChunk with every buffer size bmin..bmax over `file` through the
//           reader kind `rd`, locate every chunk in the file (order, start, len), parse every chunk with
//           the REAL chunk parser of the format and compare the concatenated records with those of the
//           whole file parsed as one chunk.
//   parse : run the REAL chunk parser on one text; observable: records | fatal.
//   split : run the REAL splitter on one buffer; observable: the int it returns.
//   read  : run the public reader (ReadFasta/ReadFastq/ReadGenbank/ReadEMBL) with n workers.

import (
	"bufio"
	"bytes"
	"errors"
	"io"
	"os"
	"path/filepath"
	"runtime"
	"sort"
	"sync/atomic"
	"testing/iotest"
	"time"

	"git.metabarcoding.org/obitools/obitools4/obitools4/pkg/obiformats"
	"git.metabarcoding.org/obitools/obitools4/obitools4/pkg/obiiter"
	"git.metabarcoding.org/obitools/obitools4/obitools4/pkg/obioptions"
	"git.metabarcoding.org/obitools/obitools4/obitools4/pkg/obiseq"
	log "github.com/sirupsen/logrus"
)

type c01case struct {
	Kind    string `json:"kind"`
	Fmt     string `json:"fmt"`
	File    []byte `json:"file"`
	Bmin    int    `json:"bmin"`
	Bmax    int    `json:"bmax"`
	Rd      string `json:"rd"`
	WithQ   bool   `json:"withq"`
	Shift   int    `json:"shift"`
	Workers int    `json:"workers"`
	TimeMs  int    `json:"time_ms"`
	Full    bool   `json:"full"`  // kind read: OptionsFullFileBatch (the whole file delivered as ONE batch)
	FlatB   int    `json:"flatb"` // kind read: size of the read buffer of ReadGenbank / ReadEMBL (0 = production size)
	FailAt  int    `json:"failat"` // reader kind ioerr: the transport fails (I/O error, not EOF) after this many bytes
	Feat    bool   `json:"feat"`   // kind parse: flat-file parsers called with withFeatureTable = true
	Name    string `json:"name"`   // kind fromfile: name of the file written (the extension is what the user would see)
	Api     string `json:"api"`    // kind fromfile: seqs | fasta | fastq | genbank | embl | fastseq
	Stdin   bool   `json:"stdin"`  // kind fromfile: the file is os.Stdin of the call (Read*FromStdin)
	G       int    `json:"g"`      // kinds guess / fromfile: size of the buffer of OBIMimeTypeGuesser (0 = production size, 1 MiB)
	Batch   int    `json:"batch"`  // kind fromfile, api fastseq: OptionsBatchSize (the kseq reader cuts its batches itself)
	NoHdr   bool   `json:"nohdr"`  // kind read / fromfile: no title-line annotation parser (OptionsFastSeqHeaderParser(nil))
}

type c01rec struct {
	Id    []byte `json:"id"`
	Def   []byte `json:"def"`
	Seq   []byte `json:"seq"`
	Qual  []byte `json:"qual"`
	HasQ  bool   `json:"hasq"`
	Taxid int    `json:"taxid"`
	Sci   []byte `json:"sci"`
	HasT  bool   `json:"hast"`
	Feat  []byte `json:"feat,omitempty"`
}

type c01size struct {
	B      int      `json:"b"`
	St     string   `json:"st"` // ok | hang | bad
	Chunks [][3]int `json:"chunks"`
	Raw    [][]byte `json:"raw,omitempty"` // when a chunk is not a segment of the file
	Same   bool     `json:"same"`
	Fatal  bool     `json:"fatal"`
	Recs   []c01rec `json:"recs,omitempty"`
}

type c01obs struct {
	Kind  string    `json:"kind"`
	Fatal bool      `json:"fatal"`
	Recs  []c01rec  `json:"recs"`
	Sizes []c01size `json:"sizes,omitempty"`
	Split int       `json:"split"`
	Err   string    `json:"err,omitempty"`
	// kind read: the batch numbers in the order in which the reader DELIVERED them, and the records in
	// that same (arrival) order
	Orders  []int    `json:"orders,omitempty"`
	Arrived []c01rec `json:"arrived,omitempty"`
	// kind guess: the MIME type answered by OBIMimeTypeGuesser, the number of bytes the rebuilt reader delivers and
	// whether they are the bytes of the input
	Back  []byte `json:"back,omitempty"` // kind buf: the bytes the reader returned by xopen.Buf delivers
	Mime  string `json:"mime,omitempty"`
	NRead int    `json:"nread,omitempty"`
	Same  bool   `json:"same,omitempty"`
}

func c01splitter(f string) obiformats.LastSeqRecord {
	switch f {
	case "fasta":
		return obiformats.EndOfLastFastaEntry
	case "fastq":
		return obiformats.EndOfLastFastqEntry
	default:
		return obiformats.EndOfLastFlatFileEntry
	}
}

func c01parser(c c01case) func(string, io.Reader) (obiseq.BioSequenceSlice, error) {
	switch c.Fmt {
	case "fasta":
		return obiformats.FastaChunkParser()
	case "fastq":
		return obiformats.FastqChunkParser(byte(c.Shift), c.WithQ)
	case "genbank":
		return obiformats.GenbankChunkParser(c.Feat)
	default:
		return obiformats.EmblChunkParser(c.Feat)
	}
}

func c01record(s *obiseq.BioSequence) c01rec {
	r := c01rec{Id: []byte(s.Id()), Def: []byte(s.Definition()), Seq: bytes.Clone(s.Sequence()), Taxid: -1}
	if s.HasQualities() {
		r.HasQ = true
		r.Qual = bytes.Clone(s.Qualities())
	}
	if f := s.Features(); len(f) > 0 {
		r.Feat = []byte(f)
	}
	if s.HasAnnotation() {
		a := s.Annotations()
		if t, ok := a["taxid"]; ok {
			r.HasT = true
			if ti, ok := t.(int); ok {
				r.Taxid = ti
			}
		}
		if n, ok := a["scientific_name"]; ok {
			if ns, ok := n.(string); ok {
				r.Sci = []byte(ns)
			}
		}
	}
	return r
}

// c01parse runs a chunk parser; log.Fatalf (ExitFunc panics) and run-time panics are both "fatal".
func c01parse(c c01case, text []byte, shared ...func(string, io.Reader) (obiseq.BioSequenceSlice, error)) (recs []c01rec, fatal bool) {
	defer func() {
		if r := recover(); r != nil {
			recs, fatal = nil, true
		}
	}()
	p := c01parser(c)
	if len(shared) > 0 { // the parser a worker of the readers keeps for all the chunks it receives
		p = shared[0]
	}
	seqs, err := p("src", bytes.NewBuffer(bytes.Clone(text)))
	if err != nil {
		return nil, true
	}
	recs = make([]c01rec, 0, len(seqs))
	for _, s := range seqs {
		recs = append(recs, c01record(s))
	}
	return recs, false
}

func c01sameRecs(a, b []c01rec) bool {
	if len(a) != len(b) {
		return false
	}
	for i := range a {
		x, y := a[i], b[i]
		if !bytes.Equal(x.Id, y.Id) || !bytes.Equal(x.Def, y.Def) || !bytes.Equal(x.Seq, y.Seq) ||
			!bytes.Equal(x.Qual, y.Qual) || x.HasQ != y.HasQ || !bytes.Equal(x.Feat, y.Feat) || x.Taxid != y.Taxid || !bytes.Equal(x.Sci, y.Sci) || x.HasT != y.HasT {
			return false
		}
	}
	return true
}

type c01half struct{ r io.Reader }

func (h c01half) Read(p []byte) (int, error) {
	if len(p) > 1 {
		p = p[:(len(p)+1)/2]
	}
	return h.r.Read(p)
}

// a transport that fails with a genuine error (not io.EOF) after `left` bytes
var errC01io = errors.New("c01: input/output error")

type c01failing struct {
	r    io.Reader
	left int
}

func (f *c01failing) Read(p []byte) (int, error) {
	if f.left <= 0 {
		return 0, errC01io
	}
	if len(p) > f.left {
		p = p[:f.left]
	}
	n, err := f.r.Read(p)
	f.left -= n
	if err == io.EOF {
		err = errC01io
	}
	return n, err
}

// log.Fatal met in a goroutine of the library: remembered, the goroutine ends (the process goes on)
var c01fatal atomic.Bool
var c01fatalCh = make(chan struct{}, 1)

func c01fatalGoexit() func() {
	old := log.StandardLogger().ExitFunc
	c01fatal.Store(false)
	select {
	case <-c01fatalCh:
	default:
	}
	log.StandardLogger().ExitFunc = func(int) {
		c01fatal.Store(true)
		select {
		case c01fatalCh <- struct{}{}:
		default:
		}
		runtime.Goexit()
	}
	return func() { log.StandardLogger().ExitFunc = old }
}

func c01reader(kind string, file []byte, failAt ...int) io.Reader {
	var r io.Reader = bytes.NewReader(file)
	switch kind {
	case "ioerr":
		return &c01failing{r, failAt[0]}
	case "ioerr-half":
		return &c01failing{c01half{r}, failAt[0]}
	case "onebyte":
		return iotest.OneByteReader(r)
	case "half":
		return c01half{r}
	case "dataerr":
		return iotest.DataErrReader(r)
	case "pipe":
		pr, pw := io.Pipe()
		go func() {
			w := bufio.NewWriterSize(pw, 7)
			w.Write(file)
			w.Flush()
			pw.Close()
		}()
		return pr
	}
	return r
}

type c01chunk struct {
	order int
	raw   []byte
}

// c01chunks runs the real chunk reader with a buffer of b bytes; hang=true when it does not finish in time;
// fatal=true when the reader goroutine called log.Fatal (reader kinds ioerr*: the transport fails).
func c01chunks(c c01case, b int) (res []c01chunk, hang bool, fatal bool) {
	ioerr := len(c.Rd) >= 5 && c.Rd[:5] == "ioerr"
	if ioerr {
		defer c01fatalGoexit()()
	}
	ch := obiformats.ReadSeqFileChunk("src", c01reader(c.Rd, c.File, c.FailAt), make([]byte, b), c01splitter(c.Fmt))
	ms := c.TimeMs
	if ms <= 0 {
		ms = 4000
	}
	timer := time.NewTimer(time.Duration(ms) * time.Millisecond)
	defer timer.Stop()
	for {
		select {
		case k, ok := <-ch:
			if !ok {
				// (a reader that closes its channel in a deferred call does so when the goroutine ends in log.Fatal:
				// in the real program the process is gone by then)
				return res, false, ioerr && c01fatal.Load()
			}
			res = append(res, c01chunk{k.Order, k.Raw.Bytes()})
			if len(res) > 4*len(c.File)+8 {
				return res, true, false
			}
		case <-c01fatalCh:
			if ioerr {
				return res, false, true
			}
		case <-timer.C:
			return res, true, false
		}
	}
}

func c01sweep(c c01case) c01obs {
	o := c01obs{Kind: "sweep"}
	o.Recs, o.Fatal = c01parse(c, c.File)
	for b := c.Bmin; b <= c.Bmax; b++ {
		sz := c01size{B: b, St: "ok", Chunks: [][3]int{}}
		chunks, hang, dead := c01chunks(c, b)
		if hang {
			sz.St = "hang"
			o.Sizes = append(o.Sizes, sz)
			continue
		}
		if dead { // the chunks delivered before the fatal error: located, not parsed
			sz.St = "fatal"
			pos := 0
			for _, k := range chunks {
				at := -1
				if len(k.raw) > 0 && pos <= len(c.File) {
					at = bytes.Index(c.File[pos:], k.raw)
				}
				if at < 0 {
					sz.St = "fatal-bad"
					break
				}
				sz.Chunks = append(sz.Chunks, [3]int{k.order, pos + at, len(k.raw)})
				pos += at + len(k.raw)
			}
			o.Sizes = append(o.Sizes, sz)
			continue
		}
		pos := 0
		var recs []c01rec
		fatal := false
		worker := c01parser(c) // ONE parser for all the chunks of this chunking, as in _ParseFastqFile & co
		for _, k := range chunks {
			at := -1
			if len(k.raw) > 0 && pos <= len(c.File) {
				at = bytes.Index(c.File[pos:], k.raw)
			}
			if at < 0 {
				sz.St = "bad"
			} else {
				sz.Chunks = append(sz.Chunks, [3]int{k.order, pos + at, len(k.raw)})
				pos += at + len(k.raw)
			}
			if !fatal {
				r, f := c01parse(c, k.raw, worker)
				if f {
					fatal = true
				}
				recs = append(recs, r...)
			}
		}
		if sz.St == "bad" {
			for _, k := range chunks {
				sz.Raw = append(sz.Raw, k.raw)
			}
		}
		sz.Fatal = fatal
		sz.Same = fatal == o.Fatal && (fatal || c01sameRecs(recs, o.Recs))
		if !sz.Same {
			sz.Recs = recs
		}
		o.Sizes = append(o.Sizes, sz)
	}
	return o
}

// deadline of one public-reader case: time_ms when given, 20 s otherwise
func c01readMs(c c01case) int {
	if c.TimeMs > 0 {
		return c.TimeMs
	}
	return 20000
}

func c01opts(c c01case) []obiformats.WithOption {
	opts := []obiformats.WithOption{obiformats.OptionsParallelWorkers(c.Workers), obiformats.OptionsReadQualities(c.WithQ), obiformats.OptionsFullFileBatch(c.Full)}
	if c.NoHdr {
		opts = append(opts, obiformats.OptionsFastSeqHeaderParser(nil))
	}
	if c.Batch > 0 {
		opts = append(opts, obiformats.OptionsBatchSize(c.Batch))
	}
	return opts
}

// c01collect starts the reader in a goroutine of its own (log.Fatal there or in any goroutine of the library is
// remembered, see c01fatalGoexit), consumes the iterator and returns the batches by number.
func c01collect(c c01case, open func() (obiiter.IBioSequence, error)) (o c01obs) {
	o.Kind = c.Kind
	defer c01fatalGoexit()()
	type batch struct {
		order int
		recs  []c01rec
	}
	var batches []batch
	var err error
	done := make(chan struct{})
	go func() {
		defer func() {
			if r := recover(); r != nil {
				c01fatal.Store(true)
			}
		}()
		var it obiiter.IBioSequence
		it, err = open()
		if err != nil {
			close(done)
			return
		}
		for it.Next() {
			b := it.Get()
			bt := batch{order: b.Order()}
			for _, s := range b.Slice() {
				bt.recs = append(bt.recs, c01record(s))
			}
			batches = append(batches, bt)
		}
		close(done)
	}()
	deadline := time.After(time.Duration(c01readMs(c)) * time.Millisecond)
wait:
	for {
		select {
		case <-done:
			break wait
		case <-c01fatalCh:
			o.Err = "log.Fatal"
			o.Fatal = true
			time.Sleep(20 * time.Millisecond) // let the other goroutines of this reader end (they may call log.Fatal too)
			return o
		case <-deadline:
			o.Err = "timeout"
			o.Fatal = true
			return o
		}
	}
	if err != nil {
		o.Fatal = true
		o.Err = "error: " + err.Error()
		return o
	}
	if c01fatal.Load() {
		o.Err = "log.Fatal"
		o.Fatal = true
		return o
	}
	inOrder := true
	for i, b := range batches {
		o.Orders = append(o.Orders, b.order)
		inOrder = inOrder && b.order == i
	}
	if !inOrder { // otherwise the arrival order is the order of Recs
		for _, b := range batches {
			o.Arrived = append(o.Arrived, b.recs...)
		}
	}
	// consumers re-establish the file order from the batch numbers: they must be exactly 0..n-1
	sort.SliceStable(batches, func(i, j int) bool { return batches[i].order < batches[j].order })
	for i, b := range batches {
		if b.order != i {
			o.Err = "batch numbering"
		}
		o.Recs = append(o.Recs, b.recs...)
	}
	return o
}

func c01read(c c01case) c01obs {
	if c.Shift != 0 && c.Shift != 33 {
		obioptions.SetInputQualityShift(c.Shift)
		defer obioptions.SetInputQualityShift(33)
	}
	return c01collect(c, func() (obiiter.IBioSequence, error) {
		opts := c01opts(c)
		rd := c01reader(c.Rd, c.File, c.FailAt)
		if c.FlatB > 0 {
			obiformats.VerifFlatFileChunkSize = c.FlatB
			defer func() { obiformats.VerifFlatFileChunkSize = 1024 * 1024 * 128 }()
		}
		switch c.Fmt {
		case "fasta":
			return obiformats.ReadFasta(rd, opts...)
		case "fastq":
			return obiformats.ReadFastq(rd, opts...)
		case "genbank":
			return obiformats.ReadGenbank(rd, opts...)
		default:
			return obiformats.ReadEMBL(rd, opts...)
		}
	})
}

// c01fromfile: the file-name / standard-input entry points of the package (what the commands call), on a file written
// to a scratch directory under the name the user would give it (plain or compressed: the bytes come ready-made).
func c01guessBuffer(c c01case) func() {
	if c.G > 0 {
		obiformats.VerifMimeGuessBufferSize = c.G
	}
	return func() { obiformats.VerifMimeGuessBufferSize = 1024 * 1024 }
}

func c01fromfile(c c01case) c01obs {
	defer c01guessBuffer(c)()
	dir, err := os.MkdirTemp("", "c01f")
	if err != nil {
		return c01obs{Kind: "fromfile", Fatal: true, Err: "harness: " + err.Error()}
	}
	defer os.RemoveAll(dir)
	path := filepath.Join(dir, "no-such-file.fasta")
	if c.Name != "" {
		path = filepath.Join(dir, c.Name)
		if err := os.WriteFile(path, c.File, 0o644); err != nil {
			return c01obs{Kind: "fromfile", Fatal: true, Err: "harness: " + err.Error()}
		}
	} // an empty name: the file does not exist
	if c.Stdin {
		f, err := os.Open(path)
		if err != nil {
			return c01obs{Kind: "fromfile", Fatal: true, Err: "harness: " + err.Error()}
		}
		old := os.Stdin
		os.Stdin = f
		defer func() { os.Stdin = old; f.Close() }()
	}
	return c01collect(c, func() (obiiter.IBioSequence, error) {
		opts := c01opts(c)
		if c.Stdin {
			switch c.Api {
			case "fasta":
				return obiformats.ReadFastaFromStdin(nil, opts...)
			case "fastq":
				return obiformats.ReadFastqFromStdin(nil, opts...)
			default:
				return obiformats.ReadSequencesFromStdin(opts...)
			}
		}
		switch c.Api {
		case "fasta":
			return obiformats.ReadFastaFromFile(path, opts...)
		case "fastq":
			return obiformats.ReadFastqFromFile(path, opts...)
		case "genbank":
			return obiformats.ReadGenbankFromFile(path, opts...)
		case "embl":
			return obiformats.ReadEMBLFromFile(path, opts...)
		case "fastseq":
			return obiformats.ReadFastSeqFromFile(path, opts...)
		default:
			return obiformats.ReadSequencesFromFile(path, opts...)
		}
	})
}

// c01guess: OBIMimeTypeGuesser over a reader kind: the type it answers and the bytes of the reader it rebuilds
func c01guess(c c01case) (o c01obs) {
	o.Kind = "guess"
	defer c01guessBuffer(c)()
	defer func() {
		if r := recover(); r != nil {
			o.Fatal = true
		}
	}()
	mime, rd, err := obiformats.OBIMimeTypeGuesser(c01reader(c.Rd, c.File, c.FailAt))
	if err != nil {
		o.Fatal = true
		o.Err = err.Error()
		return o
	}
	o.Mime = mime.String()
	back, err := io.ReadAll(rd)
	o.NRead = len(back)
	o.Same = bytes.Equal(back, c.File)
	if err != nil {
		o.Err = err.Error()
	}
	return o
}

func init() {
	register("c01", func(in *bufio.Reader, out *bufio.Writer) error {
		log.StandardLogger().ExitFunc = func(int) { panic("log.Fatal") }
		return eachLine(in, out, func(c c01case) any {
			switch c.Kind {
			case "sweep":
				return c01sweep(c)
			case "parse":
				o := c01obs{Kind: "parse"}
				o.Recs, o.Fatal = c01parse(c, c.File)
				return o
			case "split":
				return c01obs{Kind: "split", Split: c01splitter(c.Fmt)(c.File)}
			case "read":
				return c01read(c)
			case "fromfile":
				return c01fromfile(c)
			case "guess":
				return c01guess(c)
			case "buf":
				// xopen.Buf over a reader kind (the data may be compressed): ErrNoContent, another error, or the bytes delivered
				o := c01obs{Kind: "buf"}
				r, err := obiformats.Buf(c01reader(c.Rd, c.File, c.FailAt))
				if err == obiformats.ErrNoContent {
					o.Err = "nocontent"
					return o
				}
				if err != nil {
					o.Fatal, o.Err = true, "error: "+err.Error()
					return o
				}
				back, err := io.ReadAll(r)
				o.Back, o.NRead = back, len(back)
				if err != nil {
					o.Fatal, o.Err = true, "error: "+err.Error()
				}
				return o
			case "readfull":
				// io.ReadFull of bmin bytes, then of bmax bytes, over the reader kind: bytes delivered + error class
				r := c01reader(c.Rd, c.File, c.FailAt)
				o := c01obs{Kind: "readfull"}
				for _, n := range []int{c.Bmin, c.Bmax} {
					buf := make([]byte, n)
					k, err := io.ReadFull(r, buf)
					cls := "nil"
					if err == io.EOF {
						cls = "eof"
					} else if err == io.ErrUnexpectedEOF {
						cls = "unexp"
					} else if err != nil {
						cls = "other"
					}
					o.Sizes = append(o.Sizes, c01size{B: k, St: cls})
				}
				return o
			}
			return c01obs{Kind: "unknown"}
		})
	})
}
