package main

// vh c01 — chunk reader / chunk parsers of pkg/obiformats on generated files.
//
// case kinds
//   sweep : run the REAL ReadSeqFileChunk with every buffer size bmin..bmax over `file` through the
//           reader kind `rd`, locate every chunk in the file (order, start, len), parse every chunk with
//           the REAL chunk parser of the format and compare the concatenated records with those of the
//           whole file parsed as one chunk.
//   parse : run the REAL chunk parser on one text; observable: records | fatal.
//   split : run the REAL splitter on one buffer; observable: the int it returns.
//   read  : run the public reader (ReadFasta/ReadFastq/ReadGenbank/ReadEMBL) with n workers.

import (
	"bufio"
	"bytes"
	"io"
	"sort"
	"testing/iotest"
	"time"

	"git.metabarcoding.org/obitools/obitools4/obitools4/pkg/obiformats"
	"git.metabarcoding.org/obitools/obitools4/obitools4/pkg/obiiter"
	"git.metabarcoding.org/obitools/obitools4/obitools4/pkg/obiseq"
	log "github.com/sirupsen/logrus"
)

type c01case struct {
	Kind    string `json:"kind"`
	Fmt     string `json:"fmt"`
	File    []byte `json:"file"`
	Bmin    int    `json:"bmin"`
	Bmax    int    `json:"bmax"`
	Rd      string `json:"rd"`
	WithQ   bool   `json:"withq"`
	Shift   int    `json:"shift"`
	Workers int    `json:"workers"`
	TimeMs  int    `json:"time_ms"`
	Full    bool   `json:"full"`  // kind read: OptionsFullFileBatch (the whole file delivered as ONE batch)
	FlatB   int    `json:"flatb"` // kind read: size of the read buffer of ReadGenbank / ReadEMBL (0 = production size)
}

type c01rec struct {
	Id    []byte `json:"id"`
	Def   []byte `json:"def"`
	Seq   []byte `json:"seq"`
	Qual  []byte `json:"qual"`
	HasQ  bool   `json:"hasq"`
	Taxid int    `json:"taxid"`
	Sci   []byte `json:"sci"`
	HasT  bool   `json:"hast"`
}

type c01size struct {
	B      int      `json:"b"`
	St     string   `json:"st"` // ok | hang | bad
	Chunks [][3]int `json:"chunks"`
	Raw    [][]byte `json:"raw,omitempty"` // when a chunk is not a segment of the file
	Same   bool     `json:"same"`
	Fatal  bool     `json:"fatal"`
	Recs   []c01rec `json:"recs,omitempty"`
}

type c01obs struct {
	Kind  string    `json:"kind"`
	Fatal bool      `json:"fatal"`
	Recs  []c01rec  `json:"recs"`
	Sizes []c01size `json:"sizes,omitempty"`
	Split int       `json:"split"`
	Err   string    `json:"err,omitempty"`
	// kind read: the batch numbers in the order in which the reader DELIVERED them, and the records in
	// that same (arrival) order
	Orders  []int    `json:"orders,omitempty"`
	Arrived []c01rec `json:"arrived,omitempty"`
}

func c01splitter(f string) obiformats.LastSeqRecord {
	switch f {
	case "fasta":
		return obiformats.EndOfLastFastaEntry
	case "fastq":
		return obiformats.EndOfLastFastqEntry
	default:
		return obiformats.EndOfLastFlatFileEntry
	}
}

func c01parser(c c01case) func(string, io.Reader) (obiseq.BioSequenceSlice, error) {
	switch c.Fmt {
	case "fasta":
		return obiformats.FastaChunkParser()
	case "fastq":
		return obiformats.FastqChunkParser(byte(c.Shift), c.WithQ)
	case "genbank":
		return obiformats.GenbankChunkParser(false)
	default:
		return obiformats.EmblChunkParser(false)
	}
}

func c01record(s *obiseq.BioSequence) c01rec {
	r := c01rec{Id: []byte(s.Id()), Def: []byte(s.Definition()), Seq: bytes.Clone(s.Sequence()), Taxid: -1}
	if s.HasQualities() {
		r.HasQ = true
		r.Qual = bytes.Clone(s.Qualities())
	}
	if s.HasAnnotation() {
		a := s.Annotations()
		if t, ok := a["taxid"]; ok {
			r.HasT = true
			if ti, ok := t.(int); ok {
				r.Taxid = ti
			}
		}
		if n, ok := a["scientific_name"]; ok {
			if ns, ok := n.(string); ok {
				r.Sci = []byte(ns)
			}
		}
	}
	return r
}

// c01parse runs a chunk parser; log.Fatalf (ExitFunc panics) and run-time panics are both "fatal".
func c01parse(c c01case, text []byte) (recs []c01rec, fatal bool) {
	defer func() {
		if r := recover(); r != nil {
			recs, fatal = nil, true
		}
	}()
	p := c01parser(c)
	seqs, err := p("src", bytes.NewBuffer(bytes.Clone(text)))
	if err != nil {
		return nil, true
	}
	recs = make([]c01rec, 0, len(seqs))
	for _, s := range seqs {
		recs = append(recs, c01record(s))
	}
	return recs, false
}

func c01sameRecs(a, b []c01rec) bool {
	if len(a) != len(b) {
		return false
	}
	for i := range a {
		x, y := a[i], b[i]
		if !bytes.Equal(x.Id, y.Id) || !bytes.Equal(x.Def, y.Def) || !bytes.Equal(x.Seq, y.Seq) ||
			!bytes.Equal(x.Qual, y.Qual) || x.HasQ != y.HasQ || x.Taxid != y.Taxid || !bytes.Equal(x.Sci, y.Sci) || x.HasT != y.HasT {
			return false
		}
	}
	return true
}

type c01half struct{ r io.Reader }

func (h c01half) Read(p []byte) (int, error) {
	if len(p) > 1 {
		p = p[:(len(p)+1)/2]
	}
	return h.r.Read(p)
}

func c01reader(kind string, file []byte) io.Reader {
	var r io.Reader = bytes.NewReader(file)
	switch kind {
	case "onebyte":
		return iotest.OneByteReader(r)
	case "half":
		return c01half{r}
	case "dataerr":
		return iotest.DataErrReader(r)
	case "pipe":
		pr, pw := io.Pipe()
		go func() {
			w := bufio.NewWriterSize(pw, 7)
			w.Write(file)
			w.Flush()
			pw.Close()
		}()
		return pr
	}
	return r
}

type c01chunk struct {
	order int
	raw   []byte
}

// c01chunks runs the real chunk reader with a buffer of b bytes; hang=true when it does not finish in time.
func c01chunks(c c01case, b int) (res []c01chunk, hang bool) {
	ch := obiformats.ReadSeqFileChunk("src", c01reader(c.Rd, c.File), make([]byte, b), c01splitter(c.Fmt))
	ms := c.TimeMs
	if ms <= 0 {
		ms = 4000
	}
	timer := time.NewTimer(time.Duration(ms) * time.Millisecond)
	defer timer.Stop()
	for {
		select {
		case k, ok := <-ch:
			if !ok {
				return res, false
			}
			res = append(res, c01chunk{k.Order, k.Raw.Bytes()})
			if len(res) > 4*len(c.File)+8 {
				return res, true
			}
		case <-timer.C:
			return res, true
		}
	}
}

func c01sweep(c c01case) c01obs {
	o := c01obs{Kind: "sweep"}
	o.Recs, o.Fatal = c01parse(c, c.File)
	for b := c.Bmin; b <= c.Bmax; b++ {
		sz := c01size{B: b, St: "ok", Chunks: [][3]int{}}
		chunks, hang := c01chunks(c, b)
		if hang {
			sz.St = "hang"
			o.Sizes = append(o.Sizes, sz)
			continue
		}
		pos := 0
		var recs []c01rec
		fatal := false
		for _, k := range chunks {
			at := -1
			if len(k.raw) > 0 && pos <= len(c.File) {
				at = bytes.Index(c.File[pos:], k.raw)
			}
			if at < 0 {
				sz.St = "bad"
			} else {
				sz.Chunks = append(sz.Chunks, [3]int{k.order, pos + at, len(k.raw)})
				pos += at + len(k.raw)
			}
			if !fatal {
				r, f := c01parse(c, k.raw)
				if f {
					fatal = true
				}
				recs = append(recs, r...)
			}
		}
		if sz.St == "bad" {
			for _, k := range chunks {
				sz.Raw = append(sz.Raw, k.raw)
			}
		}
		sz.Fatal = fatal
		sz.Same = fatal == o.Fatal && (fatal || c01sameRecs(recs, o.Recs))
		if !sz.Same {
			sz.Recs = recs
		}
		o.Sizes = append(o.Sizes, sz)
	}
	return o
}

// deadline of one public-reader case: time_ms when given, 20 s otherwise
func c01readMs(c c01case) int {
	if c.TimeMs > 0 {
		return c.TimeMs
	}
	return 20000
}

func c01read(c c01case) (o c01obs) {
	o.Kind = "read"
	defer func() {
		if r := recover(); r != nil {
			o.Fatal = true
		}
	}()
	var it obiiter.IBioSequence
	var err error
	opts := []obiformats.WithOption{obiformats.OptionsParallelWorkers(c.Workers), obiformats.OptionsReadQualities(c.WithQ), obiformats.OptionsFullFileBatch(c.Full)}
	rd := c01reader(c.Rd, c.File)
	if c.FlatB > 0 {
		obiformats.VerifFlatFileChunkSize = c.FlatB
		defer func() { obiformats.VerifFlatFileChunkSize = 1024 * 1024 * 128 }()
	}
	switch c.Fmt {
	case "fasta":
		it, err = obiformats.ReadFasta(rd, opts...)
	case "fastq":
		it, err = obiformats.ReadFastq(rd, opts...)
	case "genbank":
		it, err = obiformats.ReadGenbank(rd, opts...)
	default:
		it, err = obiformats.ReadEMBL(rd, opts...)
	}
	if err != nil {
		o.Fatal = true
		o.Err = err.Error()
		return o
	}
	type batch struct {
		order int
		recs  []c01rec
	}
	var batches []batch
	done := make(chan struct{})
	go func() {
		defer close(done)
		defer func() { recover() }()
		for it.Next() {
			b := it.Get()
			bt := batch{order: b.Order()}
			for _, s := range b.Slice() {
				bt.recs = append(bt.recs, c01record(s))
			}
			batches = append(batches, bt)
		}
	}()
	select {
	case <-done:
	case <-time.After(time.Duration(c01readMs(c)) * time.Millisecond):
		o.Err = "timeout"
		o.Fatal = true
		return o
	}
	inOrder := true
	for i, b := range batches {
		o.Orders = append(o.Orders, b.order)
		inOrder = inOrder && b.order == i
	}
	if !inOrder { // otherwise the arrival order is the order of Recs
		for _, b := range batches {
			o.Arrived = append(o.Arrived, b.recs...)
		}
	}
	// consumers re-establish the file order from the batch numbers: they must be exactly 0..n-1
	sort.SliceStable(batches, func(i, j int) bool { return batches[i].order < batches[j].order })
	for i, b := range batches {
		if b.order != i {
			o.Err = "batch numbering"
		}
		o.Recs = append(o.Recs, b.recs...)
	}
	return o
}

func init() {
	register("c01", func(in *bufio.Reader, out *bufio.Writer) error {
		log.StandardLogger().ExitFunc = func(int) { panic("log.Fatal") }
		return eachLine(in, out, func(c c01case) any {
			switch c.Kind {
			case "sweep":
				return c01sweep(c)
			case "parse":
				o := c01obs{Kind: "parse"}
				o.Recs, o.Fatal = c01parse(c, c.File)
				return o
			case "split":
				return c01obs{Kind: "split", Split: c01splitter(c.Fmt)(c.File)}
			case "read":
				return c01read(c)
			case "readfull":
				// io.ReadFull of bmin bytes, then of bmax bytes, over the reader kind: bytes delivered + error class
				r := c01reader(c.Rd, c.File)
				o := c01obs{Kind: "readfull"}
				for _, n := range []int{c.Bmin, c.Bmax} {
					buf := make([]byte, n)
					k, err := io.ReadFull(r, buf)
					cls := "nil"
					if err == io.EOF {
						cls = "eof"
					} else if err == io.ErrUnexpectedEOF {
						cls = "unexp"
					} else if err != nil {
						cls = "other"
					}
					o.Sizes = append(o.Sizes, c01size{B: k, St: cls})
				}
				return o
			}
			return c01obs{Kind: "unknown"}
		})
	})
}
