// c16 "pipeline" cases — the annotation pipeline of obiannotate run IN PROCESS on a long in-memory input:
// the options are parsed by the real option set, CLIAnnotationPipeline() is piped on an iterator over
// n synthetic records (no reader in front: the annotation workers are the bottleneck, so several of them
// are inside the worker closures at the same time). Every output record is reported.
package main

import (
	"fmt"

	"git.metabarcoding.org/obitools/obitools4/obitools4/pkg/obiiter"
	"git.metabarcoding.org/obitools/obitools4/obitools4/pkg/obioptions"
	"git.metabarcoding.org/obitools/obitools4/obitools4/pkg/obiseq"
	"git.metabarcoding.org/obitools/obitools4/obitools4/pkg/obitools/obiannotate"
)

// c16StressRecord: the i-th synthetic record (same formula in tools/props/c16.py stress_record)
func c16StressRecord(i int) *obiseq.BioSequence {
	full := "acgtacgtacgt"
	s := obiseq.NewBioSequence(fmt.Sprintf("r%06d", i), []byte(full[:4+i%7]), "")
	s.SetAttribute("k", []string{"a", "b"}[i%2])
	if i%5 != 2 {
		s.SetAttribute("n", i%7)
	}
	s.SetAttribute("count", 1+i%5)
	if i%4 != 1 {
		s.SetAttribute("tag", fmt.Sprintf("t%d", i%11))
	}
	s.SetAttribute("sample", fmt.Sprintf("s%d", i%13))
	s.SetAttribute("x", i%3)
	if i%3 == 0 {
		s.SetAttribute("extra", "e")
	}
	return s
}

func c16Pipeline(argv []string, n, batch int) any {
	parser := obioptions.GenerateOptionParser(obiannotate.OptionSet)
	parser(append([]string{"obiannotate"}, argv...))
	data := make(obiseq.BioSequenceSlice, n)
	for i := range data {
		data[i] = c16StressRecord(i)
	}
	out := obiiter.IBatchOver("stress", data, batch).Pipe(obiannotate.CLIAnnotationPipeline())
	recs := make([][3]any, 0, n)
	for out.Next() {
		for _, s := range out.Get().Slice() {
			attrs := map[string]any{}
			for k, v := range s.Annotations() {
				attrs[k] = v
			}
			recs = append(recs, [3]any{s.Id(), attrs, s.String()})
		}
	}
	return map[string]any{"kind": "pipeline", "workers": obioptions.CLIParallelWorkers(), "records": recs}
}
