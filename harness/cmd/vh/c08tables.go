package main

// vh c08, case {"kind":"tables"} — dump of the tables behind the C08 model, read from the CURRENT build:
// the 2-bit base code of Encode4mer, the IUPAC 4-bit code / decode / set-size tables, int(partMatch*100) and the
// match ratio itself for every pair of symbol indices, and the consensus (base, quality) that the real
// BuildQualityConsensus gives to ONE aligned column a/c (mismatch) and a/a (match) for every pair of qualities 0..93.

import (
	"git.metabarcoding.org/obitools/obitools4/obitools4/pkg/obialign"
	"git.metabarcoding.org/obitools/obitools4/obitools4/pkg/obikmer"
)

type c08tab struct {
	Kind     string      `json:"kind"`
	SBC      []int       `json:"sbc"`
	FBCode   []int       `json:"fbcode"`
	FBDecode []int       `json:"fbdecode"`
	FBCount  []float64   `json:"fbcount"`
	Pct      [][]int     `json:"pct"`   // int(_NucPartMatch[i][j] * 100)
	Ratio    [][]float64 `json:"ratio"` // _NucPartMatch[i][j]
	MisQ     [][]int     `json:"misq"`  // consensus quality of the column (a,qa)/(c,qb)
	MatQ     [][]int     `json:"matq"`  // consensus quality of the column (a,qa)/(a,qb)
	MisB     [][]int     `json:"misb"`  // consensus base of the column (a,qa)/(c,qb)
	NucMt    [][]int     `json:"nucmt"` // _NucScorePartMatchMatch[qa][qb], qa, qb in 0..93
	NucMm    [][]int     `json:"nucmm"` // _NucScorePartMatchMismatch[qa][qb]
}

func c08column(na, nb byte, qa, qb int, arena obialign.PEAlignArena) (int, int) {
	sa := c08mk("A", string([]byte{na}), []int{qa})
	sb := c08mk("B", string([]byte{nb}), []int{qb})
	cons, _ := obialign.BuildQualityConsensus(sa, sb, []int{0, 1}, false, arena)
	return int(cons.Sequence()[0]), int(cons.Qualities()[0])
}

func c08tables() any {
	t := &c08tab{Kind: "tables"}
	t.SBC = c08ints(obikmer.VerifSingleBaseCode())
	t.FBCode = c08ints(obialign.VerifFourBitsBaseCode())
	t.FBDecode = c08ints(obialign.VerifFourBitsBaseDecode())
	t.FBCount = obialign.VerifFourBitsCount()
	for i := 0; i < 32; i++ {
		row := make([]int, 32)
		rr := make([]float64, 32)
		for j := 0; j < 32; j++ {
			r := obialign.VerifNucPartMatch(i, j)
			rr[j] = r
			row[j] = int(r * 100)
		}
		t.Pct = append(t.Pct, row)
		t.Ratio = append(t.Ratio, rr)
	}
	arena := obialign.MakePEAlignArena(4, 4)
	for qa := 0; qa <= 93; qa++ {
		mis := make([]int, 94)
		mat := make([]int, 94)
		misb := make([]int, 94)
		for qb := 0; qb <= 93; qb++ {
			misb[qb], mis[qb] = c08column('a', 'c', qa, qb, arena)
			_, mat[qb] = c08column('a', 'a', qa, qb, arena)
		}
		mt := make([]int, 94)
		mm := make([]int, 94)
		for qb := 0; qb <= 93; qb++ {
			mt[qb] = obialign.VerifMatchScore(byte(qa), byte(qb))
			mm[qb] = obialign.VerifMismatchScore(byte(qa), byte(qb))
		}
		t.NucMt = append(t.NucMt, mt)
		t.NucMm = append(t.NucMm, mm)
		t.MisQ = append(t.MisQ, mis)
		t.MatQ = append(t.MatQ, mat)
		t.MisB = append(t.MisB, misb)
	}
	return t
}
