package main

// C05 — in-process schedule exploration. One case = one input (FASTQ text, optionally a second
// file of mates) + one record-wise command + a list of configurations (batch size, reader / worker /
// writer counts, GOMAXPROCS, yield rate and seed of the obiiter verif hook). For every configuration the
// REAL library pipeline is run:
//
//	ReadFastq(in-memory file) -> Rebatch(batch size) -> worker pool of the command -> WriteFastq(in-memory sink)
//
// and the bytes received by the sink are hashed. The observation lists the distinct outputs (the
// property: exactly one), with the bytes of the first ones. Thousands of schedules per second instead
// of one per spawned process.

import (
	"bufio"
	"bytes"
	"crypto/sha256"
	"encoding/base64"
	"encoding/hex"
	"fmt"
	"runtime"
	"sort"
	"strings"
	"sync"
	"time"

	"git.metabarcoding.org/obitools/obitools4/obitools4/pkg/obiformats"
	"git.metabarcoding.org/obitools/obitools4/obitools4/pkg/obiiter"
	"git.metabarcoding.org/obitools/obitools4/obitools4/pkg/obingslibrary"
	"git.metabarcoding.org/obitools/obitools4/obitools4/pkg/obiseq"
	"git.metabarcoding.org/obitools/obitools4/obitools4/pkg/obitools/obiannotate"
	"git.metabarcoding.org/obitools/obitools4/obitools4/pkg/obitools/obipairing"
)

type c05config struct {
	Batch    int    `json:"batch"`
	Readers  int    `json:"readers"`
	Workers  int    `json:"workers"`
	Writers  int    `json:"writers"`
	GoMax    int    `json:"gomaxprocs"`
	Yield    int    `json:"yield"` // per mille
	Seed     uint64 `json:"seed"`
	Repeat   int    `json:"repeat"`
	Stage2   int    `json:"stage2"` // workers of a second identical-type stage (0 = none): pipelines of two pools
	NoRebuff bool   `json:"-"`
}

type c05case struct {
	Cmd     string      `json:"cmd"` // convert | complement | grep | annotlen | count | pairing, and the library stages of round 3:
	// divide | concat | pool | filterempty | condworker | workerpipe | fullfile | batchover
	Cuts    []int       `json:"cuts,omitempty"` // concat / pool: the input is cut in pieces after these record numbers, one reader per piece
	NGS     string      `json:"ngs,omitempty"`  // multiplex: the tag list (CSV with @param lines)
	Input   string      `json:"input"`
	Mates   string      `json:"mates,omitempty"`
	Inv     bool        `json:"inv"`
	Lmin    int         `json:"lmin"`
	Lmax    int         `json:"lmax"`
	Cmin    int         `json:"cmin"`
	Cmax    int         `json:"cmax"`
	Configs []c05config `json:"configs"`
	Keep    int         `json:"keep"` // number of distinct outputs returned in full
}

type c05out struct {
	Sha    string    `json:"sha"`
	Runs   int       `json:"runs"`
	First  c05config `json:"first_config"`
	Bytes  string    `json:"bytes,omitempty"` // base64
	Poison bool      `json:"poison"`
}

type c05obs struct {
	Kind   string   `json:"kind"` // ok | hang
	Runs   int      `json:"runs"`
	Yields int64    `json:"yields"`
	Outs   []c05out `json:"outs"`
	Err    string   `json:"err,omitempty"`
	WallMs int64    `json:"wall_ms"`
}

type c05sink struct {
	mu     sync.Mutex
	buf    bytes.Buffer
	closed bool
	done   chan struct{}
}

func (s *c05sink) Write(p []byte) (int, error) {
	s.mu.Lock()
	defer s.mu.Unlock()
	return s.buf.Write(p)
}

func (s *c05sink) Close() error {
	s.mu.Lock()
	defer s.mu.Unlock()
	if !s.closed {
		s.closed = true
		close(s.done)
	}
	return nil
}

const c05unset = 2000000000

// the selection predicate exactly as obigrep composes it (options.go CLISequenceSizePredicate /
// CLISequenceCountPredicate), from the library predicates
func c05predicate(c c05case) obiseq.SequencePredicate {
	var p obiseq.SequencePredicate
	if c.Lmin > 1 {
		p = p.And(obiseq.IsLongerOrEqualTo(c.Lmin))
	}
	if c.Lmax != c05unset {
		p = p.And(obiseq.IsShorterOrEqualTo(c.Lmax))
	}
	if c.Cmin > 1 {
		p = p.And(obiseq.IsMoreAbundantOrEqualTo(c.Cmin))
	}
	if c.Cmax != c05unset {
		p = p.And(obiseq.IsLessAbundantOrEqualTo(c.Cmax))
	}
	if p == nil {
		p = func(*obiseq.BioSequence) bool { return true }
	}
	if c.Inv {
		p = p.Not()
	}
	return p
}

func c05identity(s *obiseq.BioSequence) (obiseq.BioSequenceSlice, error) {
	return obiseq.BioSequenceSlice{s}, nil
}

// the input text cut in pieces at record boundaries (4 lines per record)
func c05pieces(text string, cuts []int) []string {
	lines := strings.SplitAfter(text, "\n")
	if n := len(lines); n > 0 && lines[n-1] == "" {
		lines = lines[:n-1]
	}
	nrec := len(lines) / 4
	var out []string
	prev := 0
	for _, c := range append(append([]int{}, cuts...), nrec) {
		if c > nrec {
			c = nrec
		}
		if c < prev {
			c = prev
		}
		out = append(out, strings.Join(lines[4*prev:4*c], ""))
		prev = c
	}
	return out
}

// the records of a FASTQ text sorted (the output of an order-free stage is judged as a multiset)
func c05sortRecords(b []byte) []byte {
	lines := bytes.SplitAfter(b, []byte("\n"))
	var recs []string
	for i := 0; i+3 < len(lines); i += 4 {
		recs = append(recs, string(bytes.Join(lines[i:i+4], nil)))
	}
	sort.Strings(recs)
	return []byte(strings.Join(recs, ""))
}

func c05write(it obiiter.IBioSequence, writers int) (*c05sink, error) {
	sink := &c05sink{done: make(chan struct{})}
	res, err := obiformats.WriteFastq(it, sink, obiformats.OptionsParallelWorkers(writers), obiformats.OptionCloseFile())
	if err != nil {
		return nil, err
	}
	res.Consume()
	<-sink.done
	return sink, nil
}

func (s *c05sink) bytes() []byte {
	s.mu.Lock()
	defer s.mu.Unlock()
	return append([]byte{}, s.buf.Bytes()...)
}

// one execution of the pipeline; returns the bytes written (count: the CSV lines of obicount)
func c05once(c c05case, k c05config) ([]byte, error) {
	ropts := []obiformats.WithOption{obiformats.OptionsParallelWorkers(k.Readers), obiformats.OptionsBatchSize(k.Batch),
		obiformats.OptionsSource("verif")}
	switch c.Cmd {
	case "concat", "pool":
		// one reader + rebatch + worker pool per piece (batches reach Concat / Pool in arrival order), then the real Concat / Pool
		var its []obiiter.IBioSequence
		for _, piece := range c05pieces(c.Input, c.Cuts) {
			pit, err := obiformats.ReadFastq(bytes.NewReader([]byte(piece)), ropts...)
			if err != nil {
				return nil, err
			}
			its = append(its, pit.Rebatch(k.Batch).MakeIWorker(c05identity, true, k.Workers))
		}
		var it obiiter.IBioSequence
		if c.Cmd == "concat" {
			it = its[0].Concat(its[1:]...)
		} else {
			it = its[0].Pool(its[1:]...)
		}
		if k.Stage2 > 0 {
			it = it.MakeIWorker(c05identity, true, k.Stage2)
		}
		sink, err := c05write(it, k.Writers)
		if err != nil {
			return nil, err
		}
		obiiter.WaitForLastPipe()
		if c.Cmd == "pool" {
			return c05sortRecords(sink.bytes()), nil
		}
		return sink.bytes(), nil
	case "fullfile":
		ropts = append(ropts, obiformats.OptionsFullFileBatch(true))
	}
	it, err := obiformats.ReadFastq(bytes.NewReader([]byte(c.Input)), ropts...)
	if err != nil {
		return nil, err
	}
	if c.Cmd == "fullfile" {
		// CompleteFileIterator / Load: the whole file as ONE batch, in input order whatever the parser workers did
		if k.Workers > 1 {
			it = it.MakeIWorker(c05identity, true, k.Workers)
		}
		sink, err := c05write(it, k.Writers)
		if err != nil {
			return nil, err
		}
		obiiter.WaitForLastPipe()
		return sink.bytes(), nil
	}
	if c.Cmd == "pairing" {
		rv, err := obiformats.ReadFastq(bytes.NewReader([]byte(c.Mates)), ropts...)
		if err != nil {
			return nil, err
		}
		it = it.PairTo(rv)
	}
	it = it.Rebatch(k.Batch)
	switch c.Cmd {
	case "convert":
		if k.Stage2 > 0 {
			it = it.MakeIWorker(c05identity, true, k.Workers)
		}
	case "complement":
		it = it.MakeIWorker(obiseq.ReverseComplementWorker(true), true, k.Workers)
		if k.Stage2 > 0 {
			// two more passes = identity on IUPAC DNA... not in general: keep a neutral second stage
			it = it.MakeIWorker(c05identity, true, k.Stage2)
		}
	case "grep":
		it = it.FilterOn(c05predicate(c), k.Batch, k.Workers)
	case "annotlen":
		w := obiseq.SeqToSliceConditionalWorker(nil, obiannotate.AddSeqLengthWorker(), false)
		it = it.MakeISliceWorker(w, false, k.Workers)
		if k.Stage2 > 0 {
			it = it.MakeIWorker(c05identity, true, k.Stage2)
		}
	case "count":
		it = it.MakeIWorker(c05identity, true, k.Workers)
		v, r, s := it.Count(true)
		obiiter.WaitForLastPipe()
		return []byte(fmt.Sprintf("entites,n\nvariants,%d\nreads,%d\nsymbols,%d\n", v, r, s)), nil
	case "divide":
		// DivideOn behind a worker pool (batches arrive in any order): the two streams are written at the same time
		yes, no := it.MakeIWorker(c05identity, true, k.Workers).DivideOn(c05predicate(c), k.Batch)
		var sy, sn *c05sink
		var ey, en error
		var wg sync.WaitGroup
		wg.Add(2)
		go func() { defer wg.Done(); sy, ey = c05write(yes, k.Writers) }()
		go func() { defer wg.Done(); sn, en = c05write(no, k.Writers) }()
		wg.Wait()
		obiiter.WaitForLastPipe()
		if ey != nil {
			return nil, ey
		}
		if en != nil {
			return nil, en
		}
		return append(append(sy.bytes(), []byte("\x00DISCARDED\x00\n")...), sn.bytes()...), nil
	case "filterempty":
		// a slice worker that drops the rejected records (leaving empty batches), then FilterEmpty
		p := c05predicate(c)
		w := func(sl obiseq.BioSequenceSlice) (obiseq.BioSequenceSlice, error) {
			out := obiseq.MakeBioSequenceSlice()
			for _, s := range sl {
				if p(s) {
					out = append(out, s)
				}
			}
			return out, nil
		}
		it = it.MakeISliceWorker(w, false, k.Workers).FilterEmpty()
		if k.Stage2 > 0 {
			it = it.MakeIWorker(c05identity, true, k.Stage2)
		}
	case "condworker":
		it = it.MakeIConditionalWorker(c05predicate(c), obiseq.ReverseComplementWorker(true), true, k.Workers)
	case "workerpipe":
		it = it.Pipe(obiiter.WorkerPipe(obiannotate.AddSeqLengthWorker(), false, k.Workers))
	case "batchover":
		// Load (batches sorted back in order) then IBatchOver: the in-memory slice served again in batches
		src, all := it.MakeIWorker(c05identity, true, k.Workers).Load()
		it = obiiter.IBatchOver(src, all, k.Batch)
		if k.Stage2 > 0 {
			it = it.MakeIWorker(c05identity, true, k.Stage2)
		}
	case "multiplex":
		// the barcode extraction of obimultiplex (errors kept), one library object shared by all the workers as in the command
		lib, err := obiformats.ReadNGSFilter(strings.NewReader(c.NGS))
		if err != nil {
			return nil, err
		}
		w := lib.ExtractMultiBarcodeSliceWorker(obingslibrary.OptionAllowedMismatches(2), obingslibrary.OptionAllowedIndel(false),
			obingslibrary.OptionUnidentified(""), obingslibrary.OptionDiscardErrors(false),
			obingslibrary.OptionParallelWorkers(k.Workers), obingslibrary.OptionBatchSize(k.Batch))
		it = it.MakeISliceWorker(w, false, k.Workers)
	case "pairing":
		it = obipairing.IAssemblePESequencesBatch(it, 2.0, 1.0, 5, c.Lmin, 0.9, true, true, true, k.Workers)
	default:
		return nil, fmt.Errorf("unknown cmd %q", c.Cmd)
	}
	sink := &c05sink{done: make(chan struct{})}
	res, err := obiformats.WriteFastq(it, sink, obiformats.OptionsParallelWorkers(k.Writers), obiformats.OptionCloseFile())
	if err != nil {
		return nil, err
	}
	res.Consume()
	<-sink.done
	obiiter.WaitForLastPipe()
	sink.mu.Lock()
	defer sink.mu.Unlock()
	return append([]byte{}, sink.buf.Bytes()...), nil
}

func c05run(c c05case) (o c05obs) {
	t0 := time.Now()
	o.Kind = "ok"
	if c.Keep == 0 {
		c.Keep = 2
	}
	defer func() {
		obiiter.VerifSetYield(0, 0)
		o.WallMs = time.Since(t0).Milliseconds()
	}()
	y0 := obiiter.VerifYieldCount()
	idx := map[string]int{}
	for _, k := range c.Configs {
		if k.Readers < 1 {
			k.Readers = 1
		}
		if k.Workers < 1 {
			k.Workers = 1
		}
		if k.Writers < 1 {
			k.Writers = 1
		}
		if k.Batch < 1 {
			k.Batch = 1
		}
		if k.GoMax > 0 {
			runtime.GOMAXPROCS(k.GoMax)
		}
		rep := k.Repeat
		if rep < 1 {
			rep = 1
		}
		for r := 0; r < rep; r++ {
			kk := k
			kk.Seed = k.Seed + uint64(r)*7919
			kk.Repeat = r
			obiiter.VerifSetYield(kk.Yield, kk.Seed)
			type res struct {
				b   []byte
				err error
			}
			ch := make(chan res, 1)
			go func() {
				b, err := c05once(c, kk)
				ch <- res{b, err}
			}()
			var out res
			select {
			case out = <-ch:
			case <-time.After(180 * time.Second):
				o.Kind, o.Err = "hang", fmt.Sprintf("pipeline did not finish in 180 s: %+v", kk)
				return
			}
			if out.err != nil {
				o.Kind, o.Err = "error", out.err.Error()
				return
			}
			o.Runs++
			h := sha256.Sum256(out.b)
			hs := hex.EncodeToString(h[:8])
			if i, ok := idx[hs]; ok {
				o.Outs[i].Runs++
				continue
			}
			e := c05out{Sha: hs, Runs: 1, First: kk, Poison: bytes.IndexByte(out.b, 0xDB) >= 0}
			if len(o.Outs) < c.Keep {
				e.Bytes = base64.StdEncoding.EncodeToString(out.b)
			}
			idx[hs] = len(o.Outs)
			o.Outs = append(o.Outs, e)
		}
	}
	o.Yields = obiiter.VerifYieldCount() - y0
	return
}

func init() {
	register("c05", func(in *bufio.Reader, out *bufio.Writer) error {
		return eachLine(in, out, func(c c05case) any { return c05run(c) })
	})
}
