package main

// vh c19 — round 3: the rest of pkg/obikmer's exported surface on the REAL code, as extra observations of
// the existing case kinds: DeBruijnGraph.KmerSize/Len/MaxWeight/WeightSpectrum/WeightMode/WeightMean/
// Previouses/MaxNext/MaxHead/MaxPath/BestConsensus/LongestPath/FilterMinWeight/HammingDistance/Gml/WriteGml,
// Nexts/Previouses outside the graph, LongestConsensus with min_cov > 0; KmerMap.KmerSize/Len, the buffer
// variant of NormalizedKmerSlice, NewKmerMap with maxoccurs, KmerMatch.FilterMinCount/Len/Sequences/Max;
// Index4mer/Sum4Mer/Common4Mer; obiconsensus.BuildConsensus with 0 / 1 read, a fixed k, --low-coverage and
// --save-graph.

import (
	"math"
	"os"
	"path/filepath"
	"sort"
	"strconv"

	"git.metabarcoding.org/obitools/obitools4/obitools4/pkg/obifp"
	"git.metabarcoding.org/obitools/obitools4/obitools4/pkg/obikmer"
	"git.metabarcoding.org/obitools/obitools4/obitools4/pkg/obiseq"
)

type c19cov struct {
	Num int `json:"num"` // min_cov = num / 2^e
	E   int `json:"e"`
}

type c19consx struct {
	Seq   string `json:"seq"`
	Err   bool   `json:"err"`
	Panic bool   `json:"panic"`
}

type c19xnode struct {
	Prevs   []string `json:"prevs"`
	MaxNext []string `json:"maxnext"` // nil: no successor; else [node, weight]
}

type c19x struct {
	KSize    int        `json:"ksize"`
	Len      int        `json:"len"`
	MaxW     int        `json:"maxw"`
	SpecLen  int        `json:"speclen"`
	Spectrum [][2]int   `json:"spectrum"`
	WMode    int        `json:"wmode"`
	WMean    float64    `json:"wmean"`
	Nodes    []c19xnode `json:"nodes"` // same order as obs.nodes
	MaxHead  []string   `json:"maxhead"` // nil: not found; else [node, weight]
	Greedy   bool       `json:"greedy"`  // the greedy walks were run (acyclic graph)
	MaxPath  []string   `json:"maxpath"`
	BestCons c19consx   `json:"bestcons"`
	Longest0 []string   `json:"longest0"` // LongestPath(0)
	LongestL []string   `json:"longestl"` // LongestPath(lmax)
	// FilterMinWeight(minw) on a second graph built from the same reads
	Filtered    [][2]string `json:"filtered"`
	FilteredCyc bool        `json:"filteredcyc"`
	FilteredLen int         `json:"filteredlen"`
	Covs        []c19consx  `json:"covs"`
	Ham         []int       `json:"ham"`
	ProbeNext   []bool      `json:"probenext"` // Nexts(x) panicked
	ProbePrev   []bool      `json:"probeprev"` // Previouses(x) panicked
	Gml         string      `json:"gml,omitempty"`
	GmlFile     string      `json:"gmlfile,omitempty"` // what WriteGml wrote (node numbers follow the iteration order of a Go map: judged like Gml())
}

func c19build(c c19case) *obikmer.DeBruijnGraph {
	g := obikmer.MakeDeBruijnGraph(c.K)
	for i, s := range c.Seqs {
		bs := obiseq.NewBioSequence("s"+strconv.Itoa(i), []byte(s.S), "")
		if s.Count != 1 {
			bs.SetCount(s.Count)
		}
		g.Push(bs)
	}
	return g
}

func c19panics(f func()) (p bool) {
	defer func() {
		if r := recover(); r != nil {
			p = true
		}
	}()
	f()
	return false
}

func c19consOf(f func() (*obiseq.BioSequence, error)) (o c19consx) {
	defer func() {
		if r := recover(); r != nil {
			o = c19consx{Panic: true}
		}
	}()
	seq, err := f()
	if err != nil || seq == nil {
		o.Err = true
	} else {
		o.Seq = seq.String()
	}
	return o
}

func c19u64(s string) uint64 {
	v, _ := strconv.ParseUint(s, 10, 64)
	return v
}

// c19extras is called by c19dbg once the round-2 observations are made (keys = sorted nodes)
func c19extras(c c19case, g *obikmer.DeBruijnGraph, keys []uint64, acyclic bool) *c19x {
	x := &c19x{}
	x.KSize = g.KmerSize()
	x.Len = g.Len()
	x.MaxW = g.MaxWeight()
	if x.MaxW <= 2000000 {
		sp := g.WeightSpectrum()
		x.SpecLen = len(sp)
		for i, n := range sp {
			if n != 0 {
				x.Spectrum = append(x.Spectrum, [2]int{i, n})
			}
		}
	} else {
		x.SpecLen = -1
	}
	x.WMode = g.WeightMode()
	x.WMean = g.WeightMean()
	if math.IsNaN(x.WMean) || math.IsInf(x.WMean, 0) {
		x.WMean = -1
	}
	for _, k := range keys {
		n := c19xnode{Prevs: u64s(g.Previouses(k))}
		if y, w, ok := g.MaxNext(k); ok {
			n.MaxNext = []string{strconv.FormatUint(y, 10), strconv.Itoa(w)}
		}
		x.Nodes = append(x.Nodes, n)
	}
	if h, w, ok := g.MaxHead(); ok {
		x.MaxHead = []string{strconv.FormatUint(h, 10), strconv.Itoa(w)}
	}
	if acyclic {
		// the greedy walks follow MaxNext until a node without successor: they do not terminate inside a cycle
		x.Greedy = true
		x.MaxPath = u64s(g.MaxPath())
		x.BestCons = c19consOf(func() (*obiseq.BioSequence, error) { return g.BestConsensus("best") })
		x.Longest0 = u64s(g.LongestPath(0))
		x.LongestL = u64s(g.LongestPath(c.LMax))
	}
	for _, cv := range c.Covs {
		mc := float64(cv.Num) / float64(uint64(1)<<uint(cv.E))
		if acyclic || len(keys) == 0 || g.HasCycle() {
			x.Covs = append(x.Covs, c19consOf(func() (*obiseq.BioSequence, error) { return g.LongestConsensus("cov", mc) }))
		} else {
			x.Covs = append(x.Covs, c19consx{Err: true})
		}
	}
	for _, p := range c.Ham {
		if len(p) == 2 {
			x.Ham = append(x.Ham, g.HammingDistance(c19u64(p[0]), c19u64(p[1])))
		}
	}
	for _, p := range c.Probe {
		v := c19u64(p)
		x.ProbeNext = append(x.ProbeNext, c19panics(func() { g.Nexts(v) }))
		x.ProbePrev = append(x.ProbePrev, c19panics(func() { g.Previouses(v) }))
	}
	if c.Gml {
		x.Gml = g.Gml()
		dir, err := os.MkdirTemp("", "c19gml")
		if err == nil {
			fn := filepath.Join(dir, "g.gml")
			if g.WriteGml(fn) == nil {
				if b, err := os.ReadFile(fn); err == nil {
					x.GmlFile = string(b)
				}
			}
			os.RemoveAll(dir)
		}
	}
	if c.MinW > 0 {
		g2 := c19build(c)
		g2.FilterMinWeight(c.MinW)
		nodes := g2.VerifNodes()
		k2 := make([]uint64, 0, len(nodes))
		for k := range nodes {
			k2 = append(k2, k)
		}
		sort.Slice(k2, func(i, j int) bool { return k2[i] < k2[j] })
		x.Filtered = [][2]string{}
		for _, k := range k2 {
			x.Filtered = append(x.Filtered, [2]string{strconv.FormatUint(k, 10), strconv.Itoa(g2.Weight(k))})
		}
		x.FilteredCyc = g2.HasCycle()
		x.FilteredLen = g2.Len()
	}
	return x
}

// ---- 4-mer tables
type c19c4x struct {
	Index  [][]int `json:"index"`  // [code, pos...] for the non-empty cells
	Cells  int     `json:"cells"`  // len(index)
	Sum    int     `json:"sum"`    // Sum4Mer(Count4Mer(s))
	Sum2   int     `json:"sum2"`   // Sum4Mer(Count4Mer(s2))
	Common int     `json:"common"` // Common4Mer(s, s2)
	CommonR int    `json:"commonr"` // Common4Mer(s2, s)
	Self   int     `json:"self"`   // Common4Mer(s, s)
}

var c19idx [][]int
var c19idxbuf []byte

func c19c4extras(c c19case) *c19c4x {
	x := &c19c4x{}
	bs := obiseq.NewBioSequence("s", []byte(c.S), "")
	bs2 := obiseq.NewBioSequence("s2", []byte(c.S2), "")
	var idx [][]int
	if c.Reuse {
		idx = obikmer.Index4mer(bs, &c19idx, &c19idxbuf)
	} else {
		idx = obikmer.Index4mer(bs, nil, nil)
	}
	x.Cells = len(idx)
	for code, l := range idx {
		if len(l) > 0 {
			x.Index = append(x.Index, append([]int{code}, l...))
		}
	}
	t1 := *obikmer.Count4Mer(bs, nil, nil)
	t2 := *obikmer.Count4Mer(bs2, nil, nil)
	x.Sum = obikmer.Sum4Mer(&t1)
	x.Sum2 = obikmer.Sum4Mer(&t2)
	x.Common = obikmer.Common4Mer(&t1, &t2)
	x.CommonR = obikmer.Common4Mer(&t2, &t1)
	x.Self = obikmer.Common4Mer(&t1, &t1)
	return x
}

// ---- k-mer index: maxoccurs, FilterMinCount, Len, Sequences, Max
type c19qx struct {
	Match  []int `json:"match"`  // Query: count per reference (-1: absent)
	NMatch int   `json:"nmatch"` // after FilterMinCount: Len()
	Kept   []int `json:"kept"`   // after FilterMinCount: Sequences() as reference numbers, sorted
	Max    int   `json:"max"`    // Max() as a reference number (-1: nil)
	MaxN   int   `json:"maxn"`   // its count
}

type c19ksx struct {
	IdxLen int   `json:"idxlen"` // KmerMap.Len(): number of keys
	KSize  int   `json:"ksize"`  // KmerMap.KmerSize()
	Q      c19qx `json:"q"`
	QRC    c19qx `json:"qrc"`
	Self   *c19qx `json:"self,omitempty"` // the query is the reference object number c.Self itself (--self)
}

func c19ksimx(c c19case) *c19ksx {
	x := &c19ksx{}
	refs := make(obiseq.BioSequenceSlice, 0, len(c.Refs))
	for i, s := range c.Refs {
		refs = append(refs, obiseq.NewBioSequence("r"+strconv.Itoa(i), []byte(s), ""))
	}
	maxocc := -1
	if c.MaxOcc != nil {
		maxocc = *c.MaxOcc
	}
	minshared := 1
	if c.MinShared != nil {
		minshared = *c.MinShared
	}
	km := obikmer.NewKmerMap[obifp.Uint128](refs, uint(c.K), c.Sparse, maxocc)
	x.IdxLen = km.Len()
	x.KSize = int(km.KmerSize())
	num := map[*obiseq.BioSequence]int{}
	for i, r := range refs {
		num[r] = i
	}
	one := func(q *obiseq.BioSequence) (o c19qx) {
		m := km.Query(q)
		o.Match = make([]int, len(refs))
		for i, ref := range refs {
			if n, ok := m[ref]; ok {
				o.Match[i] = n
			} else {
				o.Match[i] = -1
			}
		}
		m.FilterMinCount(minshared)
		o.NMatch = m.Len()
		o.Kept = []int{}
		for _, s := range m.Sequences() {
			o.Kept = append(o.Kept, num[s])
		}
		sort.Ints(o.Kept)
		o.Max = -1
		if s := m.Max(); s != nil {
			o.Max = num[s]
			o.MaxN = m[s]
		}
		return o
	}
	x.Q = one(obiseq.NewBioSequence("q", []byte(c.S), ""))
	x.QRC = one(obiseq.NewBioSequence("q", []byte(c19rc(c.S)), ""))
	if c.Self != nil && *c.Self >= 0 && *c.Self < len(refs) {
		o := one(refs[*c.Self])
		x.Self = &o
	}
	return x
}

// ---- NormalizedKmerSlice with a caller-supplied buffer
func c19kmapbuf[T obifp.FPUint[T]](c c19case) (same bool, ksize int, idxlen int) {
	km := obikmer.NewKmerMap[T](obiseq.BioSequenceSlice{}, uint(c.K), c.Sparse, -1)
	bs := obiseq.NewBioSequence("s", []byte(c.S), "")
	ref := km.NormalizedKmerSlice(bs, nil)
	buf := make([]T, 3, 5)
	for i := range buf {
		buf[i] = obifp.From64[T](0xdeadbeef)
	}
	got := km.NormalizedKmerSlice(bs, &buf)
	same = len(got) == len(ref)
	if same {
		for i := range got {
			if !got[i].Xor(ref[i]).IsZero() {
				same = false
			}
		}
	}
	return same, int(km.KmerSize()), km.Len()
}
