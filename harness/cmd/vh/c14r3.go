package main

// vh c14, round 3 — histories of operations on ONE taxonomy object (and on persistent sequences):
// the queries of c14.go interleaved with the weighted LCA (which reverses lineages in place), the
// sequence workers nobody called before (species / genus / family / path / scientific name / rank,
// obiannotate's worker constructors), IsAValidTaxon with auto-correction, the name index, AddNewTaxa
// without replacement.  Every operation reports its own result; the oracle evaluates each one as a
// pure function of the dump (any leak of state between operations is a disagreement).

import (
	"fmt"
	"math"
	"sort"
	"strconv"

	"git.metabarcoding.org/obitools/obitools4/obitools4/pkg/obiseq"
	"git.metabarcoding.org/obitools/obitools4/obitools4/pkg/obitax"
	"git.metabarcoding.org/obitools/obitools4/obitools4/pkg/obitools/obiannotate"
)

type c14op struct {
	Op    string         `json:"op"`
	A     int            `json:"a"`
	B     int            `json:"b"`
	Rank  string         `json:"rank"`
	Ranks []string       `json:"ranks"`
	Seq   *c14seq        `json:"seq"`   // a fresh sequence built from this description ...
	On    string         `json:"on"`    // ... or the persistent sequence of that name (made by op "new")
	Attrs map[string]any `json:"attrs"` // extra attributes given to the sequence (strings / numbers)
	Thr   float64        `json:"thr"`
	Slot  string         `json:"slot"`
	Auto  bool           `json:"auto"`
	Name  string         `json:"name"`
}

func c14attrs(s *obiseq.BioSequence) map[string]any {
	r := map[string]any{}
	if !s.HasAnnotation() {
		return r
	}
	for k, v := range s.Annotations() {
		switch x := v.(type) {
		case float64:
			if x == math.Trunc(x) && math.Abs(x) < 1e15 {
				r[k] = int(x)
			} else {
				r[k] = x
			}
		default:
			r[k] = v
		}
	}
	return r
}

func c14hist(tax *obitax.Taxonomy, ops []c14op) []map[string]any {
	res := make([]map[string]any, 0, len(ops))
	named := map[string]*obiseq.BioSequence{}
	getseq := func(op c14op) *obiseq.BioSequence {
		if op.On != "" {
			if s, ok := named[op.On]; ok {
				return s
			}
		}
		var s *obiseq.BioSequence
		if op.Seq != nil {
			s = c14mkseq(*op.Seq)
		} else {
			s = obiseq.NewBioSequence("s", []byte("acgt"), "")
		}
		for k, v := range op.Attrs {
			if f, ok := v.(float64); ok && f == math.Trunc(f) {
				s.SetAttribute(k, int(f))
			} else {
				s.SetAttribute(k, v)
			}
		}
		if op.On != "" {
			named[op.On] = s
		}
		return s
	}
	// a sequence worker applied to the sequence of the operation: annotations afterwards, or fatal
	work := func(op c14op, mk func() obiseq.SeqWorker) map[string]any {
		r := map[string]any{}
		seq := getseq(op)
		func() {
			defer func() {
				if e := recover(); e != nil {
					r["fatal"] = 1
				}
			}()
			sl, e := mk()(seq)
			if e != nil || len(sl) != 1 {
				r["err"] = 1
				return
			}
			r["attrs"] = c14attrs(sl[0])
		}()
		if _, ok := r["attrs"]; !ok {
			r["attrs"] = c14attrs(seq) // what a fatal / failing worker left on the sequence
		}
		return r
	}
	for _, op := range ops {
		r := map[string]any{}
		func() {
			defer func() {
				if e := recover(); e != nil {
					r = map[string]any{"panic": 1}
				}
			}()
			switch op.Op {
			case "new":
				getseq(op)
				r["ok"] = 1
			case "path":
				p, e := tax.Path(op.A)
				if e != nil {
					if _, e0 := tax.Taxon(op.A); e0 != nil {
						r["p"] = nil
					} else {
						r["p"] = []int{-2}
					}
					return
				}
				l := make([]int, 0, len(*p))
				for _, n := range *p {
					l = append(l, n.Taxid())
				}
				r["p"] = l
			case "lca":
				t1, e1 := tax.Taxon(op.A)
				t2, e2 := tax.Taxon(op.B)
				if e1 != nil || e2 != nil {
					r["lca"], r["sub"] = -1, -1
					return
				}
				r["lca"] = guardInt(-3, func() int {
					l, e := t1.LCA(t2)
					if e != nil {
						return -2
					}
					return l.Taxid()
				})
				r["sub"] = guardInt(-3, func() int { return b2i14(t1.IsSubCladeOf(t2)) })
			case "rank", "species", "genus", "family":
				t, e := tax.Taxon(op.A)
				if e != nil {
					r["at"], r["nil"], r["has"] = -1, 0, -1
					return
				}
				rk := op.Rank
				if op.Op != "rank" {
					rk = op.Op
				}
				r["nil"] = 0
				r["at"] = guardInt(-3, func() int {
					var n *obitax.TaxNode
					switch op.Op {
					case "species":
						n = t.Species()
					case "genus":
						n = t.Genus()
					case "family":
						n = t.Family()
					default:
						n = t.TaxonAtRank(rk)
					}
					if n == nil {
						r["nil"] = 1
						return 0
					}
					return n.Taxid()
				})
				r["has"] = guardInt(-3, func() int { return b2i14(t.HasRankDefined(rk)) })
			case "noderank":
				t, e := tax.Taxon(op.A)
				if e != nil {
					r["r"] = nil
					return
				}
				r["r"] = t.Rank()
				r["sn"] = t.ScientificName()
			case "wlca":
				seq := getseq(op)
				r["t"] = guardInt(-3, func() int {
					n, rans, g := tax.LCA(seq, op.Thr)
					r["b"] = strconv.FormatUint(math.Float64bits(rans), 10)
					r["g"] = g
					if n == nil {
						return -4
					}
					return n.Taxid()
				})
			case "nillca":
				t, e := tax.Taxon(op.A)
				if e != nil {
					r["lca"] = -1
					return
				}
				r["lca"] = guardInt(-3, func() int {
					l, e := t.LCA(nil)
					if e != nil {
						return -2
					}
					if l == nil {
						return -4
					}
					return l.Taxid()
				})
				r["lca2"] = guardInt(-3, func() int {
					l, e := (*obitax.TaxNode)(nil).LCA(t)
					if e != nil {
						return -2
					}
					if l == nil {
						return -4
					}
					return l.Taxid()
				})
			case "w_species":
				r = work(op, func() obiseq.SeqWorker { return tax.MakeSetSpeciesWorker() })
			case "w_genus":
				r = work(op, func() obiseq.SeqWorker { return tax.MakeSetGenusWorker() })
			case "w_family":
				r = work(op, func() obiseq.SeqWorker { return tax.MakeSetFamilyWorker() })
			case "w_path":
				r = work(op, func() obiseq.SeqWorker { return tax.MakeSetPathWorker() })
			case "w_atrank":
				r = work(op, func() obiseq.SeqWorker { return tax.MakeSetTaxonAtRankWorker(op.Rank) })
			case "w_atranks":
				r = work(op, func() obiseq.SeqWorker { return obiannotate.AddTaxonAtRankWorker(tax, op.Ranks...) })
			case "w_sci":
				r = work(op, func() obiseq.SeqWorker { return obiannotate.AddScientificNameWorker(tax) })
			case "w_trank":
				r = work(op, func() obiseq.SeqWorker { return obiannotate.AddTaxonRankWorker(tax) })
			case "w_lca":
				r = work(op, func() obiseq.SeqWorker { return obitax.AddLCAWorker(tax, op.Slot, op.Thr) })
			case "valid":
				seq := getseq(op)
				var p obiseq.SequencePredicate
				if op.Auto {
					p = tax.IsAValidTaxon(true)
				} else if op.B == 1 {
					p = tax.IsAValidTaxon(false)
				} else {
					p = tax.IsAValidTaxon()
				}
				r["ok"] = b2i14(p(seq))
				r["again"] = b2i14(p(seq)) // the predicate keeps a table of the deprecated taxids it has seen
				r["attrs"] = c14attrs(seq)
			case "index":
				ids := []int{}
				if set, ok := (*tax.Index())[op.Name]; ok {
					for id, n := range *set {
						if n == nil || n.Taxid() != id {
							ids = append(ids, -id-1000000000)
						} else {
							ids = append(ids, id)
						}
					}
				}
				sort.Ints(ids)
				r["ids"] = ids
			case "addtaxa":
				// AddNewTaxa without replacement: an existing taxid is refused and nothing changes
				before := tax.Len()
				n, e := tax.AddNewTaxa(op.A, op.B, op.Rank, false, false)
				r["err"] = b2i14(e != nil)
				r["nil"] = b2i14(n == nil)
				r["dlen"] = tax.Len() - before
			default:
				r["unknown_op"] = op.Op
			}
		}()
		res = append(res, r)
	}
	return res
}

var _ = fmt.Sprint
