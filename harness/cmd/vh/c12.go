package main

// vh c12 — runs the REAL demultiplexing code (ReadNGSFilter, Compile2, ExtractMultiBarcode, Hamming,
// Levenshtein, Closest*Tag, lookForTag, lookForRescueTag) on JSON cases.

import (
	"bufio"
	"fmt"
	"sort"
	"strings"

	log "github.com/sirupsen/logrus"

	"git.metabarcoding.org/obitools/obitools4/obitools4/pkg/obiformats"
	"git.metabarcoding.org/obitools/obitools4/obitools4/pkg/obingslibrary"
	"git.metabarcoding.org/obitools/obitools4/obitools4/pkg/obiseq"
)

type c12case struct {
	Op    string      `json:"op"`
	Sheet string      `json:"sheet"`
	Reads []string    `json:"reads"`
	A     string      `json:"a"`
	B     string      `json:"b"`
	Tags  [][2]string `json:"tags"`
	Side  string      `json:"side"`
	Dist  string      `json:"dist"`
	Delim string      `json:"delim"`
	TagL  int         `json:"tagl"`
	Bord  int         `json:"border"`
	Indel int         `json:"indel"`
}

type c12sample struct {
	F      string `json:"f"`
	R      string `json:"r"`
	Sample string `json:"sample"`
	Exp    string `json:"exp"`
}

type c12marker struct {
	Fwd     string      `json:"fwd"`
	Rev     string      `json:"rev"`
	Ftl     int         `json:"ftl"`
	Rtl     int         `json:"rtl"`
	Fsp     int         `json:"fsp"`
	Rsp     int         `json:"rsp"`
	Ferr    int         `json:"ferr"`
	Rerr    int         `json:"rerr"`
	Find    bool        `json:"find"`
	Rind    bool        `json:"rind"`
	Fmode   string      `json:"fmode"`
	Rmode   string      `json:"rmode"`
	Fdelim  int         `json:"fdelim"`
	Rdelim  int         `json:"rdelim"`
	Ftind   int         `json:"ftind"`
	Rtind   int         `json:"rtind"`
	Samples []c12sample `json:"samples"`
}

type c12res struct {
	Seq    string `json:"seq"`
	Dir    string `json:"dir"`
	Fp     string `json:"fp"`
	Rp     string `json:"rp"`
	Fm     string `json:"fm"`
	Rm     string `json:"rm"`
	Fe     int    `json:"fe"`
	Re     int    `json:"re"`
	Ft     string `json:"ft"`
	Rt     string `json:"rt"`
	Fpt    string `json:"fpt"`
	Rpt    string `json:"rpt"`
	HasFpt bool   `json:"has_fpt"`
	HasRpt bool   `json:"has_rpt"`
	Fd     int    `json:"fd"`
	Rd     int    `json:"rd"`
	Sample string `json:"sample"`
	HasS   bool   `json:"has_sample"`
	Exp    string `json:"exp"`
	Err    string `json:"err"`
	HasErr bool   `json:"has_err"`
	Rank   string `json:"rank"`
}

type c12obs struct {
	Kind   string      `json:"kind"` // ok | parse_error | fatal | panic | int | str | closest
	Err    string      `json:"err,omitempty"`
	Lib    []c12marker `json:"lib,omitempty"`
	Reads  [][]c12res  `json:"reads,omitempty"`
	Int    int         `json:"int"`
	Str    string      `json:"str"`
	Stable bool        `json:"stable"`
}

type c12fatal struct{ code int }

func c12str(a obiseq.Annotation, k string) (string, bool) {
	v, ok := a[k]
	if !ok {
		return "", false
	}
	return fmt.Sprint(v), true
}

func c12int(a obiseq.Annotation, k string) int {
	v, ok := a[k]
	if !ok {
		return -1
	}
	if i, ok := v.(int); ok {
		return i
	}
	return -2
}

func c12lib(lib *obingslibrary.NGSLibrary) []c12marker {
	res := make([]c12marker, 0, len(lib.Markers))
	for p, m := range lib.Markers {
		cm := c12marker{Fwd: p.Forward, Rev: p.Reverse, Ftl: m.Forward_tag_length, Rtl: m.Reverse_tag_length,
			Fsp: m.Forward_spacer, Rsp: m.Reverse_spacer, Ferr: m.Forward_error, Rerr: m.Reverse_error,
			Find: m.Forward_allows_indels, Rind: m.Reverse_allows_indels, Fmode: m.Forward_matching, Rmode: m.Reverse_matching,
			Fdelim: int(m.Forward_tag_delimiter), Rdelim: int(m.Reverse_tag_delimiter),
			Ftind: m.Forward_tag_indels, Rtind: m.Reverse_tag_indels}
		for t, pcr := range m.VerifSamples() {
			cm.Samples = append(cm.Samples, c12sample{F: t.Forward, R: t.Reverse, Sample: pcr.Sample, Exp: pcr.Experiment})
		}
		sort.Slice(cm.Samples, func(i, j int) bool {
			if cm.Samples[i].F != cm.Samples[j].F {
				return cm.Samples[i].F < cm.Samples[j].F
			}
			return cm.Samples[i].R < cm.Samples[j].R
		})
		res = append(res, cm)
	}
	sort.Slice(res, func(i, j int) bool {
		if res[i].Fwd != res[j].Fwd {
			return res[i].Fwd < res[j].Fwd
		}
		return res[i].Rev < res[j].Rev
	})
	return res
}

func c12demux(c c12case) c12obs {
	lib, err := obiformats.ReadNGSFilter(strings.NewReader(c.Sheet))
	if err != nil {
		return c12obs{Kind: "parse_error", Err: err.Error()}
	}
	if err := lib.Compile2(); err != nil {
		return c12obs{Kind: "parse_error", Err: "compile: " + err.Error()}
	}
	o := c12obs{Kind: "ok", Lib: c12lib(lib), Reads: make([][]c12res, 0, len(c.Reads))}
	for i, r := range c.Reads {
		s := obiseq.NewBioSequence(fmt.Sprintf("r%d", i), []byte(r), "")
		out, err := lib.ExtractMultiBarcode(s)
		if err != nil {
			return c12obs{Kind: "parse_error", Err: "extract: " + err.Error()}
		}
		rr := make([]c12res, 0, len(out))
		for _, b := range out {
			a := b.Annotations()
			x := c12res{Seq: b.String()}
			x.Dir, _ = c12str(a, "obimultiplex_direction")
			x.Fp, _ = c12str(a, "obimultiplex_forward_primer")
			x.Rp, _ = c12str(a, "obimultiplex_reverse_primer")
			x.Fm, _ = c12str(a, "obimultiplex_forward_match")
			x.Rm, _ = c12str(a, "obimultiplex_reverse_match")
			x.Fe = c12int(a, "obimultiplex_forward_error")
			x.Re = c12int(a, "obimultiplex_reverse_error")
			x.Ft, _ = c12str(a, "obimultiplex_forward_tag")
			x.Rt, _ = c12str(a, "obimultiplex_reverse_tag")
			x.Fpt, x.HasFpt = c12str(a, "obimultiplex_forward_proposed_tag")
			x.Rpt, x.HasRpt = c12str(a, "obimultiplex_reverse_proposed_tag")
			x.Fd = c12int(a, "obimultiplex_forward_tag_dist")
			x.Rd = c12int(a, "obimultiplex_reverse_tag_dist")
			x.Sample, x.HasS = c12str(a, "sample")
			x.Exp, _ = c12str(a, "experiment")
			x.Err, x.HasErr = c12str(a, "obimultiplex_error")
			x.Rank, _ = c12str(a, "obimultiplex_amplicon_rank")
			rr = append(rr, x)
		}
		o.Reads = append(o.Reads, rr)
	}
	return o
}

func c12closest(c c12case) c12obs {
	lib := obingslibrary.MakeNGSLibrary()
	m, _ := lib.GetMarker("acgtacgtacgtacgtac", "ttggccaattggccaatt")
	for _, t := range c.Tags {
		m.GetPCR(t[0], t[1])
	}
	d := obingslibrary.Hamming
	if c.Dist == "lev" {
		d = obingslibrary.Levenshtein
	}
	run := func() (string, int) {
		if c.Side == "r" {
			return m.ClosestReverseTag(c.A, d)
		}
		return m.ClosestForwardTag(c.A, d)
	}
	t0, d0 := run()
	stable := true
	for k := 0; k < 12; k++ { // Go randomises the map iteration order on every range
		t, dd := run()
		if t != t0 || dd != d0 {
			stable = false
		}
	}
	return c12obs{Kind: "closest", Str: t0, Int: d0, Stable: stable}
}

func c12run(c c12case) (o c12obs) {
	defer func() {
		if r := recover(); r != nil {
			if f, ok := r.(c12fatal); ok {
				o = c12obs{Kind: "fatal", Int: f.code}
			} else {
				o = c12obs{Kind: "panic", Err: fmt.Sprint(r)}
			}
		}
	}()
	switch c.Op {
	case "demux":
		return c12demux(c)
	case "hamming":
		return c12obs{Kind: "int", Int: obingslibrary.Hamming(c.A, c.B)}
	case "lev":
		return c12obs{Kind: "int", Int: obingslibrary.Levenshtein(c.A, c.B)}
	case "closest":
		return c12closest(c)
	case "lookfortag":
		return c12obs{Kind: "str", Str: obingslibrary.VerifLookForTag(c.A, c.Delim[0])}
	case "rescue":
		return c12obs{Kind: "str", Str: obingslibrary.VerifLookForRescueTag(c.A, c.Delim[0], c.TagL, c.Bord, c.Indel)}
	}
	return c12obs{Kind: "panic", Err: "unknown op " + c.Op}
}

func init() {
	register("c12", func(in *bufio.Reader, out *bufio.Writer) error {
		// log.Fatal inside the library must not kill the harness: turn the exit into a panic we recover
		log.StandardLogger().ExitFunc = func(code int) { panic(c12fatal{code}) }
		return eachLine(in, out, func(c c12case) any { return c12run(c) })
	})
}
