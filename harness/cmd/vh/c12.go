package main

// vh c12 — runs the REAL demultiplexing code (ReadNGSFilter, Compile2, ExtractMultiBarcode, Hamming,
// Levenshtein, Closest*Tag, lookForTag, lookForRescueTag) on JSON cases.

import (
	"bufio"
	"fmt"
	"reflect"
	"sort"
	"strings"

	log "github.com/sirupsen/logrus"

	"git.metabarcoding.org/obitools/obitools4/obitools4/pkg/obiformats"
	"git.metabarcoding.org/obitools/obitools4/obitools4/pkg/obingslibrary"
	"git.metabarcoding.org/obitools/obitools4/obitools4/pkg/obiseq"
)

type c12case struct {
	Op    string      `json:"op"`
	Sheet string      `json:"sheet"`
	Reads []string    `json:"reads"`
	A     string      `json:"a"`
	B     string      `json:"b"`
	Tags  [][2]string `json:"tags"`
	Side  string      `json:"side"`
	Dist  string      `json:"dist"`
	Delim string      `json:"delim"`
	TagL  int         `json:"tagl"`
	Bord  int         `json:"border"`
	Indel int         `json:"indel"`
	Reps  int         `json:"reps"` // demux: parse the sheet and demultiplex every read this many times (fresh Go maps each time)
	Hits  bool        `json:"hits"` // demux: also report the primer matches collected by the library (verif hook)
	// round 3: the command-level glue, in process
	Via     string           `json:"via"`     // "worker": through the real ExtractMultiBarcodeSliceWorker (what obimultiplex runs) with the options below
	Emis    int              `json:"emis"`    // -e / --allowed-mismatches (<= 0: not given)
	Windels bool             `json:"windels"` // --with-indels
	Annots  []map[string]any `json:"annots"`  // annotations the reads already carry (e.g. those of a previous demultiplexing)
}

type c12hit struct {
	B   int    `json:"b"`
	E   int    `json:"e"`
	K   int    `json:"k"`
	Fwd string `json:"fwd"`
	Rev string `json:"rev"`
	C   bool   `json:"c"`   // complemented pattern
	Dir bool   `json:"dir"` // PrimerMatch.Forward
}

type c12order struct {
	Order []string `json:"order"`
	Tag   string   `json:"tag"`
	Dist  int      `json:"dist"`
}

type c12alt struct {
	Read int      `json:"read"`
	Rep  int      `json:"rep"`
	Recs []c12res `json:"recs"`
}

type c12sample struct {
	F      string `json:"f"`
	R      string `json:"r"`
	Sample string `json:"sample"`
	Exp    string `json:"exp"`
}

type c12marker struct {
	Fwd     string      `json:"fwd"`
	Rev     string      `json:"rev"`
	Ftl     int         `json:"ftl"`
	Rtl     int         `json:"rtl"`
	Fsp     int         `json:"fsp"`
	Rsp     int         `json:"rsp"`
	Ferr    int         `json:"ferr"`
	Rerr    int         `json:"rerr"`
	Find    bool        `json:"find"`
	Rind    bool        `json:"rind"`
	Fmode   string      `json:"fmode"`
	Rmode   string      `json:"rmode"`
	Fdelim  int         `json:"fdelim"`
	Rdelim  int         `json:"rdelim"`
	Ftind   int         `json:"ftind"`
	Rtind   int         `json:"rtind"`
	Samples []c12sample `json:"samples"`
}

type c12res struct {
	Seq    string `json:"seq"`
	Dir    string `json:"dir"`
	Fp     string `json:"fp"`
	Rp     string `json:"rp"`
	Fm     string `json:"fm"`
	Rm     string `json:"rm"`
	Fe     int    `json:"fe"`
	Re     int    `json:"re"`
	Ft     string `json:"ft"`
	Rt     string `json:"rt"`
	Fpt    string `json:"fpt"`
	Rpt    string `json:"rpt"`
	HasFpt bool   `json:"has_fpt"`
	HasRpt bool   `json:"has_rpt"`
	Fd     int    `json:"fd"`
	Rd     int    `json:"rd"`
	Sample string `json:"sample"`
	HasS   bool   `json:"has_sample"`
	Exp    string `json:"exp"`
	Err    string `json:"err"`
	HasErr bool   `json:"has_err"`
	Rank   string `json:"rank"`
	Fmt    string `json:"fmt"` // obimultiplex_forward_matching
	Rmt    string `json:"rmt"`
	// every annotation that is not one of the above (annotations declared for the sample in the sheet, annotations the read carried)
	Extra map[string]string `json:"extra"`
}

type c12obs struct {
	Kind     string      `json:"kind"` // ok | parse_error | fatal | panic | int | str | closest
	Err      string      `json:"err,omitempty"`
	Lib      []c12marker `json:"lib,omitempty"`
	Reads    [][]c12res  `json:"reads,omitempty"`
	Int      int         `json:"int"`
	Str      string      `json:"str"`
	Stable   bool        `json:"stable"`
	Hits     [][]c12hit  `json:"hits,omitempty"`
	Unstable []c12alt    `json:"unstable,omitempty"` // outputs that differ between repetitions (must be empty)
	Orders   []c12order  `json:"orders,omitempty"`   // closest: one entry per distinct iteration order observed
	NOrders  int         `json:"n_orders"`
	Target   int         `json:"target_orders"`
	Builds   int         `json:"builds"`
}

type c12fatal struct{ code int }

func c12str(a obiseq.Annotation, k string) (string, bool) {
	v, ok := a[k]
	if !ok {
		return "", false
	}
	return fmt.Sprint(v), true
}

func c12int(a obiseq.Annotation, k string) int {
	v, ok := a[k]
	if !ok {
		return -1
	}
	if i, ok := v.(int); ok {
		return i
	}
	return -2
}

func c12lib(lib *obingslibrary.NGSLibrary) []c12marker {
	res := make([]c12marker, 0, len(lib.Markers))
	for p, m := range lib.Markers {
		cm := c12marker{Fwd: p.Forward, Rev: p.Reverse, Ftl: m.Forward_tag_length, Rtl: m.Reverse_tag_length,
			Fsp: m.Forward_spacer, Rsp: m.Reverse_spacer, Ferr: m.Forward_error, Rerr: m.Reverse_error,
			Find: m.Forward_allows_indels, Rind: m.Reverse_allows_indels, Fmode: m.Forward_matching, Rmode: m.Reverse_matching,
			Fdelim: int(m.Forward_tag_delimiter), Rdelim: int(m.Reverse_tag_delimiter),
			Ftind: m.Forward_tag_indels, Rtind: m.Reverse_tag_indels}
		for t, pcr := range m.VerifSamples() {
			cm.Samples = append(cm.Samples, c12sample{F: t.Forward, R: t.Reverse, Sample: pcr.Sample, Exp: pcr.Experiment})
		}
		sort.Slice(cm.Samples, func(i, j int) bool {
			if cm.Samples[i].F != cm.Samples[j].F {
				return cm.Samples[i].F < cm.Samples[j].F
			}
			return cm.Samples[i].R < cm.Samples[j].R
		})
		res = append(res, cm)
	}
	sort.Slice(res, func(i, j int) bool {
		if res[i].Fwd != res[j].Fwd {
			return res[i].Fwd < res[j].Fwd
		}
		return res[i].Rev < res[j].Rev
	})
	return res
}

var c12known = map[string]bool{"obimultiplex_direction": true, "obimultiplex_forward_primer": true, "obimultiplex_reverse_primer": true,
	"obimultiplex_forward_match": true, "obimultiplex_reverse_match": true, "obimultiplex_forward_error": true, "obimultiplex_reverse_error": true,
	"obimultiplex_forward_tag": true, "obimultiplex_reverse_tag": true, "obimultiplex_forward_proposed_tag": true, "obimultiplex_reverse_proposed_tag": true,
	"obimultiplex_forward_tag_dist": true, "obimultiplex_reverse_tag_dist": true, "sample": true, "experiment": true, "obimultiplex_error": true,
	"obimultiplex_amplicon_rank": true, "obimultiplex_forward_matching": true, "obimultiplex_reverse_matching": true}

func c12demuxOnce(c c12case, withHits bool) c12obs {
	lib, err := obiformats.ReadNGSFilter(strings.NewReader(c.Sheet))
	if err != nil {
		return c12obs{Kind: "parse_error", Err: err.Error()}
	}
	var worker obiseq.SeqSliceWorker
	if c.Via == "worker" {
		// what the obimultiplex command does (IExtractBarcode): the command-line options are applied to the library, which is then compiled
		emis := -1
		if c.Emis > 0 {
			emis = c.Emis
		}
		worker = lib.ExtractMultiBarcodeSliceWorker(
			obingslibrary.OptionAllowedMismatches(emis),
			obingslibrary.OptionAllowedIndel(c.Windels),
			obingslibrary.OptionUnidentified(""),
			obingslibrary.OptionDiscardErrors(false),
			obingslibrary.OptionParallelWorkers(1),
			obingslibrary.OptionBatchSize(10))
	} else if err := lib.Compile2(); err != nil {
		return c12obs{Kind: "parse_error", Err: "compile: " + err.Error()}
	}
	o := c12obs{Kind: "ok", Lib: c12lib(lib), Reads: make([][]c12res, 0, len(c.Reads))}
	for i, r := range c.Reads {
		s := obiseq.NewBioSequence(fmt.Sprintf("r%d", i), []byte(r), "")
		if i < len(c.Annots) {
			for k, v := range c.Annots[i] {
				if f, ok := v.(float64); ok && f == float64(int(f)) {
					s.SetAttribute(k, int(f))
				} else {
					s.SetAttribute(k, v)
				}
			}
		}
		if withHits {
			hh := make([]c12hit, 0, 4)
			for _, h := range lib.VerifPrimerMatches(s) {
				hh = append(hh, c12hit{B: h.Begin, E: h.End, K: h.Mismatches, Fwd: h.Primers.Forward, Rev: h.Primers.Reverse, C: h.Complement, Dir: h.Forward})
			}
			sort.SliceStable(hh, func(i, j int) bool { return hh[i].B < hh[j].B })
			o.Hits = append(o.Hits, hh)
		}
		var out obiseq.BioSequenceSlice
		if worker != nil {
			out, err = worker(obiseq.BioSequenceSlice{s})
		} else {
			out, err = lib.ExtractMultiBarcode(s)
		}
		if err != nil {
			return c12obs{Kind: "parse_error", Err: "extract: " + err.Error()}
		}
		rr := make([]c12res, 0, len(out))
		for _, b := range out {
			a := b.Annotations()
			x := c12res{Seq: b.String()}
			x.Dir, _ = c12str(a, "obimultiplex_direction")
			x.Fp, _ = c12str(a, "obimultiplex_forward_primer")
			x.Rp, _ = c12str(a, "obimultiplex_reverse_primer")
			x.Fm, _ = c12str(a, "obimultiplex_forward_match")
			x.Rm, _ = c12str(a, "obimultiplex_reverse_match")
			x.Fe = c12int(a, "obimultiplex_forward_error")
			x.Re = c12int(a, "obimultiplex_reverse_error")
			x.Ft, _ = c12str(a, "obimultiplex_forward_tag")
			x.Rt, _ = c12str(a, "obimultiplex_reverse_tag")
			x.Fpt, x.HasFpt = c12str(a, "obimultiplex_forward_proposed_tag")
			x.Rpt, x.HasRpt = c12str(a, "obimultiplex_reverse_proposed_tag")
			x.Fd = c12int(a, "obimultiplex_forward_tag_dist")
			x.Rd = c12int(a, "obimultiplex_reverse_tag_dist")
			x.Sample, x.HasS = c12str(a, "sample")
			x.Exp, _ = c12str(a, "experiment")
			x.Err, x.HasErr = c12str(a, "obimultiplex_error")
			x.Rank, _ = c12str(a, "obimultiplex_amplicon_rank")
			x.Fmt, _ = c12str(a, "obimultiplex_forward_matching")
			x.Rmt, _ = c12str(a, "obimultiplex_reverse_matching")
			x.Extra = map[string]string{}
			for k, v := range a {
				if !c12known[k] {
					x.Extra[k] = fmt.Sprint(v)
				}
			}
			rr = append(rr, x)
		}
		o.Reads = append(o.Reads, rr)
	}
	return o
}

// the sheet is parsed and every read demultiplexed c.Reps times: every repetition builds fresh Go maps (new hash seeds, hence
// other iteration orders of the marker and sample tables); the records must not depend on it
func c12demux(c c12case) c12obs {
	o := c12demuxOnce(c, c.Hits)
	if o.Kind != "ok" {
		return o
	}
	for rep := 1; rep < c.Reps; rep++ {
		o2 := c12demuxOnce(c, false)
		if o2.Kind != "ok" {
			o.Unstable = append(o.Unstable, c12alt{Read: -1, Rep: rep})
			continue
		}
		for i := range o.Reads {
			if !reflect.DeepEqual(o.Reads[i], o2.Reads[i]) && len(o.Unstable) < 8 {
				o.Unstable = append(o.Unstable, c12alt{Read: i, Rep: rep, Recs: o2.Reads[i]})
			}
		}
	}
	return o
}

// Closest*Tag is run on freshly built markers until every iteration order of the (side) tags has been observed
// (n <= 5 pairs) or a build budget is spent: the order actually followed by the range over the Go map is read off the
// calls to the distance function.
func c12closest(c c12case) c12obs {
	d := obingslibrary.Hamming
	if c.Dist == "lev" {
		d = obingslibrary.Levenshtein
	}
	// distinct pairs, multiplicities of the side tags
	type pair [2]string
	seenp := map[pair]bool{}
	pairs := make([][2]string, 0, len(c.Tags))
	for _, t := range c.Tags {
		p := pair{strings.ToLower(t[0]), strings.ToLower(t[1])}
		if !seenp[p] {
			seenp[p] = true
			pairs = append(pairs, t)
		}
	}
	n := len(pairs)
	mult := map[string]int{}
	for _, t := range pairs {
		if c.Side == "r" {
			mult[strings.ToLower(t[1])]++
		} else {
			mult[strings.ToLower(t[0])]++
		}
	}
	fact := func(k int) int {
		r := 1
		for i := 2; i <= k; i++ {
			r *= i
		}
		return r
	}
	target, budget := -1, 150
	if n <= 5 {
		target = fact(n)
		for _, k := range mult {
			target /= fact(k)
		}
		budget = 6000
	}
	seen := map[string]int{}
	orders := make([]c12order, 0, 8)
	stable := true
	builds := 0
	rs := uint64(88172645463325252)
	for ; builds < budget && (target < 0 || len(seen) < target); builds++ {
		lib := obingslibrary.MakeNGSLibrary()
		m, _ := lib.GetMarker("acgtacgtacgtacgtac", "ttggccaattggccaatt")
		// insertion order: a pseudo-random permutation (xorshift), the identity first
		idx := make([]int, n)
		for i := range idx {
			idx[i] = i
		}
		if builds > 0 {
			for i := n - 1; i > 0; i-- {
				rs ^= rs << 13
				rs ^= rs >> 7
				rs ^= rs << 17
				j := int(rs % uint64(i+1))
				idx[i], idx[j] = idx[j], idx[i]
			}
		}
		for _, i := range idx {
			m.GetPCR(pairs[i][0], pairs[i][1])
		}
		for k := 0; k < 3; k++ { // every range starts at a random bucket: rotations of the bucket order
			order := make([]string, 0, n)
			wd := func(a, b string) int { order = append(order, a); return d(a, b) }
			var t string
			var dd int
			if c.Side == "r" {
				t, dd = m.ClosestReverseTag(c.A, wd)
			} else {
				t, dd = m.ClosestForwardTag(c.A, wd)
			}
			key := strings.Join(order, ",")
			if _, ok := seen[key]; !ok {
				seen[key] = len(orders)
				differs := len(orders) > 0 && (orders[0].Tag != t || orders[0].Dist != dd)
				if differs {
					stable = false
				}
				if len(orders) < 130 || differs {
					orders = append(orders, c12order{Order: order, Tag: t, Dist: dd})
				}
			}
		}
	}
	o := c12obs{Kind: "closest", Stable: stable, Orders: orders, NOrders: len(seen), Target: target, Builds: builds}
	if len(orders) > 0 {
		o.Str, o.Int = orders[0].Tag, orders[0].Dist
	}
	return o
}

func c12run(c c12case) (o c12obs) {
	defer func() {
		if r := recover(); r != nil {
			if f, ok := r.(c12fatal); ok {
				o = c12obs{Kind: "fatal", Int: f.code}
			} else {
				o = c12obs{Kind: "panic", Err: fmt.Sprint(r)}
			}
		}
	}()
	switch c.Op {
	case "demux":
		return c12demux(c)
	case "hamming":
		return c12obs{Kind: "int", Int: obingslibrary.Hamming(c.A, c.B)}
	case "lev":
		return c12obs{Kind: "int", Int: obingslibrary.Levenshtein(c.A, c.B)}
	case "closest":
		return c12closest(c)
	case "lookfortag":
		return c12obs{Kind: "str", Str: obingslibrary.VerifLookForTag(c.A, c.Delim[0])}
	case "rescue":
		return c12obs{Kind: "str", Str: obingslibrary.VerifLookForRescueTag(c.A, c.Delim[0], c.TagL, c.Bord, c.Indel)}
	}
	return c12obs{Kind: "panic", Err: "unknown op " + c.Op}
}

func init() {
	register("c12", func(in *bufio.Reader, out *bufio.Writer) error {
		// log.Fatal inside the library must not kill the harness: turn the exit into a panic we recover
		log.StandardLogger().ExitFunc = func(code int) { panic(c12fatal{code}) }
		return eachLine(in, out, func(c c12case) any { return c12run(c) })
	})
}
