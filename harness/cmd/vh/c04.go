package main

// C04 — the real WriteFasta / WriteFastq / WriteJSON / WriteCSV are driven with an input iterator
// that delivers the batches in a chosen order (one formatting worker => the writer goroutine sees
// exactly that arrival history) into an in-memory io.WriteCloser that counts Close.

import (
	"bufio"
	"encoding/hex"
	"encoding/json"
	"fmt"
	"sync"
	"time"

	"git.metabarcoding.org/obitools/obitools4/obitools4/pkg/obiformats"
	"git.metabarcoding.org/obitools/obitools4/obitools4/pkg/obiiter"
	"git.metabarcoding.org/obitools/obitools4/obitools4/pkg/obiseq"
)

type c04case struct {
	Writer     string `json:"writer"`  // fasta | fastq | json | csv
	Sizes      []int  `json:"sizes"`   // records per batch (batch number = index)
	Arrival    []int  `json:"arrival"` // delivery order of the batch numbers
	Workers    int    `json:"workers"` // formatting workers (1 => deterministic arrival)
	Compressed bool   `json:"compressed"`
	Bytes      []int  `json:"bytes"`    // if set: batch i holds one record sized so that its formatted chunk has exactly bytes[i] bytes (0: empty batch)
	Rich       bool   `json:"rich"`     // records carry definitions / attributes with quotes, commas, newlines, leading blanks, non-ASCII text
	Slow       int    `json:"slow_ms"`  // the sink sleeps that long in every Write and in Close (makes the completion order observable)
	Ctl        bool   `json:"ctl"`      // with rich: texts holding a control character or a backslash followed by 'u' (JSONRecord's unescaping step)
	WantRecs   bool   `json:"want_recs"` // report the records behind the chunks (always done for rich cases)
	NoClose    bool   `json:"no_close"` // OptionDontCloseFile: every byte must still reach the sink (flushed), which is not closed
	// round 3
	Mode      string   `json:"mode"`        // "" (in-memory sink) | file | stdout | chunks | wfile   (c04x.go)
	Qual      bool     `json:"qual"`        // every record carries qualities (json / csv / auto writers)
	EmptySeq  bool     `json:"empty_seq"`   // some records have a zero-length sequence (FASTA/FASTQ: OptionsSkipEmptySequence(true))
	Tax       bool     `json:"tax"`         // records carry count / taxid / scientific_name in three combinations
	Var       bool     `json:"var"`         // variety: float/bool/slice/nested attributes, odd ids, IUPAC upper case, percent signs
	Csv       string   `json:"csv"`         // csv option letters: i(no id) c(count) t(taxon) d(definition) k(keys) s(no sequence) q(quality) a(auto) N(NA value "-")
	Append    bool     `json:"append"`      // file mode: OptionsAppendFile
	Paired    bool     `json:"paired"`      // file mode: paired iterator, reverse reads written to a second file
	Old       int      `json:"old"`         // file / wfile mode: the file exists already and holds that many bytes
	RawChunks []string `json:"raw_chunks"`  // chunks / wfile mode: the chunks themselves (hex)
	ToBeClosed bool    `json:"to_be_closed"` // chunks mode
}

type c04obs struct {
	Kind      string   `json:"kind"` // ok | hang
	Out       string   `json:"out"`  // hex of the bytes received by the sink
	Closes    int      `json:"closes"`
	LateWrite int      `json:"late_writes"` // writes after Close
	Chunks    []string `json:"chunks"`      // hex of the formatted batch i (csv: rows only)
	Header    string   `json:"header"`      // csv header line (hex)
	JSONOK    bool     `json:"json_ok"`
	JSONIds   []string `json:"json_ids"`
	Ids       []string `json:"ids"` // expected record ids in order
	Err       string   `json:"err,omitempty"`
	// observation only (not part of C04): was the sink already closed when the iterator returned by
	// the writer reported its end? (the commands wait for obiiter.WaitForLastPipe, not for this)
	ClosedAtIterEnd bool `json:"closed_at_iter_end"`
	// the records behind the chunks (round 2: FormatJSONBatch / FormatCVSBatch are modelled)
	Recs    [][]string   `json:"recs,omitempty"`    // json: hex of JSONRecord(s) per batch, per record
	Fields  [][][]string `json:"fields,omitempty"`  // csv: hex of the fields of CSVRecord(s) per batch, per record
	HdrFlds []string     `json:"hdr_fields"`        // csv: hex of the fields of CSVHeader
	// round 3
	Files      []string     `json:"files,omitempty"`       // hex: content of the output file(s) when the result iterator ended (forward, reverse)
	FilesFinal []string     `json:"files_final,omitempty"` // the same after obiiter.WaitForLastPipe
	OldHex     []string     `json:"old_hex,omitempty"`     // what the files held before
	RChunks    []string     `json:"rchunks,omitempty"`     // paired: formatted reverse batch i
	RHeader    string       `json:"rheader,omitempty"`
	Info       [][]c04rec   `json:"info,omitempty"`        // the data of every record (independent oracle of CSVRecord)
	EmptyIds   []string     `json:"empty_ids,omitempty"`   // ids of the records with a zero-length sequence
	BQ         []string     `json:"bq,omitempty"`          // universal writer: what batch i says about qualities (empty | qual | noqual)
	AutoKeys   []string     `json:"auto_keys,omitempty"`   // csv auto: hex of the non-map attribute keys of batch 0 (any order)
	FChunks []string     `json:"fchunks,omitempty"` // csv: hex of FormatCVSBatch(batch i) under its true number (header inside batch 0)
}

type c04sink struct {
	mu     sync.Mutex
	buf    []byte
	closes int
	late   int
	done   chan struct{}
	slow   time.Duration
}

func (s *c04sink) Write(p []byte) (int, error) {
	if s.slow > 0 {
		time.Sleep(s.slow)
	}
	s.mu.Lock()
	defer s.mu.Unlock()
	if s.closes > 0 {
		s.late++
	}
	s.buf = append(s.buf, p...)
	return len(p), nil
}

func (s *c04sink) Close() error {
	if s.slow > 0 {
		time.Sleep(s.slow)
	}
	s.mu.Lock()
	defer s.mu.Unlock()
	s.closes++
	if s.closes == 1 {
		close(s.done)
	}
	return nil
}

var c04poisoned = false
var c04hangs = 0 // after a few hangs the remaining cases are not run (fail fast)

// texts that exercise the quoting rules of encoding/csv and the string escapes of the JSON encoder
var c04nasty = []string{
	"plain", "he said \"hi\"", "a,b", " lead", "line\nbreak", "tab\there", "\\.", "\u00e9t\u00e9 \u2603", "\u00a0nbsp", "",
	"back\\slash", "cr\rlf", "a<b>&c", "trail ", "\"", ",", "\t", "x\"\"y", "{\"k\":1}", "[1,2]", "\u2028sep", "\u3000wide",
}

var c04curOpt *obiformats.Options

var c04ctl = []string{"C:\\users\\me", "ctl\x01char", "esc\\u0041", "C:\\users\\u00e9milie\\u12"}

func c04batchN(c c04case, b, n, order int, seqlen int, idpad int) obiiter.BioSequenceBatch {
	w := c.Writer
	sl := make(obiseq.BioSequenceSlice, 0, n)
	for i := 0; i < n; i++ {
		id := fmt.Sprintf("b%dr%d", b, i)
		for k := 0; k < idpad; k++ {
			id += "x"
		}
		var sq []byte
		if seqlen > 0 {
			sq = make([]byte, seqlen)
			for k := range sq {
				sq[k] = "acgt"[(k+b+i)%4]
			}
		} else {
			sq = []byte("acgtacgt")[:1+(b+i)%3]
		}
		if c.Var && seqlen == 0 {
			sq = []byte("ACGTRYSWKMBDHVNacgtn")[(b+i)%5 : 6+(2*b+i)%14]
			id = c04ids[(2*b+i)%len(c04ids)] + id
		}
		if c.EmptySeq && (b+i)%3 == 1 {
			sq = []byte{}
		}
		var s *obiseq.BioSequence
		if w == "fastq" || c.Qual {
			q := make([]byte, len(sq))
			for k := range q {
				q[k] = byte(20 + k%20)
			}
			s = obiseq.NewBioSequenceWithQualities(id, sq, "", q)
		} else {
			s = obiseq.NewBioSequence(id, sq, "")
		}
		if c.Rich {
			k := (3*b + i) % len(c04nasty)
			s.SetDefinition(c04nasty[k])
			if c.Ctl {
				s.SetDefinition(c04ctl[(b+i)%len(c04ctl)])
			}
			s.SetAttribute("k", c04nasty[(k+7)%len(c04nasty)])
			s.SetAttribute("n", b*10+i)
			if (b+i)%2 == 0 {
				s.SetAttribute("m", map[string]int{"x y": i, "q\"": b})
			}
		}
		c04decorate(c, s, b, i)
		sl = append(sl, s)
	}
	return obiiter.MakeBioSequenceBatch("verif", order, sl)
}

func c04opts(c c04case) []obiformats.WithOption {
	opts := []obiformats.WithOption{}
	if c.Rich && c.Writer == "csv" {
		opts = append(opts, obiformats.CSVDefinition(true), obiformats.CSVCount(true), obiformats.CSVKeys([]string{"k", "n", "absent"}))
	}
	opts = append(opts, c04csvopts(c, false)...)
	if c.EmptySeq {
		opts = append(opts, obiformats.OptionsSkipEmptySequence(true))
	}
	return opts
}

func c04format(c c04case, batch obiiter.BioSequenceBatch) []byte {
	opt := obiformats.MakeOptions(c04opts(c))
	w := c.Writer
	if w == "auto" {
		// the universal writer: FASTQ iff the records carry qualities
		w = "fasta"
		if c.Qual {
			w = "fastq"
		}
	}
	switch w {
	case "fasta":
		return obiformats.FormatFastaBatch(batch, opt.FormatFastSeqHeader(), c.EmptySeq).Bytes()
	case "fastq":
		return obiformats.FormatFastqBatch(batch, opt.FormatFastSeqHeader(), c.EmptySeq).Bytes()
	case "json":
		return obiformats.FormatJSONBatch(batch)
	case "csv":
		if c04curOpt != nil {
			return obiformats.FormatCVSBatch(batch, *c04curOpt)
		}
		return obiformats.FormatCVSBatch(batch, opt)
	}
	return nil
}

// c04plan: (records, sequence length, id padding) of batch b. With c.Bytes the single record of the
// batch is sized so that the chunk formatted under the true batch number has exactly c.Bytes[b] bytes.
type c04shape struct{ n, seqlen, idpad int }

func c04plan(c c04case, b int) (c04shape, error) {
	if len(c.Bytes) == 0 {
		return c04shape{c.Sizes[b], 0, 0}, nil
	}
	target := c.Bytes[b]
	if target == 0 {
		return c04shape{0, 0, 0}, nil
	}
	sh := c04shape{1, 1, 0}
	for it := 0; it < 40; it++ {
		got := len(c04format(c, c04batchN(c, b, 1, b, sh.seqlen, sh.idpad)))
		if got == target {
			return sh, nil
		}
		d := target - got
		if c.Writer == "fastq" {
			if d >= 2 || d <= -2 {
				sh.seqlen += d / 2
			} else if d == 1 {
				sh.idpad++
			} else {
				sh.seqlen--
				sh.idpad++
			}
		} else if d == 1 && it > 3 {
			sh.idpad++ // a fold boundary of the FASTA body was crossed
		} else {
			sh.seqlen += d
		}
		if sh.seqlen < 1 {
			return sh, fmt.Errorf("chunk of %d bytes is not reachable", target)
		}
	}
	return sh, fmt.Errorf("chunk of %d bytes is not reachable", target)
}

func c04hexs(xs []string) []string {
	r := make([]string, len(xs))
	for i, x := range xs {
		r[i] = hex.EncodeToString([]byte(x))
	}
	return r
}

func c04run(c c04case) (o c04obs) {
	if c.Mode == "chunks" || c.Mode == "wfile" {
		return c04runRaw(c)
	}
	if c04hangs >= 3 {
		o.Kind, o.Err = "hang", "not run: the writers hung on 3 earlier cases of this process"
		return
	}
	defer func() {
		if o.Kind == "hang" {
			c04hangs++
		}
	}()
	o.Kind = "ok"
	n := len(c.Sizes)
	if len(c.Bytes) > 0 {
		n = len(c.Bytes)
	}
	shapes := make([]c04shape, n)
	for b := 0; b < n; b++ {
		sh, err := c04plan(c, b)
		if err != nil {
			o.Kind, o.Err = "skip", err.Error()
			return
		}
		shapes[b] = sh
	}
	mk := func(b, order int) obiiter.BioSequenceBatch {
		return c04batchN(c, b, shapes[b].n, order, shapes[b].seqlen, shapes[b].idpad)
	}
	fopt := obiformats.MakeOptions(c04opts(c))
	c04curOpt = nil
	if c.Writer == "csv" {
		// csv auto: the expected columns are the sorted non-map attribute keys of batch 0
		c04auto(c, &o, fopt, func(b int) obiiter.BioSequenceBatch { return mk(b, b) }, n)
		c04curOpt = &fopt
	}
	defer func() { c04curOpt = nil }()
	// the chunks the theorem speaks about: the formatted bytes of every batch
	for b := 0; b < n; b++ {
		wantRecs := c.Rich || c.WantRecs
		if c.Writer == "csv" {
			// rows only: format under a non-zero batch number
			o.Chunks = append(o.Chunks, hex.EncodeToString(c04format(c, mk(b, b+1))))
			if wantRecs {
				o.FChunks = append(o.FChunks, hex.EncodeToString(c04format(c, mk(b, b))))
			}
			fl := [][]string{}
			for _, s := range mk(b, b).Slice() {
				fl = append(fl, c04hexs(obiformats.CSVRecord(s, fopt)))
			}
			o.Fields = append(o.Fields, fl)
		} else {
			o.Chunks = append(o.Chunks, hex.EncodeToString(c04format(c, mk(b, b))))
		}
		if (c.Writer == "fasta" || c.Writer == "fastq" || c.Writer == "auto") && (wantRecs || c.EmptySeq) && len(c.Bytes) == 0 {
			// the text every record contributes to its chunk (nothing for a zero-length sequence, skipped)
			rl := []string{}
			fq := c.Writer == "fastq" || (c.Writer == "auto" && c.Qual)
			for _, s := range mk(b, b).Slice() {
				switch {
				case s.Len() == 0:
					rl = append(rl, "")
				case fq:
					rl = append(rl, hex.EncodeToString([]byte(obiformats.FormatFastq(s, fopt.FormatFastSeqHeader()))))
				default:
					rl = append(rl, hex.EncodeToString([]byte(obiformats.FormatFasta(s, fopt.FormatFastSeqHeader())+"\n")))
				}
			}
			o.Recs = append(o.Recs, rl)
		}
		if c.Writer == "json" && wantRecs {
			rl := []string{}
			for _, s := range mk(b, b).Slice() {
				rl = append(rl, hex.EncodeToString(obiformats.JSONRecord(s)))
			}
			o.Recs = append(o.Recs, rl)
		}
		for _, s := range mk(b, b).Slice() {
			o.Ids = append(o.Ids, s.Id())
		}
	}
	if c.Writer == "csv" {
		o.Header = hex.EncodeToString(c04format(c, c04batchN(c, 0, 0, 0, 0, 0)))
		o.HdrFlds = c04hexs(obiformats.CSVHeader(fopt))
	}
	c04info(c, &o, fopt, func(b int) obiiter.BioSequenceBatch { return mk(b, b) }, n)
	if c.Writer == "auto" {
		// what every batch says about qualities: its first record with a sequence of non-zero length
		for b := 0; b < n; b++ {
			say := "empty"
			for _, s := range mk(b, b).Slice() {
				if s.Len() > 0 {
					say = "noqual"
					if s.HasQualities() {
						say = "qual"
					}
					break
				}
			}
			o.BQ = append(o.BQ, say)
		}
	}
	if c.Mode == "file" || c.Mode == "stdout" {
		c04runFile(c, &o, func(b int) obiiter.BioSequenceBatch { return mk(b, b) }, n)
		return
	}

	sink := &c04sink{done: make(chan struct{}), slow: time.Duration(c.Slow) * time.Millisecond}
	input := obiiter.MakeIBioSequence()
	batches := make([]obiiter.BioSequenceBatch, n)
	for b := 0; b < n; b++ {
		batches[b] = mk(b, b)
	}
	go func() {
		for _, b := range c.Arrival {
			input.Push(batches[b])
		}
		input.Close()
	}()
	opts := append(c04opts(c), obiformats.OptionsParallelWorkers(c.Workers), obiformats.OptionsCompressed(c.Compressed))
	if c.NoClose {
		opts = append(opts, obiformats.OptionDontCloseFile())
	} else {
		opts = append(opts, obiformats.OptionCloseFile())
	}
	var res obiiter.IBioSequence
	var err error
	switch c.Writer {
	case "fasta":
		res, err = obiformats.WriteFasta(input, sink, opts...)
	case "fastq":
		res, err = obiformats.WriteFastq(input, sink, opts...)
	case "json":
		res, err = obiformats.WriteJSON(input, sink, opts...)
	case "csv":
		res, err = obiformats.WriteCSV(input, sink, opts...)
	case "auto":
		res, err = obiformats.WriteSequence(input, sink, opts...)
	default:
		o.Kind, o.Err = "hang", "unknown writer"
		return
	}
	if err != nil {
		o.Err = err.Error()
	}
	consumed := make(chan struct{})
	go func() { res.Consume(); close(consumed) }()
	tmo := time.After(15 * time.Second)
	select {
	case <-consumed:
		sink.mu.Lock()
		o.ClosedAtIterEnd = sink.closes > 0
		sink.mu.Unlock()
	case <-tmo:
		o.Kind, o.Err, c04poisoned = "hang", "result iterator never finished", true
	}
	if o.Kind == "ok" && !c.NoClose {
		select {
		case <-sink.done:
		case <-tmo:
			o.Kind, o.Err, c04poisoned = "hang", "sink never closed", true
		}
	}
	if !c04poisoned {
		all := make(chan struct{})
		go func() { obiiter.WaitForLastPipe(); close(all) }()
		select {
		case <-all:
		case <-tmo:
			o.Kind, o.Err, c04poisoned = "hang", "pipes never unregistered", true
		}
	} else {
		time.Sleep(2 * time.Millisecond)
	}
	sink.mu.Lock()
	out := append([]byte{}, sink.buf...)
	o.Closes, o.LateWrite = sink.closes, sink.late
	sink.mu.Unlock()
	o.Out = hex.EncodeToString(out)
	if c.Writer == "json" && !c.Compressed {
		var recs []map[string]interface{}
		if e := json.Unmarshal(out, &recs); e == nil {
			o.JSONOK = true
			o.JSONIds = []string{}
			for _, r := range recs {
				id, _ := r["id"].(string)
				o.JSONIds = append(o.JSONIds, id)
			}
		}
	}
	return
}

func init() {
	register("c04", func(in *bufio.Reader, out *bufio.Writer) error {
		return eachLine(in, out, func(c c04case) any { return c04run(c) })
	})
}
