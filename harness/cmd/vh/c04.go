package main

// C04 — the real WriteFasta / WriteFastq / WriteJSON / WriteCSV are driven with an input iterator
// that delivers the batches in a chosen order (one formatting worker => the writer goroutine sees
// exactly that arrival history) into an in-memory io.WriteCloser that counts Close.

import (
	"bufio"
	"encoding/hex"
	"encoding/json"
	"fmt"
	"sync"
	"time"

	"git.metabarcoding.org/obitools/obitools4/obitools4/pkg/obiformats"
	"git.metabarcoding.org/obitools/obitools4/obitools4/pkg/obiiter"
	"git.metabarcoding.org/obitools/obitools4/obitools4/pkg/obiseq"
)

type c04case struct {
	Writer     string `json:"writer"`  // fasta | fastq | json | csv
	Sizes      []int  `json:"sizes"`   // records per batch (batch number = index)
	Arrival    []int  `json:"arrival"` // delivery order of the batch numbers
	Workers    int    `json:"workers"` // formatting workers (1 => deterministic arrival)
	Compressed bool   `json:"compressed"`
}

type c04obs struct {
	Kind      string   `json:"kind"` // ok | hang
	Out       string   `json:"out"`  // hex of the bytes received by the sink
	Closes    int      `json:"closes"`
	LateWrite int      `json:"late_writes"` // writes after Close
	Chunks    []string `json:"chunks"`      // hex of the formatted batch i (csv: rows only)
	Header    string   `json:"header"`      // csv header line (hex)
	JSONOK    bool     `json:"json_ok"`
	JSONIds   []string `json:"json_ids"`
	Ids       []string `json:"ids"` // expected record ids in order
	Err       string   `json:"err,omitempty"`
	// observation only (not part of C04): was the sink already closed when the iterator returned by
	// the writer reported its end? (the commands wait for obiiter.WaitForLastPipe, not for this)
	ClosedAtIterEnd bool `json:"closed_at_iter_end"`
}

type c04sink struct {
	mu     sync.Mutex
	buf    []byte
	closes int
	late   int
	done   chan struct{}
}

func (s *c04sink) Write(p []byte) (int, error) {
	s.mu.Lock()
	defer s.mu.Unlock()
	if s.closes > 0 {
		s.late++
	}
	s.buf = append(s.buf, p...)
	return len(p), nil
}

func (s *c04sink) Close() error {
	s.mu.Lock()
	defer s.mu.Unlock()
	s.closes++
	if s.closes == 1 {
		close(s.done)
	}
	return nil
}

var c04poisoned = false
var c04hangs = 0 // after a few hangs the remaining cases are not run (fail fast)

func c04batch(w string, b, n, order int) obiiter.BioSequenceBatch {
	sl := make(obiseq.BioSequenceSlice, 0, n)
	for i := 0; i < n; i++ {
		id := fmt.Sprintf("b%dr%d", b, i)
		sq := []byte("acgtacgt")[:1+(b+i)%3]
		var s *obiseq.BioSequence
		if w == "fastq" {
			q := make([]byte, len(sq))
			for k := range q {
				q[k] = byte(20 + k)
			}
			s = obiseq.NewBioSequenceWithQualities(id, sq, "", q)
		} else {
			s = obiseq.NewBioSequence(id, sq, "")
		}
		sl = append(sl, s)
	}
	return obiiter.MakeBioSequenceBatch("verif", order, sl)
}

func c04format(w string, batch obiiter.BioSequenceBatch) []byte {
	opt := obiformats.MakeOptions(nil)
	switch w {
	case "fasta":
		return obiformats.FormatFastaBatch(batch, opt.FormatFastSeqHeader(), false).Bytes()
	case "fastq":
		return obiformats.FormatFastqBatch(batch, opt.FormatFastSeqHeader(), false).Bytes()
	case "json":
		return obiformats.FormatJSONBatch(batch)
	case "csv":
		return obiformats.FormatCVSBatch(batch, opt)
	}
	return nil
}

func c04run(c c04case) (o c04obs) {
	if c04hangs >= 3 {
		o.Kind, o.Err = "hang", "not run: the writers hung on 3 earlier cases of this process"
		return
	}
	defer func() {
		if o.Kind == "hang" {
			c04hangs++
		}
	}()
	o.Kind = "ok"
	n := len(c.Sizes)
	// the chunks the theorem speaks about: the formatted bytes of every batch
	for b := 0; b < n; b++ {
		if c.Writer == "csv" {
			// rows only: format under a non-zero batch number
			o.Chunks = append(o.Chunks, hex.EncodeToString(c04format(c.Writer, c04batch(c.Writer, b, c.Sizes[b], b+1))))
		} else {
			o.Chunks = append(o.Chunks, hex.EncodeToString(c04format(c.Writer, c04batch(c.Writer, b, c.Sizes[b], b))))
		}
		for i := 0; i < c.Sizes[b]; i++ {
			o.Ids = append(o.Ids, fmt.Sprintf("b%dr%d", b, i))
		}
	}
	if c.Writer == "csv" {
		o.Header = hex.EncodeToString(c04format("csv", c04batch("csv", 0, 0, 0)))
	}

	sink := &c04sink{done: make(chan struct{})}
	input := obiiter.MakeIBioSequence()
	batches := make([]obiiter.BioSequenceBatch, n)
	for b := 0; b < n; b++ {
		batches[b] = c04batch(c.Writer, b, c.Sizes[b], b)
	}
	go func() {
		for _, b := range c.Arrival {
			input.Push(batches[b])
		}
		input.Close()
	}()
	opts := []obiformats.WithOption{obiformats.OptionsParallelWorkers(c.Workers), obiformats.OptionCloseFile(),
		obiformats.OptionsCompressed(c.Compressed)}
	var res obiiter.IBioSequence
	var err error
	switch c.Writer {
	case "fasta":
		res, err = obiformats.WriteFasta(input, sink, opts...)
	case "fastq":
		res, err = obiformats.WriteFastq(input, sink, opts...)
	case "json":
		res, err = obiformats.WriteJSON(input, sink, opts...)
	case "csv":
		res, err = obiformats.WriteCSV(input, sink, opts...)
	default:
		o.Kind, o.Err = "hang", "unknown writer"
		return
	}
	if err != nil {
		o.Err = err.Error()
	}
	consumed := make(chan struct{})
	go func() { res.Consume(); close(consumed) }()
	tmo := time.After(15 * time.Second)
	select {
	case <-consumed:
		sink.mu.Lock()
		o.ClosedAtIterEnd = sink.closes > 0
		sink.mu.Unlock()
	case <-tmo:
		o.Kind, o.Err, c04poisoned = "hang", "result iterator never finished", true
	}
	if o.Kind == "ok" {
		select {
		case <-sink.done:
		case <-tmo:
			o.Kind, o.Err, c04poisoned = "hang", "sink never closed", true
		}
	}
	if !c04poisoned {
		all := make(chan struct{})
		go func() { obiiter.WaitForLastPipe(); close(all) }()
		select {
		case <-all:
		case <-tmo:
			o.Kind, o.Err, c04poisoned = "hang", "pipes never unregistered", true
		}
	} else {
		time.Sleep(2 * time.Millisecond)
	}
	sink.mu.Lock()
	out := append([]byte{}, sink.buf...)
	o.Closes, o.LateWrite = sink.closes, sink.late
	sink.mu.Unlock()
	o.Out = hex.EncodeToString(out)
	if c.Writer == "json" && !c.Compressed {
		var recs []map[string]interface{}
		if e := json.Unmarshal(out, &recs); e == nil {
			o.JSONOK = true
			o.JSONIds = []string{}
			for _, r := range recs {
				id, _ := r["id"].(string)
				o.JSONIds = append(o.JSONIds, id)
			}
		}
	}
	return
}

func init() {
	register("c04", func(in *bufio.Reader, out *bufio.Writer) error {
		return eachLine(in, out, func(c c04case) any { return c04run(c) })
	})
}
