package main

// vh c02conc — the record formatters under concurrent use (the writers format batches in several workers at once).
// One case: `workers` goroutines format their own records again and again (title line with its JSON annotations, FASTA
// and FASTQ) while the others do the same; every text is compared with the one computed sequentially beforehand.
// A formatter that hands out memory it goes on using (a pooled buffer behind an unsafe string, a shared scratch) shows
// as records carrying the text of other records.

import (
	"bufio"
	"fmt"
	"math/rand"
	"strings"
	"sync"
	"sync/atomic"

	"git.metabarcoding.org/obitools/obitools4/obitools4/pkg/obiformats"
	"git.metabarcoding.org/obitools/obitools4/obitools4/pkg/obiseq"
)

type c02concCase struct {
	Workers int   `json:"workers"`
	Records int   `json:"records"`
	Rounds  int   `json:"rounds"`
	Seed    int64 `json:"seed"`
}

type c02concObs struct {
	Kind      string `json:"kind"`
	Formatted int64  `json:"formatted"`
	Wrong     int64  `json:"wrong"`
	Example   string `json:"example,omitempty"`
	Expected  string `json:"expected,omitempty"`
}

func c02concRun(c c02concCase) any {
	rng := rand.New(rand.NewSource(c.Seed))
	recs := make([]*obiseq.BioSequence, c.Records)
	for i := range recs {
		n := 20 + rng.Intn(150)
		sq := make([]byte, n)
		ql := make([]byte, n)
		for k := range sq {
			sq[k] = "acgt"[rng.Intn(4)]
			ql[k] = byte(rng.Intn(41))
		}
		s := obiseq.NewBioSequenceWithQualities(fmt.Sprintf("rec%06d", i), sq, "", ql)
		for k := 0; k < 1+rng.Intn(12); k++ {
			s.SetAttribute(fmt.Sprintf("key_%d_%d", i, k), strings.Repeat(fmt.Sprintf("v%d.", i), 1+rng.Intn(20)))
		}
		s.SetAttribute("count", 1+rng.Intn(1000))
		recs[i] = s
	}
	type texts struct{ hdr, fa, fq string }
	want := make([]texts, len(recs))
	for i, s := range recs {
		want[i] = texts{strings.Clone(obiformats.FormatFastSeqJsonHeader(s)),
			strings.Clone(obiformats.FormatFasta(s, obiformats.FormatFastSeqJsonHeader)),
			strings.Clone(obiformats.FormatFastq(s, obiformats.FormatFastSeqJsonHeader))}
	}
	o := &c02concObs{Kind: "ok"}
	var mu sync.Mutex
	var wg sync.WaitGroup
	start := make(chan struct{})
	for w := 0; w < c.Workers; w++ {
		wg.Add(1)
		go func(w int) {
			defer wg.Done()
			<-start
			for r := 0; r < c.Rounds; r++ {
				for i := w; i < len(recs); i += c.Workers {
					s := recs[i]
					got := texts{obiformats.FormatFastSeqJsonHeader(s), "", ""}
					got.fa = obiformats.FormatFasta(s, obiformats.FormatFastSeqJsonHeader)
					got.fq = obiformats.FormatFastq(s, obiformats.FormatFastSeqJsonHeader)
					atomic.AddInt64(&o.Formatted, 3)
					// (the header is compared AFTER the two other calls: a buffer handed out while still in use has been reused by then)
					if got.hdr != want[i].hdr || got.fa != want[i].fa || got.fq != want[i].fq {
						atomic.AddInt64(&o.Wrong, 1)
						mu.Lock()
						if o.Example == "" {
							if got.hdr != want[i].hdr {
								o.Example, o.Expected = strings.Clone(got.hdr), want[i].hdr
							} else if got.fa != want[i].fa {
								o.Example, o.Expected = strings.Clone(got.fa), want[i].fa
							} else {
								o.Example, o.Expected = strings.Clone(got.fq), want[i].fq
							}
							if len(o.Example) > 400 {
								o.Example = o.Example[:400]
							}
							if len(o.Expected) > 400 {
								o.Expected = o.Expected[:400]
							}
						}
						mu.Unlock()
					}
				}
			}
		}(w)
	}
	close(start)
	wg.Wait()
	return o
}

func init() {
	register("c02conc", func(in *bufio.Reader, out *bufio.Writer) error {
		return eachLine(in, out, c02concRun)
	})
}
