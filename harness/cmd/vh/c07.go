package main

// vh c07 — runs operation histories on REAL obiseq.BioSequence objects (property C07) and reports,
// after every operation, the value of every live object (String, qualities, pairing_mismatches),
// which object (if any existing one) the operation returned, and whether the operation failed.
// A case {"kind":"tables"} dumps the complement tables of the current build.

import (
	"bufio"
	"fmt"
	"runtime"
	"sort"
	"unsafe"

	"git.metabarcoding.org/obitools/obitools4/obitools4/pkg/obiapat"
	"git.metabarcoding.org/obitools/obitools4/obitools4/pkg/obikmer"
	"git.metabarcoding.org/obitools/obitools4/obitools4/pkg/obiseq"
)

type c07op struct {
	Op      string         `json:"op"`
	R       int            `json:"r"`
	R2      int            `json:"r2"`
	Seq     string         `json:"seq"`
	Qual    []int          `json:"qual"`
	Mm      map[string]int `json:"mm"`
	HasMm   bool           `json:"hasmm"`
	Inplace bool           `json:"inplace"`
	From    int            `json:"from"`
	To      int            `json:"to"`
	Circ    bool           `json:"circ"`
	I       int            `json:"i"`
	B       int            `json:"b"`
	Key     string         `json:"key"`
	N       int            `json:"n"`
}

type c07case struct {
	Kind string  `json:"kind"` // hist | tables
	Ops  []c07op `json:"ops"`
	Each bool    `json:"each"` // snapshot after every operation (else only at the end)
}

type c07val struct {
	Live bool     `json:"live"`
	Seq  string   `json:"seq"`
	HasQ bool     `json:"hasq"`
	Qual []int    `json:"qual"`
	Mm   [][2]any `json:"mm"` // sorted (key, position); nil when the attribute is absent
}

type c07step struct {
	Status string   `json:"status"` // ok | err | panic
	Msg    string   `json:"msg,omitempty"`
	Res    int      `json:"res"`  // register that received the result (-1: none)
	Same   int      `json:"same"` // lowest live register < res holding the very same object (-1: a new object)
	Snap   []c07val `json:"snap,omitempty"`
	Bufs   [][2]int `json:"bufs,omitempty"`   // per register: identity (small integer, per case) of the sequence / quality backing arrays, -1: none
	Shared [][2]int `json:"shared,omitempty"` // pairs of registers naming DIFFERENT live objects whose byte buffers overlap
}

type c07obs struct {
	Kind  string            `json:"kind"`
	Steps []c07step         `json:"steps,omitempty"`
	Final []c07val          `json:"final,omitempty"`
	Table []int             `json:"table,omitempty"`   // obiseq._revcmpDNA raw bytes
	Seq   []int             `json:"seqcomp,omitempty"` // obiseq.nucComplement for every byte 0..255
	Kmer  map[string]string `json:"kmer,omitempty"`    // obikmer.revcompnuc
	Apat  map[string]string `json:"apat,omitempty"`    // C table seen through ApatPattern.ReverseComplement (letter -> complement | "!err")
}

func c07qual(q []int) []byte {
	if q == nil {
		return nil
	}
	b := make([]byte, len(q))
	for i, v := range q {
		b[i] = byte(v)
	}
	return b
}

func c07snapOne(s *obiseq.BioSequence) c07val {
	if s == nil {
		return c07val{}
	}
	v := c07val{Live: true, Seq: s.String(), HasQ: s.HasQualities()}
	if v.HasQ {
		q := s.Qualities()
		v.Qual = make([]int, len(q))
		for i, x := range q {
			v.Qual[i] = int(x)
		}
	}
	if s.HasAnnotation() {
		if raw, ok := s.Annotations()["pairing_mismatches"]; ok {
			v.Mm = [][2]any{}
			switch m := raw.(type) {
			case map[string]int:
				keys := make([]string, 0, len(m))
				for k := range m {
					keys = append(keys, k)
				}
				sort.Strings(keys)
				for _, k := range keys {
					v.Mm = append(v.Mm, [2]any{k, m[k]})
				}
			default:
				v.Mm = append(v.Mm, [2]any{fmt.Sprintf("!type %T", raw), 0})
			}
		}
	}
	return v
}

// c07shared lists the pairs of registers that name different live objects whose sequence / quality
// backing arrays overlap (the ownership invariant of the model says: none).
func c07shared(regs []*obiseq.BioSequence) [][2]int {
	type span struct {
		reg    int
		lo, hi uintptr
	}
	spans := []span{}
	add := func(i int, b []byte) {
		if cap(b) > 0 {
			p := uintptr(unsafe.Pointer(unsafe.SliceData(b)))
			spans = append(spans, span{i, p, p + uintptr(cap(b))})
		}
	}
	seen := map[*obiseq.BioSequence]bool{}
	for i, s := range regs {
		if s == nil || seen[s] {
			continue
		}
		seen[s] = true
		add(i, s.Sequence())
		if s.HasQualities() {
			add(i, s.Qualities())
		}
	}
	res := [][2]int{}
	for a := 0; a < len(spans); a++ {
		for b := a + 1; b < len(spans); b++ {
			if spans[a].lo < spans[b].hi && spans[b].lo < spans[a].hi {
				res = append(res, [2]int{spans[a].reg, spans[b].reg})
			}
		}
	}
	return res
}

func c07snap(regs []*obiseq.BioSequence) []c07val {
	r := make([]c07val, len(regs))
	for i, s := range regs {
		r[i] = c07snapOne(s)
	}
	return r
}

// c07churn takes n slices from the byte pool, fills their whole capacity with 0xDB and gives them
// back: any live buffer that (wrongly) sits in the pool gets visibly poisoned.
func c07churn(n, capacity int) {
	got := make([]*[]byte, 0, n)
	for i := 0; i < n; i++ {
		s := obiseq.GetSlice(capacity)
		s = s[:cap(s)]
		for j := range s {
			s[j] = 0xDB
		}
		got = append(got, &s)
	}
	for _, p := range got {
		obiseq.RecycleSlice(p)
	}
}

// c07bufs names the backing arrays of every live register by small integers (first appearance in the case).
func c07bufs(regs []*obiseq.BioSequence, ids map[uintptr]int) [][2]int {
	name := func(b []byte) int {
		if cap(b) == 0 {
			return -1
		}
		p := uintptr(unsafe.Pointer(unsafe.SliceData(b[:cap(b)])))
		if _, ok := ids[p]; !ok {
			ids[p] = len(ids)
		}
		return ids[p]
	}
	res := make([][2]int, len(regs))
	for i, s := range regs {
		res[i] = [2]int{-1, -1}
		if s != nil {
			res[i][0] = name(s.Sequence())
			if s.HasQualities() {
				res[i][1] = name(s.Qualities())
			}
		}
	}
	return res
}

func c07hist(c c07case) c07obs {
	ids := map[uintptr]int{}
	regs := []*obiseq.BioSequence{}
	o := c07obs{Kind: "hist"}
	get := func(i int) *obiseq.BioSequence {
		if i < 0 || i >= len(regs) {
			return nil
		}
		return regs[i]
	}
	for _, op := range c.Ops {
		st := c07step{Status: "ok", Res: -1, Same: -1}
		func() {
			defer func() {
				if r := recover(); r != nil {
					st.Status = "panic"
					st.Msg = fmt.Sprint(r)
				}
			}()
			var res *obiseq.BioSequence
			produced := false
			s := get(op.R)
			if s == nil && op.Op != "new" && op.Op != "churn" && op.Op != "gc" {
				st.Status = "err"
				st.Msg = "dead register"
				return
			}
			switch op.Op {
			case "new":
				res = obiseq.NewBioSequence("s", []byte(op.Seq), "")
				if op.Qual != nil {
					res.SetQualities(c07qual(op.Qual))
				}
				if op.HasMm {
					m := make(map[string]int, len(op.Mm))
					for k, v := range op.Mm {
						m[k] = v
					}
					res.SetAttribute("pairing_mismatches", m)
				}
				produced = true
			case "copy":
				res = s.Copy()
				produced = true
			case "rc":
				res = s.ReverseComplement(op.Inplace)
				produced = true
			case "sub":
				r, err := s.Subsequence(op.From, op.To, op.Circ)
				if err != nil {
					st.Status = "err"
					st.Msg = err.Error()
					return
				}
				res = r
				produced = true
			case "join":
				s2 := get(op.R2)
				if s2 == nil {
					st.Status = "err"
					st.Msg = "dead register"
					return
				}
				res = s.Join(s2, op.Inplace)
				produced = true
			case "setseq":
				s.SetSequence([]byte(op.Seq))
			case "setqual":
				s.SetQualities(c07qual(op.Qual))
			case "poke": // write one byte straight into the sequence buffer
				b := s.Sequence()
				if op.I >= 0 && op.I < len(b) {
					b[op.I] = byte(op.B)
				}
			case "pokeq":
				if s.HasQualities() {
					q := s.Qualities()
					if op.I >= 0 && op.I < len(q) {
						q[op.I] = byte(op.B)
					}
				}
			case "setmm":
				m := make(map[string]int, len(op.Mm))
				for k, v := range op.Mm {
					m[k] = v
				}
				s.SetAttribute("pairing_mismatches", m)
			case "pokemm": // update the stored map in place
				if s.HasAnnotation() {
					if m, ok := s.Annotations()["pairing_mismatches"].(map[string]int); ok {
						m[op.Key] = op.B
					}
				}
			case "recycle":
				s.Recycle()
				for i := range regs { // every register naming this object dies
					if regs[i] == s {
						regs[i] = nil
					}
				}
			case "churn":
				c07churn(op.N, op.B)
			case "gc":
				runtime.GC()
			default:
				st.Status = "err"
				st.Msg = "unknown op"
			}
			if produced {
				st.Res = len(regs)
				for i, x := range regs {
					if x != nil && x == res {
						st.Same = i
						break
					}
				}
				regs = append(regs, res)
			}
		}()
		if c.Each {
			st.Snap = c07snap(regs)
			st.Shared = c07shared(regs)
			st.Bufs = c07bufs(regs, ids)
		}
		o.Steps = append(o.Steps, st)
	}
	o.Final = c07snap(regs)
	return o
}

const c07letters = "abcdefghijklmnopqrstuvwxyz"

func c07tables() c07obs {
	o := c07obs{Kind: "tables", Kmer: map[string]string{}, Apat: map[string]string{}}
	for _, b := range obiseq.VerifRevcmpDNATable() {
		o.Table = append(o.Table, int(b))
	}
	for i := 0; i < 256; i++ {
		o.Seq = append(o.Seq, int(obiseq.VerifNucComplement(byte(i))))
	}
	for k, v := range obikmer.VerifRevcompNuc() {
		o.Kmer[string([]byte{k})] = string([]byte{v})
	}
	for _, l := range []byte(c07letters) {
		func() {
			defer func() {
				if r := recover(); r != nil {
					o.Apat[string([]byte{l})] = "!panic"
				}
			}()
			p, err := obiapat.MakeApatPattern(string([]byte{l}), 0, false)
			if err != nil {
				o.Apat[string([]byte{l})] = "!err"
				return
			}
			c, err := p.ReverseComplement()
			if err != nil {
				o.Apat[string([]byte{l})] = "!err"
				return
			}
			o.Apat[string([]byte{l})] = c.String()
		}()
	}
	return o
}

func init() {
	register("c07", func(in *bufio.Reader, out *bufio.Writer) error {
		runtime.GOMAXPROCS(1)
		return eachLine(in, out, func(c c07case) any {
			if c.Kind == "tables" {
				return c07tables()
			}
			return c07hist(c)
		})
	})
}
