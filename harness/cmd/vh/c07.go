package main

// vh c07 — runs operation histories on REAL obiseq.BioSequence objects (property C07) and reports,
// after every operation, the value of every live object (String, qualities, pairing_mismatches),
// which object (if any existing one) the operation returned, and whether the operation failed.
// Round 2: features and mate of every live object are observed too; when VERIF_POOL_TRACE names the trace
// file of the pool hook (pkg/obiseq/pool_verif.go) every step also reports the Get / Recycle events the
// operation caused and the identities of the three backing arrays of every register (kept alive for the case).
// A case {"kind":"tables"} dumps the complement tables of the current build.

import (
	"bufio"
	"bytes"
	"fmt"
	"io"
	"os"
	"runtime"
	"sort"
	"strconv"
	"unsafe"

	"git.metabarcoding.org/obitools/obitools4/obitools4/pkg/obiapat"
	"git.metabarcoding.org/obitools/obitools4/obitools4/pkg/obikmer"
	"git.metabarcoding.org/obitools/obitools4/obitools4/pkg/obiseq"
)

type c07op struct {
	Op      string         `json:"op"`
	R       int            `json:"r"`
	R2      int            `json:"r2"`
	Seq     string         `json:"seq"`
	Qual    []int          `json:"qual"`
	Mm      map[string]int `json:"mm"`
	HasMm   bool           `json:"hasmm"`
	Inplace bool           `json:"inplace"`
	From    int            `json:"from"`
	To      int            `json:"to"`
	Circ    bool           `json:"circ"`
	I       int            `json:"i"`
	B       int            `json:"b"`
	Key     string         `json:"key"`
	N       int            `json:"n"`
	Via     string         `json:"via"`     // constructor of "new": "" (NewBioSequence) | write | writestring | writebyte | setseq
	Feat    string         `json:"feat"`    // features given to "new" / "setfeat"
	HasFeat bool           `json:"hasfeat"` // "new": call SetFeatures
	// round 3
	Id     string `json:"id"`     // "new": identifier (default "s"); "setid"
	Def    string `json:"def"`    // "new" / "setdef": definition
	Src    string `json:"src"`    // "new" / "setsrc": source
	MmType string `json:"mmtype"` // "new" / "setmm": "" map[string]int | "iface" map[string]interface{} holding float64 (a JSON header) | "ifaceint" map[string]interface{} holding int | "float" map[string]float64
}

type c07case struct {
	Kind string  `json:"kind"` // hist | tables
	Ops  []c07op `json:"ops"`
	Each bool    `json:"each"` // snapshot after every operation (else only at the end)
}

type c07val struct {
	Live bool     `json:"live"`
	Seq  string   `json:"seq"`
	HasQ bool     `json:"hasq"`
	Qual []int    `json:"qual"`
	Mm   [][2]any `json:"mm"` // sorted (key, position); nil when the attribute is absent
	Feat string   `json:"feat"`
	Mate int      `json:"mate"` // PairedWith(): -1 none, else the lowest register naming that object, -2 when no register names it (recycled mate)
	// round 3: the other accessors of the object
	Id     string `json:"id"`
	Def    string `json:"def"`    // Definition()
	HasDef bool   `json:"hasdef"` // HasDefinition()
	Src    string `json:"src"`    // Source()
	HasSrc bool   `json:"hassrc"` // HasSource()
	Len    int    `json:"len"`    // Len()
	HasSeq bool   `json:"hasseq"` // HasSequence()
	// final snapshot only
	Md5  string   `json:"md5,omitempty"`  // MD5String()
	Comp [][2]int `json:"comp,omitempty"` // Composition(), sorted by key
	QStr *string  `json:"qstr,omitempty"` // QualitiesString()
}

type c07step struct {
	Status string   `json:"status"` // ok | err | panic
	Msg    string   `json:"msg,omitempty"`
	Res    int      `json:"res"`  // register that received the result (-1: none)
	Same   int      `json:"same"` // lowest live register < res holding the very same object (-1: a new object)
	Snap   []c07val `json:"snap,omitempty"`
	Bufs   [][3]int `json:"bufs,omitempty"`   // per register: identity (small integer, per case) of the sequence / quality / feature backing arrays as stored, -1: none (nil or capacity 0)
	Pool   [][3]int `json:"pool,omitempty"`   // byte-pool events of this step, in order: [0 = Get | 1 = Recycle, buffer identity (-1: nil header), capacity]
	APool  int      `json:"apool,omitempty"`  // number of annotation-pool events of this step
	Shared [][2]int `json:"shared,omitempty"` // pairs of registers naming DIFFERENT live objects whose byte buffers overlap
	Flag   *bool    `json:"flag,omitempty"`   // answer of a boolean query (sameas)
}

type c07obs struct {
	Kind  string            `json:"kind"`
	Steps []c07step         `json:"steps,omitempty"`
	Final []c07val          `json:"final,omitempty"`
	Table []int             `json:"table,omitempty"`   // obiseq._revcmpDNA raw bytes
	Seq   []int             `json:"seqcomp,omitempty"` // obiseq.nucComplement for every byte 0..255
	Kmer  map[string]string `json:"kmer,omitempty"`    // obikmer.revcompnuc
	Apat  map[string]string `json:"apat,omitempty"`    // C table seen through ApatPattern.ReverseComplement (letter -> complement | "!err")
}

func c07qual(q []int) []byte {
	if q == nil {
		return nil
	}
	b := make([]byte, len(q))
	for i, v := range q {
		b[i] = byte(v)
	}
	return b
}

func c07snapOne(s *obiseq.BioSequence, regs []*obiseq.BioSequence, full bool) c07val {
	if s == nil {
		return c07val{Mate: -1}
	}
	v := c07val{Live: true, Seq: s.String(), HasQ: s.HasQualities(), Feat: s.Features(), Mate: -1,
		Id: s.Id(), Src: s.Source(), HasSrc: s.HasSource(), Len: s.Len(), HasSeq: s.HasSequence()}
	if s.HasAnnotation() { // Definition() on an object without annotations would be answered without creating any
		v.Def, v.HasDef = s.Definition(), s.HasDefinition()
	}
	if full {
		v.Md5 = s.MD5String()
		comp := s.Composition()
		keys := make([]int, 0, len(comp))
		for k := range comp {
			keys = append(keys, int(k))
		}
		sort.Ints(keys)
		for _, k := range keys {
			v.Comp = append(v.Comp, [2]int{k, comp[byte(k)]})
		}
		q := s.QualitiesString()
		v.QStr = &q
	}
	if v.HasQ {
		q := s.Qualities()
		v.Qual = make([]int, len(q))
		for i, x := range q {
			v.Qual[i] = int(x)
		}
	}
	if m := s.PairedWith(); m != nil {
		v.Mate = -2
		for i, x := range regs {
			if x == m {
				v.Mate = i
				break
			}
		}
	}
	if s.HasAnnotation() {
		if raw, ok := s.Annotations()["pairing_mismatches"]; ok {
			v.Mm = [][2]any{}
			switch m := raw.(type) {
			case map[string]int:
				keys := make([]string, 0, len(m))
				for k := range m {
					keys = append(keys, k)
				}
				sort.Strings(keys)
				for _, k := range keys {
					v.Mm = append(v.Mm, [2]any{k, m[k]})
				}
			case map[string]interface{}, map[string]float64: // as stored by a header parser: the positions as the code reads them
				im, ok := s.GetIntMap("pairing_mismatches")
				if !ok {
					v.Mm = append(v.Mm, [2]any{"!not an int map", 0})
					break
				}
				keys := make([]string, 0, len(im))
				for k := range im {
					keys = append(keys, k)
				}
				sort.Strings(keys)
				for _, k := range keys {
					v.Mm = append(v.Mm, [2]any{k, im[k]})
				}
			default:
				v.Mm = append(v.Mm, [2]any{fmt.Sprintf("!type %T", raw), 0})
			}
		}
	}
	return v
}

// c07shared lists the pairs of registers that name different live objects whose sequence / quality /
// feature backing arrays (as stored, whole capacity) overlap (the ownership invariant of the model says: none).
func c07shared(regs []*obiseq.BioSequence) [][2]int {
	type span struct {
		reg    int
		lo, hi uintptr
	}
	spans := []span{}
	add := func(i int, b []byte) {
		if cap(b) > 0 {
			p := uintptr(unsafe.Pointer(unsafe.SliceData(b)))
			spans = append(spans, span{i, p, p + uintptr(cap(b))})
		}
	}
	seen := map[*obiseq.BioSequence]bool{}
	for i, s := range regs {
		if s == nil || seen[s] {
			continue
		}
		seen[s] = true
		sq, q, f := s.VerifRawBuffers()
		add(i, sq)
		add(i, q)
		add(i, f)
	}
	res := [][2]int{}
	for a := 0; a < len(spans); a++ {
		for b := a + 1; b < len(spans); b++ {
			if spans[a].lo < spans[b].hi && spans[b].lo < spans[a].hi {
				res = append(res, [2]int{spans[a].reg, spans[b].reg})
			}
		}
	}
	return res
}

func c07snap(regs []*obiseq.BioSequence, full bool) []c07val {
	r := make([]c07val, len(regs))
	for i, s := range regs {
		r[i] = c07snapOne(s, regs, full)
	}
	return r
}

// c07churn takes n slices from the byte pool, fills their whole capacity with 0xDB and gives them
// back: any live buffer that (wrongly) sits in the pool gets visibly poisoned.
func c07churn(n, capacity int) {
	got := make([]*[]byte, 0, n)
	for i := 0; i < n; i++ {
		s := obiseq.GetSlice(capacity)
		s = s[:cap(s)]
		for j := range s {
			s[j] = 0xDB
		}
		got = append(got, &s)
	}
	for _, p := range got {
		obiseq.RecycleSlice(p)
	}
}

// identities of backing arrays within one case: small integers by first appearance of the start address
// of the array; every named array is kept alive until the end of the case so that an address names one array
type c07ids struct {
	ids  map[uintptr]int
	keep [][]byte
}

func (t *c07ids) addr(p uintptr) int {
	if p == 0 {
		return -1
	}
	if _, ok := t.ids[p]; !ok {
		t.ids[p] = len(t.ids)
	}
	return t.ids[p]
}

func (t *c07ids) name(b []byte) int {
	if cap(b) == 0 {
		return -1
	}
	p := uintptr(unsafe.Pointer(unsafe.SliceData(b[:cap(b)])))
	if _, ok := t.ids[p]; !ok {
		t.keep = append(t.keep, b)
	}
	return t.addr(p)
}

// c07bufs names the backing arrays of every live register.
func c07bufs(regs []*obiseq.BioSequence, ids *c07ids) [][3]int {
	res := make([][3]int, len(regs))
	for i, s := range regs {
		res[i] = [3]int{-1, -1, -1}
		if s != nil {
			sq, q, f := s.VerifRawBuffers()
			res[i] = [3]int{ids.name(sq), ids.name(q), ids.name(f)}
		}
	}
	return res
}

// the pool trace written by the verif hook of pkg/obiseq (file named by VERIF_POOL_TRACE, one write per
// event): the harness reads what was appended during each operation
var c07trace *os.File

func c07traceOpen() {
	if name := os.Getenv("VERIF_POOL_TRACE"); name != "" && c07trace == nil {
		if f, err := os.OpenFile(name, os.O_RDONLY|os.O_CREATE, 0o644); err == nil {
			c07trace = f
			f.Seek(0, io.SeekEnd)
		}
	}
}

func c07traceRead(ids *c07ids) (ev [][3]int, annot int) {
	if c07trace == nil {
		return nil, 0
	}
	data, _ := io.ReadAll(c07trace)
	for _, line := range bytes.Split(data, []byte("\n")) {
		f := bytes.Fields(line)
		if len(f) != 4 {
			continue
		}
		kind := string(f[0])
		if kind == "GA" || kind == "RA" {
			annot++
			continue
		}
		d, _ := strconv.ParseUint(string(f[2]), 10, 64)
		c, _ := strconv.Atoi(string(f[3]))
		k := 0
		if kind == "R" {
			k = 1
		}
		ev = append(ev, [3]int{k, ids.addr(uintptr(d)), c})
	}
	return ev, annot
}

// c07scribble overwrites a slice the harness handed to the code: an object that kept the caller's slice instead of
// copying it (SetSequence, SetQualities, the constructors, the Write family copy their argument) would change with it
func c07scribble(b []byte) {
	for i := range b {
		b[i] = 0xEE
	}
}

func c07mm(op c07op) any {
	switch op.MmType {
	case "iface":
		m := make(map[string]interface{}, len(op.Mm))
		for k, v := range op.Mm {
			m[k] = float64(v)
		}
		return m
	case "ifaceint":
		m := make(map[string]interface{}, len(op.Mm))
		for k, v := range op.Mm {
			m[k] = v
		}
		return m
	case "float":
		m := make(map[string]float64, len(op.Mm))
		for k, v := range op.Mm {
			m[k] = float64(v)
		}
		return m
	}
	m := make(map[string]int, len(op.Mm))
	for k, v := range op.Mm {
		m[k] = v
	}
	return m
}

func c07new(op c07op) *obiseq.BioSequence {
	var res *obiseq.BioSequence
	id := op.Id
	if id == "" {
		id = "s"
	}
	withq := false
	seqb, qualb := []byte(op.Seq), c07qual(op.Qual)
	defer c07scribble(seqb)
	defer c07scribble(qualb)
	switch op.Via {
	case "withqual": // the constructor that takes the qualities
		res = obiseq.NewBioSequenceWithQualities(id, seqb, op.Def, qualb)
		withq = true
	case "grow": // an empty object that reserves room before it is written to (sequence == nil: Grow takes a pooled slice)
		res = obiseq.NewEmptyBioSequence(0)
		res.SetId(id)
		res.Grow(op.N)
		res.Write(seqb)
	case "write":
		res = obiseq.NewEmptyBioSequence(op.N)
		res.SetId("s")
		res.Write(seqb)
	case "writestring":
		res = obiseq.NewEmptyBioSequence(op.N)
		res.SetId("s")
		res.WriteString(op.Seq)
	case "writebyte":
		res = obiseq.NewEmptyBioSequence(op.N)
		res.SetId("s")
		for _, b := range append([]byte(nil), seqb...) {
			res.WriteByte(b)
		}
	case "setseq":
		res = obiseq.NewEmptyBioSequence(op.N)
		res.SetId("s")
		res.SetSequence(seqb)
	default:
		res = obiseq.NewBioSequence(id, seqb, op.Def)
	}
	if op.Via != "" && op.Via != "withqual" {
		res.SetId(id)
		if op.Def != "" {
			res.SetDefinition(op.Def)
		}
	}
	if op.Src != "" {
		res.SetSource(op.Src)
	}
	if op.Qual != nil && !withq {
		res.SetQualities(qualb)
	}
	if op.HasFeat {
		res.SetFeatures([]byte(op.Feat))
	}
	if op.HasMm {
		res.SetAttribute("pairing_mismatches", c07mm(op))
	}
	return res
}

func c07hist(c c07case) c07obs {
	ids := &c07ids{ids: map[uintptr]int{}}
	regs := []*obiseq.BioSequence{}
	o := c07obs{Kind: "hist"}
	c07traceOpen()
	c07traceRead(ids) // events of the previous case's snapshots, if any
	ids = &c07ids{ids: map[uintptr]int{}}
	get := func(i int) *obiseq.BioSequence {
		if i < 0 || i >= len(regs) {
			return nil
		}
		return regs[i]
	}
	for _, op := range c.Ops {
		st := c07step{Status: "ok", Res: -1, Same: -1}
		func() {
			defer func() {
				if r := recover(); r != nil {
					st.Status = "panic"
					st.Msg = fmt.Sprint(r)
				}
			}()
			var res *obiseq.BioSequence
			produced := false
			s := get(op.R)
			if s == nil && op.Op != "new" && op.Op != "churn" && op.Op != "gc" && op.Op != "nilrc" {
				st.Status = "err"
				st.Msg = "dead register"
				return
			}
			switch op.Op {
			case "new":
				res = c07new(op)
				produced = true
			case "copy":
				res = s.Copy()
				produced = true
			case "rc":
				if op.Via == "worker" { // the SeqWorker obicomplement runs
					sl, err := obiseq.ReverseComplementWorker(op.Inplace)(s)
					if err != nil || len(sl) != 1 {
						st.Status = "err"
						st.Msg = fmt.Sprint("worker: ", err, len(sl))
						return
					}
					res = sl[0]
				} else {
					res = s.ReverseComplement(op.Inplace)
				}
				produced = true
			case "sub":
				r, err := s.Subsequence(op.From, op.To, op.Circ)
				if err != nil {
					st.Status = "err"
					st.Msg = err.Error()
					return
				}
				res = r
				produced = true
			case "join":
				s2 := get(op.R2)
				if s2 == nil {
					st.Status = "err"
					st.Msg = "dead register"
					return
				}
				res = s.Join(s2, op.Inplace)
				produced = true
			case "setseq":
				b := []byte(op.Seq)
				s.SetSequence(b)
				c07scribble(b)
			case "write": // append raw bytes (not lower-cased by the code)
				switch op.Via {
				case "writestring":
					s.WriteString(op.Seq)
				case "writebyte":
					for _, b := range []byte(op.Seq) {
						s.WriteByte(b)
					}
				default:
					s.Write([]byte(op.Seq))
				}
			case "setqual":
				q := c07qual(op.Qual)
				s.SetQualities(q)
				c07scribble(q)
			case "clear": // the sequence becomes empty, the buffer stays
				s.Clear()
			case "clearqual":
				s.ClearQualities()
			case "writeq": // append scores (the counterpart of Write for the qualities)
				if op.Via == "byte" {
					for _, b := range c07qual(op.Qual) {
						s.WriteByteQualities(b)
					}
				} else {
					q := c07qual(op.Qual)
					s.WriteQualities(q)
					c07scribble(q)
				}
			case "grow": // reserve room: no value changes (an object whose sequence is nil would take a pooled slice: constructor "grow")
				if sq, _, _ := s.VerifRawBuffers(); cap(sq) > 0 {
					s.Grow(op.N)
				}
			case "setid":
				s.SetId(op.Id)
			case "setdef": // "" removes the attribute
				s.SetDefinition(op.Def)
			case "setsrc":
				s.SetSource(op.Src)
			case "sameas":
				s2 := get(op.R2)
				if s2 == nil {
					st.Status = "err"
					st.Msg = "dead register"
					return
				}
				f := s.SameAs(s2)
				st.Flag = &f
			case "nilrc": // a nil object: ReverseComplement answers nil, Len 0
				var z *obiseq.BioSequence
				if z.ReverseComplement(op.Inplace) != nil || z.Len() != 0 {
					st.Status = "err"
					st.Msg = "nil receiver: not nil"
				}
			case "setfeat": // the object adopts the slice it is given; N = spare capacity of that slice
				f := make([]byte, len(op.Feat), len(op.Feat)+op.N)
				copy(f, op.Feat)
				s.SetFeatures(f)
			case "poke": // write one byte straight into the sequence buffer
				b := s.Sequence()
				if op.I >= 0 && op.I < len(b) {
					b[op.I] = byte(op.B)
				}
			case "pokeq":
				if s.HasQualities() {
					q := s.Qualities()
					if op.I >= 0 && op.I < len(q) {
						q[op.I] = byte(op.B)
					}
				}
			case "pokef":
				_, _, f := s.VerifRawBuffers()
				if op.I >= 0 && op.I < len(f) {
					f[op.I] = byte(op.B)
				}
			case "setmm":
				s.SetAttribute("pairing_mismatches", c07mm(op))
			case "pokemm": // update the stored map in place
				if s.HasAnnotation() {
					switch m := s.Annotations()["pairing_mismatches"].(type) {
					case map[string]int:
						m[op.Key] = op.B
					case map[string]interface{}:
						m[op.Key] = float64(op.B)
					case map[string]float64:
						m[op.Key] = float64(op.B)
					}
				}
			case "pair":
				s2 := get(op.R2)
				if s2 == nil {
					st.Status = "err"
					st.Msg = "dead register"
					return
				}
				s.PairTo(s2)
			case "unpair":
				s.UnPair()
			case "recycle":
				s.Recycle()
				for i := range regs { // every register naming this object dies
					if regs[i] == s {
						regs[i] = nil
					}
				}
			case "churn":
				c07churn(op.N, op.B)
			case "gc":
				runtime.GC()
			default:
				st.Status = "err"
				st.Msg = "unknown op"
			}
			if produced {
				st.Res = len(regs)
				for i, x := range regs {
					if x != nil && x == res {
						st.Same = i
						break
					}
				}
				regs = append(regs, res)
			}
		}()
		st.Pool, st.APool = c07traceRead(ids) // before the snapshot: reading an object may itself use the pools
		if c.Each {
			st.Bufs = c07bufs(regs, ids)
			st.Shared = c07shared(regs)
			st.Snap = c07snap(regs, false)
			c07traceRead(ids)
		}
		o.Steps = append(o.Steps, st)
	}
	o.Final = c07snap(regs, true)
	return o
}

const c07letters = "abcdefghijklmnopqrstuvwxyz"

func c07tables() c07obs {
	o := c07obs{Kind: "tables", Kmer: map[string]string{}, Apat: map[string]string{}}
	for _, b := range obiseq.VerifRevcmpDNATable() {
		o.Table = append(o.Table, int(b))
	}
	for i := 0; i < 256; i++ {
		o.Seq = append(o.Seq, int(obiseq.VerifNucComplement(byte(i))))
	}
	for k, v := range obikmer.VerifRevcompNuc() {
		o.Kmer[string([]byte{k})] = string([]byte{v})
	}
	for _, l := range []byte(c07letters) {
		func() {
			defer func() {
				if r := recover(); r != nil {
					o.Apat[string([]byte{l})] = "!panic"
				}
			}()
			p, err := obiapat.MakeApatPattern(string([]byte{l}), 0, false)
			if err != nil {
				o.Apat[string([]byte{l})] = "!err"
				return
			}
			c, err := p.ReverseComplement()
			if err != nil {
				o.Apat[string([]byte{l})] = "!err"
				return
			}
			o.Apat[string([]byte{l})] = c.String()
		}()
	}
	return o
}

func init() {
	register("c07", func(in *bufio.Reader, out *bufio.Writer) error {
		runtime.GOMAXPROCS(1)
		return eachLine(in, out, func(c c07case) any {
			if c.Kind == "tables" {
				return c07tables()
			}
			return c07hist(c)
		})
	})
}
