// c16 — the C16 check drives the BUILT commands (obigrep, obiannotate, obidistribute) from
// tools/props/c16.py; this sub-command reports that the harness was built from the tree (ping) and runs
// the annotation pipeline in process on a long synthetic input (kind "pipeline", see c16stress.go).
package main

import "bufio"

func init() {
	register("c16", func(in *bufio.Reader, out *bufio.Writer) error {
		type probe struct {
			Ping  string   `json:"ping"`
			Kind  string   `json:"kind"`
			Argv  []string `json:"argv"`
			N     int      `json:"n"`
			Batch int      `json:"batch"`
		}
		return eachLine(in, out, func(c probe) any {
			if c.Kind == "pipeline" {
				return c16Pipeline(c.Argv, c.N, c.Batch)
			}
			return map[string]string{"kind": "pong", "ping": c.Ping}
		})
	})
}
