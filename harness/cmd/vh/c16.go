// c16 — the C16 check drives the BUILT commands (obigrep, obiannotate, obidistribute) from
// tools/props/c16.py; this sub-command only reports that the harness was built from the tree.
package main

import "bufio"

func init() {
	register("c16", func(in *bufio.Reader, out *bufio.Writer) error {
		type probe struct {
			Ping string `json:"ping"`
		}
		return eachLine(in, out, func(c probe) any { return map[string]string{"kind": "pong", "ping": c.Ping} })
	})
}
