package main

// vh c10, case {"kind":"pred"}: obiapat.IsPatternMatchSequence (predicat.go), the predicate behind
// `obigrep --approx-pattern`: ONE predicate object (pattern + its reverse complement compiled once) applied to a list of
// sequences in order. An invalid pattern makes IsPatternMatchSequence call log.Fatalf: the harness asks MakeApatPattern
// first and reports "paterr" without building the predicate.

import (
	"fmt"
	"runtime"
	"time"

	"git.metabarcoding.org/obitools/obitools4/obitools4/pkg/obiapat"
	"git.metabarcoding.org/obitools/obitools4/obitools4/pkg/obiseq"
)

func c10gc() {
	for i := 0; i < 2; i++ {
		runtime.GC()
		time.Sleep(2 * time.Millisecond)
	}
}

// c10freegc: objects released explicitly (Free) and then seen by the garbage collector: Free has to disconnect the finalizer
// it replaces, otherwise the C memory is released twice (the check runs these cases with the per-thread cache of the C
// allocator switched off, so that a second free of the same block aborts the process instead of corrupting a later case)
func c10freegc(c c10case) {
	if p, err := obiapat.MakeApatPattern(c.Pat, c.K, c.Indel); err == nil {
		if cp, err := p.ReverseComplement(); err == nil {
			cp.Free()
		}
		p.Free()
	}
	bs := obiseq.NewBioSequence("f", []byte(c.Seq), "")
	if s, err := obiapat.MakeApatSequence(bs, false); err == nil {
		s.Free()
	}
	c10gc()
}

func c10pred(c c10case) (o c10obs) {
	defer func() {
		if r := recover(); r != nil {
			o.Kind = "panic"
			o.Err = fmt.Sprint(r)
		}
	}()
	pat, err := obiapat.MakeApatPattern(c.Pat, c.K, c.Indel)
	if err != nil {
		return c10obs{Kind: "paterr"}
	}
	o.PatLen = pat.Len()
	pat.Free()
	p := obiapat.IsPatternMatchSequence(c.Pat, c.K, c.Both, c.Indel)
	o.Kind = "ok"
	o.Preds = make([]bool, 0, len(c.Seqs))
	for i, s := range c.Seqs {
		o.Preds = append(o.Preds, p(obiseq.NewBioSequence(fmt.Sprintf("s%d", i), []byte(s), "")))
	}
	if c.Gc {
		c10gc()
	}
	return
}
