package main

// vh c13 — obiclean graph for a data set, a distance, a ratio, under several worker counts and
// repetitions. Every run works on fresh BioSequence objects. Two paths:
//   graph: obiclean.VerifBuildGraph (hook; the unchanged buildSamples / BuildSeqGraph /
//          FilterGraphOnRatio / Mutation / ObicleanStatus) -> nodes, edges, son counts, weights
//   cli  : the unchanged obiclean.CLIOBIClean -> obiclean_* annotations of every output sequence
// The observation lists the distinct canonical results and which run produced which.

import (
	"bufio"
	"encoding/json"
	"fmt"
	"os"
	"runtime"
	"sort"
	"strconv"
	"time"

	"git.metabarcoding.org/obitools/obitools4/obitools4/pkg/obiiter"
	"git.metabarcoding.org/obitools/obitools4/obitools4/pkg/obiseq"
	"git.metabarcoding.org/obitools/obitools4/obitools4/pkg/obitools/obiclean"
)

type c13seq struct {
	Id     string         `json:"id"`
	Seq    string         `json:"seq"`
	Counts map[string]int `json:"counts"` // sample -> count (merged_sample)
}

type c13case struct {
	Seqs    []c13seq `json:"seqs"`
	Dist    int      `json:"dist"`
	Ratio   float64  `json:"ratio"`
	Workers []int    `json:"workers"`
	Reps    int      `json:"reps"`
	Cli     bool     `json:"cli"`
	Head    bool     `json:"head"`
	Procs   int      `json:"procs"`
	// round 2: the data set reaches CLIOBIClean as batches of Batch records that ARRIVE in each of
	// the orders listed in Arrivals (permutations of the batch numbers; every batch keeps its order
	// number) — what a parallel reader stage delivers from run to run
	Batch    int     `json:"batch"`
	Arrivals [][]int `json:"arrivals"`
	// round 3: how the sample table reaches the code.  Form "" : merged_<tag> as map[string]int; "iface": as
	// map[string]interface{} holding float64 / int values (what a JSON header parser leaves); "stats": as
	// obiseq.StatsOnValues (what obiuniq leaves in memory); "attr": no merged table, the attribute <tag> itself
	// (string, or int when the sample name is a number) and count (sequences of exactly one sample; a sequence of
	// sample "NA" carries no attribute at all): StatsOn has to build the table; "attrbad": the same with a merged_<tag>
	// slot holding a string.  Tag "" = "sample".
	Form string `json:"form"`
	Tag  string `json:"tag"`
	// Prior: the cli path first runs CLIOBIClean with these settings on the SAME objects (a history of two calls:
	// the second run must describe its own graph only)
	Prior *c13prior `json:"prior"`
}

type c13prior struct {
	Dist  int     `json:"dist"`
	Ratio float64 `json:"ratio"`
}

type c13annot struct {
	Id        string            `json:"id"`
	Status    map[string]string `json:"status"`
	Weight    map[string]int    `json:"weight"`
	Mutation  map[string]string `json:"mutation"`
	Head      bool              `json:"head"`
	HeadCount int               `json:"headcount"`
	Internal  int               `json:"internalcount"`
	Singleton int               `json:"singletoncount"`
	Sample    int               `json:"samplecount"`
	// the exported getters of package obiclean on the same sequence (cli path only; -2: panicked)
	Getters []int `json:"getters,omitempty"`
}

type c13result struct {
	Graph map[string][]obiclean.VerifNode `json:"graph,omitempty"`
	Annot []c13annot                      `json:"annot,omitempty"`
	Panic string                          `json:"panic,omitempty"`
	// cli path: the ids in the order CLIOBIClean delivers the sequences (= the order of the loaded data set);
	// not part of the compared result (the property does not speak about the output order): reported per run
	order []string
}

type c13run struct {
	Path    string `json:"path"`
	Workers int    `json:"w"`
	Rep     int    `json:"rep"`
	Result  int    `json:"r"` // index in Distinct
	// arrival-history runs: the ids in output order (model: Load = batches sorted by order number)
	Order []string `json:"order,omitempty"`
}

type c13obs struct {
	Kind     string      `json:"kind"`
	Runs     []c13run    `json:"runs"`
	Distinct []c13result `json:"distinct"`
}

func c13tag(c c13case) string {
	if c.Tag == "" {
		return "sample"
	}
	return c.Tag
}

func c13db(c c13case) obiseq.BioSequenceSlice {
	db := obiseq.MakeBioSequenceSlice()
	tag := c13tag(c)
	for _, s := range c.Seqs {
		bs := obiseq.NewBioSequence(s.Id, []byte(s.Seq), "")
		m := make(map[string]int, len(s.Counts))
		tot := 0
		for k, v := range s.Counts {
			m[k] = v
			tot += v
		}
		switch c.Form {
		case "iface":
			mi := make(map[string]interface{}, len(m))
			n := 0
			for k, v := range m {
				if n%2 == 0 {
					mi[k] = float64(v)
				} else {
					mi[k] = v
				}
				n++
			}
			bs.SetAttribute("merged_"+tag, mi)
		case "stats":
			sv := make(obiseq.StatsOnValues, len(m))
			for k, v := range m {
				sv[k] = v
			}
			bs.SetAttribute("merged_"+tag, sv)
		case "attr", "attrbad":
			if c.Form == "attrbad" {
				// a merged_<tag> slot that is not a table: StatsOn replaces it by the table built from the attribute
				bs.SetAttribute("merged_"+tag, "not a table")
			}
			for k := range m { // exactly one sample (the generator guarantees it)
				if k != "NA" {
					if n, err := strconv.Atoi(k); err == nil && strconv.Itoa(n) == k {
						bs.SetAttribute(tag, n)
					} else {
						bs.SetAttribute(tag, k)
					}
				}
			}
		default:
			bs.SetAttribute("merged_"+tag, m)
		}
		bs.SetCount(tot)
		db = append(db, bs)
	}
	return db
}

func c13toInt(v interface{}) int {
	switch v := v.(type) {
	case int:
		return v
	case float64:
		return int(v)
	}
	return -1
}

func c13getter(f func(*obiseq.BioSequence) int, s *obiseq.BioSequence) (v int) {
	defer func() {
		if r := recover(); r != nil {
			v = -2
		}
	}()
	return f(s)
}

// c13iter delivers db as batches of bsize records, batch k carrying order number k, in the given arrival order
func c13iter(db obiseq.BioSequenceSlice, bsize int, arrival []int) obiiter.IBioSequence {
	it := obiiter.MakeIBioSequence()
	it.Add(1)
	go func() { it.WaitAndClose() }()
	go func() {
		for _, k := range arrival {
			lo := k * bsize
			if k < 0 || lo >= len(db) {
				continue
			}
			hi := lo + bsize
			if hi > len(db) {
				hi = len(db)
			}
			it.Push(obiiter.MakeBioSequenceBatch("verif", k, db[lo:hi]))
		}
		it.Done()
	}()
	return it
}

func c13annots(seqs obiseq.BioSequenceSlice, getters ...bool) []c13annot {
	res := make([]c13annot, 0, len(seqs))
	for _, s := range seqs {
		a := s.Annotations()
		an := c13annot{Id: s.Id(),
			Status:   obiclean.Status(s),
			Weight:   obiclean.Weight(s),
			Mutation: obiclean.GetMutation(s),
		}
		if h, ok := a["obiclean_head"].(bool); ok {
			an.Head = h
		}
		an.HeadCount = c13toInt(a["obiclean_headcount"])
		an.Internal = c13toInt(a["obiclean_internalcount"])
		an.Singleton = c13toInt(a["obiclean_singletoncount"])
		an.Sample = c13toInt(a["obiclean_samplecount"])
		if len(getters) > 0 && getters[0] {
			an.Getters = []int{c13getter(obiclean.HeadCount, s), c13getter(obiclean.InternalCount, s), c13getter(obiclean.SingletonCount, s)}
		}
		res = append(res, an)
	}
	sort.SliceStable(res, func(i, j int) bool { return res[i].Id < res[j].Id })
	return res
}

func c13ids(seqs obiseq.BioSequenceSlice) []string {
	ids := make([]string, 0, len(seqs))
	for _, s := range seqs {
		ids = append(ids, s.Id())
	}
	return ids
}

func c13once(c c13case, path string, workers int, arrival ...[]int) (res c13result) {
	defer func() {
		if r := recover(); r != nil {
			res = c13result{Panic: fmt.Sprint(r)}
		}
	}()
	db := c13db(c)
	tag := c13tag(c)
	if path == "graph" {
		g := obiclean.VerifBuildGraph(db, tag, c.Dist, workers, c.Ratio)
		return c13result{Graph: g, Annot: c13annots(db)}
	}
	if c.Prior != nil {
		// an earlier run on the same objects (every sequence is kept: no --head); its output objects are the input of the run observed
		db = obiclean.VerifCLIOBIClean(db, tag, c.Prior.Dist, workers, c.Prior.Ratio, false)
	}
	if len(arrival) > 0 {
		out := obiclean.VerifCLIOBICleanIter(c13iter(db, c.Batch, arrival[0]), tag, c.Dist, workers, c.Ratio, c.Head)
		return c13result{Annot: c13annots(out, true), order: c13ids(out)}
	}
	out := obiclean.VerifCLIOBIClean(db, tag, c.Dist, workers, c.Ratio, c.Head)
	return c13result{Annot: c13annots(out, true), order: c13ids(out)}
}

func init() {
	register("c13", func(in *bufio.Reader, out *bufio.Writer) error {
		// the progress bars of BuildSeqGraph write to os.Stderr
		if devnull, err := os.OpenFile(os.DevNull, os.O_WRONLY, 0); err == nil && os.Getenv("VH_C13_STDERR") == "" {
			// keep the race detector's report (it writes to fd 2 directly): only redirect the Go-level handle
			os.Stderr = devnull
		}
		limit := 30 * time.Second
		if v, err := strconv.Atoi(os.Getenv("VH_C13_CASE_TIMEOUT")); err == nil && v > 0 {
			limit = time.Duration(v) * time.Second
		}
		hung := false
		return eachLine(in, out, func(c c13case) any {
			// a build that does not return (e.g. a reweighting loop that never stops) must not block the
			// whole batch: the case is reported as "timeout", the following ones as "skipped"
			if hung {
				return c13obs{Kind: "skipped"}
			}
			done := make(chan c13obs, 1)
			go func() { done <- c13case1(c) }()
			select {
			case o := <-done:
				return o
			case <-time.After(limit):
				hung = true
				return c13obs{Kind: "timeout"}
			}
		})
	})
}

func c13case1(c c13case) c13obs {
	if c.Procs > 0 {
		runtime.GOMAXPROCS(c.Procs)
	} else {
		runtime.GOMAXPROCS(runtime.NumCPU())
	}
	if c.Reps < 1 {
		c.Reps = 1
	}
	obs := c13obs{Kind: "ok"}
	keys := map[string]int{}
	paths := []string{"graph"}
	if c.Cli {
		paths = append(paths, "cli")
	}
	for _, p := range paths {
		for _, w := range c.Workers {
			for rep := 0; rep < c.Reps; rep++ {
				r := c13once(c, p, w)
				b, _ := json.Marshal(r) // maps are marshalled with sorted keys
				k := string(b)
				idx, ok := keys[k]
				if !ok {
					idx = len(obs.Distinct)
					keys[k] = idx
					obs.Distinct = append(obs.Distinct, r)
				}
				obs.Runs = append(obs.Runs, c13run{Path: p, Workers: w, Rep: rep, Result: idx})
			}
		}
	}
	// the same data set delivered under each batch arrival history (path "cli": the results must all be the same)
	if c.Cli && c.Batch > 0 {
		for k, arr := range c.Arrivals {
			r := c13once(c, "cli", c.Workers[0], arr)
			b, _ := json.Marshal(r)
			idx, ok := keys[string(b)]
			if !ok {
				idx = len(obs.Distinct)
				keys[string(b)] = idx
				obs.Distinct = append(obs.Distinct, r)
			}
			obs.Runs = append(obs.Runs, c13run{Path: "cli", Workers: c.Workers[0], Rep: 1000 + k, Result: idx, Order: r.order})
		}
	}
	return obs
}
