package main

// vh c02, round 3: typed getters, construction histories of one record, text nobody formatted, offset histories inside
// one process, and the file-level writers / readers (WriteFastxToFile, ReadFastxFromFile).

import (
	"bytes"
	"compress/gzip"
	"fmt"
	"io"
	"math"
	"os"
	"path/filepath"
	"sort"
	"strconv"

	"git.metabarcoding.org/obitools/obitools4/obitools4/pkg/obiformats"
	"git.metabarcoding.org/obitools/obitools4/obitools4/pkg/obiiter"
	"git.metabarcoding.org/obitools/obitools4/obitools4/pkg/obioptions"
	"git.metabarcoding.org/obitools/obitools4/obitools4/pkg/obiseq"
)

// one key seen through every typed getter; nil = the getter said "not there / not convertible" (or panicked: "!panic")
type c02typed struct {
	K   string             `json:"k"` // base64
	Has bool               `json:"has"`
	I   *string            `json:"i"`  // GetIntAttribute
	F   *string            `json:"f"`  // GetFloatAttribute: float64 bits, decimal
	N   *string            `json:"n"`  // GetNumericAttribute: float64 bits, decimal
	B   *bool              `json:"b"`  // GetBoolAttribute
	S   *string            `json:"s"`  // GetStringAttribute, base64
	IM  *map[string]string `json:"im"` // GetIntMap: base64 key -> decimal
	SM  *map[string]string `json:"sm"` // GetStringMap: base64 key -> base64
	IS  *[]string          `json:"is"` // GetIntSlice
	RI  *map[string]string `json:"ri"` // OBITagRefIndex(key): decimal key -> base64
	Err string             `json:"err,omitempty"`
	Rec *c02recview `json:"rec,omitempty"` // whole-record getters, reported with the first entry
}

type c02recview struct {
	Count      int      `json:"count"`
	Taxid      int      `json:"taxid"`
	Landmark   int      `json:"landmark"`
	IsLandmark bool     `json:"is_landmark"`
	Coord      []string `json:"coord"` // nil when GetCoordinate returns nil
	HasSeq     bool     `json:"has_seq"`
	Str        string   `json:"str"`  // base64 String()
	Len        int      `json:"len"`
	Def        string   `json:"def"`  // base64 Definition()
	HasDef     bool     `json:"has_def"`
	Keys       []string `json:"keys"` // base64, sorted: Keys(false)
	AKeys      []string `json:"akeys"` // base64, sorted: AttributeKeys(true)
	GeomRI     *map[string]string `json:"geomri"` // OBITagGeomRefIndex(): decimal key -> base64; nil: absent (or a panic)
}

func c02try(f func()) (panicked bool) {
	defer func() {
		if r := recover(); r != nil {
			panicked = true
		}
	}()
	f()
	return
}

func fbits(x float64) *string {
	s := strconv.FormatUint(math.Float64bits(x), 10)
	return &s
}

// c02views: every key of the record (+ one absent key) through every typed getter, each on a fresh Copy of the record
// (GetIntAttribute, GetFloatAttribute and GetIntSlice store the converted value back).
func c02views(s *obiseq.BioSequence) []c02typed {
	keys := []string{}
	for k := range s.Annotations() {
		keys = append(keys, k)
	}
	sort.Strings(keys)
	keys = append(keys, "no such key\x01")
	out := []c02typed{}
	rv := &c02recview{}
	c02try(func() {
		x := s.Copy()
		rv.Count = x.Count()
		x = s.Copy()
		rv.Taxid = x.Taxid()
		x = s.Copy()
		rv.Landmark = x.GetLandmarkID()
		x = s.Copy()
		rv.IsLandmark = x.IsALandmark()
		x = s.Copy()
		if co := x.GetCoordinate(); co != nil {
			rv.Coord = []string{}
			for _, v := range co {
				rv.Coord = append(rv.Coord, strconv.Itoa(v))
			}
		}
		c02try(func() {
			if v := s.Copy().OBITagGeomRefIndex(); v != nil {
				m := map[string]string{}
				for a, b := range v {
					m[strconv.Itoa(a)] = b64([]byte(b))
				}
				rv.GeomRI = &m
			}
		})
		rv.HasSeq, rv.Str, rv.Len = s.HasSequence(), b64([]byte(s.String())), s.Len()
		rv.Def, rv.HasDef = b64([]byte(s.Definition())), s.HasDefinition()
		for k := range s.Keys(false) {
			rv.Keys = append(rv.Keys, b64([]byte(k)))
		}
		sort.Strings(rv.Keys)
		for k := range s.AttributeKeys(true) {
			rv.AKeys = append(rv.AKeys, b64([]byte(k)))
		}
		sort.Strings(rv.AKeys)
	})
	for n, k := range keys {
		t := c02typed{K: b64([]byte(k))}
		if n == 0 {
			t.Rec = rv
		}
		if c02try(func() {
			t.Has = s.HasAttribute(k)
			if v, ok := s.Copy().GetIntAttribute(k); ok {
				x := strconv.Itoa(v)
				t.I = &x
			}
			if v, ok := s.Copy().GetFloatAttribute(k); ok {
				t.F = fbits(v)
			}
			if v, ok := s.Copy().GetNumericAttribute(k); ok {
				t.N = fbits(v)
			}
			if v, ok := s.Copy().GetBoolAttribute(k); ok {
				t.B = &v
			}
			if v, ok := s.Copy().GetStringAttribute(k); ok {
				x := b64([]byte(v))
				t.S = &x
			}
			if v, ok := s.Copy().GetIntMap(k); ok {
				m := map[string]string{}
				for a, b := range v {
					m[b64([]byte(a))] = strconv.Itoa(b)
				}
				t.IM = &m
			}
			if v, ok := s.Copy().GetStringMap(k); ok {
				m := map[string]string{}
				for a, b := range v {
					m[b64([]byte(a))] = b64([]byte(b))
				}
				t.SM = &m
			}
			if v, ok := s.Copy().GetIntSlice(k); ok {
				l := []string{}
				for _, b := range v {
					l = append(l, strconv.Itoa(b))
				}
				t.IS = &l
			}
		}) {
			t.Err = "panic"
		}
		// OBITagRefIndex panics (log.Panicln) on a value that is not a map from numbers to strings
		c02try(func() {
			if v := s.Copy().OBITagRefIndex(k); v != nil {
				m := map[string]string{}
				for a, b := range v {
					m[strconv.Itoa(a)] = b64([]byte(b))
				}
				t.RI = &m
			}
		})
		out = append(out, t)
	}
	return out
}

// c02cachingGetters runs, on the record itself, the getters that store their result back, each on the attributes that were
// written with the matching type.
func c02cachingGetters(s *obiseq.BioSequence, r c02rec) {
	for k64, v := range r.Ann {
		k := string(unb64(k64))
		switch v.T {
		case "int":
			s.GetIntAttribute(k)
			if k == "count" {
				s.Count()
			}
			if k == "taxid" {
				s.Taxid()
			}
		case "float":
			s.GetFloatAttribute(k)
		case "ints":
			s.GetIntSlice(k)
		}
	}
}

// c02build builds one record along the requested construction path.
func c02build(r c02rec) *obiseq.BioSequence {
	id, seq, def := string(unb64(r.Id)), unb64(r.Seq), string(unb64(r.Def))
	var q []byte
	if r.Qual != nil {
		q = make([]byte, len(r.Qual))
		for i, x := range r.Qual {
			q[i] = byte(x)
		}
	}
	var s *obiseq.BioSequence
	switch r.Build {
	case "withqual":
		if q != nil {
			s = obiseq.NewBioSequenceWithQualities(id, seq, def, q)
		} else {
			s = obiseq.NewBioSequence(id, seq, def)
		}
	case "write", "rewrite":
		// byte-wise construction (the path of the format readers that fill a record piecemeal); the sequence is given in
		// lower case by the generator for this path (Write does not normalise)
		s = obiseq.NewEmptyBioSequence(len(seq) / 2)
		s.SetId(id)
		if r.Build == "rewrite" {
			s.WriteString("nnnnnnnn")
			s.WriteQualities([]byte{1, 2, 3})
			s.Clear()
			s.ClearQualities()
		}
		h := len(seq) / 2
		s.Write(seq[:h])
		if h < len(seq) {
			s.WriteByte(seq[h])
			s.WriteString(string(seq[h+1:]))
		}
		if q != nil {
			hq := len(q) / 2
			s.WriteQualities(q[:hq])
			for _, x := range q[hq:] {
				s.WriteByteQualities(x)
			}
		}
		s.SetDefinition(def)
	case "attrs":
		// the record's own fields set as attributes (the path of obiannotate / expressions): the identifier as a string, the
		// nucleotides as bytes or as a string, the qualities in each of their three forms
		s = obiseq.NewEmptyBioSequence(0)
		s.SetAttribute("id", id)
		if len(seq)%2 == 0 {
			s.SetAttribute("sequence", seq)
		} else {
			s.SetAttribute("sequence", string(seq))
		}
		if len(q) > 0 {
			switch len(q) % 3 {
			case 0:
				s.SetAttribute("qualities", obiseq.Quality(q))
			case 1:
				s.SetAttribute("qualities", q)
			default:
				shift := obioptions.OutputQualityShift()
				txt := make([]byte, len(q))
				for i, x := range q {
					txt[i] = x + shift
				}
				s.SetAttribute("qualities", string(txt))
			}
		}
		s.SetAttribute("definition", def)
		if def == "" {
			s.SetDefinition("")
		}
	default:
		s = obiseq.NewBioSequence(id, seq, def)
		if q != nil {
			s.SetQualities(q)
		}
	}
	for k, v := range r.Ann {
		key := string(unb64(k))
		val := c02value(v)
		if r.Build == "copy" || r.Build == "write" || r.Build == "attrs" {
			// the toolkit's own setters where there is one
			switch x := val.(type) {
			case int:
				if key == "count" && x >= 1 {
					s.SetCount(x)
					continue
				}
				if key == "taxid" && x >= 1 {
					s.SetTaxid(x)
					continue
				}
				if key == "landmark_id" && x >= 0 {
					s.SetLandmarkID(x)
					continue
				}
			case []int:
				if key == "landmark_coord" {
					s.SetCoordinate(x)
					continue
				}
			case map[int]string:
				if key == "obitag_ref_index" {
					s.SetOBITagRefIndex(x)
					continue
				}
				if key == "obitag_geomref_index" {
					s.SetOBITagGeomRefIndex(x)
					continue
				}
			}
			s.SetAttribute(key, val)
		} else {
			s.Annotations()[key] = val
		}
	}
	if r.Build == "copy" {
		s = s.Copy()
	}
	return s
}

func c02formatSkip(f string, seqs obiseq.BioSequenceSlice, skip bool) []byte {
	batch := obiiter.MakeBioSequenceBatch("c02", 0, seqs)
	if f == "fastq" {
		return obiformats.FormatFastqBatch(batch, obiformats.FormatFastSeqJsonHeader, skip).Bytes()
	}
	return obiformats.FormatFastaBatch(batch, obiformats.FormatFastSeqJsonHeader, skip).Bytes()
}

// the records formatted one by one
func c02single(f string, seqs obiseq.BioSequenceSlice) []byte {
	var b bytes.Buffer
	for _, s := range seqs {
		if s.Len() == 0 {
			continue
		}
		if f == "fastq" {
			b.WriteString(obiformats.FormatFastq(s, obiformats.FormatFastSeqJsonHeader))
		} else {
			b.WriteString(obiformats.FormatFasta(s, obiformats.FormatFastSeqJsonHeader))
			b.WriteByte('\n')
		}
	}
	return b.Bytes()
}

func c02recObs(s *obiseq.BioSequence) c02orec {
	r := c02orec{Start: -2, Stop: -2}
	r.Id, r.Seq = b64([]byte(s.Id())), b64(s.Sequence())
	if s.HasQualities() {
		for _, q := range s.Qualities() {
			r.Qual = append(r.Qual, int(q))
		}
	}
	r.Ann = c02canon(s.Annotations())
	r.Enc = b64([]byte(obiformats.FormatFastSeqJsonHeader(s)))
	return r
}

// mode read: a text nobody formatted -> chunk parser -> header parser -> write -> read -> write
func c02read(c c02case) (o c02obs) {
	o.Start, o.Stop = -2, -2
	defer func() {
		if r := recover(); r != nil {
			if f, ok := r.(c02fatal); ok {
				o.Kind, o.Msg = "fatal", f.msg
			} else {
				o.Kind, o.Msg = "panic", fmt.Sprint(r)
			}
		}
	}()
	obioptions.SetOutputQualityShift(c.Shift)
	text := unb64(c.Text)
	parse := func(b []byte) (obiseq.BioSequenceSlice, error) {
		if c.Fmt == "fastq" {
			return obiformats.FastqChunkParser(byte(c.Shift), true)("c02", bytes.NewReader(b))
		}
		return obiformats.FastaChunkParser()("c02", bytes.NewReader(b))
	}
	parsed, err := parse(text)
	if err != nil {
		o.Kind, o.Msg = "fatal", err.Error()
		return
	}
	for _, s := range parsed {
		raw := b64([]byte(s.Definition()))
		if c.Parser == "guessed" {
			obiformats.ParseGuessedFastSeqHeader(s)
		} else {
			obiformats.ParseFastSeqJsonHeader(s)
		}
		r := c02recObs(s)
		r.RawDef = raw
		o.Recs = append(o.Recs, r)
	}
	w1 := c02format(c.Fmt, parsed)
	o.W1 = b64(w1)
	again, err := parse(w1)
	if err != nil {
		o.Kind, o.Msg = "fatal", "second read: "+err.Error()
		return
	}
	for _, s := range again {
		if c.Parser == "guessed" {
			obiformats.ParseGuessedFastSeqHeader(s)
		} else {
			obiformats.ParseFastSeqJsonHeader(s)
		}
	}
	o.W2 = b64(c02format(c.Fmt, again))
	o.Kind = "ok"
	return
}

type c02hist struct {
	Shift int     `json:"shift"`
	W     string  `json:"w"`    // base64: the records written under this offset
	Recs  []c02orec `json:"recs"` // read back with this offset (chunk parser only)
	QS    string  `json:"qs"`   // base64: GetAttribute("qualities") of the first record
	Err   string  `json:"err,omitempty"`
}

// mode hist: the same records written and read under a history of quality offsets inside one process
func c02histRun(c c02case) (o c02obs) {
	o.Start, o.Stop = -2, -2
	defer func() {
		if r := recover(); r != nil {
			if f, ok := r.(c02fatal); ok {
				o.Kind, o.Msg = "fatal", f.msg
			} else {
				o.Kind, o.Msg = "panic", fmt.Sprint(r)
			}
		}
	}()
	seqs := obiseq.MakeBioSequenceSlice(len(c.Recs))[:0]
	for _, r := range c.Recs {
		seqs = append(seqs, c02build(r))
	}
	for _, sh := range c.Shifts {
		obioptions.SetOutputQualityShift(sh)
		h := c02hist{Shift: sh}
		w := c02format("fastq", seqs)
		h.W = b64(w)
		if v, ok := seqs[0].GetAttribute("qualities"); ok {
			h.QS = b64([]byte(v.(string)))
		}
		func() {
			defer func() {
				if r := recover(); r != nil {
					h.Err = fmt.Sprint(r)
				}
			}()
			back, err := obiformats.FastqChunkParser(byte(sh), true)("c02", bytes.NewReader(w))
			if err != nil {
				h.Err = err.Error()
				return
			}
			for _, s := range back {
				r := c02recObs(s)
				r.RawDef = b64([]byte(s.Definition()))
				h.Recs = append(h.Recs, r)
			}
		}()
		o.Hist = append(o.Hist, h)
	}
	o.Kind = "ok"
	return
}

// mode file: records -> iterator of batches -> WriteFastaToFile / WriteFastqToFile -> the file -> ReadFastaFromFile /
// ReadFastqFromFile (header parser as option) -> records
func c02file(c c02case) (o c02obs) {
	o.Start, o.Stop = -2, -2
	defer func() {
		if r := recover(); r != nil {
			if f, ok := r.(c02fatal); ok {
				o.Kind, o.Msg = "fatal", f.msg
			} else {
				o.Kind, o.Msg = "panic", fmt.Sprint(r)
			}
		}
	}()
	obioptions.SetOutputQualityShift(33)
	obioptions.SetInputQualityShift(33)
	dir, err := os.MkdirTemp("", "c02file")
	if err != nil {
		panic(err)
	}
	defer os.RemoveAll(dir)
	path := filepath.Join(dir, "out."+c.Fmt)
	if c.Compress {
		path += ".gz"
	}
	if c.Prefill != "" {
		if err := os.WriteFile(path, unb64(c.Prefill), 0660); err != nil {
			panic(err)
		}
	}
	seqs := obiseq.MakeBioSequenceSlice(len(c.Recs))[:0]
	for _, r := range c.Recs {
		seqs = append(seqs, c02build(r))
	}
	o.W1 = b64(c02format(c.Fmt, seqs)) // the in-process text of the same records (judged by the rt machinery)
	bs, nw := c.BatchSize, c.Workers
	if bs <= 0 {
		bs = 2
	}
	if nw <= 0 {
		nw = 2
	}
	opts := []obiformats.WithOption{
		obiformats.OptionsFastSeqHeaderFormat(obiformats.FormatFastSeqJsonHeader),
		obiformats.OptionsParallelWorkers(nw), obiformats.OptionsBatchSize(bs),
		obiformats.OptionsAppendFile(c.Append), obiformats.OptionsCompressed(c.Compress)}
	it := obiiter.IBatchOver("c02", seqs, bs)
	var res obiiter.IBioSequence
	if c.Fmt == "fastq" {
		res, err = obiformats.WriteFastqToFile(it, path, opts...)
	} else {
		res, err = obiformats.WriteFastaToFile(it, path, opts...)
	}
	if err != nil {
		o.Kind, o.Msg = "fatal", err.Error()
		return
	}
	res.Consume()
	raw, err := os.ReadFile(path)
	if err != nil {
		o.Kind, o.Msg = "fatal", err.Error()
		return
	}
	o.Gz = len(raw) >= 2 && raw[0] == 0x1f && raw[1] == 0x8b
	content := raw
	if o.Gz {
		// (several gzip members in a row when appended: the gzip reader chains them)
		zr, err := gzip.NewReader(bytes.NewReader(raw))
		if err != nil {
			o.Kind, o.Msg = "fatal", "gunzip: "+err.Error()
			return
		}
		content, err = io.ReadAll(zr)
		if err != nil {
			o.Kind, o.Msg = "fatal", "gunzip: "+err.Error()
			return
		}
	}
	o.File = b64(content)
	ropts := []obiformats.WithOption{obiformats.OptionsParallelWorkers(nw), obiformats.OptionsBatchSize(bs), obiformats.OptionsReadQualities(true)}
	if c.Parser == "guessed" {
		ropts = append(ropts, obiformats.OptionsFastSeqHeaderParser(obiformats.ParseGuessedFastSeqHeader))
	} else {
		ropts = append(ropts, obiformats.OptionsFastSeqHeaderParser(obiformats.ParseFastSeqJsonHeader))
	}
	var rit obiiter.IBioSequence
	if c.Fmt == "fastq" {
		rit, err = obiformats.ReadFastqFromFile(path, ropts...)
	} else {
		rit, err = obiformats.ReadFastaFromFile(path, ropts...)
	}
	if err != nil {
		o.Kind, o.Msg = "fatal", "read: "+err.Error()
		return
	}
	_, back := rit.Load()
	for _, s := range back {
		o.Recs = append(o.Recs, c02recObs(s))
	}
	o.W2 = b64(c02format(c.Fmt, back))
	o.Kind = "ok"
	return
}
