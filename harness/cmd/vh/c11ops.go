package main

// vh c11ops — the pieces _Pcr is made of, called directly with arguments _Pcr itself never produces (error returns
// included): obiseq.Subsequence, obiseq.ReverseComplement / ReverseComplementWorker, and the option set of obiapat
// (MakeOptions + every With-option + every accessor).

import (
	"bufio"
	"fmt"

	log "github.com/sirupsen/logrus"

	"git.metabarcoding.org/obitools/obitools4/obitools4/pkg/obiapat"
	"git.metabarcoding.org/obitools/obitools4/obitools4/pkg/obiseq"
)

type c11opCase struct {
	Op       string `json:"op"` // subseq | revcomp | options
	Seq      string `json:"seq"`
	Qual     []int  `json:"qual,omitempty"`
	From     int    `json:"from"`
	To       int    `json:"to"`
	Circular bool   `json:"circular"`
	Inplace  bool   `json:"inplace"`
	Worker   bool   `json:"worker"`
	Pm       map[string]int `json:"pm,omitempty"` // pairing_mismatches set on the argument
	// options
	Fwd     string `json:"fwd"`
	Rev     string `json:"rev"`
	Ef      int    `json:"ef"`
	Er      int    `json:"er"`
	Min     int    `json:"min"`
	Max     int    `json:"max"`
	Ext     *int   `json:"ext"` // null: OptionWithExtension not used
	Full    bool   `json:"full"`
	Batch   *int   `json:"batch"`   // null: OptionBatchSize not used
	Workers *int   `json:"workers"` // null: OptionParallelWorkers not used
	Order   int    `json:"order"`   // rotation of the list of With-options (their order must not matter)
}

type c11opObs struct {
	Kind string `json:"kind"` // ok | err | panic | fatal
	Err  string `json:"err,omitempty"`
	Seq  string `json:"seq"`
	Qual []int  `json:"qual"`
	Id   string `json:"id,omitempty"`
	// revcomp: the argument after the call, and whether the result is the argument itself
	ArgSeq  string `json:"arg_seq,omitempty"`
	ArgQual []int  `json:"arg_qual,omitempty"`
	Same    bool   `json:"same"`
	Pm      map[string]int `json:"pm,omitempty"` // pairing_mismatches of the result
	// options
	Opt map[string]int `json:"opt,omitempty"`
}

func c11quals(s *obiseq.BioSequence) []int {
	if !s.HasQualities() {
		return nil
	}
	q := make([]int, 0, s.Len())
	for _, v := range s.Qualities() {
		q = append(q, int(v))
	}
	return q
}

func c11pm(s *obiseq.BioSequence) map[string]int {
	if m, ok := s.GetIntMap("pairing_mismatches"); ok {
		return m
	}
	return nil
}

func c11mkseq(id, seq string, qual []int, pm ...map[string]int) *obiseq.BioSequence {
	s := obiseq.NewBioSequence(id, []byte(seq), "")
	if len(pm) > 0 && pm[0] != nil {
		m := make(map[string]int, len(pm[0]))
		for k, v := range pm[0] {
			m[k] = v
		}
		s.SetAttribute("pairing_mismatches", m)
	}
	if qual != nil {
		q := make([]byte, len(qual))
		for k, v := range qual {
			q[k] = byte(v)
		}
		s.SetQualities(q)
	}
	return s
}

func c11b(b bool) int {
	if b {
		return 1
	}
	return 0
}

func c11opRun(c c11opCase) (o c11opObs) {
	defer func() {
		if r := recover(); r != nil {
			msg := fmt.Sprint(r)
			if msg == "log.Fatal" {
				o = c11opObs{Kind: "fatal", Err: msg}
			} else {
				o = c11opObs{Kind: "panic", Err: msg}
			}
		}
	}()
	switch c.Op {
	case "subseq":
		s := c11mkseq("s", c.Seq, c.Qual, c.Pm)
		r, err := s.Subsequence(c.From, c.To, c.Circular)
		if err != nil {
			return c11opObs{Kind: "err", Err: err.Error()}
		}
		return c11opObs{Kind: "ok", Seq: r.String(), Qual: c11quals(r), Id: r.Id(), ArgSeq: s.String(), ArgQual: c11quals(s), Pm: c11pm(r)}
	case "revcomp":
		s := c11mkseq("s", c.Seq, c.Qual, c.Pm)
		var r *obiseq.BioSequence
		if c.Worker {
			sl, err := obiseq.ReverseComplementWorker(c.Inplace)(s)
			if err != nil || len(sl) != 1 {
				return c11opObs{Kind: "err", Err: fmt.Sprint(err, len(sl))}
			}
			r = sl[0]
		} else {
			r = s.ReverseComplement(c.Inplace)
		}
		return c11opObs{Kind: "ok", Seq: r.String(), Qual: c11quals(r), ArgSeq: s.String(), ArgQual: c11quals(s), Same: r == s, Pm: c11pm(r)}
	case "revcomp_nil":
		var s *obiseq.BioSequence
		return c11opObs{Kind: "ok", Same: s.ReverseComplement(true) == nil && s.ReverseComplement(false) == nil}
	case "options":
		set := []obiapat.WithOption{
			obiapat.OptionForwardPrimer(c.Fwd, c.Ef),
			obiapat.OptionReversePrimer(c.Rev, c.Er),
			obiapat.OptionOnlyFullExtension(c.Full),
			obiapat.OptionMinLength(c.Min),
			obiapat.OptionMaxLength(c.Max),
			obiapat.OptionCircular(c.Circular),
		}
		if c.Ext != nil {
			set = append(set, obiapat.OptionWithExtension(*c.Ext))
		}
		if c.Batch != nil {
			set = append(set, obiapat.OptionBatchSize(*c.Batch))
		}
		if c.Workers != nil {
			set = append(set, obiapat.OptionParallelWorkers(*c.Workers))
		}
		if n := len(set); c.Order > 0 {
			k := c.Order % n
			set = append(append([]obiapat.WithOption{}, set[k:]...), set[:k]...)
		}
		def := obiapat.MakeOptions(nil)
		opt := obiapat.MakeOptions(set)
		return c11opObs{Kind: "ok", Opt: map[string]int{
			"ef": opt.ForwardError(), "er": opt.ReverseError(), "min": opt.MinLength(), "max": opt.MaxLength(),
			"ext": opt.Extension(), "hasext": c11b(opt.HasExtension()), "full": c11b(opt.OnlyFullExtension()),
			"circular": c11b(opt.Circular()), "batch": opt.BatchSize(), "workers": opt.ParallelWorkers(),
			"def_batch": def.BatchSize(), "def_workers": def.ParallelWorkers(), "def_ext": def.Extension(),
			"def_hasext": c11b(def.HasExtension()), "def_min": def.MinLength(), "def_max": def.MaxLength(),
			"def_ef": def.ForwardError(), "def_er": def.ReverseError(), "def_circular": c11b(def.Circular()),
			"def_full": c11b(def.OnlyFullExtension()),
		}}
	}
	return c11opObs{Kind: "panic", Err: "unknown op " + c.Op}
}

func init() {
	register("c11ops", func(in *bufio.Reader, out *bufio.Writer) error {
		log.StandardLogger().ExitFunc = func(int) { panic("log.Fatal") }
		return eachLine(in, out, func(c c11opCase) any { return c11opRun(c) })
	})
}
