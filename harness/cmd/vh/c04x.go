package main

// C04, round 3 — the glue around the four writers:
//   * the *ToFile / *ToStdout entry points (open flags: truncate / append, paired files) and the
//     universal writer WriteSequence (format decided from the first non-empty batch that ARRIVES);
//   * WriteSeqFileChunk driven directly with arbitrary chunk bytes, closing or not closing the sink;
//   * obiutils.OpenWritingFile / Wfile.WriteString;
//   * CSVHeader / CSVRecord under every column option, obicsv --auto (columns proposed from batch 0);
//   * records with qualities, zero-length sequences (skip), taxonomic annotations, many attribute types.

import (
	"bytes"
	"encoding/hex"
	"fmt"
	"os"
	"path/filepath"
	"sort"
	"strings"
	"time"

	"git.metabarcoding.org/obitools/obitools4/obitools4/pkg/obiformats"
	"git.metabarcoding.org/obitools/obitools4/obitools4/pkg/obiiter"
	"git.metabarcoding.org/obitools/obitools4/obitools4/pkg/obiseq"
	"git.metabarcoding.org/obitools/obitools4/obitools4/pkg/obiutils"
)

// the data of one record as the harness built it (strings in hex): what an independent oracle of
// CSVRecord needs
type c04rec struct {
	Id    string            `json:"id"`
	Count int               `json:"count"`
	Taxid int               `json:"taxid"`
	HasSN bool              `json:"has_sn"`
	SN    string            `json:"sn"`
	Def   string            `json:"def"`
	Attrs map[string]string `json:"attrs"` // key (hex) -> fmt %v of the value (hex); maps are listed in Maps
	Maps  []string          `json:"maps"`
	Seq   string            `json:"seq"`
	HasQ  bool              `json:"has_q"`
	Qual  string            `json:"qual"` // ASCII qualities (shift 33)
}

var c04ids = []string{"", "a/1;", "x|y|", "é", "id:", "%d%s", "_"}

func c04decorate(c c04case, s *obiseq.BioSequence, b, i int) {
	if c.Tax {
		switch (b + i) % 3 {
		case 0:
			s.SetTaxid(9606 + i)
			s.SetAttribute("scientific_name", "Homo sapiens, L.")
			s.SetCount(b + 2*i + 2)
		case 1:
			s.SetTaxid(33090 + b)
		case 2:
			s.SetCount(7)
		}
	}
	if c.Var {
		s.SetDefinition([]string{"100% sure %s %d %!", "", "déjà vu", "a b\tc"}[(b+i)%4])
		s.SetAttribute("f", 1.5+float64(i))
		s.SetAttribute("ok", (b+i)%2 == 0)
		s.SetAttribute("l", []int{b, i})
		if i%2 == 0 {
			s.SetAttribute("clé, \"q\"", "v"+fmt.Sprint(b))
		}
		if b%2 == 1 {
			s.SetAttribute("zz_only_odd_batches", b)
		}
		if (b+i)%3 == 0 {
			s.SetAttribute("nested", map[string]interface{}{"a": []string{"x", "y"}, "b": map[string]int{"c": 1}})
		}
		s.SetAttribute("count", 3+i) // a record that already carries the tool's own annotation
	}
}

func c04csvopts(c c04case, _ bool) []obiformats.WithOption {
	opts := []obiformats.WithOption{}
	for _, l := range c.Csv {
		switch l {
		case 'i':
			opts = append(opts, obiformats.CSVId(false))
		case 'c':
			opts = append(opts, obiformats.CSVCount(true))
		case 't':
			opts = append(opts, obiformats.CSVTaxon(true))
		case 'd':
			opts = append(opts, obiformats.CSVDefinition(true))
		case 'k':
			opts = append(opts, obiformats.CSVKeys([]string{"n", "f", "ok", "absent", "scientific_name", "k"}))
		case 's':
			opts = append(opts, obiformats.CSVSequence(false))
		case 'q':
			opts = append(opts, obiformats.CSVQuality(true))
		case 'a':
			opts = append(opts, obiformats.CSVAutoColumn(true))
		case 'N':
			opts = append(opts, obiformats.CSVNAValue("-"))
		}
	}
	return opts
}

// csv auto: what the columns must be (computed here from batch 0 alone, with sort.Strings; the real
// WriteCSV computes them from the first batch of the re-sequenced input)
func c04auto(c c04case, o *c04obs, fopt obiformats.Options, mk func(int) obiiter.BioSequenceBatch, n int) {
	if !strings.Contains(c.Csv, "a") {
		return
	}
	keys := []string{}
	if n > 0 {
		seen := map[string]bool{}
		for _, s := range mk(0).Slice() {
			for k, v := range s.Annotations() {
				if !obiutils.IsAMap(v) && !seen[k] {
					seen[k] = true
					keys = append(keys, k)
				}
			}
		}
	}
	o.AutoKeys = c04hexs(keys)
	sort.Strings(keys)
	obiformats.CSVKeys(keys)(fopt)
}

func c04info(c c04case, o *c04obs, fopt obiformats.Options, mk func(int) obiiter.BioSequenceBatch, n int) {
	for b := 0; b < n; b++ {
		rl := []c04rec{}
		for _, s := range mk(b).Slice() {
			if s.Len() == 0 {
				o.EmptyIds = append(o.EmptyIds, s.Id())
			}
			if c.Writer != "csv" {
				continue
			}
			r := c04rec{Id: hex.EncodeToString([]byte(s.Id())), Count: s.Count(), Taxid: s.Taxid(),
				Def: hex.EncodeToString([]byte(s.Definition())), Seq: hex.EncodeToString(s.Sequence()),
				Attrs: map[string]string{}, Maps: []string{}}
			if s.HasAnnotation() {
				for k, v := range s.Annotations() {
					hk := hex.EncodeToString([]byte(k))
					if obiutils.IsAMap(v) {
						r.Maps = append(r.Maps, hk)
					}
					r.Attrs[hk] = hex.EncodeToString([]byte(fmt.Sprintf("%v", v)))
				}
			}
			if sn, ok := s.GetAttribute("scientific_name"); ok {
				r.HasSN, r.SN = true, hex.EncodeToString([]byte(fmt.Sprint(sn)))
			}
			if s.HasQualities() {
				r.HasQ = true
				q := s.Qualities()
				a := make([]byte, len(q))
				for k := range q {
					a[k] = q[k] + 33
				}
				r.Qual = hex.EncodeToString(a)
			}
			rl = append(rl, r)
		}
		if c.Writer == "csv" {
			o.Info = append(o.Info, rl)
		}
	}
}

func c04old(n int, tag string) []byte {
	b := []byte{}
	for len(b) < n {
		b = append(b, []byte(">old-"+tag+" {}\nnnnnnnnn\n")...)
	}
	return b[:n]
}

// c04runFile: the *ToFile / *ToStdout entry points. The files are read when the result iterator
// has ended (they must be complete and closed then) and once more after WaitForLastPipe.
func c04runFile(c c04case, o *c04obs, mk func(int) obiiter.BioSequenceBatch, n int) {
	dir, err := os.MkdirTemp("", "c04f")
	if err != nil {
		o.Kind, o.Err = "crash", err.Error()
		return
	}
	defer os.RemoveAll(dir)
	ext := ""
	if c.Compressed {
		ext = ".gz"
	}
	fn := filepath.Join(dir, "out.dat"+ext)
	rn := filepath.Join(dir, "out_rev.dat"+ext)
	names := []string{fn}
	if c.Paired {
		names = append(names, rn)
	}
	if c.Old > 0 {
		for k, name := range names {
			old := c04old(c.Old+k, fmt.Sprint(k))
			os.WriteFile(name, old, 0o660)
			o.OldHex = append(o.OldHex, hex.EncodeToString(old))
		}
	}
	batches := make([]obiiter.BioSequenceBatch, n)
	for b := 0; b < n; b++ {
		batches[b] = mk(b)
		if c.Paired {
			// the mate of record i of batch b: another record (other id suffix, other sequence)
			rc := c
			rev := c04batchN(rc, b+100, batches[b].Len(), b, 0, 0)
			sl := batches[b].Slice()
			rsl := rev.Slice()
			for i := range sl {
				sl[i].PairTo(rsl[i])
			}
			o.RChunks = append(o.RChunks, hex.EncodeToString(c04format(c, obiiter.MakeBioSequenceBatch("verif", b+boolInt(c.Writer == "csv"), rsl))))
		}
	}
	if c.Paired && c.Writer == "csv" {
		o.RHeader = o.Header
	}
	input := obiiter.MakeIBioSequence()
	if c.Paired {
		input.MarkAsPaired()
	}
	go func() {
		for _, b := range c.Arrival {
			input.Push(batches[b])
		}
		input.Close()
	}()
	opts := append(c04opts(c), obiformats.OptionsParallelWorkers(c.Workers), obiformats.OptionsCompressed(c.Compressed))
	if c.Append {
		opts = append(opts, obiformats.OptionsAppendFile(true))
	}
	if c.Paired {
		opts = append(opts, obiformats.WritePairedReadsTo(rn))
	}
	var res obiiter.IBioSequence
	if c.Mode == "stdout" {
		f, e := os.OpenFile(fn, os.O_WRONLY|os.O_CREATE|os.O_TRUNC, 0o660)
		if e != nil {
			o.Kind, o.Err = "crash", e.Error()
			return
		}
		saved := os.Stdout
		os.Stdout = f
		switch c.Writer {
		case "fasta":
			res, err = obiformats.WriteFastaToStdout(input, opts...)
		case "fastq":
			res, err = obiformats.WriteFastqToStdout(input, opts...)
		case "json":
			res, err = obiformats.WriteJSONToStdout(input, opts...)
		case "csv":
			res, err = obiformats.WriteCSVToStdout(input, opts...)
		case "auto":
			res, err = obiformats.WriteSequencesToStdout(input, opts...)
		}
		os.Stdout = saved
		defer f.Close()
	} else {
		switch c.Writer {
		case "fasta":
			res, err = obiformats.WriteFastaToFile(input, fn, opts...)
		case "fastq":
			res, err = obiformats.WriteFastqToFile(input, fn, opts...)
		case "json":
			res, err = obiformats.WriteJSONToFile(input, fn, opts...)
		case "csv":
			res, err = obiformats.WriteCSVToFile(input, fn, opts...)
		case "auto":
			res, err = obiformats.WriteSequencesToFile(input, fn, opts...)
		}
	}
	if err != nil {
		o.Err = err.Error()
	}
	if res == obiiter.NilIBioSequence {
		o.Kind = "hang"
		o.Err = "no result iterator: " + o.Err
		return
	}
	consumed := make(chan struct{})
	go func() { res.Consume(); close(consumed) }()
	tmo := time.After(15 * time.Second)
	select {
	case <-consumed:
	case <-tmo:
		o.Kind, o.Err, c04poisoned = "hang", "result iterator never finished", true
		return
	}
	read := func() []string {
		r := []string{}
		for _, name := range names {
			b, e := os.ReadFile(name)
			if e != nil {
				r = append(r, "")
				o.Err += " " + e.Error()
			} else {
				r = append(r, hex.EncodeToString(b))
			}
		}
		return r
	}
	o.Files = read()
	all := make(chan struct{})
	go func() { obiiter.WaitForLastPipe(); close(all) }()
	select {
	case <-all:
	case <-tmo:
		o.Kind, o.Err, c04poisoned = "hang", "pipes never unregistered", true
	}
	o.FilesFinal = read()
	o.Closes = 1
	o.ClosedAtIterEnd = true
}

func boolInt(b bool) int {
	if b {
		return 1
	}
	return 0
}

// c04runRaw: WriteSeqFileChunk driven directly (mode chunks) and OpenWritingFile (mode wfile)
func c04runRaw(c c04case) (o c04obs) {
	o.Kind = "ok"
	chunks := make([][]byte, len(c.RawChunks))
	for i, h := range c.RawChunks {
		chunks[i], _ = hex.DecodeString(h)
	}
	o.Chunks = c.RawChunks
	if c.Mode == "chunks" {
		sink := &c04sink{done: make(chan struct{})}
		ch := obiformats.WriteSeqFileChunk(sink, c.ToBeClosed)
		go func() {
			for _, k := range c.Arrival {
				ch <- obiformats.SeqFileChunk{Source: "verif", Raw: bytes.NewBuffer(chunks[k]), Order: k}
			}
			close(ch)
		}()
		all := make(chan struct{})
		go func() { obiiter.WaitForLastPipe(); close(all) }()
		select {
		case <-all:
		case <-time.After(15 * time.Second):
			o.Kind, o.Err, c04poisoned = "hang", "pipes never unregistered", true
		}
		sink.mu.Lock()
		o.Out = hex.EncodeToString(sink.buf)
		o.Closes, o.LateWrite = sink.closes, sink.late
		sink.mu.Unlock()
		o.ClosedAtIterEnd = o.Closes > 0
		return
	}
	// wfile
	dir, err := os.MkdirTemp("", "c04w")
	if err != nil {
		o.Kind, o.Err = "crash", err.Error()
		return
	}
	defer os.RemoveAll(dir)
	fn := filepath.Join(dir, "w.dat")
	if c.Old > 0 {
		old := c04old(c.Old, "w")
		os.WriteFile(fn, old, 0o660)
		o.OldHex = []string{hex.EncodeToString(old)}
	}
	w, err := obiutils.OpenWritingFile(fn, c.Compressed, c.Append)
	if err != nil {
		o.Kind, o.Err = "crash", err.Error()
		return
	}
	for i, k := range c.Arrival {
		var e error
		if i%2 == 0 {
			_, e = w.Write(chunks[k])
		} else {
			_, e = w.WriteString(string(chunks[k]))
		}
		if e != nil {
			o.Err += " " + e.Error()
		}
	}
	if e := w.Close(); e != nil {
		o.Err += " close: " + e.Error()
	}
	b, _ := os.ReadFile(fn)
	o.Files = []string{hex.EncodeToString(b)}
	o.FilesFinal = o.Files
	o.Closes = 1
	o.ClosedAtIterEnd = true
	return
}
