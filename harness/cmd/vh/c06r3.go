// c06 round 3 — the pieces of the dereplication driven one by one (anchored code that IUniqueSequence does not
// reach, or reaches with one fixed argument only):
//
//	classifier : a history of calls (Code / Value / Reset / Clone) on ONE classifier object
//	             (AnnotationClassifier, SequenceClassifier, HashClassifier)
//	subchunk   : obichunk.ISequenceSubChunk on explicit batches with 0 (= default), 1 or several workers
//	mergepipe  : obiiter.MergePipe (= IMergeSequenceBatch) on explicit classes, with and without a batch size
//	merge2     : BioSequence.Merge(tomerge, na, inplace, statsOn) on two records, in place or on a copy
//	options    : a history of option setters on one obichunk.Options, read through every accessor
//	distribute : IBioSequence.Distribute with and without a batch size, every output drained
//
// and, for IUniqueSequence itself, the options given as a history of calls (c06OptHistory).
package main

import (
	"fmt"
	"sort"
	"sync"
	"time"

	"git.metabarcoding.org/obitools/obitools4/obitools4/pkg/obichunk"
	"git.metabarcoding.org/obitools/obitools4/obitools4/pkg/obiiter"
	"git.metabarcoding.org/obitools/obitools4/obitools4/pkg/obiseq"
)

type c06Step struct {
	Op string `json:"op"` // code | value | badvalue | reset | clone
	I  int    `json:"i"`  // code: index of the record
	Of int    `json:"of"` // value: index of the earlier code step whose result is decoded
}

type c06StepObs struct {
	Kind  string  `json:"kind"` // ok | panic | fatal
	Err   string  `json:"err,omitempty"`
	Code  *int    `json:"code,omitempty"`
	Value *string `json:"value,omitempty"`
}

type c06Opt struct {
	Op   string   `json:"op"`
	Keys []string `json:"keys,omitempty"`
	N    int      `json:"n,omitempty"`
	S    string   `json:"s,omitempty"`
}

// c06Protect runs f in a goroutine of its own: a panic is recovered, an intercepted log.Fatal (runtime.Goexit in the
// logger's ExitFunc) ends that goroutine only.
func c06Protect(f func()) (kind string, msg string) {
	done := make(chan [2]string, 1)
	go func() {
		finished := false
		defer func() {
			if r := recover(); r != nil {
				done <- [2]string{"panic", fmt.Sprint(r)}
				return
			}
			if !finished {
				done <- [2]string{"fatal", "log.Fatal"}
			}
		}()
		f()
		finished = true
		done <- [2]string{"ok", ""}
	}()
	select {
	case r := <-done:
		return r[0], r[1]
	case <-time.After(20 * time.Second):
		return "timeout", ""
	}
}

func c06MakeClassifier(c c06Case) *obiseq.BioSequenceClassifier {
	switch c.CKind {
	case "annotation":
		return obiseq.AnnotationClassifier(c.CKey, c.NA)
	case "hash":
		return obiseq.HashClassifier(c.CSize)
	case "dual":
		return obiseq.DualAnnotationClassifier(c.CKey, c.CKey2, c.NA)
	default:
		return obiseq.SequenceClassifier()
	}
}

func c06StatsOn(c c06Case) obiseq.StatsOnDescriptions {
	return obichunk.MakeOptions([]obichunk.WithOption{obichunk.OptionStatOn(c.Stats...)}).StatsOn()
}

// the options of a dereplication case as a history of calls: the opposite choice first, one call per key
func c06OptHistory(c c06Case) []obichunk.WithOption {
	opts := []obichunk.WithOption{}
	if c.NoSingleton {
		opts = append(opts, obichunk.OptionsWithSingleton(), obichunk.OptionsNoSingleton())
	} else {
		opts = append(opts, obichunk.OptionsNoSingleton(), obichunk.OptionsWithSingleton())
	}
	if c.Disk {
		opts = append(opts, obichunk.OptionSortOnMemory(), obichunk.OptionSortOnDisk())
	} else {
		opts = append(opts, obichunk.OptionSortOnDisk(), obichunk.OptionSortOnMemory())
	}
	opts = append(opts, obichunk.OptionNAValue("<other>"), obichunk.OptionBatchCount(3), obichunk.OptionsParallelWorkers(1))
	for _, k := range c.Stats {
		opts = append(opts, obichunk.OptionStatOn(k))
	}
	opts = append(opts, obichunk.OptionStatOn())
	for _, k := range c.Cats {
		opts = append(opts, obichunk.OptionSubCategory(k))
	}
	opts = append(opts, obichunk.OptionSubCategory(), obichunk.OptionsBatchSize(7),
		obichunk.OptionNAValue(c.NA), obichunk.OptionBatchCount(c.Chunks), obichunk.OptionsParallelWorkers(c.Workers))
	return opts
}

func c06Ids(b obiseq.BioSequenceSlice) []string {
	ids := make([]string, 0, len(b))
	for _, s := range b {
		ids = append(ids, s.Id())
	}
	return ids
}

func c06Feed(c c06Case, data obiseq.BioSequenceSlice) obiiter.IBioSequence {
	input := obiiter.MakeIBioSequence()
	input.Add(1)
	go func() { input.WaitAndClose() }()
	go func() {
		for o, b := range c.Batches {
			sl := make(obiseq.BioSequenceSlice, 0, len(b))
			for _, i := range b {
				sl = append(sl, data[i])
			}
			input.Push(obiiter.MakeBioSequenceBatch("c06", o, sl))
		}
		input.Done()
	}()
	return input
}

func c06r3(c c06Case, data obiseq.BioSequenceSlice) c06Obs {
	res := c06Obs{Kind: "error", Err: "unknown op " + c.Op}
	kind, msg := c06Protect(func() {
		switch c.Op {
		case "classifier":
			res = c06Classifier(c, data)
		case "subchunk":
			out, err := obichunk.ISequenceSubChunk(c06Feed(c, data), c06MakeClassifier(c), c.NWorkers)
			if err != nil {
				res = c06Obs{Kind: "error", Err: err.Error()}
				return
			}
			ob := [][]string{}
			for out.Next() {
				ob = append(ob, c06Ids(out.Get().Slice()))
			}
			res = c06Obs{Kind: "ok", OBatches: ob}
		case "mergepipe":
			var pipe obiiter.Pipeable
			if c.Size > 0 {
				pipe = obiiter.MergePipe(c.NA, c06StatsOn(c), c.Size)
			} else {
				pipe = obiiter.MergePipe(c.NA, c06StatsOn(c))
			}
			out := pipe(c06Feed(c, data))
			ob := [][]string{}
			recs := []c06Out{}
			for out.Next() {
				b := out.Get().Slice()
				ob = append(ob, c06Ids(b))
				for _, s := range b {
					recs = append(recs, c06Observe(s))
				}
			}
			res = c06Obs{Kind: "ok", OBatches: ob, Recs: recs, NRecs: len(recs)}
		case "merge2":
			a, b := data[0], data[1]
			if obiseq.BioseqCount(a) != a.Count() {
				res = c06Obs{Kind: "error", Err: "BioseqCount differs from Count"}
				return
			}
			m := a.Merge(b, c.NA, c.Inplace, c06StatsOn(c))
			res = c06Obs{Kind: "ok", Recs: []c06Out{c06Observe(m)}, NRecs: 1, Same: m == a,
				After: []c06TRec{c06TypedRec(a), c06TypedRec(b)}}
		case "distribute":
			var dist obiiter.IDistribute
			if c.Size > 0 {
				dist = c06Feed(c, data).Distribute(c06MakeClassifier(c), c.Size)
			} else {
				dist = c06Feed(c, data).Distribute(c06MakeClassifier(c))
			}
			var mu sync.Mutex
			var wg sync.WaitGroup
			ob := [][]string{}
			keys := []string{}
			bad := ""
			for key := range dist.News() {
				wg.Add(1)
				go func(key int) {
					defer wg.Done()
					out, err := dist.Outputs(key)
					if err != nil {
						mu.Lock()
						bad = err.Error()
						mu.Unlock()
						return
					}
					ids := []string{}
					for out.Next() {
						ids = append(ids, c06Ids(out.Get().Slice())...)
					}
					mu.Lock()
					ob = append(ob, ids)
					keys = append(keys, dist.Classifier().Value(key))
					mu.Unlock()
				}(key)
			}
			wg.Wait()
			if _, err := dist.Outputs(-12345); err == nil {
				bad = "Outputs of an unknown code gives no error"
			}
			if bad != "" {
				res = c06Obs{Kind: "error", Err: bad}
				return
			}
			res = c06Obs{Kind: "ok", OBatches: ob, Keys: keys}
		case "options":
			res = c06Options(c)
		}
	})
	if kind != "ok" {
		return c06Obs{Kind: kind, Err: msg}
	}
	return res
}

func c06Classifier(c c06Case, data obiseq.BioSequenceSlice) c06Obs {
	cl := c06MakeClassifier(c)
	steps := make([]c06StepObs, len(c.Hist))
	codes := make([]int, len(c.Hist))
	for n, st := range c.Hist {
		o := c06StepObs{}
		o.Kind, o.Err = c06Protect(func() {
			switch st.Op {
			case "code":
				k := cl.Code(data[st.I])
				codes[n] = k
				o.Code = &k
			case "value":
				v := cl.Value(codes[st.Of])
				o.Value = &v
			case "badvalue": // a code that was never issued
				v := cl.Value(1000000 + st.Of)
				o.Value = &v
			case "reset":
				cl.Reset()
			case "clone":
				cl = cl.Clone()
			}
		})
		steps[n] = o
	}
	return c06Obs{Kind: "ok", Steps: steps, Err: cl.Type}
}

func c06Options(c c06Case) c06Obs {
	setters := []obichunk.WithOption{}
	for _, o := range c.Opts {
		switch o.Op {
		case "disk":
			setters = append(setters, obichunk.OptionSortOnDisk())
		case "memory":
			setters = append(setters, obichunk.OptionSortOnMemory())
		case "cat":
			setters = append(setters, obichunk.OptionSubCategory(o.Keys...))
		case "na":
			setters = append(setters, obichunk.OptionNAValue(o.S))
		case "stat":
			setters = append(setters, obichunk.OptionStatOn(o.Keys...))
		case "chunks":
			setters = append(setters, obichunk.OptionBatchCount(o.N))
		case "workers":
			setters = append(setters, obichunk.OptionsParallelWorkers(o.N))
		case "batchsize":
			setters = append(setters, obichunk.OptionsBatchSize(o.N))
		case "nosingleton":
			setters = append(setters, obichunk.OptionsNoSingleton())
		case "withsingleton":
			setters = append(setters, obichunk.OptionsWithSingleton())
		}
	}
	opt := obichunk.MakeOptions(setters)
	stats := [][]string{}
	for name, d := range opt.StatsOn() {
		stats = append(stats, []string{name, d.Name, d.Key})
	}
	sort.Slice(stats, func(i, j int) bool { return stats[i][0] < stats[j][0] })
	get := map[string]interface{}{
		"cats": append([]string{}, opt.Categories()...), "na": opt.NAValue(), "chunks": opt.BatchCount(), "batchsize": opt.BatchSize(),
		"workers": opt.ParallelWorkers(), "disk": opt.SortOnDisk(), "nosingleton": opt.NoSingleton(), "stats": stats,
	}
	// PopCategories: the categories one by one, in order, then ""
	pops := []string{}
	n := len(opt.Categories())
	for i := 0; i <= n; i++ {
		pops = append(pops, opt.PopCategories())
	}
	get["pops"] = pops
	get["cats_after_pops"] = append([]string{}, opt.Categories()...)
	return c06Obs{Kind: "ok", Get: get}
}
