package main

// vh c08 — runs the REAL obialign.PEAlign and obipairing.AssemblePESequences on read pairs with
// ONE arena and ONE shift map reused from case to case (as a pairing worker does), and exports, per
// case, the pairing score of every (A[i], B[j]) and the gap penalty as the aligner computes them.

import (
	"bufio"
	"fmt"
	"sort"

	"git.metabarcoding.org/obitools/obitools4/obitools4/pkg/obialign"
	"git.metabarcoding.org/obitools/obitools4/obitools4/pkg/obikmer"
	"git.metabarcoding.org/obitools/obitools4/obitools4/pkg/obiseq"
	"git.metabarcoding.org/obitools/obitools4/obitools4/pkg/obitools/obipairing"
)

type c08case struct {
	A     string  `json:"a"`
	QA    []int   `json:"qa"`
	B     string  `json:"b"`
	QB    []int   `json:"qb"`
	Fast  bool    `json:"fast"`
	Rel   bool    `json:"rel"`
	Delta int     `json:"delta"`
	Gap   float64 `json:"gap"`
	Scale float64 `json:"scale"`
	MinOv int     `json:"minov"`
	MinId float64 `json:"minid"`
	Mat   bool    `json:"mat"`   // export the score matrix
	Fills bool    `json:"fills"` // also run the two fills + backtracking alone (fresh matrices)
	Fresh bool    `json:"fresh"` // use a fresh arena for this case (to compare with the reused one)
	Kind  string  `json:"kind"`  // "" (a read pair) | "tables" (dump of the tables behind the model, see c08tables.go)
	AnnA  map[string]any `json:"anna"` // annotations read A already carries (e.g. those of a previous obipairing run)
	API   bool    `json:"api"`   // also call the other exported entry points of the anchored files (c08api.go)
	Cmp   bool    `json:"cmp"`   // run the pair a second time with a FRESH arena and a FRESH shift map (observation "fresh")
}

// what must not depend on the history of the arena / shift map
type c08fresh struct {
	Kind      string  `json:"kind"`
	Err       string  `json:"err,omitempty"`
	IsLeft    bool    `json:"isleft"`
	Score     int     `json:"score"`
	Path      []int   `json:"path"`
	FastCount int     `json:"fastcount"`
	Over      int     `json:"over"`
	FastScore float64 `json:"fastscore"`
	Asm       *c08asm `json:"asm,omitempty"`
}

// the 4-mer vote called directly (obikmer.Index4mer + FastShiftFourMer)
type c08vote struct {
	Kind  string  `json:"kind"`
	Err   string  `json:"err,omitempty"`
	Shift int     `json:"shift"`
	Count int     `json:"count"`
	Score float64 `json:"score"`
	// the same call on the SHARED shift map (as left by the pairs processed before)
	SShift int     `json:"sshift"`
	SCount int     `json:"scount"`
	SScore float64 `json:"sscore"`
	SLeft  int     `json:"sleft"` // entries left in the shared map after the call (must be 0)
	KA     []int   `json:"ka"`    // Encode4mer(A), Encode4mer(B)
	KB     []int   `json:"kb"`
}

type c08asm struct {
	Kind  string         `json:"kind"` // ok | panic
	Err   string         `json:"err,omitempty"`
	Seq   string         `json:"seq"`
	Qual  []int          `json:"qual"`
	Annot map[string]any `json:"annot"`
}

type c08obs struct {
	Kind      string  `json:"kind"` // ok | panic
	Err       string  `json:"err,omitempty"`
	IsLeft    bool    `json:"isleft"`
	Score     int     `json:"score"`
	Path      []int   `json:"path"`
	FastCount int     `json:"fastcount"`
	Over      int     `json:"over"`
	FastScore float64 `json:"fastscore"`
	GapPen    int     `json:"gappen"`
	Sc        []int   `json:"sc,omitempty"` // row-major la x lb: sc[i*lb+j] = score(A[i],B[j])
	Mq        []int   `json:"mq,omitempty"` // row-major la x lb: match table entry for (qA[i], qB[j])
	Mm        []int   `json:"mm,omitempty"` // row-major la x lb: mismatch table entry for (qA[i], qB[j]) (score of a/c at scale 1)
	ScoreL    int     `json:"scoreL"`
	PathL     []int   `json:"pathL,omitempty"`
	ScoreR    int     `json:"scoreR"`
	PathR     []int   `json:"pathR,omitempty"`
	Asm       *c08asm `json:"asm,omitempty"`
	Fresh     *c08fresh `json:"fresh,omitempty"`
	Vote      *c08vote  `json:"vote,omitempty"`
	Api       *c08api   `json:"api,omitempty"`
}

var c08arena obialign.PEAlignArena
var c08shifts map[int]int
var c08arenaOK = false

func c08bytes(q []int) []byte {
	r := make([]byte, len(q))
	for i, v := range q {
		r[i] = byte(v)
	}
	return r
}

func c08ints(q []byte) []int {
	r := make([]int, len(q))
	for i, v := range q {
		r[i] = int(v)
	}
	return r
}

func c08mk(id, s string, q []int) *obiseq.BioSequence {
	return obiseq.NewBioSequenceWithQualities(id, []byte(s), "", c08bytes(q))
}

// c08mkA is read A of a case, with the annotations the case gives it.
func c08mkA(id string, c c08case) *obiseq.BioSequence {
	sa := c08mk(id, c.A, c.QA)
	for k, v := range c.AnnA {
		sa.SetAttribute(k, v)
	}
	return sa
}

func c08align(c c08case, o *c08obs, arena obialign.PEAlignArena, shifts *map[int]int) {
	defer func() {
		if r := recover(); r != nil {
			o.Kind = "panic"
			o.Err = fmt.Sprint(r)
			c08arenaOK = false
		}
	}()
	sa, sb := c08mk("A", c.A, c.QA), c08mk("B", c.B, c.QB)
	isLeft, score, path, fc, over, fs := obialign.PEAlign(sa, sb, c.Gap, c.Scale, c.Fast, c.Delta, c.Rel, arena, shifts)
	o.Kind = "ok"
	o.IsLeft, o.Score, o.FastCount, o.Over, o.FastScore = isLeft, score, fc, over, fs
	o.Path = append([]int{}, path...)
}

func c08assemble(c c08case, arena obialign.PEAlignArena, shifts *map[int]int) (a *c08asm) {
	a = &c08asm{}
	defer func() {
		if r := recover(); r != nil {
			a.Kind = "panic"
			a.Err = fmt.Sprint(r)
			c08arenaOK = false
		}
	}()
	sa, sb := c08mkA("A", c), c08mk("B", c.B, c.QB)
	cons := obipairing.AssemblePESequences(sa, sb, c.Gap, c.Scale, c.Delta, c.MinOv, c.MinId, true, false,
		c.Fast, c.Rel, arena, shifts)
	a.Kind = "ok"
	a.Seq = string(cons.Sequence())
	a.Qual = c08ints(cons.Qualities())
	a.Annot = c08annot(cons.Annotations())
	return a
}

// c08annot projects the annotations of a consensus: the pairing_mismatches map is reduced to its number of entries.
func c08annot(an map[string]any) map[string]any {
	r := map[string]any{}
	keys := []string{}
	for k := range an {
		keys = append(keys, k)
	}
	sort.Strings(keys)
	for _, k := range keys {
		v := an[k]
		switch t := v.(type) {
		case map[string]int:
			r[k] = len(t)
		default:
			r[k] = v
		}
	}
	return r
}

func c08vote_(c c08case) (v *c08vote) {
	v = &c08vote{Kind: "ok"}
	defer func() {
		if r := recover(); r != nil {
			v.Kind = "panic"
			v.Err = fmt.Sprint(r)
			c08arenaOK = false
		}
	}()
	sa, sb := c08mk("A", c.A, c.QA), c08mk("B", c.B, c.QB)
	v.KA = c08ints(obikmer.Encode4mer(sa, nil))
	v.KB = c08ints(obikmer.Encode4mer(sb, nil))
	index := obikmer.Index4mer(sa, nil, nil)
	m := make(map[int]int)
	v.Shift, v.Count, v.Score = obikmer.FastShiftFourMer(index, &m, sa.Len(), sb, c.Rel, nil)
	v.SShift, v.SCount, v.SScore = obikmer.FastShiftFourMer(index, &c08shifts, sa.Len(), sb, c.Rel, nil)
	v.SLeft = len(c08shifts)
	return v
}

func c08run(c c08case) any {
	if c.Kind == "tables" {
		return c08tables()
	}
	o := &c08obs{}
	if len(c.A) != len(c.QA) || len(c.B) != len(c.QB) {
		o.Kind = "badcase"
		return o
	}
	if !c08arenaOK {
		c08arena = obialign.MakePEAlignArena(150, 150)
		c08shifts = make(map[int]int)
		c08arenaOK = true
	}
	arena, shifts := c08arena, &c08shifts
	if c.Fresh {
		arena = obialign.MakePEAlignArena(len(c.A), len(c.B))
		m := make(map[int]int)
		shifts = &m
	}
	o.GapPen = obialign.VerifGapPenalty(c.Gap, c.Scale)
	la, lb := len(c.A), len(c.B)
	// the aligner sees lower-cased bases (BioSequence.SetSequence lower-cases)
	sa, sb := c08mk("A", c.A, c.QA), c08mk("B", c.B, c.QB)
	ra, rb := sa.Sequence(), sb.Sequence()
	if c.Mat {
		o.Sc = make([]int, la*lb)
		o.Mq = make([]int, la*lb)
		o.Mm = make([]int, la*lb)
		for i := 0; i < la; i++ {
			for j := 0; j < lb; j++ {
				o.Sc[i*lb+j] = obialign.VerifPairingScore(ra[i], byte(c.QA[i]), rb[j], byte(c.QB[j]), c.Scale)
				o.Mq[i*lb+j] = obialign.VerifMatchScore(byte(c.QA[i]), byte(c.QB[j]))
				o.Mm[i*lb+j] = obialign.VerifMismatchScore(byte(c.QA[i]), byte(c.QB[j]))
			}
		}
	}
	c08align(c, o, arena, shifts)
	if c.Fills && la > 0 && lb > 0 {
		o.ScoreL, o.PathL = obialign.VerifFillLeft(ra, c08bytes(c.QA), rb, c08bytes(c.QB), c.Gap, c.Scale)
		o.ScoreR, o.PathR = obialign.VerifFillRight(ra, c08bytes(c.QA), rb, c08bytes(c.QB), c.Gap, c.Scale)
	}
	if o.Kind == "ok" {
		if !c08arenaOK {
			c08arena = obialign.MakePEAlignArena(150, 150)
			c08shifts = make(map[int]int)
			c08arenaOK = true
			if !c.Fresh {
				arena, shifts = c08arena, &c08shifts
			}
		}
		o.Asm = c08assemble(c, arena, shifts)
	}
	if c.Cmp && la > 0 && lb > 0 {
		fa := obialign.MakePEAlignArena(la, lb)
		fm := make(map[int]int)
		fo := &c08obs{}
		c08align(c, fo, fa, &fm)
		f := &c08fresh{Kind: fo.Kind, Err: fo.Err, IsLeft: fo.IsLeft, Score: fo.Score, Path: fo.Path,
			FastCount: fo.FastCount, Over: fo.Over, FastScore: fo.FastScore}
		if fo.Kind == "ok" {
			fa2 := obialign.MakePEAlignArena(la, lb)
			fm2 := make(map[int]int)
			f.Asm = c08assemble(c, fa2, &fm2)
		}
		o.Fresh = f
		if c.Fast {
			if !c08arenaOK {
				c08arena = obialign.MakePEAlignArena(150, 150)
				c08shifts = make(map[int]int)
				c08arenaOK = true
			}
			o.Vote = c08vote_(c)
		}
	}
	if c.API && la > 0 && lb > 0 {
		var p []int
		if o.Kind == "ok" {
			p = o.Path
		}
		o.Api = c08apiRun(c, p)
	}
	return o
}

func init() {
	register("c08", func(in *bufio.Reader, out *bufio.Writer) error {
		return eachLine(in, out, c08run)
	})
}
