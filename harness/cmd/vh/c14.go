package main

// vh c14 — taxonomy queries on synthetic NCBI dumps.
// One case = one taxonomy (rows of nodes.dmp / names.dmp / merged.dmp) + queries. The dump files are
// written to a temporary directory and loaded with the REAL loader ncbitaxdump.LoadNCBITaxDump; every
// query runs the real pkg/obitax methods. Observations are taxids / booleans only.

import (
	"bufio"
	"fmt"
	"math"
	"os"
	"path/filepath"
	"regexp"
	"sort"
	"strconv"
	"strings"

	"git.metabarcoding.org/obitools/obitools4/obitools4/pkg/obiformats/ncbitaxdump"
	"git.metabarcoding.org/obitools/obitools4/obitools4/pkg/obiseq"
	"git.metabarcoding.org/obitools/obitools4/obitools4/pkg/obitax"
	log "github.com/sirupsen/logrus"
)

type c14node struct {
	Taxid  int    `json:"t"`
	Parent int    `json:"p"`
	Rank   string `json:"r"`
}

type c14name struct {
	Taxid int    `json:"t"`
	Name  string `json:"n"`
	Class string `json:"c"`
}

type c14seq struct {
	Taxid    *int           `json:"taxid"`    // nil: no taxid attribute
	Merged   map[string]int `json:"merged"`   // merged_taxid attribute (nil: absent)
	Restrict []int          `json:"restrict"` // obigrep -r ids (OR)
	Ignore   []int          `json:"ignore"`   // obigrep -i ids (NOT OR)
	Require  []string       `json:"require"`  // obigrep --require-rank (AND)
	AtRank   []string       `json:"atrank"`   // obiannotate --with-taxon-at-rank
	Slot     *int           `json:"slot"`     // value of attribute "clade" for IsSubCladeOfSlot("clade") (nil: attribute absent)
	SlotStr  *string        `json:"slotstr"`  // literal value of the attribute "clade" (overrides slot), e.g. "TX:12"
	Thr      []float64      `json:"thr"`      // round 2: thresholds at which Taxonomy.LCA(seq, thr) is run ...
	Reps     int            `json:"reps"`     // ... Reps times each on a fresh sequence (map iteration order varies): the SET of outcomes is observed
}

type c14case struct {
	Nodes   [][]any    `json:"nodes"` // [taxid, parent, rank]
	Names   [][]any    `json:"names"` // [taxid, name, class]
	Merged  [][2]int   `json:"merged"`
	OnlySN  bool       `json:"onlysn"`
	Pairs   [][2]int   `json:"pairs"`
	Paths   []int      `json:"paths"`
	Ranks   [][]any    `json:"ranks"` // [taxid, rank]
	Sets    [][]any    `json:"sets"`  // [taxid, [ids]]
	Resolve []int      `json:"resolve"`
	NamesQ  [][]any    `json:"namesq"` // [taxid, name]
	Seqs    []c14seq   `json:"seqs"`
	Raw     *[3]string `json:"raw"`     // optional: literal file contents (nodes, names, merged) instead of rows
	Forms   [][]any    `json:"forms"`   // round 2: [kind, value] arguments of Taxonomy.Taxon(interface{}): kind int|str|f64|i64|nil|bytes
	NamesM  [][]any    `json:"namesm"`  // round 2: [taxid, pattern] for IsNameMatching
	Loads   int        `json:"loads"`   // round 2: load the dump that many times and report the distinct sets of nodes left with a nil parent pointer
	Hist    []c14op    `json:"hist"`    // round 3: a history of operations on this one taxonomy object (c14r3.go)
	Again   bool       `json:"again"`   // round 3: run pairs and paths a second time after everything else (state left by the weighted LCA)
	Missing string     `json:"missing"` // round 3: file of the dump removed before loading
}

// codes: -1 = taxid unknown (Taxon returned an error), -2 = error return, -3 = panic / fatal
type c14pair struct {
	LCA int `json:"lca"`
	Sub int `json:"sub"`
}
type c14rank struct {
	At  int `json:"at"`  // taxid returned by TaxonAtRank (0 when nil)
	Nil int `json:"nil"` // 1 when TaxonAtRank returned nil
	Has int `json:"has"` // HasRankDefined
}
type c14seqobs struct {
	Valid    int            `json:"valid"`
	Restrict int            `json:"restrict"` // 0/1, -3 fatal (clade taxid unknown), -9 not asked
	Ignore   int            `json:"ignore"`
	Require  int            `json:"require"`
	SlotSub  int            `json:"slotsub"`
	AtRank   map[string]int `json:"atrank"`  // rank -> <rank>_taxid attribute; -9 = attribute not set; -3 fatal
	WLCA     int            `json:"wlca"`    // Taxonomy.LCA(seq, 1.0) taxid; -3 panic
	LCAAttr  int            `json:"lcaattr"` // attribute x_taxid after AddLCAWorker(.., "x", 1.0); -3 panic
	LCAErr   string         `json:"lcaerr"`
	Thr      [][]c14lca     `json:"thr"`   // per threshold: distinct outcomes over the repetitions, sorted
	NoTax    int            `json:"notax"` // AddLCAWorker on a sequence with neither taxid nor merged_taxid: taxid, -3 panic, -9 not run
}

// one outcome of Taxonomy.LCA(seq, thr)
type c14lca struct {
	T  int    `json:"t"`  // taxid; -4 nil taxon; -3 panic
	B  string `json:"b"`  // math.Float64bits(rans), decimal
	G  int    `json:"g"`  // granTotal
	WT int    `json:"wt"` // <slot>_taxid written by AddLCAWorker on the same sequence (-3 panic)
	WE string `json:"we"` // <slot>_error written by AddLCAWorker
}
type c14obs struct {
	Kind    string           `json:"kind"` // ok | loaderr | loadpanic
	Err     string           `json:"err,omitempty"`
	Len     int              `json:"len"`
	NAlias  int              `json:"nalias"`
	Pairs   []c14pair        `json:"pairs"`
	Paths   [][]int          `json:"paths"` // nil entry = unknown; [-2] = error
	Ranks   []c14rank        `json:"ranks"`
	Sets    []int            `json:"sets"`
	Resolve []int            `json:"resolve"`
	NamesQ  []int            `json:"namesq"`
	Seqs    []c14seqobs      `json:"seqs"`
	Forms   []int            `json:"forms"`
	NamesM  []int            `json:"namesm"`
	NilPar  [][]int          `json:"nilpar"` // distinct sorted lists of taxids whose Parent() is nil after loading (one per distinct outcome over Loads loads)
	Hist    []map[string]any `json:"hist,omitempty"`
	Pairs2  []c14pair        `json:"pairs2,omitempty"`
	Paths2  [][]int          `json:"paths2,omitempty"`
}

func init() {
	register("c14", func(in *bufio.Reader, out *bufio.Writer) error {
		log.StandardLogger().ExitFunc = func(int) { panic("log.Fatal") }
		return eachLine(in, out, func(c c14case) any { return c14run(c) })
	})
}

func toInt(v any) int {
	switch x := v.(type) {
	case float64:
		return int(x)
	case string:
		i, _ := strconv.Atoi(x)
		return i
	}
	return 0
}

func c14write(dir string, c c14case) error {
	var nb, mb, gb strings.Builder
	if c.Raw != nil {
		nb.WriteString(c.Raw[0])
		mb.WriteString(c.Raw[1])
		gb.WriteString(c.Raw[2])
	} else {
		// the NCBI layout: fields separated by "\t|\t", line terminated by "\t|\n"
		for _, n := range c.Nodes {
			fmt.Fprintf(&nb, "%d\t|\t%d\t|\t%s\t|\t\t|\t0\t|\t1\t|\t1\t|\t0\t|\t0\t|\t0\t|\t0\t|\t0\t|\t\t|\n", toInt(n[0]), toInt(n[1]), n[2].(string))
		}
		for _, n := range c.Names {
			uniq := ""
			if len(n) > 3 {
				uniq = n[3].(string)
			}
			layout := 0
			if len(n) > 4 {
				layout = toInt(n[4])
			}
			switch layout {
			case 1: // no blanks at all
				fmt.Fprintf(&mb, "%d|%s|%s|%s|\n", toInt(n[0]), n[1].(string), uniq, n[2].(string))
			case 2: // blanks instead of tabs, trailing blanks
				fmt.Fprintf(&mb, " %d | %s  |%s |  %s | \n", toInt(n[0]), n[1].(string), uniq, n[2].(string))
			default: // the NCBI layout
				fmt.Fprintf(&mb, "%d\t|\t%s\t|\t%s\t|\t%s\t|\n", toInt(n[0]), n[1].(string), uniq, n[2].(string))
			}
		}
		for _, m := range c.Merged {
			fmt.Fprintf(&gb, "%d\t|\t%d\t|\n", m[0], m[1])
		}
	}
	for fn, s := range map[string]string{"nodes.dmp": nb.String(), "names.dmp": mb.String(), "merged.dmp": gb.String()} {
		if err := os.WriteFile(filepath.Join(dir, fn), []byte(s), 0o644); err != nil {
			return err
		}
	}
	return nil
}

// guard runs f; a panic (or log.Fatal turned into a panic) yields onPanic.
func guardInt(onPanic int, f func() int) (r int) {
	defer func() {
		if e := recover(); e != nil {
			r = onPanic
		}
	}()
	return f()
}

func b2i14(b bool) int {
	if b {
		return 1
	}
	return 0
}

func c14run(c c14case) (o c14obs) {
	dir, err := os.MkdirTemp("", "c14tax")
	if err != nil {
		return c14obs{Kind: "loaderr", Err: err.Error()}
	}
	defer os.RemoveAll(dir)
	if err := c14write(dir, c); err != nil {
		return c14obs{Kind: "loaderr", Err: err.Error()}
	}
	if c.Missing != "" {
		os.Remove(filepath.Join(dir, c.Missing))
	}
	var tax *obitax.Taxonomy
	func() {
		defer func() {
			if e := recover(); e != nil {
				o = c14obs{Kind: "loadpanic", Err: fmt.Sprint(e)}
			}
		}()
		tax, err = ncbitaxdump.LoadNCBITaxDump(dir, c.OnlySN)
	}()
	if o.Kind != "" {
		return o
	}
	if err != nil {
		return c14obs{Kind: "loaderr", Err: err.Error()}
	}
	o.Kind = "ok"
	o.Len = tax.Len()
	o.NAlias = len(*tax.Alias())

	runPairs := func() []c14pair {
		var out []c14pair
		for _, p := range c.Pairs {
			var r c14pair
			t1, e1 := tax.Taxon(p[0])
			t2, e2 := tax.Taxon(p[1])
			if e1 != nil || e2 != nil {
				r = c14pair{-1, -1}
			} else {
				r.LCA = guardInt(-3, func() int {
					l, e := t1.LCA(t2)
					if e != nil {
						return -2
					}
					return l.Taxid()
				})
				r.Sub = guardInt(-3, func() int { return b2i14(t1.IsSubCladeOf(t2)) })
			}
			out = append(out, r)
		}
		return out
	}
	runPaths := func() [][]int {
		var out [][]int
		for _, a := range c.Paths {
			func() {
				defer func() {
					if e := recover(); e != nil {
						out = append(out, []int{-3})
					}
				}()
				p, e := tax.Path(a)
				if e != nil {
					if _, e0 := tax.Taxon(a); e0 != nil {
						out = append(out, nil)
					} else {
						out = append(out, []int{-2})
					}
					return
				}
				l := make([]int, 0, len(*p))
				for _, n := range *p {
					l = append(l, n.Taxid())
				}
				out = append(out, l)
			}()
		}
		return out
	}
	o.Pairs = runPairs()
	o.Paths = runPaths()
	for _, q := range c.Ranks {
		a, rk := toInt(q[0]), q[1].(string)
		t, e := tax.Taxon(a)
		if e != nil {
			o.Ranks = append(o.Ranks, c14rank{-1, 0, -1})
			continue
		}
		var r c14rank
		r.At = guardInt(-3, func() int {
			n := t.TaxonAtRank(rk)
			if n == nil {
				r.Nil = 1
				return 0
			}
			return n.Taxid()
		})
		r.Has = guardInt(-3, func() int { return b2i14(t.HasRankDefined(rk)) })
		o.Ranks = append(o.Ranks, r)
	}
	for _, q := range c.Sets {
		a := toInt(q[0])
		t, e := tax.Taxon(a)
		if e != nil {
			o.Sets = append(o.Sets, -1)
			continue
		}
		set := make(obitax.TaxonSet)
		for _, x := range q[1].([]any) {
			n, e := tax.Taxon(toInt(x))
			if e != nil {
				continue // an unknown id cannot be put into a TaxonSet
			}
			set.Inserts(n)
		}
		o.Sets = append(o.Sets, guardInt(-3, func() int { return b2i14(t.IsBelongingSubclades(&set)) }))
	}
	for _, a := range c.Resolve {
		t, e := tax.Taxon(a)
		if e != nil {
			o.Resolve = append(o.Resolve, -1)
		} else {
			o.Resolve = append(o.Resolve, t.Taxid())
		}
	}
	for _, q := range c.NamesQ {
		a, nm := toInt(q[0]), q[1].(string)
		t, e := tax.Taxon(a)
		if e != nil {
			o.NamesQ = append(o.NamesQ, -1)
			continue
		}
		o.NamesQ = append(o.NamesQ, guardInt(-3, func() int { return b2i14(t.IsNameEqual(nm)) }))
	}
	for _, q := range c.Forms {
		var arg any
		switch q[0].(string) {
		case "int":
			arg = toInt(q[1])
		case "str":
			arg = q[1].(string)
		case "f64":
			arg = q[1].(float64)
		case "i64":
			arg = int64(toInt(q[1]))
		case "bytes":
			arg = []byte(q[1].(string))
		case "nil":
			arg = nil
		}
		t, e := tax.Taxon(arg)
		if e != nil {
			o.Forms = append(o.Forms, -1)
		} else {
			o.Forms = append(o.Forms, t.Taxid())
		}
	}
	for _, q := range c.NamesM {
		a, pat := toInt(q[0]), q[1].(string)
		t, e := tax.Taxon(a)
		if e != nil {
			o.NamesM = append(o.NamesM, -1)
			continue
		}
		re, e2 := regexp.Compile(pat)
		if e2 != nil {
			o.NamesM = append(o.NamesM, -2)
			continue
		}
		o.NamesM = append(o.NamesM, guardInt(-3, func() int { return b2i14(t.IsNameMatching(re)) }))
	}
	if c.Loads > 0 {
		seen := map[string]bool{}
		for k := 0; k < c.Loads; k++ {
			tk := tax
			if k > 0 {
				var ek error
				func() {
					defer func() { recover() }()
					tk, ek = ncbitaxdump.LoadNCBITaxDump(dir, c.OnlySN)
				}()
				if ek != nil || tk == nil {
					continue
				}
			}
			l := []int{}
			for id, n := range *tk.TaxonSet() {
				if n.Parent() == nil {
					l = append(l, id)
				}
			}
			sort.Ints(l)
			key := fmt.Sprint(l)
			if !seen[key] {
				seen[key] = true
				o.NilPar = append(o.NilPar, l)
			}
		}
		sort.Slice(o.NilPar, func(i, j int) bool { return fmt.Sprint(o.NilPar[i]) < fmt.Sprint(o.NilPar[j]) })
	}
	for _, s := range c.Seqs {
		o.Seqs = append(o.Seqs, c14seqrun(tax, s))
	}
	if len(c.Hist) > 0 {
		o.Hist = c14hist(tax, c.Hist)
	}
	if c.Again {
		o.Pairs2 = runPairs()
		o.Paths2 = runPaths()
	}
	return o
}

func c14mkseq(s c14seq) *obiseq.BioSequence {
	seq := obiseq.NewBioSequence("s", []byte("acgt"), "")
	if s.Taxid != nil {
		seq.SetAttribute("taxid", *s.Taxid)
	}
	if s.Merged != nil {
		m := make(map[string]int, len(s.Merged))
		for k, v := range s.Merged {
			m[k] = v
		}
		seq.SetAttribute("merged_taxid", m)
	}
	if s.Slot != nil {
		seq.SetAttribute("clade", strconv.Itoa(*s.Slot))
	}
	if s.SlotStr != nil {
		seq.SetAttribute("clade", *s.SlotStr)
	}
	return seq
}

func c14seqrun(tax *obitax.Taxonomy, s c14seq) c14seqobs {
	var r c14seqobs
	r.Valid = guardInt(-3, func() int { return b2i14(tax.IsAValidTaxon()(c14mkseq(s))) })
	// the composition is the one of pkg/obitools/obigrep/options.go (Or of IsSubCladeOf; Not; And of HasRequiredRank)
	r.Restrict, r.Ignore, r.Require, r.SlotSub = -9, -9, -9, -9
	if len(s.Restrict) > 0 {
		r.Restrict = guardInt(-3, func() int {
			p := tax.IsSubCladeOf(s.Restrict[0])
			for _, t := range s.Restrict[1:] {
				p = p.Or(tax.IsSubCladeOf(t))
			}
			return b2i14(p(c14mkseq(s)))
		})
	}
	if len(s.Ignore) > 0 {
		r.Ignore = guardInt(-3, func() int {
			p := tax.IsSubCladeOf(s.Ignore[0])
			for _, t := range s.Ignore[1:] {
				p = p.Or(tax.IsSubCladeOf(t))
			}
			return b2i14(p.Not()(c14mkseq(s)))
		})
	}
	if len(s.Require) > 0 {
		r.Require = guardInt(-3, func() int {
			p := tax.HasRequiredRank(s.Require[0])
			for _, rk := range s.Require[1:] {
				p = p.And(tax.HasRequiredRank(rk))
			}
			return b2i14(p(c14mkseq(s)))
		})
	}
	if s.Slot != nil || s.SlotStr != nil {
		r.SlotSub = guardInt(-3, func() int { return b2i14(tax.IsSubCladeOfSlot("clade")(c14mkseq(s))) })
	}
	if len(s.AtRank) > 0 {
		r.AtRank = map[string]int{}
		for _, rk := range s.AtRank {
			r.AtRank[rk] = guardInt(-3, func() int {
				seq := c14mkseq(s)
				w := tax.MakeSetTaxonAtRankWorker(rk)
				sl, e := w(seq)
				if e != nil || len(sl) != 1 {
					return -2
				}
				v, ok := sl[0].GetIntAttribute(rk + "_taxid")
				if !ok {
					return -9
				}
				return v
			})
		}
	}
	r.WLCA, r.LCAAttr = -9, -9
	if s.Merged != nil || s.Taxid != nil {
		r.WLCA = guardInt(-3, func() int {
			n, _, _ := tax.LCA(c14mkseq(s), 1.0)
			if n == nil {
				return -4
			}
			return n.Taxid()
		})
		r.LCAAttr = guardInt(-3, func() int {
			seq := c14mkseq(s)
			sl, e := obitax.AddLCAWorker(tax, "x", 1.0)(seq)
			if e != nil || len(sl) != 1 {
				return -2
			}
			v, ok := sl[0].GetIntAttribute("x_taxid")
			if !ok {
				return -9
			}
			if ev, ok := sl[0].GetAttribute("x_error"); ok {
				r.LCAErr = fmt.Sprint(ev)
			}
			return v
		})
	}
	r.NoTax = -9
	if s.Merged == nil && s.Taxid == nil {
		r.NoTax = guardInt(-3, func() int {
			sl, e := obitax.AddLCAWorker(tax, "x", 1.0)(c14mkseq(s))
			if e != nil || len(sl) != 1 {
				return -2
			}
			v, ok := sl[0].GetIntAttribute("x_taxid")
			if !ok {
				return -9
			}
			return v
		})
	}
	for _, thr := range s.Thr {
		seen := map[c14lca]bool{}
		outs := []c14lca{}
		reps := s.Reps
		if reps < 1 {
			reps = 1
		}
		for k := 0; k < reps; k++ {
			var l c14lca
			l.T = guardInt(-3, func() int {
				n, rans, g := tax.LCA(c14mkseq(s), thr)
				l.B = strconv.FormatUint(math.Float64bits(rans), 10)
				l.G = g
				if n == nil {
					return -4
				}
				return n.Taxid()
			})
			if k == 0 {
				l.WT = guardInt(-3, func() int {
					sl, e := obitax.AddLCAWorker(tax, "x", thr)(c14mkseq(s))
					if e != nil || len(sl) != 1 {
						return -2
					}
					v, ok := sl[0].GetIntAttribute("x_taxid")
					if !ok {
						return -9
					}
					if ev, ok := sl[0].GetAttribute("x_error"); ok {
						l.WE = fmt.Sprint(ev)
					}
					return v
				})
				// the worker ran on its own sequence (its own map order): reported separately
				outs = append(outs, c14lca{T: -100, WT: l.WT, WE: l.WE})
				l.WT, l.WE = 0, ""
			}
			if !seen[l] {
				seen[l] = true
				outs = append(outs, l)
			}
		}
		sort.Slice(outs, func(i, j int) bool {
			if outs[i].T != outs[j].T {
				return outs[i].T < outs[j].T
			}
			if outs[i].B != outs[j].B {
				return outs[i].B < outs[j].B
			}
			return outs[i].G < outs[j].G
		})
		r.Thr = append(r.Thr, outs)
	}
	return r
}
