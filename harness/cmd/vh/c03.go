// c03 — stream combinators of pkg/obiiter fed with explicit arrival histories.
//
// A case names a combinator, gives one arrival history per input stream (batches (order, ids) in the
// order in which they are pushed on the input channel) and the parameters (batch size, number of
// workers, modulus of the predicate / classifier / worker). The REAL combinator is run, every output
// iterator is drained by its own goroutine under a deadline, and the observation is, per output
// stream, the delivered batches (Order, ids) in delivery order + whether the stream was closed
// (terminated) before the deadline.
package main

import (
	"bufio"
	"fmt"
	"os"
	"runtime"
	"sort"
	"strconv"
	"strings"
	"sync"
	"sync/atomic"
	"syscall"
	"time"

	"git.metabarcoding.org/obitools/obitools4/obitools4/pkg/obiformats"
	"git.metabarcoding.org/obitools/obitools4/obitools4/pkg/obiiter"
	"git.metabarcoding.org/obitools/obitools4/obitools4/pkg/obioptions"
	"git.metabarcoding.org/obitools/obitools4/obitools4/pkg/obiseq"
	log "github.com/sirupsen/logrus"
)

type c03Batch struct {
	O     int      `json:"o"`
	Ids   []int    `json:"ids"`
	Pids  []int    `json:"pids,omitempty"`  // ids of the paired mates (pairto only)
	Names []string `json:"names,omitempty"` // fragments only: full identifiers
	Seqs  []string `json:"seqs,omitempty"`  // fragments only: sequences
}

type c03Case struct {
	Op      string       `json:"op"`
	Streams [][]c03Batch `json:"streams"`
	Data    []int        `json:"data"`    // batchover: the slice
	Size    int          `json:"size"`    // batch size parameter
	NW      int          `json:"nw"`      // number of workers
	Mod     int          `json:"mod"`     // worker function / predicate / classifier modulus
	Mod2    int          `json:"mod2"`    // pipeline: modulus of the filter predicate
	Yield   int          `json:"yield"`   // >0: workers sleep a pseudo random number of microseconds < yield
	DL      int          `json:"dl"`      // deadline in ms (default 3000)
	MinSize int          `json:"minsize"` // fragments
	Length  int          `json:"length"`  // fragments
	Overlap int          `json:"overlap"` // fragments
	Paired  bool         `json:"paired"`  // the source streams carry paired records (mate of id = c03Mate(id))
	Frac    float64      `json:"frac"`    // limitmemory
	Trace   bool         `json:"trace"`   // record the protocol events (Add/Done/Wait/Push/Close/End)
	Quiet   int          `json:"quiet"`   // ms without a new event before the recording stops (default 3)
	ErrMod  int          `json:"errmod"`  // chain: >0: the first worker fails on id mod errmod == 3, the second on id mod errmod == 4
	NilW    int          `json:"nilw"`    // chain: bit 0: the first worker is nil, bit 1: the second worker is nil
	Counts  bool         `json:"counts"`  // the records carry count = id mod 3 + 1 and the long sequences
	Tree    []c03Node    `json:"tree"`    // expand: the directory tree
	Args    []string     `json:"args"`    // expand: the paths given to ExpandListOfFiles
}

type c03Out struct {
	Key     int        `json:"key"`
	Closed  bool       `json:"closed"`
	Paired  bool       `json:"paired"` // IsPaired() of the output iterator
	Batches []c03Batch `json:"batches"`
}

type c03Obs struct {
	Kind  string   `json:"kind"` // ok | panic
	Term  bool     `json:"term"` // every output stream closed before the deadline
	Fatal bool     `json:"fatal"`
	Panic string   `json:"panic,omitempty"`
	Outs  []c03Out `json:"outs"`
	News  []int    `json:"news,omitempty"` // distribute: keys in the order they were announced
	Trace [][4]int `json:"trace,omitempty"` // (goroutine, iterator, kind, n) in log order
	Files []string `json:"files,omitempty"` // expand: the list of files, relative to the root of the tree
	Err   string   `json:"err,omitempty"`   // expand: ExpandListOfFiles returned an error
	Unk   bool     `json:"unk,omitempty"`   // distribute: Outputs of a key that was never announced is an error
}

var c03Fatal atomic.Bool
var c03RestoreStderr func()

func c03Seq(id int) *obiseq.BioSequence {
	return obiseq.NewBioSequence("r"+strconv.Itoa(id), []byte("acgtacgt"), "")
}

// c03LongSeq: record id has length 1 + (7*id mod 61) and letter (id + j*j + j/3) mod 4 at position j
func c03LongSeq(id int) *obiseq.BioSequence {
	n := 1 + (7*id)%61
	b := make([]byte, n)
	for j := range b {
		b[j] = "acgt"[(id+j*j+j/3)%4]
	}
	return obiseq.NewBioSequence("r"+strconv.Itoa(id), b, "")
}

var c03Long = false
var c03Counts = false
var c03Paired = false

// c03Mate: id of the mate of record id in paired cases
func c03Mate(id int) int { return 1000 + (id*7+id/3)%50 }

func c03Slice(ids []int) obiseq.BioSequenceSlice {
	s := make(obiseq.BioSequenceSlice, 0, len(ids)+1)
	for _, id := range ids {
		var r *obiseq.BioSequence
		if c03Long {
			r = c03LongSeq(id)
		} else {
			r = c03Seq(id)
		}
		if c03Counts {
			r.SetCount(id%3 + 1)
		}
		if c03Paired {
			r.PairTo(c03Seq(c03Mate(id)))
		}
		s = append(s, r)
	}
	return s
}

func c03Id(s *obiseq.BioSequence) int {
	if s == nil {
		return -1
	}
	id := s.Id()
	if k := strings.Index(id, "_sub"); k >= 0 {
		id = id[:k]
	}
	v, err := strconv.Atoi(id[1:])
	if err != nil {
		return -2
	}
	return v
}

// c03Source builds an iterator whose producer pushes the batches of h in the given (arrival) order.
func c03Source(h []c03Batch) obiiter.IBioSequence {
	it := obiiter.MakeIBioSequence()
	if c03Paired {
		it.MarkAsPaired()
	}
	it.Add(1)
	go func() {
		for _, b := range h {
			it.Push(obiiter.MakeBioSequenceBatch("src", b.O, c03Slice(b.Ids)))
		}
		it.Done()
	}()
	go it.WaitAndClose()
	return it
}

type c03Collector struct {
	mu   sync.Mutex
	outs []*c03Out
	wg   sync.WaitGroup
}

func (c *c03Collector) drain(key int, it obiiter.IBioSequence, paired bool) {
	o := &c03Out{Key: key, Batches: []c03Batch{}, Paired: it.IsPaired()}
	paired = paired || c03Paired
	c.mu.Lock()
	c.outs = append(c.outs, o)
	c.mu.Unlock()
	c.wg.Add(1)
	go func() {
		defer c.wg.Done()
		for it.Next() {
			b := it.Get()
			ob := c03Batch{O: b.Order(), Ids: []int{}}
			for _, s := range b.Slice() {
				ob.Ids = append(ob.Ids, c03Id(s))
				if s == nil { // a nil record inside a batch: id -1, nothing else to read
					if paired {
						ob.Pids = append(ob.Pids, -1)
					}
					continue
				}
				if c03Long {
					ob.Names = append(ob.Names, s.Id())
					ob.Seqs = append(ob.Seqs, string(s.Sequence()))
				}
				if paired {
					ob.Pids = append(ob.Pids, c03Id(s.PairedWith()))
				}
			}
			c.mu.Lock()
			o.Batches = append(o.Batches, ob)
			c.mu.Unlock()
		}
		c.mu.Lock()
		o.Closed = true
		c.mu.Unlock()
	}()
}

func c03Worker(mod, yield int) obiseq.SeqWorker {
	return func(s *obiseq.BioSequence) (obiseq.BioSequenceSlice, error) {
		id := c03Id(s)
		if yield > 0 {
			d := (uint32(id)*2654435761 + uint32(yield)*40503) >> 7
			time.Sleep(time.Duration(int(d)%yield) * time.Microsecond)
			runtime.Gosched()
		}
		if mod <= 0 {
			return obiseq.BioSequenceSlice{s}, nil
		}
		switch id % mod {
		case 0:
			return obiseq.BioSequenceSlice{}, nil
		case 1:
			return obiseq.BioSequenceSlice{s, c03Seq(id + 500)}, nil
		}
		return obiseq.BioSequenceSlice{s}, nil
	}
}

func c03Pred(mod int) obiseq.SequencePredicate {
	return func(s *obiseq.BioSequence) bool { return mod > 0 && c03Id(s)%mod == 0 }
}

func c03Run(c c03Case) (obs c03Obs) {
	obs = c03Obs{Kind: "ok", Outs: []c03Out{}}
	c03Fatal.Store(false)
	c03Long = c.Op == "fragments" || c.Counts
	c03Counts = c.Counts
	c03Paired = c.Paired
	if c.Trace {
		obiiter.VerifTraceStart()
		defer func() {
			for _, e := range obiiter.VerifTraceStop() {
				obs.Trace = append(obs.Trace, [4]int{e.Gid, e.It, e.Kind, e.N})
			}
		}()
	}
	col := &c03Collector{}
	var newsMu sync.Mutex
	news := []int{}
	unk := false
	newsDone := make(chan struct{})
	close(newsDone)
	func() {
		defer func() {
			if r := recover(); r != nil {
				obs.Kind = "panic"
				obs.Panic = fmt.Sprint(r)
			}
		}()
		src := func(i int) obiiter.IBioSequence {
			if i < len(c.Streams) {
				return c03Source(c.Streams[i])
			}
			return c03Source(nil)
		}
		rest := func() []obiiter.IBioSequence {
			r := []obiiter.IBioSequence{}
			for i := 1; i < len(c.Streams); i++ {
				r = append(r, src(i))
			}
			return r
		}
		nw := c.NW
		if nw < 1 && c.Op != "filteron" && c.Op != "filterand" && c.Op != "fragments" {
			nw = 1
		}
		switch c.Op {
		case "source":
			col.drain(0, src(0), false)
		case "sortbatches":
			col.drain(0, src(0).SortBatches(), false)
		case "rebatch":
			col.drain(0, src(0).Rebatch(c.Size), false)
		case "filterempty":
			col.drain(0, src(0).FilterEmpty(), false)
		case "filteron":
			col.drain(0, src(0).FilterOn(c03Pred(c.Mod), c.Size, nw), false)
		case "filterand":
			col.drain(0, src(0).FilterAnd(c03Pred(c.Mod), c.Size, nw), false)
		case "divideon":
			t, f := src(0).DivideOn(c03Pred(c.Mod), c.Size)
			col.drain(1, t, false)
			col.drain(0, f, false)
		case "distribute":
			mod := c.Mod
			if mod < 1 {
				mod = 1
			}
			cl := &obiseq.BioSequenceClassifier{
				Code:  func(s *obiseq.BioSequence) int { return c03Id(s) % mod },
				Value: func(k int) string { return strconv.Itoa(k) },
				Reset: func() {},
				Type:  "verif",
			}
			d := src(0).Distribute(cl, c.Size)
			newsDone = make(chan struct{})
			go func() {
				for k := range d.News() {
					it, err := d.Outputs(k)
					newsMu.Lock()
					news = append(news, k)
					newsMu.Unlock()
					if err == nil {
						col.drain(k, it, false)
					}
				}
				_, e := d.Outputs(1 << 20)
				newsMu.Lock()
				unk = e != nil
				newsMu.Unlock()
				close(newsDone)
			}()
		case "concat":
			col.drain(0, src(0).Concat(rest()...), false)
		case "concat_sorted":
			col.drain(0, src(0).Concat(rest()...).SortBatches(), false)
		case "pool":
			col.drain(0, src(0).Pool(rest()...), false)
		case "worker":
			col.drain(0, src(0).MakeIWorker(c03Worker(c.Mod, c.Yield), false, nw), false)
		case "worker_sorted":
			col.drain(0, src(0).MakeIWorker(c03Worker(c.Mod, c.Yield), false, nw).SortBatches(), false)
		case "batchover":
			col.drain(0, obiiter.IBatchOver("src", c03Slice(c.Data), c.Size), false)
		case "copytee":
			a, b := src(0).CopyTee()
			col.drain(0, a, false)
			col.drain(1, b, false)
		case "pipeline":
			it := src(0).MakeIWorker(c03Worker(c.Mod, c.Yield), false, nw).
				FilterOn(c03Pred(c.Mod2), c.Size, nw).SortBatches()
			col.drain(0, it, false)
		case "readfiles", "readfiles_par":
			// ReadSequencesBatchFromFiles with a reader that serves the given arrival history of "file" i
			names := []string{}
			for i := range c.Streams {
				names = append(names, strconv.Itoa(i))
			}
			reader := func(name string, _ ...obiformats.WithOption) (obiiter.IBioSequence, error) {
				i, _ := strconv.Atoi(name)
				return src(i), nil
			}
			nr := 1
			if c.Op == "readfiles_par" {
				nr = nw
			}
			col.drain(0, obiformats.ReadSequencesBatchFromFiles(names, reader, nr), false)
		case "merge":
			col.drain(0, src(0).IMergeSequenceBatch("NA", obiseq.StatsOnDescriptions{}, c.Size), false)
		case "fragments":
			col.drain(0, src(0).Pipe(obiiter.IFragments(c.MinSize, c.Length, c.Overlap, c.Size, nw)), false)
		case "pairto":
			obioptions.SetBatchSize(c.Size)
			col.drain(0, src(0).PairTo(src(1)), true)
		case "split":
			// nw consumers share the channel of one source through Split()
			it := src(0)
			clones := []obiiter.IBioSequence{it}
			for i := 1; i < nw; i++ {
				clones = append(clones, it.Split())
			}
			for i, cl := range clones {
				col.drain(i, cl, false)
			}
		case "speed":
			// Speed is the identity unless stderr is a character device: give it /dev/null
			null, err := os.OpenFile("/dev/null", os.O_WRONLY, 0)
			if err != nil {
				panic(err)
			}
			saved, err := syscall.Dup(2)
			if err != nil {
				panic(err)
			}
			syscall.Dup2(int(null.Fd()), 2)
			it := src(0).Speed("verif")
			c03RestoreStderr = func() { syscall.Dup2(saved, 2); syscall.Close(saved); null.Close() }
			col.drain(0, it, false)
		case "limitmemory":
			col.drain(0, src(0).LimitMemory(c.Frac), false)
		case "load", "load_sorted":
			it := src(0)
			if c.Op == "load_sorted" {
				it = it.SortBatches()
			}
			res := obiiter.MakeIBioSequence()
			res.Add(1)
			go func() {
				_, sl := it.Load()
				res.Push(obiiter.MakeBioSequenceBatch("load", 0, sl))
				res.Done()
			}()
			go res.WaitAndClose()
			col.drain(0, res, false)
		case "completefile":
			col.drain(0, src(0).CompleteFileIterator(), false)
		case "completefile_sorted":
			col.drain(0, src(0).SortBatches().CompleteFileIterator(), false)
		case "condworker":
			col.drain(0, src(0).MakeIConditionalWorker(c03Pred(c.Mod2), c03Worker(c.Mod, c.Yield), false, nw), false)
		case "condworker_sorted":
			col.drain(0, src(0).MakeIConditionalWorker(c03Pred(c.Mod2), c03Worker(c.Mod, c.Yield), false, nw).SortBatches(), false)
		case "sliceworker":
			sw := obiseq.SeqToSliceConditionalWorker(nil, c03Worker(c.Mod, c.Yield), false)
			col.drain(0, src(0).MakeISliceWorker(sw, false, nw).SortBatches(), false)
		case "pairedwith":
			col.drain(0, src(0).PairedWith(), false)
		case "distribute_rebatch":
			// the dispatcher path of obidistribute: every announced output is taken at once by its own
			// goroutine (WriterDispatcher) and goes through an order-sensitive consumer
			mod := c.Mod
			if mod < 1 {
				mod = 1
			}
			cl := &obiseq.BioSequenceClassifier{
				Code:  func(s *obiseq.BioSequence) int { return c03Id(s) % mod },
				Value: func(k int) string { return strconv.Itoa(k) },
				Reset: func() {},
				Type:  "verif",
			}
			d := src(0).Distribute(cl, c.Size)
			sz2 := c.Mod2
			if sz2 < 1 {
				sz2 = 1
			}
			newsDone = make(chan struct{})
			go func() {
				for k := range d.News() {
					it, err := d.Outputs(k)
					newsMu.Lock()
					news = append(news, k)
					newsMu.Unlock()
					if err == nil {
						col.drain(k, it.Rebatch(sz2), false)
					}
				}
				close(newsDone)
			}()
		default:
			if !c03RunR3(c, col, src, nw, &obs) {
				panic("unknown op " + c.Op)
			}
		}
	}()
	if obs.Kind == "panic" {
		return obs
	}
	dl := c.DL
	if dl <= 0 {
		dl = 8000
	}
	done := make(chan struct{})
	go func() {
		<-newsDone
		col.wg.Wait()
		close(done)
	}()
	deadline := time.After(time.Duration(dl) * time.Millisecond)
	tick := time.NewTicker(2 * time.Millisecond)
	defer tick.Stop()
wait:
	for {
		select {
		case <-done:
			obs.Term = true
			break wait
		case <-deadline:
			obs.Term = false
			break wait
		case <-tick.C:
			// log.Fatal was called in a library goroutine (it has been ended): the outputs will never
			// be closed, no need to wait for the deadline
			if c03Fatal.Load() {
				time.Sleep(20 * time.Millisecond)
				obs.Term = false
				break wait
			}
		}
	}
	obs.Fatal = c03Fatal.Load()
	if c.Trace && obs.Term && !obs.Fatal {
		// goroutines that no output waits for (the reverse side of PairTo, closers) may still be finishing:
		// wait until no event has been logged for c.Quiet ms
		need := c.Quiet
		if need <= 0 {
			need = 3
		}
		last, quiet := obiiter.VerifTraceLen(), 0
		for i := 0; i < 200+10*need && quiet < need; i++ {
			time.Sleep(time.Millisecond)
			if n := obiiter.VerifTraceLen(); n == last {
				quiet++
			} else {
				last, quiet = n, 0
			}
		}
	}
	if c03RestoreStderr != nil {
		c03RestoreStderr()
		c03RestoreStderr = nil
	}
	col.mu.Lock()
	for _, o := range col.outs {
		cp := c03Out{Key: o.Key, Closed: o.Closed, Paired: o.Paired, Batches: append([]c03Batch{}, o.Batches...)}
		obs.Outs = append(obs.Outs, cp)
	}
	col.mu.Unlock()
	sort.SliceStable(obs.Outs, func(i, j int) bool { return obs.Outs[i].Key < obs.Outs[j].Key })
	newsMu.Lock()
	obs.News = append([]int{}, news...)
	obs.Unk = unk
	newsMu.Unlock()
	return obs
}

func init() {
	register("c03", func(in *bufio.Reader, out *bufio.Writer) error {
		// log.Fatal inside a library goroutine: remember it and end only that goroutine
		log.StandardLogger().ExitFunc = func(int) {
			c03Fatal.Store(true)
			runtime.Goexit()
		}
		return eachLine(in, out, func(c c03Case) any {
			if c.Op == "stress" {
				return c03StressRun(c)
			}
			return c03Run(c)
		})
	})
}
