package main

// vh c02 — write/read round trip of FASTA/FASTQ records with JSON title-line annotations (property C02).
// mode "rt":   records -> real FormatFastaBatch/FormatFastqBatch -> real Fasta/FastqChunkParser ->
//              real ParseFastSeqJsonHeader / ParseGuessedFastSeqHeader -> format again.
// mode "scan": one title-line remainder -> real _parse_json_header_ (through the verif hook).
// mode "enc":  one typed value -> obiutils.JsonMarshal (the writer's marshaller) -> go-json Unmarshal.

import (
	"bufio"
	"bytes"
	"encoding/base64"
	stdjson "encoding/json"
	"fmt"
	"strconv"

	gojson "github.com/goccy/go-json"

	log "github.com/sirupsen/logrus"

	"git.metabarcoding.org/obitools/obitools4/obitools4/pkg/obiformats"
	"git.metabarcoding.org/obitools/obitools4/obitools4/pkg/obiiter"
	"git.metabarcoding.org/obitools/obitools4/obitools4/pkg/obioptions"
	"git.metabarcoding.org/obitools/obitools4/obitools4/pkg/obiseq"
	"git.metabarcoding.org/obitools/obitools4/obitools4/pkg/obiutils"
)

// typed value: t = int|float|bool|str|mapint|mapstr|ints|map|list|null
type c02val struct {
	T string             `json:"t"`
	V string             `json:"v,omitempty"` // int / float as decimal text
	B bool               `json:"b,omitempty"`
	S string             `json:"s,omitempty"` // base64 of the string bytes
	M map[string]c02val  `json:"m,omitempty"` // keys: base64
	L []c02val           `json:"l,omitempty"`
}

type c02rec struct {
	Id   string            `json:"id"`  // base64
	Def  string            `json:"def"` // base64
	Seq  string            `json:"seq"` // base64
	Qual []int             `json:"qual"`
	Ann  map[string]c02val `json:"ann"` // keys base64
	Build string           `json:"build,omitempty"` // construction path of the record (round 3): "" | write | withqual | copy | rewrite
}

type c02case struct {
	Mode   string   `json:"mode"`
	Fmt    string   `json:"fmt"`
	Shift  int      `json:"shift"`
	Shift2 int      `json:"shift2"` // quality offset of the second write (0: same as shift)
	Parser string   `json:"parser"`
	Recs   []c02rec `json:"recs"`
	Header string   `json:"header"` // base64 (scan)
	Val    *c02val  `json:"val"`    // enc
	// round 3
	Text      string `json:"text"`       // base64: text nobody formatted (mode read)
	Shifts    []int  `json:"shifts"`     // mode hist: output/input quality offsets used in turn inside one process
	SkipEmpty bool   `json:"skip_empty"` // rt: FormatFastx Batch called with skipEmpty
	Typed     bool   `json:"typed"`      // rt: typed getter views before the write and after the read
	Append    bool   `json:"append"`     // mode file
	Compress  bool   `json:"compress"`
	Prefill   string `json:"prefill"`    // base64: content of the output file before the write
	BatchSize int    `json:"batch_size"`
	Workers   int    `json:"workers"`
}

type c02orec struct {
	Id     string `json:"id"`      // base64
	Seq    string `json:"seq"`     // base64
	Qual   []int  `json:"qual"`    // nil when the record carries no qualities
	RawDef string `json:"rawdef"`  // base64: definition as returned by the chunk parser (before the header parser)
	Start  int    `json:"start"`   // interval found by the scanner (-2: scanner not called)
	Stop   int    `json:"stop"`
	Ann    string `json:"ann"`     // annotations after the header parser, encoding/json (sorted keys)
	Enc    string `json:"enc"`     // base64: FormatFastSeqJsonHeader of the record after the header parser
	Typed  []c02typed `json:"typed,omitempty"` // typed getter views of the re-read record (round 3)
	Enc3   string `json:"enc3,omitempty"`  // base64: formatted header after the caching getters matching the written types ran on the record itself
}

type c02obs struct {
	Kind string    `json:"kind"` // ok | fatal | panic
	Msg  string    `json:"msg,omitempty"`
	W1   string    `json:"w1,omitempty"` // base64 first write
	W2   string    `json:"w2,omitempty"` // base64 second write
	Qual2 [][]int  `json:"qual2,omitempty"` // qualities read back from the second write with its own offset
	Recs []c02orec `json:"recs,omitempty"`
	// scan
	Start int    `json:"start"`
	Stop  int    `json:"stop"`
	Rest  string `json:"rest,omitempty"` // base64
	Ann   string `json:"ann,omitempty"`
	Ann2  string `json:"ann2,omitempty"`  // annotations after format + re-parse
	Rest2 string `json:"rest2,omitempty"` // base64
	// enc
	Enc  string `json:"enc,omitempty"`  // base64
	Enc2 string `json:"enc2,omitempty"` // base64: go-json Unmarshal(enc) then JsonMarshal again ("!": decode error)
	// scan: the whole header parsers on a record whose definition is the header (round 2)
	HKind string `json:"hkind,omitempty"` // ParseFastSeqJsonHeader: ok | fatal
	HEnc  string `json:"henc,omitempty"`  // base64 formatted header afterwards
	HEnc2 string `json:"henc2,omitempty"` // base64 formatted header after re-parsing HEnc ("!fatal")
	GKind string `json:"gkind,omitempty"` // ParseGuessedFastSeqHeader
	GEnc  string `json:"genc,omitempty"`
	// round 3
	Typed0 [][]c02typed `json:"typed0,omitempty"` // typed getter views of the records before the write
	Single string       `json:"single,omitempty"` // base64: the records formatted one by one (FormatFasta / FormatFastq)
	WHdr   []string     `json:"whdr,omitempty"`   // base64: WriteFastSeqJsonHeader of every record before the write
	FHdr   []string     `json:"fhdr,omitempty"`   // base64: FormatFastSeqJsonHeader of every record before the write
	Hist   []c02hist    `json:"hist,omitempty"`
	File   string       `json:"file,omitempty"`   // base64: content of the file written by WriteFastxToFile (decompressed)
	Gz     bool         `json:"gz,omitempty"`     // the file starts with the gzip magic number
}

// c02header runs one header parser on a fresh record whose definition is h; returns kind and the formatted header.
func c02header(h string, guessed bool) (kind string, enc string) {
	kind = "fatal"
	defer func() {
		if r := recover(); r != nil {
			if _, ok := r.(c02fatal); !ok {
				kind = "panic"
			}
		}
	}()
	s := obiseq.NewBioSequence("x", []byte("a"), h)
	if guessed {
		obiformats.ParseGuessedFastSeqHeader(s)
	} else {
		obiformats.ParseFastSeqJsonHeader(s)
	}
	enc = obiformats.FormatFastSeqJsonHeader(s)
	enc = string(append([]byte(nil), enc...))
	kind = "ok"
	return
}

// c02redecode: what go-json reads back from a marshalled value, marshalled again.
func c02redecode(b []byte) string {
	var err error
	var out []byte
	if len(b) > 0 && b[0] == '{' {
		a := obiseq.Annotation{}
		if err = gojson.Unmarshal(b, &a); err == nil {
			out, err = obiutils.JsonMarshal(a)
		}
	} else {
		var x interface{}
		if err = gojson.Unmarshal(b, &x); err == nil {
			out, err = obiutils.JsonMarshal(x)
		}
	}
	if err != nil {
		return b64([]byte("!" + err.Error()))
	}
	return b64(out)
}

func b64(b []byte) string { return base64.StdEncoding.EncodeToString(b) }
func unb64(s string) []byte {
	b, err := base64.StdEncoding.DecodeString(s)
	if err != nil {
		panic(err)
	}
	return b
}

func c02value(v c02val) interface{} {
	switch v.T {
	case "int":
		i, err := strconv.ParseInt(v.V, 10, 64)
		if err != nil {
			panic(err)
		}
		return int(i)
	case "float":
		f, err := strconv.ParseFloat(v.V, 64)
		if err != nil {
			panic(err)
		}
		return f
	case "bool":
		return v.B
	case "str":
		return string(unb64(v.S))
	case "null":
		return nil
	case "mapint":
		m := map[string]int{}
		for k, x := range v.M {
			m[string(unb64(k))] = c02value(x).(int)
		}
		return m
	case "mapstr":
		m := map[string]string{}
		for k, x := range v.M {
			m[string(unb64(k))] = c02value(x).(string)
		}
		return m
	case "mapintstr":
		m := map[int]string{}
		for k, x := range v.M {
			i, err := strconv.Atoi(string(unb64(k)))
			if err != nil {
				panic(err)
			}
			m[i] = c02value(x).(string)
		}
		return m
	case "ints":
		l := make([]int, 0, len(v.L))
		for _, x := range v.L {
			l = append(l, c02value(x).(int))
		}
		return l
	case "map":
		m := map[string]interface{}{}
		for k, x := range v.M {
			m[string(unb64(k))] = c02value(x)
		}
		return m
	case "list":
		l := make([]interface{}, 0, len(v.L))
		for _, x := range v.L {
			l = append(l, c02value(x))
		}
		return l
	}
	panic("unknown value type " + v.T)
}

type c02fatal struct{ msg string }

func c02format(f string, seqs obiseq.BioSequenceSlice) []byte {
	batch := obiiter.MakeBioSequenceBatch("c02", 0, seqs)
	if f == "fastq" {
		return obiformats.FormatFastqBatch(batch, obiformats.FormatFastSeqJsonHeader, false).Bytes()
	}
	return obiformats.FormatFastaBatch(batch, obiformats.FormatFastSeqJsonHeader, false).Bytes()
}

func c02canon(a obiseq.Annotation) string {
	b, err := stdjson.Marshal(map[string]interface{}(a))
	if err != nil {
		return "!" + err.Error()
	}
	return string(b)
}

func c02run(c c02case) (o c02obs) {
	lastStart, lastStop := -2, -2
	obiformats.VerifScanLog = func(a, b int) { lastStart, lastStop = a, b }
	defer func() {
		if r := recover(); r != nil {
			if f, ok := r.(c02fatal); ok {
				if o.Kind != "fatal-reparse" {
					o.Kind = "fatal"
				}
				o.Msg = f.msg
			} else {
				o.Kind, o.Msg = "panic", fmt.Sprint(r)
			}
			o.Start, o.Stop = lastStart, lastStop
		}
	}()
	o.Start, o.Stop = -2, -2
	switch c.Mode {
	case "scan":
		ann := obiseq.Annotation{}
		h := string(unb64(c.Header))
		var e string
		o.HKind, e = c02header(h, false)
		o.HEnc = b64([]byte(e))
		if o.HKind == "ok" {
			k2, e2 := c02header(e, false)
			if k2 == "ok" {
				o.HEnc2 = b64([]byte(e2))
			} else {
				o.HEnc2 = b64([]byte("!" + k2))
			}
		}
		o.GKind, e = c02header(h, true)
		o.GEnc = b64([]byte(e))
		lastStart, lastStop = -2, -2
		rest := obiformats.VerifParseJsonHeader(h, ann)
		o.Kind, o.Start, o.Stop, o.Rest, o.Ann = "ok", lastStart, lastStop, b64([]byte(rest)), c02canon(ann)
		if len(ann) > 0 {
			// re-parse of the formatted header (property: never changes or loses annotations)
			s := obiseq.NewBioSequence("x", []byte("a"), "")
			for k, v := range ann {
				s.Annotations()[k] = v
			}
			h2 := obiformats.FormatFastSeqJsonHeader(s)
			o.Enc = b64([]byte(h2))
			ann2 := obiseq.Annotation{}
			o.Kind = "fatal-reparse"
			rest2 := obiformats.VerifParseJsonHeader(h2, ann2)
			o.Kind = "ok"
			o.Ann2, o.Rest2 = c02canon(ann2), b64([]byte(rest2))
		}
		return
	case "read":
		return c02read(c)
	case "hist":
		return c02histRun(c)
	case "file":
		return c02file(c)
	case "enc":
		b, err := obiutils.JsonMarshal(c02value(*c.Val))
		if err != nil {
			o.Kind, o.Msg = "fatal", err.Error()
			return
		}
		o.Kind, o.Enc = "ok", b64(b)
		o.Enc2 = c02redecode(b)
		return
	}
	obioptions.SetOutputQualityShift(c.Shift)
	seqs := obiseq.MakeBioSequenceSlice(len(c.Recs))[:0]
	for _, r := range c.Recs {
		seqs = append(seqs, c02build(r))
	}
	if c.Typed {
		for _, s := range seqs {
			o.Typed0 = append(o.Typed0, c02views(s))
			o.FHdr = append(o.FHdr, b64([]byte(obiformats.FormatFastSeqJsonHeader(s))))
			var hb bytes.Buffer
			obiformats.WriteFastSeqJsonHeader(&hb, s)
			o.WHdr = append(o.WHdr, b64(hb.Bytes()))
		}
		o.Single = b64(c02single(c.Fmt, seqs))
	}
	w1 := c02formatSkip(c.Fmt, seqs, c.SkipEmpty)
	o.W1 = b64(w1)
	var parsed obiseq.BioSequenceSlice
	var err error
	if c.Fmt == "fastq" {
		parsed, err = obiformats.FastqChunkParser(byte(c.Shift), true)("c02", bytes.NewReader(w1))
	} else {
		parsed, err = obiformats.FastaChunkParser()("c02", bytes.NewReader(w1))
	}
	if err != nil {
		o.Kind, o.Msg = "fatal", err.Error()
		return
	}
	for _, s := range parsed {
		r := c02orec{RawDef: b64([]byte(s.Definition())), Start: -2, Stop: -2}
		lastStart, lastStop = -2, -2
		if c.Parser == "guessed" {
			obiformats.ParseGuessedFastSeqHeader(s)
		} else {
			obiformats.ParseFastSeqJsonHeader(s)
		}
		r.Start, r.Stop = lastStart, lastStop
		r.Id, r.Seq = b64([]byte(s.Id())), b64(s.Sequence())
		if s.HasQualities() {
			for _, q := range s.Qualities() {
				r.Qual = append(r.Qual, int(q))
			}
		}
		r.Ann = c02canon(s.Annotations())
		r.Enc = b64([]byte(obiformats.FormatFastSeqJsonHeader(s)))
		if c.Typed {
			r.Typed = c02views(s)
		}
		o.Recs = append(o.Recs, r)
	}
	if c.Shift2 != 0 {
		obioptions.SetOutputQualityShift(c.Shift2)
	}
	w2 := c02format(c.Fmt, parsed)
	o.W2 = b64(w2)
	if c.Typed && len(parsed) == len(c.Recs) && !c.SkipEmpty {
		// the getters that store the converted value back, each on the attributes written with the matching type
		for i, s := range parsed {
			c02cachingGetters(s, c.Recs[i])
			o.Recs[i].Enc3 = b64([]byte(obiformats.FormatFastSeqJsonHeader(s)))
		}
	}
	if c.Fmt == "fastq" && c.Shift2 != 0 {
		again, err := obiformats.FastqChunkParser(byte(c.Shift2), true)("c02", bytes.NewReader(w2))
		if err != nil {
			o.Kind, o.Msg = "fatal", "second read: "+err.Error()
			return
		}
		for _, s := range again {
			q := []int{}
			for _, x := range s.Qualities() {
				q = append(q, int(x))
			}
			o.Qual2 = append(o.Qual2, q)
		}
	}
	o.Kind = "ok"
	return
}

func init() {
	register("c02", func(in *bufio.Reader, out *bufio.Writer) error {
		log.StandardLogger().ExitFunc = func(int) { panic(c02fatal{"log.Fatal"}) }
		return eachLine(in, out, func(c c02case) any { return c02run(c) })
	})
}
