// vh — correspondence harness: runs the REAL obitools4 code (from /repo's working tree, built
// with -tags verif) on cases read as JSON lines from stdin and writes one JSON observation per
// line on stdout.
package main

import (
	"bufio"
	"encoding/json"
	"fmt"
	"io"
	"os"

	log "github.com/sirupsen/logrus"
)

type handler func(in *bufio.Reader, out *bufio.Writer) error

var handlers = map[string]handler{}

func register(name string, h handler) { handlers[name] = h }

// eachLine decodes every stdin line into a fresh value of T and writes f's result as one line.
func eachLine[T any](in *bufio.Reader, out *bufio.Writer, f func(c T) any) error {
	dec := json.NewDecoder(in)
	enc := json.NewEncoder(out)
	for {
		var c T
		err := dec.Decode(&c)
		if err == io.EOF {
			return nil
		}
		if err != nil {
			return err
		}
		if err := enc.Encode(f(c)); err != nil {
			return err
		}
	}
}

func main() {
	log.SetOutput(io.Discard)
	if len(os.Args) < 2 {
		fmt.Fprintln(os.Stderr, "usage: vh <subcommand>")
		os.Exit(2)
	}
	h, ok := handlers[os.Args[1]]
	if !ok {
		fmt.Fprintln(os.Stderr, "unknown subcommand", os.Args[1])
		os.Exit(2)
	}
	in := bufio.NewReaderSize(os.Stdin, 1<<20)
	out := bufio.NewWriterSize(os.Stdout, 1<<20)
	err := h(in, out)
	out.Flush()
	if err != nil {
		fmt.Fprintln(os.Stderr, "vh:", err)
		os.Exit(3)
	}
}
