package main

// vh c15 — obitag / obirefidx search and indexing on a synthetic reference database + taxonomy.
// Runs the REAL obitag.FindClosests, obitag2.FindClosests, obirefidx.IndexSequence, obitag.Identify,
// obikmer.Count4Mer/Common4Mer and the real LCS kernels (FastLCSScore, D1Or0) pair by pair.

import (
	"bufio"
	"fmt"
	"reflect"
	"strconv"
	"strings"
	"sync/atomic"
	"time"

	"git.metabarcoding.org/obitools/obitools4/obitools4/pkg/obialign"
	"git.metabarcoding.org/obitools/obitools4/obitools4/pkg/obiiter"
	"git.metabarcoding.org/obitools/obitools4/obitools4/pkg/obikmer"
	"git.metabarcoding.org/obitools/obitools4/obitools4/pkg/obiseq"
	"git.metabarcoding.org/obitools/obitools4/obitools4/pkg/obitax"
	"git.metabarcoding.org/obitools/obitools4/obitools4/pkg/obitools/obirefidx"
	"git.metabarcoding.org/obitools/obitools4/obitools4/pkg/obitools/obitag"
	"git.metabarcoding.org/obitools/obitools4/obitools4/pkg/obitools/obitag2"
	"git.metabarcoding.org/obitools/obitools4/obitools4/pkg/obiutils"
)

type c15case struct {
	Kind   string   `json:"kind,omitempty"` // "" (search / index / identify), "tables", "wrap"
	Full   bool     `json:"full,omitempty"` // wrap: also run obitag.FindClosests (one unbounded alignment of two 65 kb sequences)
	Q      string   `json:"q"`
	Refs   []string `json:"refs"`
	Taxids []int    `json:"taxids"` // taxid of each reference
	Taxo   [][2]int `json:"taxo"`   // (taxid, parent); the root is (1,1)
	Index  bool     `json:"index"`  // also run IndexSequence on every reference + Identify
}

type c15fc struct {
	Kind      string  `json:"kind"` // ok | panic
	Idxs      []int   `json:"idxs"` // bestidxs in the order returned
	Maxe      int     `json:"maxe"`
	BestId    float64 `json:"bestid"`
	BestMatch string  `json:"bestmatch"`
	// bests[i] is references[idxs[i]] for every i and both have the same length (Identify indexes references[seqidxs[i]]
	// and stores the result on it while it reads the index of bests[i])
	PairOK  bool     `json:"pairok"`
	BestIds []string `json:"bestids"`
	Err     string   `json:"err,omitempty"`
}

type c15obs struct {
	Kind  string   `json:"kind"`
	Cw    []int    `json:"cw"`    // Common4Mer(query, ref_i)
	Order []int    `json:"order"` // candidate order used by FindClosests
	QD    [][2]int `json:"qd"`    // (lcs, alilen) of FastLCSScore(q, ref_i, -1)
	KOk   bool     `json:"kok"`   // bounded kernel / D1Or0 agree with the unbounded kernel on every pair used
	KBad  string   `json:"kbad,omitempty"`
	FC    c15fc    `json:"fc"`
	FC2   c15fc    `json:"fc2"`
	// indexing part
	RCw     [][]int          `json:"rcw,omitempty"`    // Common4Mer(ref_i, ref_j)
	ROrder  [][]int          `json:"rorder,omitempty"` // candidate order used by IndexSequence(i)
	RD      [][]int          `json:"rd,omitempty"`     // distance matrix between references (unbounded kernel)
	Index   []map[string]int `json:"index,omitempty"`  // per reference: distance -> taxid
	IdxKind []string         `json:"idxkind,omitempty"`
	Taxid   int              `json:"taxid"`  // taxid written by Identify (indices built lazily by Identify)
	Taxid2  int              `json:"taxid2"` // same, database indexed beforehand (index stored as read back from a file: string keys)
	// taxid / best match written by obitag.CLIAssignTaxonomy (the loader of the command: 4-mer tables, taxa, and the
	// references whose taxid is unknown to the taxonomy discarded) on the same database + one such reference
	Taxid3  int    `json:"taxid3"`
	Best3   string `json:"best3,omitempty"`
	CliKind string `json:"clikind,omitempty"`
	IdKind  string `json:"idkind,omitempty"`
	IdErr   string `json:"iderr,omitempty"`
}

func c15seq(id, s string, taxid int) *obiseq.BioSequence {
	b := obiseq.NewBioSequence(id, []byte(s), "")
	b.SetTaxid(taxid)
	return b
}

func c15taxo(t [][2]int) (*obitax.Taxonomy, error) {
	taxo := obitax.NewTaxonomy()
	sci := "scientific name"
	for _, p := range t {
		if _, err := taxo.AddNewTaxa(p[0], p[1], "rank"+strconv.Itoa(p[0]), false, false); err != nil {
			return nil, err
		}
		name := "t" + strconv.Itoa(p[0])
		if err := taxo.AddNewName(p[0], &name, &sci); err != nil {
			return nil, err
		}
	}
	if err := taxo.ReindexParent(); err != nil {
		return nil, err
	}
	return taxo, nil
}

// distance by the unbounded kernel + consistency of the bounded kernel and of D1Or0 with it
func c15dist(a, b *obiseq.BioSequence, bad *string) (int, int) {
	lcs, ali := obialign.FastLCSScore(a, b, -1, nil)
	d := ali - lcs
	note := func(s string) {
		if *bad == "" {
			*bad = s + " on " + a.String() + " / " + b.String()
		}
	}
	if lcs < 0 {
		note("unbounded FastLCSScore returns -1")
		return lcs, ali
	}
	// bounded kernel: must answer exactly (lcs, ali) when d <= bound; when d > bound it may answer -1 or any
	// alignment with more than `bound` differences (FindClosests/IndexSequence ignore such answers)
	for _, e := range []int{d - 1, d, d + 1, 2, 3, 4} {
		if e < 2 && e != d { // the callers use the bounded kernel with bounds >= 2 only (D1Or0 below that)
			continue
		}
		if e < 0 {
			continue
		}
		l4, a4 := obialign.FastLCSScore(a, b, e, nil)
		if e >= d && (l4 != lcs || a4 != ali) {
			note(fmt.Sprintf("FastLCSScore(maxError=%d)=(%d,%d) but unbounded=(%d,%d)", e, l4, a4, lcs, ali))
		}
		if e < d && l4 >= 0 && a4-l4 <= e {
			note(fmt.Sprintf("FastLCSScore(maxError=%d)=(%d,%d) claims a pair at distance %d is within the bound", e, l4, a4, d))
		}
	}
	d1, _, _, _ := obialign.D1Or0(a, b)
	if (d <= 1 && d1 != d) || (d > 1 && d1 != -1) {
		note(fmt.Sprintf("D1Or0=%d but unbounded distance=%d", d1, d))
	}
	return lcs, ali
}

// c15guard runs f with a deadline: a call of the real code that does not return (Identify's lookup loop
// can spin) is abandoned (its goroutine keeps spinning: after 3 of them no further call is attempted).
var c15hung int32

func c15guard(f func()) (timedOut bool) {
	if atomic.LoadInt32(&c15hung) >= 3 {
		return true
	}
	done := make(chan struct{})
	go func() {
		defer close(done)
		f()
	}()
	select {
	case <-done:
		return false
	case <-time.After(4 * time.Second):
		atomic.AddInt32(&c15hung, 1)
		return true
	}
}

type c15finder func(*obiseq.BioSequence, obiseq.BioSequenceSlice, []*obikmer.Table4mer, bool) (obiseq.BioSequenceSlice, int, float64, string, []int)

func c15find(f c15finder, q *obiseq.BioSequence, refs obiseq.BioSequenceSlice, counts []*obikmer.Table4mer) (o c15fc) {
	if c15guard(func() { o = c15find0(f, q, refs, counts) }) {
		return c15fc{Kind: "timeout"}
	}
	return o
}

func c15find0(f c15finder, q *obiseq.BioSequence, refs obiseq.BioSequenceSlice, counts []*obikmer.Table4mer) (o c15fc) {
	defer func() {
		if r := recover(); r != nil {
			o = c15fc{Kind: "panic", Err: fmt.Sprint(r)}
		}
	}()
	bests, maxe, bestid, bestmatch, idxs := f(q, refs, counts, false)
	if idxs == nil {
		idxs = []int{}
	}
	pair := len(bests) == len(idxs)
	ids := make([]string, 0, len(bests))
	for i, b := range bests {
		ids = append(ids, b.Id())
		if i >= len(idxs) || idxs[i] < 0 || idxs[i] >= len(refs) || refs[idxs[i]] != b {
			pair = false
		}
	}
	return c15fc{Kind: "ok", Idxs: idxs, Maxe: maxe, BestId: bestid, BestMatch: bestmatch, PairOK: pair, BestIds: ids}
}

func c15index(i int, refs obiseq.BioSequenceSlice, counts []*obikmer.Table4mer, taxa obitax.TaxonSet, taxo *obitax.Taxonomy) (m map[string]int, kind string) {
	if c15guard(func() { m, kind = c15index0(i, refs, counts, taxa, taxo) }) {
		return nil, "timeout"
	}
	return m, kind
}

func c15index0(i int, refs obiseq.BioSequenceSlice, counts []*obikmer.Table4mer, taxa obitax.TaxonSet, taxo *obitax.Taxonomy) (m map[string]int, kind string) {
	defer func() {
		if r := recover(); r != nil {
			m, kind = nil, "panic"
		}
	}()
	idx := obirefidx.IndexSequence(i, refs, &counts, &taxa, taxo)
	m = map[string]int{}
	for d, v := range idx {
		parts := strings.Split(v, "@")
		t, err := strconv.Atoi(parts[0])
		if err != nil {
			t = -1
		}
		m[strconv.Itoa(d)] = t
	}
	return m, "ok"
}

func c15identify(q *obiseq.BioSequence, refs obiseq.BioSequenceSlice, counts []*obikmer.Table4mer, taxa obitax.TaxonSet, taxo *obitax.Taxonomy) (taxid int, kind, msg string) {
	if c15guard(func() { taxid, kind, msg = c15identify0(q, refs, counts, taxa, taxo) }) {
		return -1, "timeout", "Identify did not return within 4 s"
	}
	return taxid, kind, msg
}

func c15identify0(q *obiseq.BioSequence, refs obiseq.BioSequenceSlice, counts []*obikmer.Table4mer, taxa obitax.TaxonSet, taxo *obitax.Taxonomy) (taxid int, kind, msg string) {
	defer func() {
		if r := recover(); r != nil {
			taxid, kind, msg = -1, "panic", fmt.Sprint(r)
		}
	}()
	s := obitag.Identify(q, refs, counts, taxa, taxo, false)
	return s.Taxid(), "ok", ""
}

// c15tables dumps the parts of the code the model is regenerated from: the base-code table of Encode4mer and the
// width of a Table4mer cell.
func c15tables() map[string]any {
	var t obikmer.Table4mer
	tab := obikmer.VerifC15SingleBaseCode()
	codes := make([]int, len(tab))
	for i, b := range tab {
		codes[i] = int(b)
	}
	return map[string]any{"kind": "tables", "base_code": codes, "cell_bits": reflect.TypeOf(t).Elem().Bits(), "cells": len(t)}
}

// c15wrap: sequences long enough for a 4-mer counter to wrap. The unbounded kernel is quadratic (and packs the path
// length in 16 bits): distances are established by D1Or0 only (-1 = more than one difference).
func c15wrap(c c15case) map[string]any {
	q := c15seq("q", c.Q, 1)
	refs := obiseq.MakeBioSequenceSlice()
	counts := make([]*obikmer.Table4mer, len(c.Refs))
	qw := obikmer.Count4Mer(q, nil, nil)
	cw := make([]int, len(c.Refs))
	d1 := make([]int, len(c.Refs))
	self := make([]int, len(c.Refs))
	for i, s := range c.Refs {
		r := c15seq("r"+strconv.Itoa(i), s, 1)
		refs = append(refs, r)
		counts[i] = obikmer.Count4Mer(r, nil, nil)
		cw[i] = obikmer.Common4Mer(qw, counts[i])
		self[i] = obikmer.Common4Mer(counts[i], counts[i])
		d1[i], _, _, _ = obialign.D1Or0(q, r)
	}
	o := map[string]any{"kind": "wrap", "cw": cw, "d1": d1, "self": self}
	if c.Full {
		var fc c15fc
		func() {
			defer func() {
				if r := recover(); r != nil {
					fc = c15fc{Kind: "panic", Err: fmt.Sprint(r)}
				}
			}()
			fc = c15find0(obitag.FindClosests, q, refs, counts)
		}()
		o["fc"] = fc
	}
	return o
}

func c15any(c c15case) any {
	switch c.Kind {
	case "tables":
		return c15tables()
	case "wrap":
		return c15wrap(c)
	}
	return c15run(c)
}

func c15run(c c15case) (o c15obs) {
	defer func() {
		if r := recover(); r != nil {
			o = c15obs{Kind: "panic", KBad: fmt.Sprint(r)}
		}
	}()
	taxo, err := c15taxo(c.Taxo)
	if err != nil {
		return c15obs{Kind: "badcase", KBad: err.Error()}
	}
	mk := func() (obiseq.BioSequenceSlice, []*obikmer.Table4mer, obitax.TaxonSet) {
		refs := obiseq.MakeBioSequenceSlice()
		counts := make([]*obikmer.Table4mer, len(c.Refs))
		taxa := make(obitax.TaxonSet, len(c.Refs))
		for i, s := range c.Refs {
			r := c15seq("r"+strconv.Itoa(i), s, c.Taxids[i])
			refs = append(refs, r)
			counts[i] = obikmer.Count4Mer(r, nil, nil)
			t, err := taxo.Taxon(c.Taxids[i])
			if err != nil {
				panic(err)
			}
			taxa[i] = t
		}
		return refs, counts, taxa
	}
	refs, counts, taxa := mk()
	q := c15seq("q", c.Q, 1)
	o.Kind = "ok"
	qw := obikmer.Count4Mer(q, nil, nil)
	o.Cw = make([]int, len(refs))
	for i := range refs {
		o.Cw[i] = obikmer.Common4Mer(qw, counts[i])
	}
	o.Order = obiutils.Reverse(obiutils.IntOrder(o.Cw), true)
	bad := ""
	o.QD = make([][2]int, len(refs))
	for i, r := range refs {
		l, a := c15dist(q, r, &bad)
		o.QD[i] = [2]int{l, a}
	}
	o.FC = c15find(obitag.FindClosests, q, refs, counts)
	o.FC2 = c15find(obitag2.FindClosests, q, refs, counts)
	if c.Index {
		n := len(refs)
		o.RD = make([][]int, n)
		o.RCw = make([][]int, n)
		o.ROrder = make([][]int, n)
		for i := 0; i < n; i++ {
			o.RD[i] = make([]int, n)
			o.RCw[i] = make([]int, n)
			for j := 0; j < n; j++ {
				l, a := c15dist(refs[i], refs[j], &bad)
				o.RD[i][j] = a - l
				o.RCw[i][j] = obikmer.Common4Mer(counts[i], counts[j])
			}
			o.ROrder[i] = obiutils.Reverse(obiutils.IntOrder(o.RCw[i]), true)
		}
		o.Index = make([]map[string]int, n)
		o.IdxKind = make([]string, n)
		for i := 0; i < n; i++ {
			o.Index[i], o.IdxKind[i] = c15index(i, refs, counts, taxa, taxo)
		}
		// Identify on a fresh copy of the database (indices built lazily by Identify itself)
		refs2, counts2, taxa2 := mk()
		q2 := c15seq("q", c.Q, 1)
		o.Taxid, o.IdKind, o.IdErr = c15identify(q2, refs2, counts2, taxa2, taxo)
		// Identify on a database indexed beforehand by IndexSequence, the index attribute having the shape it
		// has after a round trip through a file (map with string keys)
		refs3, counts3, taxa3 := mk()
		pre := true
		for i := 0; i < n && pre; i++ {
			if c15guard(func() {
				defer func() {
					if r := recover(); r != nil {
						pre = false
					}
				}()
				idx := obirefidx.IndexSequence(i, refs3, &counts3, &taxa3, taxo)
				m := make(map[string]string, len(idx))
				for d, v := range idx {
					m[strconv.Itoa(d)] = v
				}
				refs3[i].SetAttribute("obitag_ref_index", m)
			}) {
				pre = false
			}
		}
		q3 := c15seq("q", c.Q, 1)
		k3, e3 := "panic", "IndexSequence failed"
		if pre {
			o.Taxid2, k3, e3 = c15identify(q3, refs3, counts3, taxa3, taxo)
		}
		if k3 != "ok" && o.IdKind == "ok" {
			o.IdKind, o.IdErr = k3, "pre-indexed database: "+e3
		}
	}
	if c.Index && len(refs) >= 2 {
		o.Taxid3, o.Best3, o.CliKind = c15cli(c, taxo)
	}
	o.KOk = bad == ""
	o.KBad = bad
	return o
}

// c15cli runs the query through obitag.CLIAssignTaxonomy on the references of the case with, inserted in the middle,
// one more reference (a copy of the query: it would be THE best match) whose taxid the taxonomy does not know.
func c15cli(c c15case, taxo *obitax.Taxonomy) (taxid int, best string, kind string) {
	taxid, kind = -1, "ok"
	if c15guard(func() {
		defer func() {
			if r := recover(); r != nil {
				kind = "panic: " + fmt.Sprint(r)
			}
		}()
		refs := obiseq.MakeBioSequenceSlice()
		at := len(c.Refs) / 2
		for i, s := range c.Refs {
			if i == at {
				refs = append(refs, c15seq("unknown_taxid", c.Q, 987654321))
			}
			refs = append(refs, c15seq("r"+strconv.Itoa(i), s, c.Taxids[i]))
		}
		q := c15seq("q", c.Q, 1)
		it := obiiter.IBatchOver("c15", obiseq.BioSequenceSlice{q}, 10)
		out := obitag.CLIAssignTaxonomy(it, refs, taxo)
		for out.Next() {
			for _, s := range out.Get().Slice() {
				taxid = s.Taxid()
				if b, ok := s.GetStringAttribute("obitag_bestmatch"); ok {
					best = b
				}
			}
		}
	}) {
		return -1, "", "timeout"
	}
	return taxid, best, kind
}

func init() {
	register("c15", func(in *bufio.Reader, out *bufio.Writer) error {
		return eachLine(in, out, func(c c15case) any { return c15any(c) })
	})
}
