package main

// vh c15 — obitag / obirefidx search and indexing on a synthetic reference database + taxonomy.
// Runs the REAL obitag.FindClosests, obitag2.FindClosests, obirefidx.IndexSequence, obitag.Identify,
// obikmer.Count4Mer/Common4Mer and the real LCS kernels (FastLCSScore, D1Or0) pair by pair.

import (
	"bufio"
	"fmt"
	"reflect"
	"strconv"
	"strings"
	"sync/atomic"
	"time"

	"git.metabarcoding.org/obitools/obitools4/obitools4/pkg/obialign"
	"git.metabarcoding.org/obitools/obitools4/obitools4/pkg/obiiter"
	"git.metabarcoding.org/obitools/obitools4/obitools4/pkg/obikmer"
	"git.metabarcoding.org/obitools/obitools4/obitools4/pkg/obiseq"
	"git.metabarcoding.org/obitools/obitools4/obitools4/pkg/obitax"
	"git.metabarcoding.org/obitools/obitools4/obitools4/pkg/obitools/obirefidx"
	"git.metabarcoding.org/obitools/obitools4/obitools4/pkg/obitools/obitag"
	"git.metabarcoding.org/obitools/obitools4/obitools4/pkg/obitools/obitag2"
	"git.metabarcoding.org/obitools/obitools4/obitools4/pkg/obiutils"
)

type c15case struct {
	Kind   string   `json:"kind,omitempty"` // "" (search / index / identify), "tables", "wrap"
	Full   bool     `json:"full,omitempty"` // wrap: also run obitag.FindClosests (one unbounded alignment of two 65 kb sequences)
	Q      string   `json:"q"`
	Refs   []string `json:"refs"`
	Taxids []int    `json:"taxids"` // taxid of each reference
	Taxo   [][2]int `json:"taxo"`   // (taxid, parent); the root is (1,1)
	Index  bool     `json:"index"`  // also run IndexSequence on every reference + Identify
	// loader only: run obitag.CLIAssignTaxonomy with the reference of unknown taxid placed first / in the middle / last
	// (a panic inside the worker goroutines of the loader kills the process: these cases are sent in a batch of their own)
	Loader bool `json:"loader,omitempty"`
}

type c15fc struct {
	Kind      string  `json:"kind"` // ok | panic
	Idxs      []int   `json:"idxs"` // bestidxs in the order returned
	Maxe      int     `json:"maxe"`
	BestId    float64 `json:"bestid"`
	BestMatch string  `json:"bestmatch"`
	// bests[i] is references[idxs[i]] for every i and both have the same length (Identify indexes references[seqidxs[i]]
	// and stores the result on it while it reads the index of bests[i])
	PairOK  bool     `json:"pairok"`
	BestIds []string `json:"bestids"`
	Err     string   `json:"err,omitempty"`
}

type c15clires struct {
	Taxid int    `json:"taxid"`
	Best  string `json:"best,omitempty"`
	Count int    `json:"count"`
	Kind  string `json:"kind"`
}

type c15obs struct {
	Kind  string   `json:"kind"`
	Cw    []int    `json:"cw"`    // Common4Mer(query, ref_i)
	Order []int    `json:"order"` // candidate order used by FindClosests
	QD    [][2]int `json:"qd"`    // (lcs, alilen) of FastLCSScore(q, ref_i, -1)
	KOk   bool     `json:"kok"`   // bounded kernel / D1Or0 agree with the unbounded kernel on every pair used
	KBad  string   `json:"kbad,omitempty"`
	FC    c15fc    `json:"fc"`
	FC2   c15fc    `json:"fc2"`
	// indexing part
	RCw     [][]int          `json:"rcw,omitempty"`    // Common4Mer(ref_i, ref_j)
	ROrder  [][]int          `json:"rorder,omitempty"` // candidate order used by IndexSequence(i)
	RD      [][]int          `json:"rd,omitempty"`     // distance matrix between references (unbounded kernel)
	Index   []map[string]int `json:"index,omitempty"`  // per reference: distance -> taxid
	IdxKind []string         `json:"idxkind,omitempty"`
	Taxid   int              `json:"taxid"`  // taxid written by Identify (indices built lazily by Identify)
	Taxid2  int              `json:"taxid2"` // same, database indexed beforehand (index stored as read back from a file: string keys)
	// taxid / best match written by obitag.CLIAssignTaxonomy (the loader of the command: 4-mer tables, taxa, and the
	// references whose taxid is unknown to the taxonomy discarded) on the same database + one such reference
	Taxid3  int    `json:"taxid3"`
	Best3   string `json:"best3,omitempty"`
	CliKind string `json:"clikind,omitempty"`
	// same with the reference of unknown taxid placed first / last in the database
	CliAt map[string]c15clires `json:"cliat,omitempty"`
	// obitag.MatchDistanceIndex / obitag2.MatchDistanceIndex on the index IndexSequence built for each reference, for the
	// distances 0 .. largest recorded distance + 2: taxid answered; MdiStr = (rank, scientificName) answered for reference 0, distance 0
	Mdi    [][]int  `json:"mdi,omitempty"`
	Mdi2   [][]int  `json:"mdi2,omitempty"`
	MdiStr []string `json:"mdistr,omitempty"`
	// obikmer.Sum4Mer(query), and per reference LCS4MerBounds / Error4MerBounds (query, reference): (lcsMin, lcsMax, errMin, errMax)
	Sum4   int      `json:"sum4"`
	Bounds [][4]int `json:"bounds,omitempty"`
	IdKind string   `json:"idkind,omitempty"`
	IdErr  string   `json:"iderr,omitempty"`
}

func c15seq(id, s string, taxid int) *obiseq.BioSequence {
	b := obiseq.NewBioSequence(id, []byte(s), "")
	b.SetTaxid(taxid)
	return b
}

func c15taxo(t [][2]int) (*obitax.Taxonomy, error) {
	taxo := obitax.NewTaxonomy()
	sci := "scientific name"
	for _, p := range t {
		if _, err := taxo.AddNewTaxa(p[0], p[1], "rank"+strconv.Itoa(p[0]), false, false); err != nil {
			return nil, err
		}
		name := "t" + strconv.Itoa(p[0])
		if err := taxo.AddNewName(p[0], &name, &sci); err != nil {
			return nil, err
		}
	}
	if err := taxo.ReindexParent(); err != nil {
		return nil, err
	}
	return taxo, nil
}

// distance by the unbounded kernel + consistency of the bounded kernel and of D1Or0 with it
func c15dist(a, b *obiseq.BioSequence, bad *string) (int, int) {
	lcs, ali := obialign.FastLCSScore(a, b, -1, nil)
	d := ali - lcs
	note := func(s string) {
		if *bad == "" {
			*bad = s + " on " + a.String() + " / " + b.String()
		}
	}
	if lcs < 0 {
		note("unbounded FastLCSScore returns -1")
		return lcs, ali
	}
	// bounded kernel: must answer exactly (lcs, ali) when d <= bound; when d > bound it may answer -1 or any
	// alignment with more than `bound` differences (FindClosests/IndexSequence ignore such answers)
	for _, e := range []int{d - 1, d, d + 1, 2, 3, 4} {
		if e < 2 && e != d { // the callers use the bounded kernel with bounds >= 2 only (D1Or0 below that)
			continue
		}
		if e < 0 {
			continue
		}
		l4, a4 := obialign.FastLCSScore(a, b, e, nil)
		if e >= d && (l4 != lcs || a4 != ali) {
			note(fmt.Sprintf("FastLCSScore(maxError=%d)=(%d,%d) but unbounded=(%d,%d)", e, l4, a4, lcs, ali))
		}
		if e < d && l4 >= 0 && a4-l4 <= e {
			note(fmt.Sprintf("FastLCSScore(maxError=%d)=(%d,%d) claims a pair at distance %d is within the bound", e, l4, a4, d))
		}
	}
	d1, _, _, _ := obialign.D1Or0(a, b)
	if (d <= 1 && d1 != d) || (d > 1 && d1 != -1) {
		note(fmt.Sprintf("D1Or0=%d but unbounded distance=%d", d1, d))
	}
	return lcs, ali
}

// c15guard runs f with a deadline: a call of the real code that does not return (Identify's lookup loop
// can spin) is abandoned (its goroutine keeps spinning: after 3 of them no further call is attempted).
var c15hung int32

func c15guard(f func()) (timedOut bool) {
	if atomic.LoadInt32(&c15hung) >= 3 {
		return true
	}
	done := make(chan struct{})
	go func() {
		defer close(done)
		f()
	}()
	select {
	case <-done:
		return false
	case <-time.After(4 * time.Second):
		atomic.AddInt32(&c15hung, 1)
		return true
	}
}

type c15finder func(*obiseq.BioSequence, obiseq.BioSequenceSlice, []*obikmer.Table4mer, bool) (obiseq.BioSequenceSlice, int, float64, string, []int)

func c15find(f c15finder, q *obiseq.BioSequence, refs obiseq.BioSequenceSlice, counts []*obikmer.Table4mer) (o c15fc) {
	if c15guard(func() { o = c15find0(f, q, refs, counts) }) {
		return c15fc{Kind: "timeout"}
	}
	return o
}

func c15find0(f c15finder, q *obiseq.BioSequence, refs obiseq.BioSequenceSlice, counts []*obikmer.Table4mer) (o c15fc) {
	defer func() {
		if r := recover(); r != nil {
			o = c15fc{Kind: "panic", Err: fmt.Sprint(r)}
		}
	}()
	bests, maxe, bestid, bestmatch, idxs := f(q, refs, counts, false)
	if idxs == nil {
		idxs = []int{}
	}
	pair := len(bests) == len(idxs)
	ids := make([]string, 0, len(bests))
	for i, b := range bests {
		ids = append(ids, b.Id())
		if i >= len(idxs) || idxs[i] < 0 || idxs[i] >= len(refs) || refs[idxs[i]] != b {
			pair = false
		}
	}
	return c15fc{Kind: "ok", Idxs: idxs, Maxe: maxe, BestId: bestid, BestMatch: bestmatch, PairOK: pair, BestIds: ids}
}

func c15index(i int, refs obiseq.BioSequenceSlice, counts []*obikmer.Table4mer, taxa obitax.TaxonSet, taxo *obitax.Taxonomy) (m map[string]int, raw map[int]string, kind string) {
	if c15guard(func() { m, raw, kind = c15index0(i, refs, counts, taxa, taxo) }) {
		return nil, nil, "timeout"
	}
	return m, raw, kind
}

// c15mdi: the two MatchDistanceIndex functions on a real index, distances 0 .. largest key + 2
func c15mdi(f func(int, map[int]string) (int, string, string), idx map[int]string) (out []int, rank, name string) {
	defer func() {
		if r := recover(); r != nil {
			out = append(out, -2)
		}
	}()
	top := 0
	for k := range idx {
		if k > top {
			top = k
		}
	}
	for e := 0; e <= top+2; e++ {
		t, rk, nm := f(e, idx)
		if e == 0 {
			rank, name = rk, nm
		}
		out = append(out, t)
	}
	return out, rank, name
}

func c15index0(i int, refs obiseq.BioSequenceSlice, counts []*obikmer.Table4mer, taxa obitax.TaxonSet, taxo *obitax.Taxonomy) (m map[string]int, idx map[int]string, kind string) {
	defer func() {
		if r := recover(); r != nil {
			m, idx, kind = nil, nil, "panic"
		}
	}()
	idx = obirefidx.IndexSequence(i, refs, &counts, &taxa, taxo)
	m = map[string]int{}
	for d, v := range idx {
		parts := strings.Split(v, "@")
		t, err := strconv.Atoi(parts[0])
		if err != nil {
			t = -1
		}
		m[strconv.Itoa(d)] = t
	}
	return m, idx, "ok"
}

func c15identify(q *obiseq.BioSequence, refs obiseq.BioSequenceSlice, counts []*obikmer.Table4mer, taxa obitax.TaxonSet, taxo *obitax.Taxonomy) (taxid int, kind, msg string) {
	if c15guard(func() { taxid, kind, msg = c15identify0(q, refs, counts, taxa, taxo) }) {
		return -1, "timeout", "Identify did not return within 4 s"
	}
	return taxid, kind, msg
}

func c15identify0(q *obiseq.BioSequence, refs obiseq.BioSequenceSlice, counts []*obikmer.Table4mer, taxa obitax.TaxonSet, taxo *obitax.Taxonomy) (taxid int, kind, msg string) {
	defer func() {
		if r := recover(); r != nil {
			taxid, kind, msg = -1, "panic", fmt.Sprint(r)
		}
	}()
	s := obitag.Identify(q, refs, counts, taxa, taxo, false)
	return s.Taxid(), "ok", ""
}

// c15tables dumps the parts of the code the model is regenerated from: the base-code table of Encode4mer and the
// width of a Table4mer cell.
func c15tables() map[string]any {
	var t obikmer.Table4mer
	tab := obikmer.VerifC15SingleBaseCode()
	codes := make([]int, len(tab))
	for i, b := range tab {
		codes[i] = int(b)
	}
	return map[string]any{"kind": "tables", "base_code": codes, "cell_bits": reflect.TypeOf(t).Elem().Bits(), "cells": len(t)}
}

// c15wrap: sequences long enough for a 4-mer counter to wrap. The unbounded kernel is quadratic (and packs the path
// length in 16 bits): distances are established by D1Or0 only (-1 = more than one difference).
func c15wrap(c c15case) map[string]any {
	q := c15seq("q", c.Q, 1)
	refs := obiseq.MakeBioSequenceSlice()
	counts := make([]*obikmer.Table4mer, len(c.Refs))
	qw := obikmer.Count4Mer(q, nil, nil)
	cw := make([]int, len(c.Refs))
	d1 := make([]int, len(c.Refs))
	self := make([]int, len(c.Refs))
	for i, s := range c.Refs {
		r := c15seq("r"+strconv.Itoa(i), s, 1)
		refs = append(refs, r)
		counts[i] = obikmer.Count4Mer(r, nil, nil)
		cw[i] = obikmer.Common4Mer(qw, counts[i])
		self[i] = obikmer.Common4Mer(counts[i], counts[i])
		d1[i], _, _, _ = obialign.D1Or0(q, r)
	}
	o := map[string]any{"kind": "wrap", "cw": cw, "d1": d1, "self": self}
	if c.Full {
		var fc c15fc
		func() {
			defer func() {
				if r := recover(); r != nil {
					fc = c15fc{Kind: "panic", Err: fmt.Sprint(r)}
				}
			}()
			fc = c15find0(obitag.FindClosests, q, refs, counts)
		}()
		o["fc"] = fc
	}
	return o
}

func c15any(c c15case) any {
	switch c.Kind {
	case "tables":
		return c15tables()
	case "wrap":
		return c15wrap(c)
	}
	if c.Loader {
		taxo, err := c15taxo(c.Taxo)
		if err != nil {
			return c15obs{Kind: "badcase", KBad: err.Error()}
		}
		return c15obs{Kind: "loader", CliAt: map[string]c15clires{"first": c15cli(c, taxo, 0), "middle": c15cli(c, taxo, len(c.Refs)/2),
			"last": c15cli(c, taxo, len(c.Refs)), "none": c15cli(c, taxo, -1)}}
	}
	return c15run(c)
}

func c15run(c c15case) (o c15obs) {
	defer func() {
		if r := recover(); r != nil {
			o = c15obs{Kind: "panic", KBad: fmt.Sprint(r)}
		}
	}()
	taxo, err := c15taxo(c.Taxo)
	if err != nil {
		return c15obs{Kind: "badcase", KBad: err.Error()}
	}
	mk := func() (obiseq.BioSequenceSlice, []*obikmer.Table4mer, obitax.TaxonSet) {
		refs := obiseq.MakeBioSequenceSlice()
		counts := make([]*obikmer.Table4mer, len(c.Refs))
		taxa := make(obitax.TaxonSet, len(c.Refs))
		for i, s := range c.Refs {
			r := c15seq("r"+strconv.Itoa(i), s, c.Taxids[i])
			refs = append(refs, r)
			counts[i] = obikmer.Count4Mer(r, nil, nil)
			t, err := taxo.Taxon(c.Taxids[i])
			if err != nil {
				panic(err)
			}
			taxa[i] = t
		}
		return refs, counts, taxa
	}
	refs, counts, taxa := mk()
	q := c15seq("q", c.Q, 1)
	o.Kind = "ok"
	qw := obikmer.Count4Mer(q, nil, nil)
	o.Cw = make([]int, len(refs))
	for i := range refs {
		o.Cw[i] = obikmer.Common4Mer(qw, counts[i])
	}
	o.Order = obiutils.Reverse(obiutils.IntOrder(o.Cw), true)
	o.Sum4 = obikmer.Sum4Mer(qw)
	o.Bounds = make([][4]int, len(refs))
	for i := range refs {
		l0, l1 := obikmer.LCS4MerBounds(qw, counts[i])
		e0, e1 := obikmer.Error4MerBounds(qw, counts[i])
		o.Bounds[i] = [4]int{l0, l1, e0, e1}
	}
	bad := ""
	o.QD = make([][2]int, len(refs))
	for i, r := range refs {
		l, a := c15dist(q, r, &bad)
		o.QD[i] = [2]int{l, a}
	}
	o.FC = c15find(obitag.FindClosests, q, refs, counts)
	o.FC2 = c15find(obitag2.FindClosests, q, refs, counts)
	if c.Index {
		n := len(refs)
		o.RD = make([][]int, n)
		o.RCw = make([][]int, n)
		o.ROrder = make([][]int, n)
		for i := 0; i < n; i++ {
			o.RD[i] = make([]int, n)
			o.RCw[i] = make([]int, n)
			for j := 0; j < n; j++ {
				l, a := c15dist(refs[i], refs[j], &bad)
				o.RD[i][j] = a - l
				o.RCw[i][j] = obikmer.Common4Mer(counts[i], counts[j])
			}
			o.ROrder[i] = obiutils.Reverse(obiutils.IntOrder(o.RCw[i]), true)
		}
		o.Index = make([]map[string]int, n)
		o.IdxKind = make([]string, n)
		o.Mdi = make([][]int, n)
		o.Mdi2 = make([][]int, n)
		for i := 0; i < n; i++ {
			var raw map[int]string
			o.Index[i], raw, o.IdxKind[i] = c15index(i, refs, counts, taxa, taxo)
			if o.IdxKind[i] == "ok" {
				var rk, nm string
				o.Mdi[i], rk, nm = c15mdi(obitag.MatchDistanceIndex, raw)
				o.Mdi2[i], _, _ = c15mdi(obitag2.MatchDistanceIndex, raw)
				if i == 0 {
					o.MdiStr = []string{rk, nm}
				}
			}
		}
		// Identify on a fresh copy of the database (indices built lazily by Identify itself)
		refs2, counts2, taxa2 := mk()
		q2 := c15seq("q", c.Q, 1)
		o.Taxid, o.IdKind, o.IdErr = c15identify(q2, refs2, counts2, taxa2, taxo)
		// Identify on a database indexed beforehand by IndexSequence, the index attribute having the shape it
		// has after a round trip through a file (map with string keys)
		refs3, counts3, taxa3 := mk()
		pre := true
		for i := 0; i < n && pre; i++ {
			if c15guard(func() {
				defer func() {
					if r := recover(); r != nil {
						pre = false
					}
				}()
				idx := obirefidx.IndexSequence(i, refs3, &counts3, &taxa3, taxo)
				m := make(map[string]string, len(idx))
				for d, v := range idx {
					m[strconv.Itoa(d)] = v
				}
				refs3[i].SetAttribute("obitag_ref_index", m)
			}) {
				pre = false
			}
		}
		q3 := c15seq("q", c.Q, 1)
		k3, e3 := "panic", "IndexSequence failed"
		if pre {
			o.Taxid2, k3, e3 = c15identify(q3, refs3, counts3, taxa3, taxo)
		}
		if k3 != "ok" && o.IdKind == "ok" {
			o.IdKind, o.IdErr = k3, "pre-indexed database: "+e3
		}
	}
	if c.Index && len(refs) >= 2 {
		r := c15cli(c, taxo, len(c.Refs)/2)
		o.Taxid3, o.Best3, o.CliKind = r.Taxid, r.Best, r.Kind
	}
	o.KOk = bad == ""
	o.KBad = bad
	return o
}

// c15cli runs the query through obitag.CLIAssignTaxonomy on the references of the case with, inserted at position `at`
// (0 = first, len = last), one more reference (a copy of the query: it would be THE best match) whose taxid the taxonomy
// does not know.
func c15cli(c c15case, taxo *obitax.Taxonomy, at int) c15clires {
	taxid, best, kind, count := -1, "", "ok", -1
	if c15guard(func() {
		defer func() {
			if r := recover(); r != nil {
				kind = "panic: " + fmt.Sprint(r)
			}
		}()
		refs := obiseq.MakeBioSequenceSlice()
		for i, s := range c.Refs {
			if i == at {
				refs = append(refs, c15seq("unknown_taxid", c.Q, 987654321))
			}
			refs = append(refs, c15seq("r"+strconv.Itoa(i), s, c.Taxids[i]))
		}
		if at >= len(c.Refs) {
			refs = append(refs, c15seq("unknown_taxid", c.Q, 987654321))
		}
		q := c15seq("q", c.Q, 1)
		it := obiiter.IBatchOver("c15", obiseq.BioSequenceSlice{q}, 10)
		out := obitag.CLIAssignTaxonomy(it, refs, taxo)
		for out.Next() {
			for _, s := range out.Get().Slice() {
				taxid = s.Taxid()
				if b, ok := s.GetStringAttribute("obitag_bestmatch"); ok {
					best = b
				}
				if n, ok := s.GetIntAttribute("obitag_match_count"); ok {
					count = n
				}
			}
		}
	}) {
		return c15clires{Taxid: -1, Kind: "timeout", Count: -1}
	}
	return c15clires{Taxid: taxid, Best: best, Kind: kind, Count: count}
}

func init() {
	register("c15", func(in *bufio.Reader, out *bufio.Writer) error {
		return eachLine(in, out, func(c c15case) any { return c15any(c) })
	})
}
