//go:build verif

// vh c08first — FIRST use of the alignment code of a process by several goroutines at once.
// obialign fills its score tables lazily at the first alignment; every worker of obipairing starts with its first pair at
// the same time. One input line = one fresh-process trial: the pairs are dealt to `workers` goroutines released together
// (own arena and shift map each, as IAssemblePESequencesBatch does), then the same pairs are aligned again serially; the
// observation lists the pairs whose concurrent result differs from the serial one.
package main

import (
	"bufio"
	"fmt"
	"reflect"
	"sync"

	"git.metabarcoding.org/obitools/obitools4/obitools4/pkg/obialign"
)

type c08firstCase struct {
	Pairs   []c08case `json:"pairs"`
	Workers int       `json:"workers"`
	// "left" | "right" | "center": the very first alignment of the process is PELeftAlign / PERightAlign / PECenterAlign on
	// pair 0 (each of them fills the score tables itself when nothing did before); it is repeated at the end
	Api string `json:"api,omitempty"`
}

type c08firstRes struct {
	Kind      string  `json:"kind"`
	Err       string  `json:"err,omitempty"`
	IsLeft    bool    `json:"isleft"`
	Score     int     `json:"score"`
	Path      []int   `json:"path"`
	FastCount int     `json:"fastcount"`
	Over      int     `json:"over"`
	FastScore float64 `json:"fastscore"`
}

type c08firstObs struct {
	Kind       string        `json:"kind"`
	N          int           `json:"n"`
	Diff       []int         `json:"diff"`
	Concurrent []c08firstRes `json:"concurrent,omitempty"` // only for the differing pairs
	Serial     []c08firstRes `json:"serial,omitempty"`
	ApiFirst   *c08sp        `json:"apifirst,omitempty"`
	ApiAgain   *c08sp        `json:"apiagain,omitempty"`
}

func c08firstApi(which string, c c08case) *c08sp {
	sa, sb := c08mk("A", c.A, c.QA), c08mk("B", c.B, c.QB)
	return c08side(func() (int, []int) {
		switch which {
		case "left":
			return obialign.PELeftAlign(sa, sb, c.Gap, c.Scale, obialign.NilPEAlignArena)
		case "right":
			return obialign.PERightAlign(sa, sb, c.Gap, c.Scale, obialign.NilPEAlignArena)
		}
		return obialign.PECenterAlign(sa, sb, c.Gap, c.Scale, obialign.NilPEAlignArena)
	})
}

func c08firstAlign(c c08case, arena obialign.PEAlignArena, shifts *map[int]int) (r c08firstRes) {
	defer func() {
		if e := recover(); e != nil {
			r = c08firstRes{Kind: "panic", Err: fmt.Sprint(e)}
		}
	}()
	sa, sb := c08mk("A", c.A, c.QA), c08mk("B", c.B, c.QB)
	isLeft, score, path, fc, over, fs := obialign.PEAlign(sa, sb, c.Gap, c.Scale, c.Fast, c.Delta, c.Rel, arena, shifts)
	return c08firstRes{Kind: "ok", IsLeft: isLeft, Score: score, Path: append([]int{}, path...), FastCount: fc, Over: over, FastScore: fs}
}

func c08firstRun(c c08firstCase) any {
	w := c.Workers
	if w < 1 {
		w = 1
	}
	var apiFirst *c08sp
	if c.Api != "" && len(c.Pairs) > 0 {
		apiFirst = c08firstApi(c.Api, c.Pairs[0])
	}
	conc := make([]c08firstRes, len(c.Pairs))
	start := make(chan struct{})
	var wg sync.WaitGroup
	for k := 0; k < w; k++ {
		wg.Add(1)
		go func(k int) {
			defer wg.Done()
			arena := obialign.MakePEAlignArena(150, 150)
			shifts := make(map[int]int)
			<-start
			for i := k; i < len(c.Pairs); i += w {
				conc[i] = c08firstAlign(c.Pairs[i], arena, &shifts)
			}
		}(k)
	}
	close(start)
	wg.Wait()
	o := &c08firstObs{Kind: "ok", N: len(c.Pairs), Diff: []int{}}
	if apiFirst != nil {
		o.ApiFirst, o.ApiAgain = apiFirst, c08firstApi(c.Api, c.Pairs[0])
	}
	arena := obialign.MakePEAlignArena(150, 150)
	shifts := make(map[int]int)
	for i, p := range c.Pairs {
		s := c08firstAlign(p, arena, &shifts)
		if !reflect.DeepEqual(s, conc[i]) {
			o.Diff = append(o.Diff, i)
			o.Concurrent = append(o.Concurrent, conc[i])
			o.Serial = append(o.Serial, s)
		}
	}
	return o
}

func init() {
	register("c08first", func(in *bufio.Reader, out *bufio.Writer) error {
		return eachLine(in, out, c08firstRun)
	})
}
