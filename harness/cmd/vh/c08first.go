//go:build verif

// vh c08first — FIRST use of the alignment code of a process by several goroutines at once.
// obialign fills its score tables lazily at the first alignment; every worker of obipairing starts with its first pair at
// the same time. One input line = one fresh-process trial: the pairs are dealt to `workers` goroutines released together
// (own arena and shift map each, as IAssemblePESequencesBatch does), then the same pairs are aligned again serially; the
// observation lists the pairs whose concurrent result differs from the serial one.
package main

import (
	"bufio"
	"fmt"
	"reflect"
	"sync"

	"git.metabarcoding.org/obitools/obitools4/obitools4/pkg/obialign"
)

type c08firstCase struct {
	Pairs   []c08case `json:"pairs"`
	Workers int       `json:"workers"`
}

type c08firstRes struct {
	Kind      string  `json:"kind"`
	Err       string  `json:"err,omitempty"`
	IsLeft    bool    `json:"isleft"`
	Score     int     `json:"score"`
	Path      []int   `json:"path"`
	FastCount int     `json:"fastcount"`
	Over      int     `json:"over"`
	FastScore float64 `json:"fastscore"`
}

type c08firstObs struct {
	Kind       string        `json:"kind"`
	N          int           `json:"n"`
	Diff       []int         `json:"diff"`
	Concurrent []c08firstRes `json:"concurrent,omitempty"` // only for the differing pairs
	Serial     []c08firstRes `json:"serial,omitempty"`
}

func c08firstAlign(c c08case, arena obialign.PEAlignArena, shifts *map[int]int) (r c08firstRes) {
	defer func() {
		if e := recover(); e != nil {
			r = c08firstRes{Kind: "panic", Err: fmt.Sprint(e)}
		}
	}()
	sa, sb := c08mk("A", c.A, c.QA), c08mk("B", c.B, c.QB)
	isLeft, score, path, fc, over, fs := obialign.PEAlign(sa, sb, c.Gap, c.Scale, c.Fast, c.Delta, c.Rel, arena, shifts)
	return c08firstRes{Kind: "ok", IsLeft: isLeft, Score: score, Path: append([]int{}, path...), FastCount: fc, Over: over, FastScore: fs}
}

func c08firstRun(c c08firstCase) any {
	w := c.Workers
	if w < 1 {
		w = 1
	}
	conc := make([]c08firstRes, len(c.Pairs))
	start := make(chan struct{})
	var wg sync.WaitGroup
	for k := 0; k < w; k++ {
		wg.Add(1)
		go func(k int) {
			defer wg.Done()
			arena := obialign.MakePEAlignArena(150, 150)
			shifts := make(map[int]int)
			<-start
			for i := k; i < len(c.Pairs); i += w {
				conc[i] = c08firstAlign(c.Pairs[i], arena, &shifts)
			}
		}(k)
	}
	close(start)
	wg.Wait()
	o := &c08firstObs{Kind: "ok", N: len(c.Pairs), Diff: []int{}}
	arena := obialign.MakePEAlignArena(150, 150)
	shifts := make(map[int]int)
	for i, p := range c.Pairs {
		s := c08firstAlign(p, arena, &shifts)
		if !reflect.DeepEqual(s, conc[i]) {
			o.Diff = append(o.Diff, i)
			o.Concurrent = append(o.Concurrent, conc[i])
			o.Serial = append(o.Serial, s)
		}
	}
	return o
}

func init() {
	register("c08first", func(in *bufio.Reader, out *bufio.Writer) error {
		return eachLine(in, out, c08firstRun)
	})
}
