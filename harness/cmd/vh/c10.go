package main

// vh c10 — runs the REAL obiapat matcher (cgo: apat_parse.c / apat_search.c / obiapat.c through
// pattern.go) and obialign.LocatePattern on JSON cases and reports the projected observables of
// property C10: the [][3]int of FindAllIndex / FilterBestMatch / AllMatches, the BestMatch tuple,
// the complemented pattern (string + its FindAllIndex on a second text), the LocatePattern tuple.

import (
	"bufio"
	"fmt"
	"strings"

	"git.metabarcoding.org/obitools/obitools4/obitools4/pkg/obialign"
	"git.metabarcoding.org/obitools/obitools4/obitools4/pkg/obiapat"
	"git.metabarcoding.org/obitools/obitools4/obitools4/pkg/obiseq"
)

type c10case struct {
	Kind   string  `json:"kind"` // "match" (default) | "locate"
	Pat    string  `json:"pat"`
	K      int     `json:"k"`
	Indel  bool    `json:"indel"`
	Seq    string  `json:"seq"`
	Begin  int     `json:"begin"`
	Length int     `json:"length"`
	Prev   *string `json:"prev"`  // when set: an ApatSequence is first built on Prev, searched, then recycled for Seq
	PrevCirc bool  `json:"prevcirc"` // the recycled ApatSequence was a circular one
	RcSeq  *string `json:"rcseq"` // when set: the complemented pattern is searched on this text (whole text)
	Apis   bool    `json:"apis"`  // also run FilterBestMatch / AllMatches / BestMatch
	Gc     bool    `json:"gc"`    // lifecycle: nothing is freed explicitly, the finalizers of pattern.go run (runtime.GC) before the next case
	FreeGc bool    `json:"freegc"` // lifecycle: first a pattern, its complement and a sequence are built, released with Free and the garbage collector runs
	Both   bool    `json:"both"`  // kind "pred": IsPatternMatchSequence(..., bothStrand, ...)
	Seqs   []string `json:"seqs"` // kind "pred": the sequences the ONE predicate object is applied to, in order
}

type c10obs struct {
	Kind     string   `json:"kind"` // ok | paterr | panic
	Err      string   `json:"err,omitempty"`
	PatLen   int      `json:"patlen"`
	SeqLen   int      `json:"seqlen"`
	Stored   string   `json:"stored"` // the bytes the BioSequence holds (what LocatePattern reads; EncodeSequence reads the same)
	Find     [][3]int `json:"find"`
	Matching bool     `json:"matching"`
	Filter   [][3]int `json:"filter"`
	All      [][3]int `json:"all"`
	AllPanic string   `json:"all_panic,omitempty"`
	Best     []int    `json:"best"` // start, end, nerr, matched(0/1)
	BestPanic string  `json:"best_panic,omitempty"`
	CPat     string   `json:"cpat,omitempty"`
	CErr     string   `json:"cerr,omitempty"`
	CFind    [][3]int `json:"cfind"`
	Loc      []int    `json:"loc"`
	LocPanic string   `json:"loc_panic,omitempty"`
	Tables   *c10tabs `json:"tables,omitempty"`
	Preds    []bool   `json:"preds,omitempty"` // kind "pred": IsPatternMatchSequence(...)(seq) for every sequence
}

func nz(l [][3]int) [][3]int {
	if l == nil {
		return [][3]int{}
	}
	return l
}

func c10locate(pat, seq string) (o c10obs) {
	o.Kind = "ok"
	defer func() {
		if r := recover(); r != nil {
			o.LocPanic = fmt.Sprint(r)
			if strings.Contains(o.LocPanic, "cannot locate an empty pattern") {
				o.LocPanic = "refused: cannot locate an empty pattern" // the guard of LocatePattern (log.Panicf), without the time stamp
			}
			if len(o.LocPanic) > 120 {
				o.LocPanic = o.LocPanic[:120]
			}
		}
	}()
	a, b, c := obialign.LocatePattern("x", []byte(pat), []byte(seq))
	o.Loc = []int{a, b, c}
	return
}

func c10run(c c10case) (o c10obs) {
	if c.Kind == "locate" {
		return c10locate(c.Pat, c.Seq)
	}
	if c.Kind == "tables" {
		return c10obs{Kind: "tables", Tables: c10tables()}
	}
	if c.Kind == "pred" {
		return c10pred(c)
	}
	defer func() {
		if r := recover(); r != nil {
			o.Kind = "panic"
			o.Err = fmt.Sprint(r)
		}
	}()
	if c.FreeGc {
		c10freegc(c)
	}
	pat, err := obiapat.MakeApatPattern(c.Pat, c.K, c.Indel)
	if err != nil {
		return c10obs{Kind: "paterr"}
	}
	o.Kind = "ok"
	o.PatLen = pat.Len()
	bs := obiseq.NewBioSequence("s", []byte(c.Seq), "")
	var aseq obiapat.ApatSequence
	if c.Prev != nil {
		pbs := obiseq.NewBioSequence("p", []byte(*c.Prev), "")
		old, err := obiapat.MakeApatSequence(pbs, c.PrevCirc)
		if err != nil {
			panic(err)
		}
		_ = pat.FindAllIndex(old, 0, -1) // fills the C hit stacks of the sequence that is recycled
		aseq, err = obiapat.MakeApatSequence(bs, false, old)
		if err != nil {
			panic(err)
		}
	} else {
		aseq, err = obiapat.MakeApatSequence(bs, false)
		if err != nil {
			panic(err)
		}
	}
	o.SeqLen = aseq.Len()
	o.Stored = string(bs.Sequence())
	o.Find = nz(pat.FindAllIndex(aseq, c.Begin, c.Length))
	o.Matching = pat.IsMatching(aseq, c.Begin, c.Length)
	if c.Apis {
		o.Filter = nz(pat.FilterBestMatch(aseq, c.Begin, c.Length))
		func() {
			defer func() {
				if r := recover(); r != nil {
					o.AllPanic = fmt.Sprint(r)
					if len(o.AllPanic) > 120 {
						o.AllPanic = o.AllPanic[:120]
					}
				}
			}()
			o.All = nz(pat.AllMatches(aseq, c.Begin, c.Length))
		}()
		func() {
			defer func() {
				if r := recover(); r != nil {
					o.BestPanic = fmt.Sprint(r)
					if len(o.BestPanic) > 120 {
						o.BestPanic = o.BestPanic[:120]
					}
				}
			}()
			s, e, n, m := pat.BestMatch(aseq, c.Begin, c.Length)
			mi := 0
			if m {
				mi = 1
			}
			o.Best = []int{s, e, n, mi}
		}()
	}
	if c.RcSeq != nil {
		cp, err := pat.ReverseComplement()
		if err != nil {
			o.CErr = "cerr"
		} else {
			o.CPat = cp.String()
			rbs := obiseq.NewBioSequence("r", []byte(*c.RcSeq), "")
			raseq, err := obiapat.MakeApatSequence(rbs, false)
			if err != nil {
				panic(err)
			}
			o.CFind = nz(cp.FindAllIndex(raseq, 0, -1))
			if !c.Gc {
				raseq.Free()
				cp.Free()
			}
		}
	}
	if c.Gc {
		// the finalizers set by MakeApatPattern / ReverseComplement / MakeApatSequence release the C memory:
		// a finalizer that frees twice (or something still in use) aborts the process or corrupts the next cases
		c10gc()
		return
	}
	aseq.Free()
	pat.Free()
	return
}

func init() {
	register("c10", func(in *bufio.Reader, out *bufio.Writer) error {
		return eachLine(in, out, func(c c10case) any {
			o := c10run(c)
			if c.Gc { // the objects of the case are unreachable now: their finalizers run before the next case
				c10gc()
			}
			return o
		})
	})
}
