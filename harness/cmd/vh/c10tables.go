package main

// vh c10, case {"kind":"tables"}: the tables and constants of the CURRENT build that the Rocq model of C10 is
// regenerated from (tools/props/c10.py regen -> coq/theories/C10/Gen/Tables.v): sDnaCode, LX_BIO_CDNA_ALPHA
// (every byte 1..255 through ecoComplementPattern), obialign._iupac, MAX_PAT_LEN, MAX_PAT_ERR, PATMASK, OBLIBIT,
// ALPHA_LEN, the width of patword_t. Read through the verif hooks pkg/obiapat/verif2_c10.go, pkg/obialign/verif2_c10.go.

import (
	"git.metabarcoding.org/obitools/obitools4/obitools4/pkg/obialign"
	"git.metabarcoding.org/obitools/obitools4/obitools4/pkg/obiapat"
)

type c10tabs struct {
	DnaCode   []uint32 `json:"dnacode"` // letters A..Z
	Comp      []int    `json:"comp"`    // complement of every byte 0..255 (0 -> 0)
	Iupac     []int    `json:"iupac"`   // letters a..z
	MaxPatLen int      `json:"max_pat_len"`
	MaxPatErr int      `json:"max_pat_err"`
	PatMask   uint32   `json:"patmask"`
	ObliBit   uint32   `json:"oblibit"`
	AlphaLen  int      `json:"alpha_len"`
	WordBits  int      `json:"word_bits"`
}

func c10tables() *c10tabs {
	t := &c10tabs{}
	dc := obiapat.VerifDnaCode()
	t.DnaCode = dc[:]
	t.Comp = make([]int, 256)
	for b := 1; b < 256; b++ {
		t.Comp[b] = int(obiapat.VerifComplementByte(byte(b)))
	}
	iu := obialign.VerifIupacTable()
	for _, x := range iu {
		t.Iupac = append(t.Iupac, int(x))
	}
	t.MaxPatLen, t.MaxPatErr, t.PatMask, t.ObliBit, t.AlphaLen, t.WordBits = obiapat.VerifConstants()
	return t
}
