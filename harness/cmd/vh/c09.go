package main

// vh c09 — runs the REAL obialign.FastLCSScore / FastLCSEGFScore / D1Or0 on pairs of sequences.
//
// case   {"a": "...", "b": "...", "ms": [bounds], "dump": bool}
// answer {"r": [[m, s,l, s',l', es,el,ee, es',el',ee'], ...], "d": [d,pos,a1,a2], "pre": [[...],[...]]...}
//   unprimed = fresh scratch buffer (nil), primed = one scratch buffer shared by every call of the process
//   (stale contents of the previous calls). A panic of the kernel is reported as s = -99.
//   With "dump", "pre" holds the whole content of the shared buffer just before the primed LCS call and
//   just before the primed EGF call of every bound (2 lists per bound), so that the model can start
//   from the same stale words.

import (
	"bufio"

	"git.metabarcoding.org/obitools/obitools4/obitools4/pkg/obialign"
	"git.metabarcoding.org/obitools/obitools4/obitools4/pkg/obiseq"
)

type c09case struct {
	A    string `json:"a"`
	B    string `json:"b"`
	Ms   []int  `json:"ms"`
	Dump bool   `json:"dump"`
}

type c09obs struct {
	R   [][]int    `json:"r"`
	D   []int      `json:"d"`
	Pre [][]uint64 `json:"pre,omitempty"`
}

var c09shared []uint64

func c09lcs(a, b *obiseq.BioSequence, m int, buf *[]uint64) (s, l int) {
	defer func() {
		if r := recover(); r != nil {
			s, l = -99, -99
		}
	}()
	return obialign.FastLCSScore(a, b, m, buf)
}

func c09egf(a, b *obiseq.BioSequence, m int, buf *[]uint64) (s, l, e int) {
	defer func() {
		if r := recover(); r != nil {
			s, l, e = -99, -99, -99
		}
	}()
	return obialign.FastLCSEGFScore(a, b, m, buf)
}

func c09d1(a, b *obiseq.BioSequence) (r []int) {
	defer func() {
		if rec := recover(); rec != nil {
			r = []int{-99, -99, 0, 0}
		}
	}()
	d, pos, a1, a2 := obialign.D1Or0(a, b)
	return []int{d, pos, int(a1), int(a2)}
}

func c09copy(b []uint64) []uint64 {
	b = b[0:cap(b)]
	r := make([]uint64, len(b))
	copy(r, b)
	return r
}

func init() {
	register("c09", func(in *bufio.Reader, out *bufio.Writer) error {
		return eachLine(in, out, func(c c09case) any {
			sa := obiseq.NewBioSequence("a", []byte(c.A), "")
			sb := obiseq.NewBioSequence("b", []byte(c.B), "")
			o := c09obs{R: make([][]int, 0, len(c.Ms))}
			for _, m := range c.Ms {
				s, l := c09lcs(sa, sb, m, nil)
				if c.Dump {
					o.Pre = append(o.Pre, c09copy(c09shared))
				}
				s2, l2 := c09lcs(sa, sb, m, &c09shared)
				es, el, ee := c09egf(sa, sb, m, nil)
				if c.Dump {
					o.Pre = append(o.Pre, c09copy(c09shared))
				}
				es2, el2, ee2 := c09egf(sa, sb, m, &c09shared)
				o.R = append(o.R, []int{m, s, l, s2, l2, es, el, ee, es2, el2, ee2})
			}
			o.D = c09d1(sa, sb)
			return o
		})
	})
}
