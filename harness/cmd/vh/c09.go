package main

// vh c09 — runs the REAL obialign.FastLCSScore / FastLCSEGFScore / D1Or0 on pairs of sequences.
//
// case   {"kind":"tables"}  ->  {"kind":"tables","iupac":[26 bytes],"wsize":..,"dwsize":..,"empty":..,"out":..,"notavail":..,
//                                "enc":[[score,length,out(0/1),word],..],"dec":[[word,score,length,out],..]}   (current build)
// case   {"kind":"d1all","n":5,"lo":0,"hi":100}  ->  {"kind":"d1all","codes":[..]}: D1Or0 on every ordered pair (a, b) with a the
//          sequences number lo..hi-1 and b every sequence over {a,c,g,t} of length <= n (enumeration: by length, then
//          lexicographic); one code per pair = (verdict+1) + 4*(pos+1) + 64*a1 + 64*256*a2 (verdict -99 on panic -> code -1)
// case   {"kind":"run","seqs":[...],"calls":[[i,j,m],..]}  ->  {"kind":"run","r":[[i,j,m,s,l,d],..]}
//          the calls FastLCSScore(seqs[i], seqs[j], m, &matrix) in that order through ONE buffer (fresh for the case,
//          as a worker of obiclean / obirefidx does), d = D1Or0 verdict of the pair
// case   {"kind":"tag","seqs":[query, ref1, ref2, ..]}  ->  {"kind":"tag","r":[[j,maxe,s,l,d],..]}
//          the candidate loop of obitag.FindClosests (without the 4-mer pruning): maxe starts at -1 and shrinks to the
//          best score seen; D1Or0 when maxe is 0 or 1 (then s = l = -2), else FastLCSScore(query, ref, maxe, &matrix)
// case   {"kind":"byte","ba":[bytes],"bb":[bytes],"ms":[bounds],"bufs":[{"len":k,"cap":n,"pat":[words]},..]}
//          ->  {"kind":"byte","r":[[m, egf(0/1), buffer index (-1 = nil), s, l, e],..]}
//          FastLCSEGFScoreByte called DIRECTLY on raw bytes (any byte value, upper / mixed case: BioSequence lower-cases
//          its sequence, so the case folding of _samenuc is reachable only here), both modes, with a nil buffer and with
//          every described scratch buffer: make([]uint64, len, cap) whose whole capacity is filled with the words of
//          "pat" repeated (stale content chosen by the generator: zeros, all-ones, the largest in-band word, ...).
// case   {"kind":"words","ws":[words]}  ->  {"kind":"words","r":[[word, score, length, out, _isout, _lpath],..]}
//          decodeValues and the two accessors _isout / _lpath (no caller in the code base) on the given words
// case   {"a": "...", "b": "...", "ms": [bounds], "dump": bool}
// answer {"r": [[m, s,l, s',l', es,el,ee, es',el',ee'], ...], "d": [d,pos,a1,a2], "pre": [[...],[...]]...}
//   unprimed = fresh scratch buffer (nil), primed = one scratch buffer shared by every call of the process
//   (stale contents of the previous calls). A panic of the kernel is reported as s = -99.
//   With "dump", "pre" holds the whole content of the shared buffer just before the primed LCS call and
//   just before the primed EGF call of every bound (2 lists per bound), so that the model can start
//   from the same stale words.

import (
	"bufio"

	"git.metabarcoding.org/obitools/obitools4/obitools4/pkg/obialign"
	"git.metabarcoding.org/obitools/obitools4/obitools4/pkg/obiseq"
)

type c09case struct {
	Kind  string   `json:"kind"`
	Seqs  []string `json:"seqs"`
	Calls [][]int  `json:"calls"`
	N     int      `json:"n"`
	Lo    int      `json:"lo"`
	Hi    int      `json:"hi"`
	A     string   `json:"a"`
	B     string   `json:"b"`
	Ms    []int    `json:"ms"`
	Dump  bool     `json:"dump"`
	BA    []int    `json:"ba"`
	BB    []int    `json:"bb"`
	Bufs  []c09buf `json:"bufs"`
	Ws    []uint64 `json:"ws"`
}

type c09buf struct {
	Len int      `json:"len"`
	Cap int      `json:"cap"`
	Pat []uint64 `json:"pat"`
}

type c09words struct {
	Kind string     `json:"kind"`
	R    [][]uint64 `json:"r"`
}

func c09byteCase(c c09case) c09run {
	o := c09run{Kind: "byte", R: [][]int{}}
	ba := make([]byte, len(c.BA))
	for i, x := range c.BA {
		ba[i] = byte(x)
	}
	bb := make([]byte, len(c.BB))
	for i, x := range c.BB {
		bb[i] = byte(x)
	}
	call := func(m int, egf bool, buf *[]uint64) (s, l, e int) {
		defer func() {
			if r := recover(); r != nil {
				s, l, e = -99, -99, -99
			}
		}()
		return obialign.FastLCSEGFScoreByte(ba, bb, m, egf, buf)
	}
	for _, m := range c.Ms {
		for ie, egf := range []bool{false, true} {
			s, l, e := call(m, egf, nil)
			o.R = append(o.R, []int{m, ie, -1, s, l, e})
			for k, spec := range c.Bufs {
				if spec.Cap < spec.Len {
					spec.Cap = spec.Len
				}
				buf := make([]uint64, spec.Cap)
				if len(spec.Pat) > 0 {
					for i := range buf {
						buf[i] = spec.Pat[i%len(spec.Pat)]
					}
				}
				buf = buf[:spec.Len]
				s, l, e := call(m, egf, &buf)
				o.R = append(o.R, []int{m, ie, k, s, l, e})
			}
		}
	}
	return o
}

func c09wordsCase(c c09case) c09words {
	o := c09words{Kind: "words", R: [][]uint64{}}
	for _, w := range c.Ws {
		s, l, out := obialign.VerifC09Decode(w)
		b2u := func(b bool) uint64 {
			if b {
				return 1
			}
			return 0
		}
		o.R = append(o.R, []uint64{w, uint64(s), uint64(l), b2u(out), b2u(obialign.VerifC09IsOut(w)), uint64(obialign.VerifC09LPath(w))})
	}
	return o
}

type c09obs struct {
	R   [][]int    `json:"r"`
	D   []int      `json:"d"`
	Pre [][]uint64 `json:"pre,omitempty"`
}

type c09tables struct {
	Kind     string     `json:"kind"`
	Iupac    []int      `json:"iupac"`
	Wsize    int        `json:"wsize"`
	Dwsize   int        `json:"dwsize"`
	Empty    uint64     `json:"empty"`
	Out      uint64     `json:"out"`
	Notavail uint64     `json:"notavail"`
	Enc      [][]uint64 `json:"enc"`
	Dec      [][]uint64 `json:"dec"`
	Acc      [][]uint64 `json:"acc"`
}

type c09run struct {
	Kind string  `json:"kind"`
	R    [][]int `json:"r"`
}

func c09dumpTables() c09tables {
	t := c09tables{Kind: "tables"}
	for _, b := range obialign.VerifC09Iupac() {
		t.Iupac = append(t.Iupac, int(b))
	}
	t.Wsize, t.Dwsize, t.Empty, t.Out, t.Notavail = obialign.VerifC09PackConsts()
	b2u := func(b bool) uint64 {
		if b {
			return 1
		}
		return 0
	}
	for _, sl := range [][2]int{{0, 0}, {0, 1}, {1, 1}, {7, 12}, {300, 417}, {29999, 30000}, {65535, 65534}} {
		for _, o := range []bool{false, true} {
			w := obialign.VerifC09Encode(sl[0], sl[1], o)
			t.Enc = append(t.Enc, []uint64{uint64(sl[0]), uint64(sl[1]), b2u(o), w})
			s, l, oo := obialign.VerifC09Decode(w - 1)
			t.Dec = append(t.Dec, []uint64{w - 1, uint64(s), uint64(l), b2u(oo)})
			for _, v := range []uint64{w, w - 1, ^w} {
				t.Acc = append(t.Acc, []uint64{v, b2u(obialign.VerifC09IsOut(v)), uint64(obialign.VerifC09LPath(v))})
			}
		}
	}
	return t
}

type c09d1all struct {
	Kind  string `json:"kind"`
	Codes []int  `json:"codes"`
}

func c09allSeqs(n int) []string {
	all := []string{""}
	prev := []string{""}
	for k := 1; k <= n; k++ {
		cur := make([]string, 0, len(prev)*4)
		for _, p := range prev {
			for _, ch := range "acgt" {
				cur = append(cur, p+string(ch))
			}
		}
		all = append(all, cur...)
		prev = cur
	}
	return all
}

func c09d1All(c c09case) c09d1all {
	o := c09d1all{Kind: "d1all"}
	all := c09allSeqs(c.N)
	bs := make([]*obiseq.BioSequence, len(all))
	for i, s := range all {
		bs[i] = obiseq.NewBioSequence("s", []byte(s), "")
	}
	for i := c.Lo; i < c.Hi && i < len(all); i++ {
		for j := range all {
			d := c09d1(bs[i], bs[j])
			if d[0] == -99 {
				o.Codes = append(o.Codes, -1)
			} else {
				o.Codes = append(o.Codes, (d[0]+1)+4*(d[1]+1)+64*d[2]+64*256*d[3])
			}
		}
	}
	return o
}

func c09runCalls(c c09case) c09run {
	o := c09run{Kind: "run"}
	seqs := make([]*obiseq.BioSequence, len(c.Seqs))
	for i, s := range c.Seqs {
		seqs[i] = obiseq.NewBioSequence("s", []byte(s), "")
	}
	var matrix []uint64
	for _, call := range c.Calls {
		i, j, m := call[0], call[1], call[2]
		s, l := c09lcs(seqs[i], seqs[j], m, &matrix)
		d := c09d1(seqs[i], seqs[j])
		o.R = append(o.R, []int{i, j, m, s, l, d[0]})
	}
	return o
}

func c09tag(c c09case) c09run {
	o := c09run{Kind: "tag"}
	if len(c.Seqs) == 0 {
		return o
	}
	query := obiseq.NewBioSequence("q", []byte(c.Seqs[0]), "")
	var matrix []uint64
	maxe := -1
	for j := 1; j < len(c.Seqs); j++ {
		ref := obiseq.NewBioSequence("r", []byte(c.Seqs[j]), "")
		score := int(1e9)
		lcs, alilength := -1, -1
		if maxe == 0 || maxe == 1 {
			d := c09d1(query, ref)
			o.R = append(o.R, []int{j, maxe, -2, -2, d[0]})
			if d[0] >= 0 {
				score = d[0]
				alilength = max(query.Len(), ref.Len())
				lcs = alilength - score
			}
		} else {
			lcs, alilength = c09lcs(query, ref, maxe, &matrix)
			o.R = append(o.R, []int{j, maxe, lcs, alilength, -2})
			if lcs >= 0 {
				score = alilength - lcs
			}
		}
		if lcs >= 0 && (maxe == -1 || score < maxe) {
			maxe = score
		}
	}
	return o
}

var c09shared []uint64

func c09lcs(a, b *obiseq.BioSequence, m int, buf *[]uint64) (s, l int) {
	defer func() {
		if r := recover(); r != nil {
			s, l = -99, -99
		}
	}()
	return obialign.FastLCSScore(a, b, m, buf)
}

func c09egf(a, b *obiseq.BioSequence, m int, buf *[]uint64) (s, l, e int) {
	defer func() {
		if r := recover(); r != nil {
			s, l, e = -99, -99, -99
		}
	}()
	return obialign.FastLCSEGFScore(a, b, m, buf)
}

func c09d1(a, b *obiseq.BioSequence) (r []int) {
	defer func() {
		if rec := recover(); rec != nil {
			r = []int{-99, -99, 0, 0}
		}
	}()
	d, pos, a1, a2 := obialign.D1Or0(a, b)
	return []int{d, pos, int(a1), int(a2)}
}

func c09copy(b []uint64) []uint64 {
	b = b[0:cap(b)]
	r := make([]uint64, len(b))
	copy(r, b)
	return r
}

func init() {
	register("c09", func(in *bufio.Reader, out *bufio.Writer) error {
		return eachLine(in, out, func(c c09case) any {
			switch c.Kind {
			case "tables":
				return c09dumpTables()
			case "run":
				return c09runCalls(c)
			case "d1all":
				return c09d1All(c)
			case "tag":
				return c09tag(c)
			case "byte":
				return c09byteCase(c)
			case "words":
				return c09wordsCase(c)
			}
			sa := obiseq.NewBioSequence("a", []byte(c.A), "")
			sb := obiseq.NewBioSequence("b", []byte(c.B), "")
			o := c09obs{R: make([][]int, 0, len(c.Ms))}
			for _, m := range c.Ms {
				s, l := c09lcs(sa, sb, m, nil)
				if c.Dump {
					o.Pre = append(o.Pre, c09copy(c09shared))
				}
				s2, l2 := c09lcs(sa, sb, m, &c09shared)
				es, el, ee := c09egf(sa, sb, m, nil)
				if c.Dump {
					o.Pre = append(o.Pre, c09copy(c09shared))
				}
				es2, el2, ee2 := c09egf(sa, sb, m, &c09shared)
				o.R = append(o.R, []int{m, s, l, s2, l2, es, el, ee, es2, el2, ee2})
			}
			o.D = c09d1(sa, sb)
			return o
		})
	})
}
