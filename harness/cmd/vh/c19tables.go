package main

// vh c19tables — dumps the lookup tables of pkg/obikmer of the CURRENT build (debruijn.go: iupac,
// revcompnuc, decode; encodefourmer.go: __single_base_code__) through the hook VerifTablesC19.
// One JSON object per input line; map keys are decimal numbers in strings.

import (
	"bufio"
	"strconv"

	"git.metabarcoding.org/obitools/obitools4/obitools4/pkg/obikmer"
)

type c19tabCase struct {
	Kind string `json:"kind"` // tables
}

type c19tabObs struct {
	Iupac   map[string][]uint64 `json:"iupac"`   // byte -> codes, in the order of the Go slice
	Revcomp map[string]int      `json:"revcomp"` // byte -> byte
	Decode  map[string]int      `json:"decode"`  // code -> byte
	Single  []int               `json:"single"`  // every entry of __single_base_code__
}

func c19tables() c19tabObs {
	o := c19tabObs{Iupac: map[string][]uint64{}, Revcomp: map[string]int{}, Decode: map[string]int{}, Single: []int{}}
	iu, rc, dec, single := obikmer.VerifTablesC19()
	for k, v := range iu {
		codes := make([]uint64, len(v))
		copy(codes, v)
		o.Iupac[strconv.Itoa(int(k))] = codes
	}
	for k, v := range rc {
		o.Revcomp[strconv.Itoa(int(k))] = int(v)
	}
	for k, v := range dec {
		o.Decode[strconv.FormatUint(k, 10)] = int(v)
	}
	for _, b := range single {
		o.Single = append(o.Single, int(b))
	}
	return o
}

func init() {
	register("c19tables", func(in *bufio.Reader, out *bufio.Writer) error {
		return eachLine(in, out, func(c c19tabCase) any { return c19tables() })
	})
}
