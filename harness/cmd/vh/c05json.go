package main

// C05 — first use of the JSON machinery from several goroutines at once. go-json keeps its compiled
// decoders / encoders in an unsynchronised table indexed by type: the first decode (or encode) of a
// type compiles and stores it; a second goroutine doing its own first decode at that instant may read
// a half-written table entry. The table is per process, so one trial = one process: the case is run
// once, N goroutines are released together and each calls the REAL header parser / formatter of
// pkg/obiformats on its own record. Observation: panics caught and whether all results agree.

import (
	"bufio"
	"fmt"
	"runtime"
	"runtime/debug"
	"strings"
	"sync"
	"sync/atomic"

	"git.metabarcoding.org/obitools/obitools4/obitools4/pkg/obiformats"
	"git.metabarcoding.org/obitools/obitools4/obitools4/pkg/obiseq"
)

type c05jcase struct {
	Kind       string `json:"kind"` // obi | json | format
	Header     string `json:"header"`
	Goroutines int    `json:"goroutines"`
}

type c05jobs struct {
	Panics   int      `json:"panics"`
	Messages []string `json:"messages"`
	Distinct int      `json:"distinct_results"`
	First    string   `json:"first_result"`
}

func c05jrun(c c05jcase) (o c05jobs) {
	n := c.Goroutines
	if n < 2 {
		n = 2
	}
	runtime.GOMAXPROCS(n)
	var start atomic.Bool
	var wg sync.WaitGroup
	var mu sync.Mutex
	results := map[string]int{}
	// for the formatter: records are parsed one after the other first (decoder compiled sequentially),
	// the concurrent first use is then the encoder's
	seqs := make([]*obiseq.BioSequence, n)
	for i := range seqs {
		seqs[i] = obiseq.NewBioSequence(fmt.Sprintf("s%d", i), []byte("acgt"), c.Header)
		if c.Kind == "format" {
			obiformats.ParseGuessedFastSeqHeader(seqs[i])
		}
	}
	for i := 0; i < n; i++ {
		wg.Add(1)
		go func(i int) {
			defer wg.Done()
			defer func() {
				if r := recover(); r != nil {
					mu.Lock()
					o.Panics++
					if len(o.Messages) < 3 {
						st := string(debug.Stack())
						if k := strings.Index(st, "panic("); k >= 0 {
							st = st[k:]
						}
						if len(st) > 900 {
							st = st[:900]
						}
						o.Messages = append(o.Messages, fmt.Sprint(r)+"\n"+st)
					}
					mu.Unlock()
				}
			}()
			for !start.Load() {
			}
			var res string
			switch c.Kind {
			case "obi":
				a := obiseq.Annotation{}
				obiformats.ParseOBIFeatures(c.Header, a)
				s := obiseq.NewBioSequence("x", []byte("a"), "")
				for k, v := range a {
					s.SetAttribute(k, v)
				}
				res = fmt.Sprintf("%v", a)
			case "json":
				obiformats.ParseFastSeqJsonHeader(seqs[i])
				res = fmt.Sprintf("%v", seqs[i].Annotations())
			default:
				res = obiformats.FormatFastSeqJsonHeader(seqs[i])
			}
			mu.Lock()
			results[res]++
			mu.Unlock()
		}(i)
	}
	start.Store(true)
	wg.Wait()
	o.Distinct = len(results)
	for k := range results {
		o.First = k
		break
	}
	return
}

func init() {
	register("c05json", func(in *bufio.Reader, out *bufio.Writer) error {
		return eachLine(in, out, func(c c05jcase) any { return c05jrun(c) })
	})
}
