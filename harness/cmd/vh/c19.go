package main

// vh c19 — De Bruijn graph (weights, Nexts, Heads, HasCycle, HaviestPath, LongestConsensus),
// canonical k-mers of the k-mer index (NewKmerMap + NormalizedKmerSlice + KmerAsString for the
// three word widths) and Count4Mer tables, all on the REAL code of pkg/obikmer.

import (
	"bufio"
	"os"
	"path/filepath"
	"sort"
	"strconv"

	"git.metabarcoding.org/obitools/obitools4/obitools4/pkg/obifp"
	"git.metabarcoding.org/obitools/obitools4/obitools4/pkg/obikmer"
	"git.metabarcoding.org/obitools/obitools4/obitools4/pkg/obiseq"
	"git.metabarcoding.org/obitools/obitools4/obitools4/pkg/obitools/obiconsensus"
)

type c19seq struct {
	S     string `json:"s"`
	Count int    `json:"count"`
}

type c19case struct {
	Kind   string   `json:"kind"` // dbg | kmap | c4 | cons | ksim
	K      int      `json:"k"`
	Seqs   []c19seq `json:"seqs"`   // dbg
	W      int      `json:"w"`      // kmap: 64|128|256
	Sparse bool     `json:"sparse"` // kmap
	S      string   `json:"s"`      // kmap, c4
	Reuse  bool     `json:"reuse"`  // c4: reuse buffer / table of the previous call
	Refs   []string `json:"refs"`   // ksim: indexed reference sequences; S = query
	// round 3
	X         bool        `json:"x"`         // extra observations (c19r3.go)
	MinW      int         `json:"minw"`      // dbg: FilterMinWeight threshold (0: skip)
	LMax      int         `json:"lmax"`      // dbg: LongestPath(lmax)
	Covs      []c19cov    `json:"covs"`      // dbg: LongestConsensus(min_cov = num / 2^e); cons: the first one is filter_out
	Ham       [][2]string `json:"ham"`       // dbg: pairs of k-mers for HammingDistance
	Probe     []string    `json:"probe"`     // dbg: Nexts / Previouses of these k-mers (panic outside the graph)
	Gml       bool        `json:"gml"`       // dbg: Gml() + WriteGml; cons: save_graph
	S2        string      `json:"s2"`        // c4: second sequence (Common4Mer)
	MaxOcc    *int        `json:"maxocc"`    // ksim: maxoccurs (absent: -1)
	MinShared *int        `json:"minshared"` // ksim: FilterMinCount (absent: 1)
	Self      *int        `json:"self"`      // ksim: also query with the reference object of that number
	ConsK     int         `json:"consk"`     // cons: kmer_size (0: -1, estimated by the tool)
	Buf       bool        `json:"buf"`       // kmap: NormalizedKmerSlice with a caller-supplied buffer
}

type c19node struct {
	Kmer   string   `json:"kmer"` // decimal uint64
	Weight int      `json:"w"`
	Nexts  []string `json:"nexts"`
	Label  string   `json:"label"`
}

type c19obs struct {
	Kind string `json:"kind"` // dbg | kmap | c4 | panic
	Err  string `json:"err,omitempty"`
	// dbg
	Nodes       []c19node `json:"nodes,omitempty"`
	Heads       []string  `json:"heads,omitempty"`
	HasCycle    bool      `json:"hascycle"`
	PathNil     bool      `json:"pathnil"`
	PathPanic   bool      `json:"pathpanic"`
	PathSkipped bool      `json:"pathskipped"`
	Path        []string  `json:"path,omitempty"`
	Decoded     string    `json:"decoded"`
	Consensus   string    `json:"consensus"`
	ConsErr     bool      `json:"conserr"`
	// kmap
	Kmersize int        `json:"kmersize"`
	SparseAt int        `json:"sparseat"`
	Kmers    [][]string `json:"kmers,omitempty"` // limbs (least significant first) of every canonical k-mer
	Strs     []string   `json:"strs,omitempty"`  // KmerAsString of every canonical k-mer
	IsNil    bool       `json:"isnil"`
	// c4
	Table [][2]int `json:"table,omitempty"` // (code, count) for the non-zero cells
	// cons: obiconsensus.BuildConsensus(seqs, id, -1, 0, false, "") — k estimated by the tool, counts from the count attribute
	ConsK     int  `json:"consk"`
	ConsFlag  bool `json:"consflag"` // attribute obiconsensus_consensus
	ConsW     int  `json:"consw"`    // attribute obiconsensus_weight
	ConsGraph int  `json:"consgraph"`
	ConsMaxW  int  `json:"consmaxw"`
	// ksim: obikmersim path: NewKmerMap[Uint128](refs, k, sparse, -1).Query(query) and .Query(rc query): match count per reference (-1: no match)
	Match   []int `json:"match,omitempty"`
	MatchRC []int `json:"matchrc,omitempty"`
	// round 3 (c19r3.go)
	X       *c19x   `json:"x,omitempty"`
	C4X     *c19c4x `json:"c4x,omitempty"`
	KsX     *c19ksx `json:"ksx,omitempty"`
	BufSame bool    `json:"bufsame"`
	KSizeFn int     `json:"ksizefn"`
	IdxLen  int     `json:"idxlen"`
	// cons with save_graph: the two files written
	ConsLen   int    `json:"conslen"` // attribute obiconsensus_seq_length
	ConsFGrph int    `json:"consfgraph"` // attribute obiconsensus_filtered_graph_size
	SavedGml  string `json:"savedgml,omitempty"`
	SavedFa   string `json:"savedfa,omitempty"`
	ConsPanic bool   `json:"conspanic"`
}

func c19cons(c c19case) (o c19obs) {
	o.Kind = "cons"
	seqs := make(obiseq.BioSequenceSlice, 0, len(c.Seqs))
	for i, s := range c.Seqs {
		bs := obiseq.NewBioSequence("s"+strconv.Itoa(i), []byte(s.S), "")
		bs.SetAttribute("count", s.Count) // as read from a file: the count attribute
		seqs = append(seqs, bs)
	}
	ksize := -1
	if c.ConsK > 0 {
		ksize = c.ConsK
	}
	filter := 0.0
	if len(c.Covs) > 0 {
		filter = float64(c.Covs[0].Num) / float64(uint64(1)<<uint(c.Covs[0].E))
	}
	dir := ""
	if c.Gml {
		if d, e := os.MkdirTemp("", "c19cons"); e == nil {
			dir = filepath.Join(d, "graphs") // does not exist yet: BuildConsensus creates it
			defer os.RemoveAll(d)
		}
	}
	var seq *obiseq.BioSequence
	var err error
	func() {
		defer func() {
			if r := recover(); r != nil {
				o.ConsPanic = true
			}
		}()
		seq, err = obiconsensus.BuildConsensus(seqs, "cons", ksize, filter, c.Gml && dir != "", dir)
	}()
	if dir != "" {
		if b, e := os.ReadFile(filepath.Join(dir, "cons_consensus.gml")); e == nil {
			o.SavedGml = string(b)
		}
		if b, e := os.ReadFile(filepath.Join(dir, "cons_consensus.fasta")); e == nil {
			o.SavedFa = string(b)
		}
	}
	if err != nil || seq == nil {
		o.ConsErr = true
		if err != nil {
			o.Err = err.Error()
		}
		return o
	}
	o.Consensus = seq.String()
	if v, ok := seq.GetIntAttribute("obiconsensus_kmer_size"); ok {
		o.ConsK = v
	}
	if v, ok := seq.GetBoolAttribute("obiconsensus_consensus"); ok {
		o.ConsFlag = v
	}
	if v, ok := seq.GetIntAttribute("obiconsensus_weight"); ok {
		o.ConsW = v
	}
	if v, ok := seq.GetIntAttribute("obiconsensus_full_graph_size"); ok {
		o.ConsGraph = v
	}
	if v, ok := seq.GetIntAttribute("obiconsensus_kmer_max_occur"); ok {
		o.ConsMaxW = v
	}
	if v, ok := seq.GetIntAttribute("obiconsensus_seq_length"); ok {
		o.ConsLen = v
	}
	if v, ok := seq.GetIntAttribute("obiconsensus_filtered_graph_size"); ok {
		o.ConsFGrph = v
	}
	return o
}

func c19rc(s string) string {
	comp := map[byte]byte{'a': 't', 'c': 'g', 'g': 'c', 't': 'a', 'u': 'a', 'r': 'y', 'y': 'r', 's': 's', 'w': 'w', 'k': 'm', 'm': 'k', 'b': 'v', 'd': 'h', 'h': 'd', 'v': 'b', 'n': 'n'}
	r := make([]byte, len(s))
	for i := 0; i < len(s); i++ {
		ch := s[len(s)-1-i]
		if ch >= 'A' && ch <= 'Z' {
			ch += 32
		}
		r[i] = comp[ch]
	}
	return string(r)
}

func c19ksim(c c19case) (o c19obs) {
	o.Kind = "ksim"
	refs := make(obiseq.BioSequenceSlice, 0, len(c.Refs))
	for i, s := range c.Refs {
		refs = append(refs, obiseq.NewBioSequence("r"+strconv.Itoa(i), []byte(s), ""))
	}
	km := obikmer.NewKmerMap[obifp.Uint128](refs, uint(c.K), c.Sparse, -1)
	o.Kmersize = int(km.Kmersize)
	o.SparseAt = km.SparseAt
	one := func(q string) []int {
		m := km.Query(obiseq.NewBioSequence("q", []byte(q), ""))
		r := make([]int, len(refs))
		for i, ref := range refs {
			if n, ok := m[ref]; ok {
				r[i] = n
			} else {
				r[i] = -1
			}
		}
		return r
	}
	o.Match = one(c.S)
	o.MatchRC = one(c19rc(c.S))
	if c.X {
		o.KsX = c19ksimx(c)
	}
	return o
}

func u64s(l []uint64) []string {
	r := make([]string, len(l))
	for i, v := range l {
		r[i] = strconv.FormatUint(v, 10)
	}
	return r
}

func c19dbg(c c19case) (o c19obs) {
	o.Kind = "dbg"
	g := obikmer.MakeDeBruijnGraph(c.K)
	for i, s := range c.Seqs {
		bs := obiseq.NewBioSequence("s"+strconv.Itoa(i), []byte(s.S), "")
		if s.Count != 1 {
			bs.SetCount(s.Count)
		}
		g.Push(bs)
	}
	nodes := g.VerifNodes()
	keys := make([]uint64, 0, len(nodes))
	for x := range nodes {
		keys = append(keys, x)
	}
	sort.Slice(keys, func(i, j int) bool { return keys[i] < keys[j] })
	for _, x := range keys {
		o.Nodes = append(o.Nodes, c19node{Kmer: strconv.FormatUint(x, 10), Weight: g.Weight(x), Nexts: u64s(g.Nexts(x)), Label: g.DecodeNode(x)})
	}
	h := g.Heads()
	sort.Slice(h, func(i, j int) bool { return h[i] < h[j] })
	o.Heads = u64s(h)
	o.HasCycle = g.HasCycle()
	// HaviestPath does not terminate on a cyclic graph (label-correcting search): if the code's own HasCycle
	// misses a cycle that an independent topological peeling finds, the path calls are skipped (the oracle
	// reports the wrong HasCycle verdict) instead of hanging the harness.
	if !o.HasCycle && c19cyclic(g, keys) {
		o.PathSkipped = true
		o.ConsErr = true
		return o
	}
	if c.X {
		defer func() { o.X = c19extras(c, g, keys, !o.HasCycle) }()
	}
	func() {
		defer func() {
			if r := recover(); r != nil {
				o.PathPanic = true
			}
		}()
		p := g.HaviestPath()
		o.PathNil = p == nil
		o.Path = u64s(p)
		o.Decoded = g.DecodePath(p)
	}()
	func() {
		defer func() {
			if r := recover(); r != nil {
				o.ConsErr = true
				o.Consensus = "<panic>"
			}
		}()
		seq, err := g.LongestConsensus("cons", 0)
		if err != nil || seq == nil {
			o.ConsErr = true
		} else {
			o.Consensus = seq.String()
		}
	}()
	return o
}

// independent cycle test: repeatedly remove the nodes without successor among the remaining ones
func c19cyclic(g *obikmer.DeBruijnGraph, keys []uint64) bool {
	alive := map[uint64]bool{}
	for _, x := range keys {
		alive[x] = true
	}
	for changed := true; changed; {
		changed = false
		for x := range alive {
			has := false
			for _, y := range g.Nexts(x) {
				if alive[y] {
					has = true
					break
				}
			}
			if !has {
				delete(alive, x)
				changed = true
			}
		}
	}
	return len(alive) > 0
}

func c19limbs[T obifp.FPUint[T]](x T) []uint64 {
	switch v := any(x).(type) {
	case obifp.Uint64:
		return v.VerifLimbs()
	case obifp.Uint128:
		return v.VerifLimbs()
	case obifp.Uint256:
		return v.VerifLimbs()
	}
	return nil
}

func c19kmap[T obifp.FPUint[T]](c c19case) (o c19obs) {
	o.Kind = "kmap"
	km := obikmer.NewKmerMap[T](obiseq.BioSequenceSlice{}, uint(c.K), c.Sparse, -1)
	o.Kmersize = int(km.Kmersize)
	o.SparseAt = km.SparseAt
	bs := obiseq.NewBioSequence("s", []byte(c.S), "")
	ks := km.NormalizedKmerSlice(bs, nil)
	o.IsNil = ks == nil
	o.Kmers = make([][]string, 0, len(ks))
	o.Strs = make([]string, 0, len(ks))
	for _, x := range ks {
		o.Kmers = append(o.Kmers, u64s(c19limbs(x)))
		o.Strs = append(o.Strs, km.KmerAsString(x))
	}
	if c.Buf {
		o.BufSame, o.KSizeFn, o.IdxLen = c19kmapbuf[T](c)
	}
	return o
}

var c19buf []byte
var c19tab obikmer.Table4mer

func c19c4(c c19case) (o c19obs) {
	o.Kind = "c4"
	bs := obiseq.NewBioSequence("s", []byte(c.S), "")
	var t *obikmer.Table4mer
	if c.Reuse {
		t = obikmer.Count4Mer(bs, &c19buf, &c19tab)
	} else {
		t = obikmer.Count4Mer(bs, nil, nil)
	}
	for i := 0; i < 256; i++ {
		if t[i] != 0 {
			o.Table = append(o.Table, [2]int{i, int(t[i])})
		}
	}
	if c.X {
		o.C4X = c19c4extras(c)
	}
	return o
}

func c19run(c c19case) (o c19obs) {
	defer func() {
		if r := recover(); r != nil {
			o = c19obs{Kind: "panic"}
		}
	}()
	switch c.Kind {
	case "dbg":
		return c19dbg(c)
	case "kmap":
		switch c.W {
		case 64:
			return c19kmap[obifp.Uint64](c)
		case 128:
			return c19kmap[obifp.Uint128](c)
		case 256:
			return c19kmap[obifp.Uint256](c)
		}
	case "c4":
		return c19c4(c)
	case "cons":
		return c19cons(c)
	case "ksim":
		return c19ksim(c)
	}
	return c19obs{Kind: "panic", Err: "unknown case kind"}
}

func init() {
	register("c19", func(in *bufio.Reader, out *bufio.Writer) error {
		return eachLine(in, out, func(c c19case) any { return c19run(c) })
	})
}
