package main

// vh c19 — De Bruijn graph (weights, Nexts, Heads, HasCycle, HaviestPath, LongestConsensus),
// canonical k-mers of the k-mer index (NewKmerMap + NormalizedKmerSlice + KmerAsString for the
// three word widths) and Count4Mer tables, all on the REAL code of pkg/obikmer.

import (
	"bufio"
	"sort"
	"strconv"

	"git.metabarcoding.org/obitools/obitools4/obitools4/pkg/obifp"
	"git.metabarcoding.org/obitools/obitools4/obitools4/pkg/obikmer"
	"git.metabarcoding.org/obitools/obitools4/obitools4/pkg/obiseq"
)

type c19seq struct {
	S     string `json:"s"`
	Count int    `json:"count"`
}

type c19case struct {
	Kind   string   `json:"kind"` // dbg | kmap | c4
	K      int      `json:"k"`
	Seqs   []c19seq `json:"seqs"`   // dbg
	W      int      `json:"w"`      // kmap: 64|128|256
	Sparse bool     `json:"sparse"` // kmap
	S      string   `json:"s"`      // kmap, c4
	Reuse  bool     `json:"reuse"`  // c4: reuse buffer / table of the previous call
}

type c19node struct {
	Kmer   string   `json:"kmer"` // decimal uint64
	Weight int      `json:"w"`
	Nexts  []string `json:"nexts"`
	Label  string   `json:"label"`
}

type c19obs struct {
	Kind string `json:"kind"` // dbg | kmap | c4 | panic
	Err  string `json:"err,omitempty"`
	// dbg
	Nodes       []c19node `json:"nodes,omitempty"`
	Heads       []string  `json:"heads,omitempty"`
	HasCycle    bool      `json:"hascycle"`
	PathNil     bool      `json:"pathnil"`
	PathPanic   bool      `json:"pathpanic"`
	PathSkipped bool      `json:"pathskipped"`
	Path        []string  `json:"path,omitempty"`
	Decoded     string    `json:"decoded"`
	Consensus   string    `json:"consensus"`
	ConsErr     bool      `json:"conserr"`
	// kmap
	Kmersize int        `json:"kmersize"`
	SparseAt int        `json:"sparseat"`
	Kmers    [][]string `json:"kmers,omitempty"` // limbs (least significant first) of every canonical k-mer
	Strs     []string   `json:"strs,omitempty"`  // KmerAsString of every canonical k-mer
	IsNil    bool       `json:"isnil"`
	// c4
	Table [][2]int `json:"table,omitempty"` // (code, count) for the non-zero cells
}

func u64s(l []uint64) []string {
	r := make([]string, len(l))
	for i, v := range l {
		r[i] = strconv.FormatUint(v, 10)
	}
	return r
}

func c19dbg(c c19case) (o c19obs) {
	o.Kind = "dbg"
	g := obikmer.MakeDeBruijnGraph(c.K)
	for i, s := range c.Seqs {
		bs := obiseq.NewBioSequence("s"+strconv.Itoa(i), []byte(s.S), "")
		if s.Count != 1 {
			bs.SetCount(s.Count)
		}
		g.Push(bs)
	}
	nodes := g.VerifNodes()
	keys := make([]uint64, 0, len(nodes))
	for x := range nodes {
		keys = append(keys, x)
	}
	sort.Slice(keys, func(i, j int) bool { return keys[i] < keys[j] })
	for _, x := range keys {
		o.Nodes = append(o.Nodes, c19node{Kmer: strconv.FormatUint(x, 10), Weight: g.Weight(x), Nexts: u64s(g.Nexts(x)), Label: g.DecodeNode(x)})
	}
	h := g.Heads()
	sort.Slice(h, func(i, j int) bool { return h[i] < h[j] })
	o.Heads = u64s(h)
	o.HasCycle = g.HasCycle()
	// HaviestPath does not terminate on a cyclic graph (label-correcting search): if the code's own HasCycle
	// misses a cycle that an independent topological peeling finds, the path calls are skipped (the oracle
	// reports the wrong HasCycle verdict) instead of hanging the harness.
	if !o.HasCycle && c19cyclic(g, keys) {
		o.PathSkipped = true
		o.ConsErr = true
		return o
	}
	func() {
		defer func() {
			if r := recover(); r != nil {
				o.PathPanic = true
			}
		}()
		p := g.HaviestPath()
		o.PathNil = p == nil
		o.Path = u64s(p)
		o.Decoded = g.DecodePath(p)
	}()
	func() {
		defer func() {
			if r := recover(); r != nil {
				o.ConsErr = true
				o.Consensus = "<panic>"
			}
		}()
		seq, err := g.LongestConsensus("cons", 0)
		if err != nil || seq == nil {
			o.ConsErr = true
		} else {
			o.Consensus = seq.String()
		}
	}()
	return o
}

// independent cycle test: repeatedly remove the nodes without successor among the remaining ones
func c19cyclic(g *obikmer.DeBruijnGraph, keys []uint64) bool {
	alive := map[uint64]bool{}
	for _, x := range keys {
		alive[x] = true
	}
	for changed := true; changed; {
		changed = false
		for x := range alive {
			has := false
			for _, y := range g.Nexts(x) {
				if alive[y] {
					has = true
					break
				}
			}
			if !has {
				delete(alive, x)
				changed = true
			}
		}
	}
	return len(alive) > 0
}

func c19limbs[T obifp.FPUint[T]](x T) []uint64 {
	switch v := any(x).(type) {
	case obifp.Uint64:
		return v.VerifLimbs()
	case obifp.Uint128:
		return v.VerifLimbs()
	case obifp.Uint256:
		return v.VerifLimbs()
	}
	return nil
}

func c19kmap[T obifp.FPUint[T]](c c19case) (o c19obs) {
	o.Kind = "kmap"
	km := obikmer.NewKmerMap[T](obiseq.BioSequenceSlice{}, uint(c.K), c.Sparse, -1)
	o.Kmersize = int(km.Kmersize)
	o.SparseAt = km.SparseAt
	bs := obiseq.NewBioSequence("s", []byte(c.S), "")
	ks := km.NormalizedKmerSlice(bs, nil)
	o.IsNil = ks == nil
	o.Kmers = make([][]string, 0, len(ks))
	o.Strs = make([]string, 0, len(ks))
	for _, x := range ks {
		o.Kmers = append(o.Kmers, u64s(c19limbs(x)))
		o.Strs = append(o.Strs, km.KmerAsString(x))
	}
	return o
}

var c19buf []byte
var c19tab obikmer.Table4mer

func c19c4(c c19case) (o c19obs) {
	o.Kind = "c4"
	bs := obiseq.NewBioSequence("s", []byte(c.S), "")
	var t *obikmer.Table4mer
	if c.Reuse {
		t = obikmer.Count4Mer(bs, &c19buf, &c19tab)
	} else {
		t = obikmer.Count4Mer(bs, nil, nil)
	}
	for i := 0; i < 256; i++ {
		if t[i] != 0 {
			o.Table = append(o.Table, [2]int{i, int(t[i])})
		}
	}
	return o
}

func c19run(c c19case) (o c19obs) {
	defer func() {
		if r := recover(); r != nil {
			o = c19obs{Kind: "panic"}
		}
	}()
	switch c.Kind {
	case "dbg":
		return c19dbg(c)
	case "kmap":
		switch c.W {
		case 64:
			return c19kmap[obifp.Uint64](c)
		case 128:
			return c19kmap[obifp.Uint128](c)
		case 256:
			return c19kmap[obifp.Uint256](c)
		}
	case "c4":
		return c19c4(c)
	}
	return c19obs{Kind: "panic", Err: "unknown case kind"}
}

func init() {
	register("c19", func(in *bufio.Reader, out *bufio.Writer) error {
		return eachLine(in, out, func(c c19case) any { return c19run(c) })
	})
}
