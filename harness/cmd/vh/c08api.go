//go:build verif

// vh c08 (field "api" of a case) — the exported entry points of the anchored files that PEAlign itself does not go through:
// PELeftAlign / PERightAlign / PECenterAlign (fill + backtracking behind a public signature, with the shared arena AND with
// NilPEAlignArena), BuildAlignment (the two gapped rows of a path), Encode4bits (IUPAC 4-bit codes of a read), Index4mer
// called with a caller-supplied index that is too short, and AssemblePESequences in its IN-PLACE mode (the mode of the
// obipairing / obitagpcr workers: the reads are recycled, a join re-uses read A).
package main

import (
	"fmt"
	"reflect"

	"git.metabarcoding.org/obitools/obitools4/obitools4/pkg/obialign"
	"git.metabarcoding.org/obitools/obitools4/obitools4/pkg/obikmer"
	"git.metabarcoding.org/obitools/obitools4/obitools4/pkg/obitools/obipairing"
)

type c08sp struct {
	Kind  string `json:"kind"` // ok | panic
	Err   string `json:"err,omitempty"`
	Score int    `json:"score"`
	Path  []int  `json:"path"`
}

type c08api struct {
	// the shared arena (as left by the pairs before) / NilPEAlignArena
	Left      *c08sp `json:"left"`
	LeftNil   *c08sp `json:"leftnil"`
	Right     *c08sp `json:"right"`
	RightNil  *c08sp `json:"rightnil"`
	Center    *c08sp `json:"center,omitempty"` // absent when |A| < |B| (documented panic, see CenterShort)
	CenterNil *c08sp `json:"centernil,omitempty"`
	CenterShort       string `json:"centershort,omitempty"` // what PECenterAlign does when |A| < |B|
	// BuildAlignment(A, B, path of PEAlign, '-')
	AliKind string `json:"alikind"`
	AliErr  string `json:"alierr,omitempty"`
	AliA    string `json:"alia"`
	AliB    string `json:"alib"`
	AliIdA  string `json:"aliida"`
	AliIdB  string `json:"aliidb"`
	// Encode4bits(A, nil), Encode4bits(B, buffer left by A)
	E4A []int `json:"e4a"`
	E4B []int `json:"e4b"`
	E4G []int `json:"e4g"` // Encode4bits of read A with a '-' and a '.' inserted after its first base
	// Index4mer(A) into a caller-supplied index of capacity < 256 == Index4mer(A, nil, nil); the caller's variable holds it or is untouched
	IdxShortSame bool `json:"idxshortsame"`
	IdxShortSet  bool `json:"idxshortset"`
	IdxErr       string `json:"idxerr,omitempty"`
	// AssemblePESequences(copy of A, copy of B, ..., inplace = true)
	Inplace *c08asm `json:"inplace,omitempty"`
}

func c08side(f func() (int, []int)) (r *c08sp) {
	r = &c08sp{Kind: "ok"}
	defer func() {
		if e := recover(); e != nil {
			r.Kind, r.Err, r.Path = "panic", fmt.Sprint(e), nil
			c08arenaOK = false
		}
	}()
	s, p := f()
	r.Score, r.Path = s, append([]int{}, p...)
	return r
}

func c08ensureArena() {
	if !c08arenaOK {
		c08arena = obialign.MakePEAlignArena(150, 150)
		c08shifts = make(map[int]int)
		c08arenaOK = true
	}
}

func c08apiRun(c c08case, path []int) *c08api {
	a := &c08api{}
	sa, sb := c08mk("A", c.A, c.QA), c08mk("B", c.B, c.QB)
	if len(c.A) >= len(c.B) {
		c08ensureArena()
		a.Center = c08side(func() (int, []int) { return obialign.PECenterAlign(sa, sb, c.Gap, c.Scale, c08arena) })
		a.CenterNil = c08side(func() (int, []int) {
			return obialign.PECenterAlign(sa, sb, c.Gap, c.Scale, obialign.NilPEAlignArena)
		})
	} else {
		r := c08side(func() (int, []int) { return obialign.PECenterAlign(sa, sb, c.Gap, c.Scale, obialign.NilPEAlignArena) })
		a.CenterShort = r.Kind
	}
	c08ensureArena()
	a.Left = c08side(func() (int, []int) { return obialign.PELeftAlign(sa, sb, c.Gap, c.Scale, c08arena) })
	c08ensureArena()
	a.Right = c08side(func() (int, []int) { return obialign.PERightAlign(sa, sb, c.Gap, c.Scale, c08arena) })
	a.LeftNil = c08side(func() (int, []int) { return obialign.PELeftAlign(sa, sb, c.Gap, c.Scale, obialign.NilPEAlignArena) })
	a.RightNil = c08side(func() (int, []int) { return obialign.PERightAlign(sa, sb, c.Gap, c.Scale, obialign.NilPEAlignArena) })
	c08ensureArena()

	// BuildAlignment on the path PEAlign returned for this pair
	func() {
		defer func() {
			if e := recover(); e != nil {
				a.AliKind, a.AliErr = "panic", fmt.Sprint(e)
			}
		}()
		if path == nil {
			a.AliKind = "nopath"
			return
		}
		ra, rb := obialign.BuildAlignment(sa, sb, path, '-')
		a.AliKind = "ok"
		a.AliA, a.AliB = string(ra.Sequence()), string(rb.Sequence())
		a.AliIdA, a.AliIdB = ra.Id(), rb.Id()
	}()

	// Encode4bits: fresh buffer, then the buffer of the previous call
	func() {
		defer func() {
			if e := recover(); e != nil {
				a.IdxErr = "Encode4bits: " + fmt.Sprint(e)
			}
		}()
		ea := obialign.Encode4bits(sa, nil)
		a.E4A = c08ints(ea)
		eb := obialign.Encode4bits(sb, ea)
		a.E4B = c08ints(eb)
		g := c.A[:1] + "-." + c.A[1:]
		a.E4G = c08ints(obialign.Encode4bits(c08mk("G", g, make([]int, len(g))), nil))
	}()

	// Index4mer with an index supplied by the caller whose capacity is below 256
	func() {
		defer func() {
			if e := recover(); e != nil {
				a.IdxErr += "Index4mer: " + fmt.Sprint(e)
			}
		}()
		ref := obikmer.Index4mer(sa, nil, nil)
		short := make([][]int, 3, 7)
		short[1] = []int{99}
		before := [][]int{nil, {99}, nil}
		got := obikmer.Index4mer(sa, &short, nil)
		norm := func(x [][]int) [][]int {
			r := make([][]int, len(x))
			for i, v := range x {
				r[i] = append([]int{}, v...)
			}
			return r
		}
		a.IdxShortSame = reflect.DeepEqual(norm(ref), norm(got))
		// the caller's variable: replaced by the index returned, or left as it was (never half written)
		a.IdxShortSet = reflect.DeepEqual(norm(short), norm(got)) || reflect.DeepEqual(norm(short), norm(before))
	}()

	// in-place assembly
	a.Inplace = c08assembleMode(c, c08arena, &c08shifts, true)
	c08ensureArena()
	return a
}

// c08assembleMode is c08assemble with the inplace flag of AssemblePESequences (the reads are private copies).
func c08assembleMode(c c08case, arena obialign.PEAlignArena, shifts *map[int]int, inplace bool) (a *c08asm) {
	a = &c08asm{}
	defer func() {
		if r := recover(); r != nil {
			a.Kind = "panic"
			a.Err = fmt.Sprint(r)
			c08arenaOK = false
		}
	}()
	sa, sb := c08mkA("A", c), c08mk("B", c.B, c.QB)
	cons := obipairing.AssemblePESequences(sa, sb, c.Gap, c.Scale, c.Delta, c.MinOv, c.MinId, true, inplace,
		c.Fast, c.Rel, arena, shifts)
	a.Kind = "ok"
	a.Seq = string(cons.Sequence())
	a.Qual = c08ints(cons.Qualities())
	a.Annot = c08annot(cons.Annotations())
	return a
}
