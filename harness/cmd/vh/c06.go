// c06 — dereplication: drains the REAL obichunk.IUniqueSequence on an explicit multiset of records.
//
// A case gives the records in arrival order (id, sequence, count (0 = no count attribute), plain
// attributes (any JSON value: string / integer / float / boolean / list / map / null), an explicit
// count attribute (possibly 0 or negative), already merged `merged_<k>` maps and the Go type used to
// store them) and the configuration (memory / disk, number of hash chunks, workers, category
// attributes, merge descriptors key or key:weight, NA value, no-singleton, input batch size). The
// observation is the list of output records: id, sequence, Count(), every `merged_*` map (read by a
// type switch), every other annotation rendered with its kind (string quoted, numbers through %v)
// and typed (c06Typed); the typed view of every INPUT record as the Go code sees it (tin); for an
// on-disk case every chunk file as re-read by the implementation (reread, through the verif tap
// obichunk.VerifChunkRead). A log.Fatal of the library is intercepted (kind "fatal").
package main

import (
	"bufio"
	"encoding/json"
	"fmt"
	"math"
	"path/filepath"
	"runtime"
	"sort"
	"strings"
	"sync"
	"time"

	log "github.com/sirupsen/logrus"

	"git.metabarcoding.org/obitools/obitools4/obitools4/pkg/obichunk"
	"git.metabarcoding.org/obitools/obitools4/obitools4/pkg/obiformats"
	"git.metabarcoding.org/obitools/obitools4/obitools4/pkg/obiiter"
	"git.metabarcoding.org/obitools/obitools4/obitools4/pkg/obioptions"
	"git.metabarcoding.org/obitools/obitools4/obitools4/pkg/obiseq"
	"git.metabarcoding.org/obitools/obitools4/obitools4/pkg/obitools/obidemerge"
)

type c06Rec struct {
	Id        string                    `json:"id"`
	Seq       string                    `json:"seq"`
	Count     int                       `json:"count"`
	Attrs     map[string]interface{}    `json:"attrs"`
	Merged    map[string]map[string]int `json:"merged"`
	MK        string                    `json:"mk"`                  // stats | int | iface : Go type of the merged maps
	Qual      string                    `json:"qual,omitempty"`      // phred values as bytes (same length as seq); "" = no qualities
	CCount    *int                      `json:"ccount,omitempty"`    // explicit count attribute, any integer (0, negative): overrides Count
	NF        bool                      `json:"nf,omitempty"`        // numbers are stored as float64 (as the JSON header reader leaves them) instead of int (as the OBI header reader does)
	BadMerged map[string]interface{}    `json:"badmerged,omitempty"` // merged_<k> attributes that are NOT a map of integers (any JSON value)
}

type c06Case struct {
	Op          string   `json:"op"`   // "" / "uniq": IUniqueSequence ; "demerge": obidemerge.MakeDemergeWorker(dkey) on every record
	DKey        string   `json:"dkey"` // demerge: the slot
	Recs        []c06Rec `json:"recs"`
	Disk        bool     `json:"disk"`
	Chunks      int      `json:"chunks"`
	Workers     int      `json:"workers"`
	Cats        []string `json:"cats"`
	Stats       []string `json:"stats"`
	NA          string   `json:"na"`
	NoSingleton bool     `json:"nosingleton"`
	Batch       int      `json:"batch"`  // batch size of the input iterator
	DBatch      int      `json:"dbatch"` // obioptions batch size (used by Distribute); 0 = leave
	DL          int      `json:"dl"`     // deadline ms
	Procs       int      `json:"procs"`  // >0: runtime.GOMAXPROCS for this case (1 makes the schedule adversarial for writers)
	Spin        int      `json:"spin"`   // number of busy goroutines competing for the processors during the case
	WDelay      int      `json:"wdelay"` // on disk: every chunk file is completed (flushed, closed) this many ms late
	Echo        bool     `json:"echo"`   // report the typed view of the inputs and of the re-read chunk files
	// ---- round 3 (c06r3.go)
	OptHist  int       `json:"opthist"`  // uniq: 1 = the options are given as a history of calls (contradicted first, one call per key)
	CKind    string    `json:"ckind"`    // classifier / subchunk: annotation | sequence | hash
	CKey     string    `json:"ckey"`     // annotation classifier: the attribute
	CKey2    string    `json:"ckey2"`    // dual annotation classifier: the second attribute ("" = none)
	CSize    int       `json:"csize"`    // hash classifier: number of classes
	Hist     []c06Step `json:"hist"`     // classifier: calls on one classifier object, in order
	Batches  [][]int   `json:"batches"`  // subchunk / mergepipe: the input batches (indices into recs)
	NWorkers int       `json:"nworkers"` // subchunk: the nworkers argument (0 = default)
	Size     int       `json:"size"`     // mergepipe: explicit output batch size (0 = none given)
	Inplace  bool      `json:"inplace"`  // merge2: recs[0].Merge(recs[1], na, inplace, stats)
	Opts     []c06Opt  `json:"opts"`     // options: setters in call order
}

// c06TVal is the typed view of an attribute value, as the Go code under test sees it.
type c06TVal struct {
	Tag   int     `json:"tag"`   // 0 string, 1 int, 2 float64, 3 bool, 4 composite, 5 nil
	Print string  `json:"print"` // fmt.Sprint (strings as they are): what AnnotationClassifier compares
	Exact string  `json:"exact"` // canonical JSON (strings as they are): with Tag, what == / reflect.DeepEqual compare
	Stat  *string `json:"stat"`  // key used by StatsPlusOne; null = log.Fatalf
	Int   *int    `json:"int"`   // obiutils.InterfaceToInt; null = not a number
}

type c06TRec struct {
	Id     string                    `json:"id"`
	Seq    string                    `json:"seq"`
	Count  int                       `json:"count"`
	Attrs  map[string]c06TVal        `json:"attrs"`
	Merged map[string]map[string]int `json:"merged"`
	Qual   string                    `json:"qual,omitempty"`
	Chunk  string                    `json:"chunk,omitempty"` // re-read records: the file they come from (chunk_<code>)
}

type c06Out struct {
	Id     string                    `json:"id"`
	Seq    string                    `json:"seq"`
	Count  int                       `json:"count"`
	Merged map[string]map[string]int `json:"merged"`
	Ann    map[string]string         `json:"ann"`
	TAnn   map[string]c06TVal        `json:"tann,omitempty"`
	Qual   bool                      `json:"qual,omitempty"`
}

type c06Obs struct {
	Kind   string    `json:"kind"` // ok | panic | timeout | error
	Err    string    `json:"err,omitempty"`
	Recs   []c06Out  `json:"recs"`
	NRecs  int       `json:"nrecs"`
	TIn    []c06TRec `json:"tin,omitempty"`
	Reread []c06TRec `json:"reread,omitempty"`
	NFiles int       `json:"nfiles,omitempty"`
	// ---- round 3
	Steps    []c06StepObs           `json:"steps,omitempty"`
	OBatches [][]string             `json:"obatches,omitempty"` // subchunk / mergepipe: ids of every output batch
	After    []c06TRec              `json:"after,omitempty"`    // merge2: the two operands afterwards
	Same     bool                   `json:"same,omitempty"`     // merge2: the result is the receiver itself
	Keys     []string               `json:"keys,omitempty"`     // distribute: Value(code) of every output, in the order of obatches
	Get      map[string]interface{} `json:"get,omitempty"`      // options: what the accessors return
}

func c06Typed(v interface{}) c06TVal {
	str := func(s string) *string { return &s }
	num := func(i int) *int { return &i }
	switch t := v.(type) {
	case string:
		return c06TVal{Tag: 0, Print: t, Exact: t, Stat: str(t)}
	case bool:
		return c06TVal{Tag: 3, Print: fmt.Sprint(t), Exact: fmt.Sprint(t), Stat: str(fmt.Sprint(t))}
	case int:
		return c06TVal{Tag: 1, Print: fmt.Sprint(t), Exact: fmt.Sprint(t), Stat: str(fmt.Sprint(t)), Int: num(t)}
	case float64:
		ex, _ := json.Marshal(t)
		r := c06TVal{Tag: 2, Print: fmt.Sprint(t), Exact: string(ex), Int: num(int(t))}
		if math.Floor(t) == t {
			r.Stat = str(fmt.Sprint(int(t)))
		}
		return r
	case nil:
		return c06TVal{Tag: 5, Print: fmt.Sprint(t), Exact: "null"}
	default:
		ex, _ := json.Marshal(t)
		return c06TVal{Tag: 4, Print: fmt.Sprint(t), Exact: string(ex)}
	}
}

// typed view of a record (Count() may rewrite a float64 count attribute as an int, which Merge would do as well)
func c06TypedRec(s *obiseq.BioSequence) c06TRec {
	r := c06TRec{Id: s.Id(), Seq: s.String(), Count: s.Count(), Attrs: map[string]c06TVal{}, Merged: map[string]map[string]int{}}
	if s.HasQualities() {
		q := make([]byte, len(s.Qualities()))
		for i, x := range s.Qualities() {
			q[i] = x + 33
		}
		r.Qual = string(q)
	}
	if s.HasAnnotation() {
		for k, v := range s.Annotations() {
			if strings.HasPrefix(k, "merged_") {
				if m, ok := c06IntMap(v); ok {
					r.Merged[k[len("merged_"):]] = m
					continue
				}
			}
			if k == "count" {
				continue
			}
			r.Attrs[k] = c06Typed(v)
		}
	}
	return r
}

func c06Render(v interface{}) string {
	switch t := v.(type) {
	case string:
		return fmt.Sprintf("%q", t)
	case float64:
		if math.Floor(t) == t && math.Abs(t) < 1e15 {
			return fmt.Sprint(int64(t))
		}
		return fmt.Sprint(t)
	case bool:
		return fmt.Sprint(t)
	default:
		return fmt.Sprint(t)
	}
}

func c06Build(r c06Rec) *obiseq.BioSequence {
	s := obiseq.NewBioSequence(r.Id, []byte(r.Seq), "")
	if len(r.Qual) == len(r.Seq) && len(r.Qual) > 0 {
		q := make([]byte, len(r.Qual))
		for i := range q {
			q[i] = r.Qual[i] - 33
		}
		s.SetQualities(q)
	}
	keys := make([]string, 0, len(r.Attrs))
	for k := range r.Attrs {
		keys = append(keys, k)
	}
	sort.Strings(keys)
	for _, k := range keys {
		switch t := r.Attrs[k].(type) {
		case float64:
			if math.Floor(t) == t && !r.NF {
				s.SetAttribute(k, int(t))
			} else {
				s.SetAttribute(k, t)
			}
		default:
			s.SetAttribute(k, t)
		}
	}
	for k, m := range r.Merged {
		switch r.MK {
		case "int":
			mm := make(map[string]int, len(m))
			for a, b := range m {
				mm[a] = b
			}
			s.SetAttribute("merged_"+k, mm)
		case "iface":
			mm := make(map[string]interface{}, len(m))
			for a, b := range m {
				mm[a] = float64(b)
			}
			s.SetAttribute("merged_"+k, mm)
		default:
			mm := make(obiseq.StatsOnValues, len(m))
			for a, b := range m {
				mm[a] = b
			}
			s.SetAttribute("merged_"+k, mm)
		}
	}
	for k, v := range r.BadMerged {
		s.SetAttribute("merged_"+k, v)
	}
	if r.Count > 0 {
		s.SetAttribute("count", r.Count)
	}
	if r.CCount != nil {
		s.SetAttribute("count", *r.CCount)
	}
	return s
}

func c06IntMap(v interface{}) (map[string]int, bool) {
	res := map[string]int{}
	switch t := v.(type) {
	case obiseq.StatsOnValues:
		for a, b := range t {
			res[a] = b
		}
	case map[string]int:
		for a, b := range t {
			res[a] = b
		}
	case map[string]interface{}:
		for a, b := range t {
			switch x := b.(type) {
			case int:
				res[a] = x
			case float64:
				res[a] = int(x)
			default:
				return nil, false
			}
		}
	default:
		return nil, false
	}
	return res, true
}

func c06Observe(s *obiseq.BioSequence) c06Out {
	o := c06Out{Id: s.Id(), Seq: s.String(), Count: s.Count(), Merged: map[string]map[string]int{}, Ann: map[string]string{}, TAnn: map[string]c06TVal{}, Qual: s.HasQualities()}
	if s.HasAnnotation() {
		for k, v := range s.Annotations() {
			if strings.HasPrefix(k, "merged_") {
				if m, ok := c06IntMap(v); ok {
					o.Merged[k[len("merged_"):]] = m
					continue
				}
			}
			if k == "count" {
				continue
			}
			o.Ann[k] = c06Render(v)
			o.TAnn[k] = c06Typed(v)
		}
	}
	return o
}

// c06Where: the frames of the panicking goroutine below the runtime (file:line only)
func c06Where() string {
	pcs := make([]uintptr, 24)
	n := runtime.Callers(3, pcs)
	fr := runtime.CallersFrames(pcs[:n])
	out := []string{}
	for {
		f, more := fr.Next()
		if !strings.HasPrefix(f.Function, "runtime.") {
			out = append(out, fmt.Sprintf("%s:%d", filepath.Base(f.File), f.Line))
		}
		if !more || len(out) >= 6 {
			break
		}
	}
	return strings.Join(out, " < ")
}

var c06Mu sync.Mutex
var c06Fatal chan string // receives the message of an intercepted log.Fatal

func c06run(c c06Case) (o c06Obs) {
	defer func() {
		if r := recover(); r != nil {
			o = c06Obs{Kind: "panic", Err: fmt.Sprint(r) + " @ " + c06Where()}
		}
	}()
	// log.Fatal* of the library (StatsPlusOne on a float / composite value) ends the goroutine instead of the process
	fatal := make(chan string, 16)
	c06Mu.Lock()
	c06Fatal = fatal
	c06Mu.Unlock()
	log.StandardLogger().ExitFunc = func(int) {
		c06Mu.Lock()
		ch := c06Fatal
		c06Mu.Unlock()
		select {
		case ch <- "log.Fatal":
		default:
		}
		runtime.Goexit()
	}
	var tin, reread []c06TRec
	nfiles := 0
	if c.Echo {
		for _, r := range c.Recs {
			tin = append(tin, c06TypedRec(c06Build(r)))
		}
	}
	var rmu sync.Mutex
	if c.Disk && c.Echo {
		obichunk.VerifChunkRead = func(file string, chunk obiseq.BioSequenceSlice) {
			rmu.Lock()
			defer rmu.Unlock()
			nfiles++
			name := strings.TrimSuffix(filepath.Base(file), ".fastx")
			for _, s := range chunk {
				t := c06TypedRec(s)
				t.Chunk = name
				reread = append(reread, t)
			}
		}
	} else {
		obichunk.VerifChunkRead = nil
	}
	// both writers a chunk file can go through: the synchronous one of obichunk, the asynchronous one of obiformats
	obichunk.VerifChunkWriteDelay = time.Duration(c.WDelay) * time.Millisecond
	obiformats.VerifCloseDelay = time.Duration(c.WDelay) * time.Millisecond
	defer func() {
		rmu.Lock()
		o.TIn, o.Reread, o.NFiles = tin, reread, nfiles
		rmu.Unlock()
	}()
	if c.Procs > 0 {
		old := runtime.GOMAXPROCS(c.Procs)
		defer runtime.GOMAXPROCS(old)
	}
	if c.Spin > 0 {
		stop := make(chan struct{})
		defer close(stop)
		for i := 0; i < c.Spin; i++ {
			go func() {
				x := 0
				for {
					select {
					case <-stop:
						return
					default:
						x++
						if x%1000 == 0 {
							runtime.Gosched()
						}
					}
				}
			}()
		}
	}
	if c.DBatch > 0 {
		obioptions.SetBatchSize(c.DBatch)
	} else {
		obioptions.SetBatchSize(5000)
	}
	data := make(obiseq.BioSequenceSlice, 0, len(c.Recs))
	for _, r := range c.Recs {
		data = append(data, c06Build(r))
	}
	if c.Op != "" && c.Op != "uniq" && c.Op != "demerge" {
		return c06r3(c, data)
	}
	if c.Op == "demerge" {
		w := obidemerge.MakeDemergeWorker(c.DKey)
		out := []c06Out{}
		for _, s := range data {
			res, err := w(s)
			if err != nil {
				return c06Obs{Kind: "error", Err: err.Error()}
			}
			for _, r := range res {
				out = append(out, c06Observe(r))
			}
		}
		return c06Obs{Kind: "ok", Recs: out, NRecs: len(out)}
	}
	bs := c.Batch
	if bs <= 0 {
		bs = 3
	}
	// the input iterator is built by hand (IBatchOver panics on an empty slice: that is C03's finding)
	input := obiiter.MakeIBioSequence()
	input.Add(1)
	go func() { input.WaitAndClose() }()
	go func() {
		o := 0
		for i := 0; i < len(data); i += bs {
			j := i + bs
			if j > len(data) {
				j = len(data)
			}
			input.Push(obiiter.MakeBioSequenceBatch("c06", o, data[i:j:j]))
			o++
		}
		input.Done()
	}()
	opts := []obichunk.WithOption{
		obichunk.OptionBatchCount(c.Chunks),
		obichunk.OptionsParallelWorkers(c.Workers),
		obichunk.OptionNAValue(c.NA),
		obichunk.OptionStatOn(c.Stats...),
		obichunk.OptionSubCategory(c.Cats...),
	}
	if c.Disk {
		opts = append(opts, obichunk.OptionSortOnDisk())
	} else {
		opts = append(opts, obichunk.OptionSortOnMemory())
	}
	if c.NoSingleton {
		opts = append(opts, obichunk.OptionsNoSingleton())
	}
	if c.OptHist == 1 {
		opts = c06OptHistory(c)
	}
	type res struct {
		recs []c06Out
		err  string
	}
	done := make(chan res, 1)
	go func() {
		defer func() {
			if r := recover(); r != nil {
				done <- res{nil, "panic: " + fmt.Sprint(r)}
			}
		}()
		it, err := obichunk.IUniqueSequence(input, opts...)
		if err != nil {
			done <- res{nil, "error: " + err.Error()}
			return
		}
		out := []c06Out{}
		for it.Next() {
			b := it.Get()
			for _, s := range b.Slice() {
				out = append(out, c06Observe(s))
			}
		}
		done <- res{out, ""}
	}()
	dl := c.DL
	if dl <= 0 {
		dl = 8000
	}
	select {
	case r := <-done:
		if r.err != "" {
			return c06Obs{Kind: "error", Err: r.err}
		}
		return c06Obs{Kind: "ok", Recs: r.recs, NRecs: len(r.recs)}
	case msg := <-fatal:
		return c06Obs{Kind: "fatal", Err: msg}
	case <-time.After(time.Duration(dl) * time.Millisecond):
		return c06Obs{Kind: "timeout"}
	}
}

func init() {
	register("c06", func(in *bufio.Reader, out *bufio.Writer) error {
		return eachLine(in, out, func(c c06Case) any { return c06run(c) })
	})
}
