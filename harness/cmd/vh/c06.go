// c06 — dereplication: drains the REAL obichunk.IUniqueSequence on an explicit multiset of records.
//
// A case gives the records in arrival order (id, sequence, count (0 = no count attribute), plain
// attributes (string / integer / boolean), already merged `merged_<k>` maps and the Go type used to
// store them) and the configuration (memory / disk, number of hash chunks, workers, category
// attributes, merge attributes, NA value, no-singleton, input batch size). The observation is the
// list of output records: id, sequence, Count(), every `merged_*` map (read by a type switch),
// every other annotation rendered with its kind (string quoted, numbers through %v).
package main

import (
	"bufio"
	"fmt"
	"math"
	"runtime"
	"sort"
	"strings"
	"time"

	"git.metabarcoding.org/obitools/obitools4/obitools4/pkg/obichunk"
	"git.metabarcoding.org/obitools/obitools4/obitools4/pkg/obiiter"
	"git.metabarcoding.org/obitools/obitools4/obitools4/pkg/obioptions"
	"git.metabarcoding.org/obitools/obitools4/obitools4/pkg/obiseq"
	"git.metabarcoding.org/obitools/obitools4/obitools4/pkg/obitools/obidemerge"
)

type c06Rec struct {
	Id     string                    `json:"id"`
	Seq    string                    `json:"seq"`
	Count  int                       `json:"count"`
	Attrs  map[string]interface{}    `json:"attrs"`
	Merged map[string]map[string]int `json:"merged"`
	MK     string                    `json:"mk"` // stats | int | iface : Go type of the merged maps
	Qual   string                    `json:"qual,omitempty"` // phred values as bytes (same length as seq); "" = no qualities
}

type c06Case struct {
	Op          string   `json:"op"`   // "" / "uniq": IUniqueSequence ; "demerge": obidemerge.MakeDemergeWorker(dkey) on every record
	DKey        string   `json:"dkey"` // demerge: the slot
	Recs        []c06Rec `json:"recs"`
	Disk        bool     `json:"disk"`
	Chunks      int      `json:"chunks"`
	Workers     int      `json:"workers"`
	Cats        []string `json:"cats"`
	Stats       []string `json:"stats"`
	NA          string   `json:"na"`
	NoSingleton bool     `json:"nosingleton"`
	Batch       int      `json:"batch"`  // batch size of the input iterator
	DBatch      int      `json:"dbatch"` // obioptions batch size (used by Distribute); 0 = leave
	DL          int      `json:"dl"`     // deadline ms
	Procs       int      `json:"procs"`  // >0: runtime.GOMAXPROCS for this case (1 makes the schedule adversarial for writers)
	Spin        int      `json:"spin"`   // number of busy goroutines competing for the processors during the case
}

type c06Out struct {
	Id     string                    `json:"id"`
	Seq    string                    `json:"seq"`
	Count  int                       `json:"count"`
	Merged map[string]map[string]int `json:"merged"`
	Ann    map[string]string         `json:"ann"`
	Qual   bool                      `json:"qual,omitempty"`
}

type c06Obs struct {
	Kind  string   `json:"kind"` // ok | panic | timeout | error
	Err   string   `json:"err,omitempty"`
	Recs  []c06Out `json:"recs"`
	NRecs int      `json:"nrecs"`
}

func c06Render(v interface{}) string {
	switch t := v.(type) {
	case string:
		return fmt.Sprintf("%q", t)
	case float64:
		if math.Floor(t) == t && math.Abs(t) < 1e15 {
			return fmt.Sprint(int64(t))
		}
		return fmt.Sprint(t)
	case bool:
		return fmt.Sprint(t)
	default:
		return fmt.Sprint(t)
	}
}

func c06Build(r c06Rec) *obiseq.BioSequence {
	s := obiseq.NewBioSequence(r.Id, []byte(r.Seq), "")
	if len(r.Qual) == len(r.Seq) && len(r.Qual) > 0 {
		q := make([]byte, len(r.Qual))
		for i := range q {
			q[i] = r.Qual[i] - 33
		}
		s.SetQualities(q)
	}
	keys := make([]string, 0, len(r.Attrs))
	for k := range r.Attrs {
		keys = append(keys, k)
	}
	sort.Strings(keys)
	for _, k := range keys {
		switch t := r.Attrs[k].(type) {
		case float64:
			if math.Floor(t) == t {
				s.SetAttribute(k, int(t))
			} else {
				s.SetAttribute(k, t)
			}
		default:
			s.SetAttribute(k, t)
		}
	}
	for k, m := range r.Merged {
		switch r.MK {
		case "int":
			mm := make(map[string]int, len(m))
			for a, b := range m {
				mm[a] = b
			}
			s.SetAttribute("merged_"+k, mm)
		case "iface":
			mm := make(map[string]interface{}, len(m))
			for a, b := range m {
				mm[a] = float64(b)
			}
			s.SetAttribute("merged_"+k, mm)
		default:
			mm := make(obiseq.StatsOnValues, len(m))
			for a, b := range m {
				mm[a] = b
			}
			s.SetAttribute("merged_"+k, mm)
		}
	}
	if r.Count > 0 {
		s.SetAttribute("count", r.Count)
	}
	return s
}

func c06IntMap(v interface{}) (map[string]int, bool) {
	res := map[string]int{}
	switch t := v.(type) {
	case obiseq.StatsOnValues:
		for a, b := range t {
			res[a] = b
		}
	case map[string]int:
		for a, b := range t {
			res[a] = b
		}
	case map[string]interface{}:
		for a, b := range t {
			switch x := b.(type) {
			case int:
				res[a] = x
			case float64:
				res[a] = int(x)
			default:
				return nil, false
			}
		}
	default:
		return nil, false
	}
	return res, true
}

func c06Observe(s *obiseq.BioSequence) c06Out {
	o := c06Out{Id: s.Id(), Seq: s.String(), Count: s.Count(), Merged: map[string]map[string]int{}, Ann: map[string]string{}, Qual: s.HasQualities()}
	if s.HasAnnotation() {
		for k, v := range s.Annotations() {
			if strings.HasPrefix(k, "merged_") {
				if m, ok := c06IntMap(v); ok {
					o.Merged[k[len("merged_"):]] = m
					continue
				}
			}
			if k == "count" {
				continue
			}
			o.Ann[k] = c06Render(v)
		}
	}
	return o
}

func c06run(c c06Case) (o c06Obs) {
	defer func() {
		if r := recover(); r != nil {
			o = c06Obs{Kind: "panic", Err: fmt.Sprint(r)}
		}
	}()
	if c.Procs > 0 {
		old := runtime.GOMAXPROCS(c.Procs)
		defer runtime.GOMAXPROCS(old)
	}
	if c.Spin > 0 {
		stop := make(chan struct{})
		defer close(stop)
		for i := 0; i < c.Spin; i++ {
			go func() {
				x := 0
				for {
					select {
					case <-stop:
						return
					default:
						x++
						if x%1000 == 0 {
							runtime.Gosched()
						}
					}
				}
			}()
		}
	}
	if c.DBatch > 0 {
		obioptions.SetBatchSize(c.DBatch)
	} else {
		obioptions.SetBatchSize(5000)
	}
	data := make(obiseq.BioSequenceSlice, 0, len(c.Recs))
	for _, r := range c.Recs {
		data = append(data, c06Build(r))
	}
	if c.Op == "demerge" {
		w := obidemerge.MakeDemergeWorker(c.DKey)
		out := []c06Out{}
		for _, s := range data {
			res, err := w(s)
			if err != nil {
				return c06Obs{Kind: "error", Err: err.Error()}
			}
			for _, r := range res {
				out = append(out, c06Observe(r))
			}
		}
		return c06Obs{Kind: "ok", Recs: out, NRecs: len(out)}
	}
	bs := c.Batch
	if bs <= 0 {
		bs = 3
	}
	// the input iterator is built by hand (IBatchOver panics on an empty slice: that is C03's finding)
	input := obiiter.MakeIBioSequence()
	input.Add(1)
	go func() { input.WaitAndClose() }()
	go func() {
		o := 0
		for i := 0; i < len(data); i += bs {
			j := i + bs
			if j > len(data) {
				j = len(data)
			}
			input.Push(obiiter.MakeBioSequenceBatch("c06", o, data[i:j:j]))
			o++
		}
		input.Done()
	}()
	opts := []obichunk.WithOption{
		obichunk.OptionBatchCount(c.Chunks),
		obichunk.OptionsParallelWorkers(c.Workers),
		obichunk.OptionNAValue(c.NA),
		obichunk.OptionStatOn(c.Stats...),
		obichunk.OptionSubCategory(c.Cats...),
	}
	if c.Disk {
		opts = append(opts, obichunk.OptionSortOnDisk())
	} else {
		opts = append(opts, obichunk.OptionSortOnMemory())
	}
	if c.NoSingleton {
		opts = append(opts, obichunk.OptionsNoSingleton())
	}
	type res struct {
		recs []c06Out
		err  string
	}
	done := make(chan res, 1)
	go func() {
		defer func() {
			if r := recover(); r != nil {
				done <- res{nil, "panic: " + fmt.Sprint(r)}
			}
		}()
		it, err := obichunk.IUniqueSequence(input, opts...)
		if err != nil {
			done <- res{nil, "error: " + err.Error()}
			return
		}
		out := []c06Out{}
		for it.Next() {
			b := it.Get()
			for _, s := range b.Slice() {
				out = append(out, c06Observe(s))
			}
		}
		done <- res{out, ""}
	}()
	dl := c.DL
	if dl <= 0 {
		dl = 8000
	}
	select {
	case r := <-done:
		if r.err != "" {
			return c06Obs{Kind: "error", Err: r.err}
		}
		return c06Obs{Kind: "ok", Recs: r.recs, NRecs: len(r.recs)}
	case <-time.After(time.Duration(dl) * time.Millisecond):
		return c06Obs{Kind: "timeout"}
	}
}

func init() {
	register("c06", func(in *bufio.Reader, out *bufio.Writer) error {
		return eachLine(in, out, func(c c06Case) any { return c06run(c) })
	})
}
