package main

// vh c11 — in-silico PCR (pkg/obiapat: PCRSim / PCRSlice / PCRSliceWorker) on batches of templates.
// One case = one batch of templates + one option set; the observation lists, per template of the
// batch (in batch order), the amplicons reported for it (in the order the code returned them).

import (
	"bufio"
	"fmt"
	"strings"

	log "github.com/sirupsen/logrus"

	"git.metabarcoding.org/obitools/obitools4/obitools4/pkg/obiapat"
	"git.metabarcoding.org/obitools/obitools4/obitools4/pkg/obiseq"
)

type c11case struct {
	Templates []string `json:"templates"`
	Fwd       string   `json:"fwd"`
	Rev       string   `json:"rev"`
	Ef        int      `json:"ef"`
	Er        int      `json:"er"`
	Min       int      `json:"min"`
	Max       int      `json:"max"`
	Ext       int      `json:"ext"` // -1: no extension requested
	Full      bool     `json:"full"`
	Circular  bool     `json:"circular"`
	Mode      string   `json:"mode"` // sim | slice | worker
	// optional, per template (absent or null = none): Phred scores, annotations set on the template before the run
	// (the value of "pairing_mismatches" is installed as a map[string]int, as obipairing writes it)
	Quals  [][]int                  `json:"quals,omitempty"`
	Annots []map[string]interface{} `json:"annots,omitempty"`
}

type c11amp struct {
	Seq string `json:"seq"`
	Dir string `json:"dir"`
	Fm  string `json:"fm"`
	Fe  int    `json:"fe"`
	Rm  string `json:"rm"`
	Re  int    `json:"re"`
	Fp  string `json:"fp"`
	Rp  string `json:"rp"`
	Id  string `json:"id"`
	// only when the case carries quals / annots: Phred scores of the amplicon (null: none), its pairing_mismatches
	// (null: none) and every other annotation that is not written by _Pcr itself, rendered by fmt.Sprint
	Qual  []int             `json:"qual,omitempty"`
	Pm    map[string]int    `json:"pm,omitempty"`
	Extra map[string]string `json:"extra,omitempty"`
}

var c11own = map[string]bool{"tix": true, "direction": true, "forward_match": true, "forward_error": true, "reverse_match": true,
	"reverse_error": true, "forward_primer": true, "reverse_primer": true, "pairing_mismatches": true}

type c11obs struct {
	Kind string     `json:"kind"` // ok | fatal | panic
	Err  string     `json:"err,omitempty"`
	Amps [][]c11amp `json:"amps"`
}

func c11int(v interface{}) int {
	switch x := v.(type) {
	case int:
		return x
	case int64:
		return int(x)
	case float64:
		return int(x)
	}
	return -999
}

func c11str(v interface{}) string {
	if s, ok := v.(string); ok {
		return s
	}
	return fmt.Sprint(v)
}

func c11run(c c11case) (o c11obs) {
	defer func() {
		if r := recover(); r != nil {
			msg := fmt.Sprint(r)
			if strings.HasPrefix(msg, "log.Fatal") {
				o = c11obs{Kind: "fatal", Err: msg}
			} else {
				o = c11obs{Kind: "panic", Err: msg}
			}
		}
	}()
	opts := []obiapat.WithOption{
		obiapat.OptionForwardPrimer(c.Fwd, c.Ef),
		obiapat.OptionReversePrimer(c.Rev, c.Er),
		obiapat.OptionOnlyFullExtension(c.Full),
		obiapat.OptionMinLength(c.Min),
		obiapat.OptionMaxLength(c.Max),
		obiapat.OptionCircular(c.Circular),
	}
	if c.Ext >= 0 {
		opts = append(opts, obiapat.OptionWithExtension(c.Ext))
	}
	seqs := make(obiseq.BioSequenceSlice, len(c.Templates))
	for i, t := range c.Templates {
		s := obiseq.NewBioSequence(fmt.Sprintf("t%d", i), []byte(t), "")
		if i < len(c.Quals) && c.Quals[i] != nil {
			q := make([]byte, len(c.Quals[i]))
			for k, v := range c.Quals[i] {
				q[k] = byte(v)
			}
			s.SetQualities(q)
		}
		if i < len(c.Annots) {
			for k, v := range c.Annots[i] {
				if m, ok := v.(map[string]interface{}); ok && k == "pairing_mismatches" {
					pm := make(map[string]int, len(m))
					for mk, mv := range m {
						pm[mk] = c11int(mv)
					}
					s.SetAttribute(k, pm)
				} else if f, ok := v.(float64); ok && f == float64(int(f)) {
					s.SetAttribute(k, int(f))
				} else {
					s.SetAttribute(k, v)
				}
			}
		}
		s.SetAttribute("tix", i)
		seqs[i] = s
	}
	var res obiseq.BioSequenceSlice
	switch c.Mode {
	case "sim":
		for _, s := range seqs {
			res = append(res, obiapat.PCRSim(s, opts...)...)
		}
	case "worker":
		w := obiapat.PCRSliceWorker(opts...)
		r, err := w(seqs)
		if err != nil {
			return c11obs{Kind: "panic", Err: err.Error()}
		}
		res = r
	default:
		res = obiapat.PCRSlice(seqs, opts...)
	}
	amps := make([][]c11amp, len(c.Templates))
	for i := range amps {
		amps[i] = []c11amp{}
	}
	for _, a := range res {
		an := a.Annotations()
		tix := c11int(an["tix"])
		if tix < 0 || tix >= len(amps) {
			return c11obs{Kind: "panic", Err: "amplicon without template index"}
		}
		var qual []int
		var pm map[string]int
		var extra map[string]string
		if len(c.Quals) > 0 || len(c.Annots) > 0 {
			if a.HasQualities() {
				qual = make([]int, 0, a.Len())
				for _, v := range a.Qualities() {
					qual = append(qual, int(v))
				}
			}
			if m, ok := a.GetIntMap("pairing_mismatches"); ok {
				pm = m
			}
			extra = map[string]string{}
			for k, v := range an {
				if !c11own[k] {
					extra[k] = fmt.Sprint(v)
				}
			}
		}
		amps[tix] = append(amps[tix], c11amp{
			Qual: qual, Pm: pm, Extra: extra,
			Seq: a.String(),
			Dir: c11str(an["direction"]),
			Fm:  c11str(an["forward_match"]),
			Fe:  c11int(an["forward_error"]),
			Rm:  c11str(an["reverse_match"]),
			Re:  c11int(an["reverse_error"]),
			Fp:  c11str(an["forward_primer"]),
			Rp:  c11str(an["reverse_primer"]),
			Id:  a.Id(),
		})
	}
	return c11obs{Kind: "ok", Amps: amps}
}

func init() {
	register("c11", func(in *bufio.Reader, out *bufio.Writer) error {
		log.StandardLogger().ExitFunc = func(int) { panic("log.Fatal") }
		return eachLine(in, out, func(c c11case) any { return c11run(c) })
	})
}
