module verifharness

go 1.23.1

require (
	git.metabarcoding.org/obitools/obitools4/obitools4 v0.0.0
	github.com/sirupsen/logrus v1.9.3
)

require golang.org/x/sys v0.17.0 // indirect

replace git.metabarcoding.org/obitools/obitools4/obitools4 => /repo
