(** C02 — lemmas. *)
From Coq Require Import NArith ZArith List Bool Lia.
From OBI.C02 Require Import Model.
Import ListNotations.
Open Scope N_scope.


(** nested induction principle *)
Section jind.
  Variable P : jvalue -> Prop.
  Hypothesis Hnull : P JNull.
  Hypothesis Hbool : forall b, P (JBool b).
  Hypothesis Hnum : forall t, P (JNum t).
  Hypothesis Hstr : forall s, P (JStr s).
  Hypothesis Harr : forall l, Forall P l -> P (JArr l).
  Hypothesis Hobj : forall m, Forall (fun kv => P (snd kv)) m -> P (JObj m).
  Fixpoint jvalue_ind' (v : jvalue) : P v :=
    match v with
    | JNull => Hnull | JBool b => Hbool b | JNum t => Hnum t | JStr s => Hstr s
    | JArr l => Harr l ((fix go (l : list jvalue) : Forall P l :=
                           match l with [] => Forall_nil _ | x :: l' => Forall_cons _ (jvalue_ind' x) (go l') end) l)
    | JObj m => Hobj m ((fix go (m : list (list N * jvalue)) : Forall (fun kv => P (snd kv)) m :=
                           match m with [] => Forall_nil _ | kv :: m' => Forall_cons _ (jvalue_ind' (snd kv)) (go m') end) m)
    end.
End jind.

Lemma scan_loop_cons : forall h c t i start level inq esc, h = c :: t ->
  scan_loop true h i start level inq esc =
    if esc then scan_loop true t (i + 1)%Z start level inq false
    else if inq && (c =? 92) then scan_loop true t (i + 1)%Z start level inq true
    else
      let start' := if (level =? 0)%Z && (c =? 123) && negb inq then i else start in
      let inq' := if (start' >? -1)%Z && (c =? 34) then negb inq else inq in
      let level1 := if (c =? 123) && negb inq' then (level + 1)%Z else level in
      let level2 := if (c =? 125) && negb inq' then (level1 - 1)%Z else level1 in
      if (start' >=? 0)%Z && (level2 =? 0)%Z then (start', i)
      else scan_loop true t (i + 1)%Z start' level2 inq' false.
Proof. intros; subst; reflexivity. Qed.

(** a byte string that the scanner crosses at level L outside a string without stopping *)
Definition skips (L : Z) (p : list N) : Prop :=
  forall rest i start, (0 <= start)%Z ->
    scan_loop true (p ++ rest) i start L false false
    = scan_loop true rest (i + Z.of_nat (length p))%Z start L false false.
(** same inside a string *)
Definition qskips (L : Z) (p : list N) : Prop :=
  forall rest i start, (0 <= start)%Z ->
    scan_loop true (p ++ rest) i start L true false
    = scan_loop true rest (i + Z.of_nat (length p))%Z start L true false.

Lemma skips_nil : forall L, skips L [].
Proof. intros L rest i start _. cbn. f_equal. lia. Qed.
Lemma qskips_nil : forall L, qskips L [].
Proof. intros L rest i start _. cbn. f_equal. lia. Qed.

Lemma skips_app : forall L p q, skips L p -> skips L q -> skips L (p ++ q).
Proof.
  intros L p q Hp Hq rest i start Hs. rewrite <- app_assoc, Hp, Hq by assumption.
  f_equal. rewrite app_length. lia.
Qed.
Lemma qskips_app : forall L p q, qskips L p -> qskips L q -> qskips L (p ++ q).
Proof.
  intros L p q Hp Hq rest i start Hs. rewrite <- app_assoc, Hp, Hq by assumption.
  f_equal. rewrite app_length. lia.
Qed.

Definition plain (c : N) : Prop := c <> 34 /\ c <> 123 /\ c <> 125.

Lemma skips_plain : forall L c, (1 <= L)%Z -> plain c -> skips L [c].
Proof.
  intros L c HL (H1 & H2 & H3) rest i start Hs.
  rewrite (scan_loop_cons _ c rest) by reflexivity. cbn [andb negb].
  apply N.eqb_neq in H1, H2, H3. rewrite H1, H2, H3. rewrite !andb_false_r. cbn [andb].
  destruct (L =? 0)%Z eqn:E; [lia|]. rewrite andb_false_r. cbn [length]. f_equal.
Qed.

Lemma qskips_plain : forall L c, (1 <= L)%Z -> c <> 34 -> c <> 92 -> qskips L [c].
Proof.
  intros L c HL H1 H2 rest i start Hs.
  rewrite (scan_loop_cons _ c rest) by reflexivity. cbn [andb negb].
  apply N.eqb_neq in H1, H2. rewrite H1, H2. rewrite !andb_false_r. cbn [andb].
  destruct (L =? 0)%Z eqn:E; [lia|]. rewrite !andb_false_r. cbn [length]. f_equal.
Qed.

Lemma qskips_esc : forall L c, qskips L [92; c].
Proof.
  intros L c rest i start Hs. cbn [app].
  rewrite (scan_loop_cons _ 92 (c :: rest)) by reflexivity. cbn [andb N.eqb Pos.eqb].
  rewrite (scan_loop_cons _ c rest) by reflexivity. cbn [length]. f_equal. lia.
Qed.

Lemma wfv_num : forall t, wfv (JNum t) = true -> forallb numchar t = true.
Proof. intros [|c t] H; [discriminate | exact H]. Qed.


Lemma hexd_plain : forall n, hexd n <> 34 /\ hexd n <> 92 \/ 10 <= n /\ n = 5.
Proof. intros n. unfold hexd. destruct (n <? 10) eqn:E.
  - apply N.ltb_lt in E. left. lia.
  - apply N.ltb_ge in E. destruct (N.eq_dec n 5); [lia|]. left. lia.
Qed.
Lemma hexd_ok : forall n, hexd n <> 34 /\ hexd n <> 92.
Proof. intros n. unfold hexd. destruct (n <? 10) eqn:E.
  - apply N.ltb_lt in E. lia.
  - apply N.ltb_ge in E. lia.
Qed.

Lemma qskips_cons : forall L c p, qskips L [c] -> qskips L p -> qskips L (c :: p).
Proof. intros. change (c :: p) with ([c] ++ p). apply qskips_app; assumption. Qed.

Lemma qskips_esc_byte : forall L c, (1 <= L)%Z -> qskips L (esc_byte c).
Proof.
  intros L c HL. unfold esc_byte.
  destruct ((c =? 34) || (c =? 92)) eqn:E1. { apply qskips_esc. }
  apply orb_false_iff in E1. destruct E1 as [E1 E2]. apply N.eqb_neq in E1, E2.
  destruct (c =? 10). { apply qskips_esc. }
  destruct (c =? 13). { apply qskips_esc. }
  destruct (c =? 9). { apply qskips_esc. }
  destruct (c <? 32).
  - change [92; 117; 48; 48; hexd (c / 16); hexd (c mod 16)] with ([92; 117] ++ [48] ++ [48] ++ [hexd (c / 16)] ++ [hexd (c mod 16)]).
    repeat apply qskips_app; try apply qskips_esc; apply qskips_plain; try assumption; try discriminate; apply hexd_ok.
  - apply qskips_plain; assumption.
Qed.

Lemma qskips_esc_string_n : forall L n s, (1 <= L)%Z -> (length s <= n)%nat -> qskips L (esc_string s).
Proof.
  intros L n. induction n as [|n IH]; intros s HL Hn.
  - destruct s; [apply qskips_nil | cbn in Hn; lia].
  - destruct s as [|c t]; [apply qskips_nil|].
    cbn [length] in Hn.
    assert (Ht : qskips L (esc_byte c ++ esc_string t)).
    { apply qskips_app; [apply qskips_esc_byte; assumption | apply IH; [assumption | lia]]. }
    cbn [esc_string]. destruct t as [|c2 [|c3 t']]; try exact Ht.
    destruct ((c =? 226) && (c2 =? 128) && ((c3 =? 168) || (c3 =? 169))); [|exact Ht].
    assert (Hd : (if c3 =? 168 then 56 else 57) <> 34 /\ (if c3 =? 168 then 56 else 57) <> 92).
    { destruct (c3 =? 168); split; discriminate. }
    change (92 :: 117 :: 50 :: 48 :: 50 :: (if c3 =? 168 then 56 else 57) :: esc_string t')
      with ([92; 117] ++ [50] ++ [48] ++ [50] ++ [if c3 =? 168 then 56 else 57] ++ esc_string t').
    repeat apply qskips_app; try apply qskips_esc; try (apply qskips_plain; try assumption; try discriminate; apply Hd).
    apply IH; [assumption | cbn [length] in Hn; lia].
Qed.
Lemma qskips_esc_string : forall L s, (1 <= L)%Z -> qskips L (esc_string s).
Proof. intros L s HL. apply (qskips_esc_string_n L (length s)); [assumption | lia]. Qed.

Lemma skips_ser_str : forall L s, (1 <= L)%Z -> skips L (ser_str s).
Proof.
  intros L s HL rest i start Hs. unfold ser_str. cbn [app].
  rewrite (scan_loop_cons _ 34 ((esc_string s ++ [34]) ++ rest)) by reflexivity.
  cbn [andb negb N.eqb Pos.eqb].
  destruct (L =? 0)%Z eqn:E3; [lia|]. cbn [andb negb].
  destruct (start >? -1)%Z eqn:E1; [|lia]. cbn [andb negb].
  destruct (start >=? 0)%Z eqn:E2; [|lia]. cbn [andb].
  rewrite <- app_assoc. rewrite (qskips_esc_string L s HL) by assumption. cbn [app].
  rewrite (scan_loop_cons _ 34 rest) by reflexivity.
  cbn [andb negb N.eqb Pos.eqb]. repeat (rewrite ?E3, ?E1, ?E2, ?andb_false_r; cbn [andb negb]).
  f_equal. cbn [length]. rewrite app_length. cbn [length]. lia.
Qed.

Lemma skips_braces : forall L p, (1 <= L)%Z -> skips (L + 1) p -> skips L (123 :: p ++ [125]).
Proof.
  intros L p HL Hp rest i start Hs. cbn [app].
  rewrite (scan_loop_cons _ 123 ((p ++ [125]) ++ rest)) by reflexivity.
  cbn [andb negb N.eqb Pos.eqb].
  destruct (L =? 0)%Z eqn:E3; [lia|]. cbn [andb negb].
  destruct (start >? -1)%Z eqn:E1; [|lia]. cbn [andb negb].
  destruct (start >=? 0)%Z eqn:E2; [|lia]. destruct (L + 1 =? 0)%Z eqn:E4; [lia|]. cbn [andb].
  rewrite <- app_assoc. rewrite Hp by assumption. cbn [app].
  rewrite (scan_loop_cons _ 125 rest) by reflexivity.
  cbn [andb negb N.eqb Pos.eqb]. repeat (rewrite ?E4, ?E1, ?E2, ?andb_false_r; cbn [andb negb]).
  replace (L + 1 - 1)%Z with L by lia. repeat (rewrite ?E3, ?E1, ?E2, ?andb_false_r; cbn [andb negb]).
  f_equal. cbn [length]. rewrite app_length. cbn [length]. lia.
Qed.

Lemma skips_cons : forall L c p, skips L [c] -> skips L p -> skips L (c :: p).
Proof. intros. change (c :: p) with ([c] ++ p). apply skips_app; assumption. Qed.

Lemma skips_plain_list : forall L l, (1 <= L)%Z -> Forall plain l -> skips L l.
Proof.
  intros L l HL H. induction H as [|c l Hc _ IH]; [apply skips_nil|].
  apply skips_cons; [apply skips_plain; assumption | exact IH].
Qed.

Lemma skips_join : forall L ls, (1 <= L)%Z -> Forall (skips L) ls -> skips L (join 44 ls).
Proof.
  intros L ls HL H. induction H as [|x rest Hx Hrest IH]; [apply skips_nil|].
  cbn [join]. destruct rest as [|y rest']; [exact Hx|].
  apply skips_app; [exact Hx|]. apply skips_cons; [|exact IH].
  apply skips_plain; [assumption | repeat split; discriminate].
Qed.

Lemma numchar_plain : forall c, numchar c = true -> plain c.
Proof.
  intros c H. unfold numchar in H. unfold plain.
  repeat (apply orb_true_iff in H; destruct H as [H|H]);
    try (apply N.eqb_eq in H; subst; repeat split; discriminate).
  apply andb_true_iff in H. destruct H as [H1 H2]. apply N.leb_le in H1, H2. lia.
Qed.

Lemma skips_ser : forall v, wfv v = true -> forall L, (1 <= L)%Z -> skips L (ser v).
Proof.
  induction v using jvalue_ind'; intros Hwf L HL; cbn [ser].
  - apply skips_plain_list; [assumption|]. repeat constructor; discriminate.
  - destruct b; (apply skips_plain_list; [assumption|]; repeat constructor; discriminate).
  - apply wfv_num in Hwf. apply skips_plain_list; [assumption|].
    apply Forall_forall. intros c Hc. apply numchar_plain. rewrite forallb_forall in Hwf. auto.
  - apply skips_ser_str; assumption.
  - cbn [wfv] in Hwf. rewrite forallb_forall in Hwf.
    apply skips_cons; [apply skips_plain; [assumption | repeat split; discriminate]|].
    apply skips_app; [| apply skips_plain; [assumption | repeat split; discriminate]].
    apply skips_join; [assumption|]. apply Forall_forall. intros x Hx.
    apply in_map_iff in Hx. destruct Hx as (v & <- & Hv).
    rewrite Forall_forall in H. apply H; auto.
  - cbn [wfv] in Hwf. rewrite forallb_forall in Hwf.
    apply skips_braces; [assumption|].
    apply skips_join; [lia|]. apply Forall_forall. intros x Hx.
    apply in_map_iff in Hx. destruct Hx as ([k v] & <- & Hv).
    apply skips_app; [apply skips_ser_str; lia|].
    apply skips_cons; [apply skips_plain; [lia | repeat split; discriminate]|].
    rewrite Forall_forall in H. apply (H (k, v) Hv); [apply (Hwf (k, v) Hv) | lia].
Qed.

Lemma ser_obj_shape : forall o, exists body, ser (JObj o) = 123 :: body ++ [125] /\
  (wfv (JObj o) = true -> skips 1 body).
Proof.
  intros o. eexists. split; [reflexivity|]. intros Hwf.
  cbn [wfv] in Hwf. rewrite forallb_forall in Hwf.
  apply skips_join; [lia|]. apply Forall_forall. intros x Hx.
  apply in_map_iff in Hx. destruct Hx as ([k v] & <- & Hv).
  apply skips_app; [apply skips_ser_str; lia|].
  apply skips_cons; [apply skips_plain; [lia | repeat split; discriminate]|].
  apply skips_ser; [apply (Hwf (k, v) Hv) | lia].
Qed.

Lemma scan_raw_object : forall body rest, skips 1 body ->
  scan_raw true (123 :: body ++ [125] ++ rest) = (0%Z, (1 + Z.of_nat (length body))%Z).
Proof.
  intros body rest Hb. unfold scan_raw.
  rewrite (scan_loop_cons _ 123 (body ++ [125] ++ rest)) by reflexivity.
  cbn [andb negb N.eqb Pos.eqb].
  change (0 =? 0)%Z with true. cbn [andb negb]. change (0 >? -1)%Z with true. cbn [andb negb].
  change (0 >=? 0)%Z with true. change (0 + 1 =? 0)%Z with false. cbn [andb negb].
  rewrite Hb by lia. cbn [app].
  rewrite (scan_loop_cons _ 125 rest) by reflexivity.
  cbn [andb negb N.eqb Pos.eqb].
  change (1 =? 0)%Z with false. cbn [andb negb]. change (0 >? -1)%Z with true. cbn [andb negb].
  change (0 >=? 0)%Z with true. change (1 - 1 =? 0)%Z with true. cbn [andb negb].
  f_equal.
Qed.

Theorem scan_finds_object : forall o rest, wfv (JObj o) = true ->
  scan_obj (ser (JObj o) ++ rest) = Some (0%nat, length (ser (JObj o))).
Proof.
  intros o rest Hwf. destruct (ser_obj_shape o) as (body & -> & Hb). specialize (Hb Hwf).
  unfold scan_obj, scan_gen. cbn [app]. rewrite <- app_assoc. rewrite scan_raw_object by assumption.
  destruct ((0 <? 0)%Z || (1 + Z.of_nat (length body) <? 0)%Z) eqn:E.
  { apply orb_true_iff in E. destruct E as [E|E]; [discriminate | apply Z.ltb_lt in E; lia]. }
  f_equal. f_equal. cbn [length]. rewrite app_length. cbn [length]. lia.
Qed.


(** the scanner before the repair: witness {"a":"q\"}"} (the object is cut after the first brace) and {"a":"\"{"} (never closed) *)
Definition wit1 : list (list N * jvalue) := [([97], JStr [113; 34; 125])].
Definition wit2 : list (list N * jvalue) := [([97], JStr [34; 123])].
Lemma scan_orig_refuted :
  exists o rest, wfv (JObj o) = true /\ scan_obj_orig (ser (JObj o) ++ rest) <> Some (0%nat, length (ser (JObj o))).
Proof. exists wit1, []. split; [reflexivity|]. vm_compute. discriminate. Qed.
Lemma scan_orig_refuted_silent :
  exists o, wfv (JObj o) = true /\ scan_obj_orig (ser (JObj o)) = None.
Proof. exists wit2. split; reflexivity. Qed.

(** header parser = scanner + decoder *)
Lemma firstn_app_exact : forall (A : Type) (l r : list A), firstn (length l) (l ++ r) = l.
Proof. intros. rewrite firstn_app, Nat.sub_diag, firstn_all. cbn. apply app_nil_r. Qed.
Lemma skipn_app_exact : forall (A : Type) (l r : list A), skipn (length l) (l ++ r) = r.
Proof. intros. rewrite skipn_app, Nat.sub_diag, skipn_all. reflexivity. Qed.

(** the decoder is a parameter; the only thing asked of it is that it returns the object that was marshalled *)
Lemma parse_header_roundtrip : forall (dec : list N -> option jvalue) o rest, wfv (JObj o) = true ->
  dec (ser (JObj o)) = Some (JObj o) ->
  parse_header dec (ser (JObj o) ++ rest) = HObject (JObj o) (trim rest).
Proof.
  intros dec o rest Hwf Hdec. unfold parse_header. rewrite scan_finds_object by assumption.
  unfold slice. rewrite Nat.sub_0_r. cbn [skipn].
  rewrite firstn_app_exact, skipn_app_exact, Hdec. reflexivity.
Qed.
Lemma parse_header_formatted : forall (dec : list N -> option jvalue) o, wfv (JObj o) = true ->
  dec (ser (JObj o)) = Some (JObj o) ->
  parse_header dec (ser (JObj o)) = HObject (JObj o) [].
Proof.
  intros dec o Hwf Hdec. rewrite <- (app_nil_r (ser (JObj o))) at 1.
  rewrite parse_header_roundtrip by assumption. reflexivity.
Qed.

(** quality shift *)
Lemma qual_roundtrip : forall shift q, q <= 93 -> shift < 256 -> qual_back shift (qual_char shift q) = q.
Proof.
  intros shift q Hq Hs. unfold qual_back, qual_char.
  destruct (93 <? q) eqn:E; [apply N.ltb_lt in E; lia|].
  rewrite (N.mod_small shift 256) by lia.
  assert (H : (q + shift) mod 256 = q + shift \/ (q + shift) mod 256 = q + shift - 256 /\ 256 <= q + shift).
  { destruct (N.lt_ge_cases (q + shift) 256) as [H|H].
    - left. apply N.mod_small. lia.
    - right. split; [|lia]. symmetry. apply (N.mod_unique _ _ 1); lia. }
  destruct H as [H|[H H']]; rewrite H.
  - replace (q + shift + 256 - shift) with (q + 1 * 256) by lia. rewrite N.mod_add by lia. apply N.mod_small. lia.
  - replace (q + shift - 256 + 256 - shift) with q by lia. apply N.mod_small. lia.
Qed.
Lemma qual_clamped : forall shift q, 93 < q -> shift < 256 -> qual_back shift (qual_char shift q) = 93.
Proof.
  intros shift q Hq Hs. unfold qual_char. destruct (93 <? q) eqn:E; [|apply N.ltb_ge in E; lia].
  pose proof (qual_roundtrip shift 93 ltac:(lia) Hs) as H. unfold qual_char in H. cbn [N.ltb N.compare Pos.compare Pos.compare_cont] in H.
  exact H.
Qed.
(** the quality characters written with the offsets 33 and 64 are never line or field separators *)
Lemma qual_char_not_sep : forall shift q, shift_ok shift -> is_sep (qual_char shift q) = false.
Proof.
  intros shift q Hs. unfold qual_char.
  assert (Hm : (if 93 <? q then 93 else q) <= 93).
  { destruct (93 <? q) eqn:E; [lia | apply N.ltb_ge in E; exact E]. }
  generalize dependent (if 93 <? q then 93 else q). intros m Hm. unfold shift_ok in Hs.
  rewrite N.mod_small by lia. unfold is_sep, is_space, is_eol.
  repeat (apply orb_false_iff; split); apply N.eqb_neq; lia.
Qed.


Lemma chunks_concat : forall fuel n s, (0 < n)%nat -> (length s <= fuel)%nat -> concat (chunks fuel n s) = s.
Proof.
  induction fuel as [|f IH]; intros n s Hn Hl.
  - destruct s; [reflexivity | cbn in Hl; lia].
  - destruct s as [|c t]; [reflexivity|]. cbn [chunks concat].
    rewrite IH; [apply firstn_skipn | assumption |].
    rewrite skipn_length. cbn [length] in *. lia.
Qed.
Lemma chunks_lines : forall fuel n s, (0 < n)%nat ->
  Forall (fun l => l <> [] /\ (length l <= n)%nat) (chunks fuel n s).
Proof.
  induction fuel as [|f IH]; intros n s Hn; [constructor|].
  destruct s as [|c t]; [constructor|]. cbn [chunks]. constructor; [|apply IH; assumption].
  split; [destruct n; [lia | discriminate] | apply firstn_le_length].
Qed.
(** every line but the last is full *)
Lemma chunks_full : forall fuel n s l rest, (0 < n)%nat -> (length s <= fuel)%nat ->
  chunks fuel n s = l :: rest -> rest <> [] -> length l = n.
Proof.
  intros fuel n s l rest Hn Hl H Hr. destruct fuel as [|f]; [discriminate|].
  destruct s as [|c t]; [discriminate|]. cbn [chunks] in H. injection H as <- <-.
  destruct (Nat.le_gt_cases n (length (c :: t))) as [Hle|Hgt]; [apply firstn_length_le; assumption|].
  exfalso. apply Hr. rewrite skipn_all2 by lia. destruct f; reflexivity.
Qed.
Lemma fold60_concat : forall s, concat (fold60 s) = s.
Proof. intros s. apply chunks_concat; lia. Qed.
Lemma fold60_lines : forall s, Forall (fun l => l <> [] /\ (length l <= 60)%nat) (fold60 s).
Proof. intros s. apply chunks_lines. lia. Qed.
Lemma fold60_nonempty : forall s, s <> [] -> fold60 s <> [].
Proof. intros [|c t] H; [congruence|]. unfold fold60. cbn [length chunks]. discriminate. Qed.
Lemma fold60_full : forall s l rest, fold60 s = l :: rest -> rest <> [] -> length l = 60%nat.
Proof. intros s l rest. apply (chunks_full (length s) 60 s l rest); lia. Qed.


(** * no line terminator inside a serialised value *)

Lemma forallb_join : forall p sep ls, p sep = true -> forallb (forallb p) ls = true -> forallb p (join sep ls) = true.
Proof.
  intros p sep ls Hs. induction ls as [|x rest IH]; intros H; [reflexivity|].
  cbn [forallb] in H. apply andb_true_iff in H. destruct H as [Hx Hr]. cbn [join].
  destruct rest as [|y rest']; [exact Hx|].
  rewrite forallb_app. rewrite Hx. cbn [forallb andb]. rewrite Hs. cbn [andb]. apply IH. exact Hr.
Qed.

Lemma hexd_noeol : forall n, noeol (hexd n) = true.
Proof.
  intros n. unfold noeol, is_eol, hexd. destruct (n <? 10) eqn:E.
  - apply N.ltb_lt in E. apply negb_true_iff, orb_false_iff. split; apply N.eqb_neq; lia.
  - apply N.ltb_ge in E. apply negb_true_iff, orb_false_iff. split; apply N.eqb_neq; lia.
Qed.

Lemma esc_byte_noeol : forall c, forallb noeol (esc_byte c) = true.
Proof.
  intros c. unfold esc_byte.
  destruct ((c =? 34) || (c =? 92)) eqn:E1.
  { apply orb_true_iff in E1. destruct E1 as [E|E]; apply N.eqb_eq in E; subst; reflexivity. }
  destruct (c =? 10) eqn:E2; [reflexivity|]. destruct (c =? 13) eqn:E3; [reflexivity|].
  destruct (c =? 9); [reflexivity|]. destruct (c <? 32).
  - cbn [forallb]. rewrite !hexd_noeol. reflexivity.
  - cbn [forallb]. unfold noeol, is_eol. rewrite E2, E3. reflexivity.
Qed.

Lemma esc_string_noeol_n : forall n s, (length s <= n)%nat -> forallb noeol (esc_string s) = true.
Proof.
  induction n as [|n IH]; intros s Hn.
  - destruct s; [reflexivity | cbn in Hn; lia].
  - destruct s as [|c t]; [reflexivity|]. cbn [length] in Hn.
    assert (Ht : forallb noeol (esc_byte c ++ esc_string t) = true).
    { rewrite forallb_app, esc_byte_noeol, IH by lia. reflexivity. }
    cbn [esc_string]. destruct t as [|c2 [|c3 t']]; try exact Ht.
    destruct ((c =? 226) && (c2 =? 128) && ((c3 =? 168) || (c3 =? 169))); [|exact Ht].
    cbn [forallb]. rewrite IH by (cbn [length] in Hn; lia). destruct (c3 =? 168); reflexivity.
Qed.
Lemma ser_str_noeol : forall s, forallb noeol (ser_str s) = true.
Proof.
  intros s. unfold ser_str. cbn [forallb]. rewrite forallb_app, (esc_string_noeol_n (length s)) by lia. reflexivity.
Qed.

Lemma numchar_noeol : forall c, numchar c = true -> noeol c = true.
Proof.
  intros c H. unfold numchar in H. unfold noeol, is_eol. apply negb_true_iff, orb_false_iff.
  repeat (apply orb_true_iff in H; destruct H as [H|H]);
    try (apply N.eqb_eq in H; subst; split; reflexivity).
  apply andb_true_iff in H. destruct H as [H1 H2]. apply N.leb_le in H1, H2. split; apply N.eqb_neq; lia.
Qed.

Lemma ser_noeol : forall v, wfv v = true -> forallb noeol (ser v) = true.
Proof.
  induction v using jvalue_ind'; intros Hwf; cbn [ser].
  - reflexivity.
  - destruct b; reflexivity.
  - apply wfv_num in Hwf. rewrite forallb_forall in *. intros c Hc. apply numchar_noeol. auto.
  - apply ser_str_noeol.
  - cbn [wfv] in Hwf. rewrite forallb_forall in Hwf. cbn [forallb]. rewrite forallb_app.
    rewrite forallb_join; [reflexivity | reflexivity |].
    apply forallb_forall. intros x Hx. apply in_map_iff in Hx. destruct Hx as (v & <- & Hv).
    rewrite Forall_forall in H. apply H; auto.
  - cbn [wfv] in Hwf. rewrite forallb_forall in Hwf. cbn [forallb]. rewrite forallb_app.
    rewrite forallb_join; [reflexivity | reflexivity |].
    apply forallb_forall. intros x Hx. apply in_map_iff in Hx. destruct Hx as ([k v] & <- & Hv).
    rewrite forallb_app, ser_str_noeol. cbn [forallb andb].
    rewrite Forall_forall in H. apply (H (k, v) Hv). apply (Hwf (k, v) Hv).
Qed.

Lemma header_info_shape : forall ann, wfv (JObj ann) = true ->
  forallb noeol (header_info ann) = true /\ (header_info ann = [] \/ exists t, header_info ann = 123 :: t).
Proof.
  intros ann Hwf. unfold header_info. destruct ann as [|kv ann']; [split; [reflexivity | left; reflexivity]|].
  split; [apply ser_noeol; exact Hwf | right; eexists; reflexivity].
Qed.


Lemma run_steps_app : forall step l1 l2 s,
  run_steps step s (l1 ++ l2) = match run_steps step s l1 with Some s' => run_steps step s' l2 | None => None end.
Proof.
  intros step l1. induction l1 as [|c l1 IH]; intros l2 s; [reflexivity|].
  cbn [app run_steps]. destruct (step s c); [apply IH | reflexivity].
Qed.

Lemma seqchar_facts : forall c, seqchar c = true ->
  (c =? 62) = false /\ is_sep c = false /\ is_eol c = false /\ lower c = c /\ (c =? 10) = false.
Proof.
  intros c H. unfold seqchar in H.
  assert (Hc : (97 <= c /\ c <= 122) \/ c = 45 \/ c = 46 \/ c = 91 \/ c = 93).
  { repeat (apply orb_true_iff in H; destruct H as [H|H]); try (apply N.eqb_eq in H; lia).
    apply andb_true_iff in H. destruct H as [H1 H2]. apply N.leb_le in H1, H2. lia. }
  unfold is_sep, is_space, is_eol, lower.
  assert (E : (65 <=? c) && (c <=? 90) = false).
  { apply andb_false_iff. destruct (N.le_gt_cases c 90); [left; apply N.leb_gt; lia | right; apply N.leb_gt; lia]. }
  rewrite E. repeat split; try (apply N.eqb_neq; lia);
  repeat (apply orb_false_iff; split); apply N.eqb_neq; lia.
Qed.

Definition not10 (c : N) : bool := negb (c =? 10).

(** ** phases of the FASTA automaton *)
Lemma fasta_id_phase : forall l idb ident defb defn seqb qb prev out,
  forallb (fun c => negb (is_sep c)) l = true ->
  exists p, run_steps fasta_step (mkst 2 idb ident defb defn seqb qb prev out) l
            = Some (mkst 2 (rev l ++ idb) ident defb defn seqb qb p out).
Proof.
  induction l as [|c l IH]; intros idb ident defb defn seqb qb prev out H.
  - eexists. reflexivity.
  - cbn [forallb] in H. apply andb_true_iff in H. destruct H as [Hc Hl]. apply negb_true_iff in Hc.
    cbn [run_steps]. unfold fasta_step at 1. cbn [s_state s_idb s_ident s_defb s_defn s_seqb s_qualb s_out]. rewrite Hc.
    destruct (IH (c :: idb) ident defb defn seqb qb c out Hl) as (p & Hp). exists p. rewrite Hp.
    cbn [rev]. rewrite <- app_assoc. reflexivity.
Qed.

Lemma fasta_def_phase : forall l idb ident defb defn seqb qb prev out,
  forallb noeol l = true ->
  exists p, run_steps fasta_step (mkst 4 idb ident defb defn seqb qb prev out) l
            = Some (mkst 4 idb ident (rev l ++ defb) defn seqb qb p out).
Proof.
  induction l as [|c l IH]; intros idb ident defb defn seqb qb prev out H.
  - eexists. reflexivity.
  - cbn [forallb] in H. apply andb_true_iff in H. destruct H as [Hc Hl]. apply negb_true_iff in Hc.
    cbn [run_steps]. unfold fasta_step at 1. cbn [s_state s_idb s_ident s_defb s_defn s_seqb s_qualb s_out]. rewrite Hc.
    destruct (IH idb ident (c :: defb) defn seqb qb c out Hl) as (p & Hp). exists p. rewrite Hp.
    cbn [rev]. rewrite <- app_assoc. reflexivity.
Qed.

Lemma fasta_seq_phase : forall l idb ident defb defn seqb qb prev out,
  forallb (fun c => (c =? 10) || seqchar c) l = true ->
  exists p, run_steps fasta_step (mkst 6 idb ident defb defn seqb qb prev out) l
            = Some (mkst 6 idb ident defb defn (rev (filter not10 l) ++ seqb) qb p out).
Proof.
  induction l as [|c l IH]; intros idb ident defb defn seqb qb prev out H.
  - eexists. reflexivity.
  - cbn [forallb] in H. apply andb_true_iff in H. destruct H as [Hc Hl].
    cbn [run_steps]. unfold fasta_step at 1. cbn [s_state s_idb s_ident s_defb s_defn s_seqb s_qualb s_out s_prev].
    apply orb_true_iff in Hc. destruct Hc as [Hc|Hc].
    + apply N.eqb_eq in Hc. subst c. cbn [N.eqb Pos.eqb is_sep is_space is_eol orb negb].
      destruct (IH idb ident defb defn seqb qb 10 out Hl) as (p & Hp). exists p. rewrite Hp. reflexivity.
    + destruct (seqchar_facts c Hc) as (H1 & H2 & H3 & H4 & H5). rewrite H1, H2, H4, Hc. cbn [negb].
      destruct (IH idb ident defb defn (c :: seqb) qb c out Hl) as (p & Hp). exists p. rewrite Hp.
      cbn [filter]. unfold not10 at 2. rewrite H5. cbn [negb rev]. rewrite <- app_assoc. reflexivity.
Qed.

(** ** what the writer guarantees about the folded sequence *)
Lemma forallb_concat : forall (p : N -> bool) ls, forallb p (concat ls) = forallb (forallb p) ls.
Proof. intros p ls. induction ls as [|x r IH]; [reflexivity|]. cbn [concat forallb]. rewrite forallb_app, IH. reflexivity. Qed.

Lemma filter_join10 : forall ls, forallb (forallb not10) ls = true -> filter not10 (join 10 ls) = concat ls.
Proof.
  induction ls as [|x r IH]; intros H; [reflexivity|].
  cbn [forallb] in H. apply andb_true_iff in H. destruct H as [Hx Hr].
  assert (Fx : filter not10 x = x).
  { clear -Hx. induction x as [|c x IHx]; [reflexivity|]. cbn [forallb] in Hx. apply andb_true_iff in Hx.
    destruct Hx as [Hc Hx]. cbn [filter]. rewrite Hc, IHx by assumption. reflexivity. }
  cbn [join concat]. destruct r as [|y r']; [cbn [concat]; rewrite app_nil_r; exact Fx|].
  rewrite filter_app, Fx. cbn [filter]. unfold not10 at 1. cbn [N.eqb Pos.eqb negb]. rewrite IH by assumption. reflexivity.
Qed.

Lemma seqline_join10 : forall ls, forallb (forallb seqchar) ls = true ->
  forallb (fun c => (c =? 10) || seqchar c) (join 10 ls) = true.
Proof.
  intros ls H. apply forallb_join; [reflexivity|].
  rewrite forallb_forall in *. intros x Hx. specialize (H x Hx). rewrite forallb_forall in *.
  intros c Hc. rewrite (H c Hc). apply orb_true_r.
Qed.

Lemma seqchar_not10 : forall l, forallb seqchar l = true -> forallb not10 l = true.
Proof.
  intros l H. rewrite forallb_forall in *. intros c Hc. unfold not10.
  destruct (seqchar_facts c (H c Hc)) as (_ & _ & _ & _ & E). rewrite E. reflexivity.
Qed.

Lemma folded_shape : forall seq, seq <> [] -> forallb seqchar seq = true ->
  exists c body, join 10 (fold60 seq) = c :: body /\ seqchar c = true /\
    forallb (fun c => (c =? 10) || seqchar c) body = true /\ c :: filter not10 body = seq.
Proof.
  intros seq Hne Hs.
  assert (Hls : forallb (forallb seqchar) (fold60 seq) = true).
  { rewrite <- forallb_concat, fold60_concat. exact Hs. }
  pose proof (seqline_join10 _ Hls) as Hj.
  assert (Hf : filter not10 (join 10 (fold60 seq)) = seq).
  { rewrite filter_join10; [apply fold60_concat|]. rewrite <- forallb_concat, fold60_concat. apply seqchar_not10. exact Hs. }
  destruct seq as [|c0 seq']; [congruence|].
  assert (Hhd : exists body, join 10 (fold60 (c0 :: seq')) = c0 :: body).
  { unfold fold60. cbn [length chunks firstn]. cbn [join].
    destruct (chunks (length seq') 60 (skipn 60 (c0 :: seq'))); eexists; reflexivity. }
  destruct Hhd as (body & Hb). exists c0, body. rewrite Hb in Hj, Hf.
  cbn [forallb] in Hs, Hj. apply andb_true_iff in Hs. destruct Hs as [Hc0 _].
  apply andb_true_iff in Hj. destruct Hj as [_ Hj].
  split; [exact Hb|]. split; [exact Hc0|]. split; [exact Hj|].
  cbn [filter] in Hf. unfold not10 at 1 in Hf. destruct (seqchar_facts c0 Hc0) as (_ & _ & _ & _ & E).
  rewrite E in Hf. cbn [negb] in Hf. exact Hf.
Qed.


(** text of one FASTA entry after its '>' *)
Definition fasta_tail (r : wrec) : list N :=
  w_id r ++ 32 :: header_info (w_ann r) ++ 10 :: join 10 (fold60 (w_seq r)) ++ [10].
Lemma format_fasta_tail : forall r, format_fasta r ++ [10] = 62 :: fasta_tail r.
Proof.
  intros r. unfold format_fasta, fasta_tail, title.
  repeat (rewrite <- app_assoc || rewrite <- app_comm_cons). reflexivity.
Qed.

Lemma rec_ok_seq : forall r, rec_ok r = true -> w_seq r <> [] /\ forallb seqchar (w_seq r) = true.
Proof.
  intros r H. unfold rec_ok in H. repeat (apply andb_true_iff in H; destruct H as [H ?]).
  split; [|assumption]. destruct (w_seq r); [discriminate | discriminate].
Qed.

Lemma run_steps_cons : forall step s c t,
  run_steps step s (c :: t) = match step s c with Some s' => run_steps step s' t | None => None end.
Proof. reflexivity. Qed.

Lemma fasta_record : forall r idb ident defb defn seqb qb prev out, rec_ok r = true ->
  exists idb' defb' ,
    run_steps fasta_step (mkst 1 idb ident defb defn seqb qb prev out) (fasta_tail r)
    = Some (mkst 6 idb' (w_id r) defb' (header_info (w_ann r)) (rev (w_seq r)) qb 10 out).
Proof.
  intros r idb ident defb defn seqb qb prev out Hok.
  destruct (rec_ok_seq r Hok) as (Hne & Hsq).
  unfold rec_ok in Hok. repeat (apply andb_true_iff in Hok; destruct Hok as [Hok ?]).
  rename Hok into Hid. rename H1 into Hwf.
  destruct (header_info_shape (w_ann r) Hwf) as (Hinfo & Hshape).
  destruct (folded_shape (w_seq r) Hne Hsq) as (c0 & body & Hbody & Hc0 & Hbodyok & Hfilter).
  unfold fasta_tail. rewrite Hbody.
  remember (header_info (w_ann r)) as info. remember (w_seq r) as seq. remember (w_id r) as id.
  destruct id as [|i0 id']; [discriminate|]. cbn [id_ok forallb] in Hid.
  apply andb_true_iff in Hid. destruct Hid as [Hi0 Hid']. apply negb_true_iff in Hi0.
  (* state 1: first byte of the identifier *)
  cbn [app run_steps]. unfold fasta_step at 1. cbn [s_state s_idb s_ident s_defb s_defn s_seqb s_qualb s_out]. rewrite Hi0.
  (* state 2: rest of the identifier *)
  rewrite run_steps_app.
  destruct (fasta_id_phase id' [i0] ident defb defn seqb qb i0 out Hid') as (p1 & ->).
  (* the blank *)
  cbn [run_steps]. unfold fasta_step at 1. cbn [s_state s_idb s_ident s_defb s_defn s_seqb s_qualb s_out].
  cbn [is_sep is_space is_eol N.eqb Pos.eqb orb].
  replace (rev (rev id' ++ [i0])) with (i0 :: id') by (rewrite rev_app_distr, rev_involutive; reflexivity).
  destruct (seqchar_facts c0 Hc0) as (E1 & E2 & E3 & E4 & E5).
  assert (Hseq : forall idb1 ident1 defb1 defn1 p,
    exists idb' defb',
    run_steps fasta_step (mkst 5 idb1 ident1 defb1 defn1 seqb qb p out) (c0 :: body ++ [10])
    = Some (mkst 6 idb' ident1 defb' defn1 (rev seq) qb 10 out)).
  { intros idb1 ident1 defb1 defn1 p. cbn [run_steps]. unfold fasta_step at 1.
    cbn [s_state s_idb s_ident s_defb s_defn s_seqb s_qualb s_out]. rewrite E3, E4, Hc0.
    rewrite run_steps_app.
    destruct (fasta_seq_phase body idb1 ident1 defb1 defn1 [c0] qb c0 out Hbodyok) as (p2 & ->).
    cbn [run_steps]. unfold fasta_step at 1. cbn [s_state s_idb s_ident s_defb s_defn s_seqb s_qualb s_out s_prev].
    cbn [is_sep is_space is_eol N.eqb Pos.eqb orb negb].
    exists idb1, defb1. rewrite <- Hfilter. cbn [rev]. reflexivity. }
  destruct Hshape as [Hnil | (t & Ht)].
  - (* no annotation: empty definition *)
    rewrite Hnil. cbn [app]. rewrite run_steps_cons. unfold fasta_step at 1. cbn [s_state s_idb s_ident s_defb s_defn s_seqb s_qualb s_out].
    cbn [is_sep is_space is_eol N.eqb Pos.eqb orb].
        destruct (Hseq [] (i0 :: id') defb [] 10) as (idb' & defb' & ->). eexists; eexists; reflexivity.
  - rewrite Ht. rewrite Ht in Hinfo. cbn [forallb] in Hinfo. apply andb_true_iff in Hinfo. destruct Hinfo as [_ Hinfo].
    cbn [app]. rewrite run_steps_cons. unfold fasta_step at 1. cbn [s_state s_idb s_ident s_defb s_defn s_seqb s_qualb s_out].
    cbn [is_sep is_space is_eol N.eqb Pos.eqb orb negb].
    rewrite run_steps_app.
    destruct (fasta_def_phase t [] (i0 :: id') [123] defn seqb qb 123 out Hinfo) as (p3 & ->).
    rewrite run_steps_cons. unfold fasta_step at 1. cbn [s_state s_idb s_ident s_defb s_defn s_seqb s_qualb s_out].
    cbn [is_sep is_space is_eol N.eqb Pos.eqb orb negb].
    replace (rev (rev t ++ [123])) with (123 :: t) by (rewrite rev_app_distr, rev_involutive; reflexivity).
    destruct (Hseq [] (i0 :: id') (rev t ++ [123]) (123 :: t) 10) as (idb' & defb' & ->). eexists; eexists; reflexivity.
Qed.


Definition fasta_text (l : list wrec) : list N := concat (map (fun r => format_fasta r ++ [10]) l).

Lemma format_batch_fasta : forall shift l, forallb rec_ok l = true -> format_batch false shift l = Ok (fasta_text l).
Proof.
  intros shift l. induction l as [|r l IH]; intros H; [reflexivity|].
  cbn [forallb] in H. apply andb_true_iff in H. destruct H as [Hr Hl].
  cbn [format_batch]. destruct (rec_ok_seq r Hr) as (Hne & _).
  destruct (w_seq r) eqn:E; [congruence|]. rewrite IH by assumption. reflexivity.
Qed.

Lemma fasta_batch_run : forall l r idb ident defb defn seqb qb prev out,
  rec_ok r = true -> forallb rec_ok l = true ->
  exists s', run_steps fasta_step (mkst 1 idb ident defb defn seqb qb prev out) (fasta_tail r ++ fasta_text l) = Some s'
             /\ s_state s' = 6%nat /\ emit s' = rev (map as_parsed (r :: l)) ++ out.
Proof.
  induction l as [|r2 l IH]; intros r idb ident defb defn seqb qb prev out Hr Hl.
  - destruct (fasta_record r idb ident defb defn seqb qb prev out Hr) as (idb' & defb' & H).
    unfold fasta_text. cbn [map concat]. rewrite app_nil_r. eexists. split; [exact H|]. split; [reflexivity|].
    unfold emit. cbn [s_ident s_defn s_seqb s_out map rev app]. rewrite rev_involutive. reflexivity.
  - cbn [forallb] in Hl. apply andb_true_iff in Hl. destruct Hl as [Hr2 Hl].
    destruct (fasta_record r idb ident defb defn seqb qb prev out Hr) as (idb' & defb' & H).
    rewrite run_steps_app, H. unfold fasta_text. cbn [map concat]. rewrite format_fasta_tail.
    cbn [app]. rewrite run_steps_cons. unfold fasta_step at 1.
    cbn [s_state s_idb s_ident s_defb s_defn s_seqb s_qualb s_out s_prev N.eqb Pos.eqb is_eol orb].
    destruct (IH r2 idb' (w_id r) defb' (header_info (w_ann r)) (rev (w_seq r)) qb 62
                 (emit (mkst 6 idb' (w_id r) defb' (header_info (w_ann r)) (rev (w_seq r)) qb 10 out)) Hr2 Hl)
      as (s' & Hs' & Hst & Hem).
    exists s'. split; [exact Hs'|]. split; [exact Hst|]. rewrite Hem.
    unfold emit at 1. cbn [s_ident s_defn s_seqb s_out]. rewrite rev_involutive.
    cbn [map rev]. rewrite <- !app_assoc. reflexivity.
Qed.

Theorem fasta_roundtrip : forall shift l, l <> [] -> forallb rec_ok l = true ->
  exists text, format_batch false shift l = Ok text /\ parse_fasta text = Ok (map as_parsed l).
Proof.
  intros shift l Hne Hok. exists (fasta_text l). split; [apply format_batch_fasta; exact Hok|].
  destruct l as [|r l]; [congruence|]. cbn [forallb] in Hok. apply andb_true_iff in Hok. destruct Hok as [Hr Hl].
  unfold fasta_text. cbn [map concat]. rewrite format_fasta_tail. cbn [app].
  assert (Hid : exists i0 t, fasta_tail r ++ concat (map (fun r0 => format_fasta r0 ++ [10]) l) = i0 :: t /\ (i0 =? 32) = false).
  { unfold fasta_tail. pose proof Hr as Hr'. unfold rec_ok in Hr'. repeat (apply andb_true_iff in Hr'; destruct Hr' as [Hr' ?]).
    destruct (w_id r) as [|i0 id']; [discriminate|]. cbn [id_ok forallb] in Hr'. apply andb_true_iff in Hr'.
    destruct Hr' as [Hi0 _]. exists i0. eexists. split; [reflexivity|].
    apply negb_true_iff in Hi0. unfold is_sep, is_space in Hi0. apply orb_false_iff in Hi0. destruct Hi0 as [Hi0 _].
    apply orb_false_iff in Hi0. tauto. }
  destruct Hid as (i0 & t & Ht & Hi0).
  unfold parse_fasta. rewrite Ht, Hi0, <- Ht. rewrite run_steps_cons. unfold fasta_step at 1. unfold st0 at 1.
  cbn [s_state s_idb s_ident s_defb s_defn s_seqb s_qualb s_out s_prev N.eqb Pos.eqb].
  destruct (fasta_batch_run l r [] [] [] [] [] [] 62 [] Hr Hl) as (s' & Hs' & Hst & Hem).
  unfold fasta_text in Hs'. unfold st0. cbn [s_idb s_ident s_defb s_defn s_seqb s_qualb s_out]. rewrite Hs', Hst. cbn [Nat.eqb].
  rewrite Hem, app_nil_r, rev_involutive. reflexivity.
Qed.


Ltac fq_step := rewrite run_steps_cons; unfold fastq_step at 1;
  cbn [s_state s_idb s_ident s_defb s_defn s_seqb s_qualb s_out s_prev].

Lemma fastq_id_phase : forall shift l idb ident defb defn seqb qb prev out,
  forallb (fun c => negb (is_sep c)) l = true ->
  exists p, run_steps (fastq_step shift) (mkst 2 idb ident defb defn seqb qb prev out) l
            = Some (mkst 2 (rev l ++ idb) ident defb defn seqb qb p out).
Proof.
  induction l as [|c l IH]; intros idb ident defb defn seqb qb prev out H.
  - eexists. reflexivity.
  - cbn [forallb] in H. apply andb_true_iff in H. destruct H as [Hc Hl]. apply negb_true_iff in Hc.
    fq_step. rewrite Hc.
    destruct (IH (c :: idb) ident defb defn seqb qb c out Hl) as (p & Hp). exists p. rewrite Hp.
    cbn [rev]. rewrite <- app_assoc. reflexivity.
Qed.
Lemma fastq_def_phase : forall shift l idb ident defb defn seqb qb prev out,
  forallb noeol l = true ->
  exists p, run_steps (fastq_step shift) (mkst 4 idb ident defb defn seqb qb prev out) l
            = Some (mkst 4 idb ident (rev l ++ defb) defn seqb qb p out).
Proof.
  induction l as [|c l IH]; intros idb ident defb defn seqb qb prev out H.
  - eexists. reflexivity.
  - cbn [forallb] in H. apply andb_true_iff in H. destruct H as [Hc Hl]. apply negb_true_iff in Hc.
    fq_step. rewrite Hc.
    destruct (IH idb ident (c :: defb) defn seqb qb c out Hl) as (p & Hp). exists p. rewrite Hp.
    cbn [rev]. rewrite <- app_assoc. reflexivity.
Qed.
Lemma fastq_seq_phase : forall shift l idb ident defb defn seqb qb prev out,
  forallb seqchar l = true ->
  exists p, run_steps (fastq_step shift) (mkst 6 idb ident defb defn seqb qb prev out) l
            = Some (mkst 6 idb ident defb defn (rev l ++ seqb) qb p out).
Proof.
  induction l as [|c l IH]; intros idb ident defb defn seqb qb prev out H.
  - eexists. reflexivity.
  - cbn [forallb] in H. apply andb_true_iff in H. destruct H as [Hc Hl].
    destruct (seqchar_facts c Hc) as (H1 & H2 & H3 & H4 & H5).
    fq_step. rewrite H3, H4, Hc.
    destruct (IH idb ident defb defn (c :: seqb) qb c out Hl) as (p & Hp). exists p. rewrite Hp.
    cbn [rev]. rewrite <- app_assoc. reflexivity.
Qed.
Lemma fastq_qual_phase : forall shift l idb ident defb defn seqb qb prev out,
  forallb noeol l = true ->
  exists p, run_steps (fastq_step shift) (mkst 10 idb ident defb defn seqb qb prev out) l
            = Some (mkst 10 idb ident defb defn seqb (rev l ++ qb) p out).
Proof.
  induction l as [|c l IH]; intros idb ident defb defn seqb qb prev out H.
  - eexists. reflexivity.
  - cbn [forallb] in H. apply andb_true_iff in H. destruct H as [Hc Hl]. apply negb_true_iff in Hc.
    fq_step. rewrite Hc.
    destruct (IH idb ident defb defn seqb (c :: qb) c out Hl) as (p & Hp). exists p. rewrite Hp.
    cbn [rev]. rewrite <- app_assoc. reflexivity.
Qed.

Definition fastq_tail (shift : N) (r : wrec) : list N :=
  w_id r ++ 32 :: header_info (w_ann r) ++ 10 :: w_seq r ++ [10; 43; 10] ++ map (qual_char shift) (quals r) ++ [10].
Lemma format_fastq_tail : forall shift r, format_fastq shift r = 64 :: fastq_tail shift r.
Proof.
  intros shift r. unfold format_fastq, fastq_tail, title.
  repeat (rewrite <- app_assoc || rewrite <- app_comm_cons). reflexivity.
Qed.

Lemma qual_line_noeol : forall shift q, shift_ok shift -> forallb noeol (map (qual_char shift) q) = true.
Proof.
  intros shift q Hs. apply forallb_forall. intros c Hc. apply in_map_iff in Hc. destruct Hc as (x & <- & _).
  pose proof (qual_char_not_sep shift x Hs) as H. unfold is_sep in H. apply orb_false_iff in H.
  unfold noeol. destruct H as [_ ->]. reflexivity.
Qed.
Lemma qual_line_back : forall shift q, shift < 256 -> forallb (fun x => x <=? 93) q = true ->
  map (qual_back shift) (map (qual_char shift) q) = q.
Proof.
  intros shift q Hs H. rewrite map_map. rewrite <- (map_id q) at 2. apply map_ext_in.
  intros x Hx. rewrite forallb_forall in H. apply qual_roundtrip; [apply N.leb_le; auto | assumption].
Qed.

Lemma fastq_record : forall shift r idb ident defb defn seqb qb prev out,
  shift_ok shift -> fq_ok r = true ->
  exists idb' defb' seqb' qb',
    run_steps (fastq_step shift) (mkst 1 idb ident defb defn seqb qb prev out) (fastq_tail shift r)
    = Some (mkst 11 idb' (w_id r) defb' (header_info (w_ann r)) seqb' qb' 10 (as_parsed_q r :: out)).
Proof.
  intros shift r idb ident defb defn seqb qb prev out Hshift Hfq.
  unfold fq_ok in Hfq. apply andb_true_iff in Hfq. destruct Hfq as [Hok Hq].
  destruct (w_qual r) as [q|] eqn:Eq; [|discriminate]. apply andb_true_iff in Hq. destruct Hq as [Hlen Hq93].
  apply Nat.eqb_eq in Hlen.
  destruct (rec_ok_seq r Hok) as (Hne & Hsq).
  unfold rec_ok in Hok. repeat (apply andb_true_iff in Hok; destruct Hok as [Hok ?]).
  rename Hok into Hid. rename H1 into Hwf.
  destruct (header_info_shape (w_ann r) Hwf) as (Hinfo & Hshape).
  unfold fastq_tail, as_parsed_q, quals. rewrite Eq.
  remember (header_info (w_ann r)) as info. remember (w_seq r) as seq. remember (w_id r) as id.
  destruct id as [|i0 id']; [discriminate|]. cbn [id_ok forallb] in Hid.
  apply andb_true_iff in Hid. destruct Hid as [Hi0 Hid']. apply negb_true_iff in Hi0.
  destruct seq as [|c0 seq']; [congruence|]. cbn [forallb] in Hsq. apply andb_true_iff in Hsq. destruct Hsq as [Hc0 Hsq'].
  destruct (seqchar_facts c0 Hc0) as (E1 & E2 & E3 & E4 & E5).
  destruct q as [|q0 q']; [discriminate|].
  pose proof (qual_line_noeol shift (q0 :: q') Hshift) as Hqn. cbn [map forallb] in Hqn.
  apply andb_true_iff in Hqn. destruct Hqn as [Hq0n Hq'n]. apply negb_true_iff in Hq0n.
  assert (Hs256 : shift < 256) by (unfold shift_ok in Hshift; lia).
  (* identifier *)
  cbn [app]. fq_step. rewrite Hi0. rewrite run_steps_app.
  destruct (fastq_id_phase shift id' [i0] ident defb defn seqb qb i0 out Hid') as (p1 & ->).
  fq_step. cbn [is_sep is_space is_eol N.eqb Pos.eqb orb].
  replace (rev (rev id' ++ [i0])) with (i0 :: id') by (rewrite rev_app_distr, rev_involutive; reflexivity).
  (* everything after the title line, from state 5 *)
  assert (Hrest : forall idb1 defb1 defn1 p,
    exists idb' defb' seqb' qb',
    run_steps (fastq_step shift) (mkst 5 idb1 (i0 :: id') defb1 defn1 seqb qb p out)
       (c0 :: seq' ++ 10 :: 43 :: 10 :: map (qual_char shift) (q0 :: q') ++ [10])
    = Some (mkst 11 idb' (i0 :: id') defb' defn1 seqb' qb' 10 (mkp (i0 :: id') defn1 (c0 :: seq') (Some (q0 :: q')) :: out))).
  { intros idb1 defb1 defn1 p. cbn [map]. fq_step. rewrite E3, E4.
    rewrite run_steps_app.
    destruct (fastq_seq_phase shift seq' idb1 (i0 :: id') defb1 defn1 [c0] qb c0 out Hsq') as (p2 & ->).
    fq_step. cbn [is_eol N.eqb Pos.eqb orb].
    fq_step. cbn [is_eol N.eqb Pos.eqb orb].
    fq_step. cbn [is_eol N.eqb Pos.eqb orb].
    cbn [app]. fq_step. rewrite Hq0n. rewrite run_steps_app.
    match goal with |- context [mkst 10 ?a ?b ?c ?d ?e ?f ?g ?h] =>
      destruct (fastq_qual_phase shift (map (qual_char shift) q') a b c d e f g h Hq'n) as (p3 & ->) end.
    fq_step. cbn [is_eol N.eqb Pos.eqb orb].
    unfold store_qual, emit. cbn [s_out s_qualb s_ident s_defn s_seqb p_seq p_id p_def].
    replace (rev (rev (map (qual_char shift) q') ++ [qual_char shift q0])) with (map (qual_char shift) (q0 :: q'))
      by (rewrite rev_app_distr, rev_involutive; reflexivity).
    replace (rev (rev seq' ++ [c0])) with (c0 :: seq') by (rewrite rev_app_distr, rev_involutive; reflexivity).
    rewrite map_length, Hlen. cbn [length Nat.eqb orb]. rewrite Nat.eqb_refl. cbn [negb].
    rewrite qual_line_back by assumption.
    do 4 eexists. reflexivity. }
  destruct Hshape as [Hnil | (t & Ht)].
  - rewrite Hnil. cbn [app]. fq_step. cbn [is_sep is_space is_eol N.eqb Pos.eqb orb].
    destruct (Hrest (rev id' ++ [i0]) defb [] 10) as (a & b & c & d & ->). do 4 eexists. reflexivity.
  - rewrite Ht. rewrite Ht in Hinfo. cbn [forallb] in Hinfo. apply andb_true_iff in Hinfo. destruct Hinfo as [_ Hinfo].
    cbn [app]. fq_step. cbn [is_sep is_space is_eol N.eqb Pos.eqb orb negb].
    rewrite run_steps_app.
    match goal with |- context [mkst 4 ?a ?b ?c ?d ?e ?f ?g ?h] =>
      destruct (fastq_def_phase shift t a b c d e f g h Hinfo) as (p3 & ->) end.
    fq_step. cbn [is_sep is_space is_eol N.eqb Pos.eqb orb negb].
    replace (rev (rev t ++ [123])) with (123 :: t) by (rewrite rev_app_distr, rev_involutive; reflexivity).
    destruct (Hrest (rev id' ++ [i0]) (rev t ++ [123]) (123 :: t) 10) as (a & b & c & d & ->). do 4 eexists. reflexivity.
Qed.


Definition fastq_text (shift : N) (l : list wrec) : list N := concat (map (format_fastq shift) l).

Lemma fq_ok_rec_ok : forall r, fq_ok r = true -> rec_ok r = true.
Proof. intros r H. unfold fq_ok in H. apply andb_true_iff in H. tauto. Qed.

Lemma format_batch_fastq : forall shift l, forallb fq_ok l = true -> format_batch true shift l = Ok (fastq_text shift l).
Proof.
  intros shift l. induction l as [|r l IH]; intros H; [reflexivity|].
  cbn [forallb] in H. apply andb_true_iff in H. destruct H as [Hr Hl].
  cbn [format_batch]. destruct (rec_ok_seq r (fq_ok_rec_ok r Hr)) as (Hne & _).
  destruct (w_seq r) eqn:E; [congruence|]. rewrite IH by assumption. reflexivity.
Qed.

Lemma fastq_batch_run : forall shift l r idb ident defb defn seqb qb prev out,
  shift_ok shift -> fq_ok r = true -> forallb fq_ok l = true ->
  exists s', run_steps (fastq_step shift) (mkst 1 idb ident defb defn seqb qb prev out) (fastq_tail shift r ++ fastq_text shift l) = Some s'
             /\ s_state s' = 11%nat /\ s_out s' = rev (map as_parsed_q (r :: l)) ++ out.
Proof.
  intros shift. induction l as [|r2 l IH]; intros r idb ident defb defn seqb qb prev out Hs Hr Hl.
  - destruct (fastq_record shift r idb ident defb defn seqb qb prev out Hs Hr) as (a & b & c & d & H).
    unfold fastq_text. cbn [map concat]. rewrite app_nil_r. eexists. split; [exact H|]. split; reflexivity.
  - cbn [forallb] in Hl. apply andb_true_iff in Hl. destruct Hl as [Hr2 Hl].
    destruct (fastq_record shift r idb ident defb defn seqb qb prev out Hs Hr) as (a & b & c & d & H).
    rewrite run_steps_app, H. unfold fastq_text. cbn [map concat]. rewrite format_fastq_tail.
    cbn [app]. fq_step. cbn [is_eol N.eqb Pos.eqb orb].
    destruct (IH r2 a (w_id r) b (header_info (w_ann r)) c d 64 (as_parsed_q r :: out) Hs Hr2 Hl) as (s' & Hs' & Hst & Hout).
    exists s'. split; [exact Hs'|]. split; [exact Hst|]. rewrite Hout.
    cbn [map rev]. rewrite <- !app_assoc. reflexivity.
Qed.

Theorem fastq_roundtrip : forall shift l, shift_ok shift -> l <> [] -> forallb fq_ok l = true ->
  exists text, format_batch true shift l = Ok text /\ parse_fastq shift text = Ok (map as_parsed_q l).
Proof.
  intros shift l Hs Hne Hok. exists (fastq_text shift l). split; [apply format_batch_fastq; exact Hok|].
  destruct l as [|r l]; [congruence|]. cbn [forallb] in Hok. apply andb_true_iff in Hok. destruct Hok as [Hr Hl].
  unfold fastq_text. cbn [map concat]. rewrite format_fastq_tail. cbn [app].
  unfold parse_fastq. fq_step. unfold st0 at 1. cbn [s_state N.eqb Pos.eqb].
  destruct (fastq_batch_run shift l r [] [] [] [] [] [] 64 [] Hs Hr Hl) as (s' & Hs' & Hst & Hout).
  unfold fastq_text in Hs'. unfold st0. cbn [s_idb s_ident s_defb s_defn s_seqb s_qualb s_out]. rewrite Hs', Hst. cbn [Nat.eqb andb].
  rewrite Hout, app_nil_r, rev_involutive. reflexivity.
Qed.

(** * reading back with the header parser *)
Section ReadBack.
  Variable dec : list N -> option jvalue.
  (** the decoder returns the annotations of this record when given their marshalled form *)
  Definition dec_inverts (r : wrec) : Prop := dec (ser (JObj (w_ann r))) = Some (JObj (w_ann r)).

  Lemma read_header_written : forall id ann seq q, wfv (JObj ann) = true -> dec (ser (JObj ann)) = Some (JObj ann) ->
    read_header dec (mkp id (header_info ann) seq q) = RRec (mkw id ann seq q).
  Proof.
    intros id ann seq q Hwf Hdec. unfold read_header. cbn [p_def p_id p_seq p_qual].
    destruct ann as [|kv ann']; [reflexivity|].
    unfold header_info. remember (kv :: ann') as m.
    pose proof (parse_header_formatted dec m Hwf Hdec) as Hp. clear Hdec.
    destruct (ser (JObj m)) eqn:E; [discriminate E|]. rewrite Hp. reflexivity.
  Qed.
  Lemma guessed_selects_json : forall id ann seq q, ann <> [] ->
    read_guessed dec (mkp id (header_info ann) seq q) = read_header dec (mkp id (header_info ann) seq q).
  Proof. intros id [|kv ann'] seq q H; [congruence | reflexivity]. Qed.

  Lemma rec_ok_wf : forall r, rec_ok r = true -> wfv (JObj (w_ann r)) = true.
  Proof. intros r H. unfold rec_ok in H. repeat (apply andb_true_iff in H; destruct H as [H ?]). assumption. Qed.

  Lemma read_all_written : forall (guessed : bool) (proj : wrec -> option (list N)) l,
    forallb rec_ok l = true -> Forall dec_inverts l -> (guessed = true -> annotated l = true) ->
    read_all (if guessed then read_guessed dec else read_header dec)
             (map (fun r => mkp (w_id r) (header_info (w_ann r)) (w_seq r) (proj r)) l)
    = RL (map (fun r => mkw (w_id r) (w_ann r) (w_seq r) (proj r)) l).
  Proof.
    intros guessed proj l. induction l as [|r l IH]; intros Hok Hdec Hg; [reflexivity|].
    cbn [forallb] in Hok. apply andb_true_iff in Hok. destruct Hok as [Hr Hl].
    inversion Hdec as [|r' l' Hdr Hdl]; subst.
    cbn [map read_all].
    assert (Hh : read_header dec (mkp (w_id r) (header_info (w_ann r)) (w_seq r) (proj r)) = RRec (mkw (w_id r) (w_ann r) (w_seq r) (proj r))).
    { apply read_header_written; [apply rec_ok_wf; assumption | exact Hdr]. }
    assert (E : (if guessed then read_guessed dec else read_header dec)
                  (mkp (w_id r) (header_info (w_ann r)) (w_seq r) (proj r)) = RRec (mkw (w_id r) (w_ann r) (w_seq r) (proj r))).
    { destruct guessed; [|exact Hh]. rewrite guessed_selects_json; [exact Hh|].
      specialize (Hg eq_refl). unfold annotated in Hg. cbn [forallb] in Hg. apply andb_true_iff in Hg. destruct Hg as [Hg _].
      destruct (w_ann r); [discriminate | discriminate]. }
    rewrite E. rewrite IH; [reflexivity | assumption | assumption |].
    intros ->. specialize (Hg eq_refl). unfold annotated in *. cbn [forallb] in Hg. apply andb_true_iff in Hg. tauto.
  Qed.

  Theorem fasta_write_read : forall guessed shift l, l <> [] -> forallb rec_ok l = true -> Forall dec_inverts l ->
    (guessed = true -> annotated l = true) ->
    exists text, format_batch false shift l = Ok text /\ read_file dec false guessed shift text = RL (map drop_qual l).
  Proof.
    intros guessed shift l Hne Hok Hdec Hg. destruct (fasta_roundtrip shift l Hne Hok) as (text & Hw & Hp).
    exists text. split; [exact Hw|]. unfold read_file. rewrite Hp.
    apply (read_all_written guessed (fun _ => None) l Hok Hdec Hg).
  Qed.

  Theorem fastq_write_read : forall guessed shift l, shift_ok shift -> l <> [] -> forallb fq_ok l = true ->
    Forall dec_inverts l -> (guessed = true -> annotated l = true) ->
    exists text, format_batch true shift l = Ok text /\ read_file dec true guessed shift text = RL l.
  Proof.
    intros guessed shift l Hs Hne Hok Hdec Hg. destruct (fastq_roundtrip shift l Hs Hne Hok) as (text & Hw & Hp).
    exists text. split; [exact Hw|]. unfold read_file. rewrite Hp.
    assert (Hok' : forallb rec_ok l = true).
    { rewrite forallb_forall in *. intros r Hr. apply fq_ok_rec_ok. auto. }
    unfold as_parsed_q. rewrite (read_all_written guessed w_qual l Hok' Hdec Hg).
    f_equal. rewrite <- (map_id l) at 2. apply map_ext. intros [a b c d]. reflexivity.
  Qed.

  (** write-after-read is a fixed point: the second write is byte-identical *)
  Lemma format_batch_drop_qual : forall shift l, format_batch false shift (map drop_qual l) = format_batch false shift l.
  Proof.
    intros shift l. induction l as [|r l IH]; [reflexivity|].
    cbn [map format_batch]. rewrite IH. destruct r as [a b c d]. reflexivity.
  Qed.
  Theorem fasta_fixed_point : forall guessed shift l, l <> [] -> forallb rec_ok l = true -> Forall dec_inverts l ->
    (guessed = true -> annotated l = true) ->
    exists text l', format_batch false shift l = Ok text /\ read_file dec false guessed shift text = RL l'
                    /\ format_batch false shift l' = Ok text.
  Proof.
    intros guessed shift l Hne Hok Hdec Hg. destruct (fasta_write_read guessed shift l Hne Hok Hdec Hg) as (text & Hw & Hr).
    exists text, (map drop_qual l). split; [exact Hw|]. split; [exact Hr|]. rewrite format_batch_drop_qual. exact Hw.
  Qed.
  Theorem fastq_fixed_point : forall guessed shift l, shift_ok shift -> l <> [] -> forallb fq_ok l = true ->
    Forall dec_inverts l -> (guessed = true -> annotated l = true) ->
    exists text l', format_batch true shift l = Ok text /\ read_file dec true guessed shift text = RL l'
                    /\ format_batch true shift l' = Ok text.
  Proof.
    intros guessed shift l Hs Hne Hok Hdec Hg. destruct (fastq_write_read guessed shift l Hs Hne Hok Hdec Hg) as (text & Hw & Hr).
    exists text, l. auto.
  Qed.
End ReadBack.

(** data of the non-vacuity example of Props.v *)
Definition ex_ann1 : list (list N * jvalue) := [([107; 34], JStr [34; 125; 92])].
Definition ex_ann2 : list (list N * jvalue) := [([110], JNum [49])].
Definition ex_recs : list wrec :=
  [mkw [64; 62; 123] ex_ann1 (repeat 97 61) (Some (repeat 0 61)); mkw [105] ex_ann2 [99; 45] (Some [93; 31])].
(** a decoder that knows the two headers of the example (any decoder inverting the marshaller on them would do) *)
Definition ex_dec (t : list N) : option jvalue :=
  if nlist_eqb t (ser (JObj ex_ann1)) then Some (JObj ex_ann1)
  else if nlist_eqb t (ser (JObj ex_ann2)) then Some (JObj ex_ann2) else None.


(** * The scanner before the repair is right exactly as long as no string or key contains a double quote *)
Definition ne34 (c : N) : bool := negb (c =? 34).
Fixpoint noquote (v : jvalue) : bool :=
  match v with
  | JStr s => forallb ne34 s
  | JArr l => forallb noquote l
  | JObj m => forallb (fun kv => forallb ne34 (fst kv) && noquote (snd kv)) m
  | _ => true
  end.

Lemma oscan_loop_cons : forall h c t i start level inq esc, h = c :: t ->
  scan_loop false h i start level inq esc =
      let start' := if (level =? 0)%Z && (c =? 123) && negb inq then i else start in
      let inq' := if (start' >? -1)%Z && (c =? 34) then negb inq else inq in
      let level1 := if (c =? 123) && negb inq' then (level + 1)%Z else level in
      let level2 := if (c =? 125) && negb inq' then (level1 - 1)%Z else level1 in
      if (start' >=? 0)%Z && (level2 =? 0)%Z then (start', i)
      else scan_loop false t (i + 1)%Z start' level2 inq' false.
Proof. intros; subst; reflexivity. Qed.

Definition oskips (L : Z) (p : list N) : Prop :=
  forall rest i start e, (0 <= start)%Z ->
    scan_loop false (p ++ rest) i start L false e
    = scan_loop false rest (i + Z.of_nat (length p))%Z start L false (match p with [] => e | _ => false end).
Definition oqskips (L : Z) (p : list N) : Prop :=
  forall rest i start e, (0 <= start)%Z ->
    scan_loop false (p ++ rest) i start L true e
    = scan_loop false rest (i + Z.of_nat (length p))%Z start L true (match p with [] => e | _ => false end).

Lemma oskips_nil : forall L, oskips L [].
Proof. intros L rest i start e _. cbn. f_equal. lia. Qed.
Lemma oqskips_nil : forall L, oqskips L [].
Proof. intros L rest i start e _. cbn. f_equal. lia. Qed.
Lemma oskips_app : forall L p q, oskips L p -> oskips L q -> oskips L (p ++ q).
Proof.
  intros L p q Hp Hq rest i start e Hs. rewrite <- app_assoc, Hp, Hq by assumption.
  rewrite app_length. destruct p, q; cbn [app length]; f_equal; lia.
Qed.
Lemma oqskips_app : forall L p q, oqskips L p -> oqskips L q -> oqskips L (p ++ q).
Proof.
  intros L p q Hp Hq rest i start e Hs. rewrite <- app_assoc, Hp, Hq by assumption.
  rewrite app_length. destruct p, q; cbn [app length]; f_equal; lia.
Qed.

Lemma oskips_plain : forall L c, (1 <= L)%Z -> plain c -> oskips L [c].
Proof.
  intros L c HL (H1 & H2 & H3) rest i start e Hs.
  rewrite (oscan_loop_cons _ c rest) by reflexivity. cbn [andb negb].
  apply N.eqb_neq in H1, H2, H3. rewrite H1, H2, H3. rewrite !andb_false_r. cbn [andb].
  destruct (L =? 0)%Z eqn:E; [lia|]. rewrite andb_false_r. cbn [length]. f_equal.
Qed.
Lemma oqskips_plain : forall L c, (1 <= L)%Z -> c <> 34 -> oqskips L [c].
Proof.
  intros L c HL H1 rest i start e Hs.
  rewrite (oscan_loop_cons _ c rest) by reflexivity. cbn [andb negb].
  apply N.eqb_neq in H1. rewrite H1. rewrite !andb_false_r. cbn [andb].
  destruct (L =? 0)%Z eqn:E; [lia|]. rewrite !andb_false_r. cbn [length]. f_equal.
Qed.
Lemma oskips_cons : forall L c p, oskips L [c] -> oskips L p -> oskips L (c :: p).
Proof. intros. change (c :: p) with ([c] ++ p). apply oskips_app; assumption. Qed.
Lemma oqskips_list : forall L l, (1 <= L)%Z -> forallb ne34 l = true -> oqskips L l.
Proof.
  intros L l HL. induction l as [|c l IH]; intros H; [apply oqskips_nil|].
  cbn [forallb] in H. apply andb_true_iff in H. destruct H as [Hc Hl].
  change (c :: l) with ([c] ++ l). apply oqskips_app; [|apply IH; assumption].
  apply oqskips_plain; [assumption|]. unfold ne34 in Hc. apply negb_true_iff, N.eqb_neq in Hc. exact Hc.
Qed.

Lemma esc_byte_ne34 : forall c, ne34 c = true -> forallb ne34 (esc_byte c) = true.
Proof.
  intros c Hc. unfold ne34 in Hc. apply negb_true_iff in Hc. unfold esc_byte. rewrite Hc. cbn [orb].
  destruct (c =? 92) eqn:E; [apply N.eqb_eq in E; subst; reflexivity|].
  destruct (c =? 10); [reflexivity|]. destruct (c =? 13); [reflexivity|]. destruct (c =? 9); [reflexivity|].
  destruct (c <? 32).
  - cbn [forallb]. unfold ne34 at 5 6.
    destruct (hexd_ok (c / 16)) as [H1 _]. destruct (hexd_ok (c mod 16)) as [H2 _].
    apply N.eqb_neq in H1, H2. rewrite H1, H2. reflexivity.
  - cbn [forallb]. unfold ne34. rewrite Hc. reflexivity.
Qed.
Lemma esc_string_ne34_n : forall n s, (length s <= n)%nat -> forallb ne34 s = true -> forallb ne34 (esc_string s) = true.
Proof.
  induction n as [|n IH]; intros s Hn Hs.
  - destruct s; [reflexivity | cbn in Hn; lia].
  - destruct s as [|c t]; [reflexivity|]. cbn [length] in Hn.
    cbn [forallb] in Hs. apply andb_true_iff in Hs. destruct Hs as [Hc Ht].
    assert (H1 : forallb ne34 (esc_byte c ++ esc_string t) = true).
    { rewrite forallb_app, esc_byte_ne34, IH by (assumption || lia). reflexivity. }
    cbn [esc_string]. destruct t as [|c2 [|c3 t']]; try exact H1.
    destruct ((c =? 226) && (c2 =? 128) && ((c3 =? 168) || (c3 =? 169))); [|exact H1].
    cbn [forallb] in Ht. apply andb_true_iff in Ht. destruct Ht as [_ Ht]. apply andb_true_iff in Ht. destruct Ht as [_ Ht].
    cbn [forallb]. rewrite IH by (cbn [length] in Hn; assumption || lia). destruct (c3 =? 168); reflexivity.
Qed.

Lemma oskips_ser_str : forall L s, (1 <= L)%Z -> forallb ne34 s = true -> oskips L (ser_str s).
Proof.
  intros L s HL Hs rest i start e Hst. unfold ser_str. cbn [app].
  rewrite (oscan_loop_cons _ 34 ((esc_string s ++ [34]) ++ rest)) by reflexivity.
  cbn [andb negb N.eqb Pos.eqb].
  destruct (L =? 0)%Z eqn:E3; [lia|]. cbn [andb negb].
  destruct (start >? -1)%Z eqn:E1; [|lia]. cbn [andb negb].
  destruct (start >=? 0)%Z eqn:E2; [|lia]. cbn [andb].
  rewrite <- app_assoc.
  rewrite (oqskips_list L (esc_string s) HL (esc_string_ne34_n (length s) s (le_n _) Hs)) by assumption. cbn [app].
  rewrite (oscan_loop_cons _ 34 rest) by reflexivity.
  cbn [andb negb N.eqb Pos.eqb]. repeat (rewrite ?E3, ?E1, ?E2, ?andb_false_r; cbn [andb negb]).
  f_equal. cbn [length]. rewrite app_length. cbn [length]. lia.
Qed.

Lemma oskips_braces : forall L p, (1 <= L)%Z -> oskips (L + 1) p -> oskips L (123 :: p ++ [125]).
Proof.
  intros L p HL Hp rest i start e Hs. cbn [app].
  rewrite (oscan_loop_cons _ 123 ((p ++ [125]) ++ rest)) by reflexivity.
  cbn [andb negb N.eqb Pos.eqb].
  destruct (L =? 0)%Z eqn:E3; [lia|]. cbn [andb negb].
  destruct (start >? -1)%Z eqn:E1; [|lia]. cbn [andb negb].
  destruct (start >=? 0)%Z eqn:E2; [|lia]. destruct (L + 1 =? 0)%Z eqn:E4; [lia|]. cbn [andb].
  rewrite <- app_assoc. rewrite Hp by assumption. cbn [app].
  rewrite (oscan_loop_cons _ 125 rest) by reflexivity.
  cbn [andb negb N.eqb Pos.eqb]. repeat (rewrite ?E4, ?E1, ?E2, ?andb_false_r; cbn [andb negb]).
  replace (L + 1 - 1)%Z with L by lia. repeat (rewrite ?E3, ?E1, ?E2, ?andb_false_r; cbn [andb negb]).
  f_equal. cbn [length]. rewrite app_length. cbn [length]. lia.
Qed.

Lemma oskips_plain_list : forall L l, (1 <= L)%Z -> Forall plain l -> oskips L l.
Proof.
  intros L l HL H. induction H as [|c l Hc _ IH]; [apply oskips_nil|].
  apply oskips_cons; [apply oskips_plain; assumption | exact IH].
Qed.
Lemma oskips_join : forall L ls, (1 <= L)%Z -> Forall (oskips L) ls -> oskips L (join 44 ls).
Proof.
  intros L ls HL H. induction H as [|x rest Hx Hrest IH]; [apply oskips_nil|].
  cbn [join]. destruct rest as [|y rest']; [exact Hx|].
  apply oskips_app; [exact Hx|]. apply oskips_cons; [|exact IH].
  apply oskips_plain; [assumption | repeat split; discriminate].
Qed.

Lemma oskips_member : forall L k v, (1 <= L)%Z -> forallb ne34 k = true -> oskips L (ser v) -> oskips L (ser_str k ++ 58 :: ser v).
Proof.
  intros L k v HL Hk Hv. apply oskips_app; [apply oskips_ser_str; assumption|].
  apply oskips_cons; [apply oskips_plain; [assumption | repeat split; discriminate] | exact Hv].
Qed.

Lemma oskips_ser : forall v, wfv v = true -> noquote v = true -> forall L, (1 <= L)%Z -> oskips L (ser v).
Proof.
  induction v using jvalue_ind'; intros Hwf Hnq L HL; cbn [ser].
  - apply oskips_plain_list; [assumption|]. repeat constructor; discriminate.
  - destruct b; (apply oskips_plain_list; [assumption|]; repeat constructor; discriminate).
  - apply wfv_num in Hwf. apply oskips_plain_list; [assumption|].
    apply Forall_forall. intros c Hc. apply numchar_plain. rewrite forallb_forall in Hwf. auto.
  - apply oskips_ser_str; assumption.
  - cbn [wfv] in Hwf. cbn [noquote] in Hnq. rewrite forallb_forall in Hwf, Hnq.
    apply oskips_cons; [apply oskips_plain; [assumption | repeat split; discriminate]|].
    apply oskips_app; [| apply oskips_plain; [assumption | repeat split; discriminate]].
    apply oskips_join; [assumption|]. apply Forall_forall. intros x Hx.
    apply in_map_iff in Hx. destruct Hx as (v & <- & Hv).
    rewrite Forall_forall in H. apply H; auto.
  - cbn [wfv] in Hwf. cbn [noquote] in Hnq. rewrite forallb_forall in Hwf, Hnq.
    apply oskips_braces; [assumption|].
    apply oskips_join; [lia|]. apply Forall_forall. intros x Hx.
    apply in_map_iff in Hx. destruct Hx as ([k v] & <- & Hv).
    specialize (Hnq (k, v) Hv). cbn [fst snd] in Hnq. apply andb_true_iff in Hnq. destruct Hnq as [Hk Hq].
    apply oskips_member; [lia | exact Hk |].
    rewrite Forall_forall in H. apply (H (k, v) Hv); [apply (Hwf (k, v) Hv) | exact Hq | lia].
Qed.

Lemma oscan_raw_object : forall body rest, oskips 1 body ->
  scan_raw false (123 :: body ++ [125] ++ rest) = (0%Z, (1 + Z.of_nat (length body))%Z).
Proof.
  intros body rest Hb. unfold scan_raw.
  rewrite (oscan_loop_cons _ 123 (body ++ [125] ++ rest)) by reflexivity.
  cbn [andb negb N.eqb Pos.eqb].
  change (0 =? 0)%Z with true. cbn [andb negb]. change (0 >? -1)%Z with true. cbn [andb negb].
  change (0 >=? 0)%Z with true. change (0 + 1 =? 0)%Z with false. cbn [andb negb].
  rewrite Hb by lia. cbn [app].
  rewrite (oscan_loop_cons _ 125 rest) by reflexivity.
  cbn [andb negb N.eqb Pos.eqb].
  change (1 =? 0)%Z with false. cbn [andb negb]. change (0 >? -1)%Z with true. cbn [andb negb].
  change (0 >=? 0)%Z with true. change (1 - 1 =? 0)%Z with true. cbn [andb negb].
  f_equal.
Qed.

Theorem scan_orig_finds_object_noquote : forall o rest, wfv (JObj o) = true -> noquote (JObj o) = true ->
  scan_obj_orig (ser (JObj o) ++ rest) = Some (0%nat, length (ser (JObj o))).
Proof.
  intros o rest Hwf Hnq.
  assert (Hb : oskips 1 (join 44 (map (fun kv => match kv with (k, x) => ser_str k ++ 58 :: ser x end) o))).
  { cbn [wfv] in Hwf. cbn [noquote] in Hnq. rewrite forallb_forall in Hwf, Hnq.
    apply oskips_join; [lia|]. apply Forall_forall. intros x Hx.
    apply in_map_iff in Hx. destruct Hx as ([k v] & <- & Hv).
    specialize (Hnq (k, v) Hv). cbn [fst snd] in Hnq. apply andb_true_iff in Hnq. destruct Hnq as [Hk Hq].
    apply oskips_member; [lia | exact Hk |]. apply oskips_ser; [apply (Hwf (k, v) Hv) | exact Hq | lia]. }
  cbn [ser]. unfold scan_obj_orig, scan_gen. cbn [app]. rewrite <- app_assoc. rewrite oscan_raw_object by assumption.
  match goal with |- context [length ?b] => set (n := length b) end.
  destruct ((0 <? 0)%Z || (1 + Z.of_nat n <? 0)%Z) eqn:E.
  { apply orb_true_iff in E. destruct E as [E|E]; [discriminate | apply Z.ltb_lt in E; lia]. }
  f_equal. f_equal. cbn [length]. rewrite app_length. cbn [length]. fold n. lia.
Qed.
