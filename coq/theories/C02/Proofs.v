(** C02 — lemmas. *)
From Coq Require Import NArith ZArith List Bool Lia.
From OBI.C02 Require Import Model.
Import ListNotations.
Open Scope N_scope.


(** nested induction principle *)
Section jind.
  Variable P : jvalue -> Prop.
  Hypothesis Hnull : P JNull.
  Hypothesis Hbool : forall b, P (JBool b).
  Hypothesis Hnum : forall t, P (JNum t).
  Hypothesis Hstr : forall s, P (JStr s).
  Hypothesis Harr : forall l, Forall P l -> P (JArr l).
  Hypothesis Hobj : forall m, Forall (fun kv => P (snd kv)) m -> P (JObj m).
  Fixpoint jvalue_ind' (v : jvalue) : P v :=
    match v with
    | JNull => Hnull | JBool b => Hbool b | JNum t => Hnum t | JStr s => Hstr s
    | JArr l => Harr l ((fix go (l : list jvalue) : Forall P l :=
                           match l with [] => Forall_nil _ | x :: l' => Forall_cons _ (jvalue_ind' x) (go l') end) l)
    | JObj m => Hobj m ((fix go (m : list (list N * jvalue)) : Forall (fun kv => P (snd kv)) m :=
                           match m with [] => Forall_nil _ | kv :: m' => Forall_cons _ (jvalue_ind' (snd kv)) (go m') end) m)
    end.
End jind.

Lemma scan_loop_cons : forall h c t i start level inq esc, h = c :: t ->
  scan_loop true h i start level inq esc =
    if esc then scan_loop true t (i + 1)%Z start level inq false
    else if inq && (c =? 92) then scan_loop true t (i + 1)%Z start level inq true
    else
      let start' := if (level =? 0)%Z && (c =? 123) && negb inq then i else start in
      let inq' := if (start' >? -1)%Z && (c =? 34) then negb inq else inq in
      let level1 := if (c =? 123) && negb inq' then (level + 1)%Z else level in
      let level2 := if (c =? 125) && negb inq' then (level1 - 1)%Z else level1 in
      if (start' >=? 0)%Z && (level2 =? 0)%Z then (start', i)
      else scan_loop true t (i + 1)%Z start' level2 inq' false.
Proof. intros; subst; reflexivity. Qed.

(** a byte string that the scanner crosses at level L outside a string without stopping *)
Definition skips (L : Z) (p : list N) : Prop :=
  forall rest i start, (0 <= start)%Z ->
    scan_loop true (p ++ rest) i start L false false
    = scan_loop true rest (i + Z.of_nat (length p))%Z start L false false.
(** same inside a string *)
Definition qskips (L : Z) (p : list N) : Prop :=
  forall rest i start, (0 <= start)%Z ->
    scan_loop true (p ++ rest) i start L true false
    = scan_loop true rest (i + Z.of_nat (length p))%Z start L true false.

Lemma skips_nil : forall L, skips L [].
Proof. intros L rest i start _. cbn. f_equal. lia. Qed.
Lemma qskips_nil : forall L, qskips L [].
Proof. intros L rest i start _. cbn. f_equal. lia. Qed.

Lemma skips_app : forall L p q, skips L p -> skips L q -> skips L (p ++ q).
Proof.
  intros L p q Hp Hq rest i start Hs. rewrite <- app_assoc, Hp, Hq by assumption.
  f_equal. rewrite app_length. lia.
Qed.
Lemma qskips_app : forall L p q, qskips L p -> qskips L q -> qskips L (p ++ q).
Proof.
  intros L p q Hp Hq rest i start Hs. rewrite <- app_assoc, Hp, Hq by assumption.
  f_equal. rewrite app_length. lia.
Qed.

Definition plain (c : N) : Prop := c <> 34 /\ c <> 123 /\ c <> 125.

Lemma skips_plain : forall L c, (1 <= L)%Z -> plain c -> skips L [c].
Proof.
  intros L c HL (H1 & H2 & H3) rest i start Hs.
  rewrite (scan_loop_cons _ c rest) by reflexivity. cbn [andb negb].
  apply N.eqb_neq in H1, H2, H3. rewrite H1, H2, H3. rewrite !andb_false_r. cbn [andb].
  destruct (L =? 0)%Z eqn:E; [lia|]. rewrite andb_false_r. cbn [length]. f_equal.
Qed.

Lemma qskips_plain : forall L c, (1 <= L)%Z -> c <> 34 -> c <> 92 -> qskips L [c].
Proof.
  intros L c HL H1 H2 rest i start Hs.
  rewrite (scan_loop_cons _ c rest) by reflexivity. cbn [andb negb].
  apply N.eqb_neq in H1, H2. rewrite H1, H2. rewrite !andb_false_r. cbn [andb].
  destruct (L =? 0)%Z eqn:E; [lia|]. rewrite !andb_false_r. cbn [length]. f_equal.
Qed.

Lemma qskips_esc : forall L c, qskips L [92; c].
Proof.
  intros L c rest i start Hs. cbn [app].
  rewrite (scan_loop_cons _ 92 (c :: rest)) by reflexivity. cbn [andb N.eqb Pos.eqb].
  rewrite (scan_loop_cons _ c rest) by reflexivity. cbn [length]. f_equal. lia.
Qed.

Lemma numtok_numchar : forall t, numtok t = true -> forallb numchar t = true.
Proof. intros t H. unfold numtok in H. apply andb_true_iff in H. tauto. Qed.
Lemma wfv_num : forall t, wfv (JNum t) = true -> forallb numchar t = true.
Proof. intros t H. apply numtok_numchar. exact H. Qed.


Lemma hexd_plain : forall n, hexd n <> 34 /\ hexd n <> 92 \/ 10 <= n /\ n = 5.
Proof. intros n. unfold hexd. destruct (n <? 10) eqn:E.
  - apply N.ltb_lt in E. left. lia.
  - apply N.ltb_ge in E. destruct (N.eq_dec n 5); [lia|]. left. lia.
Qed.
Lemma hexd_ok : forall n, hexd n <> 34 /\ hexd n <> 92.
Proof. intros n. unfold hexd. destruct (n <? 10) eqn:E.
  - apply N.ltb_lt in E. lia.
  - apply N.ltb_ge in E. lia.
Qed.

Lemma qskips_cons : forall L c p, qskips L [c] -> qskips L p -> qskips L (c :: p).
Proof. intros. change (c :: p) with ([c] ++ p). apply qskips_app; assumption. Qed.

Lemma qskips_esc_byte : forall L c, (1 <= L)%Z -> qskips L (esc_byte c).
Proof.
  intros L c HL. unfold esc_byte.
  destruct ((c =? 34) || (c =? 92)) eqn:E1. { apply qskips_esc. }
  apply orb_false_iff in E1. destruct E1 as [E1 E2]. apply N.eqb_neq in E1, E2.
  destruct (c =? 10). { apply qskips_esc. }
  destruct (c =? 13). { apply qskips_esc. }
  destruct (c =? 9). { apply qskips_esc. }
  destruct (c <? 32).
  - change [92; 117; 48; 48; hexd (c / 16); hexd (c mod 16)] with ([92; 117] ++ [48] ++ [48] ++ [hexd (c / 16)] ++ [hexd (c mod 16)]).
    repeat apply qskips_app; try apply qskips_esc; apply qskips_plain; try assumption; try discriminate; apply hexd_ok.
  - apply qskips_plain; assumption.
Qed.

Lemma esc_u_cons : forall copy skip c t, esc_u copy skip (c :: t) =
    match skip with
    | S k => esc_u copy k t
    | O =>
      if c <? 128 then esc_byte c ++ esc_u 0 0 t
      else match copy with
           | S k => c :: esc_u k 0 t
           | O =>
             match vprefix c t with
             | O => ufffd ++ esc_u 0 0 t
             | S n => if is_lsep c t then lsep_esc t ++ esc_u 0 2 t else c :: esc_u n 0 t
             end
           end
    end.
Proof. reflexivity. Qed.

Lemma esc_u_chunks_q : forall (Q : N -> Prop) (P : list N -> Prop),
  (forall c, Q c -> P (esc_byte c)) -> (forall c, 128 <= c -> P [c]) -> P ufffd -> P [92; 117; 50; 48; 50; 56] -> P [92; 117; 50; 48; 50; 57] -> P [] ->
  (forall a b, P a -> P b -> P (a ++ b)) -> forall s, Forall Q s -> forall copy skip, P (esc_u copy skip s).
Proof.
  intros Q P Hb Hr Hf H8 H9 Hn Happ. induction s as [|c t IH]; intros HQ copy skip; [exact Hn|].
  inversion HQ as [|c' t' Hc Ht]; subst. specialize (IH Ht).
  rewrite esc_u_cons. destruct skip as [|k]; [|apply IH].
  destruct (c <? 128) eqn:E; [apply Happ; [apply Hb; exact Hc | apply IH]|]. apply N.ltb_ge in E.
  destruct copy as [|k]; [|change (c :: esc_u k 0 t) with ([c] ++ esc_u k 0 t); apply Happ; [apply Hr; exact E | apply IH]].
  destruct (vprefix c t) as [|n]; [apply Happ; [exact Hf | apply IH]|].
  destruct (is_lsep c t) eqn:El.
  - apply Happ; [|apply IH]. unfold is_lsep in El. destruct t as [|c2 [|c3 t'']]; try discriminate El. cbn [lsep_esc].
    destruct (c3 =? 168); assumption.
  - change (c :: esc_u n 0 t) with ([c] ++ esc_u n 0 t). apply Happ; [apply Hr; exact E | apply IH].
Qed.

Lemma qskips_esc_u : forall L s copy skip, (1 <= L)%Z -> qskips L (esc_u copy skip s).
Proof.
  intros L s copy skip HL. apply (esc_u_chunks_q (fun _ => True) (qskips L)).
  - intros c _. apply qskips_esc_byte. exact HL.
  - intros c Hc. apply qskips_plain; [exact HL | lia | lia].
  - change ufffd with ([92; 117] ++ [102] ++ [102] ++ [102] ++ [100]).
    repeat apply qskips_app; try apply qskips_esc; apply qskips_plain; try exact HL; discriminate.
  - change [92; 117; 50; 48; 50; 56] with ([92; 117] ++ [50] ++ [48] ++ [50] ++ [56]).
    repeat apply qskips_app; try apply qskips_esc; apply qskips_plain; try exact HL; discriminate.
  - change [92; 117; 50; 48; 50; 57] with ([92; 117] ++ [50] ++ [48] ++ [50] ++ [57]).
    repeat apply qskips_app; try apply qskips_esc; apply qskips_plain; try exact HL; discriminate.
  - apply qskips_nil.
  - intros a b. apply qskips_app.
  - apply Forall_forall. intros; exact I.
Qed.

Lemma qskips_esc_string : forall L s, (1 <= L)%Z -> qskips L (esc_string s).
Proof. intros L s HL. apply qskips_esc_u. exact HL. Qed.

Lemma skips_ser_str : forall L s, (1 <= L)%Z -> skips L (ser_str s).
Proof.
  intros L s HL rest i start Hs. unfold ser_str. cbn [app].
  rewrite (scan_loop_cons _ 34 ((esc_string s ++ [34]) ++ rest)) by reflexivity.
  cbn [andb negb N.eqb Pos.eqb].
  destruct (L =? 0)%Z eqn:E3; [lia|]. cbn [andb negb].
  destruct (start >? -1)%Z eqn:E1; [|lia]. cbn [andb negb].
  destruct (start >=? 0)%Z eqn:E2; [|lia]. cbn [andb].
  rewrite <- app_assoc. rewrite (qskips_esc_string L s HL) by assumption. cbn [app].
  rewrite (scan_loop_cons _ 34 rest) by reflexivity.
  cbn [andb negb N.eqb Pos.eqb]. repeat (rewrite ?E3, ?E1, ?E2, ?andb_false_r; cbn [andb negb]).
  f_equal. cbn [length]. rewrite app_length. cbn [length]. lia.
Qed.

Lemma skips_braces : forall L p, (1 <= L)%Z -> skips (L + 1) p -> skips L (123 :: p ++ [125]).
Proof.
  intros L p HL Hp rest i start Hs. cbn [app].
  rewrite (scan_loop_cons _ 123 ((p ++ [125]) ++ rest)) by reflexivity.
  cbn [andb negb N.eqb Pos.eqb].
  destruct (L =? 0)%Z eqn:E3; [lia|]. cbn [andb negb].
  destruct (start >? -1)%Z eqn:E1; [|lia]. cbn [andb negb].
  destruct (start >=? 0)%Z eqn:E2; [|lia]. destruct (L + 1 =? 0)%Z eqn:E4; [lia|]. cbn [andb].
  rewrite <- app_assoc. rewrite Hp by assumption. cbn [app].
  rewrite (scan_loop_cons _ 125 rest) by reflexivity.
  cbn [andb negb N.eqb Pos.eqb]. repeat (rewrite ?E4, ?E1, ?E2, ?andb_false_r; cbn [andb negb]).
  replace (L + 1 - 1)%Z with L by lia. repeat (rewrite ?E3, ?E1, ?E2, ?andb_false_r; cbn [andb negb]).
  f_equal. cbn [length]. rewrite app_length. cbn [length]. lia.
Qed.

Lemma skips_cons : forall L c p, skips L [c] -> skips L p -> skips L (c :: p).
Proof. intros. change (c :: p) with ([c] ++ p). apply skips_app; assumption. Qed.

Lemma skips_plain_list : forall L l, (1 <= L)%Z -> Forall plain l -> skips L l.
Proof.
  intros L l HL H. induction H as [|c l Hc _ IH]; [apply skips_nil|].
  apply skips_cons; [apply skips_plain; assumption | exact IH].
Qed.

Lemma skips_join : forall L ls, (1 <= L)%Z -> Forall (skips L) ls -> skips L (join 44 ls).
Proof.
  intros L ls HL H. induction H as [|x rest Hx Hrest IH]; [apply skips_nil|].
  cbn [join]. destruct rest as [|y rest']; [exact Hx|].
  apply skips_app; [exact Hx|]. apply skips_cons; [|exact IH].
  apply skips_plain; [assumption | repeat split; discriminate].
Qed.

Lemma numchar_plain : forall c, numchar c = true -> plain c.
Proof.
  intros c H. unfold numchar in H. unfold plain.
  repeat (apply orb_true_iff in H; destruct H as [H|H]);
    try (apply N.eqb_eq in H; subst; repeat split; discriminate).
  apply andb_true_iff in H. destruct H as [H1 H2]. apply N.leb_le in H1, H2. lia.
Qed.

Lemma skips_ser : forall v, wfv v = true -> forall L, (1 <= L)%Z -> skips L (ser v).
Proof.
  induction v using jvalue_ind'; intros Hwf L HL; cbn [ser].
  - apply skips_plain_list; [assumption|]. repeat constructor; discriminate.
  - destruct b; (apply skips_plain_list; [assumption|]; repeat constructor; discriminate).
  - apply wfv_num in Hwf. apply skips_plain_list; [assumption|].
    apply Forall_forall. intros c Hc. apply numchar_plain. rewrite forallb_forall in Hwf. auto.
  - apply skips_ser_str; assumption.
  - cbn [wfv] in Hwf. rewrite forallb_forall in Hwf.
    apply skips_cons; [apply skips_plain; [assumption | repeat split; discriminate]|].
    apply skips_app; [| apply skips_plain; [assumption | repeat split; discriminate]].
    apply skips_join; [assumption|]. apply Forall_forall. intros x Hx.
    apply in_map_iff in Hx. destruct Hx as (v & <- & Hv).
    rewrite Forall_forall in H. apply H; auto.
  - cbn [wfv] in Hwf. rewrite forallb_forall in Hwf.
    apply skips_braces; [assumption|].
    apply skips_join; [lia|]. apply Forall_forall. intros x Hx.
    apply in_map_iff in Hx. destruct Hx as ([k v] & <- & Hv).
    apply skips_app; [apply skips_ser_str; lia|].
    apply skips_cons; [apply skips_plain; [lia | repeat split; discriminate]|].
    rewrite Forall_forall in H. apply (H (k, v) Hv); [apply (Hwf (k, v) Hv) | lia].
Qed.

Lemma ser_obj_shape : forall o, exists body, ser (JObj o) = 123 :: body ++ [125] /\
  (wfv (JObj o) = true -> skips 1 body).
Proof.
  intros o. eexists. split; [reflexivity|]. intros Hwf.
  cbn [wfv] in Hwf. rewrite forallb_forall in Hwf.
  apply skips_join; [lia|]. apply Forall_forall. intros x Hx.
  apply in_map_iff in Hx. destruct Hx as ([k v] & <- & Hv).
  apply skips_app; [apply skips_ser_str; lia|].
  apply skips_cons; [apply skips_plain; [lia | repeat split; discriminate]|].
  apply skips_ser; [apply (Hwf (k, v) Hv) | lia].
Qed.

Lemma scan_raw_object : forall body rest, skips 1 body ->
  scan_raw true (123 :: body ++ [125] ++ rest) = (0%Z, (1 + Z.of_nat (length body))%Z).
Proof.
  intros body rest Hb. unfold scan_raw.
  rewrite (scan_loop_cons _ 123 (body ++ [125] ++ rest)) by reflexivity.
  cbn [andb negb N.eqb Pos.eqb].
  change (0 =? 0)%Z with true. cbn [andb negb]. change (0 >? -1)%Z with true. cbn [andb negb].
  change (0 >=? 0)%Z with true. change (0 + 1 =? 0)%Z with false. cbn [andb negb].
  rewrite Hb by lia. cbn [app].
  rewrite (scan_loop_cons _ 125 rest) by reflexivity.
  cbn [andb negb N.eqb Pos.eqb].
  change (1 =? 0)%Z with false. cbn [andb negb]. change (0 >? -1)%Z with true. cbn [andb negb].
  change (0 >=? 0)%Z with true. change (1 - 1 =? 0)%Z with true. cbn [andb negb].
  f_equal.
Qed.

Theorem scan_finds_object : forall o rest, wfv (JObj o) = true ->
  scan_obj (ser (JObj o) ++ rest) = Some (0%nat, length (ser (JObj o))).
Proof.
  intros o rest Hwf. destruct (ser_obj_shape o) as (body & -> & Hb). specialize (Hb Hwf).
  unfold scan_obj, scan_gen. cbn [app]. rewrite <- app_assoc. rewrite scan_raw_object by assumption.
  destruct ((0 <? 0)%Z || (1 + Z.of_nat (length body) <? 0)%Z) eqn:E.
  { apply orb_true_iff in E. destruct E as [E|E]; [discriminate | apply Z.ltb_lt in E; lia]. }
  f_equal. f_equal. cbn [length]. rewrite app_length. cbn [length]. lia.
Qed.


(** the scanner before the repair: witness {"a":"q\"}"} (the object is cut after the first brace) and {"a":"\"{"} (never closed) *)
Definition wit1 : list (list N * jvalue) := [([97], JStr [113; 34; 125])].
Definition wit2 : list (list N * jvalue) := [([97], JStr [34; 123])].
Lemma scan_orig_refuted :
  exists o rest, wfv (JObj o) = true /\ scan_obj_orig (ser (JObj o) ++ rest) <> Some (0%nat, length (ser (JObj o))).
Proof. exists wit1, []. split; [reflexivity|]. vm_compute. discriminate. Qed.
Lemma scan_orig_refuted_silent :
  exists o, wfv (JObj o) = true /\ scan_obj_orig (ser (JObj o)) = None.
Proof. exists wit2. split; reflexivity. Qed.

(** header parser = scanner + decoder *)
Lemma firstn_app_exact : forall (A : Type) (l r : list A), firstn (length l) (l ++ r) = l.
Proof. intros. rewrite firstn_app, Nat.sub_diag, firstn_all. cbn. apply app_nil_r. Qed.
Lemma skipn_app_exact : forall (A : Type) (l r : list A), skipn (length l) (l ++ r) = r.
Proof. intros. rewrite skipn_app, Nat.sub_diag, skipn_all. reflexivity. Qed.

(** the decoder is a parameter; the only thing asked of it is that it returns the object that was marshalled *)
Lemma parse_header_roundtrip : forall (dec : list N -> option jvalue) o rest, wfv (JObj o) = true ->
  dec (ser (JObj o)) = Some (JObj o) ->
  parse_header dec (ser (JObj o) ++ rest) = HObject (JObj o) (trim rest).
Proof.
  intros dec o rest Hwf Hdec. unfold parse_header. rewrite scan_finds_object by assumption.
  unfold slice. rewrite Nat.sub_0_r. cbn [skipn].
  rewrite firstn_app_exact, skipn_app_exact, Hdec. reflexivity.
Qed.
Lemma parse_header_formatted : forall (dec : list N -> option jvalue) o, wfv (JObj o) = true ->
  dec (ser (JObj o)) = Some (JObj o) ->
  parse_header dec (ser (JObj o)) = HObject (JObj o) [].
Proof.
  intros dec o Hwf Hdec. rewrite <- (app_nil_r (ser (JObj o))) at 1.
  rewrite parse_header_roundtrip by assumption. reflexivity.
Qed.

(** quality shift *)
Lemma qual_roundtrip : forall shift q, q <= 93 -> shift < 256 -> qual_back shift (qual_char shift q) = q.
Proof.
  intros shift q Hq Hs. unfold qual_back, qual_char.
  destruct (93 <? q) eqn:E; [apply N.ltb_lt in E; lia|].
  rewrite (N.mod_small shift 256) by lia.
  assert (H : (q + shift) mod 256 = q + shift \/ (q + shift) mod 256 = q + shift - 256 /\ 256 <= q + shift).
  { destruct (N.lt_ge_cases (q + shift) 256) as [H|H].
    - left. apply N.mod_small. lia.
    - right. split; [|lia]. symmetry. apply (N.mod_unique _ _ 1); lia. }
  destruct H as [H|[H H']]; rewrite H.
  - replace (q + shift + 256 - shift) with (q + 1 * 256) by lia. rewrite N.mod_add by lia. apply N.mod_small. lia.
  - replace (q + shift - 256 + 256 - shift) with q by lia. apply N.mod_small. lia.
Qed.
Lemma qual_clamped : forall shift q, 93 < q -> shift < 256 -> qual_back shift (qual_char shift q) = 93.
Proof.
  intros shift q Hq Hs. unfold qual_char. destruct (93 <? q) eqn:E; [|apply N.ltb_ge in E; lia].
  pose proof (qual_roundtrip shift 93 ltac:(lia) Hs) as H. unfold qual_char in H. cbn [N.ltb N.compare Pos.compare Pos.compare_cont] in H.
  exact H.
Qed.
(** the quality characters written with the offsets 33 and 64 are never line or field separators *)
Lemma qual_char_not_sep : forall shift q, shift_ok shift -> is_sep (qual_char shift q) = false.
Proof.
  intros shift q Hs. unfold qual_char.
  assert (Hm : (if 93 <? q then 93 else q) <= 93).
  { destruct (93 <? q) eqn:E; [lia | apply N.ltb_ge in E; exact E]. }
  generalize dependent (if 93 <? q then 93 else q). intros m Hm. unfold shift_ok in Hs.
  rewrite N.mod_small by lia. unfold is_sep, is_space, is_eol.
  repeat (apply orb_false_iff; split); apply N.eqb_neq; lia.
Qed.


Lemma chunks_concat : forall fuel n s, (0 < n)%nat -> (length s <= fuel)%nat -> concat (chunks fuel n s) = s.
Proof.
  induction fuel as [|f IH]; intros n s Hn Hl.
  - destruct s; [reflexivity | cbn in Hl; lia].
  - destruct s as [|c t]; [reflexivity|]. cbn [chunks concat].
    rewrite IH; [apply firstn_skipn | assumption |].
    rewrite skipn_length. cbn [length] in *. lia.
Qed.
Lemma chunks_lines : forall fuel n s, (0 < n)%nat ->
  Forall (fun l => l <> [] /\ (length l <= n)%nat) (chunks fuel n s).
Proof.
  induction fuel as [|f IH]; intros n s Hn; [constructor|].
  destruct s as [|c t]; [constructor|]. cbn [chunks]. constructor; [|apply IH; assumption].
  split; [destruct n; [lia | discriminate] | apply firstn_le_length].
Qed.
(** every line but the last is full *)
Lemma chunks_full : forall fuel n s l rest, (0 < n)%nat -> (length s <= fuel)%nat ->
  chunks fuel n s = l :: rest -> rest <> [] -> length l = n.
Proof.
  intros fuel n s l rest Hn Hl H Hr. destruct fuel as [|f]; [discriminate|].
  destruct s as [|c t]; [discriminate|]. cbn [chunks] in H. injection H as <- <-.
  destruct (Nat.le_gt_cases n (length (c :: t))) as [Hle|Hgt]; [apply firstn_length_le; assumption|].
  exfalso. apply Hr. rewrite skipn_all2 by lia. destruct f; reflexivity.
Qed.
Lemma fold60_concat : forall s, concat (fold60 s) = s.
Proof. intros s. apply chunks_concat; lia. Qed.
Lemma fold60_lines : forall s, Forall (fun l => l <> [] /\ (length l <= 60)%nat) (fold60 s).
Proof. intros s. apply chunks_lines. lia. Qed.
Lemma fold60_nonempty : forall s, s <> [] -> fold60 s <> [].
Proof. intros [|c t] H; [congruence|]. unfold fold60. cbn [length chunks]. discriminate. Qed.
Lemma fold60_full : forall s l rest, fold60 s = l :: rest -> rest <> [] -> length l = 60%nat.
Proof. intros s l rest. apply (chunks_full (length s) 60 s l rest); lia. Qed.


(** * no line terminator inside a serialised value *)

Lemma forallb_join : forall p sep ls, p sep = true -> forallb (forallb p) ls = true -> forallb p (join sep ls) = true.
Proof.
  intros p sep ls Hs. induction ls as [|x rest IH]; intros H; [reflexivity|].
  cbn [forallb] in H. apply andb_true_iff in H. destruct H as [Hx Hr]. cbn [join].
  destruct rest as [|y rest']; [exact Hx|].
  rewrite forallb_app. rewrite Hx. cbn [forallb andb]. rewrite Hs. cbn [andb]. apply IH. exact Hr.
Qed.

Lemma hexd_noeol : forall n, noeol (hexd n) = true.
Proof.
  intros n. unfold noeol, is_eol, hexd. destruct (n <? 10) eqn:E.
  - apply N.ltb_lt in E. apply negb_true_iff, orb_false_iff. split; apply N.eqb_neq; lia.
  - apply N.ltb_ge in E. apply negb_true_iff, orb_false_iff. split; apply N.eqb_neq; lia.
Qed.

Lemma esc_byte_noeol : forall c, forallb noeol (esc_byte c) = true.
Proof.
  intros c. unfold esc_byte.
  destruct ((c =? 34) || (c =? 92)) eqn:E1.
  { apply orb_true_iff in E1. destruct E1 as [E|E]; apply N.eqb_eq in E; subst; reflexivity. }
  destruct (c =? 10) eqn:E2; [reflexivity|]. destruct (c =? 13) eqn:E3; [reflexivity|].
  destruct (c =? 9); [reflexivity|]. destruct (c <? 32).
  - cbn [forallb]. rewrite !hexd_noeol. reflexivity.
  - cbn [forallb]. unfold noeol, is_eol. rewrite E2, E3. reflexivity.
Qed.

Lemma noeol_esc_u : forall s copy skip, forallb noeol (esc_u copy skip s) = true.
Proof.
  intros s copy skip. apply (esc_u_chunks_q (fun _ => True) (fun l => forallb noeol l = true)); try reflexivity.
  - intros c _. apply esc_byte_noeol.
  - intros c Hc. cbn [forallb]. unfold noeol, is_eol.
    replace (c =? 13) with false by (symmetry; apply N.eqb_neq; lia). replace (c =? 10) with false by (symmetry; apply N.eqb_neq; lia). reflexivity.
  - intros a b Ha Hb. rewrite forallb_app, Ha, Hb. reflexivity.
  - apply Forall_forall. intros; exact I.
Qed.

Lemma ser_str_noeol : forall s, forallb noeol (ser_str s) = true.
Proof.
  intros s. unfold ser_str, esc_string. cbn [forallb]. rewrite forallb_app, noeol_esc_u. reflexivity.
Qed.

Lemma numchar_noeol : forall c, numchar c = true -> noeol c = true.
Proof.
  intros c H. unfold numchar in H. unfold noeol, is_eol. apply negb_true_iff, orb_false_iff.
  repeat (apply orb_true_iff in H; destruct H as [H|H]);
    try (apply N.eqb_eq in H; subst; split; reflexivity).
  apply andb_true_iff in H. destruct H as [H1 H2]. apply N.leb_le in H1, H2. split; apply N.eqb_neq; lia.
Qed.

Lemma ser_noeol : forall v, wfv v = true -> forallb noeol (ser v) = true.
Proof.
  induction v using jvalue_ind'; intros Hwf; cbn [ser].
  - reflexivity.
  - destruct b; reflexivity.
  - apply wfv_num in Hwf. rewrite forallb_forall in *. intros c Hc. apply numchar_noeol. auto.
  - apply ser_str_noeol.
  - cbn [wfv] in Hwf. rewrite forallb_forall in Hwf. cbn [forallb]. rewrite forallb_app.
    rewrite forallb_join; [reflexivity | reflexivity |].
    apply forallb_forall. intros x Hx. apply in_map_iff in Hx. destruct Hx as (v & <- & Hv).
    rewrite Forall_forall in H. apply H; auto.
  - cbn [wfv] in Hwf. rewrite forallb_forall in Hwf. cbn [forallb]. rewrite forallb_app.
    rewrite forallb_join; [reflexivity | reflexivity |].
    apply forallb_forall. intros x Hx. apply in_map_iff in Hx. destruct Hx as ([k v] & <- & Hv).
    rewrite forallb_app, ser_str_noeol. cbn [forallb andb].
    rewrite Forall_forall in H. apply (H (k, v) Hv). apply (Hwf (k, v) Hv).
Qed.

Lemma header_info_shape : forall ann, wfv (JObj ann) = true ->
  forallb noeol (header_info ann) = true /\ (header_info ann = [] \/ exists t, header_info ann = 123 :: t).
Proof.
  intros ann Hwf. unfold header_info. destruct ann as [|kv ann']; [split; [reflexivity | left; reflexivity]|].
  split; [apply ser_noeol; exact Hwf | right; eexists; reflexivity].
Qed.


Lemma run_steps_app : forall step l1 l2 s,
  run_steps step s (l1 ++ l2) = match run_steps step s l1 with Some s' => run_steps step s' l2 | None => None end.
Proof.
  intros step l1. induction l1 as [|c l1 IH]; intros l2 s; [reflexivity|].
  cbn [app run_steps]. destruct (step s c); [apply IH | reflexivity].
Qed.

Lemma seqchar_facts : forall c, seqchar c = true ->
  (c =? 62) = false /\ is_sep c = false /\ is_eol c = false /\ lower c = c /\ (c =? 10) = false.
Proof.
  intros c H. unfold seqchar in H.
  assert (Hc : (97 <= c /\ c <= 122) \/ c = 45 \/ c = 46 \/ c = 91 \/ c = 93).
  { repeat (apply orb_true_iff in H; destruct H as [H|H]); try (apply N.eqb_eq in H; lia).
    apply andb_true_iff in H. destruct H as [H1 H2]. apply N.leb_le in H1, H2. lia. }
  unfold is_sep, is_space, is_eol, lower.
  assert (E : (65 <=? c) && (c <=? 90) = false).
  { apply andb_false_iff. destruct (N.le_gt_cases c 90); [left; apply N.leb_gt; lia | right; apply N.leb_gt; lia]. }
  rewrite E. repeat split; try (apply N.eqb_neq; lia);
  repeat (apply orb_false_iff; split); apply N.eqb_neq; lia.
Qed.

Definition not10 (c : N) : bool := negb (c =? 10).

(** ** phases of the FASTA automaton *)
Lemma fasta_id_phase : forall l idb ident defb defn seqb qb prev out,
  forallb (fun c => negb (is_sep c)) l = true ->
  exists p, run_steps fasta_step (mkst 2 idb ident defb defn seqb qb prev out) l
            = Some (mkst 2 (rev l ++ idb) ident defb defn seqb qb p out).
Proof.
  induction l as [|c l IH]; intros idb ident defb defn seqb qb prev out H.
  - eexists. reflexivity.
  - cbn [forallb] in H. apply andb_true_iff in H. destruct H as [Hc Hl]. apply negb_true_iff in Hc.
    cbn [run_steps]. unfold fasta_step at 1. cbn [s_state s_idb s_ident s_defb s_defn s_seqb s_qualb s_out]. rewrite Hc.
    destruct (IH (c :: idb) ident defb defn seqb qb c out Hl) as (p & Hp). exists p. rewrite Hp.
    cbn [rev]. rewrite <- app_assoc. reflexivity.
Qed.

Lemma fasta_def_phase : forall l idb ident defb defn seqb qb prev out,
  forallb noeol l = true ->
  exists p, run_steps fasta_step (mkst 4 idb ident defb defn seqb qb prev out) l
            = Some (mkst 4 idb ident (rev l ++ defb) defn seqb qb p out).
Proof.
  induction l as [|c l IH]; intros idb ident defb defn seqb qb prev out H.
  - eexists. reflexivity.
  - cbn [forallb] in H. apply andb_true_iff in H. destruct H as [Hc Hl]. apply negb_true_iff in Hc.
    cbn [run_steps]. unfold fasta_step at 1. cbn [s_state s_idb s_ident s_defb s_defn s_seqb s_qualb s_out]. rewrite Hc.
    destruct (IH idb ident (c :: defb) defn seqb qb c out Hl) as (p & Hp). exists p. rewrite Hp.
    cbn [rev]. rewrite <- app_assoc. reflexivity.
Qed.

Lemma fasta_seq_phase : forall l idb ident defb defn seqb qb prev out,
  forallb (fun c => (c =? 10) || seqchar c) l = true ->
  exists p, run_steps fasta_step (mkst 6 idb ident defb defn seqb qb prev out) l
            = Some (mkst 6 idb ident defb defn (rev (filter not10 l) ++ seqb) qb p out).
Proof.
  induction l as [|c l IH]; intros idb ident defb defn seqb qb prev out H.
  - eexists. reflexivity.
  - cbn [forallb] in H. apply andb_true_iff in H. destruct H as [Hc Hl].
    cbn [run_steps]. unfold fasta_step at 1. cbn [s_state s_idb s_ident s_defb s_defn s_seqb s_qualb s_out s_prev].
    apply orb_true_iff in Hc. destruct Hc as [Hc|Hc].
    + apply N.eqb_eq in Hc. subst c. cbn [N.eqb Pos.eqb is_sep is_space is_eol orb negb].
      destruct (IH idb ident defb defn seqb qb 10 out Hl) as (p & Hp). exists p. rewrite Hp. reflexivity.
    + destruct (seqchar_facts c Hc) as (H1 & H2 & H3 & H4 & H5). rewrite H1, H2, H4, Hc. cbn [negb].
      destruct (IH idb ident defb defn (c :: seqb) qb c out Hl) as (p & Hp). exists p. rewrite Hp.
      cbn [filter]. unfold not10 at 2. rewrite H5. cbn [negb rev]. rewrite <- app_assoc. reflexivity.
Qed.

(** ** what the writer guarantees about the folded sequence *)
Lemma forallb_concat : forall (p : N -> bool) ls, forallb p (concat ls) = forallb (forallb p) ls.
Proof. intros p ls. induction ls as [|x r IH]; [reflexivity|]. cbn [concat forallb]. rewrite forallb_app, IH. reflexivity. Qed.

Lemma filter_join10 : forall ls, forallb (forallb not10) ls = true -> filter not10 (join 10 ls) = concat ls.
Proof.
  induction ls as [|x r IH]; intros H; [reflexivity|].
  cbn [forallb] in H. apply andb_true_iff in H. destruct H as [Hx Hr].
  assert (Fx : filter not10 x = x).
  { clear -Hx. induction x as [|c x IHx]; [reflexivity|]. cbn [forallb] in Hx. apply andb_true_iff in Hx.
    destruct Hx as [Hc Hx]. cbn [filter]. rewrite Hc, IHx by assumption. reflexivity. }
  cbn [join concat]. destruct r as [|y r']; [cbn [concat]; rewrite app_nil_r; exact Fx|].
  rewrite filter_app, Fx. cbn [filter]. unfold not10 at 1. cbn [N.eqb Pos.eqb negb]. rewrite IH by assumption. reflexivity.
Qed.

Lemma seqline_join10 : forall ls, forallb (forallb seqchar) ls = true ->
  forallb (fun c => (c =? 10) || seqchar c) (join 10 ls) = true.
Proof.
  intros ls H. apply forallb_join; [reflexivity|].
  rewrite forallb_forall in *. intros x Hx. specialize (H x Hx). rewrite forallb_forall in *.
  intros c Hc. rewrite (H c Hc). apply orb_true_r.
Qed.

Lemma seqchar_not10 : forall l, forallb seqchar l = true -> forallb not10 l = true.
Proof.
  intros l H. rewrite forallb_forall in *. intros c Hc. unfold not10.
  destruct (seqchar_facts c (H c Hc)) as (_ & _ & _ & _ & E). rewrite E. reflexivity.
Qed.

Lemma folded_shape : forall seq, seq <> [] -> forallb seqchar seq = true ->
  exists c body, join 10 (fold60 seq) = c :: body /\ seqchar c = true /\
    forallb (fun c => (c =? 10) || seqchar c) body = true /\ c :: filter not10 body = seq.
Proof.
  intros seq Hne Hs.
  assert (Hls : forallb (forallb seqchar) (fold60 seq) = true).
  { rewrite <- forallb_concat, fold60_concat. exact Hs. }
  pose proof (seqline_join10 _ Hls) as Hj.
  assert (Hf : filter not10 (join 10 (fold60 seq)) = seq).
  { rewrite filter_join10; [apply fold60_concat|]. rewrite <- forallb_concat, fold60_concat. apply seqchar_not10. exact Hs. }
  destruct seq as [|c0 seq']; [congruence|].
  assert (Hhd : exists body, join 10 (fold60 (c0 :: seq')) = c0 :: body).
  { unfold fold60. cbn [length chunks firstn]. cbn [join].
    destruct (chunks (length seq') 60 (skipn 60 (c0 :: seq'))); eexists; reflexivity. }
  destruct Hhd as (body & Hb). exists c0, body. rewrite Hb in Hj, Hf.
  cbn [forallb] in Hs, Hj. apply andb_true_iff in Hs. destruct Hs as [Hc0 _].
  apply andb_true_iff in Hj. destruct Hj as [_ Hj].
  split; [exact Hb|]. split; [exact Hc0|]. split; [exact Hj|].
  cbn [filter] in Hf. unfold not10 at 1 in Hf. destruct (seqchar_facts c0 Hc0) as (_ & _ & _ & _ & E).
  rewrite E in Hf. cbn [negb] in Hf. exact Hf.
Qed.


(** text of one FASTA entry after its '>' *)
Definition fasta_tail (r : wrec) : list N :=
  w_id r ++ 32 :: header_info (w_ann r) ++ 10 :: join 10 (fold60 (w_seq r)) ++ [10].
Lemma format_fasta_tail : forall r, format_fasta r ++ [10] = 62 :: fasta_tail r.
Proof.
  intros r. unfold format_fasta, fasta_tail, title.
  repeat (rewrite <- app_assoc || rewrite <- app_comm_cons). reflexivity.
Qed.

Lemma rec_ok_seq : forall r, rec_ok r = true -> w_seq r <> [] /\ forallb seqchar (w_seq r) = true.
Proof.
  intros r H. unfold rec_ok in H. repeat (apply andb_true_iff in H; destruct H as [H ?]).
  split; [|assumption]. destruct (w_seq r); [discriminate | discriminate].
Qed.

Lemma run_steps_cons : forall step s c t,
  run_steps step s (c :: t) = match step s c with Some s' => run_steps step s' t | None => None end.
Proof. reflexivity. Qed.

Lemma fasta_record : forall r idb ident defb defn seqb qb prev out, rec_ok r = true ->
  exists idb' defb' ,
    run_steps fasta_step (mkst 1 idb ident defb defn seqb qb prev out) (fasta_tail r)
    = Some (mkst 6 idb' (w_id r) defb' (header_info (w_ann r)) (rev (w_seq r)) qb 10 out).
Proof.
  intros r idb ident defb defn seqb qb prev out Hok.
  destruct (rec_ok_seq r Hok) as (Hne & Hsq).
  unfold rec_ok in Hok. repeat (apply andb_true_iff in Hok; destruct Hok as [Hok ?]).
  rename Hok into Hid. rename H1 into Hwf.
  destruct (header_info_shape (w_ann r) Hwf) as (Hinfo & Hshape).
  destruct (folded_shape (w_seq r) Hne Hsq) as (c0 & body & Hbody & Hc0 & Hbodyok & Hfilter).
  unfold fasta_tail. rewrite Hbody.
  remember (header_info (w_ann r)) as info. remember (w_seq r) as seq. remember (w_id r) as id.
  destruct id as [|i0 id']; [discriminate|]. cbn [id_ok forallb] in Hid.
  apply andb_true_iff in Hid. destruct Hid as [Hi0 Hid']. apply negb_true_iff in Hi0.
  (* state 1: first byte of the identifier *)
  cbn [app run_steps]. unfold fasta_step at 1. cbn [s_state s_idb s_ident s_defb s_defn s_seqb s_qualb s_out]. rewrite Hi0.
  (* state 2: rest of the identifier *)
  rewrite run_steps_app.
  destruct (fasta_id_phase id' [i0] ident defb defn seqb qb i0 out Hid') as (p1 & ->).
  (* the blank *)
  cbn [run_steps]. unfold fasta_step at 1. cbn [s_state s_idb s_ident s_defb s_defn s_seqb s_qualb s_out].
  cbn [is_sep is_space is_eol N.eqb Pos.eqb orb].
  replace (rev (rev id' ++ [i0])) with (i0 :: id') by (rewrite rev_app_distr, rev_involutive; reflexivity).
  destruct (seqchar_facts c0 Hc0) as (E1 & E2 & E3 & E4 & E5).
  assert (Hseq : forall idb1 ident1 defb1 defn1 p,
    exists idb' defb',
    run_steps fasta_step (mkst 5 idb1 ident1 defb1 defn1 seqb qb p out) (c0 :: body ++ [10])
    = Some (mkst 6 idb' ident1 defb' defn1 (rev seq) qb 10 out)).
  { intros idb1 ident1 defb1 defn1 p. cbn [run_steps]. unfold fasta_step at 1.
    cbn [s_state s_idb s_ident s_defb s_defn s_seqb s_qualb s_out]. rewrite E3, E4, Hc0.
    rewrite run_steps_app.
    destruct (fasta_seq_phase body idb1 ident1 defb1 defn1 [c0] qb c0 out Hbodyok) as (p2 & ->).
    cbn [run_steps]. unfold fasta_step at 1. cbn [s_state s_idb s_ident s_defb s_defn s_seqb s_qualb s_out s_prev].
    cbn [is_sep is_space is_eol N.eqb Pos.eqb orb negb].
    exists idb1, defb1. rewrite <- Hfilter. cbn [rev]. reflexivity. }
  destruct Hshape as [Hnil | (t & Ht)].
  - (* no annotation: empty definition *)
    rewrite Hnil. cbn [app]. rewrite run_steps_cons. unfold fasta_step at 1. cbn [s_state s_idb s_ident s_defb s_defn s_seqb s_qualb s_out].
    cbn [is_sep is_space is_eol N.eqb Pos.eqb orb].
        destruct (Hseq [] (i0 :: id') defb [] 10) as (idb' & defb' & ->). eexists; eexists; reflexivity.
  - rewrite Ht. rewrite Ht in Hinfo. cbn [forallb] in Hinfo. apply andb_true_iff in Hinfo. destruct Hinfo as [_ Hinfo].
    cbn [app]. rewrite run_steps_cons. unfold fasta_step at 1. cbn [s_state s_idb s_ident s_defb s_defn s_seqb s_qualb s_out].
    cbn [is_sep is_space is_eol N.eqb Pos.eqb orb negb].
    rewrite run_steps_app.
    destruct (fasta_def_phase t [] (i0 :: id') [123] defn seqb qb 123 out Hinfo) as (p3 & ->).
    rewrite run_steps_cons. unfold fasta_step at 1. cbn [s_state s_idb s_ident s_defb s_defn s_seqb s_qualb s_out].
    cbn [is_sep is_space is_eol N.eqb Pos.eqb orb negb].
    replace (rev (rev t ++ [123])) with (123 :: t) by (rewrite rev_app_distr, rev_involutive; reflexivity).
    destruct (Hseq [] (i0 :: id') (rev t ++ [123]) (123 :: t) 10) as (idb' & defb' & ->). eexists; eexists; reflexivity.
Qed.


Definition fasta_text (l : list wrec) : list N := concat (map (fun r => format_fasta r ++ [10]) l).

Lemma format_batch_fasta : forall shift l, forallb rec_ok l = true -> format_batch false shift l = Ok (fasta_text l).
Proof.
  intros shift l. induction l as [|r l IH]; intros H; [reflexivity|].
  cbn [forallb] in H. apply andb_true_iff in H. destruct H as [Hr Hl].
  cbn [format_batch]. destruct (rec_ok_seq r Hr) as (Hne & _).
  destruct (w_seq r) eqn:E; [congruence|]. rewrite IH by assumption. reflexivity.
Qed.

Lemma fasta_batch_run : forall l r idb ident defb defn seqb qb prev out,
  rec_ok r = true -> forallb rec_ok l = true ->
  exists s', run_steps fasta_step (mkst 1 idb ident defb defn seqb qb prev out) (fasta_tail r ++ fasta_text l) = Some s'
             /\ s_state s' = 6%nat /\ emit s' = rev (map as_parsed (r :: l)) ++ out.
Proof.
  induction l as [|r2 l IH]; intros r idb ident defb defn seqb qb prev out Hr Hl.
  - destruct (fasta_record r idb ident defb defn seqb qb prev out Hr) as (idb' & defb' & H).
    unfold fasta_text. cbn [map concat]. rewrite app_nil_r. eexists. split; [exact H|]. split; [reflexivity|].
    unfold emit. cbn [s_ident s_defn s_seqb s_out map rev app]. rewrite rev_involutive. reflexivity.
  - cbn [forallb] in Hl. apply andb_true_iff in Hl. destruct Hl as [Hr2 Hl].
    destruct (fasta_record r idb ident defb defn seqb qb prev out Hr) as (idb' & defb' & H).
    rewrite run_steps_app, H. unfold fasta_text. cbn [map concat]. rewrite format_fasta_tail.
    cbn [app]. rewrite run_steps_cons. unfold fasta_step at 1.
    cbn [s_state s_idb s_ident s_defb s_defn s_seqb s_qualb s_out s_prev N.eqb Pos.eqb is_eol orb].
    destruct (IH r2 idb' (w_id r) defb' (header_info (w_ann r)) (rev (w_seq r)) qb 62
                 (emit (mkst 6 idb' (w_id r) defb' (header_info (w_ann r)) (rev (w_seq r)) qb 10 out)) Hr2 Hl)
      as (s' & Hs' & Hst & Hem).
    exists s'. split; [exact Hs'|]. split; [exact Hst|]. rewrite Hem.
    unfold emit at 1. cbn [s_ident s_defn s_seqb s_out]. rewrite rev_involutive.
    cbn [map rev]. rewrite <- !app_assoc. reflexivity.
Qed.

Theorem fasta_roundtrip : forall shift l, l <> [] -> forallb rec_ok l = true ->
  exists text, format_batch false shift l = Ok text /\ parse_fasta text = Ok (map as_parsed l).
Proof.
  intros shift l Hne Hok. exists (fasta_text l). split; [apply format_batch_fasta; exact Hok|].
  destruct l as [|r l]; [congruence|]. cbn [forallb] in Hok. apply andb_true_iff in Hok. destruct Hok as [Hr Hl].
  unfold fasta_text. cbn [map concat]. rewrite format_fasta_tail. cbn [app].
  assert (Hid : exists i0 t, fasta_tail r ++ concat (map (fun r0 => format_fasta r0 ++ [10]) l) = i0 :: t /\ (i0 =? 32) = false).
  { unfold fasta_tail. pose proof Hr as Hr'. unfold rec_ok in Hr'. repeat (apply andb_true_iff in Hr'; destruct Hr' as [Hr' ?]).
    destruct (w_id r) as [|i0 id']; [discriminate|]. cbn [id_ok forallb] in Hr'. apply andb_true_iff in Hr'.
    destruct Hr' as [Hi0 _]. exists i0. eexists. split; [reflexivity|].
    apply negb_true_iff in Hi0. unfold is_sep, is_space in Hi0. apply orb_false_iff in Hi0. destruct Hi0 as [Hi0 _].
    apply orb_false_iff in Hi0. tauto. }
  destruct Hid as (i0 & t & Ht & Hi0).
  unfold parse_fasta. rewrite Ht, Hi0, <- Ht. rewrite run_steps_cons. unfold fasta_step at 1. unfold st0 at 1.
  cbn [s_state s_idb s_ident s_defb s_defn s_seqb s_qualb s_out s_prev N.eqb Pos.eqb].
  destruct (fasta_batch_run l r [] [] [] [] [] [] 62 [] Hr Hl) as (s' & Hs' & Hst & Hem).
  unfold fasta_text in Hs'. unfold st0. cbn [s_idb s_ident s_defb s_defn s_seqb s_qualb s_out]. rewrite Hs', Hst. cbn [Nat.eqb].
  rewrite Hem, app_nil_r, rev_involutive. reflexivity.
Qed.


Ltac fq_step := rewrite run_steps_cons; unfold fastq_step at 1;
  cbn [s_state s_idb s_ident s_defb s_defn s_seqb s_qualb s_out s_prev].

Lemma fastq_id_phase : forall shift l idb ident defb defn seqb qb prev out,
  forallb (fun c => negb (is_sep c)) l = true ->
  exists p, run_steps (fastq_step shift) (mkst 2 idb ident defb defn seqb qb prev out) l
            = Some (mkst 2 (rev l ++ idb) ident defb defn seqb qb p out).
Proof.
  induction l as [|c l IH]; intros idb ident defb defn seqb qb prev out H.
  - eexists. reflexivity.
  - cbn [forallb] in H. apply andb_true_iff in H. destruct H as [Hc Hl]. apply negb_true_iff in Hc.
    fq_step. rewrite Hc.
    destruct (IH (c :: idb) ident defb defn seqb qb c out Hl) as (p & Hp). exists p. rewrite Hp.
    cbn [rev]. rewrite <- app_assoc. reflexivity.
Qed.
Lemma fastq_def_phase : forall shift l idb ident defb defn seqb qb prev out,
  forallb noeol l = true ->
  exists p, run_steps (fastq_step shift) (mkst 4 idb ident defb defn seqb qb prev out) l
            = Some (mkst 4 idb ident (rev l ++ defb) defn seqb qb p out).
Proof.
  induction l as [|c l IH]; intros idb ident defb defn seqb qb prev out H.
  - eexists. reflexivity.
  - cbn [forallb] in H. apply andb_true_iff in H. destruct H as [Hc Hl]. apply negb_true_iff in Hc.
    fq_step. rewrite Hc.
    destruct (IH idb ident (c :: defb) defn seqb qb c out Hl) as (p & Hp). exists p. rewrite Hp.
    cbn [rev]. rewrite <- app_assoc. reflexivity.
Qed.
Lemma fastq_seq_phase : forall shift l idb ident defb defn seqb qb prev out,
  forallb seqchar l = true ->
  exists p, run_steps (fastq_step shift) (mkst 6 idb ident defb defn seqb qb prev out) l
            = Some (mkst 6 idb ident defb defn (rev l ++ seqb) qb p out).
Proof.
  induction l as [|c l IH]; intros idb ident defb defn seqb qb prev out H.
  - eexists. reflexivity.
  - cbn [forallb] in H. apply andb_true_iff in H. destruct H as [Hc Hl].
    destruct (seqchar_facts c Hc) as (H1 & H2 & H3 & H4 & H5).
    fq_step. rewrite H3, H4, Hc.
    destruct (IH idb ident defb defn (c :: seqb) qb c out Hl) as (p & Hp). exists p. rewrite Hp.
    cbn [rev]. rewrite <- app_assoc. reflexivity.
Qed.
Lemma fastq_qual_phase : forall shift l idb ident defb defn seqb qb prev out,
  forallb noeol l = true ->
  exists p, run_steps (fastq_step shift) (mkst 10 idb ident defb defn seqb qb prev out) l
            = Some (mkst 10 idb ident defb defn seqb (rev l ++ qb) p out).
Proof.
  induction l as [|c l IH]; intros idb ident defb defn seqb qb prev out H.
  - eexists. reflexivity.
  - cbn [forallb] in H. apply andb_true_iff in H. destruct H as [Hc Hl]. apply negb_true_iff in Hc.
    fq_step. rewrite Hc.
    destruct (IH idb ident defb defn seqb (c :: qb) c out Hl) as (p & Hp). exists p. rewrite Hp.
    cbn [rev]. rewrite <- app_assoc. reflexivity.
Qed.

Definition fastq_tail (shift : N) (r : wrec) : list N :=
  w_id r ++ 32 :: header_info (w_ann r) ++ 10 :: w_seq r ++ [10; 43; 10] ++ map (qual_char shift) (quals r) ++ [10].
Lemma format_fastq_tail : forall shift r, format_fastq shift r = 64 :: fastq_tail shift r.
Proof.
  intros shift r. unfold format_fastq, fastq_tail, title.
  repeat (rewrite <- app_assoc || rewrite <- app_comm_cons). reflexivity.
Qed.

Lemma qual_line_noeol : forall shift q, shift_ok shift -> forallb noeol (map (qual_char shift) q) = true.
Proof.
  intros shift q Hs. apply forallb_forall. intros c Hc. apply in_map_iff in Hc. destruct Hc as (x & <- & _).
  pose proof (qual_char_not_sep shift x Hs) as H. unfold is_sep in H. apply orb_false_iff in H.
  unfold noeol. destruct H as [_ ->]. reflexivity.
Qed.
Lemma qual_line_back : forall shift q, shift < 256 -> forallb (fun x => x <=? 93) q = true ->
  map (qual_back shift) (map (qual_char shift) q) = q.
Proof.
  intros shift q Hs H. rewrite map_map. rewrite <- (map_id q) at 2. apply map_ext_in.
  intros x Hx. rewrite forallb_forall in H. apply qual_roundtrip; [apply N.leb_le; auto | assumption].
Qed.

Lemma fastq_record : forall shift r idb ident defb defn seqb qb prev out,
  shift_ok shift -> fq_ok r = true ->
  exists idb' defb' seqb' qb',
    run_steps (fastq_step shift) (mkst 1 idb ident defb defn seqb qb prev out) (fastq_tail shift r)
    = Some (mkst 11 idb' (w_id r) defb' (header_info (w_ann r)) seqb' qb' 10 (as_parsed_q r :: out)).
Proof.
  intros shift r idb ident defb defn seqb qb prev out Hshift Hfq.
  unfold fq_ok in Hfq. apply andb_true_iff in Hfq. destruct Hfq as [Hok Hq].
  destruct (w_qual r) as [q|] eqn:Eq; [|discriminate]. apply andb_true_iff in Hq. destruct Hq as [Hlen Hq93].
  apply Nat.eqb_eq in Hlen.
  destruct (rec_ok_seq r Hok) as (Hne & Hsq).
  unfold rec_ok in Hok. repeat (apply andb_true_iff in Hok; destruct Hok as [Hok ?]).
  rename Hok into Hid. rename H1 into Hwf.
  destruct (header_info_shape (w_ann r) Hwf) as (Hinfo & Hshape).
  unfold fastq_tail, as_parsed_q, quals. rewrite Eq.
  remember (header_info (w_ann r)) as info. remember (w_seq r) as seq. remember (w_id r) as id.
  destruct id as [|i0 id']; [discriminate|]. cbn [id_ok forallb] in Hid.
  apply andb_true_iff in Hid. destruct Hid as [Hi0 Hid']. apply negb_true_iff in Hi0.
  destruct seq as [|c0 seq']; [congruence|]. cbn [forallb] in Hsq. apply andb_true_iff in Hsq. destruct Hsq as [Hc0 Hsq'].
  destruct (seqchar_facts c0 Hc0) as (E1 & E2 & E3 & E4 & E5).
  destruct q as [|q0 q']; [discriminate|].
  pose proof (qual_line_noeol shift (q0 :: q') Hshift) as Hqn. cbn [map forallb] in Hqn.
  apply andb_true_iff in Hqn. destruct Hqn as [Hq0n Hq'n]. apply negb_true_iff in Hq0n.
  assert (Hs256 : shift < 256) by (unfold shift_ok in Hshift; lia).
  (* identifier *)
  cbn [app]. fq_step. rewrite Hi0. rewrite run_steps_app.
  destruct (fastq_id_phase shift id' [i0] ident defb defn seqb qb i0 out Hid') as (p1 & ->).
  fq_step. cbn [is_sep is_space is_eol N.eqb Pos.eqb orb].
  replace (rev (rev id' ++ [i0])) with (i0 :: id') by (rewrite rev_app_distr, rev_involutive; reflexivity).
  (* everything after the title line, from state 5 *)
  assert (Hrest : forall idb1 defb1 defn1 p,
    exists idb' defb' seqb' qb',
    run_steps (fastq_step shift) (mkst 5 idb1 (i0 :: id') defb1 defn1 seqb qb p out)
       (c0 :: seq' ++ 10 :: 43 :: 10 :: map (qual_char shift) (q0 :: q') ++ [10])
    = Some (mkst 11 idb' (i0 :: id') defb' defn1 seqb' qb' 10 (mkp (i0 :: id') defn1 (c0 :: seq') (Some (q0 :: q')) :: out))).
  { intros idb1 defb1 defn1 p. cbn [map]. fq_step. rewrite E3, E4.
    rewrite run_steps_app.
    destruct (fastq_seq_phase shift seq' idb1 (i0 :: id') defb1 defn1 [c0] qb c0 out Hsq') as (p2 & ->).
    fq_step. cbn [is_eol N.eqb Pos.eqb orb].
    fq_step. cbn [is_eol N.eqb Pos.eqb orb].
    fq_step. cbn [is_eol N.eqb Pos.eqb orb].
    cbn [app]. fq_step. rewrite Hq0n. rewrite run_steps_app.
    match goal with |- context [mkst 10 ?a ?b ?c ?d ?e ?f ?g ?h] =>
      destruct (fastq_qual_phase shift (map (qual_char shift) q') a b c d e f g h Hq'n) as (p3 & ->) end.
    fq_step. cbn [is_eol N.eqb Pos.eqb orb].
    unfold store_qual, emit. cbn [s_out s_qualb s_ident s_defn s_seqb p_seq p_id p_def].
    replace (rev (rev (map (qual_char shift) q') ++ [qual_char shift q0])) with (map (qual_char shift) (q0 :: q'))
      by (rewrite rev_app_distr, rev_involutive; reflexivity).
    replace (rev (rev seq' ++ [c0])) with (c0 :: seq') by (rewrite rev_app_distr, rev_involutive; reflexivity).
    rewrite map_length, Hlen. cbn [length Nat.eqb orb]. rewrite Nat.eqb_refl. cbn [negb].
    rewrite qual_line_back by assumption.
    do 4 eexists. reflexivity. }
  destruct Hshape as [Hnil | (t & Ht)].
  - rewrite Hnil. cbn [app]. fq_step. cbn [is_sep is_space is_eol N.eqb Pos.eqb orb].
    destruct (Hrest (rev id' ++ [i0]) defb [] 10) as (a & b & c & d & ->). do 4 eexists. reflexivity.
  - rewrite Ht. rewrite Ht in Hinfo. cbn [forallb] in Hinfo. apply andb_true_iff in Hinfo. destruct Hinfo as [_ Hinfo].
    cbn [app]. fq_step. cbn [is_sep is_space is_eol N.eqb Pos.eqb orb negb].
    rewrite run_steps_app.
    match goal with |- context [mkst 4 ?a ?b ?c ?d ?e ?f ?g ?h] =>
      destruct (fastq_def_phase shift t a b c d e f g h Hinfo) as (p3 & ->) end.
    fq_step. cbn [is_sep is_space is_eol N.eqb Pos.eqb orb negb].
    replace (rev (rev t ++ [123])) with (123 :: t) by (rewrite rev_app_distr, rev_involutive; reflexivity).
    destruct (Hrest (rev id' ++ [i0]) (rev t ++ [123]) (123 :: t) 10) as (a & b & c & d & ->). do 4 eexists. reflexivity.
Qed.


Definition fastq_text (shift : N) (l : list wrec) : list N := concat (map (format_fastq shift) l).

Lemma fq_ok_rec_ok : forall r, fq_ok r = true -> rec_ok r = true.
Proof. intros r H. unfold fq_ok in H. apply andb_true_iff in H. tauto. Qed.

Lemma format_batch_fastq : forall shift l, forallb fq_ok l = true -> format_batch true shift l = Ok (fastq_text shift l).
Proof.
  intros shift l. induction l as [|r l IH]; intros H; [reflexivity|].
  cbn [forallb] in H. apply andb_true_iff in H. destruct H as [Hr Hl].
  cbn [format_batch]. destruct (rec_ok_seq r (fq_ok_rec_ok r Hr)) as (Hne & _).
  destruct (w_seq r) eqn:E; [congruence|]. rewrite IH by assumption. reflexivity.
Qed.

Lemma fastq_batch_run : forall shift l r idb ident defb defn seqb qb prev out,
  shift_ok shift -> fq_ok r = true -> forallb fq_ok l = true ->
  exists s', run_steps (fastq_step shift) (mkst 1 idb ident defb defn seqb qb prev out) (fastq_tail shift r ++ fastq_text shift l) = Some s'
             /\ s_state s' = 11%nat /\ s_out s' = rev (map as_parsed_q (r :: l)) ++ out.
Proof.
  intros shift. induction l as [|r2 l IH]; intros r idb ident defb defn seqb qb prev out Hs Hr Hl.
  - destruct (fastq_record shift r idb ident defb defn seqb qb prev out Hs Hr) as (a & b & c & d & H).
    unfold fastq_text. cbn [map concat]. rewrite app_nil_r. eexists. split; [exact H|]. split; reflexivity.
  - cbn [forallb] in Hl. apply andb_true_iff in Hl. destruct Hl as [Hr2 Hl].
    destruct (fastq_record shift r idb ident defb defn seqb qb prev out Hs Hr) as (a & b & c & d & H).
    rewrite run_steps_app, H. unfold fastq_text. cbn [map concat]. rewrite format_fastq_tail.
    cbn [app]. fq_step. cbn [is_eol N.eqb Pos.eqb orb].
    destruct (IH r2 a (w_id r) b (header_info (w_ann r)) c d 64 (as_parsed_q r :: out) Hs Hr2 Hl) as (s' & Hs' & Hst & Hout).
    exists s'. split; [exact Hs'|]. split; [exact Hst|]. rewrite Hout.
    cbn [map rev]. rewrite <- !app_assoc. reflexivity.
Qed.

Theorem fastq_roundtrip : forall shift l, shift_ok shift -> l <> [] -> forallb fq_ok l = true ->
  exists text, format_batch true shift l = Ok text /\ parse_fastq shift text = Ok (map as_parsed_q l).
Proof.
  intros shift l Hs Hne Hok. exists (fastq_text shift l). split; [apply format_batch_fastq; exact Hok|].
  destruct l as [|r l]; [congruence|]. cbn [forallb] in Hok. apply andb_true_iff in Hok. destruct Hok as [Hr Hl].
  unfold fastq_text. cbn [map concat]. rewrite format_fastq_tail. cbn [app].
  unfold parse_fastq. fq_step. unfold st0 at 1. cbn [s_state N.eqb Pos.eqb].
  destruct (fastq_batch_run shift l r [] [] [] [] [] [] 64 [] Hs Hr Hl) as (s' & Hs' & Hst & Hout).
  unfold fastq_text in Hs'. unfold st0. cbn [s_idb s_ident s_defb s_defn s_seqb s_qualb s_out]. rewrite Hs', Hst. cbn [Nat.eqb andb].
  rewrite Hout, app_nil_r, rev_involutive. reflexivity.
Qed.

(** * reading back with the header parser *)
Section ReadBack.
  Variable dec : list N -> option jvalue.
  (** the decoder returns the annotations of this record when given their marshalled form *)
  Definition dec_inverts (r : wrec) : Prop := dec (ser (JObj (w_ann r))) = Some (JObj (w_ann r)).

  Lemma read_header_written : forall id ann seq q, wfv (JObj ann) = true -> dec (ser (JObj ann)) = Some (JObj ann) ->
    read_header dec (mkp id (header_info ann) seq q) = RRec (mkw id ann seq q).
  Proof.
    intros id ann seq q Hwf Hdec. unfold read_header. cbn [p_def p_id p_seq p_qual].
    destruct ann as [|kv ann']; [reflexivity|].
    unfold header_info. remember (kv :: ann') as m.
    pose proof (parse_header_formatted dec m Hwf Hdec) as Hp. clear Hdec.
    destruct (ser (JObj m)) eqn:E; [discriminate E|]. rewrite Hp. reflexivity.
  Qed.
  Lemma guessed_selects_json : forall id ann seq q, ann <> [] ->
    read_guessed dec (mkp id (header_info ann) seq q) = read_header dec (mkp id (header_info ann) seq q).
  Proof. intros id [|kv ann'] seq q H; [congruence | reflexivity]. Qed.

  Lemma rec_ok_wf : forall r, rec_ok r = true -> wfv (JObj (w_ann r)) = true.
  Proof. intros r H. unfold rec_ok in H. repeat (apply andb_true_iff in H; destruct H as [H ?]). assumption. Qed.

  Lemma read_all_written : forall (guessed : bool) (proj : wrec -> option (list N)) l,
    forallb rec_ok l = true -> Forall dec_inverts l -> (guessed = true -> annotated l = true) ->
    read_all (if guessed then read_guessed dec else read_header dec)
             (map (fun r => mkp (w_id r) (header_info (w_ann r)) (w_seq r) (proj r)) l)
    = RL (map (fun r => mkw (w_id r) (w_ann r) (w_seq r) (proj r)) l).
  Proof.
    intros guessed proj l. induction l as [|r l IH]; intros Hok Hdec Hg; [reflexivity|].
    cbn [forallb] in Hok. apply andb_true_iff in Hok. destruct Hok as [Hr Hl].
    inversion Hdec as [|r' l' Hdr Hdl]; subst.
    cbn [map read_all].
    assert (Hh : read_header dec (mkp (w_id r) (header_info (w_ann r)) (w_seq r) (proj r)) = RRec (mkw (w_id r) (w_ann r) (w_seq r) (proj r))).
    { apply read_header_written; [apply rec_ok_wf; assumption | exact Hdr]. }
    assert (E : (if guessed then read_guessed dec else read_header dec)
                  (mkp (w_id r) (header_info (w_ann r)) (w_seq r) (proj r)) = RRec (mkw (w_id r) (w_ann r) (w_seq r) (proj r))).
    { destruct guessed; [|exact Hh]. rewrite guessed_selects_json; [exact Hh|].
      specialize (Hg eq_refl). unfold annotated in Hg. cbn [forallb] in Hg. apply andb_true_iff in Hg. destruct Hg as [Hg _].
      destruct (w_ann r); [discriminate | discriminate]. }
    rewrite E. rewrite IH; [reflexivity | assumption | assumption |].
    intros ->. specialize (Hg eq_refl). unfold annotated in *. cbn [forallb] in Hg. apply andb_true_iff in Hg. tauto.
  Qed.

  Theorem fasta_write_read : forall guessed shift l, l <> [] -> forallb rec_ok l = true -> Forall dec_inverts l ->
    (guessed = true -> annotated l = true) ->
    exists text, format_batch false shift l = Ok text /\ read_file dec false guessed shift text = RL (map drop_qual l).
  Proof.
    intros guessed shift l Hne Hok Hdec Hg. destruct (fasta_roundtrip shift l Hne Hok) as (text & Hw & Hp).
    exists text. split; [exact Hw|]. unfold read_file. rewrite Hp.
    apply (read_all_written guessed (fun _ => None) l Hok Hdec Hg).
  Qed.

  Theorem fastq_write_read : forall guessed shift l, shift_ok shift -> l <> [] -> forallb fq_ok l = true ->
    Forall dec_inverts l -> (guessed = true -> annotated l = true) ->
    exists text, format_batch true shift l = Ok text /\ read_file dec true guessed shift text = RL l.
  Proof.
    intros guessed shift l Hs Hne Hok Hdec Hg. destruct (fastq_roundtrip shift l Hs Hne Hok) as (text & Hw & Hp).
    exists text. split; [exact Hw|]. unfold read_file. rewrite Hp.
    assert (Hok' : forallb rec_ok l = true).
    { rewrite forallb_forall in *. intros r Hr. apply fq_ok_rec_ok. auto. }
    unfold as_parsed_q. rewrite (read_all_written guessed w_qual l Hok' Hdec Hg).
    f_equal. rewrite <- (map_id l) at 2. apply map_ext. intros [a b c d]. reflexivity.
  Qed.

  (** write-after-read is a fixed point: the second write is byte-identical *)
  Lemma format_batch_drop_qual : forall shift l, format_batch false shift (map drop_qual l) = format_batch false shift l.
  Proof.
    intros shift l. induction l as [|r l IH]; [reflexivity|].
    cbn [map format_batch]. rewrite IH. destruct r as [a b c d]. reflexivity.
  Qed.
  Theorem fasta_fixed_point : forall guessed shift l, l <> [] -> forallb rec_ok l = true -> Forall dec_inverts l ->
    (guessed = true -> annotated l = true) ->
    exists text l', format_batch false shift l = Ok text /\ read_file dec false guessed shift text = RL l'
                    /\ format_batch false shift l' = Ok text.
  Proof.
    intros guessed shift l Hne Hok Hdec Hg. destruct (fasta_write_read guessed shift l Hne Hok Hdec Hg) as (text & Hw & Hr).
    exists text, (map drop_qual l). split; [exact Hw|]. split; [exact Hr|]. rewrite format_batch_drop_qual. exact Hw.
  Qed.
  Theorem fastq_fixed_point : forall guessed shift l, shift_ok shift -> l <> [] -> forallb fq_ok l = true ->
    Forall dec_inverts l -> (guessed = true -> annotated l = true) ->
    exists text l', format_batch true shift l = Ok text /\ read_file dec true guessed shift text = RL l'
                    /\ format_batch true shift l' = Ok text.
  Proof.
    intros guessed shift l Hs Hne Hok Hdec Hg. destruct (fastq_write_read guessed shift l Hs Hne Hok Hdec Hg) as (text & Hw & Hr).
    exists text, l. auto.
  Qed.
End ReadBack.

(** data of the non-vacuity example of Props.v *)
Definition ex_ann1 : list (list N * jvalue) := [([107; 34], JStr [34; 125; 92])].
Definition ex_ann2 : list (list N * jvalue) := [([110], JNum [49])].
Definition ex_recs : list wrec :=
  [mkw [64; 62; 123] ex_ann1 (repeat 97 61) (Some (repeat 0 61)); mkw [105] ex_ann2 [99; 45] (Some [93; 31])].
(** a decoder that knows the two headers of the example (any decoder inverting the marshaller on them would do) *)
Definition ex_dec (t : list N) : option jvalue :=
  if nlist_eqb t (ser (JObj ex_ann1)) then Some (JObj ex_ann1)
  else if nlist_eqb t (ser (JObj ex_ann2)) then Some (JObj ex_ann2) else None.


(** * The scanner before the repair is right exactly as long as no string or key contains a double quote *)
Definition ne34 (c : N) : bool := negb (c =? 34).
Fixpoint noquote (v : jvalue) : bool :=
  match v with
  | JStr s => forallb ne34 s
  | JArr l => forallb noquote l
  | JObj m => forallb (fun kv => forallb ne34 (fst kv) && noquote (snd kv)) m
  | _ => true
  end.

Lemma oscan_loop_cons : forall h c t i start level inq esc, h = c :: t ->
  scan_loop false h i start level inq esc =
      let start' := if (level =? 0)%Z && (c =? 123) && negb inq then i else start in
      let inq' := if (start' >? -1)%Z && (c =? 34) then negb inq else inq in
      let level1 := if (c =? 123) && negb inq' then (level + 1)%Z else level in
      let level2 := if (c =? 125) && negb inq' then (level1 - 1)%Z else level1 in
      if (start' >=? 0)%Z && (level2 =? 0)%Z then (start', i)
      else scan_loop false t (i + 1)%Z start' level2 inq' false.
Proof. intros; subst; reflexivity. Qed.

Definition oskips (L : Z) (p : list N) : Prop :=
  forall rest i start e, (0 <= start)%Z ->
    scan_loop false (p ++ rest) i start L false e
    = scan_loop false rest (i + Z.of_nat (length p))%Z start L false (match p with [] => e | _ => false end).
Definition oqskips (L : Z) (p : list N) : Prop :=
  forall rest i start e, (0 <= start)%Z ->
    scan_loop false (p ++ rest) i start L true e
    = scan_loop false rest (i + Z.of_nat (length p))%Z start L true (match p with [] => e | _ => false end).

Lemma oskips_nil : forall L, oskips L [].
Proof. intros L rest i start e _. cbn. f_equal. lia. Qed.
Lemma oqskips_nil : forall L, oqskips L [].
Proof. intros L rest i start e _. cbn. f_equal. lia. Qed.
Lemma oskips_app : forall L p q, oskips L p -> oskips L q -> oskips L (p ++ q).
Proof.
  intros L p q Hp Hq rest i start e Hs. rewrite <- app_assoc, Hp, Hq by assumption.
  rewrite app_length. destruct p, q; cbn [app length]; f_equal; lia.
Qed.
Lemma oqskips_app : forall L p q, oqskips L p -> oqskips L q -> oqskips L (p ++ q).
Proof.
  intros L p q Hp Hq rest i start e Hs. rewrite <- app_assoc, Hp, Hq by assumption.
  rewrite app_length. destruct p, q; cbn [app length]; f_equal; lia.
Qed.

Lemma oskips_plain : forall L c, (1 <= L)%Z -> plain c -> oskips L [c].
Proof.
  intros L c HL (H1 & H2 & H3) rest i start e Hs.
  rewrite (oscan_loop_cons _ c rest) by reflexivity. cbn [andb negb].
  apply N.eqb_neq in H1, H2, H3. rewrite H1, H2, H3. rewrite !andb_false_r. cbn [andb].
  destruct (L =? 0)%Z eqn:E; [lia|]. rewrite andb_false_r. cbn [length]. f_equal.
Qed.
Lemma oqskips_plain : forall L c, (1 <= L)%Z -> c <> 34 -> oqskips L [c].
Proof.
  intros L c HL H1 rest i start e Hs.
  rewrite (oscan_loop_cons _ c rest) by reflexivity. cbn [andb negb].
  apply N.eqb_neq in H1. rewrite H1. rewrite !andb_false_r. cbn [andb].
  destruct (L =? 0)%Z eqn:E; [lia|]. rewrite !andb_false_r. cbn [length]. f_equal.
Qed.
Lemma oskips_cons : forall L c p, oskips L [c] -> oskips L p -> oskips L (c :: p).
Proof. intros. change (c :: p) with ([c] ++ p). apply oskips_app; assumption. Qed.
Lemma oqskips_list : forall L l, (1 <= L)%Z -> forallb ne34 l = true -> oqskips L l.
Proof.
  intros L l HL. induction l as [|c l IH]; intros H; [apply oqskips_nil|].
  cbn [forallb] in H. apply andb_true_iff in H. destruct H as [Hc Hl].
  change (c :: l) with ([c] ++ l). apply oqskips_app; [|apply IH; assumption].
  apply oqskips_plain; [assumption|]. unfold ne34 in Hc. apply negb_true_iff, N.eqb_neq in Hc. exact Hc.
Qed.

Lemma esc_byte_ne34 : forall c, ne34 c = true -> forallb ne34 (esc_byte c) = true.
Proof.
  intros c Hc. unfold ne34 in Hc. apply negb_true_iff in Hc. unfold esc_byte. rewrite Hc. cbn [orb].
  destruct (c =? 92) eqn:E; [apply N.eqb_eq in E; subst; reflexivity|].
  destruct (c =? 10); [reflexivity|]. destruct (c =? 13); [reflexivity|]. destruct (c =? 9); [reflexivity|].
  destruct (c <? 32).
  - cbn [forallb]. unfold ne34 at 5 6.
    destruct (hexd_ok (c / 16)) as [H1 _]. destruct (hexd_ok (c mod 16)) as [H2 _].
    apply N.eqb_neq in H1, H2. rewrite H1, H2. reflexivity.
  - cbn [forallb]. unfold ne34. rewrite Hc. reflexivity.
Qed.
Lemma ne34_esc_u : forall s copy skip, forallb ne34 s = true -> forallb ne34 (esc_u copy skip s) = true.
Proof.
  intros s copy skip H. apply (esc_u_chunks_q (fun c => ne34 c = true) (fun l => forallb ne34 l = true)); try reflexivity.
  - intros c Hc. apply esc_byte_ne34. exact Hc.
  - intros c Hc. cbn [forallb]. unfold ne34. replace (c =? 34) with false by (symmetry; apply N.eqb_neq; lia). reflexivity.
  - intros a b Ha Hb. rewrite forallb_app, Ha, Hb. reflexivity.
  - apply Forall_forall. rewrite forallb_forall in H. exact H.
Qed.

Lemma oskips_ser_str : forall L s, (1 <= L)%Z -> forallb ne34 s = true -> oskips L (ser_str s).
Proof.
  intros L s HL Hs rest i start e Hst. unfold ser_str. cbn [app].
  rewrite (oscan_loop_cons _ 34 ((esc_string s ++ [34]) ++ rest)) by reflexivity.
  cbn [andb negb N.eqb Pos.eqb].
  destruct (L =? 0)%Z eqn:E3; [lia|]. cbn [andb negb].
  destruct (start >? -1)%Z eqn:E1; [|lia]. cbn [andb negb].
  destruct (start >=? 0)%Z eqn:E2; [|lia]. cbn [andb].
  rewrite <- app_assoc.
  rewrite (oqskips_list L (esc_string s) HL (ne34_esc_u s 0 0 Hs)) by assumption. cbn [app].
  rewrite (oscan_loop_cons _ 34 rest) by reflexivity.
  cbn [andb negb N.eqb Pos.eqb]. repeat (rewrite ?E3, ?E1, ?E2, ?andb_false_r; cbn [andb negb]).
  f_equal. cbn [length]. rewrite app_length. cbn [length]. lia.
Qed.

Lemma oskips_braces : forall L p, (1 <= L)%Z -> oskips (L + 1) p -> oskips L (123 :: p ++ [125]).
Proof.
  intros L p HL Hp rest i start e Hs. cbn [app].
  rewrite (oscan_loop_cons _ 123 ((p ++ [125]) ++ rest)) by reflexivity.
  cbn [andb negb N.eqb Pos.eqb].
  destruct (L =? 0)%Z eqn:E3; [lia|]. cbn [andb negb].
  destruct (start >? -1)%Z eqn:E1; [|lia]. cbn [andb negb].
  destruct (start >=? 0)%Z eqn:E2; [|lia]. destruct (L + 1 =? 0)%Z eqn:E4; [lia|]. cbn [andb].
  rewrite <- app_assoc. rewrite Hp by assumption. cbn [app].
  rewrite (oscan_loop_cons _ 125 rest) by reflexivity.
  cbn [andb negb N.eqb Pos.eqb]. repeat (rewrite ?E4, ?E1, ?E2, ?andb_false_r; cbn [andb negb]).
  replace (L + 1 - 1)%Z with L by lia. repeat (rewrite ?E3, ?E1, ?E2, ?andb_false_r; cbn [andb negb]).
  f_equal. cbn [length]. rewrite app_length. cbn [length]. lia.
Qed.

Lemma oskips_plain_list : forall L l, (1 <= L)%Z -> Forall plain l -> oskips L l.
Proof.
  intros L l HL H. induction H as [|c l Hc _ IH]; [apply oskips_nil|].
  apply oskips_cons; [apply oskips_plain; assumption | exact IH].
Qed.
Lemma oskips_join : forall L ls, (1 <= L)%Z -> Forall (oskips L) ls -> oskips L (join 44 ls).
Proof.
  intros L ls HL H. induction H as [|x rest Hx Hrest IH]; [apply oskips_nil|].
  cbn [join]. destruct rest as [|y rest']; [exact Hx|].
  apply oskips_app; [exact Hx|]. apply oskips_cons; [|exact IH].
  apply oskips_plain; [assumption | repeat split; discriminate].
Qed.

Lemma oskips_member : forall L k v, (1 <= L)%Z -> forallb ne34 k = true -> oskips L (ser v) -> oskips L (ser_str k ++ 58 :: ser v).
Proof.
  intros L k v HL Hk Hv. apply oskips_app; [apply oskips_ser_str; assumption|].
  apply oskips_cons; [apply oskips_plain; [assumption | repeat split; discriminate] | exact Hv].
Qed.

Lemma oskips_ser : forall v, wfv v = true -> noquote v = true -> forall L, (1 <= L)%Z -> oskips L (ser v).
Proof.
  induction v using jvalue_ind'; intros Hwf Hnq L HL; cbn [ser].
  - apply oskips_plain_list; [assumption|]. repeat constructor; discriminate.
  - destruct b; (apply oskips_plain_list; [assumption|]; repeat constructor; discriminate).
  - apply wfv_num in Hwf. apply oskips_plain_list; [assumption|].
    apply Forall_forall. intros c Hc. apply numchar_plain. rewrite forallb_forall in Hwf. auto.
  - apply oskips_ser_str; assumption.
  - cbn [wfv] in Hwf. cbn [noquote] in Hnq. rewrite forallb_forall in Hwf, Hnq.
    apply oskips_cons; [apply oskips_plain; [assumption | repeat split; discriminate]|].
    apply oskips_app; [| apply oskips_plain; [assumption | repeat split; discriminate]].
    apply oskips_join; [assumption|]. apply Forall_forall. intros x Hx.
    apply in_map_iff in Hx. destruct Hx as (v & <- & Hv).
    rewrite Forall_forall in H. apply H; auto.
  - cbn [wfv] in Hwf. cbn [noquote] in Hnq. rewrite forallb_forall in Hwf, Hnq.
    apply oskips_braces; [assumption|].
    apply oskips_join; [lia|]. apply Forall_forall. intros x Hx.
    apply in_map_iff in Hx. destruct Hx as ([k v] & <- & Hv).
    specialize (Hnq (k, v) Hv). cbn [fst snd] in Hnq. apply andb_true_iff in Hnq. destruct Hnq as [Hk Hq].
    apply oskips_member; [lia | exact Hk |].
    rewrite Forall_forall in H. apply (H (k, v) Hv); [apply (Hwf (k, v) Hv) | exact Hq | lia].
Qed.

Lemma oscan_raw_object : forall body rest, oskips 1 body ->
  scan_raw false (123 :: body ++ [125] ++ rest) = (0%Z, (1 + Z.of_nat (length body))%Z).
Proof.
  intros body rest Hb. unfold scan_raw.
  rewrite (oscan_loop_cons _ 123 (body ++ [125] ++ rest)) by reflexivity.
  cbn [andb negb N.eqb Pos.eqb].
  change (0 =? 0)%Z with true. cbn [andb negb]. change (0 >? -1)%Z with true. cbn [andb negb].
  change (0 >=? 0)%Z with true. change (0 + 1 =? 0)%Z with false. cbn [andb negb].
  rewrite Hb by lia. cbn [app].
  rewrite (oscan_loop_cons _ 125 rest) by reflexivity.
  cbn [andb negb N.eqb Pos.eqb].
  change (1 =? 0)%Z with false. cbn [andb negb]. change (0 >? -1)%Z with true. cbn [andb negb].
  change (0 >=? 0)%Z with true. change (1 - 1 =? 0)%Z with true. cbn [andb negb].
  f_equal.
Qed.

Theorem scan_orig_finds_object_noquote : forall o rest, wfv (JObj o) = true -> noquote (JObj o) = true ->
  scan_obj_orig (ser (JObj o) ++ rest) = Some (0%nat, length (ser (JObj o))).
Proof.
  intros o rest Hwf Hnq.
  assert (Hb : oskips 1 (join 44 (map (fun kv => match kv with (k, x) => ser_str k ++ 58 :: ser x end) o))).
  { cbn [wfv] in Hwf. cbn [noquote] in Hnq. rewrite forallb_forall in Hwf, Hnq.
    apply oskips_join; [lia|]. apply Forall_forall. intros x Hx.
    apply in_map_iff in Hx. destruct Hx as ([k v] & <- & Hv).
    specialize (Hnq (k, v) Hv). cbn [fst snd] in Hnq. apply andb_true_iff in Hnq. destruct Hnq as [Hk Hq].
    apply oskips_member; [lia | exact Hk |]. apply oskips_ser; [apply (Hwf (k, v) Hv) | exact Hq | lia]. }
  cbn [ser]. unfold scan_obj_orig, scan_gen. cbn [app]. rewrite <- app_assoc. rewrite oscan_raw_object by assumption.
  match goal with |- context [length ?b] => set (n := length b) end.
  destruct ((0 <? 0)%Z || (1 + Z.of_nat n <? 0)%Z) eqn:E.
  { apply orb_true_iff in E. destruct E as [E|E]; [discriminate | apply Z.ltb_lt in E; lia]. }
  f_equal. f_equal. cbn [length]. rewrite app_length. cbn [length]. fold n. lia.
Qed.


(** * Round 2: the JSON parser inverts the marshaller *)


Lemma numtok_nonempty : forall t, numtok t = true -> t <> [].
Proof. intros [|c t] H; [discriminate H | discriminate]. Qed.

Definition nonum (rest : list N) : Prop := match rest with c :: _ => numchar c = false | [] => True end.
Lemma span_num_app : forall t rest, forallb numchar t = true -> nonum rest -> span_num (t ++ rest) = (t, rest).
Proof.
  induction t as [|c t IH]; intros rest Ht Hr.
  - cbn [app]. destruct rest as [|c r]; [reflexivity|]. cbn [span_num]. cbn [nonum] in Hr. rewrite Hr. reflexivity.
  - cbn [forallb] in Ht. apply andb_true_iff in Ht. destruct Ht as [Hc Ht]. cbn [app span_num]. rewrite Hc, IH by assumption. reflexivity.
Qed.

Lemma strip_app : forall p rest, strip p (p ++ rest) = Some rest.
Proof. induction p as [|x p IH]; intros rest; [reflexivity|]. cbn [app strip]. rewrite N.eqb_refl. apply IH. Qed.

(** one-step equations *)
Lemma parse_str_raw : forall c r, (c =? 34) = false -> (c =? 92) = false -> (c =? 0) = false ->
  parse_str (c :: r) = match parse_str r with Some (t, r') => Some (c :: t, r') | None => None end.
Proof. intros c r H1 H2 H3. cbn [parse_str]. rewrite H1, H2, H3. reflexivity. Qed.
Lemma parse_str_quote : forall r, parse_str (34 :: r) = Some ([], r).
Proof. reflexivity. Qed.

Lemma unhex_hexd : forall n, n < 16 -> unhex (hexd n) = Some n.
Proof.
  intros n Hn. unfold hexd, unhex. destruct (n <? 10) eqn:E.
  - apply N.ltb_lt in E. replace ((48 <=? 48 + n) && (48 + n <=? 57)) with true.
    + f_equal. lia.
    + symmetry. apply andb_true_iff. split; apply N.leb_le; lia.
  - apply N.ltb_ge in E. replace ((48 <=? 87 + n) && (87 + n <=? 57)) with false.
    + replace ((97 <=? 87 + n) && (87 + n <=? 102)) with true.
      * f_equal. lia.
      * symmetry. apply andb_true_iff. split; apply N.leb_le; lia.
    + symmetry. apply andb_false_iff. right. apply N.leb_gt. lia.
Qed.

Definition cont (c : list N) (r : list N) : option (list N * list N) :=
  match parse_str r with Some (t, r') => Some (c ++ t, r') | None => None end.

Lemma parse_str_u : forall a b c d r cp bytes, unhex4 a b c d = Some cp -> utf8 cp = Some bytes ->
  parse_str (92 :: 117 :: a :: b :: c :: d :: r) = cont bytes r.
Proof. intros a b c d r cp bytes H1 H2. cbn [parse_str N.eqb Pos.eqb]. rewrite H1, H2. reflexivity. Qed.

Lemma parse_esc_byte : forall c tail, parse_str (esc_byte c ++ tail) = cont [c] tail.
Proof.
  intros c tail. unfold esc_byte, cont.
  destruct ((c =? 34) || (c =? 92)) eqn:E1.
  { apply orb_true_iff in E1. destruct E1 as [E|E]; apply N.eqb_eq in E; subst c; reflexivity. }
  apply orb_false_iff in E1. destruct E1 as [E1 E2].
  destruct (c =? 10) eqn:E3. { apply N.eqb_eq in E3. subst c. reflexivity. }
  destruct (c =? 13) eqn:E4. { apply N.eqb_eq in E4. subst c. reflexivity. }
  destruct (c =? 9) eqn:E5. { apply N.eqb_eq in E5. subst c. reflexivity. }
  destruct (c <? 32) eqn:E6.
  - apply N.ltb_lt in E6. cbn [app].
    rewrite (parse_str_u 48 48 (hexd (c / 16)) (hexd (c mod 16)) tail c [c]); [reflexivity | |].
    + unfold unhex4. change (unhex 48) with (Some 0).
      rewrite !unhex_hexd.
      * f_equal. pose proof (N.div_mod c 16 ltac:(lia)). lia.
      * apply N.mod_lt. lia.
      * apply N.div_lt_upper_bound; lia.
    + unfold utf8. replace (c <? 128) with true; [reflexivity|]. symmetry. apply N.ltb_lt. lia.
  - cbn [app]. apply N.ltb_ge in E6. rewrite parse_str_raw; [reflexivity | assumption | assumption | apply N.eqb_neq; lia].
Qed.

(** the parser reads back what the marshaller wrote — for valid UTF-8 (an invalid byte comes back as U+FFFD) *)
Lemma parse_str_esc_u_n : forall n s copy rest, (length s <= n)%nat -> utf8_ok_u copy s = true ->
  parse_str (esc_u copy 0 s ++ 34 :: rest) = Some (s, rest).
Proof.
  induction n as [|n IH]; intros s copy rest Hn Hok.
  - destruct s; [|cbn in Hn; lia]. destruct copy; [reflexivity | discriminate Hok].
  - destruct s as [|c t]; [destruct copy; [reflexivity | discriminate Hok]|]. cbn [length] in Hn.
    rewrite esc_u_cons. cbn [utf8_ok_u] in Hok. destruct (c <? 128) eqn:E.
    + destruct copy; [|discriminate Hok]. rewrite <- app_assoc, parse_esc_byte. unfold cont. rewrite IH by (lia || exact Hok). reflexivity.
    + apply N.ltb_ge in E.
      assert (Hraw : forall k, utf8_ok_u k t = true -> parse_str ((c :: esc_u k 0 t) ++ 34 :: rest) = Some (c :: t, rest)).
      { intros k Hk. cbn [app]. rewrite parse_str_raw by (apply N.eqb_neq; lia). rewrite IH by (lia || exact Hk). reflexivity. }
      destruct copy as [|k]; [|apply Hraw; exact Hok].
      destruct (vprefix c t) as [|m] eqn:Ev; [discriminate Hok|].
      destruct (is_lsep c t) eqn:El; [|apply Hraw; exact Hok].
      unfold is_lsep in El. destruct t as [|c2 [|c3 t']]; try discriminate El.
      apply andb_true_iff in El. destruct El as [El E3]. apply andb_true_iff in El. destruct El as [E1 E2].
      apply N.eqb_eq in E1, E2. subst c c2.
      assert (Hm : m = 2%nat /\ utf8_ok_u 0 t' = true).
      { apply orb_true_iff in E3. destruct E3 as [E3|E3]; apply N.eqb_eq in E3; subst c3; cbn in Ev; injection Ev as <-; cbn in Hok; tauto. }
      destruct Hm as [-> Hok'].
      assert (Hr : parse_str (esc_u 0 0 t' ++ 34 :: rest) = Some (t', rest)) by (apply IH; [cbn [length] in Hn; lia | exact Hok']).
      cbn [lsep_esc]. change (esc_u 0 2 (128 :: c3 :: t')) with (esc_u 0 0 t').
      apply orb_true_iff in E3. destruct E3 as [E3|E3]; apply N.eqb_eq in E3; subst c3; cbn [N.eqb Pos.eqb app].
      * rewrite (parse_str_u 50 48 50 56 _ 8232 [226; 128; 168]) by reflexivity. unfold cont. rewrite Hr. reflexivity.
      * rewrite (parse_str_u 50 48 50 57 _ 8233 [226; 128; 169]) by reflexivity. unfold cont. rewrite Hr. reflexivity.
Qed.
Lemma parse_str_esc : forall s rest, utf8_ok s = true -> parse_str (esc_string s ++ 34 :: rest) = Some (s, rest).
Proof. intros s rest H. apply (parse_str_esc_u_n (length s)); [lia | exact H]. Qed.



Fixpoint size (v : jvalue) : nat :=
  match v with
  | JArr l => S (list_sum (map size l))
  | JObj m => S (list_sum (map (fun kv => size (snd kv)) m))
  | _ => 1%nat
  end.
Lemma size_pos : forall v, (1 <= size v)%nat.
Proof. destruct v; cbn [size]; lia. Qed.

Definition follow_ok (v : jvalue) (rest : list N) : Prop :=
  match v with JNum _ => nonum rest | _ => True end.

Lemma skip_ws_nows : forall c r, is_jws c = false -> skip_ws (c :: r) = c :: r.
Proof. intros c r H. cbn [skip_ws]. rewrite H. reflexivity. Qed.

Lemma jparse_f_S : forall f c r, is_jws c = false -> jparse_f (S f) (c :: r) =
      if c =? 34 then match parse_str r with Some (t, r') => Some (JStr t, r') | None => None end
      else if c =? 91 then
        match skip_ws r with
        | c2 :: r2 => if c2 =? 93 then Some (JArr [], r2)
                      else match parse_elems (jparse_f f) f r with Some (l, r') => Some (JArr l, r') | None => None end
        | [] => None
        end
      else if c =? 123 then
        match skip_ws r with
        | c2 :: r2 => if c2 =? 125 then Some (JObj [], r2)
                      else match parse_members (jparse_f f) f r with Some (l, r') => Some (JObj l, r') | None => None end
        | [] => None
        end
      else if numchar c then
        let (t, r') := span_num (c :: r) in if numtok t then Some (JNum t, r') else None
      else match strip lit_null (c :: r) with Some r' => Some (JNull, r') | None =>
           match strip lit_true (c :: r) with Some r' => Some (JBool true, r') | None =>
           match strip lit_false (c :: r) with Some r' => Some (JBool false, r') | None => None end end end.
Proof. intros f c r H. cbn [jparse_f]. rewrite skip_ws_nows by exact H. reflexivity. Qed.

(** first byte of a serialised value *)
Definition headc (c : N) : bool := negb (c =? 93) && negb (c =? 125) && negb (c =? 44).
Lemma numchar_head : forall c, numchar c = true -> (c =? 34) = false /\ (c =? 91) = false /\ (c =? 123) = false /\ (c =? 93) = false /\ is_jws c = false.
Proof.
  intros c H. unfold numchar in H. unfold is_jws.
  repeat (apply orb_true_iff in H; destruct H as [H|H]);
    try (apply N.eqb_eq in H; subst; repeat split; reflexivity).
  apply andb_true_iff in H. destruct H as [H1 H2]. apply N.leb_le in H1, H2.
  repeat split; try (apply N.eqb_neq; lia). repeat (apply orb_false_iff; split); apply N.eqb_neq; lia.
Qed.
Lemma ser_head : forall v, wfv v = true -> exists c t, ser v = c :: t /\ (c =? 93) = false /\ is_jws c = false.
Proof.
  intros v H. destruct v as [| [|] | tok | s | l | m]; cbn [ser]; try (eexists; eexists; split; [reflexivity | split; reflexivity]).
  cbn [wfv] in H. pose proof (numtok_numchar _ H) as Hc. destruct tok as [|c t]; [discriminate H|].
  cbn [forallb] in Hc. apply andb_true_iff in Hc. destruct Hc as [Hc _].
  exists c, t. split; [reflexivity|]. destruct (numchar_head c Hc) as (_ & _ & _ & H4 & H5). split; assumption.
Qed.

Lemma join_cons2 : forall sep (x y : list N) ys, join sep (x :: y :: ys) = x ++ sep :: join sep (y :: ys).
Proof. reflexivity. Qed.
Section Lists.
  Variable pv : list N -> option (jvalue * list N).
  Lemma parse_elems_ok : forall l n rest, l <> [] -> (length l <= n)%nat ->
    (forall v, In v l -> forall rest', nonum rest' -> pv (ser v ++ rest') = Some (v, rest')) ->
    parse_elems pv n (join 44 (map ser l) ++ 93 :: rest) = Some (l, rest).
  Proof.
    induction l as [|v l IH]; intros n rest Hne Hn Hpv; [congruence|].
    destruct n as [|n]; [cbn in Hn; lia|]. cbn [length] in Hn.
    destruct l as [|v2 l'].
    - cbn [map join]. cbn [parse_elems]. rewrite Hpv; [| left; reflexivity | reflexivity]. reflexivity.
    - cbn [map]. rewrite join_cons2. change (ser v2 :: map ser l') with (map ser (v2 :: l')).
      remember (v2 :: l') as l2.
      rewrite <- app_assoc. cbn [app parse_elems]. rewrite Hpv; [| left; reflexivity | reflexivity].
      cbn [skip_ws is_jws orb N.eqb Pos.eqb]. rewrite IH; [reflexivity | subst l2; discriminate | subst l2; cbn [length] in *; lia |].
      intros v' Hv'. apply Hpv. right. exact Hv'.
  Qed.

  Definition ser_member (kv : list N * jvalue) : list N := match kv with (k, x) => ser_str k ++ 58 :: ser x end.
  Lemma parse_members_ok : forall m n rest, m <> [] -> (length m <= n)%nat ->
    (forall kv, In kv m -> utf8_ok (fst kv) = true) ->
    (forall kv, In kv m -> forall rest', nonum rest' -> pv (ser (snd kv) ++ rest') = Some (snd kv, rest')) ->
    parse_members pv n (join 44 (map ser_member m) ++ 125 :: rest) = Some (m, rest).
  Proof.
    induction m as [|[k v] m IH]; intros n rest Hne Hn Hku Hpv; [congruence|].
    destruct n as [|n]; [cbn in Hn; lia|]. cbn [length] in Hn.
    assert (Hone : forall tail c, nonum (c :: tail) -> is_jws c = false ->
      parse_members pv (S n) (ser_member (k, v) ++ c :: tail) =
        if c =? 125 then Some ([(k, v)], tail)
        else if c =? 44 then match parse_members pv n tail with Some (l, r') => Some ((k, v) :: l, r') | None => None end
        else None).
    { intros tail c Hc Hws. unfold ser_member, ser_str. cbn [app parse_members skip_ws is_jws orb N.eqb Pos.eqb].
      rewrite <- !app_assoc. cbn [app]. rewrite parse_str_esc by (apply (Hku (k, v)); left; reflexivity). cbn [skip_ws is_jws orb N.eqb Pos.eqb].
      rewrite (Hpv (k, v)); [| left; reflexivity | exact Hc]. cbn [snd]. rewrite skip_ws_nows by exact Hws. reflexivity. }
    destruct m as [|kv2 m'].
    - cbn [map join]. rewrite Hone by reflexivity. reflexivity.
    - cbn [map]. rewrite join_cons2. change (ser_member kv2 :: map ser_member m') with (map ser_member (kv2 :: m')).
      remember (kv2 :: m') as m2.
      rewrite <- app_assoc. cbn [app]. rewrite Hone by reflexivity. cbn [N.eqb Pos.eqb].
      rewrite IH; [reflexivity | subst m2; discriminate | subst m2; cbn [length] in *; lia | |].
      + intros kv' Hkv'. apply Hku. right. exact Hkv'.
      + intros kv' Hkv'. apply Hpv. right. exact Hkv'.
  Qed.
End Lists.

Lemma list_sum_ge : forall (A : Type) (f : A -> nat) l, (forall x, 1 <= f x)%nat -> (length l <= list_sum (map f l))%nat.
Proof. intros A f l Hf. induction l as [|x l IH]; [cbn; lia|]. cbn [map list_sum length fold_right]. specialize (Hf x). unfold list_sum in IH. lia. Qed.
Lemma list_sum_in : forall (A : Type) (f : A -> nat) l x, In x l -> (f x <= list_sum (map f l))%nat.
Proof. intros A f l x H. induction l as [|y l IH]; [destruct H|]. cbn [map list_sum fold_right]. unfold list_sum in IH. destruct H as [->|H]; [lia | specialize (IH H); lia]. Qed.

Lemma jparse_f_ser : forall v, wfv v = true -> utf8v v = true -> forall fuel rest, (size v <= fuel)%nat -> follow_ok v rest ->
  jparse_f fuel (ser v ++ rest) = Some (v, rest).
Proof.
  induction v using jvalue_ind'; intros Hwf Hu fuel rest Hf Hfo; (destruct fuel as [|f]; [pose proof (size_pos JNull); cbn [size] in Hf; lia|]).
  - reflexivity.
  - destruct b; reflexivity.
  - cbn [wfv] in Hwf. pose proof (numtok_numchar _ Hwf) as Hc. cbn [ser].
    destruct t as [|c t]; [discriminate Hwf|]. cbn [app].
    pose proof Hc as Hc'. cbn [forallb] in Hc'. apply andb_true_iff in Hc'. destruct Hc' as [Hc1 _].
    destruct (numchar_head c Hc1) as (E1 & E2 & E3 & _ & E5). rewrite jparse_f_S by exact E5. rewrite E1, E2, E3, Hc1.
    change (c :: t ++ rest) with ((c :: t) ++ rest). rewrite span_num_app; [| exact Hc | exact Hfo]. rewrite Hwf. reflexivity.
  - cbn [ser]. unfold ser_str. cbn [app]. rewrite jparse_f_S by reflexivity. cbn [N.eqb Pos.eqb]. rewrite <- app_assoc. cbn [app].
    rewrite parse_str_esc by exact Hu. reflexivity.
  - cbn [ser]. cbn [app]. rewrite jparse_f_S by reflexivity. cbn [N.eqb Pos.eqb]. cbn [wfv] in Hwf. rewrite forallb_forall in Hwf.
    cbn [utf8v] in Hu. rewrite forallb_forall in Hu.
    destruct l as [|v l']; [reflexivity|]. remember (v :: l') as l.
    assert (Hhd : exists c t, join 44 (map ser l) = c :: t /\ (c =? 93) = false /\ is_jws c = false).
    { subst l. destruct (ser_head v) as (c & t & Ht & Hc); [apply Hwf; left; reflexivity|].
      destruct l' as [|v2 l''].
      - cbn [map join]. rewrite Ht. eexists; eexists; (split; [reflexivity | exact Hc]).
      - cbn [map]. rewrite join_cons2. rewrite Ht. cbn [app]. eexists; eexists; (split; [reflexivity | exact Hc]). }
    destruct Hhd as (c & t & Ht & Hc & Hws). rewrite <- app_assoc. cbn [app].
    destruct (join 44 (map ser l) ++ 93 :: rest) as [|c2 r2] eqn:Eb; [rewrite Ht in Eb; discriminate Eb|].
    assert (c2 = c) by (rewrite Ht in Eb; cbn [app] in Eb; congruence). subst c2.
    rewrite skip_ws_nows by exact Hws. rewrite Hc. rewrite <- Eb.
    cbn [size] in Hf.
    rewrite parse_elems_ok; [reflexivity | subst l; discriminate | pose proof (list_sum_ge _ size l size_pos); lia |].
    intros x Hx rest' Hr. rewrite Forall_forall in H. apply H; [exact Hx | apply Hwf; exact Hx | apply Hu; exact Hx | | destruct x; exact I || exact Hr].
    pose proof (list_sum_in _ size l x Hx). lia.
  - cbn [ser]. cbn [app]. rewrite jparse_f_S by reflexivity. cbn [N.eqb Pos.eqb]. cbn [wfv] in Hwf. rewrite forallb_forall in Hwf.
    cbn [utf8v] in Hu. rewrite forallb_forall in Hu.
    destruct m as [|kv m']; [reflexivity|]. remember (kv :: m') as m0.
    fold ser_member.
    assert (Hhd : exists t, join 44 (map ser_member m0) = 34 :: t).
    { subst m0. destruct kv as [k v]. destruct m' as [|kv2 m''].
      - cbn [map join]. unfold ser_member, ser_str. cbn [app]. eexists; reflexivity.
      - cbn [map]. rewrite join_cons2. unfold ser_member at 1, ser_str. cbn [app]. eexists; reflexivity. }
    destruct Hhd as (t & Ht). rewrite <- app_assoc. cbn [app].
    destruct (join 44 (map ser_member m0) ++ 125 :: rest) as [|c2 r2] eqn:Eb; [rewrite Ht in Eb; discriminate Eb|].
    assert (c2 = 34) by (rewrite Ht in Eb; cbn [app] in Eb; congruence). subst c2.
    rewrite skip_ws_nows by reflexivity. cbn [N.eqb Pos.eqb]. rewrite <- Eb.
    cbn [size] in Hf.
    rewrite parse_members_ok; [reflexivity | subst m0; discriminate | pose proof (list_sum_ge _ (fun kv => size (snd kv)) m0 (fun kv => size_pos (snd kv))); lia | |].
    { intros x Hx. specialize (Hu x Hx). apply andb_true_iff in Hu. tauto. }
    intros x Hx rest' Hr. rewrite Forall_forall in H.
    apply H; [exact Hx | apply Hwf; exact Hx | specialize (Hu x Hx); apply andb_true_iff in Hu; tauto | | destruct (snd x); exact I || exact Hr].
    pose proof (list_sum_in _ (fun kv => size (snd kv)) m0 x Hx). cbn beta in H0. lia.
Qed.


Lemma join_length : forall sep ls, (list_sum (map (@length N) ls) <= length (join sep ls))%nat.
Proof.
  intros sep ls. induction ls as [|x r IH]; [cbn; lia|].
  destruct r as [|y r'].
  - cbn. lia.
  - rewrite join_cons2. rewrite app_length. cbn [length map list_sum fold_right] in *. unfold list_sum in IH. lia.
Qed.
Lemma list_sum_le : forall (A : Type) (f g : A -> nat) l, (forall x, In x l -> f x <= g x)%nat ->
  (list_sum (map f l) <= list_sum (map g l))%nat.
Proof.
  intros A f g l H. induction l as [|x l IH]; [cbn; lia|]. cbn [map list_sum fold_right].
  assert (H1 := H x (or_introl eq_refl)). assert (H2 : (list_sum (map f l) <= list_sum (map g l))%nat) by (apply IH; intros; apply H; right; assumption).
  unfold list_sum in H2. lia.
Qed.
Lemma size_le_ser : forall v, wfv v = true -> (size v <= length (ser v))%nat.
Proof.
  induction v using jvalue_ind'; intros Hwf; cbn [size ser].
  - cbn; lia.
  - destruct b; cbn; lia.
  - cbn [wfv] in Hwf. destruct t; [discriminate Hwf | cbn [length]; lia].
  - unfold ser_str. cbn [length]. lia.
  - cbn [wfv] in Hwf. rewrite forallb_forall in Hwf. cbn [length]. rewrite app_length. cbn [length].
    pose proof (join_length 44 (map ser l)) as Hj. rewrite map_map in Hj.
    assert (Hs : (list_sum (map size l) <= list_sum (map (fun x => length (ser x)) l))%nat).
    { apply list_sum_le. intros x Hx. rewrite Forall_forall in H. apply H; auto. }
    lia.
  - cbn [wfv] in Hwf. rewrite forallb_forall in Hwf. cbn [length]. rewrite app_length. cbn [length].
    fold ser_member.
    pose proof (join_length 44 (map ser_member m)) as Hj. rewrite map_map in Hj.
    assert (Hs : (list_sum (map (fun kv => size (snd kv)) m) <= list_sum (map (fun x => length (ser_member x)) m))%nat).
    { apply list_sum_le. intros [k x] Hx. rewrite Forall_forall in H. specialize (H (k, x) Hx (Hwf (k, x) Hx)). cbn [snd] in *.
      unfold ser_member. rewrite app_length. cbn [length]. lia. }
    lia.
Qed.

Theorem jparse_ser : forall v rest, wfv v = true -> utf8v v = true -> follow_ok v rest -> jparse (ser v ++ rest) = Some (v, rest).
Proof.
  intros v rest Hwf Hu Hfo. unfold jparse. apply jparse_f_ser; [exact Hwf | exact Hu | | exact Hfo].
  rewrite app_length. pose proof (size_le_ser v Hwf). lia.
Qed.
Theorem jparse_ser_obj : forall o rest, wfv (JObj o) = true -> utf8v (JObj o) = true -> jparse (ser (JObj o) ++ rest) = Some (JObj o, rest).
Proof. intros. apply jparse_ser; [assumption | assumption | exact I]. Qed.

(** * Round 2: decoding into a Go map (member order, duplicate keys, float64 numbers) *)


Lemma nlist_eqb_eq : forall a b, nlist_eqb a b = true -> a = b.
Proof.
  induction a as [|x a IH]; intros [|y b] H; try discriminate; [reflexivity|].
  cbn [nlist_eqb] in H. apply andb_true_iff in H. destruct H as [H1 H2]. apply N.eqb_eq in H1. subst. f_equal. auto.
Qed.
Lemma nlist_eqb_refl : forall a, nlist_eqb a a = true.
Proof. induction a as [|x a IH]; [reflexivity|]. cbn [nlist_eqb]. rewrite N.eqb_refl, IH. reflexivity. Qed.

Lemma ins_in : forall kv m x, In x (ins kv m) -> x = kv \/ In x m.
Proof.
  intros kv m. induction m as [|kv' m IH]; intros x H.
  - cbn in H. destruct H as [H|[]]. left. congruence.
  - cbn [ins] in H. destruct (key_ltb (fst kv) (fst kv')).
    + destruct H as [H|H]; [left; congruence | right; exact H].
    + destruct (key_ltb (fst kv') (fst kv)).
      * destruct H as [H|H]; [right; left; exact H|]. destruct (IH x H) as [H'|H']; [left; exact H' | right; right; exact H'].
      * right. exact H.
Qed.

Lemma keys_sorted_cons : forall k ks, keys_sorted (k :: ks) = match ks with k2 :: _ => key_ltb k k2 && keys_sorted ks | [] => true end.
Proof. reflexivity. Qed.

Lemma keys_sorted_tail : forall k ks, keys_sorted (k :: ks) = true -> keys_sorted ks = true.
Proof. intros k ks H. rewrite keys_sorted_cons in H. destruct ks; [reflexivity|]. apply andb_true_iff in H. tauto. Qed.
Lemma ins_head : forall kv m, exists x r, ins kv m = x :: r /\ (fst x = fst kv \/ match m with y :: _ => x = y | [] => False end).
Proof.
  intros kv [|kv' m]; cbn [ins].
  - eexists; eexists; split; [reflexivity | left; reflexivity].
  - destruct (key_ltb (fst kv) (fst kv')); [eexists; eexists; split; [reflexivity | left; reflexivity]|].
    destruct (key_ltb (fst kv') (fst kv)); eexists; eexists; (split; [reflexivity | right; reflexivity]).
Qed.

Lemma ins_sorted : forall kv m, keys_sorted (map fst m) = true -> keys_sorted (map fst (ins kv m)) = true.
Proof.
  intros kv m. induction m as [|kv' m IH]; intros H; [reflexivity|].
  cbn [ins]. destruct (key_ltb (fst kv) (fst kv')) eqn:E1.
  - cbn [map]. rewrite keys_sorted_cons. cbn [map] in H. rewrite E1, H. reflexivity.
  - destruct (key_ltb (fst kv') (fst kv)) eqn:E2; [|exact H].
    cbn [map] in *. rewrite keys_sorted_cons in H.
    assert (Ht : keys_sorted (map fst m) = true).
    { destruct (map fst m); [reflexivity|]. apply andb_true_iff in H. tauto. }
    specialize (IH Ht). rewrite keys_sorted_cons.
    destruct (ins_head kv m) as (x & r & Hx & Hd). rewrite Hx in *. cbn [map] in *. rewrite IH, andb_true_r.
    destruct Hd as [Hd|Hd]; [rewrite Hd; exact E2|].
    destruct m as [|y m']; [destruct Hd|]. subst x. cbn [map] in H. apply andb_true_iff in H. tauto.
Qed.

Section NormFacts.
  Variable renum : list N -> list N.
  Hypothesis renum_tok : forall t, numtok t = true -> numtok (renum t) = true.

  Definition nfold (m : list (list N * jvalue)) := fold_right (fun kv acc => ins (fst kv, norm renum (snd kv)) acc) [] m.
  Lemma nfold_sorted : forall m, keys_sorted (map fst (nfold m)) = true.
  Proof. induction m as [|kv m IH]; [reflexivity|]. cbn [nfold fold_right]. apply ins_sorted. exact IH. Qed.
  Lemma nfold_in : forall m x, In x (nfold m) -> exists kv, In kv m /\ x = (fst kv, norm renum (snd kv)).
  Proof.
    induction m as [|kv m IH]; intros x H; [destruct H|]. cbn [nfold fold_right] in H.
    apply ins_in in H. destruct H as [H|H]; [exists kv; split; [left; reflexivity | exact H]|].
    destruct (IH x H) as (kv' & H1 & H2). exists kv'. split; [right; exact H1 | exact H2].
  Qed.

  Lemma norm_canon : forall v, canon (norm renum v) = true.
  Proof.
    induction v using jvalue_ind'; cbn [norm canon]; try reflexivity.
    - apply forallb_forall. intros x Hx. apply in_map_iff in Hx. destruct Hx as (y & <- & Hy). rewrite Forall_forall in H. auto.
    - fold (nfold m). rewrite nfold_sorted. cbn [andb]. apply forallb_forall. intros x Hx.
      destruct (nfold_in m x Hx) as (kv & Hkv & ->). cbn [snd]. rewrite Forall_forall in H. auto.
  Qed.
  Lemma norm_wfv : forall v, wfv v = true -> wfv (norm renum v) = true.
  Proof.
    induction v using jvalue_ind'; intros Hwf; cbn [norm wfv]; try reflexivity.
    - apply renum_tok. exact Hwf.
    - cbn [wfv] in Hwf. rewrite forallb_forall in Hwf. apply forallb_forall. intros x Hx. apply in_map_iff in Hx.
      destruct Hx as (y & <- & Hy). rewrite Forall_forall in H. auto.
    - cbn [wfv] in Hwf. rewrite forallb_forall in Hwf. fold (nfold m). apply forallb_forall. intros x Hx.
      destruct (nfold_in m x Hx) as (kv & Hkv & ->). cbn [snd]. rewrite Forall_forall in H. auto.
  Qed.

  (** a canonical value whose number tokens are fixed by [renum] is its own normal form *)
  Lemma norm_fixed : forall v, canon v = true -> numfixed renum v = true -> norm renum v = v.
  Proof.
    induction v using jvalue_ind'; intros Hc Hn; cbn [norm]; try reflexivity.
    - cbn [numfixed] in Hn. apply nlist_eqb_eq in Hn. rewrite Hn. reflexivity.
    - f_equal. cbn [canon numfixed] in *. rewrite forallb_forall in Hc, Hn. rewrite <- (map_id l) at 2. apply map_ext_in.
      intros x Hx. rewrite Forall_forall in H. auto.
    - f_equal. cbn [canon numfixed] in *. apply andb_true_iff in Hc. destruct Hc as [Hs Hc]. rewrite forallb_forall in Hc, Hn.
      rewrite Forall_forall in H. fold (nfold m).
      induction m as [|kv m IHm]; [reflexivity|]. cbn [nfold fold_right]. fold (nfold m).
      rewrite IHm.
      + rewrite H; [| left; reflexivity | apply Hc; left; reflexivity | apply Hn; left; reflexivity].
        replace (fst kv, snd kv) with kv by (destruct kv; reflexivity).
        destruct m as [|kv2 m']; [reflexivity|]. cbn [ins]. cbn [map] in Hs. rewrite keys_sorted_cons in Hs.
        apply andb_true_iff in Hs. destruct Hs as [Hs _]. rewrite Hs. reflexivity.
      + intros x Hx. apply H. right. exact Hx.
      + cbn [map] in Hs. apply keys_sorted_tail in Hs. exact Hs.
      + intros x Hx. apply Hc. right. exact Hx.
      + intros x Hx. apply Hn. right. exact Hx.
  Qed.
End NormFacts.


Section WfLists.
  Variable pv : list N -> option (jvalue * list N).
  Hypothesis pv_wf : forall s v r, pv s = Some (v, r) -> wfv v = true.
  Lemma parse_elems_wf : forall n s l r, parse_elems pv n s = Some (l, r) -> forallb wfv l = true.
  Proof.
    induction n as [|n IH]; intros s l r H; [discriminate H|]. cbn [parse_elems] in H.
    destruct (pv s) as [[v r0]|] eqn:E; [|discriminate H]. destruct (skip_ws r0) as [|c r1]; [discriminate H|].
    pose proof (pv_wf _ _ _ E) as Hv.
    destruct (c =? 93); [injection H as <- <-; cbn [forallb]; rewrite Hv; reflexivity|].
    destruct (c =? 44); [|discriminate H].
    destruct (parse_elems pv n r1) as [[l' r']|] eqn:E2; [|discriminate H]. injection H as <- <-.
    cbn [forallb]. rewrite Hv. exact (IH _ _ _ E2).
  Qed.
  Lemma parse_members_wf : forall n s l r, parse_members pv n s = Some (l, r) -> forallb (fun kv => wfv (snd kv)) l = true.
  Proof.
    induction n as [|n IH]; intros s l r H; [discriminate H|]. cbn [parse_members] in H.
    destruct (skip_ws s) as [|q s1]; [discriminate H|]. destruct (q =? 34); [|discriminate H].
    destruct (parse_str s1) as [[k s2]|]; [|discriminate H]. destruct (skip_ws s2) as [|col s3]; [discriminate H|].
    destruct (col =? 58); [|discriminate H].
    destruct (pv s3) as [[v r0]|] eqn:E; [|discriminate H]. destruct (skip_ws r0) as [|c r1]; [discriminate H|].
    pose proof (pv_wf _ _ _ E) as Hv.
    destruct (c =? 125); [injection H as <- <-; cbn [forallb snd]; rewrite Hv; reflexivity|].
    destruct (c =? 44); [|discriminate H].
    destruct (parse_members pv n r1) as [[l' r']|] eqn:E2; [|discriminate H]. injection H as <- <-.
    cbn [forallb snd]. rewrite Hv. exact (IH _ _ _ E2).
  Qed.
End WfLists.

Lemma jparse_f_wf : forall fuel s v r, jparse_f fuel s = Some (v, r) -> wfv v = true.
Proof.
  induction fuel as [|f IH]; intros s v r H; [discriminate H|]. cbn [jparse_f] in H.
  destruct (skip_ws s) as [|c s']; [discriminate H|].
  destruct (c =? 34). { destruct (parse_str s') as [[t r']|]; [injection H as <- <-; reflexivity | discriminate H]. }
  destruct (c =? 91).
  { destruct (skip_ws s') as [|c2 r2]; [discriminate H|]. destruct (c2 =? 93); [injection H as <- <-; reflexivity|].
    destruct (parse_elems (jparse_f f) f s') as [[l r']|] eqn:E; [|discriminate H]. injection H as <- <-.
    cbn [wfv]. exact (parse_elems_wf _ IH _ _ _ _ E). }
  destruct (c =? 123).
  { destruct (skip_ws s') as [|c2 r2]; [discriminate H|]. destruct (c2 =? 125); [injection H as <- <-; reflexivity|].
    destruct (parse_members (jparse_f f) f s') as [[l r']|] eqn:E; [|discriminate H]. injection H as <- <-.
    cbn [wfv]. exact (parse_members_wf _ IH _ _ _ _ E). }
  destruct (numchar c).
  { destruct (span_num (c :: s')) as [t r']. destruct (numtok t) eqn:E; [injection H as <- <-; exact E | discriminate H]. }
  destruct (strip lit_null (c :: s')); [injection H as <- <-; reflexivity|].
  destruct (strip lit_true (c :: s')); [injection H as <- <-; reflexivity|].
  destruct (strip lit_false (c :: s')); [injection H as <- <-; reflexivity | discriminate H].
Qed.

Lemma jdec0_ser : forall v, wfv v = true -> utf8v v = true -> jdec0 (ser v) = Some v.
Proof.
  intros v H Hu. unfold jdec0. rewrite <- (app_nil_r (ser v)). rewrite jparse_ser; [reflexivity | exact H | exact Hu | destruct v; exact I].
Qed.
Lemma jdec0_wf : forall t v, jdec0 t = Some v -> wfv v = true.
Proof.
  intros t v H. unfold jdec0, jparse in H. destruct (jparse_f (S (length t)) t) as [[v' [|c r]]|] eqn:E; try discriminate H.
  injection H as <-. exact (jparse_f_wf _ _ _ _ E).
Qed.

Section Dec.
  Variable renum : list N -> list N.
  Hypothesis renum_tok : forall t, numtok t = true -> numtok (renum t) = true.

  (** what the decoder returns is well formed and canonical *)
  Lemma jdec_wf_canon : forall t v, jdec renum t = Some v -> wfv v = true /\ canon v = true.
  Proof.
    intros t v H. unfold jdec in H. destruct (jdec0 t) as [v0|] eqn:E; [|discriminate H]. injection H as <-.
    split; [apply norm_wfv; [exact renum_tok | exact (jdec0_wf _ _ E)] | apply norm_canon].
  Qed.
  (** the decoder inverts the marshaller on canonical values whose number tokens are [renum]-fixed *)
  Lemma jdec_ser : forall v, wfv v = true -> utf8v v = true -> canon v = true -> numfixed renum v = true -> jdec renum (ser v) = Some v.
  Proof. intros v H1 Hu H2 H3. unfold jdec. rewrite jdec0_ser by assumption. rewrite norm_fixed by assumption. reflexivity. Qed.

  (** re-parsing a formatted header never changes or loses annotations, for ANY title line the parser accepts *)
  Theorem reparse_keeps : forall h m d, parse_header (jdec renum) h = HObject (JObj m) d -> numfixed renum (JObj m) = true ->
    utf8v (JObj m) = true -> parse_header (jdec renum) (ser (JObj m)) = HObject (JObj m) [].
  Proof.
    intros h m d H Hn Hu. unfold parse_header in H. destruct (scan_obj h) as [[a b]|]; [|discriminate H].
    destruct (jdec renum (slice a b h)) as [v|] eqn:E; [|discriminate H]. injection H as -> _.
    destruct (jdec_wf_canon _ _ E) as [Hw Hc].
    apply parse_header_formatted; [exact Hw | apply jdec_ser; assumption].
  Qed.
End Dec.

Lemma numfixed_id : forall v, numfixed (fun t => t) v = true.
Proof.
  induction v using jvalue_ind'; cbn [numfixed]; try reflexivity.
  - apply nlist_eqb_refl.
  - apply forallb_forall. rewrite Forall_forall in H. exact H.
  - apply forallb_forall. rewrite Forall_forall in H. exact H.
Qed.

(** * Round 2: the number path on integer tokens *)


Notation isd := isdig.
Lemma isd_spec : forall c, isd c = true -> 48 <= c <= 57.
Proof. intros c H. unfold isdig in H. apply andb_true_iff in H. destruct H as [H1 H2]. apply N.leb_le in H1, H2. lia. Qed.

Lemma dval_snoc : forall ds d, dval (ds ++ [d]) = dval ds * 10 + (d - 48).
Proof. intros. unfold dval. rewrite fold_left_app. reflexivity. Qed.

(** canonical digit string: digits only, no leading zero unless it is "0" *)
Definition canon_digits (ds : list N) : bool :=
  all_digits ds && match ds with [] => false | [_] => true | c :: _ => negb (c =? 48) end.

Lemma dval_pos : forall ds, all_digits ds = true -> (match ds with c :: _ => c <> 48 | [] => False end) -> 0 < dval ds.
Proof.
  intros ds. induction ds as [|d ds IH] using rev_ind; intros Hd Hh; [destruct Hh|].
  unfold all_digits in Hd. rewrite forallb_app in Hd. apply andb_true_iff in Hd. destruct Hd as [Hd1 Hd2].
  cbn [forallb] in Hd2. rewrite andb_true_r in Hd2. apply isd_spec in Hd2.
  rewrite dval_snoc. destruct ds as [|c r].
  - cbn [app] in Hh. cbn. lia.
  - cbn [app] in Hh. specialize (IH Hd1 Hh). lia.
Qed.

Lemma digits_f_dval : forall ds, canon_digits ds = true -> forall f, dval ds < 2 ^ N.of_nat f -> digits_f (S f) (dval ds) = ds.
Proof.
  intros ds. induction ds as [|d ds IH] using rev_ind; intros Hc f Hf; [discriminate Hc|].
  unfold canon_digits in Hc. apply andb_true_iff in Hc. destruct Hc as [Hd Hh].
  pose proof Hd as Hd'. unfold all_digits in Hd'. rewrite forallb_app in Hd'. apply andb_true_iff in Hd'. destruct Hd' as [Hd1 Hd2].
  cbn [forallb] in Hd2. rewrite andb_true_r in Hd2. apply isd_spec in Hd2.
  rewrite dval_snoc in *. destruct ds as [|c r].
  - cbn [dval fold_left app]. cbn [digits_f]. replace (0 * 10 + (d - 48) <? 10) with true by (symmetry; apply N.ltb_lt; lia).
    f_equal. lia.
  - assert (Hc0 : c <> 48).
    { cbn [app] in Hh. destruct (r ++ [d]) eqn:E; [destruct r; discriminate E|]. apply negb_true_iff, N.eqb_neq in Hh. exact Hh. }
    assert (Hpos : 0 < dval (c :: r)) by (apply dval_pos; [exact Hd1 | exact Hc0]).
    set (v := dval (c :: r)) in *. cbn [digits_f].
    replace (v * 10 + (d - 48) <? 10) with false by (symmetry; apply N.ltb_ge; lia).
    assert (Hq : (v * 10 + (d - 48)) / 10 = v).
    { symmetry. apply (N.div_unique _ _ _ (d - 48)); lia. }
    assert (Hm : (v * 10 + (d - 48)) mod 10 = d - 48).
    { symmetry. apply (N.mod_unique _ _ v); lia. }
    rewrite Hq, Hm. destruct f as [|f'].
    { change (2 ^ N.of_nat 0) with 1 in Hf. lia. }
    rewrite IH.
    + f_equal. f_equal. lia.
    + unfold canon_digits, all_digits. rewrite Hd1. cbn [andb]. destruct r; [reflexivity|]. apply negb_true_iff, N.eqb_neq. exact Hc0.
    + rewrite Nat2N.inj_succ, N.pow_succ_r' in Hf. lia.
Qed.

Lemma digits_dval : forall ds, canon_digits ds = true -> digits (dval ds) = ds.
Proof.
  intros ds H. unfold digits. apply digits_f_dval; [exact H|]. rewrite N2Nat.id. apply N.size_gt.
Qed.

Lemma size_le_53 : forall n, n < 2 ^ 53 -> (N.size n <=? 53) = true.
Proof.
  intros n H. apply N.leb_le. pose proof (N.size_le n) as H1.
  destruct (N.le_gt_cases (N.size n) 53) as [Hle|Hgt]; [exact Hle|]. exfalso.
  assert (2 ^ 54 <= 2 ^ N.size n) by (apply N.pow_le_mono_r; lia).
  assert (N.succ_double n < 2 ^ 54).
  { rewrite N.succ_double_spec. change (2 ^ 54) with (2 * 2 ^ 53). lia. }
  lia.
Qed.

Lemma round64_exact : forall n, n <= 2 ^ 53 -> round64 n = n.
Proof.
  intros n H. destruct (N.eq_dec n (2 ^ 53)) as [->|Hne]; [vm_compute; reflexivity|].
  unfold round64. rewrite size_le_53 by lia. reflexivity.
Qed.

(** integers up to 2^53 in absolute value, written canonically (strconv.Itoa), are fixed points of read-then-write *)
Definition small_int_tok (t : list N) : bool :=
  let (neg, ds) := split_sign t in
  canon_digits ds && (dval ds <=? 2 ^ 53) && (negb neg || negb (dval ds =? 0)).

Lemma digit_numchar : forall c, isd c = true -> numchar c = true.
Proof. intros c H. unfold numchar. unfold isdig in H. rewrite H. reflexivity. Qed.
Lemma all_digits_numchar : forall ds, all_digits ds = true -> forallb numchar ds = true.
Proof.
  intros ds H. unfold all_digits in H. rewrite forallb_forall in *. intros c Hc. apply digit_numchar. apply (H c Hc).
Qed.
Lemma num_step_3 : forall ds, all_digits ds = true -> fold_left num_step ds 3 = 3.
Proof.
  induction ds as [|c ds IH]; intros H; [reflexivity|]. cbn [all_digits forallb] in H. apply andb_true_iff in H. destruct H as [Hc H].
  cbn [fold_left]. unfold num_step at 2. rewrite Hc. apply IH. exact H.
Qed.
Lemma canon_digits_state : forall ds st, canon_digits ds = true -> st = 0 \/ st = 1 ->
  num_final (fold_left num_step ds st) = true.
Proof.
  intros ds st H Hst. unfold canon_digits in H. apply andb_true_iff in H. destruct H as [Hd Hh].
  destruct ds as [|c r]; [discriminate Hh|]. pose proof Hd as Hd'. cbn [all_digits forallb] in Hd'. apply andb_true_iff in Hd'.
  destruct Hd' as [Hc Hr]. pose proof (isd_spec c Hc) as Hc'. cbn [fold_left].
  assert (Hs : num_step st c = 3).
  { destruct Hst as [-> | ->]; unfold num_step.
    - replace (c =? 45) with false by (symmetry; apply N.eqb_neq; lia). rewrite Hc. reflexivity.
    - rewrite Hc. reflexivity. }
  rewrite Hs. rewrite num_step_3 by exact Hr. reflexivity.
Qed.
Lemma canon_digits_numtok : forall ds, canon_digits ds = true -> numtok ds = true /\ numtok (45 :: ds) = true.
Proof.
  intros ds H. pose proof H as H'. unfold canon_digits in H'. apply andb_true_iff in H'. destruct H' as [Hd _].
  unfold numtok. split.
  - rewrite all_digits_numchar by exact Hd. cbn [andb]. apply canon_digits_state; [exact H | left; reflexivity].
  - cbn [forallb fold_left]. rewrite all_digits_numchar by exact Hd. cbn [andb numchar N.eqb Pos.eqb N.leb N.compare Pos.compare Pos.compare_cont orb andb].
    change (num_step 0 45) with 1. apply canon_digits_state; [exact H | right; reflexivity].
Qed.
Lemma canon_digits_sign : forall ds, canon_digits ds = true -> split_sign ds = (false, ds).
Proof.
  intros ds H. unfold canon_digits in H. apply andb_true_iff in H. destruct H as [Hd _]. destruct ds as [|c r]; [reflexivity|].
  cbn [all_digits forallb] in Hd. apply andb_true_iff in Hd. destruct Hd as [Hc _]. apply isd_spec in Hc.
  cbn [split_sign]. replace (c =? 45) with false by (symmetry; apply N.eqb_neq; lia). reflexivity.
Qed.

Lemma fmt_small : forall n, n <= 2 ^ 53 -> fmt_nat64 n = digits n \/ n = 2 ^ 53.
Proof.
  intros n H. destruct (N.eq_dec n (2 ^ 53)) as [->|Hne]; [right; reflexivity|]. left.
  unfold fmt_nat64. rewrite size_le_53 by lia. reflexivity.
Qed.
Lemma fmt_small' : forall n, n <= 2 ^ 53 -> fmt_nat64 n = digits n.
Proof.
  intros n H. destruct (fmt_small n H) as [E| ->]; [exact E | vm_compute; reflexivity].
Qed.

Theorem small_int_fixed : forall t, small_int_tok t = true -> renum64 t = t.
Proof.
  intros t H. unfold small_int_tok in H.
  assert (Hcase : (exists ds, t = 45 :: ds /\ canon_digits ds = true /\ dval ds <= 2 ^ 53 /\ dval ds <> 0) \/
                  (canon_digits t = true /\ dval t <= 2 ^ 53)).
  { destruct t as [|c r]; [discriminate H|]. cbn [split_sign] in H. destruct (c =? 45) eqn:E.
    - apply N.eqb_eq in E. subst c. left. exists r. apply andb_true_iff in H. destruct H as [H H3]. apply andb_true_iff in H.
      destruct H as [H1 H2]. apply N.leb_le in H2. cbn [negb orb] in H3. apply negb_true_iff, N.eqb_neq in H3. tauto.
    - right. apply andb_true_iff in H. destruct H as [H _]. apply andb_true_iff in H. destruct H as [H1 H2]. apply N.leb_le in H2. tauto. }
  destruct Hcase as [(ds & -> & Hc & Hle & Hnz) | (Hc & Hle)].
  - destruct (canon_digits_numtok ds Hc) as [_ Hnt].
    pose proof Hc as Hc'. unfold canon_digits in Hc'. apply andb_true_iff in Hc'. destruct Hc' as [Hd _].
    unfold renum64. rewrite Hnt. unfold is_int_tok, renum_int. cbn [split_sign N.eqb Pos.eqb snd]. rewrite Hd.
    rewrite round64_exact by exact Hle. apply N.eqb_neq in Hnz. rewrite Hnz.
    rewrite fmt_small' by exact Hle. rewrite digits_dval by exact Hc. rewrite Hnt. reflexivity.
  - destruct (canon_digits_numtok t Hc) as [Hnt _]. pose proof (canon_digits_sign t Hc) as Hs.
    pose proof Hc as Hc'. unfold canon_digits in Hc'. apply andb_true_iff in Hc'. destruct Hc' as [Hd _].
    unfold renum64. rewrite Hnt. unfold is_int_tok, renum_int. rewrite Hs. cbn [snd]. rewrite Hd.
    rewrite round64_exact by exact Hle. rewrite fmt_small' by exact Hle. rewrite digits_dval by exact Hc. rewrite Hnt. reflexivity.
Qed.

Lemma renum64_tok : forall t, numtok t = true -> numtok (renum64 t) = true.
Proof.
  intros t H. unfold renum64. rewrite H.
  destruct (numtok (if is_int_tok t then renum_int t else renum_any t)) eqn:E; [exact E | exact H].
Qed.

(** * Round 2: re-parsing a formatted header; round trips without any hypothesis on the decoder *)


Lemma put_in : forall kv m x, In x (put kv m) -> x = kv \/ In x m.
Proof.
  intros kv m. induction m as [|kv' m IH]; intros x H.
  - cbn in H. destruct H as [H|[]]. left. congruence.
  - cbn [put] in H. destruct (key_ltb (fst kv) (fst kv')).
    + destruct H as [H|H]; [left; congruence | right; exact H].
    + destruct (key_ltb (fst kv') (fst kv)).
      * destruct H as [H|H]; [right; left; exact H|]. destruct (IH x H) as [H'|H']; [left; exact H' | right; right; exact H'].
      * destruct H as [H|H]; [left; congruence | right; right; exact H].
Qed.
Lemma put_head : forall kv m, exists x r, put kv m = x :: r /\ (fst x = fst kv \/ match m with y :: _ => x = y | [] => False end).
Proof.
  intros kv [|kv' m]; cbn [put].
  - eexists; eexists; split; [reflexivity | left; reflexivity].
  - destruct (key_ltb (fst kv) (fst kv')); [eexists; eexists; split; [reflexivity | left; reflexivity]|].
    destruct (key_ltb (fst kv') (fst kv)); eexists; eexists; (split; [reflexivity|]); [right; reflexivity | left; reflexivity].
Qed.
Lemma lex_ltb_total : forall a b, lex_ltb a b = false -> lex_ltb b a = false -> a = b.
Proof.
  induction a as [|x a IH]; intros [|y b] H1 H2; try reflexivity; try discriminate.
  cbn [lex_ltb] in *. apply orb_false_iff in H1, H2. destruct H1 as [L1 H1]. destruct H2 as [L2 H2].
  apply N.ltb_ge in L1, L2. assert (x = y) by lia. subst y. rewrite N.eqb_refl in H1, H2. cbn [andb] in H1, H2.
  f_equal. apply IH; assumption.
Qed.

Lemma put_sorted : forall kv m, keys_sorted (map fst m) = true -> keys_sorted (map fst (put kv m)) = true.
Proof.
  intros kv m. induction m as [|kv' m IH]; intros H; [reflexivity|].
  cbn [put]. destruct (key_ltb (fst kv) (fst kv')) eqn:E1.
  - cbn [map]. rewrite keys_sorted_cons. cbn [map] in H. rewrite E1, H. reflexivity.
  - destruct (key_ltb (fst kv') (fst kv)) eqn:E2.
    + cbn [map] in *. pose proof (keys_sorted_tail _ _ H) as Ht.
      specialize (IH Ht). rewrite keys_sorted_cons.
      destruct (put_head kv m) as (x & r & Hx & Hd). rewrite Hx in *. cbn [map] in *. rewrite IH, andb_true_r.
      destruct Hd as [Hd|Hd]; [rewrite Hd; exact E2|].
      destruct m as [|y m']; [destruct Hd|]. subst x. cbn [map] in H. rewrite keys_sorted_cons in H. apply andb_true_iff in H. tauto.
    + (* same encoded key: replace *)
      assert (Heq : ser_str (fst kv) = ser_str (fst kv')) by (apply lex_ltb_total; assumption).
      cbn [map] in *. rewrite keys_sorted_cons in *. destruct (map fst m) as [|k2 ks]; [reflexivity|].
      unfold key_ltb in *. rewrite Heq. exact H.
Qed.

Section Reparse.
  Variable renum : list N -> list N.
  Hypothesis renum_tok : forall t, numtok t = true -> numtok (renum t) = true.
  Let dec := jdec renum.

  Lemma read_header_formatted : forall id ann seq q, wfv (JObj ann) = true -> utf8v (JObj ann) = true -> canon (JObj ann) = true ->
    numfixed renum (JObj ann) = true -> read_header dec (mkp id (header_info ann) seq q) = RRec (mkw id ann seq q).
  Proof. intros. apply read_header_written; [assumption | apply jdec_ser; assumption]. Qed.

  Lemma put_wf_canon : forall kv m, wfv (JObj m) = true -> canon (JObj m) = true -> wfv (snd kv) = true -> canon (snd kv) = true ->
    wfv (JObj (put kv m)) = true /\ canon (JObj (put kv m)) = true.
  Proof.
    intros kv m Hw Hc Hwk Hck. cbn [wfv canon] in *. apply andb_true_iff in Hc. destruct Hc as [Hs Hc].
    rewrite forallb_forall in Hw, Hc. split.
    - apply forallb_forall. intros x Hx. apply put_in in Hx. destruct Hx as [->|Hx]; auto.
    - rewrite put_sorted by exact Hs. cbn [andb]. apply forallb_forall. intros x Hx. apply put_in in Hx. destruct Hx as [->|Hx]; auto.
  Qed.

  (** Re-parsing the formatted header of ANY record the header parser accepts gives the same record: nothing is changed,
      nothing is lost (the annotations are those decoded into the Go map: members by key, numbers as [renum] tokens;
      [numfixed]: the number tokens of the record are stable under read-then-write) *)
  Theorem reparse_record : forall p r, read_header dec p = RRec r -> numfixed renum (JObj (w_ann r)) = true ->
    utf8v (JObj (w_ann r)) = true ->
    read_header dec (mkp (p_id p) (header_info (w_ann r)) (p_seq p) (p_qual p)) = RRec r.
  Proof.
    intros p r H Hn Hu. unfold read_header in H. destruct (p_def p) as [|c0 d0] eqn:Ed.
    { injection H as <-. reflexivity. }
    remember (c0 :: d0) as d. clear Heqd.
    assert (Hgoal : forall ann, r = mkw (p_id p) ann (p_seq p) (p_qual p) -> wfv (JObj ann) = true -> canon (JObj ann) = true ->
                    read_header dec (mkp (p_id p) (header_info (w_ann r)) (p_seq p) (p_qual p)) = RRec r).
    { intros ann -> Hw Hc. cbn [w_ann] in *. apply read_header_formatted; assumption. }
    destruct (parse_header dec d) as [d' | v rest |] eqn:Ep; [| |discriminate H].
    - injection H as <-. eapply Hgoal; [reflexivity | reflexivity | reflexivity].
    - destruct v as [| | | | |m]; try discriminate H; try (destruct rest; discriminate H).
      assert (Hm : wfv (JObj m) = true /\ canon (JObj m) = true).
      { unfold parse_header in Ep. destruct (scan_obj d) as [[a b]|]; [|discriminate Ep].
        destruct (dec (slice a b d)) as [v|] eqn:E; [|discriminate Ep]. injection Ep as -> _.
        exact (jdec_wf_canon renum renum_tok _ _ E). }
      destruct Hm as [Hw Hc].
      destruct rest as [|c1 rest'].
      + injection H as <-. eapply Hgoal; [reflexivity | exact Hw | exact Hc].
      + destruct (lookup_key definition_key m) as [[| | |s| |]|]; try discriminate H; injection H as <-.
        * destruct (put_wf_canon (definition_key, JStr (s ++ 32 :: c1 :: rest')) m Hw Hc eq_refl eq_refl) as [Hw' Hc'].
          eapply Hgoal; [reflexivity | exact Hw' | exact Hc'].
        * destruct (put_wf_canon (definition_key, JStr (c1 :: rest')) m Hw Hc eq_refl eq_refl) as [Hw' Hc'].
          eapply Hgoal; [reflexivity | exact Hw' | exact Hc'].
  Qed.
End Reparse.


Section ReadBack2.
  Variable dec : list N -> option jvalue.
  (** the guessed parser and the JSON parser agree on every formatted header (an empty header included) *)
  Lemma guessed_agrees : forall id ann seq q,
    read_guessed dec (mkp id (header_info ann) seq q) = read_header dec (mkp id (header_info ann) seq q).
  Proof. intros id [|kv ann'] seq q; reflexivity. Qed.

  Lemma read_all_written2 : forall (guessed : bool) (proj : wrec -> option (list N)) l,
    forallb rec_ok l = true -> Forall (dec_inverts dec) l ->
    read_all (if guessed then read_guessed dec else read_header dec)
             (map (fun r => mkp (w_id r) (header_info (w_ann r)) (w_seq r) (proj r)) l)
    = RL (map (fun r => mkw (w_id r) (w_ann r) (w_seq r) (proj r)) l).
  Proof.
    intros guessed proj l. induction l as [|r l IH]; intros Hok Hdec; [reflexivity|].
    cbn [forallb] in Hok. apply andb_true_iff in Hok. destruct Hok as [Hr Hl].
    inversion Hdec as [|r' l' Hdr Hdl]; subst.
    cbn [map read_all].
    assert (Hh : read_header dec (mkp (w_id r) (header_info (w_ann r)) (w_seq r) (proj r)) = RRec (mkw (w_id r) (w_ann r) (w_seq r) (proj r))).
    { apply read_header_written; [apply rec_ok_wf; assumption | exact Hdr]. }
    assert (E : (if guessed then read_guessed dec else read_header dec)
                  (mkp (w_id r) (header_info (w_ann r)) (w_seq r) (proj r)) = RRec (mkw (w_id r) (w_ann r) (w_seq r) (proj r))).
    { destruct guessed; [rewrite guessed_agrees|]; exact Hh. }
    rewrite E. rewrite IH; [reflexivity | assumption | assumption].
  Qed.

  Theorem fasta_write_read2 : forall guessed shift l, l <> [] -> forallb rec_ok l = true -> Forall (dec_inverts dec) l ->
    exists text, format_batch false shift l = Ok text /\ read_file dec false guessed shift text = RL (map drop_qual l).
  Proof.
    intros guessed shift l Hne Hok Hdec. destruct (fasta_roundtrip shift l Hne Hok) as (text & Hw & Hp).
    exists text. split; [exact Hw|]. unfold read_file. rewrite Hp.
    apply (read_all_written2 guessed (fun _ => None) l Hok Hdec).
  Qed.
  Theorem fastq_write_read2 : forall guessed shift l, shift_ok shift -> l <> [] -> forallb fq_ok l = true ->
    Forall (dec_inverts dec) l ->
    exists text, format_batch true shift l = Ok text /\ read_file dec true guessed shift text = RL l.
  Proof.
    intros guessed shift l Hs Hne Hok Hdec. destruct (fastq_roundtrip shift l Hs Hne Hok) as (text & Hw & Hp).
    exists text. split; [exact Hw|]. unfold read_file. rewrite Hp.
    assert (Hok' : forallb rec_ok l = true).
    { rewrite forallb_forall in *. intros r Hr. apply fq_ok_rec_ok. auto. }
    unfold as_parsed_q. rewrite (read_all_written2 guessed w_qual l Hok' Hdec).
    f_equal. rewrite <- (map_id l) at 2. apply map_ext. intros [a b c d]. reflexivity.
  Qed.
End ReadBack2.

(** ** the decoder is the JSON parser of the model: no hypothesis left *)
Lemma dec_inverts_jdec0 : forall l, forallb rec_ok l = true -> forallb ann_utf8 l = true -> Forall (dec_inverts jdec0) l.
Proof.
  intros l H Hu. apply Forall_forall. intros r Hr. rewrite forallb_forall in H, Hu. unfold dec_inverts.
  apply jdec0_ser; [apply rec_ok_wf; auto | apply (Hu r Hr)].
Qed.
Lemma fq_ok_all_rec_ok : forall l, forallb fq_ok l = true -> forallb rec_ok l = true.
Proof. intros l H. rewrite forallb_forall in *. intros r Hr. apply fq_ok_rec_ok. auto. Qed.

Theorem header_roundtrip_j : forall o rest, wfv (JObj o) = true -> utf8v (JObj o) = true ->
  parse_header jdec0 (ser (JObj o) ++ rest) = HObject (JObj o) (trim rest).
Proof. intros. apply parse_header_roundtrip; [assumption | apply jdec0_ser; assumption]. Qed.

Theorem fasta_write_read_j : forall guessed shift l, l <> [] -> forallb rec_ok l = true -> forallb ann_utf8 l = true ->
  exists text, format_batch false shift l = Ok text /\ read_file jdec0 false guessed shift text = RL (map drop_qual l).
Proof. intros. apply fasta_write_read2; [assumption | assumption | apply dec_inverts_jdec0; assumption]. Qed.
Theorem fastq_write_read_j : forall guessed shift l, shift_ok shift -> l <> [] -> forallb fq_ok l = true -> forallb ann_utf8 l = true ->
  exists text, format_batch true shift l = Ok text /\ read_file jdec0 true guessed shift text = RL l.
Proof. intros. apply fastq_write_read2; [assumption | assumption | assumption | apply dec_inverts_jdec0; [apply fq_ok_all_rec_ok|]; assumption]. Qed.
Theorem fasta_fixed_point_j : forall guessed shift l, l <> [] -> forallb rec_ok l = true -> forallb ann_utf8 l = true ->
  exists text l', format_batch false shift l = Ok text /\ read_file jdec0 false guessed shift text = RL l'
                  /\ format_batch false shift l' = Ok text.
Proof.
  intros guessed shift l Hne Hok Hu. destruct (fasta_write_read_j guessed shift l Hne Hok Hu) as (text & Hw & Hr).
  exists text, (map drop_qual l). split; [exact Hw|]. split; [exact Hr|]. rewrite format_batch_drop_qual. exact Hw.
Qed.
Theorem fastq_fixed_point_j : forall guessed shift l, shift_ok shift -> l <> [] -> forallb fq_ok l = true -> forallb ann_utf8 l = true ->
  exists text l', format_batch true shift l = Ok text /\ read_file jdec0 true guessed shift text = RL l'
                  /\ format_batch true shift l' = Ok text.
Proof.
  intros guessed shift l Hs Hne Hok Hu. destruct (fastq_write_read_j guessed shift l Hs Hne Hok Hu) as (text & Hw & Hr).
  exists text, l. auto.
Qed.

(** ** the decoder is go-json into a Go map with float64 numbers: records must be canonical (the only member order a
    Go map can be written in) and their number tokens stable under read-then-write *)
Definition map_ok (renum : list N -> list N) (r : wrec) : bool := ann_utf8 r && canon_rec r && numfixed renum (JObj (w_ann r)).
Lemma dec_inverts_jdec : forall renum l, forallb rec_ok l = true -> forallb (map_ok renum) l = true ->
  Forall (dec_inverts (jdec renum)) l.
Proof.
  intros renum l H1 H2. apply Forall_forall. intros r Hr. rewrite forallb_forall in H1, H2. unfold dec_inverts.
  specialize (H2 r Hr). unfold map_ok in H2. apply andb_true_iff in H2. destruct H2 as [H2 Hn]. apply andb_true_iff in H2. destruct H2 as [Hu Hc].
  apply jdec_ser; [apply rec_ok_wf; auto | exact Hu | exact Hc | exact Hn].
Qed.
Theorem fasta_fixed_point_map : forall renum guessed shift l, l <> [] -> forallb rec_ok l = true -> forallb (map_ok renum) l = true ->
  exists text, format_batch false shift l = Ok text /\ read_file (jdec renum) false guessed shift text = RL (map drop_qual l)
               /\ format_batch false shift (map drop_qual l) = Ok text.
Proof.
  intros renum guessed shift l Hne Hok Hm.
  destruct (fasta_write_read2 (jdec renum) guessed shift l Hne Hok (dec_inverts_jdec renum l Hok Hm)) as (text & Hw & Hr).
  exists text. split; [exact Hw|]. split; [exact Hr|]. rewrite format_batch_drop_qual. exact Hw.
Qed.
Theorem fastq_fixed_point_map : forall renum guessed shift l, shift_ok shift -> l <> [] -> forallb fq_ok l = true ->
  forallb (map_ok renum) l = true ->
  exists text, format_batch true shift l = Ok text /\ read_file (jdec renum) true guessed shift text = RL l.
Proof.
  intros renum guessed shift l Hs Hne Hok Hm.
  apply fastq_write_read2; [assumption | assumption | assumption |].
  apply dec_inverts_jdec; [apply fq_ok_all_rec_ok; assumption | assumption].
Qed.

(** every number of the annotations is an integer |x| <= 2^53 written canonically: the float64 path changes nothing *)
Fixpoint small_ints (v : jvalue) : bool :=
  match v with
  | JNum t => small_int_tok t
  | JArr l => forallb small_ints l
  | JObj m => forallb (fun kv => small_ints (snd kv)) m
  | _ => true
  end.
Lemma small_ints_numfixed : forall v, small_ints v = true -> numfixed renum64 v = true.
Proof.
  induction v using jvalue_ind'; intros Hs; cbn [numfixed small_ints] in *; try reflexivity.
  - rewrite small_int_fixed by exact Hs. apply nlist_eqb_refl.
  - rewrite forallb_forall in *. rewrite Forall_forall in H. auto.
  - rewrite forallb_forall in *. rewrite Forall_forall in H. auto.
Qed.
