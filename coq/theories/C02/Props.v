(** C02 — property theorems (statements only; every proof is [exact] of a lemma of Proofs.v).
    Write then read round-trips records unchanged (FASTA/FASTQ + JSON title-line header).

    Vocabulary (Model.v): [ser] = go-json marshalling with HTML escaping off (number tokens are inputs);
    [wfv] = number tokens are non-empty and made of digits + - . e E; [scan_obj] = the repaired brace/quote
    scanner of _parse_json_header_ ([scan_obj_orig]: before the fix: commit); [parse_header dec] = scanner + decoder;
    [format_batch] = FormatFastaBatch / FormatFastqBatch; [parse_fasta]/[parse_fastq] = the chunk parsers' byte automata;
    [read_file dec] = chunk parser then ParseFastSeqJsonHeader ([guessed = true]: ParseGuessedFastSeqHeader) on every record;
    [rec_ok]: identifier non-empty without blank, annotations [wfv], sequence non-empty over a-z - . [ ];
    [fq_ok]: [rec_ok] + one quality 0..93 per nucleotide; [canon]: members ordered (strictly) by encoded key, the only
    order the writer can produce from a Go map (the correspondence run checks that every generated value and record is in
    this domain). Round 2: the JSON decoder is no longer a parameter: [jparse] / [jdec0] / [jdec renum64] are executable
    parsers inside the model (compared with go-json on every run); the round-1 statements for an arbitrary decoder that
    inverts the marshaller are kept as [_any_decoder]. *)
From Coq Require Import NArith ZArith List Bool.
From OBI.C02 Require Import Model Proofs.
Import ListNotations.
Open Scope N_scope.

(** ** the title-line scanner *)
(** [core] the repaired scanner delimits exactly the serialised annotation object, whatever follows it on the title
    line (strings and keys may contain escaped quotes, backslashes and braces). *)
Theorem C02_scan_finds_object : forall o rest, wfv (JObj o) = true ->
  scan_obj (ser (JObj o) ++ rest) = Some (0%nat, length (ser (JObj o))).
Proof. exact scan_finds_object. Qed.

(** the scanner BEFORE the repair violates the statement: {"a":"q\"}"} is cut short (the decoder then dies),
    {"a":"\"{"} is never closed (the whole object silently becomes the definition). *)
Theorem C02_scan_orig_refuted :
  exists o rest, wfv (JObj o) = true /\ scan_obj_orig (ser (JObj o) ++ rest) <> Some (0%nat, length (ser (JObj o))).
Proof. exact scan_orig_refuted. Qed.
Theorem C02_scan_orig_refuted_silent :
  exists o, wfv (JObj o) = true /\ scan_obj_orig (ser (JObj o)) = None.
Proof. exact scan_orig_refuted_silent. Qed.

(* PARTIAL (the unchanged tree): the scanner before the repair satisfies the statement exactly on the objects none of
   whose strings and keys contains a double quote ([noquote]); what is missing is the escaped quote — see the two
   _refuted witnesses above. *)
Theorem C02_scan_finds_object_orig_partial : forall o rest, wfv (JObj o) = true -> noquote (JObj o) = true ->
  scan_obj_orig (ser (JObj o) ++ rest) = Some (0%nat, length (ser (JObj o))).
Proof. exact scan_orig_finds_object_noquote. Qed.

(** ** the JSON decoder (round 2: an executable parser inside the model instead of a hypothesis)
    [jparse] reads one JSON value at the head of a byte string (white space between tokens, every string escape of the
    basic plane, number tokens checked against the JSON grammar and kept as tokens); [jdec0 t]: [t] is exactly one value.
    [jdec renum t]: go-json's Unmarshal into a Go map — members by key (ordered by encoded key, as the writer emits them),
    the last member of a repeated key wins, every number token replaced by [renum tok] (token -> float64 -> token);
    [renum64]: that path transcribed (exact decimal value -> nearest float64, ties to even -> shortest decimal that reads
    back -> go-json's layout: 'e' format below 1e-6 and from 1e21); integer tokens go through a separate, simpler
    transcription ([renum_int]) about which the fixed-point theorem is proved. *)
(** [core] the parser inverts the marshaller on every well-formed value, whatever follows (after a number: anything that
    cannot continue the token; inside arrays and objects that is always the case) *)
Theorem C02_jparse_inverts_ser : forall v rest, wfv v = true -> utf8v v = true -> follow_ok v rest -> jparse (ser v ++ rest) = Some (v, rest).
Proof. exact jparse_ser. Qed.
Theorem C02_jparse_inverts_ser_object : forall o rest, wfv (JObj o) = true -> utf8v (JObj o) = true ->
  jparse (ser (JObj o) ++ rest) = Some (JObj o, rest).
Proof. exact jparse_ser_obj. Qed.
(** whatever the parser accepts is well formed; whatever the map decoder returns is well formed and canonical *)
Theorem C02_jparse_wellformed : forall s v r, jparse s = Some (v, r) -> wfv v = true.
Proof. intros s v r. exact (jparse_f_wf _ s v r). Qed.
Theorem C02_decoder_canonical : forall t v, jdec renum64 t = Some v -> wfv v = true /\ canon v = true.
Proof. exact (jdec_wf_canon renum64 renum64_tok). Qed.
(** decoding into a map leaves a canonical value with stable number tokens as it is *)
Theorem C02_decoder_inverts_ser : forall v, wfv v = true -> utf8v v = true -> canon v = true -> numfixed renum64 v = true ->
  jdec renum64 (ser v) = Some v.
Proof. exact (jdec_ser renum64). Qed.

(** [core] header parser = scanner + decoder: the annotations come back unchanged and what follows them is kept as the
    definition — no hypothesis on the decoder any more. *)
Theorem C02_header_roundtrip : forall o rest, wfv (JObj o) = true -> utf8v (JObj o) = true ->
  parse_header jdec0 (ser (JObj o) ++ rest) = HObject (JObj o) (trim rest).
Proof. exact header_roundtrip_j. Qed.
Theorem C02_header_roundtrip_map : forall o rest, wfv (JObj o) = true -> utf8v (JObj o) = true -> canon (JObj o) = true ->
  numfixed renum64 (JObj o) = true ->
  parse_header (jdec renum64) (ser (JObj o) ++ rest) = HObject (JObj o) (trim rest).
Proof. intros. apply parse_header_roundtrip; [assumption | apply jdec_ser; assumption]. Qed.
(** still true for any other decoder that returns the object that was marshalled (e.g. go-json itself) *)
Theorem C02_header_roundtrip_any_decoder : forall (dec : list N -> option jvalue) o rest, wfv (JObj o) = true ->
  dec (ser (JObj o)) = Some (JObj o) ->
  parse_header dec (ser (JObj o) ++ rest) = HObject (JObj o) (trim rest).
Proof. exact parse_header_roundtrip. Qed.

(** [core] FULL STRENGTH (round 1: _partial): re-parsing a formatted header never changes or loses annotations, for ANY
    title line the header parser accepts — not only formatted ones: white space, members in any order, repeated keys,
    any escape, text before / after the object. Token level ([renum] = identity): unconditional. *)
Theorem C02_reparse_keeps_annotations : forall h m d, parse_header (jdec (fun t => t)) h = HObject (JObj m) d ->
  utf8v (JObj m) = true -> parse_header (jdec (fun t => t)) (ser (JObj m)) = HObject (JObj m) [].
Proof. intros h m d H. apply (reparse_keeps (fun t => t) (fun t Ht => Ht) h m d H). apply numfixed_id. Qed.
(** the same for whole records (ParseFastSeqJsonHeader: the text after the object becomes / extends the definition) *)
Theorem C02_reparse_keeps_record : forall p r, read_header (jdec (fun t => t)) p = RRec r -> utf8v (JObj (w_ann r)) = true ->
  read_header (jdec (fun t => t)) (mkp (p_id p) (header_info (w_ann r)) (p_seq p) (p_qual p)) = RRec r.
Proof. intros p r H. apply (reparse_record (fun t => t) (fun t Ht => Ht) p r H). apply numfixed_id. Qed.
(** with numbers read as float64: holds whenever the number tokens of the parsed record are stable under
    read-then-write ([numfixed renum64], decidable; evaluated on every harness case) — true of integers |x| <= 2^53 (below),
    and of every token the encoder produces provided strconv's shortest formatting round-trips (trusted, checked each run) *)
Theorem C02_reparse_keeps_record_float64 : forall p r, read_header (jdec renum64) p = RRec r ->
  numfixed renum64 (JObj (w_ann r)) = true -> utf8v (JObj (w_ann r)) = true ->
  read_header (jdec renum64) (mkp (p_id p) (header_info (w_ann r)) (p_seq p) (p_qual p)) = RRec r.
Proof. exact (reparse_record renum64 renum64_tok). Qed.

(** ** strings that are not valid UTF-8 (round 2: inside the model; OUTSIDE the claim, which speaks of Unicode strings):
    the marshaller writes every offending byte as the six characters \\ufffd; the reader returns U+FFFD; the next write
    emits U+FFFD raw: the value changes and the first re-write is not byte-identical; it is stable afterwards.
    [utf8v] (every string and key is valid UTF-8) is therefore a premise of every theorem that goes through the decoder;
    the scanner theorem C02_scan_finds_object needs no such premise. *)
Theorem C02_invalid_utf8_not_preserved :
  exists o, wfv (JObj o) = true /\ canon (JObj o) = true /\ utf8v (JObj o) = false /\
    exists o', jdec renum64 (ser (JObj o)) = Some (JObj o') /\ o' <> o /\ ser (JObj o') <> ser (JObj o) /\
               jdec renum64 (ser (JObj o')) = Some (JObj o').
Proof.
  exists [([97], JStr [255; 233])]. repeat split; try reflexivity.
  exists [([97], JStr [239; 191; 189; 239; 191; 189])]. repeat split; try reflexivity; vm_compute; discriminate.
Qed.

(** ** numbers: the reader turns every number into a float64 (the float64 -> int block of _parse_json_header_ is a dead
    store) and the writer prints the shortest decimal. Integers up to 2^53 in absolute value, written as strconv.Itoa
    writes them, are fixed points of that path; 2^53 + 1 is not (sharp). *)
Theorem C02_int_tokens_fixed : forall t, small_int_tok t = true -> renum64 t = t.
Proof. exact small_int_fixed. Qed.
Theorem C02_small_ints_stable : forall v, small_ints v = true -> numfixed renum64 v = true.
Proof. exact small_ints_numfixed. Qed.
Theorem C02_int_bound_is_sharp : exists t, is_int_tok t = true /\ numtok t = true /\ dval t = 2 ^ 53 + 1 /\ renum64 t <> t.
Proof. exists [57; 48; 48; 55; 49; 57; 57; 50; 53; 52; 55; 52; 48; 57; 57; 51]. repeat split; try reflexivity. vm_compute. discriminate. Qed.
(** the guessed parser and the JSON parser agree on every formatted header, the empty one included *)
Theorem C02_guessed_selects_json : forall dec id ann seq q,
  read_guessed dec (mkp id (header_info ann) seq q) = read_header dec (mkp id (header_info ann) seq q).
Proof. exact guessed_agrees. Qed.
(** a serialised value never contains a line terminator (the title stays one line) *)
Theorem C02_ser_one_line : forall v, wfv v = true -> forallb noeol (ser v) = true.
Proof. exact ser_noeol. Qed.

(** ** folding and qualities *)
Theorem C02_fold60_concat : forall s, concat (fold60 s) = s.
Proof. exact fold60_concat. Qed.
Theorem C02_fold60_lines : forall s, Forall (fun l => l <> [] /\ (length l <= 60)%nat) (fold60 s).
Proof. exact fold60_lines. Qed.
Theorem C02_fold60_full_lines : forall s l rest, fold60 s = l :: rest -> rest <> [] -> length l = 60%nat.
Proof. exact fold60_full. Qed.
(** scores 0..93 survive write shift / read shift for EVERY offset (byte arithmetic wraps); larger scores come back
    as 93; for the offsets 33..162 ([shift_ok]; 33 and 64 are the toolkit's) a quality character is never a separator *)
Theorem C02_quality_roundtrip : forall shift q, q <= 93 -> shift < 256 -> qual_back shift (qual_char shift q) = q.
Proof. exact qual_roundtrip. Qed.
Theorem C02_quality_clamped : forall shift q, 93 < q -> shift < 256 -> qual_back shift (qual_char shift q) = 93.
Proof. exact qual_clamped. Qed.
Theorem C02_quality_char_not_sep : forall shift q, shift_ok shift -> is_sep (qual_char shift q) = false.
Proof. exact qual_char_not_sep. Qed.

(** ** [core] whole batches through the byte automata of the chunk parsers (any number of records, any sequence
    length vs the 60-column folding): identifiers, title remainder, nucleotides, qualities come back unchanged *)
Theorem C02_fasta_chunk_roundtrip : forall shift l, l <> [] -> forallb rec_ok l = true ->
  exists text, format_batch false shift l = Ok text /\ parse_fasta text = Ok (map as_parsed l).
Proof. exact fasta_roundtrip. Qed.
Theorem C02_fastq_chunk_roundtrip : forall shift l, shift_ok shift -> l <> [] -> forallb fq_ok l = true ->
  exists text, format_batch true shift l = Ok text /\ parse_fastq shift text = Ok (map as_parsed_q l).
Proof. exact fastq_roundtrip. Qed.

(** ** [core] write then read gives the same records (FASTA does not carry qualities), for the JSON and the guessed
    header parser, records with or without annotations — no hypothesis on the decoder any more *)
Theorem C02_fasta_roundtrip : forall guessed shift l, l <> [] -> forallb rec_ok l = true -> forallb ann_utf8 l = true ->
  exists text, format_batch false shift l = Ok text /\ read_file jdec0 false guessed shift text = RL (map drop_qual l).
Proof. exact fasta_write_read_j. Qed.
Theorem C02_fastq_roundtrip : forall guessed shift l, shift_ok shift -> l <> [] -> forallb fq_ok l = true -> forallb ann_utf8 l = true ->
  exists text, format_batch true shift l = Ok text /\ read_file jdec0 true guessed shift text = RL l.
Proof. exact fastq_write_read_j. Qed.
(** for any decoder that inverts the marshaller on the records at hand (e.g. go-json itself) *)
Theorem C02_fasta_roundtrip_any_decoder : forall (dec : list N -> option jvalue) guessed shift l,
  l <> [] -> forallb rec_ok l = true -> Forall (dec_inverts dec) l ->
  exists text, format_batch false shift l = Ok text /\ read_file dec false guessed shift text = RL (map drop_qual l).
Proof. exact fasta_write_read2. Qed.
Theorem C02_fastq_roundtrip_any_decoder : forall (dec : list N -> option jvalue) guessed shift l,
  shift_ok shift -> l <> [] -> forallb fq_ok l = true -> Forall (dec_inverts dec) l ->
  exists text, format_batch true shift l = Ok text /\ read_file dec true guessed shift text = RL l.
Proof. exact fastq_write_read2. Qed.

(** ** [core] write-after-read is a fixed point: the second write is byte-identical *)
Theorem C02_write_is_fixed_point_fasta : forall guessed shift l, l <> [] -> forallb rec_ok l = true -> forallb ann_utf8 l = true ->
  exists text l', format_batch false shift l = Ok text /\ read_file jdec0 false guessed shift text = RL l'
                  /\ format_batch false shift l' = Ok text.
Proof. exact fasta_fixed_point_j. Qed.
Theorem C02_write_is_fixed_point_fastq : forall guessed shift l, shift_ok shift -> l <> [] -> forallb fq_ok l = true -> forallb ann_utf8 l = true ->
  exists text l', format_batch true shift l = Ok text /\ read_file jdec0 true guessed shift text = RL l'
                  /\ format_batch true shift l' = Ok text.
Proof. exact fastq_fixed_point_j. Qed.
(** the same through the Go map and float64: for records in canonical member order (the only one a Go map is written in)
    whose number tokens are stable ([map_ok renum64]; e.g. all numbers integers |x| <= 2^53: C02_small_ints_stable) *)
Theorem C02_write_is_fixed_point_fasta_float64 : forall guessed shift l, l <> [] -> forallb rec_ok l = true ->
  forallb (map_ok renum64) l = true ->
  exists text, format_batch false shift l = Ok text /\ read_file (jdec renum64) false guessed shift text = RL (map drop_qual l)
               /\ format_batch false shift (map drop_qual l) = Ok text.
Proof. exact (fasta_fixed_point_map renum64). Qed.
Theorem C02_write_is_fixed_point_fastq_float64 : forall guessed shift l, shift_ok shift -> l <> [] -> forallb fq_ok l = true ->
  forallb (map_ok renum64) l = true ->
  exists text, format_batch true shift l = Ok text /\ read_file (jdec renum64) true guessed shift text = RL l.
Proof. exact (fastq_fixed_point_map renum64). Qed.

(** hypotheses are satisfiable: an object whose key and string contain quotes, backslashes and braces; two records,
    one 61 nucleotides long, that satisfy [fq_ok] and [annotated] and do round-trip through the automata *)
Example C02_scan_nonvacuous :
  let o := [([107; 34; 125], JStr [92; 34; 123; 125; 10; 226; 128; 168]); ([110], JArr [JNum [45; 49; 46; 53; 101; 43; 50]; JObj []])] in
  wfv (JObj o) = true /\ canon (JObj o) = true /\ utf8v (JObj o) = true /\ scan_obj (ser (JObj o) ++ [32; 125; 34]) = Some (0%nat, length (ser (JObj o))).
Proof. vm_compute. repeat split; reflexivity. Qed.
Example C02_roundtrip_nonvacuous :
  forallb fq_ok ex_recs = true /\ forallb (map_ok renum64) ex_recs = true /\
  match format_batch true 64 ex_recs with Ok t => read_file (jdec renum64) true true 64 t = RL ex_recs | Fatal => False end /\
  match format_batch false 33 ex_recs with Ok t => read_file jdec0 false false 33 t = RL (map drop_qual ex_recs) | Fatal => False end.
Proof. repeat split; vm_compute; reflexivity. Qed.
(** a title line nobody formatted: white space, members out of order, a repeated key, \u escapes, 1e2 left alone, an
    integer beyond 2^53 rounded, text after the object — accepted, and its formatted header re-parses to the same record *)
Example C02_reparse_nonvacuous :
  let h := [32; 123; 32; 34; 122; 34; 32; 58; 32; 91; 49; 44; 32; 57; 48; 48; 55; 49; 57; 57; 50; 53; 52; 55; 52; 48; 57; 57; 51; 93; 44;
            34; 97; 34; 58; 34; 92; 117; 48; 48; 101; 57; 92; 47; 34; 44; 34; 122; 34; 58; 110; 117; 108; 108; 125; 32; 116; 97; 105; 108; 32] in
  exists r, read_header (jdec renum64) (mkp [105] h [97] None) = RRec r /\ numfixed renum64 (JObj (w_ann r)) = true /\
            length (w_ann r) = 3%nat.
Proof.
  intros h. destruct (read_header (jdec renum64) (mkp [105] h [97] None)) as [r| |] eqn:E; vm_compute in E; try discriminate E.
  injection E as <-. eexists. split; [reflexivity|]. split; vm_compute; reflexivity.
Qed.

(** the two transcriptions of the number path agree on integer tokens (spot check; both are compared with go-json on every run) *)
Example C02_number_paths_agree :
  forallb (fun t => nlist_eqb (renum_int t) (renum_any t))
    [[48]; [45; 48]; [55]; [45; 49; 50]; [57; 48; 48; 55; 49; 57; 57; 50; 53; 52; 55; 52; 48; 57; 57; 50];
     [57; 48; 48; 55; 49; 57; 57; 50; 53; 52; 55; 52; 48; 57; 57; 51]; [57; 50; 50; 51; 51; 55; 50; 48; 51; 54; 56; 53; 52; 55; 55; 53; 56; 48; 55];
     [49; 48; 48; 48; 48; 48; 48; 48; 48; 48; 48; 48; 48; 48; 48; 48; 48; 48; 48; 48; 48; 48];
     [49; 50; 51; 52; 53; 54; 55; 56; 57; 48; 49; 50; 51; 52; 53; 54; 55; 56; 57; 48; 49; 50; 51; 52];
     [45; 50; 53; 48; 48; 48; 48; 48; 48; 48; 48; 48; 48; 48; 48; 48; 48; 48; 48; 48; 48]] = true.
Proof. vm_compute. reflexivity. Qed.

Print Assumptions C02_scan_finds_object.
Print Assumptions C02_scan_orig_refuted.
Print Assumptions C02_scan_orig_refuted_silent.
Print Assumptions C02_scan_finds_object_orig_partial.
Print Assumptions C02_jparse_inverts_ser.
Print Assumptions C02_jparse_inverts_ser_object.
Print Assumptions C02_jparse_wellformed.
Print Assumptions C02_decoder_canonical.
Print Assumptions C02_decoder_inverts_ser.
Print Assumptions C02_header_roundtrip.
Print Assumptions C02_header_roundtrip_map.
Print Assumptions C02_header_roundtrip_any_decoder.
Print Assumptions C02_reparse_keeps_annotations.
Print Assumptions C02_reparse_keeps_record.
Print Assumptions C02_reparse_keeps_record_float64.
Print Assumptions C02_invalid_utf8_not_preserved.
Print Assumptions C02_int_tokens_fixed.
Print Assumptions C02_small_ints_stable.
Print Assumptions C02_int_bound_is_sharp.
Print Assumptions C02_guessed_selects_json.
Print Assumptions C02_ser_one_line.
Print Assumptions C02_fold60_concat.
Print Assumptions C02_fold60_lines.
Print Assumptions C02_fold60_full_lines.
Print Assumptions C02_quality_roundtrip.
Print Assumptions C02_quality_clamped.
Print Assumptions C02_quality_char_not_sep.
Print Assumptions C02_fasta_chunk_roundtrip.
Print Assumptions C02_fastq_chunk_roundtrip.
Print Assumptions C02_fasta_roundtrip.
Print Assumptions C02_fastq_roundtrip.
Print Assumptions C02_fasta_roundtrip_any_decoder.
Print Assumptions C02_fastq_roundtrip_any_decoder.
Print Assumptions C02_write_is_fixed_point_fasta.
Print Assumptions C02_write_is_fixed_point_fastq.
Print Assumptions C02_write_is_fixed_point_fasta_float64.
Print Assumptions C02_write_is_fixed_point_fastq_float64.
