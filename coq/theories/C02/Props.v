(** C02 — property theorems (statements only; every proof is [exact] of a lemma of Proofs.v).
    Write then read round-trips records unchanged (FASTA/FASTQ + JSON title-line header).

    Vocabulary (Model.v): [ser] = go-json marshalling with HTML escaping off (number tokens are inputs);
    [wfv] = number tokens are non-empty and made of digits + - . e E; [scan_obj] = the repaired brace/quote
    scanner of _parse_json_header_ ([scan_obj_orig]: before the fix: commit); [parse_header dec] = scanner + decoder;
    [format_batch] = FormatFastaBatch / FormatFastqBatch; [parse_fasta]/[parse_fastq] = the chunk parsers' byte automata;
    [read_file dec] = chunk parser then ParseFastSeqJsonHeader ([guessed = true]: ParseGuessedFastSeqHeader) on every record;
    [rec_ok]: identifier non-empty without blank, annotations [wfv], sequence non-empty over a-z - . [ ];
    [fq_ok]: [rec_ok] + one quality 0..93 per nucleotide; [canon]: members ordered (strictly) by encoded key, the only
    order the writer can produce from a Go map (the correspondence run checks that every generated value and record is in
    this domain). The JSON decoder [dec] (go-json) is a parameter of the theorems: it is only assumed to return the
    annotations of the records at hand from their marshalled form ([dec_inverts]). *)
From Coq Require Import NArith ZArith List Bool.
From OBI.C02 Require Import Model Proofs.
Import ListNotations.
Open Scope N_scope.

(** ** the title-line scanner *)
(** [core] the repaired scanner delimits exactly the serialised annotation object, whatever follows it on the title
    line (strings and keys may contain escaped quotes, backslashes and braces). *)
Theorem C02_scan_finds_object : forall o rest, wfv (JObj o) = true ->
  scan_obj (ser (JObj o) ++ rest) = Some (0%nat, length (ser (JObj o))).
Proof. exact scan_finds_object. Qed.

(** the scanner BEFORE the repair violates the statement: {"a":"q\"}"} is cut short (the decoder then dies),
    {"a":"\"{"} is never closed (the whole object silently becomes the definition). *)
Theorem C02_scan_orig_refuted :
  exists o rest, wfv (JObj o) = true /\ scan_obj_orig (ser (JObj o) ++ rest) <> Some (0%nat, length (ser (JObj o))).
Proof. exact scan_orig_refuted. Qed.
Theorem C02_scan_orig_refuted_silent :
  exists o, wfv (JObj o) = true /\ scan_obj_orig (ser (JObj o)) = None.
Proof. exact scan_orig_refuted_silent. Qed.

(* PARTIAL (the unchanged tree): the scanner before the repair satisfies the statement exactly on the objects none of
   whose strings and keys contains a double quote ([noquote]); what is missing is the escaped quote — see the two
   _refuted witnesses above. *)
Theorem C02_scan_finds_object_orig_partial : forall o rest, wfv (JObj o) = true -> noquote (JObj o) = true ->
  scan_obj_orig (ser (JObj o) ++ rest) = Some (0%nat, length (ser (JObj o))).
Proof. exact scan_orig_finds_object_noquote. Qed.

(** [core] header parser = scanner + decoder: whenever the decoder returns the object that was marshalled, the header
    parser returns these annotations unchanged and keeps what follows them as the definition. *)
Theorem C02_header_roundtrip : forall (dec : list N -> option jvalue) o rest, wfv (JObj o) = true ->
  dec (ser (JObj o)) = Some (JObj o) ->
  parse_header dec (ser (JObj o) ++ rest) = HObject (JObj o) (trim rest).
Proof. exact parse_header_roundtrip. Qed.
(* PARTIAL form of "re-parsing a formatted header never changes or loses annotations for ANY title line the parser
   accepts": proved for the title lines whose decoded object is [wfv] and is returned by the decoder from its own
   marshalled form; what is missing is a model of go-json's decoder relating an arbitrary accepted text to its value. *)
Theorem C02_reparse_keeps_annotations_partial : forall (dec : list N -> option jvalue) o, wfv (JObj o) = true ->
  dec (ser (JObj o)) = Some (JObj o) ->
  parse_header dec (ser (JObj o)) = HObject (JObj o) [].
Proof. exact parse_header_formatted. Qed.
(** [core] the guessed parser takes the JSON branch for every record that has annotations *)
Theorem C02_guessed_selects_json : forall dec id ann seq q, ann <> [] ->
  read_guessed dec (mkp id (header_info ann) seq q) = read_header dec (mkp id (header_info ann) seq q).
Proof. exact guessed_selects_json. Qed.
(** a serialised value never contains a line terminator (the title stays one line) *)
Theorem C02_ser_one_line : forall v, wfv v = true -> forallb noeol (ser v) = true.
Proof. exact ser_noeol. Qed.

(** ** folding and qualities *)
Theorem C02_fold60_concat : forall s, concat (fold60 s) = s.
Proof. exact fold60_concat. Qed.
Theorem C02_fold60_lines : forall s, Forall (fun l => l <> [] /\ (length l <= 60)%nat) (fold60 s).
Proof. exact fold60_lines. Qed.
Theorem C02_fold60_full_lines : forall s l rest, fold60 s = l :: rest -> rest <> [] -> length l = 60%nat.
Proof. exact fold60_full. Qed.
(** scores 0..93 survive write shift / read shift for EVERY offset (byte arithmetic wraps); larger scores come back
    as 93; for the offsets 33..162 ([shift_ok]; 33 and 64 are the toolkit's) a quality character is never a separator *)
Theorem C02_quality_roundtrip : forall shift q, q <= 93 -> shift < 256 -> qual_back shift (qual_char shift q) = q.
Proof. exact qual_roundtrip. Qed.
Theorem C02_quality_clamped : forall shift q, 93 < q -> shift < 256 -> qual_back shift (qual_char shift q) = 93.
Proof. exact qual_clamped. Qed.
Theorem C02_quality_char_not_sep : forall shift q, shift_ok shift -> is_sep (qual_char shift q) = false.
Proof. exact qual_char_not_sep. Qed.

(** ** [core] whole batches through the byte automata of the chunk parsers (any number of records, any sequence
    length vs the 60-column folding): identifiers, title remainder, nucleotides, qualities come back unchanged *)
Theorem C02_fasta_chunk_roundtrip : forall shift l, l <> [] -> forallb rec_ok l = true ->
  exists text, format_batch false shift l = Ok text /\ parse_fasta text = Ok (map as_parsed l).
Proof. exact fasta_roundtrip. Qed.
Theorem C02_fastq_chunk_roundtrip : forall shift l, shift_ok shift -> l <> [] -> forallb fq_ok l = true ->
  exists text, format_batch true shift l = Ok text /\ parse_fastq shift text = Ok (map as_parsed_q l).
Proof. exact fastq_roundtrip. Qed.

(** ** [core] write then read gives the same records (FASTA does not carry qualities).
    [dec_inverts dec r]: dec (ser (JObj (w_ann r))) = Some (JObj (w_ann r)) — the decoder returns the annotations of r
    from their marshalled form (go-json does, for the canonical member order [canon] the writer produces; checked on
    every generated record by the harness). *)
Theorem C02_fasta_roundtrip : forall (dec : list N -> option jvalue) guessed shift l,
  l <> [] -> forallb rec_ok l = true -> Forall (dec_inverts dec) l -> (guessed = true -> annotated l = true) ->
  exists text, format_batch false shift l = Ok text /\ read_file dec false guessed shift text = RL (map drop_qual l).
Proof. exact fasta_write_read. Qed.
Theorem C02_fastq_roundtrip : forall (dec : list N -> option jvalue) guessed shift l,
  shift_ok shift -> l <> [] -> forallb fq_ok l = true -> Forall (dec_inverts dec) l ->
  (guessed = true -> annotated l = true) ->
  exists text, format_batch true shift l = Ok text /\ read_file dec true guessed shift text = RL l.
Proof. exact fastq_write_read. Qed.

(** ** [core] write-after-read is a fixed point: the second write is byte-identical.
    (In the model the decoder returns the value that was marshalled; that go-json's float64 numbers are re-marshalled
    to the same tokens is part of the trusted decoder/encoder pair and is checked on every run by the harness.) *)
Theorem C02_write_is_fixed_point_fasta : forall (dec : list N -> option jvalue) guessed shift l,
  l <> [] -> forallb rec_ok l = true -> Forall (dec_inverts dec) l -> (guessed = true -> annotated l = true) ->
  exists text l', format_batch false shift l = Ok text /\ read_file dec false guessed shift text = RL l'
                  /\ format_batch false shift l' = Ok text.
Proof. exact fasta_fixed_point. Qed.
Theorem C02_write_is_fixed_point_fastq : forall (dec : list N -> option jvalue) guessed shift l,
  shift_ok shift -> l <> [] -> forallb fq_ok l = true -> Forall (dec_inverts dec) l ->
  (guessed = true -> annotated l = true) ->
  exists text l', format_batch true shift l = Ok text /\ read_file dec true guessed shift text = RL l'
                  /\ format_batch true shift l' = Ok text.
Proof. exact fastq_fixed_point. Qed.

(** hypotheses are satisfiable: an object whose key and string contain quotes, backslashes and braces; two records,
    one 61 nucleotides long, that satisfy [fq_ok] and [annotated] and do round-trip through the automata *)
Example C02_scan_nonvacuous :
  let o := [([107; 34; 125], JStr [92; 34; 123; 125; 10; 226; 128; 168]); ([110], JArr [JNum [45; 49; 46; 53; 101; 43; 50]; JObj []])] in
  wfv (JObj o) = true /\ canon (JObj o) = true /\ scan_obj (ser (JObj o) ++ [32; 125; 34]) = Some (0%nat, length (ser (JObj o))).
Proof. vm_compute. repeat split; reflexivity. Qed.
Example C02_roundtrip_nonvacuous :
  forallb fq_ok ex_recs = true /\ forallb canon_rec ex_recs = true /\ annotated ex_recs = true /\
  Forall (dec_inverts ex_dec) ex_recs /\
  match format_batch true 64 ex_recs with Ok t => read_file ex_dec true true 64 t = RL ex_recs | Fatal => False end /\
  match format_batch false 33 ex_recs with Ok t => read_file ex_dec false false 33 t = RL (map drop_qual ex_recs) | Fatal => False end.
Proof. repeat split; try (vm_compute; reflexivity). repeat constructor. Qed.

Print Assumptions C02_scan_finds_object.
Print Assumptions C02_scan_orig_refuted.
Print Assumptions C02_scan_orig_refuted_silent.
Print Assumptions C02_scan_finds_object_orig_partial.
Print Assumptions C02_header_roundtrip.
Print Assumptions C02_reparse_keeps_annotations_partial.
Print Assumptions C02_guessed_selects_json.
Print Assumptions C02_ser_one_line.
Print Assumptions C02_fold60_concat.
Print Assumptions C02_fold60_lines.
Print Assumptions C02_fold60_full_lines.
Print Assumptions C02_quality_roundtrip.
Print Assumptions C02_quality_clamped.
Print Assumptions C02_quality_char_not_sep.
Print Assumptions C02_fasta_chunk_roundtrip.
Print Assumptions C02_fastq_chunk_roundtrip.
Print Assumptions C02_fasta_roundtrip.
Print Assumptions C02_fastq_roundtrip.
Print Assumptions C02_write_is_fixed_point_fasta.
Print Assumptions C02_write_is_fixed_point_fastq.
