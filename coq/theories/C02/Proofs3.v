(** C02, round 3 — lemmas about the typed getters, the batch formatter on concatenations / empty records, the output
    file, and the quality offsets outside the working domain. *)
From Coq Require Import NArith ZArith List Bool Lia.
From OBI.C02 Require Import Model Proofs.
From OBI.C02 Require Import Model3.
Import ListNotations.
Open Scope N_scope.

Lemma small_int_tok_parts : forall t, small_int_tok t = true ->
  all_digits (snd (split_sign t)) = true /\ dval (snd (split_sign t)) <= 2 ^ 53.
Proof.
  intros t H. unfold small_int_tok in H. destruct (split_sign t) as [neg ds]. cbn [snd].
  apply andb_true_iff in H. destruct H as [H _]. apply andb_true_iff in H. destruct H as [Hc Hle].
  unfold canon_digits in Hc. apply andb_true_iff in Hc. destruct Hc as [Hd _]. apply N.leb_le in Hle. split; assumption.
Qed.

Lemma tok_trunc_small : forall t, small_int_tok t = true -> tok_trunc t = tokval t.
Proof.
  intros t H. destruct (small_int_tok_parts t H) as [Hd Hle].
  unfold tok_trunc, tok_mag, tokval. destruct (split_sign t) as [neg ds]. cbn [fst snd] in *.
  rewrite Hd. rewrite round64_exact by exact Hle. reflexivity.
Qed.

Theorem typed_int_roundtrip : forall t, small_int_tok t = true -> get_int (Some (JNum (renum64 t))) = Some (tokval t).
Proof. intros t H. rewrite small_int_fixed by exact H. cbn [get_int]. rewrite tok_trunc_small by exact H. reflexivity. Qed.

Theorem typed_int_sharp : exists t, is_int_tok t = true /\ numtok t = true /\ tokval t = (2 ^ 53 + 1)%Z /\
  get_int (Some (JNum (renum64 t))) = Some (2 ^ 53)%Z.
Proof. exists [57; 48; 48; 55; 49; 57; 57; 50; 53; 52; 55; 52; 48; 57; 57; 51]. repeat split; vm_compute; reflexivity. Qed.

Definition intval (v : jvalue) : Z := match v with JNum t => tokval t | _ => 0%Z end.
Definition int_value (v : jvalue) : bool := match v with JNum t => small_int_tok t | _ => false end.
Definition int_members (m : list (list N * jvalue)) : bool := forallb (fun kv => int_value (snd kv)) m.
Definition int_elems (l : list jvalue) : bool := forallb int_value l.

Lemma int_value_num : forall v, int_value v = true -> isnum v = true /\ numz v = intval v.
Proof.
  intros v H. destruct v; try discriminate H. cbn [int_value] in H. split; [reflexivity|].
  cbn [numz intval]. apply tok_trunc_small. exact H.
Qed.

Theorem typed_int_map : forall m, int_members m = true ->
  get_int_map (Some (JObj m)) = Some (map (fun kv => (fst kv, intval (snd kv))) m).
Proof.
  intros m H. unfold get_int_map.
  assert (H1 : forallb (fun kv => isnum (snd kv)) m = true).
  { unfold int_members in H. rewrite forallb_forall in *. intros kv Hkv. apply (int_value_num _ (H kv Hkv)). }
  rewrite H1. f_equal. apply map_ext_in. intros kv Hkv. unfold int_members in H. rewrite forallb_forall in H.
  destruct (int_value_num _ (H kv Hkv)) as [_ E]. rewrite E. reflexivity.
Qed.

Theorem typed_int_slice : forall l, int_elems l = true -> get_int_slice (Some (JArr l)) = Some (map intval l).
Proof.
  intros l H. unfold get_int_slice. unfold int_elems in H.
  assert (H1 : forallb isnum l = true).
  { rewrite forallb_forall in *. intros v Hv. apply (int_value_num _ (H v Hv)). }
  rewrite H1. f_equal. apply map_ext_in. intros v Hv. rewrite forallb_forall in H. apply (int_value_num _ (H v Hv)).
Qed.

Theorem typed_count : forall m t, lookup_key key_count m = Some (JNum t) -> small_int_tok t = true ->
  int_or 1 (lookup_key key_count m) = tokval t.
Proof. intros m t E H. rewrite E. unfold int_or. cbn [get_int]. apply tok_trunc_small. exact H. Qed.
Theorem typed_count_default : forall m, lookup_key key_count m = None -> int_or 1 (lookup_key key_count m) = 1%Z.
Proof. intros m E. rewrite E. reflexivity. Qed.

(** ** record level: an integer attribute |x| <= 2^53 of a written record is returned by the integer getter of the re-read record *)
Lemma w_ann_drop_qual : forall r, w_ann (drop_qual r) = w_ann r.
Proof. intros [a b c d]. reflexivity. Qed.

Theorem int_attribute_survives_fasta : forall guessed shift l i r k t, l <> [] -> forallb rec_ok l = true ->
  forallb (map_ok renum64) l = true -> nth_error l i = Some r -> lookup_key k (w_ann r) = Some (JNum t) -> small_int_tok t = true ->
  exists text l' r', format_batch false shift l = Ok text /\ read_file (jdec renum64) false guessed shift text = RL l' /\
    nth_error l' i = Some r' /\ w_ann r' = w_ann r /\ get_int (lookup_key k (w_ann r')) = Some (tokval t).
Proof.
  intros guessed shift l i r k t Hne Hok Hm Hi Hk Ht.
  destruct (fasta_fixed_point_map renum64 guessed shift l Hne Hok Hm) as (text & Hw & Hr & _).
  exists text, (map drop_qual l), (drop_qual r). split; [exact Hw|]. split; [exact Hr|].
  split; [apply map_nth_error; exact Hi|]. split; [apply w_ann_drop_qual|].
  rewrite w_ann_drop_qual, Hk. cbn [get_int]. rewrite tok_trunc_small by exact Ht. reflexivity.
Qed.

Theorem int_attribute_survives_fastq : forall guessed shift l i r k t, shift_ok shift -> l <> [] -> forallb fq_ok l = true ->
  forallb (map_ok renum64) l = true -> nth_error l i = Some r -> lookup_key k (w_ann r) = Some (JNum t) -> small_int_tok t = true ->
  exists text l' r', format_batch true shift l = Ok text /\ read_file (jdec renum64) true guessed shift text = RL l' /\
    nth_error l' i = Some r' /\ w_ann r' = w_ann r /\ get_int (lookup_key k (w_ann r')) = Some (tokval t).
Proof.
  intros guessed shift l i r k t Hs Hne Hok Hm Hi Hk Ht.
  destruct (fastq_fixed_point_map renum64 guessed shift l Hs Hne Hok Hm) as (text & Hw & Hr).
  exists text, l, r. split; [exact Hw|]. split; [exact Hr|]. split; [exact Hi|]. split; [reflexivity|].
  rewrite Hk. cbn [get_int]. rewrite tok_trunc_small by exact Ht. reflexivity.
Qed.

(** ** the batch formatter on concatenations (several files, several batches, a text repeated) *)
Theorem format_batch_app : forall fq shift l1 l2, format_batch fq shift (l1 ++ l2) =
  match format_batch fq shift l1, format_batch fq shift l2 with Ok a, Ok b => Ok (a ++ b) | _, _ => Fatal end.
Proof.
  intros fq shift l1 l2. induction l1 as [|r l1 IH]; cbn [app format_batch].
  - destruct (format_batch fq shift l2); reflexivity.
  - destruct (w_seq r) eqn:E; [reflexivity|]. rewrite IH.
    destruct (format_batch fq shift l1); destruct (format_batch fq shift l2); try reflexivity.
    rewrite app_assoc. reflexivity.
Qed.

Theorem format_batch_ok_iff : forall fq shift l, (exists t, format_batch fq shift l = Ok t) <-> forallb nonempty_seq l = true.
Proof.
  intros fq shift l. induction l as [|r l IH]; cbn [format_batch forallb].
  - split; [reflexivity | intros _; eexists; reflexivity].
  - unfold nonempty_seq at 1. destruct (w_seq r) eqn:E; cbn [length Nat.eqb negb andb].
    + split; [intros [t H]; discriminate H | discriminate].
    + split.
      * intros [t H]. apply IH. destruct (format_batch fq shift l); [eexists; reflexivity | discriminate H].
      * intros H. apply IH in H. destruct H as [t H]. rewrite H. eexists; reflexivity.
Qed.

Lemma filter_nonempty_all : forall l, forallb nonempty_seq (filter nonempty_seq l) = true.
Proof.
  induction l as [|r l IH]; [reflexivity|]. cbn [filter]. destruct (nonempty_seq r) eqn:E; [cbn [forallb]; rewrite E; exact IH | exact IH].
Qed.
Theorem format_batch_skip_ok : forall fq shift l, exists t, format_batch_skip fq shift l = Ok t.
Proof. intros fq shift l. unfold format_batch_skip. apply format_batch_ok_iff. apply filter_nonempty_all. Qed.
Theorem format_batch_skip_id : forall fq shift l, forallb nonempty_seq l = true -> format_batch_skip fq shift l = format_batch fq shift l.
Proof.
  intros fq shift l H. unfold format_batch_skip. f_equal. induction l as [|r l IH]; [reflexivity|].
  cbn [forallb] in H. apply andb_true_iff in H. destruct H as [H1 H2]. cbn [filter]. rewrite H1. f_equal. apply IH. exact H2.
Qed.

(** ** the output file *)
Lemma concat_batches_of : forall fuel n l, (0 < n)%nat -> (length l <= fuel)%nat -> concat (batches_of fuel n l) = l.
Proof.
  induction fuel as [|f IH]; intros n l Hn Hl.
  - destruct l; [reflexivity | cbn [length] in Hl; lia].
  - destruct l as [|a l']; [reflexivity|]. cbn [batches_of concat].
    rewrite IH; [apply firstn_skipn | exact Hn |].
    rewrite skipn_length. cbn [length] in *. lia.
Qed.

Lemma format_all_of_concat : forall fq shift bs text, format_batch fq shift (concat bs) = Ok text ->
  exists ts, format_all fq shift bs = Ok ts /\ concat ts = text.
Proof.
  intros fq shift bs. induction bs as [|b bs IH]; intros text H; cbn [concat format_all] in *.
  - injection H as <-. exists []. split; reflexivity.
  - rewrite format_batch_app in H. destruct (format_batch fq shift b) as [t|]; [|discriminate H].
    destruct (format_batch fq shift (concat bs)) as [t2|] eqn:E2; [|discriminate H]. injection H as <-.
    destruct (IH t2 eq_refl) as (ts & Hts & Hc). rewrite Hts. exists (t :: ts). split; [reflexivity|]. cbn [concat]. rewrite Hc. reflexivity.
Qed.

Theorem file_content : forall fq n l text before, (0 < n)%nat -> format_batch fq 33 l = Ok text ->
  exists ts, format_all fq 33 (batches_of (length l) n l) = Ok ts /\ file_after false before ts = text /\
             file_after true before ts = before ++ text.
Proof.
  intros fq n l text before Hn H.
  rewrite <- (concat_batches_of (length l) n l Hn (le_n _)) in H.
  destruct (format_all_of_concat fq 33 _ text H) as (ts & Hts & Hc).
  exists ts. split; [exact Hts|]. unfold file_after. rewrite Hc. split; reflexivity.
Qed.

(** ** quality offsets outside 14..172: some score 0..93 is written as LF or CR and the record does not come back *)
Definition bad_q (shift : N) : N := if shift <=? 10 then 10 - shift else if shift <=? 13 then 13 - shift else 266 - shift.
Definition bad_rec (shift : N) : wrec := mkw [105] [] [97] (Some [bad_q shift]).
Definition shift_bad_b (shift : N) : bool :=
  fq_ok (bad_rec shift) &&
  match format_batch true shift [bad_rec shift] with
  | Ok text => match parse_fastq shift text with Ok l => negb (precs_eqb l [as_parsed_q (bad_rec shift)]) | Fatal => true end
  | Fatal => false
  end.

Lemma oqual_eqb_refl : forall a, oqual_eqb a a = true.
Proof. intros [q|]; [apply nlist_eqb_refl | reflexivity]. Qed.
Lemma prec_eqb_refl : forall p, prec_eqb p p = true.
Proof. intros p. unfold prec_eqb. rewrite !nlist_eqb_refl, oqual_eqb_refl. reflexivity. Qed.
Lemma precs_eqb_refl : forall l, precs_eqb l l = true.
Proof. induction l as [|p l IH]; [reflexivity|]. cbn [precs_eqb]. rewrite prec_eqb_refl, IH. reflexivity. Qed.

Lemma shift_bad_all : forallb shift_bad_b (map N.of_nat (seq 0 14 ++ seq 173 83)) = true.
Proof. vm_compute. reflexivity. Qed.

Theorem shift_outside_refuted : forall shift, shift < 256 -> (shift < 14 \/ 172 < shift) ->
  fq_ok (bad_rec shift) = true /\
  exists text, format_batch true shift [bad_rec shift] = Ok text /\ parse_fastq shift text <> Ok [as_parsed_q (bad_rec shift)].
Proof.
  intros shift Hlt Hout.
  assert (Hin : In shift (map N.of_nat (seq 0 14 ++ seq 173 83))).
  { rewrite <- (N2Nat.id shift). apply in_map. apply in_or_app. destruct Hout as [H|H]; [left | right]; apply in_seq; lia. }
  pose proof shift_bad_all as Hall. rewrite forallb_forall in Hall. specialize (Hall shift Hin).
  unfold shift_bad_b in Hall. apply andb_true_iff in Hall. destruct Hall as [Hok Hall]. split; [exact Hok|].
  destruct (format_batch true shift [bad_rec shift]) as [text|]; [|discriminate Hall].
  exists text. split; [reflexivity|]. intros E. rewrite E in Hall. rewrite precs_eqb_refl in Hall. discriminate Hall.
Qed.

Theorem shift_zero_refuted : exists r, fq_ok r = true /\
  exists text, format_batch true 0 [r] = Ok text /\ parse_fastq 0 text <> Ok [as_parsed_q r].
Proof. exists (bad_rec 0). apply shift_outside_refuted; [reflexivity | left; reflexivity]. Qed.


(** ** the FASTQ round trip for EVERY quality offset whose characters are never a line end: 14..172 (Props.v: 33..162, where
    they are not blanks either); with [shift_outside_refuted] the domain is exact *)
Definition shift_wide (shift : N) : Prop := 14 <= shift /\ shift <= 172.

Lemma qual_char_noeol_wide : forall shift q, shift_wide shift -> is_eol (qual_char shift q) = false.
Proof.
  intros shift q Hs. unfold qual_char.
  assert (Hm : (if 93 <? q then 93 else q) <= 93).
  { destruct (93 <? q) eqn:E; [lia | apply N.ltb_ge in E; exact E]. }
  generalize dependent (if 93 <? q then 93 else q). intros m Hm. unfold shift_wide in Hs.
  unfold is_eol. apply orb_false_iff.
  destruct (N.lt_ge_cases (m + shift) 256) as [Hlt|Hge].
  - rewrite N.mod_small by lia. split; apply N.eqb_neq; lia.
  - assert (E : (m + shift) mod 256 = m + shift - 256).
    { symmetry. apply (N.mod_unique (m + shift) 256 1); lia. }
    rewrite E. split; apply N.eqb_neq; lia.
Qed.
Lemma qual_line_noeol_wide : forall shift q, shift_wide shift -> forallb noeol (map (qual_char shift) q) = true.
Proof.
  intros shift q Hs. apply forallb_forall. intros c Hc. apply in_map_iff in Hc. destruct Hc as (x & <- & _).
  unfold noeol. rewrite qual_char_noeol_wide by exact Hs. reflexivity.
Qed.

Lemma fastq_record_wide : forall shift r idb ident defb defn seqb qb prev out,
  shift_wide shift -> fq_ok r = true ->
  exists idb' defb' seqb' qb',
    run_steps (fastq_step shift) (mkst 1 idb ident defb defn seqb qb prev out) (fastq_tail shift r)
    = Some (mkst 11 idb' (w_id r) defb' (header_info (w_ann r)) seqb' qb' 10 (as_parsed_q r :: out)).
Proof.
  intros shift r idb ident defb defn seqb qb prev out Hshift Hfq.
  unfold fq_ok in Hfq. apply andb_true_iff in Hfq. destruct Hfq as [Hok Hq].
  destruct (w_qual r) as [q|] eqn:Eq; [|discriminate]. apply andb_true_iff in Hq. destruct Hq as [Hlen Hq93].
  apply Nat.eqb_eq in Hlen.
  destruct (rec_ok_seq r Hok) as (Hne & Hsq).
  unfold rec_ok in Hok. repeat (apply andb_true_iff in Hok; destruct Hok as [Hok ?]).
  rename Hok into Hid. rename H1 into Hwf.
  destruct (header_info_shape (w_ann r) Hwf) as (Hinfo & Hshape).
  unfold fastq_tail, as_parsed_q, quals. rewrite Eq.
  remember (header_info (w_ann r)) as info. remember (w_seq r) as seq. remember (w_id r) as id.
  destruct id as [|i0 id']; [discriminate|]. cbn [id_ok forallb] in Hid.
  apply andb_true_iff in Hid. destruct Hid as [Hi0 Hid']. apply negb_true_iff in Hi0.
  destruct seq as [|c0 seq']; [congruence|]. cbn [forallb] in Hsq. apply andb_true_iff in Hsq. destruct Hsq as [Hc0 Hsq'].
  destruct (seqchar_facts c0 Hc0) as (E1 & E2 & E3 & E4 & E5).
  destruct q as [|q0 q']; [discriminate|].
  pose proof (qual_line_noeol_wide shift (q0 :: q') Hshift) as Hqn. cbn [map forallb] in Hqn.
  apply andb_true_iff in Hqn. destruct Hqn as [Hq0n Hq'n]. apply negb_true_iff in Hq0n.
  assert (Hs256 : shift < 256) by (unfold shift_wide in Hshift; lia).
  cbn [app]. fq_step. rewrite Hi0. rewrite run_steps_app.
  destruct (fastq_id_phase shift id' [i0] ident defb defn seqb qb i0 out Hid') as (p1 & ->).
  fq_step. cbn [is_sep is_space is_eol N.eqb Pos.eqb orb].
  replace (rev (rev id' ++ [i0])) with (i0 :: id') by (rewrite rev_app_distr, rev_involutive; reflexivity).
  assert (Hrest : forall idb1 defb1 defn1 p,
    exists idb' defb' seqb' qb',
    run_steps (fastq_step shift) (mkst 5 idb1 (i0 :: id') defb1 defn1 seqb qb p out)
       (c0 :: seq' ++ 10 :: 43 :: 10 :: map (qual_char shift) (q0 :: q') ++ [10])
    = Some (mkst 11 idb' (i0 :: id') defb' defn1 seqb' qb' 10 (mkp (i0 :: id') defn1 (c0 :: seq') (Some (q0 :: q')) :: out))).
  { intros idb1 defb1 defn1 p. cbn [map]. fq_step. rewrite E3, E4.
    rewrite run_steps_app.
    destruct (fastq_seq_phase shift seq' idb1 (i0 :: id') defb1 defn1 [c0] qb c0 out Hsq') as (p2 & ->).
    fq_step. cbn [is_eol N.eqb Pos.eqb orb].
    fq_step. cbn [is_eol N.eqb Pos.eqb orb].
    fq_step. cbn [is_eol N.eqb Pos.eqb orb].
    cbn [app]. fq_step. rewrite Hq0n. rewrite run_steps_app.
    match goal with |- context [mkst 10 ?a ?b ?c ?d ?e ?f ?g ?h] =>
      destruct (fastq_qual_phase shift (map (qual_char shift) q') a b c d e f g h Hq'n) as (p3 & ->) end.
    fq_step. cbn [is_eol N.eqb Pos.eqb orb].
    unfold store_qual, emit. cbn [s_out s_qualb s_ident s_defn s_seqb p_seq p_id p_def].
    replace (rev (rev (map (qual_char shift) q') ++ [qual_char shift q0])) with (map (qual_char shift) (q0 :: q'))
      by (rewrite rev_app_distr, rev_involutive; reflexivity).
    replace (rev (rev seq' ++ [c0])) with (c0 :: seq') by (rewrite rev_app_distr, rev_involutive; reflexivity).
    rewrite map_length, Hlen. cbn [length Nat.eqb orb]. rewrite Nat.eqb_refl. cbn [negb].
    rewrite qual_line_back by assumption.
    do 4 eexists. reflexivity. }
  destruct Hshape as [Hnil | (t & Ht)].
  - rewrite Hnil. cbn [app]. fq_step. cbn [is_sep is_space is_eol N.eqb Pos.eqb orb].
    destruct (Hrest (rev id' ++ [i0]) defb [] 10) as (a & b & c & d & ->). do 4 eexists. reflexivity.
  - rewrite Ht. rewrite Ht in Hinfo. cbn [forallb] in Hinfo. apply andb_true_iff in Hinfo. destruct Hinfo as [_ Hinfo].
    cbn [app]. fq_step. cbn [is_sep is_space is_eol N.eqb Pos.eqb orb negb].
    rewrite run_steps_app.
    match goal with |- context [mkst 4 ?a ?b ?c ?d ?e ?f ?g ?h] =>
      destruct (fastq_def_phase shift t a b c d e f g h Hinfo) as (p3 & ->) end.
    fq_step. cbn [is_sep is_space is_eol N.eqb Pos.eqb orb negb].
    replace (rev (rev t ++ [123])) with (123 :: t) by (rewrite rev_app_distr, rev_involutive; reflexivity).
    destruct (Hrest (rev id' ++ [i0]) (rev t ++ [123]) (123 :: t) 10) as (a & b & c & d & ->). do 4 eexists. reflexivity.
Qed.

Lemma fastq_batch_run_wide : forall shift l r idb ident defb defn seqb qb prev out,
  shift_wide shift -> fq_ok r = true -> forallb fq_ok l = true ->
  exists s', run_steps (fastq_step shift) (mkst 1 idb ident defb defn seqb qb prev out) (fastq_tail shift r ++ fastq_text shift l) = Some s'
             /\ s_state s' = 11%nat /\ s_out s' = rev (map as_parsed_q (r :: l)) ++ out.
Proof.
  intros shift. induction l as [|r2 l IH]; intros r idb ident defb defn seqb qb prev out Hs Hr Hl.
  - destruct (fastq_record_wide shift r idb ident defb defn seqb qb prev out Hs Hr) as (a & b & c & d & H).
    unfold fastq_text. cbn [map concat]. rewrite app_nil_r. eexists. split; [exact H|]. split; reflexivity.
  - cbn [forallb] in Hl. apply andb_true_iff in Hl. destruct Hl as [Hr2 Hl].
    destruct (fastq_record_wide shift r idb ident defb defn seqb qb prev out Hs Hr) as (a & b & c & d & H).
    rewrite run_steps_app, H. unfold fastq_text. cbn [map concat]. rewrite format_fastq_tail.
    cbn [app]. fq_step. cbn [is_eol N.eqb Pos.eqb orb].
    destruct (IH r2 a (w_id r) b (header_info (w_ann r)) c d 64 (as_parsed_q r :: out) Hs Hr2 Hl) as (s' & Hs' & Hst & Hout).
    exists s'. split; [exact Hs'|]. split; [exact Hst|]. rewrite Hout.
    cbn [map rev]. rewrite <- !app_assoc. reflexivity.
Qed.

Theorem fastq_roundtrip_wide : forall shift l, shift_wide shift -> l <> [] -> forallb fq_ok l = true ->
  exists text, format_batch true shift l = Ok text /\ parse_fastq shift text = Ok (map as_parsed_q l).
Proof.
  intros shift l Hs Hne Hok. exists (fastq_text shift l). split; [apply format_batch_fastq; exact Hok|].
  destruct l as [|r l]; [congruence|]. cbn [forallb] in Hok. apply andb_true_iff in Hok. destruct Hok as [Hr Hl].
  unfold fastq_text. cbn [map concat]. rewrite format_fastq_tail. cbn [app].
  unfold parse_fastq. fq_step. unfold st0 at 1. cbn [s_state N.eqb Pos.eqb].
  destruct (fastq_batch_run_wide shift l r [] [] [] [] [] [] 64 [] Hs Hr Hl) as (s' & Hs' & Hst & Hout).
  unfold fastq_text in Hs'. unfold st0. cbn [s_idb s_ident s_defb s_defn s_seqb s_qualb s_out]. rewrite Hs', Hst. cbn [Nat.eqb andb].
  rewrite Hout, app_nil_r, rev_involutive. reflexivity.
Qed.

Theorem fastq_write_read_wide : forall guessed shift l, shift_wide shift -> l <> [] -> forallb fq_ok l = true -> forallb ann_utf8 l = true ->
  exists text, format_batch true shift l = Ok text /\ read_file jdec0 true guessed shift text = RL l.
Proof.
  intros guessed shift l Hs Hne Hok Hu. destruct (fastq_roundtrip_wide shift l Hs Hne Hok) as (text & Hw & Hp).
  exists text. split; [exact Hw|]. unfold read_file. rewrite Hp.
  pose proof (fq_ok_all_rec_ok l Hok) as Hok'.
  unfold as_parsed_q. rewrite (read_all_written2 jdec0 guessed w_qual l Hok' (dec_inverts_jdec0 l Hok' Hu)).
  f_equal. rewrite <- (map_id l) at 2. apply map_ext. intros [a b c d]. reflexivity.
Qed.

(** the domain is exact: below 256, the chunk parser returns every written batch iff 14 <= offset <= 172 *)
Theorem fastq_shift_domain_exact : forall shift, shift < 256 ->
  ((forall l, l <> [] -> forallb fq_ok l = true ->
      exists text, format_batch true shift l = Ok text /\ parse_fastq shift text = Ok (map as_parsed_q l))
   <-> shift_wide shift).
Proof.
  intros shift Hlt. split.
  - intros H. unfold shift_wide.
    destruct (N.lt_ge_cases shift 14) as [Hlo|Hlo]; [|destruct (N.lt_ge_cases 172 shift) as [Hhi|Hhi]; [|lia]]; exfalso.
    + destruct (shift_outside_refuted shift Hlt (or_introl Hlo)) as (Hok & text & Hw & Hp).
      destruct (H [bad_rec shift]) as (text' & Hw' & Hp'); [discriminate | cbn [forallb]; rewrite Hok; reflexivity |].
      rewrite Hw in Hw'. injection Hw' as <-. apply Hp. exact Hp'.
    + destruct (shift_outside_refuted shift Hlt (or_intror Hhi)) as (Hok & text & Hw & Hp).
      destruct (H [bad_rec shift]) as (text' & Hw' & Hp'); [discriminate | cbn [forallb]; rewrite Hok; reflexivity |].
      rewrite Hw in Hw'. injection Hw' as <-. apply Hp. exact Hp'.
  - intros Hs l Hne Hok. apply fastq_roundtrip_wide; assumption.
Qed.

(** ** text nobody formatted: two places where the readers decide *)
(** _storeSequenceQuality: a FASTQ record whose quality line has not the length of its sequence is refused, whatever
    follows it (the simplest title line: the identifier alone) *)
Theorem fastq_length_mismatch_refused : forall shift id seq ql rest,
  id_ok id = true -> seq <> [] -> forallb seqchar seq = true -> ql <> [] -> forallb noeol ql = true ->
  length ql <> length seq ->
  parse_fastq shift (64 :: id ++ 10 :: seq ++ [10; 43; 10] ++ ql ++ 10 :: rest) = Fatal.
Proof.
  intros shift id seq ql rest Hid Hne Hsq Hqne Hqn Hlen.
  destruct id as [|i0 id']; [discriminate|]. cbn [id_ok forallb] in Hid.
  apply andb_true_iff in Hid. destruct Hid as [Hi0 Hid']. apply negb_true_iff in Hi0.
  destruct seq as [|c0 seq']; [congruence|]. cbn [forallb] in Hsq. apply andb_true_iff in Hsq. destruct Hsq as [Hc0 Hsq'].
  destruct (seqchar_facts c0 Hc0) as (E1 & E2 & E3 & E4 & E5).
  destruct ql as [|q0 ql']; [congruence|]. cbn [forallb] in Hqn. apply andb_true_iff in Hqn. destruct Hqn as [Hq0n Hq'n].
  apply negb_true_iff in Hq0n.
  unfold parse_fastq.
  assert (Hrun : run_steps (fastq_step shift) st0 (64 :: (i0 :: id') ++ 10 :: (c0 :: seq') ++ [10; 43; 10] ++ (q0 :: ql') ++ 10 :: rest) = None).
  { unfold st0. fq_step. cbn [N.eqb Pos.eqb]. cbn [app]. fq_step. rewrite Hi0. rewrite run_steps_app.
    destruct (fastq_id_phase shift id' [i0] [] [] [] [] [] i0 [] Hid') as (p1 & ->).
    fq_step. cbn [is_sep is_space is_eol N.eqb Pos.eqb orb].
    fq_step. rewrite E3, E4. rewrite run_steps_app.
    match goal with |- context [mkst 6 ?a ?b ?c ?d ?e ?f ?g ?h] =>
      destruct (fastq_seq_phase shift seq' a b c d e f g h Hsq') as (p2 & ->) end.
    fq_step. cbn [is_eol N.eqb Pos.eqb orb].
    fq_step. cbn [is_eol N.eqb Pos.eqb orb].
    fq_step. cbn [is_eol N.eqb Pos.eqb orb].
    cbn [app]. fq_step. rewrite Hq0n. rewrite run_steps_app.
    match goal with |- context [mkst 10 ?a ?b ?c ?d ?e ?f ?g ?h] =>
      destruct (fastq_qual_phase shift ql' a b c d e f g h Hq'n) as (p3 & ->) end.
    fq_step. cbn [is_eol N.eqb Pos.eqb orb].
    unfold store_qual, emit. cbn [s_out s_qualb s_ident s_defn s_seqb p_seq p_id p_def].
    replace (rev (rev ql' ++ [q0])) with (q0 :: ql') by (rewrite rev_app_distr, rev_involutive; reflexivity).
    replace (rev (rev seq' ++ [c0])) with (c0 :: seq') by (rewrite rev_app_distr, rev_involutive; reflexivity).
    apply Nat.eqb_neq in Hlen. rewrite Hlen. cbn [length Nat.eqb orb negb]. reflexivity. }
  rewrite Hrun. reflexivity.
Qed.

Lemma filter_not10_id : forall l, forallb seqchar l = true -> filter not10 l = l.
Proof.
  induction l as [|c l IH]; intros H; [reflexivity|]. cbn [forallb] in H. apply andb_true_iff in H. destruct H as [Hc Hl].
  cbn [filter]. unfold not10 at 1. destruct (seqchar_facts c Hc) as (_ & _ & _ & _ & E). rewrite E. cbn [negb]. rewrite IH by exact Hl. reflexivity.
Qed.

(** a title line made of the identifier alone, the line end right after it (no blank): the record has no definition and
    its sequence line is NOT taken for one (text laid out by other tools; the writer always puts a blank) *)
Theorem fasta_bare_title : forall id seq, id_ok id = true -> seq <> [] -> forallb seqchar seq = true ->
  parse_fasta (62 :: id ++ 10 :: seq ++ [10]) = Ok [mkp id [] seq None].
Proof.
  intros id seq Hid Hne Hsq.
  destruct id as [|i0 id']; [discriminate|]. cbn [id_ok forallb] in Hid.
  apply andb_true_iff in Hid. destruct Hid as [Hi0 Hid']. apply negb_true_iff in Hi0.
  assert (Hi32 : (i0 =? 32) = false).
  { unfold is_sep, is_space in Hi0. apply orb_false_iff in Hi0. destruct Hi0 as [Hi0 _]. apply orb_false_iff in Hi0. tauto. }
  destruct seq as [|c0 seq']; [congruence|]. cbn [forallb] in Hsq. apply andb_true_iff in Hsq. destruct Hsq as [Hc0 Hsq'].
  destruct (seqchar_facts c0 Hc0) as (E1 & E2 & E3 & E4 & E5).
  unfold parse_fasta. cbn [app]. rewrite Hi32.
  assert (Hbody : forallb (fun c => (c =? 10) || seqchar c) (seq' ++ [10]) = true).
  { rewrite forallb_app. apply andb_true_iff. split; [|reflexivity].
    rewrite forallb_forall in *. intros c Hc. rewrite (Hsq' c Hc). apply orb_true_r. }
  assert (Hrun : exists p, run_steps fasta_step st0 (62 :: i0 :: id' ++ 10 :: c0 :: seq' ++ [10])
                 = Some (mkst 6 [] (i0 :: id') [] [] (rev seq' ++ [c0]) [] p [])).
  { unfold st0. rewrite run_steps_cons. unfold fasta_step at 1. cbn [s_state s_idb s_ident s_defb s_defn s_seqb s_qualb s_out N.eqb Pos.eqb].
    rewrite run_steps_cons. unfold fasta_step at 1. cbn [s_state s_idb s_ident s_defb s_defn s_seqb s_qualb s_out]. rewrite Hi0.
    rewrite run_steps_app.
    destruct (fasta_id_phase id' [i0] [] [] [] [] [] i0 [] Hid') as (p1 & ->).
    rewrite run_steps_cons. unfold fasta_step at 1. cbn [s_state s_idb s_ident s_defb s_defn s_seqb s_qualb s_out is_sep is_space is_eol N.eqb Pos.eqb orb].
    replace (rev (rev id' ++ [i0])) with (i0 :: id') by (rewrite rev_app_distr, rev_involutive; reflexivity).
    rewrite run_steps_cons. unfold fasta_step at 1. cbn [s_state s_idb s_ident s_defb s_defn s_seqb s_qualb s_out]. rewrite E3, E4, Hc0.
    match goal with |- context [mkst 6 ?a ?b ?c ?d ?e ?f ?g ?h] =>
      destruct (fasta_seq_phase (seq' ++ [10]) a b c d e f g h Hbody) as (p2 & ->) end.
    exists p2. rewrite filter_app. cbn [filter]. unfold not10 at 2. cbn [N.eqb Pos.eqb negb]. rewrite app_nil_r.
    rewrite filter_not10_id by exact Hsq'. reflexivity. }
  destruct Hrun as (p & Hrun). cbn [app] in Hrun. rewrite Hrun. cbn [s_state Nat.eqb]. unfold emit. cbn [s_ident s_defn s_seqb s_out rev app].
  rewrite rev_app_distr, rev_involutive. reflexivity.
Qed.

(** a record whose attributes are read through the typed getters after the round trip (example for Props3) *)
Definition ex3_ann : list (list N * jvalue) :=
  [([99; 111; 117; 110; 116], JNum [49; 48; 48; 48; 48; 48; 48]);
   ([109], JObj [([97], JNum [51]); ([98], JNum [45; 52])]);
   ([115], JArr [JNum [57; 48; 48; 55; 49; 57; 57; 50; 53; 52; 55; 52; 48; 57; 57; 50]; JNum [48]])].
Definition ex3_recs : list wrec := [mkw [116; 49] ex3_ann [97; 99; 103; 116] (Some [0; 93; 40; 1])].
