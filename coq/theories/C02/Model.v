(** C02 — executable model (definitions only) of the FASTA/FASTQ writer, the chunk parsers restricted to
    what a written batch contains, and the title-line JSON header scanner of pkg/obiformats.
    Bytes are [N]; indices of the scanner are [Z] (start / stop are -1 when unset, as in the Go code). *)
From Coq Require Import NArith ZArith List Bool.
Import ListNotations.
Open Scope N_scope.

(** * JSON values as the writer sees them (numbers are tokens produced by strconv; keys in writing order) *)
Inductive jvalue :=
| JNull | JBool (b : bool) | JNum (tok : list N) | JStr (s : list N)
| JArr (l : list jvalue) | JObj (m : list (list N * jvalue)).

(** go-json appendNormalizedString (HTML escaping off, UTF-8 normalisation on), valid UTF-8 input *)
Definition hexd (n : N) : N := if n <? 10 then 48 + n else 87 + n.
Definition esc_byte (c : N) : list N :=
  if (c =? 34) || (c =? 92) then [92; c]
  else if c =? 10 then [92; 110]
  else if c =? 13 then [92; 114]
  else if c =? 9 then [92; 116]
  else if c <? 32 then [92; 117; 48; 48; hexd (c / 16); hexd (c mod 16)]
  else [c].
Fixpoint esc_string (s : list N) : list N :=
  match s with
  | [] => []
  | c :: t =>
    match t with
    | c2 :: c3 :: t' =>
      if (c =? 226) && (c2 =? 128) && ((c3 =? 168) || (c3 =? 169))
      then 92 :: 117 :: 50 :: 48 :: 50 :: (if c3 =? 168 then 56 else 57) :: esc_string t'
      else esc_byte c ++ esc_string t
    | _ => esc_byte c ++ esc_string t
    end
  end.
Definition ser_str (s : list N) : list N := 34 :: esc_string s ++ [34].

Fixpoint join (sep : N) (ls : list (list N)) : list N :=
  match ls with
  | [] => []
  | x :: rest => match rest with [] => x | _ => x ++ sep :: join sep rest end
  end.

Fixpoint ser (v : jvalue) : list N :=
  match v with
  | JNull => [110; 117; 108; 108]
  | JBool true => [116; 114; 117; 101]
  | JBool false => [102; 97; 108; 115; 101]
  | JNum tok => tok
  | JStr s => ser_str s
  | JArr l => 91 :: join 44 (map ser l) ++ [93]
  | JObj m => 123 :: join 44 (map (fun kv => match kv with (k, x) => ser_str k ++ 58 :: ser x end) m) ++ [125]
  end.

(** bytes a number token may contain: digits + - . e E ; a token is never empty *)
Definition numchar (c : N) : bool :=
  ((48 <=? c) && (c <=? 57)) || (c =? 43) || (c =? 45) || (c =? 46) || (c =? 101) || (c =? 69).
Fixpoint wfv (v : jvalue) : bool :=
  match v with
  | JNum tok => match tok with [] => false | _ => forallb numchar tok end
  | JArr l => forallb wfv l
  | JObj m => forallb (fun kv => wfv (snd kv)) m
  | _ => true
  end.

(** canonical form = what the writer can produce from a Go map: members ordered by ENCODED key (go-json sorts the
    marshalled keys, quotes and escapes included), strictly (no duplicate key) *)
Fixpoint lex_ltb (a b : list N) : bool :=
  match a, b with
  | _, [] => false
  | [], _ :: _ => true
  | x :: a', y :: b' => (x <? y) || ((x =? y) && lex_ltb a' b')
  end.
Fixpoint keys_sorted (ks : list (list N)) : bool :=
  match ks with
  | k1 :: r => match r with k2 :: _ => lex_ltb (ser_str k1) (ser_str k2) && keys_sorted r | [] => true end
  | [] => true
  end.
Fixpoint canon (v : jvalue) : bool :=
  match v with
  | JArr l => forallb canon l
  | JObj m => keys_sorted (map fst m) && forallb (fun kv => canon (snd kv)) m
  | _ => true
  end.

(** * The scanner of _parse_json_header_ : loop state (start, level, inquote, escaped); result (start, stop),
    stop = -1 when the loop ends without closing the object. [fixed = false] is the code before the repair
    (no notion of escaped byte). *)
Fixpoint scan_loop (fixed : bool) (h : list N) (i start level : Z) (inq esc : bool) : Z * Z :=
  match h with
  | [] => (start, (-1)%Z)
  | c :: t =>
    if fixed && esc then scan_loop fixed t (i + 1)%Z start level inq false
    else if fixed && inq && (c =? 92) then scan_loop fixed t (i + 1)%Z start level inq true
    else
      let start := if (level =? 0)%Z && (c =? 123) && negb inq then i else start in
      let inq := if (start >? -1)%Z && (c =? 34) then negb inq else inq in
      let level := if (c =? 123) && negb inq then (level + 1)%Z else level in
      let level := if (c =? 125) && negb inq then (level - 1)%Z else level in
      if (start >=? 0)%Z && (level =? 0)%Z then (start, i)
      else scan_loop fixed t (i + 1)%Z start level inq false
  end.
Definition scan_raw (fixed : bool) (h : list N) : Z * Z := scan_loop fixed h 0%Z (-1)%Z 0%Z false false.
(** [Some (start, stop)] with stop already incremented: the object is h[start:stop] *)
Definition scan_gen (fixed : bool) (h : list N) : option (nat * nat) :=
  let (start, stop) := scan_raw fixed h in
  if (start <? 0)%Z || (stop <? 0)%Z then None else Some (Z.to_nat start, Z.to_nat (stop + 1)).
Definition scan_obj := scan_gen true.
Definition scan_obj_orig := scan_gen false.

(** strings.TrimSpace restricted to ASCII white space *)
Definition is_ws (c : N) : bool := (c =? 32) || ((9 <=? c) && (c <=? 13)).
Fixpoint trim_left (l : list N) : list N :=
  match l with c :: t => if is_ws c then trim_left t else l | [] => [] end.
Definition trim (l : list N) : list N := rev (trim_left (rev (trim_left l))).
Definition slice (a b : nat) (l : list N) : list N := firstn (b - a) (skipn a l).

Inductive hres := HNoObject (def : list N) | HObject (v : jvalue) (def : list N) | HFatal.
Section Header.
  (** the JSON decoder (go-json) is external *)
  Variable dec : list N -> option jvalue.
  Definition parse_header (h : list N) : hres :=
    match scan_obj h with
    | None => HNoObject h
    | Some (a, b) => match dec (slice a b h) with
                     | Some v => HObject v (trim (skipn b h))
                     | None => HFatal
                     end
    end.
End Header.

(** * Writers *)
Fixpoint chunks (fuel : nat) (n : nat) (s : list N) : list (list N) :=
  match fuel with
  | O => []
  | S f => match s with [] => [] | _ => firstn n s :: chunks f n (skipn n s) end
  end.
Definition fold60 (s : list N) : list (list N) := chunks (length s) 60 s.

Record wrec := mkw { w_id : list N; w_ann : list (list N * jvalue); w_seq : list N; w_qual : option (list N) }.
Definition header_info (ann : list (list N * jvalue)) : list N :=
  match ann with [] => [] | _ => ser (JObj ann) end.
Definition title (c : N) (r : wrec) : list N := c :: w_id r ++ 32 :: header_info (w_ann r).

Inductive res (A : Type) := Ok (a : A) | Fatal.
Arguments Ok {A} a. Arguments Fatal {A}.

Definition format_fasta (r : wrec) : list N := title 62 r ++ 10 :: join 10 (fold60 (w_seq r)).
Definition qual_char (shift q : N) : N := ((if 93 <? q then 93 else q) + shift) mod 256.
Definition qual_back (shift c : N) : N := (c + 256 - shift mod 256) mod 256.
Definition quals (r : wrec) : list N :=
  match w_qual r with Some q => q | None => map (fun _ => 40) (w_seq r) end.
Definition format_fastq (shift : N) (r : wrec) : list N :=
  title 64 r ++ 10 :: w_seq r ++ [10; 43; 10] ++ map (qual_char shift) (quals r) ++ [10].
Fixpoint format_batch (fq : bool) (shift : N) (l : list wrec) : res (list N) :=
  match l with
  | [] => Ok []
  | r :: l' =>
    match w_seq r with
    | [] => Fatal
    | _ => match format_batch fq shift l' with
           | Ok b => Ok ((if fq then format_fastq shift r else format_fasta r ++ [10]) ++ b)
           | Fatal => Fatal
           end
    end
  end.

(** * Chunk parsers (transcription of the two byte automata) *)
Definition is_eol (c : N) : bool := (c =? 13) || (c =? 10).
Definition is_space (c : N) : bool := (c =? 32) || (c =? 9).
Definition is_sep (c : N) : bool := is_space c || is_eol c.
Definition lower (c : N) : N := if (65 <=? c) && (c <=? 90) then c + 32 else c.
Definition seqchar (c : N) : bool :=
  ((97 <=? c) && (c <=? 122)) || (c =? 45) || (c =? 46) || (c =? 91) || (c =? 93).

Record prec := mkp { p_id : list N; p_def : list N; p_seq : list N; p_qual : option (list N) }.
(** automaton state: buffers are kept reversed *)
Record pst := mkst { s_state : nat; s_idb : list N; s_ident : list N; s_defb : list N; s_defn : list N;
                     s_seqb : list N; s_qualb : list N; s_prev : N; s_out : list prec }.

Definition emit (s : pst) : list prec := mkp (s_ident s) (s_defn s) (rev (s_seqb s)) None :: s_out s.

Definition fasta_step (s : pst) (c0 : N) : option pst :=
  let eol := is_eol c0 in let sp := is_space c0 in let sep := is_sep c0 in
  let upd st idb ident defb defn seqb out c :=
      Some (mkst st idb ident defb defn seqb (s_qualb s) c out) in
  match s_state s with
  | 0%nat => if c0 =? 62 then upd 1%nat (s_idb s) (s_ident s) (s_defb s) (s_defn s) (s_seqb s) (s_out s) c0 else None
  | 1%nat => if sep then None else upd 2%nat [c0] (s_ident s) (s_defb s) (s_defn s) (s_seqb s) (s_out s) c0
  | 2%nat =>
    if sep then
      if eol then upd 5%nat [] (rev (s_idb s)) (s_defb s) [] (s_seqb s) (s_out s) c0
      else upd 3%nat [] (rev (s_idb s)) (s_defb s) (s_defn s) (s_seqb s) (s_out s) c0
    else upd 2%nat (c0 :: s_idb s) (s_ident s) (s_defb s) (s_defn s) (s_seqb s) (s_out s) c0
  | 3%nat =>
    if eol then upd 5%nat (s_idb s) (s_ident s) (s_defb s) [] (s_seqb s) (s_out s) c0
    else if negb sp then upd 4%nat (s_idb s) (s_ident s) [c0] (s_defn s) (s_seqb s) (s_out s) c0
    else upd 3%nat (s_idb s) (s_ident s) (s_defb s) (s_defn s) (s_seqb s) (s_out s) c0
  | 4%nat =>
    if eol then upd 5%nat (s_idb s) (s_ident s) (s_defb s) (rev (s_defb s)) (s_seqb s) (s_out s) c0
    else upd 4%nat (s_idb s) (s_ident s) (c0 :: s_defb s) (s_defn s) (s_seqb s) (s_out s) c0
  | 5%nat =>
    if eol then upd 5%nat (s_idb s) (s_ident s) (s_defb s) (s_defn s) (s_seqb s) (s_out s) c0
    else let c := lower c0 in
         if seqchar c then upd 6%nat (s_idb s) (s_ident s) (s_defb s) (s_defn s) [c] (s_out s) c else None
  | 6%nat =>
    if c0 =? 62 then
      if is_eol (s_prev s) then upd 1%nat (s_idb s) (s_ident s) (s_defb s) (s_defn s) (s_seqb s) (emit s) c0 else None
    else if negb sep then
      let c := lower c0 in
      if seqchar c then upd 6%nat (s_idb s) (s_ident s) (s_defb s) (s_defn s) (c :: s_seqb s) (s_out s) c else None
    else upd 6%nat (s_idb s) (s_ident s) (s_defb s) (s_defn s) (s_seqb s) (s_out s) c0
  | _ => None
  end.

Fixpoint run_steps (step : pst -> N -> option pst) (s : pst) (l : list N) : option pst :=
  match l with
  | [] => Some s
  | c :: t => match step s c with Some s' => run_steps step s' t | None => None end
  end.
Definition st0 : pst := mkst 0 [] [] [] [] [] [] 0 [].

Definition parse_fasta (b : list N) : res (list prec) :=
  match b with
  | 62 :: c :: _ =>
    if c =? 32 then Fatal else
    match run_steps fasta_step st0 b with
    | Some s => Ok (rev (if Nat.eqb (s_state s) 6 then emit s else s_out s))
    | None => Fatal
    end
  | _ => Fatal
  end.

(** _storeSequenceQuality on the last record *)
Definition store_qual (shift : N) (s : pst) : option (list prec) :=
  match s_out s with
  | [] => None
  | r :: out =>
    let q := rev (s_qualb s) in
    if Nat.eqb (length q) 0 || negb (Nat.eqb (length q) (length (p_seq r))) then None
    else Some (mkp (p_id r) (p_def r) (p_seq r) (Some (map (qual_back shift) q)) :: out)
  end.

Definition fastq_step (shift : N) (s : pst) (c0 : N) : option pst :=
  let eol := is_eol c0 in let sp := is_space c0 in let sep := is_sep c0 in
  let upd st idb ident defb defn seqb qualb out c :=
      Some (mkst st idb ident defb defn seqb qualb c out) in
  let same st := upd st (s_idb s) (s_ident s) (s_defb s) (s_defn s) (s_seqb s) (s_qualb s) (s_out s) c0 in
  match s_state s with
  | 0%nat => if c0 =? 64 then same 1%nat else None
  | 1%nat => if sep then None else upd 2%nat [c0] (s_ident s) (s_defb s) (s_defn s) (s_seqb s) (s_qualb s) (s_out s) c0
  | 2%nat =>
    if sep then
      if eol then upd 5%nat (s_idb s) (rev (s_idb s)) (s_defb s) [] (s_seqb s) (s_qualb s) (s_out s) c0
      else upd 3%nat (s_idb s) (rev (s_idb s)) (s_defb s) (s_defn s) (s_seqb s) (s_qualb s) (s_out s) c0
    else upd 2%nat (c0 :: s_idb s) (s_ident s) (s_defb s) (s_defn s) (s_seqb s) (s_qualb s) (s_out s) c0
  | 3%nat =>
    if eol then upd 5%nat (s_idb s) (s_ident s) (s_defb s) [] (s_seqb s) (s_qualb s) (s_out s) c0
    else if negb sp then upd 4%nat (s_idb s) (s_ident s) [c0] (s_defn s) (s_seqb s) (s_qualb s) (s_out s) c0
    else same 3%nat
  | 4%nat =>
    if eol then upd 5%nat (s_idb s) (s_ident s) (s_defb s) (rev (s_defb s)) (s_seqb s) (s_qualb s) (s_out s) c0
    else upd 4%nat (s_idb s) (s_ident s) (c0 :: s_defb s) (s_defn s) (s_seqb s) (s_qualb s) (s_out s) c0
  | 5%nat =>
    if eol then same 5%nat
    else let c := lower c0 in upd 6%nat (s_idb s) (s_ident s) (s_defb s) (s_defn s) [c] (s_qualb s) (s_out s) c
  | 6%nat =>
    if eol then upd 7%nat (s_idb s) (s_ident s) (s_defb s) (s_defn s) (s_seqb s) (s_qualb s) (emit s) c0
    else let c := lower c0 in
         if seqchar c then upd 6%nat (s_idb s) (s_ident s) (s_defb s) (s_defn s) (c :: s_seqb s) (s_qualb s) (s_out s) c else None
  | 7%nat => if eol then same 7%nat else if c0 =? 43 then same 8%nat else None
  | 8%nat => if eol then same 9%nat else same 8%nat
  | 9%nat => if eol then same 9%nat
             else upd 10%nat (s_idb s) (s_ident s) (s_defb s) (s_defn s) (s_seqb s) [c0] (s_out s) c0
  | 10%nat =>
    if eol then
      match store_qual shift s with
      | Some out => upd 11%nat (s_idb s) (s_ident s) (s_defb s) (s_defn s) (s_seqb s) (s_qualb s) out c0
      | None => None
      end
    else upd 10%nat (s_idb s) (s_ident s) (s_defb s) (s_defn s) (s_seqb s) (c0 :: s_qualb s) (s_out s) c0
  | 11%nat => if eol then same 11%nat else if c0 =? 64 then same 1%nat else None
  | _ => None
  end.

Definition parse_fastq (shift : N) (b : list N) : res (list prec) :=
  match run_steps (fastq_step shift) st0 b with
  | Some s =>
    if Nat.eqb (s_state s) 10 && negb (Nat.eqb (length (s_out s)) 0) then
      match store_qual shift s with Some out => Ok (rev out) | None => Fatal end
    else Ok (rev (s_out s))
  | None => Fatal
  end.

(** * Reading a written batch back: chunk parser, then the header parser on every record.
    [ROther]: a title line of a shape the writer never produces (text after the object, OBI-style header): not modelled. *)
Inductive rres := RRec (r : wrec) | RFatal | ROther.
Inductive rlist := RL (l : list wrec) | RLFatal | RLOther.
Definition definition_key : list N := [100; 101; 102; 105; 110; 105; 116; 105; 111; 110].
Section Reader.
  Variable dec : list N -> option jvalue.
  (** ParseFastSeqJsonHeader *)
  Definition read_header (p : prec) : rres :=
    match p_def p with
    | [] => RRec (mkw (p_id p) [] (p_seq p) (p_qual p))
    | d => match parse_header dec d with
           | HObject (JObj m) [] => RRec (mkw (p_id p) m (p_seq p) (p_qual p))
           | HNoObject d' => RRec (mkw (p_id p) [(definition_key, JStr d')] (p_seq p) (p_qual p))
           | HFatal => RFatal
           | _ => ROther
           end
    end.
  (** ParseGuessedFastSeqHeader: JSON iff the definition starts with a brace *)
  Definition read_guessed (p : prec) : rres :=
    match p_def p with
    | 123 :: _ => read_header p
    | _ => ROther
    end.
  Fixpoint read_all (f : prec -> rres) (l : list prec) : rlist :=
    match l with
    | [] => RL []
    | p :: l' => match f p with
                 | RRec r => match read_all f l' with RL rs => RL (r :: rs) | e => e end
                 | RFatal => RLFatal
                 | ROther => RLOther
                 end
    end.
  Definition read_file (fq guessed : bool) (shift : N) (text : list N) : rlist :=
    match (if fq then parse_fastq shift text else parse_fasta text) with
    | Fatal => RLFatal
    | Ok ps => read_all (if guessed then read_guessed else read_header) ps
    end.
End Reader.
Definition drop_qual (r : wrec) : wrec := mkw (w_id r) (w_ann r) (w_seq r) None.

(** * The records the property speaks about: identifier non-empty without blank, JSON-representable canonical
    annotations, sequence non-empty over the lower-case sequence alphabet; FASTQ: one quality 0..93 per nucleotide *)
Definition id_ok (id : list N) : bool :=
  match id with [] => false | _ => forallb (fun c => negb (is_sep c)) id end.
Definition rec_ok (r : wrec) : bool :=
  id_ok (w_id r) && wfv (JObj (w_ann r)) && forallb seqchar (w_seq r) && negb (Nat.eqb (length (w_seq r)) 0).
Definition fq_ok (r : wrec) : bool :=
  rec_ok r && match w_qual r with
              | Some q => Nat.eqb (length q) (length (w_seq r)) && forallb (fun x => x <=? 93) q
              | None => false
              end.
(** quality offsets for which a written quality character can never be a blank or a line terminator (33 and 64 are the toolkit's) *)
Definition shift_ok (shift : N) : Prop := 33 <= shift /\ shift <= 162.
Definition canon_rec (r : wrec) : bool := canon (JObj (w_ann r)).
Definition annotated (l : list wrec) : bool := forallb (fun r => negb (Nat.eqb (length (w_ann r)) 0)) l.
(** what the chunk parser returns for a written record: the formatted header is the definition *)
Definition as_parsed (r : wrec) : prec := mkp (w_id r) (header_info (w_ann r)) (w_seq r) None.
Definition as_parsed_q (r : wrec) : prec := mkp (w_id r) (header_info (w_ann r)) (w_seq r) (w_qual r).
Definition noeol (c : N) : bool := negb (is_eol c).

(** * Correspondence cases: inputs + what the real code answered *)
Fixpoint nlist_eqb (l l' : list N) : bool :=
  match l, l' with
  | [], [] => true | x :: l, y :: l' => (x =? y) && nlist_eqb l l' | _, _ => false end.
Definition oqual_eqb (a b : option (list N)) : bool :=
  match a, b with Some x, Some y => nlist_eqb x y | None, None => true | _, _ => false end.
Definition prec_eqb (a b : prec) : bool :=
  nlist_eqb (p_id a) (p_id b) && nlist_eqb (p_def a) (p_def b) && nlist_eqb (p_seq a) (p_seq b) && oqual_eqb (p_qual a) (p_qual b).
Fixpoint precs_eqb (l l' : list prec) : bool :=
  match l, l' with
  | [], [] => true | x :: l, y :: l' => prec_eqb x y && precs_eqb l l' | _, _ => false end.

Inductive ccase :=
| CSer (v : jvalue) (bytes : list N)                                   (* marshaller output; the value is in the theorems' domain *)
| CScan (h : list N) (start stop : Z) (found : bool) (rest : list N)   (* hook: interval; rest returned when found and decodable *)
| CWrite (fq : bool) (shift : N) (l : list wrec) (dom : bool) (bytes : list N) (* FormatFasta/FastqBatch; dom: generator says the records are inside the claim *)
| CRead (fq : bool) (shift : N) (bytes : list N) (l : list prec).      (* chunk parser (before the header parser) *)

Definition check (c : ccase) : bool :=
  match c with
  | CSer v b => nlist_eqb (ser v) b && wfv v && canon v
  | CScan h a b found rest =>
    let (a', b') := scan_raw true h in
    (a' =? a)%Z && (b' =? b)%Z &&
    (if found then match scan_obj h with Some (_, e) => nlist_eqb (trim (skipn e h)) rest | None => false end else true)
  | CWrite fq shift l dom b =>
    Bool.eqb (forallb (if fq then fq_ok else rec_ok) l && forallb canon_rec l) dom &&
    match format_batch fq shift l with Ok b' => nlist_eqb b' b | Fatal => false end
  | CRead fq shift b l =>
    match (if fq then parse_fastq shift b else parse_fasta b) with Ok l' => precs_eqb l' l | Fatal => false end
  end.

Fixpoint mismatches_from (i : nat) (l : list ccase) : list nat :=
  match l with
  | [] => []
  | c :: l' => let rest := mismatches_from (S i) l' in if check c then rest else i :: rest
  end.
Definition mismatches := mismatches_from 0.
