(** C02 — executable model (definitions only) of the FASTA/FASTQ writer, the chunk parsers restricted to
    what a written batch contains, and the title-line JSON header scanner of pkg/obiformats.
    Bytes are [N]; indices of the scanner are [Z] (start / stop are -1 when unset, as in the Go code). *)
From Coq Require Import NArith ZArith List Bool.
Import ListNotations.
Open Scope N_scope.

(** * JSON values as the writer sees them (numbers are tokens produced by strconv; keys in writing order) *)
Inductive jvalue :=
| JNull | JBool (b : bool) | JNum (tok : list N) | JStr (s : list N)
| JArr (l : list jvalue) | JObj (m : list (list N * jvalue)).

(** go-json appendNormalizedString (HTML escaping off, UTF-8 normalisation on); round 2: any byte string *)
Definition hexd (n : N) : N := if n <? 10 then 48 + n else 87 + n.
Definition esc_byte (c : N) : list N :=
  if (c =? 34) || (c =? 92) then [92; c]
  else if c =? 10 then [92; 110]
  else if c =? 13 then [92; 114]
  else if c =? 9 then [92; 116]
  else if c <? 32 then [92; 117; 48; 48; hexd (c / 16); hexd (c mod 16)]
  else [c].
Definition contb (c : N) : bool := (128 <=? c) && (c <=? 191).
(** size of the valid UTF-8 sequence that starts with byte c followed by t (0: none): Go's acceptance ranges
    (no overlong form, no surrogate, nothing above U+10FFFF) *)
Definition vprefix (c : N) (t : list N) : nat :=
  if (194 <=? c) && (c <=? 223) then
    match t with c2 :: _ => if contb c2 then 2 else 0 | _ => 0 end
  else if (224 <=? c) && (c <=? 239) then
    match t with
    | c2 :: c3 :: _ =>
      if ((if c =? 224 then 160 else 128) <=? c2) && (c2 <=? (if c =? 237 then 159 else 191)) && contb c3 then 3 else 0
    | _ => 0
    end
  else if (240 <=? c) && (c <=? 244) then
    match t with
    | c2 :: c3 :: c4 :: _ =>
      if ((if c =? 240 then 144 else 128) <=? c2) && (c2 <=? (if c =? 244 then 143 else 191)) && contb c3 && contb c4 then 4 else 0
    | _ => 0
    end
  else 0%nat.
Definition ufffd : list N := [92; 117; 102; 102; 102; 100].
Definition is_lsep (c : N) (t : list N) : bool :=
  match t with c2 :: c3 :: _ => (c =? 226) && (c2 =? 128) && ((c3 =? 168) || (c3 =? 169)) | _ => false end.
Definition lsep_esc (t : list N) : list N :=
  match t with _ :: c3 :: _ => [92; 117; 50; 48; 50; if c3 =? 168 then 56 else 57] | _ => [] end.
(** go-json appendNormalizedString, byte by byte: [copy] continuation bytes of a valid rune still to be copied,
    [skip] bytes of an escaped U+2028/9 still to be dropped; an invalid byte is written as the 6 characters � *)
Fixpoint esc_u (copy skip : nat) (s : list N) : list N :=
  match s with
  | [] => []
  | c :: t =>
    match skip with
    | S k => esc_u copy k t
    | O =>
      if c <? 128 then esc_byte c ++ esc_u 0 0 t
      else match copy with
           | S k => c :: esc_u k 0 t
           | O =>
             match vprefix c t with
             | O => ufffd ++ esc_u 0 0 t
             | S n => if is_lsep c t then lsep_esc t ++ esc_u 0 2 t else c :: esc_u n 0 t
             end
           end
    end
  end.
Fixpoint utf8_ok_u (copy : nat) (s : list N) : bool :=
  match s with
  | [] => match copy with O => true | _ => false end
  | c :: t =>
    if c <? 128 then match copy with O => utf8_ok_u 0 t | _ => false end
    else match copy with
         | S k => utf8_ok_u k t
         | O => match vprefix c t with O => false | S n => utf8_ok_u n t end
         end
  end.
Definition utf8_ok (s : list N) : bool := utf8_ok_u 0 s.

Definition esc_string (s : list N) : list N := esc_u 0 0 s.
Definition ser_str (s : list N) : list N := 34 :: esc_string s ++ [34].

Fixpoint join (sep : N) (ls : list (list N)) : list N :=
  match ls with
  | [] => []
  | x :: rest => match rest with [] => x | _ => x ++ sep :: join sep rest end
  end.

Fixpoint ser (v : jvalue) : list N :=
  match v with
  | JNull => [110; 117; 108; 108]
  | JBool true => [116; 114; 117; 101]
  | JBool false => [102; 97; 108; 115; 101]
  | JNum tok => tok
  | JStr s => ser_str s
  | JArr l => 91 :: join 44 (map ser l) ++ [93]
  | JObj m => 123 :: join 44 (map (fun kv => match kv with (k, x) => ser_str k ++ 58 :: ser x end) m) ++ [125]
  end.

(** bytes a number token may contain: digits + - . e E *)
Definition numchar (c : N) : bool :=
  ((48 <=? c) && (c <=? 57)) || (c =? 43) || (c =? 45) || (c =? 46) || (c =? 101) || (c =? 69).
(** number tokens go-json takes: a minus or a digit first, then what strconv.ParseFloat accepts in decimal (optional minus,
    digits with an optional point — at least one digit —, optional exponent with at least one digit). This is JSON's grammar
    plus leading zeros, "1." and "-.5". As an automaton; state 9 = dead *)
Definition isdig (c : N) : bool := (48 <=? c) && (c <=? 57).
Definition num_step (st : N) (c : N) : N :=
  match st with
  | 0 => if c =? 45 then 1 else if isdig c then 3 else 9
  | 1 => if isdig c then 3 else if c =? 46 then 4 else 9
  | 3 => if isdig c then 3 else if c =? 46 then 5 else if (c =? 101) || (c =? 69) then 6 else 9
  | 4 => if isdig c then 5 else 9
  | 5 => if isdig c then 5 else if (c =? 101) || (c =? 69) then 6 else 9
  | 6 => if (c =? 43) || (c =? 45) then 7 else if isdig c then 8 else 9
  | 7 => if isdig c then 8 else 9
  | 8 => if isdig c then 8 else 9
  | _ => 9
  end.
Definition num_final (st : N) : bool :=
  match st with 3 | 5 | 8 => true | _ => false end.
Definition numtok (t : list N) : bool := forallb numchar t && num_final (fold_left num_step t 0).

(** well-formed value: every number token is one go-json reads (what strconv produces for ints and finite floats included) *)
Fixpoint wfv (v : jvalue) : bool :=
  match v with
  | JNum tok => numtok tok
  | JArr l => forallb wfv l
  | JObj m => forallb (fun kv => wfv (snd kv)) m
  | _ => true
  end.

(** every string and key is valid UTF-8 (what "arbitrary Unicode" means for a Go string) *)
Fixpoint utf8v (v : jvalue) : bool :=
  match v with
  | JStr s => utf8_ok s
  | JArr l => forallb utf8v l
  | JObj m => forallb (fun kv => utf8_ok (fst kv) && utf8v (snd kv)) m
  | _ => true
  end.

(** canonical form = what the writer can produce from a Go map: members ordered by ENCODED key (go-json sorts the
    marshalled keys, quotes and escapes included), strictly (no duplicate key) *)
Fixpoint lex_ltb (a b : list N) : bool :=
  match a, b with
  | _, [] => false
  | [], _ :: _ => true
  | x :: a', y :: b' => (x <? y) || ((x =? y) && lex_ltb a' b')
  end.
Fixpoint keys_sorted (ks : list (list N)) : bool :=
  match ks with
  | k1 :: r => match r with k2 :: _ => lex_ltb (ser_str k1) (ser_str k2) && keys_sorted r | [] => true end
  | [] => true
  end.
Fixpoint canon (v : jvalue) : bool :=
  match v with
  | JArr l => forallb canon l
  | JObj m => keys_sorted (map fst m) && forallb (fun kv => canon (snd kv)) m
  | _ => true
  end.

Fixpoint nlist_eqb (l l' : list N) : bool :=
  match l, l' with
  | [], [] => true | x :: l, y :: l' => (x =? y) && nlist_eqb l l' | _, _ => false end.
(** * An executable JSON value parser (round 2): JSON white space between tokens, every JSON string escape (\\uXXXX incl.
    surrogate pairs; a lone surrogate reads as U+FFFD), raw bytes inside strings as go-json takes them, number tokens validated
    against the JSON grammar and kept as tokens. [jparse s = Some (v, rest)]: the value at the head of [s] and what follows.
    Fuel bounds the nesting depth and the number of elements of one array/object; [S (length s)] is always enough. *)
Fixpoint span_num (s : list N) : list N * list N :=
  match s with
  | c :: r => if numchar c then let (a, b) := span_num r in (c :: a, b) else ([], s)
  | [] => ([], [])
  end.

Fixpoint strip (p s : list N) : option (list N) :=
  match p with
  | [] => Some s
  | x :: p' => match s with y :: s' => if x =? y then strip p' s' else None | [] => None end
  end.

Definition unhex (c : N) : option N :=
  if (48 <=? c) && (c <=? 57) then Some (c - 48)
  else if (97 <=? c) && (c <=? 102) then Some (c - 87)
  else if (65 <=? c) && (c <=? 70) then Some (c - 55)
  else None.
Definition unhex4 (a b c d : N) : option N :=
  match unhex a, unhex b, unhex c, unhex d with
  | Some x, Some y, Some z, Some w => Some (((x * 16 + y) * 16 + z) * 16 + w)
  | _, _, _, _ => None
  end.
(** UTF-8 of a code point of the basic plane; None for a UTF-16 surrogate (handled by the caller) *)
Definition utf8 (cp : N) : option (list N) :=
  if cp <? 128 then Some [cp]
  else if cp <? 2048 then Some [192 + cp / 64; 128 + cp mod 64]
  else if (55296 <=? cp) && (cp <=? 57343) then None
  else Some [224 + cp / 4096; 128 + (cp / 64) mod 64; 128 + cp mod 64].

(** string body after the opening quote, up to and including the closing quote *)
Fixpoint parse_str (s : list N) : option (list N * list N) :=
  match s with
  | [] => None
  | c :: r =>
    if c =? 34 then Some ([], r)
    else if c =? 92 then
      match r with
      | [] => None
      | e :: r1 =>
        let simple (x : N) := match parse_str r1 with Some (t, r') => Some (x :: t, r') | None => None end in
        if e =? 34 then simple 34 else if e =? 92 then simple 92 else if e =? 47 then simple 47
        else if e =? 98 then simple 8 else if e =? 102 then simple 12 else if e =? 110 then simple 10
        else if e =? 114 then simple 13 else if e =? 116 then simple 9
        else if e =? 117 then
          match r1 with
          | a :: b :: c2 :: d :: r2 =>
            match unhex4 a b c2 d with
            | Some cp => match utf8 cp with
                         | Some bytes => match parse_str r2 with Some (t, r') => Some (bytes ++ t, r') | None => None end
                         | None =>
                           (* a UTF-16 surrogate: with the low surrogate that follows it is one rune of a higher plane;
                              alone it becomes U+FFFD (go-json decodeUnicodeRune + utf8.EncodeRune) *)
                           let alone := match parse_str r2 with Some (t, r') => Some (239 :: 191 :: 189 :: t, r') | None => None end in
                           match r2 with
                           | b1 :: b2 :: e :: f :: g :: h :: r3 =>
                             if (b1 =? 92) && (b2 =? 117) then
                               match unhex4 e f g h with
                               | Some lo =>
                                 if (cp <? 56320) && (56320 <=? lo) && (lo <=? 57343) then
                                   let u := 65536 + (cp - 55296) * 1024 + (lo - 56320) in
                                   match parse_str r3 with
                                   | Some (t, r') => Some (240 + u / 262144 :: 128 + (u / 4096) mod 64 :: 128 + (u / 64) mod 64 :: 128 + u mod 64 :: t, r')
                                   | None => None
                                   end
                                 else alone
                               | None => alone
                               end
                             else alone
                           | _ => alone
                           end
                         end
            | None => None
            end
          | _ => None
          end
        else None
      end
    else if c =? 0 then None      (* go-json: a raw NUL byte ends its buffer *)
    else match parse_str r with Some (t, r') => Some (c :: t, r') | None => None end
  end.

(** JSON white space between tokens *)
Definition is_jws (c : N) : bool := (c =? 32) || (c =? 9) || (c =? 10) || (c =? 13).
Fixpoint skip_ws (s : list N) : list N :=
  match s with c :: r => if is_jws c then skip_ws r else s | [] => [] end.

Definition lit_null := [110; 117; 108; 108].
Definition lit_true := [116; 114; 117; 101].
Definition lit_false := [102; 97; 108; 115; 101].

Section Elems.
  Variable pv : list N -> option (jvalue * list N).
  (** elements after '[' (at least one) up to and including ']' *)
  Fixpoint parse_elems (n : nat) (s : list N) : option (list jvalue * list N) :=
    match n with
    | O => None
    | S n' =>
      match pv s with
      | Some (v, r0) =>
        match skip_ws r0 with
        | c :: r =>
          if c =? 93 then Some ([v], r)
          else if c =? 44 then match parse_elems n' r with Some (l, r') => Some (v :: l, r') | None => None end
          else None
        | [] => None
        end
      | None => None
      end
    end.
  (** members after '{' (at least one) up to and including '}' *)
  Fixpoint parse_members (n : nat) (s : list N) : option (list (list N * jvalue) * list N) :=
    match n with
    | O => None
    | S n' =>
      match skip_ws s with
      | q :: s1 =>
        if q =? 34 then
          match parse_str s1 with
          | Some (k, s2) =>
            match skip_ws s2 with
            | col :: s3 =>
              if col =? 58 then
                match pv s3 with
                | Some (v, r0) =>
                  match skip_ws r0 with
                  | c :: r =>
                    if c =? 125 then Some ([(k, v)], r)
                    else if c =? 44 then match parse_members n' r with Some (l, r') => Some ((k, v) :: l, r') | None => None end
                    else None
                  | [] => None
                  end
                | None => None
                end
              else None
            | [] => None
            end
          | None => None
          end
        else None
      | [] => None
      end
    end.
End Elems.

Fixpoint jparse_f (fuel : nat) (s : list N) : option (jvalue * list N) :=
  match fuel with
  | O => None
  | S f =>
    match skip_ws s with
    | [] => None
    | c :: r =>
      if c =? 34 then match parse_str r with Some (t, r') => Some (JStr t, r') | None => None end
      else if c =? 91 then
        match skip_ws r with
        | c2 :: r2 => if c2 =? 93 then Some (JArr [], r2)
                      else match parse_elems (jparse_f f) f r with Some (l, r') => Some (JArr l, r') | None => None end
        | [] => None
        end
      else if c =? 123 then
        match skip_ws r with
        | c2 :: r2 => if c2 =? 125 then Some (JObj [], r2)
                      else match parse_members (jparse_f f) f r with Some (l, r') => Some (JObj l, r') | None => None end
        | [] => None
        end
      else if numchar c then
        let (t, r') := span_num (c :: r) in if numtok t then Some (JNum t, r') else None
      else match strip lit_null (c :: r) with Some r' => Some (JNull, r') | None =>
           match strip lit_true (c :: r) with Some r' => Some (JBool true, r') | None =>
           match strip lit_false (c :: r) with Some r' => Some (JBool false, r') | None => None end end end
    end
  end.
Definition jparse (s : list N) : option (jvalue * list N) := jparse_f (S (length s)) s.
(** go-json's Unmarshal on the slice delimited by the scanner, at the level of syntax: exactly one value, nothing after it *)
Definition jdec0 (t : list N) : option jvalue :=
  match jparse t with Some (v, []) => Some v | _ => None end.


(** decoding into a Go map: members re-ordered by encoded key, the last of several members with the same key wins;
    numbers become float64 and are written back as [renum tok] *)
Definition key_ltb (a b : list N) : bool := lex_ltb (ser_str a) (ser_str b).
Fixpoint ins (kv : list N * jvalue) (m : list (list N * jvalue)) : list (list N * jvalue) :=
  match m with
  | [] => [kv]
  | kv' :: m' => if key_ltb (fst kv) (fst kv') then kv :: m
                 else if key_ltb (fst kv') (fst kv) then kv' :: ins kv m'
                 else m
  end.
Section Norm.
  Variable renum : list N -> list N.
  Fixpoint norm (v : jvalue) : jvalue :=
    match v with
    | JNum t => JNum (renum t)
    | JArr l => JArr (map norm l)
    | JObj m => JObj (fold_right (fun kv acc => ins (fst kv, norm (snd kv)) acc) [] m)
    | _ => v
    end.
  Definition jdec (t : list N) : option jvalue :=
    match jdec0 t with Some v => Some (norm v) | None => None end.
  Fixpoint numfixed (v : jvalue) : bool :=
    match v with
    | JNum t => nlist_eqb (renum t) t
    | JArr l => forallb numfixed l
    | JObj m => forallb (fun kv => numfixed (snd kv)) m
    | _ => true
    end.
End Norm.


(** * The number path of the reader: token -> float64 (strconv.ParseFloat) -> token (go-json AppendFloat64),
    modelled for INTEGER tokens (optional minus, digits); other tokens are left as they are. *)
Definition dval (ds : list N) : N := fold_left (fun a d => a * 10 + (d - 48)) ds 0.
Fixpoint digits_f (fuel : nat) (n : N) : list N :=
  match fuel with
  | O => []
  | S f => if n <? 10 then [48 + n] else digits_f f (n / 10) ++ [48 + n mod 10]
  end.
Definition digits (n : N) : list N := digits_f (S (N.to_nat (N.size n))) n.

(** nearest float64 (ties to even) of a natural number, as a natural number (no overflow below 2^1024) *)
Definition round64 (n : N) : N :=
  let b := N.size n in
  if b <=? 53 then n
  else let sh := b - 53 in
       let q := N.shiftr n sh in
       let r := n - N.shiftl q sh in
       let half := N.shiftl 1 (sh - 1) in
       let q' := if (half <? r) || ((half =? r) && N.odd q) then q + 1 else q in
       N.shiftl q' sh.

(** shortest decimal that reads back as x (x = round64 x, x > 2^53): the digits and the number of zeros that follow *)
Definition pow10 (k : nat) : N := 10 ^ N.of_nat k.
Fixpoint shortest_f (n : nat) (nd : nat) (x : N) : N :=
  (* n = number of digits still to try to drop; candidates keep (nd - n) leading digits *)
  match n with
  | O => x
  | S n' =>
    let p := pow10 n in
    let lo := (x / p) * p in
    let hi := lo + p in
    let okd := round64 lo =? x in
    let oku := round64 hi =? x in
    if okd && oku then
      let rem := x - lo in
      if (p <? 2 * rem) || ((p =? 2 * rem) && N.odd (x / p)) then hi else lo
    else if okd then lo
    else if oku then hi
    else shortest_f n' nd x
  end.
Definition shortest (x : N) : N := let nd := length (digits x) in shortest_f (nd - 1) nd x.

Fixpoint strip_zeros_r (l : list N) : list N := (* l reversed *)
  match l with 48 :: r => strip_zeros_r r | _ => l end.
Definition two_digits (e : N) : list N := if e <? 10 then [48; 48 + e] else digits e.
(** strconv 'e' format with the shortest digits *)
Definition fmt_e (y : N) : list N :=
  let ds := digits y in
  let sig := rev (strip_zeros_r (rev ds)) in
  let e := N.of_nat (length ds - 1) in
  match sig with
  | [] => []
  | d :: [] => d :: 101 :: 43 :: two_digits e
  | d :: r => d :: 46 :: r ++ 101 :: 43 :: two_digits e
  end.
Definition fmt_nat64 (x : N) : list N :=
  if N.size x <=? 53 then digits x                        (* an integer below 2^53: its decimal digits *)
  else let y := shortest x in
       if y <? 10 ^ 21 then digits y else fmt_e y.        (* go-json: 'e' format from 1e21 on *)

Definition all_digits (ds : list N) : bool := forallb isdig ds.
Definition split_sign (t : list N) : bool * list N :=
  match t with c :: ds => if c =? 45 then (true, ds) else (false, t) | [] => (false, []) end.
Definition renum_int (t : list N) : list N :=
  let (neg, ds) := split_sign t in
  let x := round64 (dval ds) in
  if neg then 45 :: (if x =? 0 then [48] else fmt_nat64 x) else fmt_nat64 x.
Definition is_int_tok (t : list N) : bool := all_digits (snd (split_sign t)).
(** * The number path on ANY JSON number token: exact decimal -> nearest float64 -> shortest decimal -> go-json layout *)
Record f64 := F64 { fm : N; fe : Z }.   (* value fm * 2^fe; normal: 2^52 <= fm < 2^53; subnormal: fe = -1074, fm < 2^52 *)
Definition f64_eqb (a b : f64) : bool := (fm a =? fm b) && (fe a =? fe b)%Z.
Definition p2 (k : Z) : N := N.shiftl 1 (Z.to_N k).
Definition p10 (k : Z) : N := 10 ^ Z.to_N k.

(** nearest float64 (ties to even) of the positive rational num/den *)
Definition to_f64 (num den : N) : f64 :=
  if num =? 0 then F64 0 0 else
  let q_at (e : Z) := if (0 <=? e)%Z then num / (den * p2 e) else (num * p2 (- e)) / den in
  let adj (e : Z) := let q := q_at e in if 2 ^ 53 <=? q then (e + 1)%Z else if q <? 2 ^ 52 then (e - 1)%Z else e in
  let e0 := (Z.of_N (N.size num) - Z.of_N (N.size den) - 53)%Z in
  let e := Z.max (adj (adj e0)) (-1074) in
  let n' := if (0 <=? e)%Z then num else num * p2 (- e) in
  let d' := if (0 <=? e)%Z then den * p2 e else den in
  let q := n' / d' in
  let r := n' - q * d' in
  let q' := if (d' <? 2 * r) || ((d' =? 2 * r) && N.odd q) then q + 1 else q in
  if q' =? 2 ^ 53 then F64 (2 ^ 52) (e + 1) else F64 q' e.
Definition to_f64_dec (d : N) (p : Z) : f64 :=
  if (0 <=? p)%Z then to_f64 (d * p10 p) 1 else to_f64 d (p10 (- p)).
Definition f64_num (x : f64) : N := if (0 <=? fe x)%Z then fm x * p2 (fe x) else fm x.
Definition f64_den (x : f64) : N := if (0 <=? fe x)%Z then 1 else p2 (- fe x).

(** largest k with 10^k <= vn/vd *)
Fixpoint find_neg (fuel : nat) (vn vd : N) (j : Z) : Z :=
  match fuel with
  | O => j
  | S f => if vd <=? vn * p10 j then j else find_neg f vn vd (j + 1)%Z
  end.
Definition dec_exp (vn vd : N) : Z :=
  if vd <=? vn then (Z.of_nat (length (digits (vn / vd))) - 1)%Z
  else (- find_neg 400 vn vd 1)%Z.

(** does the decimal d * 10^p read back as x (lie in the rounding interval of x = m * 2^e)? Bounds in units of 2^(e-2):
    4m + 2 above; 4m - 2 below, 4m - 1 when m = 2^52 (the gap below a power of two is half as wide; not for the smallest
    normal); the bounds themselves belong to the interval iff m is even (ties go to even). Cross-multiplied, no division. *)
Definition reads_back (x : f64) (d : N) (p : Z) : bool :=
  let m := fm x in let e2 := (fe x - 2)%Z in
  let hi := 4 * m + 2 in
  let lo := if (m =? 2 ^ 52) && (-1074 <? fe x)%Z then 4 * m - 1 else 4 * m - 2 in
  (* compare d * 10^p with b * 2^e2 *)
  let c := (if (0 <=? p)%Z then d * p10 p else d) * (if (0 <=? e2)%Z then 1 else p2 (- e2)) in
  let sc := (if (0 <=? p)%Z then 1 else p10 (- p)) * (if (0 <=? e2)%Z then p2 e2 else 1) in
  if N.even m then (lo * sc <=? c) && (c <=? hi * sc) else (lo * sc <? c) && (c <? hi * sc).

(** shortest decimal d * 10^p that reads back as x; n = number of digits tried *)
Fixpoint shortest_dec (fuel : nat) (n : Z) (x : f64) (vn vd : N) (k : Z) : N * Z :=
  match fuel with
  | O => (0, 0%Z)
  | S f =>
    let p := (k - n + 1)%Z in
    let wn := if (0 <=? p)%Z then vn else vn * p10 (- p) in
    let wd := if (0 <=? p)%Z then vd * p10 p else vd in
    let lo := wn / wd in
    let r := wn - lo * wd in
    let okd := negb (lo =? 0) && reads_back x lo p in
    let oku := reads_back x (lo + 1) p in
    if okd && oku then
      (if (wd <? 2 * r) || ((wd =? 2 * r) && N.odd lo) then lo + 1 else lo, p)
    else if okd then (lo, p)
    else if oku then (lo + 1, p)
    else shortest_dec f (n + 1)%Z x vn vd k
  end.

Fixpoint strip0 (fuel : nat) (d : N) (p : Z) : N * Z :=
  match fuel with
  | O => (d, p)
  | S f => if (d mod 10 =? 0) && negb (d =? 0) then strip0 f (d / 10) (p + 1)%Z else (d, p)
  end.
Definition zeros (k : Z) : list N := repeat 48 (Z.to_nat k).
Definition exp_digits (e : Z) : list N :=
  let a := Z.to_N (Z.abs e) in (if (e <? 0)%Z then 45 else 43) :: (if a <? 10 then [48; 48 + a] else digits a).

(** go-json AppendFloat64 of the positive float64 x *)
Definition fmt_f64 (x : f64) : list N :=
  let vn := f64_num x in let vd := f64_den x in
  let k := dec_exp vn vd in
  let (d0, p0) := shortest_dec 20 1 x vn vd k in
  let (d, p) := strip0 20 d0 p0 in
  let D := digits d in
  let nd := Z.of_nat (length D) in
  let dp := (nd + p)%Z in
  let t6 := to_f64_dec 1 (-6) in
  let small := vn * f64_den t6 <? f64_num t6 * vd in
  let big := p10 21 * vd <=? vn in
  if small || big then
    match D with
    | [] => []
    | c :: [] => c :: 101 :: exp_digits (dp - 1)
    | c :: r => c :: 46 :: r ++ 101 :: exp_digits (dp - 1)
    end
  else if (dp <=? 0)%Z then 48 :: 46 :: zeros (- dp) ++ D
  else if (nd <=? dp)%Z then D ++ zeros (dp - nd)
  else firstn (Z.to_nat dp) D ++ 46 :: skipn (Z.to_nat dp) D.

(** token -> sign, mantissa digits value, decimal exponent *)
Fixpoint span_dig (s : list N) : list N * list N :=
  match s with c :: r => if isdig c then let (a, b) := span_dig r in (c :: a, b) else ([], s) | [] => ([], []) end.
Definition tok_parts (t : list N) : bool * N * Z :=
  let (neg, u) := split_sign t in
  let (I, r1) := span_dig u in
  let (F, r2) := match r1 with c :: r => if c =? 46 then span_dig r else ([], r1) | [] => ([], []) end in
  let E := match r2 with
           | c :: r => if (c =? 101) || (c =? 69) then
                         match r with
                         | s :: r' => if s =? 45 then (- Z.of_N (dval (fst (span_dig r'))))%Z
                                      else if s =? 43 then Z.of_N (dval (fst (span_dig r')))
                                      else Z.of_N (dval (fst (span_dig r)))
                         | [] => 0%Z
                         end
                       else 0%Z
           | [] => 0%Z
           end in
  (neg, dval (I ++ F), (E - Z.of_nat (length F))%Z).

Definition renum_any (t : list N) : list N :=
  match tok_parts t with
  | (neg, M, E10) =>
    if M =? 0 then (if neg then [45; 48] else [48])
    else let x := to_f64_dec M E10 in
         if (971 <? fe x)%Z then t                       (* beyond the float64 range: ParseFloat fails (the reader dies): not modelled *)
         else if fm x =? 0 then (if neg then [45; 48] else [48])
         else (if neg then [45] else []) ++ fmt_f64 x
  end.


(** a number token beyond the float64 range makes strconv.ParseFloat fail: the reader dies on the title line *)
Definition tok_finite (t : list N) : bool :=
  match tok_parts t with
  | (_, M, E10) => if M =? 0 then true else (fe (to_f64_dec M E10) <=? 971)%Z
  end.
Fixpoint nums_finite (v : jvalue) : bool :=
  match v with
  | JNum t => tok_finite t
  | JArr l => forallb nums_finite l
  | JObj m => forallb (fun kv => nums_finite (snd kv)) m
  | _ => true
  end.

(** the number path of the reader followed by the writer. Integer tokens go through the integer transcription above (about
    which C02_int_tokens_fixed is proved), every other token through the general one. Defensive: the result is always a
    number token. *)
Definition renum64 (t : list N) : list N :=
  if numtok t then
    let r := if is_int_tok t then renum_int t else renum_any t in
    if numtok r then r else t
  else t.

(** * The scanner of _parse_json_header_ : loop state (start, level, inquote, escaped); result (start, stop),
    stop = -1 when the loop ends without closing the object. [fixed = false] is the code before the repair
    (no notion of escaped byte). *)
Fixpoint scan_loop (fixed : bool) (h : list N) (i start level : Z) (inq esc : bool) : Z * Z :=
  match h with
  | [] => (start, (-1)%Z)
  | c :: t =>
    if fixed && esc then scan_loop fixed t (i + 1)%Z start level inq false
    else if fixed && inq && (c =? 92) then scan_loop fixed t (i + 1)%Z start level inq true
    else
      let start := if (level =? 0)%Z && (c =? 123) && negb inq then i else start in
      let inq := if (start >? -1)%Z && (c =? 34) then negb inq else inq in
      let level := if (c =? 123) && negb inq then (level + 1)%Z else level in
      let level := if (c =? 125) && negb inq then (level - 1)%Z else level in
      if (start >=? 0)%Z && (level =? 0)%Z then (start, i)
      else scan_loop fixed t (i + 1)%Z start level inq false
  end.
Definition scan_raw (fixed : bool) (h : list N) : Z * Z := scan_loop fixed h 0%Z (-1)%Z 0%Z false false.
(** [Some (start, stop)] with stop already incremented: the object is h[start:stop] *)
Definition scan_gen (fixed : bool) (h : list N) : option (nat * nat) :=
  let (start, stop) := scan_raw fixed h in
  if (start <? 0)%Z || (stop <? 0)%Z then None else Some (Z.to_nat start, Z.to_nat (stop + 1)).
Definition scan_obj := scan_gen true.
Definition scan_obj_orig := scan_gen false.

(** strings.TrimSpace: ASCII white space and the Unicode White_Space runes in their UTF-8 encoding
    (U+0085, U+00A0, U+1680, U+2000..U+200A, U+2028, U+2029, U+202F, U+205F, U+3000) *)
Definition is_ws (c : N) : bool := (c =? 32) || ((9 <=? c) && (c <=? 13)).
Fixpoint trim_left (l : list N) : list N :=
  match l with
  | c :: t =>
    if is_ws c then trim_left t
    else match t with
         | c2 :: t2 =>
           if (c =? 194) && ((c2 =? 133) || (c2 =? 160)) then trim_left t2
           else match t2 with
                | c3 :: t3 =>
                  if ((c =? 225) && (c2 =? 154) && (c3 =? 128))
                     || ((c =? 226) && (c2 =? 128) && (((128 <=? c3) && (c3 <=? 138)) || (c3 =? 168) || (c3 =? 169) || (c3 =? 175)))
                     || ((c =? 226) && (c2 =? 129) && (c3 =? 159))
                     || ((c =? 227) && (c2 =? 128) && (c3 =? 128))
                  then trim_left t3 else l
                | [] => l
                end
         | [] => l
         end
  | [] => []
  end.
(** the same from the end, on the reversed list (last byte first) *)
Fixpoint trim_left_rev (l : list N) : list N :=
  match l with
  | c :: t =>
    if is_ws c then trim_left_rev t
    else match t with
         | c2 :: t2 =>
           if (c2 =? 194) && ((c =? 133) || (c =? 160)) then trim_left_rev t2
           else match t2 with
                | c3 :: t3 =>
                  if ((c3 =? 225) && (c2 =? 154) && (c =? 128))
                     || ((c3 =? 226) && (c2 =? 128) && (((128 <=? c) && (c <=? 138)) || (c =? 168) || (c =? 169) || (c =? 175)))
                     || ((c3 =? 226) && (c2 =? 129) && (c =? 159))
                     || ((c3 =? 227) && (c2 =? 128) && (c =? 128))
                  then trim_left_rev t3 else l
                | [] => l
                end
         | [] => l
         end
  | [] => []
  end.
Definition trim (l : list N) : list N := rev (trim_left_rev (rev (trim_left l))).
Definition slice (a b : nat) (l : list N) : list N := firstn (b - a) (skipn a l).

Inductive hres := HNoObject (def : list N) | HObject (v : jvalue) (def : list N) | HFatal.
Section Header.
  (** the JSON decoder (go-json) is external *)
  Variable dec : list N -> option jvalue.
  Definition parse_header (h : list N) : hres :=
    match scan_obj h with
    | None => HNoObject h
    | Some (a, b) => match dec (slice a b h) with
                     | Some v => HObject v (trim (skipn b h))
                     | None => HFatal
                     end
    end.
End Header.

(** * Writers *)
Fixpoint chunks (fuel : nat) (n : nat) (s : list N) : list (list N) :=
  match fuel with
  | O => []
  | S f => match s with [] => [] | _ => firstn n s :: chunks f n (skipn n s) end
  end.
Definition fold60 (s : list N) : list (list N) := chunks (length s) 60 s.

Record wrec := mkw { w_id : list N; w_ann : list (list N * jvalue); w_seq : list N; w_qual : option (list N) }.
Definition header_info (ann : list (list N * jvalue)) : list N :=
  match ann with [] => [] | _ => ser (JObj ann) end.
Definition title (c : N) (r : wrec) : list N := c :: w_id r ++ 32 :: header_info (w_ann r).

Inductive res (A : Type) := Ok (a : A) | Fatal.
Arguments Ok {A} a. Arguments Fatal {A}.

Definition format_fasta (r : wrec) : list N := title 62 r ++ 10 :: join 10 (fold60 (w_seq r)).
Definition qual_char (shift q : N) : N := ((if 93 <? q then 93 else q) + shift) mod 256.
Definition qual_back (shift c : N) : N := (c + 256 - shift mod 256) mod 256.
Definition quals (r : wrec) : list N :=
  match w_qual r with Some q => q | None => map (fun _ => 40) (w_seq r) end.
Definition format_fastq (shift : N) (r : wrec) : list N :=
  title 64 r ++ 10 :: w_seq r ++ [10; 43; 10] ++ map (qual_char shift) (quals r) ++ [10].
Fixpoint format_batch (fq : bool) (shift : N) (l : list wrec) : res (list N) :=
  match l with
  | [] => Ok []
  | r :: l' =>
    match w_seq r with
    | [] => Fatal
    | _ => match format_batch fq shift l' with
           | Ok b => Ok ((if fq then format_fastq shift r else format_fasta r ++ [10]) ++ b)
           | Fatal => Fatal
           end
    end
  end.

(** * Chunk parsers (transcription of the two byte automata) *)
Definition is_eol (c : N) : bool := (c =? 13) || (c =? 10).
Definition is_space (c : N) : bool := (c =? 32) || (c =? 9).
Definition is_sep (c : N) : bool := is_space c || is_eol c.
Definition lower (c : N) : N := if (65 <=? c) && (c <=? 90) then c + 32 else c.
Definition seqchar (c : N) : bool :=
  ((97 <=? c) && (c <=? 122)) || (c =? 45) || (c =? 46) || (c =? 91) || (c =? 93).

Record prec := mkp { p_id : list N; p_def : list N; p_seq : list N; p_qual : option (list N) }.
(** automaton state: buffers are kept reversed *)
Record pst := mkst { s_state : nat; s_idb : list N; s_ident : list N; s_defb : list N; s_defn : list N;
                     s_seqb : list N; s_qualb : list N; s_prev : N; s_out : list prec }.

Definition emit (s : pst) : list prec := mkp (s_ident s) (s_defn s) (rev (s_seqb s)) None :: s_out s.

Definition fasta_step (s : pst) (c0 : N) : option pst :=
  let eol := is_eol c0 in let sp := is_space c0 in let sep := is_sep c0 in
  let upd st idb ident defb defn seqb out c :=
      Some (mkst st idb ident defb defn seqb (s_qualb s) c out) in
  match s_state s with
  | 0%nat => if c0 =? 62 then upd 1%nat (s_idb s) (s_ident s) (s_defb s) (s_defn s) (s_seqb s) (s_out s) c0 else None
  | 1%nat => if sep then None else upd 2%nat [c0] (s_ident s) (s_defb s) (s_defn s) (s_seqb s) (s_out s) c0
  | 2%nat =>
    if sep then
      if eol then upd 5%nat [] (rev (s_idb s)) (s_defb s) [] (s_seqb s) (s_out s) c0
      else upd 3%nat [] (rev (s_idb s)) (s_defb s) (s_defn s) (s_seqb s) (s_out s) c0
    else upd 2%nat (c0 :: s_idb s) (s_ident s) (s_defb s) (s_defn s) (s_seqb s) (s_out s) c0
  | 3%nat =>
    if eol then upd 5%nat (s_idb s) (s_ident s) (s_defb s) [] (s_seqb s) (s_out s) c0
    else if negb sp then upd 4%nat (s_idb s) (s_ident s) [c0] (s_defn s) (s_seqb s) (s_out s) c0
    else upd 3%nat (s_idb s) (s_ident s) (s_defb s) (s_defn s) (s_seqb s) (s_out s) c0
  | 4%nat =>
    if eol then upd 5%nat (s_idb s) (s_ident s) (s_defb s) (rev (s_defb s)) (s_seqb s) (s_out s) c0
    else upd 4%nat (s_idb s) (s_ident s) (c0 :: s_defb s) (s_defn s) (s_seqb s) (s_out s) c0
  | 5%nat =>
    if eol then upd 5%nat (s_idb s) (s_ident s) (s_defb s) (s_defn s) (s_seqb s) (s_out s) c0
    else let c := lower c0 in
         if seqchar c then upd 6%nat (s_idb s) (s_ident s) (s_defb s) (s_defn s) [c] (s_out s) c else None
  | 6%nat =>
    if c0 =? 62 then
      if is_eol (s_prev s) then upd 1%nat (s_idb s) (s_ident s) (s_defb s) (s_defn s) (s_seqb s) (emit s) c0 else None
    else if negb sep then
      let c := lower c0 in
      if seqchar c then upd 6%nat (s_idb s) (s_ident s) (s_defb s) (s_defn s) (c :: s_seqb s) (s_out s) c else None
    else upd 6%nat (s_idb s) (s_ident s) (s_defb s) (s_defn s) (s_seqb s) (s_out s) c0
  | _ => None
  end.

Fixpoint run_steps (step : pst -> N -> option pst) (s : pst) (l : list N) : option pst :=
  match l with
  | [] => Some s
  | c :: t => match step s c with Some s' => run_steps step s' t | None => None end
  end.
Definition st0 : pst := mkst 0 [] [] [] [] [] [] 0 [].

Definition parse_fasta (b : list N) : res (list prec) :=
  match b with
  | 62 :: c :: _ =>
    if c =? 32 then Fatal else
    match run_steps fasta_step st0 b with
    | Some s => Ok (rev (if Nat.eqb (s_state s) 6 then emit s else s_out s))
    | None => Fatal
    end
  | _ => Fatal
  end.

(** _storeSequenceQuality on the last record *)
Definition store_qual (shift : N) (s : pst) : option (list prec) :=
  match s_out s with
  | [] => None
  | r :: out =>
    let q := rev (s_qualb s) in
    if Nat.eqb (length q) 0 || negb (Nat.eqb (length q) (length (p_seq r))) then None
    else Some (mkp (p_id r) (p_def r) (p_seq r) (Some (map (qual_back shift) q)) :: out)
  end.

Definition fastq_step (shift : N) (s : pst) (c0 : N) : option pst :=
  let eol := is_eol c0 in let sp := is_space c0 in let sep := is_sep c0 in
  let upd st idb ident defb defn seqb qualb out c :=
      Some (mkst st idb ident defb defn seqb qualb c out) in
  let same st := upd st (s_idb s) (s_ident s) (s_defb s) (s_defn s) (s_seqb s) (s_qualb s) (s_out s) c0 in
  match s_state s with
  | 0%nat => if c0 =? 64 then same 1%nat else None
  | 1%nat => if sep then None else upd 2%nat [c0] (s_ident s) (s_defb s) (s_defn s) (s_seqb s) (s_qualb s) (s_out s) c0
  | 2%nat =>
    if sep then
      if eol then upd 5%nat (s_idb s) (rev (s_idb s)) (s_defb s) [] (s_seqb s) (s_qualb s) (s_out s) c0
      else upd 3%nat (s_idb s) (rev (s_idb s)) (s_defb s) (s_defn s) (s_seqb s) (s_qualb s) (s_out s) c0
    else upd 2%nat (c0 :: s_idb s) (s_ident s) (s_defb s) (s_defn s) (s_seqb s) (s_qualb s) (s_out s) c0
  | 3%nat =>
    if eol then upd 5%nat (s_idb s) (s_ident s) (s_defb s) [] (s_seqb s) (s_qualb s) (s_out s) c0
    else if negb sp then upd 4%nat (s_idb s) (s_ident s) [c0] (s_defn s) (s_seqb s) (s_qualb s) (s_out s) c0
    else same 3%nat
  | 4%nat =>
    if eol then upd 5%nat (s_idb s) (s_ident s) (s_defb s) (rev (s_defb s)) (s_seqb s) (s_qualb s) (s_out s) c0
    else upd 4%nat (s_idb s) (s_ident s) (c0 :: s_defb s) (s_defn s) (s_seqb s) (s_qualb s) (s_out s) c0
  | 5%nat =>
    if eol then same 5%nat
    else let c := lower c0 in upd 6%nat (s_idb s) (s_ident s) (s_defb s) (s_defn s) [c] (s_qualb s) (s_out s) c
  | 6%nat =>
    if eol then upd 7%nat (s_idb s) (s_ident s) (s_defb s) (s_defn s) (s_seqb s) (s_qualb s) (emit s) c0
    else let c := lower c0 in
         if seqchar c then upd 6%nat (s_idb s) (s_ident s) (s_defb s) (s_defn s) (c :: s_seqb s) (s_qualb s) (s_out s) c else None
  | 7%nat => if eol then same 7%nat else if c0 =? 43 then same 8%nat else None
  | 8%nat => if eol then same 9%nat else same 8%nat
  | 9%nat => if eol then same 9%nat
             else upd 10%nat (s_idb s) (s_ident s) (s_defb s) (s_defn s) (s_seqb s) [c0] (s_out s) c0
  | 10%nat =>
    if eol then
      match store_qual shift s with
      | Some out => upd 11%nat (s_idb s) (s_ident s) (s_defb s) (s_defn s) (s_seqb s) (s_qualb s) out c0
      | None => None
      end
    else upd 10%nat (s_idb s) (s_ident s) (s_defb s) (s_defn s) (s_seqb s) (c0 :: s_qualb s) (s_out s) c0
  | 11%nat => if eol then same 11%nat else if c0 =? 64 then same 1%nat else None
  | _ => None
  end.

Definition parse_fastq (shift : N) (b : list N) : res (list prec) :=
  match run_steps (fastq_step shift) st0 b with
  | Some s =>
    if Nat.eqb (s_state s) 10 && negb (Nat.eqb (length (s_out s)) 0) then
      match store_qual shift s with Some out => Ok (rev out) | None => Fatal end
    else Ok (rev (s_out s))
  | None => Fatal
  end.

(** * Reading a written batch back: chunk parser, then the header parser on every record.
    [ROther]: a title line of a shape the writer never produces (text after the object, OBI-style header): not modelled. *)
Inductive rres := RRec (r : wrec) | RFatal | ROther.
Inductive rlist := RL (l : list wrec) | RLFatal | RLOther.
Definition definition_key : list N := [100; 101; 102; 105; 110; 105; 116; 105; 111; 110].
Fixpoint lookup_key (k : list N) (m : list (list N * jvalue)) : option jvalue :=
  match m with (k', v) :: m' => if nlist_eqb k k' then Some v else lookup_key k m' | [] => None end.
(** set a member of a canonical member list (replaces the member with the same key) *)
Fixpoint put (kv : list N * jvalue) (m : list (list N * jvalue)) : list (list N * jvalue) :=
  match m with
  | [] => [kv]
  | kv' :: m' => if key_ltb (fst kv) (fst kv') then kv :: m
                 else if key_ltb (fst kv') (fst kv) then kv' :: put kv m'
                 else kv :: m'
  end.
Section Reader.
  Variable dec : list N -> option jvalue.
  (** ParseFastSeqJsonHeader. Text after the JSON object becomes the definition, appended (after a blank) to the
      "definition" member of the object when there is one. *)
  Definition read_header (p : prec) : rres :=
    match p_def p with
    | [] => RRec (mkw (p_id p) [] (p_seq p) (p_qual p))
    | d => match parse_header dec d with
           | HObject (JObj m) [] => RRec (mkw (p_id p) m (p_seq p) (p_qual p))
           | HObject (JObj m) rest =>
             match lookup_key definition_key m with
             | None => RRec (mkw (p_id p) (put (definition_key, JStr rest) m) (p_seq p) (p_qual p))
             | Some (JStr s) => RRec (mkw (p_id p) (put (definition_key, JStr (s ++ 32 :: rest)) m) (p_seq p) (p_qual p))
             | Some _ => ROther
             end
           | HNoObject d' => RRec (mkw (p_id p) [(definition_key, JStr d')] (p_seq p) (p_qual p))
           | HFatal => RFatal
           | _ => ROther
           end
    end.
  (** ParseGuessedFastSeqHeader: JSON iff the definition starts with a brace; the OBI-style parser is only modelled on
      the empty definition (a record written without any annotation), where it does nothing *)
  Definition read_guessed (p : prec) : rres :=
    match p_def p with
    | 123 :: _ => read_header p
    | [] => RRec (mkw (p_id p) [] (p_seq p) (p_qual p))
    | _ => ROther
    end.
  Fixpoint read_all (f : prec -> rres) (l : list prec) : rlist :=
    match l with
    | [] => RL []
    | p :: l' => match f p with
                 | RRec r => match read_all f l' with RL rs => RL (r :: rs) | e => e end
                 | RFatal => RLFatal
                 | ROther => RLOther
                 end
    end.
  Definition read_file (fq guessed : bool) (shift : N) (text : list N) : rlist :=
    match (if fq then parse_fastq shift text else parse_fasta text) with
    | Fatal => RLFatal
    | Ok ps => read_all (if guessed then read_guessed else read_header) ps
    end.
End Reader.
Definition drop_qual (r : wrec) : wrec := mkw (w_id r) (w_ann r) (w_seq r) None.

(** * The records the property speaks about: identifier non-empty without blank, JSON-representable canonical
    annotations, sequence non-empty over the lower-case sequence alphabet; FASTQ: one quality 0..93 per nucleotide *)
Definition id_ok (id : list N) : bool :=
  match id with [] => false | _ => forallb (fun c => negb (is_sep c)) id end.
Definition rec_ok (r : wrec) : bool :=
  id_ok (w_id r) && wfv (JObj (w_ann r)) && forallb seqchar (w_seq r) && negb (Nat.eqb (length (w_seq r)) 0).
Definition fq_ok (r : wrec) : bool :=
  rec_ok r && match w_qual r with
              | Some q => Nat.eqb (length q) (length (w_seq r)) && forallb (fun x => x <=? 93) q
              | None => false
              end.
(** quality offsets for which a written quality character can never be a blank or a line terminator (33 and 64 are the toolkit's) *)
Definition shift_ok (shift : N) : Prop := 33 <= shift /\ shift <= 162.
Definition canon_rec (r : wrec) : bool := canon (JObj (w_ann r)).
Definition ann_utf8 (r : wrec) : bool := utf8v (JObj (w_ann r)).
Definition annotated (l : list wrec) : bool := forallb (fun r => negb (Nat.eqb (length (w_ann r)) 0)) l.
(** what the chunk parser returns for a written record: the formatted header is the definition *)
Definition as_parsed (r : wrec) : prec := mkp (w_id r) (header_info (w_ann r)) (w_seq r) None.
Definition as_parsed_q (r : wrec) : prec := mkp (w_id r) (header_info (w_ann r)) (w_seq r) (w_qual r).
Definition noeol (c : N) : bool := negb (is_eol c).

(** * Correspondence cases: inputs + what the real code answered *)
Definition oqual_eqb (a b : option (list N)) : bool :=
  match a, b with Some x, Some y => nlist_eqb x y | None, None => true | _, _ => false end.
Definition prec_eqb (a b : prec) : bool :=
  nlist_eqb (p_id a) (p_id b) && nlist_eqb (p_def a) (p_def b) && nlist_eqb (p_seq a) (p_seq b) && oqual_eqb (p_qual a) (p_qual b).
Fixpoint precs_eqb (l l' : list prec) : bool :=
  match l, l' with
  | [], [] => true | x :: l, y :: l' => prec_eqb x y && precs_eqb l l' | _, _ => false end.

Inductive ccase :=
| CSer (v : jvalue) (valid : bool) (bytes : list N)                    (* marshaller output; valid: the generator says every string is valid UTF-8 (the theorems' domain) *)
| CDec (bytes : list N) (bytes2 : list N)                              (* go-json: Unmarshal bytes (produced by the marshaller) then Marshal again *)
| CHdr (guessed strict : bool) (def : list N) (fatal : bool) (enc : list N) (* header parser on a title remainder; enc = formatted annotations afterwards *)
| CScan (h : list N) (start stop : Z) (found : bool) (rest : list N)   (* hook: interval; rest returned when found and decodable *)
| CWrite (fq : bool) (shift : N) (l : list wrec) (dom : bool) (bytes : list N) (* FormatFasta/FastqBatch; dom: generator says the records are inside the claim *)
| CRead (fq : bool) (shift : N) (bytes : list N) (l : list prec).      (* chunk parser (before the header parser) *)

Definition check (c : ccase) : bool :=
  match c with
  | CSer v valid b => nlist_eqb (ser v) b && wfv v && canon v && Bool.eqb (utf8v v) valid &&
                (negb valid || match jdec0 b with Some v' => nlist_eqb (ser v') b | None => false end)
  | CDec b b2 => match jdec renum64 b with Some v' => nlist_eqb (ser v') b2 | None => false end
  | CHdr guessed strict d fatal enc =>
    match (if guessed then read_guessed (jdec renum64) else read_header (jdec renum64)) (mkp [] d [] None) with
    | RRec r =>
      (* [jdec] keeps a number token beyond the float64 range as it is, the real reader dies on it: exactly then *)
      let finite := match scan_obj d with
                    | Some (a, b) => match jdec0 (slice a b d) with Some v => nums_finite v | None => true end
                    | None => true
                    end in
      if (if guessed then match d with c0 :: _ => if c0 =? 123 then finite else true | [] => true end else finite)
      then negb fatal && nlist_eqb (header_info (w_ann r)) enc
      else fatal
    | RFatal => negb strict      (* the model refuses: go-json may be more lenient (not modelled) unless the generator vouches for the text *)
    | ROther => negb strict
    end
  | CScan h a b found rest =>
    let (a', b') := scan_raw true h in
    (a' =? a)%Z && (b' =? b)%Z &&
    (if found then match scan_obj h with Some (_, e) => nlist_eqb (trim (skipn e h)) rest | None => false end else true)
  | CWrite fq shift l dom b =>
    Bool.eqb (forallb (if fq then fq_ok else rec_ok) l && forallb canon_rec l && forallb ann_utf8 l) dom &&
    match format_batch fq shift l with Ok b' => nlist_eqb b' b | Fatal => false end
  | CRead fq shift b l =>
    match (if fq then parse_fastq shift b else parse_fasta b) with Ok l' => precs_eqb l' l | Fatal => false end
  end.

Fixpoint mismatches_from (i : nat) (l : list ccase) : list nat :=
  match l with
  | [] => []
  | c :: l' => let rest := mismatches_from (S i) l' in if check c then rest else i :: rest
  end.
Definition mismatches := mismatches_from 0.
