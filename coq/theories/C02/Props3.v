(** C02, round 3 — property theorems over the newly exercised code (statements only; proofs are [exact] of lemmas of Proofs3.v).

    Vocabulary (Model3.v): [get_int] / [get_int_map] / [get_int_slice] / [int_or] = GetIntAttribute / GetIntMap / GetIntSlice /
    Count, Taxid on a record READ from a title line, where every number is a float64: the getter truncates the float64 of the
    token ([tok_trunc]); [tokval t] = the integer the digits of [t] denote; [small_int_tok t]: canonical digits, |x| <= 2^53.
    [format_batch_skip] = FormatFastaBatch / FormatFastqBatch with skipEmpty; [batches_of] = IBatchOver; [format_all] = one
    FormatFastxBatch per batch; [file_after append before chunks] = the output file of WriteFastaToFile / WriteFastqToFile.
    All of it is compared with the real code on every run (correspondence cases CTyped, CReadFatal, CWriteFatal, CWriteSkip, CFile). *)
From Coq Require Import NArith ZArith List Bool.
From OBI.C02 Require Import Model Proofs.
From OBI.C02 Require Import Model3 Proofs3.
Import ListNotations.
Open Scope N_scope.

(** ** typed getters after the round trip: "numbers compared by value" as the toolkit's own accessors see them *)
(** [core] an integer |x| <= 2^53 that went through the reader's float64 comes back from the integer getter as itself *)
Theorem C02_typed_int_roundtrip : forall t, small_int_tok t = true -> get_int (Some (JNum (renum64 t))) = Some (tokval t).
Proof. exact typed_int_roundtrip. Qed.
(** sharp: 2^53 + 1 comes back as 2^53 *)
Theorem C02_typed_int_bound_is_sharp : exists t, is_int_tok t = true /\ numtok t = true /\ tokval t = (2 ^ 53 + 1)%Z /\
  get_int (Some (JNum (renum64 t))) = Some (2 ^ 53)%Z.
Proof. exact typed_int_sharp. Qed.
(** maps of integers (merged_* statistics) and lists of integers (landmark coordinates) through GetIntMap / GetIntSlice *)
Theorem C02_typed_int_map : forall m, int_members m = true ->
  get_int_map (Some (JObj m)) = Some (map (fun kv => (fst kv, intval (snd kv))) m).
Proof. exact typed_int_map. Qed.
Theorem C02_typed_int_slice : forall l, int_elems l = true -> get_int_slice (Some (JArr l)) = Some (map intval l).
Proof. exact typed_int_slice. Qed.
(** Count(): the "count" attribute when it is such an integer, 1 when there is none *)
Theorem C02_typed_count : forall m t, lookup_key key_count m = Some (JNum t) -> small_int_tok t = true ->
  int_or 1 (lookup_key key_count m) = tokval t.
Proof. exact typed_count. Qed.
Theorem C02_typed_count_default : forall m, lookup_key key_count m = None -> int_or 1 (lookup_key key_count m) = 1%Z.
Proof. exact typed_count_default. Qed.
(** [core] whole path: write a batch, read it (chunk parser, header parser, Go map with float64 numbers), ask the i-th record
    for an integer attribute: the written integer (FASTA and FASTQ, JSON and guessed header parser) *)
Theorem C02_int_attribute_survives_fasta : forall guessed shift l i r k t, l <> [] -> forallb rec_ok l = true ->
  forallb (map_ok renum64) l = true -> nth_error l i = Some r -> lookup_key k (w_ann r) = Some (JNum t) -> small_int_tok t = true ->
  exists text l' r', format_batch false shift l = Ok text /\ read_file (jdec renum64) false guessed shift text = RL l' /\
    nth_error l' i = Some r' /\ w_ann r' = w_ann r /\ get_int (lookup_key k (w_ann r')) = Some (tokval t).
Proof. exact int_attribute_survives_fasta. Qed.
Theorem C02_int_attribute_survives_fastq : forall guessed shift l i r k t, shift_ok shift -> l <> [] -> forallb fq_ok l = true ->
  forallb (map_ok renum64) l = true -> nth_error l i = Some r -> lookup_key k (w_ann r) = Some (JNum t) -> small_int_tok t = true ->
  exists text l' r', format_batch true shift l = Ok text /\ read_file (jdec renum64) true guessed shift text = RL l' /\
    nth_error l' i = Some r' /\ w_ann r' = w_ann r /\ get_int (lookup_key k (w_ann r')) = Some (tokval t).
Proof. exact int_attribute_survives_fastq. Qed.

(** ** batches, files *)
(** the text of a concatenation of batches is the concatenation of the texts (several input files, several worker batches,
    a text repeated beyond the 1 MiB read buffer): the round-trip theorems of Props.v apply to the whole *)
Theorem C02_format_batch_app : forall fq shift l1 l2, format_batch fq shift (l1 ++ l2) =
  match format_batch fq shift l1, format_batch fq shift l2 with Ok a, Ok b => Ok (a ++ b) | _, _ => Fatal end.
Proof. exact format_batch_app. Qed.
(** the batch formatter refuses exactly the batches holding a record without nucleotides (never a silent loss); with
    skipEmpty it never refuses, and changes nothing when there is no such record *)
Theorem C02_format_batch_ok_iff : forall fq shift l, (exists t, format_batch fq shift l = Ok t) <-> forallb nonempty_seq l = true.
Proof. exact format_batch_ok_iff. Qed.
Theorem C02_format_batch_skip_ok : forall fq shift l, exists t, format_batch_skip fq shift l = Ok t.
Proof. exact format_batch_skip_ok. Qed.
Theorem C02_format_batch_skip_id : forall fq shift l, forallb nonempty_seq l = true -> format_batch_skip fq shift l = format_batch fq shift l.
Proof. exact format_batch_skip_id. Qed.
(** [core] the file written from batches of any size n > 0 holds exactly the text of the whole record list — after what was
    there before in append mode, instead of it otherwise *)
Theorem C02_file_content : forall fq n l text before, (0 < n)%nat -> format_batch fq 33 l = Ok text ->
  exists ts, format_all fq 33 (batches_of (length l) n l) = Ok ts /\ file_after false before ts = text /\
             file_after true before ts = before ++ text.
Proof. exact file_content. Qed.

(** ** quality offsets: C02_fastq_roundtrip (Props.v) is stated for the offsets 33..162, where a quality character is neither a
    line end nor a blank. Round 3: the chunk parser returns every written batch for every offset 14..172 (a quality character is
    then never LF or CR), and for NO other offset below 256: the domain is exact. Offset 0 (scores 10 and 13) is the lead of round 3.
    (Between 14 and 32 and from 163 to 172 a quality character can be a blank or a control character: the chunk SPLITTER of C01
    looks at those; the parser does not.) *)
Theorem C02_fastq_roundtrip_wide : forall guessed shift l, shift_wide shift -> l <> [] -> forallb fq_ok l = true -> forallb ann_utf8 l = true ->
  exists text, format_batch true shift l = Ok text /\ read_file jdec0 true guessed shift text = RL l.
Proof. exact fastq_write_read_wide. Qed.
Theorem C02_fastq_shift_domain_exact_upto_256 : forall shift, shift < 256 ->
  ((forall l, l <> [] -> forallb fq_ok l = true ->
      exists text, format_batch true shift l = Ok text /\ parse_fastq shift text = Ok (map as_parsed_q l))
   <-> shift_wide shift).
Proof. exact fastq_shift_domain_exact. Qed.
Theorem C02_shift_outside_14_172_refuted_upto_256 : forall shift, shift < 256 -> (shift < 14 \/ 172 < shift) ->
  fq_ok (bad_rec shift) = true /\
  exists text, format_batch true shift [bad_rec shift] = Ok text /\ parse_fastq shift text <> Ok [as_parsed_q (bad_rec shift)].
Proof. exact shift_outside_refuted. Qed.
Theorem C02_shift_zero_refuted : exists r, fq_ok r = true /\
  exists text, format_batch true 0 [r] = Ok text /\ parse_fastq 0 text <> Ok [as_parsed_q r].
Proof. exact shift_zero_refuted. Qed.

(** ** text nobody formatted *)
(** _storeSequenceQuality: a FASTQ record whose quality line has not the length of its sequence is refused, whatever follows *)
Theorem C02_fastq_length_mismatch_refused : forall shift id seq ql rest,
  id_ok id = true -> seq <> [] -> forallb seqchar seq = true -> ql <> [] -> forallb noeol ql = true ->
  length ql <> length seq ->
  parse_fastq shift (64 :: id ++ 10 :: seq ++ [10; 43; 10] ++ ql ++ 10 :: rest) = Fatal.
Proof. exact fastq_length_mismatch_refused. Qed.
(** a FASTA title line that ends right after the identifier (no blank; the writer always puts one): no definition, and
    the sequence line is not taken for one *)
Theorem C02_fasta_bare_title : forall id seq, id_ok id = true -> seq <> [] -> forallb seqchar seq = true ->
  parse_fasta (62 :: id ++ 10 :: seq ++ [10]) = Ok [mkp id [] seq None].
Proof. exact fasta_bare_title. Qed.

(** hypotheses are satisfiable: a record with count = 1000000, a map of integers and a list holding 2^53, written as FASTQ
    with offset 64, read back with the guessed parser; the getters return the written integers *)
Example C02_typed_nonvacuous :
  forallb fq_ok ex3_recs = true /\ forallb (map_ok renum64) ex3_recs = true /\ int_members [([97], JNum [51]); ([98], JNum [45; 52])] = true /\
  match format_batch true 64 ex3_recs with
  | Ok t => match read_file (jdec renum64) true true 64 t with
            | RL [r] => int_or 1 (lookup_key key_count (w_ann r)) = 1000000%Z /\
                        get_int_map (lookup_key [109] (w_ann r)) = Some [([97], 3%Z); ([98], (-4)%Z)] /\
                        get_int_slice (lookup_key [115] (w_ann r)) = Some [9007199254740992%Z; 0%Z]
            | _ => False
            end
  | Fatal => False
  end.
Proof. vm_compute. repeat split; reflexivity. Qed.
Example C02_wide_nonvacuous :
  shift_wide 14 /\ shift_wide 172 /\ forallb fq_ok ex3_recs = true /\
  match format_batch true 14 ex3_recs with Ok t => read_file jdec0 true false 14 t = RL ex3_recs | Fatal => False end /\
  match format_batch true 172 ex3_recs with Ok t => read_file jdec0 true true 172 t = RL ex3_recs | Fatal => False end.
Proof. unfold shift_wide. repeat split; try (vm_compute; reflexivity); try (intro H; vm_compute in H; discriminate H). Qed.
Example C02_foreign_nonvacuous :
  parse_fastq 33 [64; 114; 10; 97; 99; 10; 43; 10; 73; 10] = Fatal /\ parse_fastq 33 [64; 114; 10; 97; 99; 10; 43; 10; 73; 73; 10] = Ok [mkp [114] [] [97; 99] (Some [40; 40])] /\
  parse_fasta [62; 114; 10; 65; 99; 10] = Ok [mkp [114] [] [97; 99] None].
Proof. vm_compute. repeat split; reflexivity. Qed.
Example C02_file_nonvacuous :
  match format_batch false 33 (ex3_recs ++ ex3_recs ++ ex3_recs) with
  | Ok text => match format_all false 33 (batches_of 3 2 (ex3_recs ++ ex3_recs ++ ex3_recs)) with
               | Ok ts => length ts = 2%nat /\ file_after true [120] ts = 120 :: text
               | Fatal => False
               end
  | Fatal => False
  end.
Proof. vm_compute. split; reflexivity. Qed.

Print Assumptions C02_typed_int_roundtrip.
Print Assumptions C02_typed_int_bound_is_sharp.
Print Assumptions C02_typed_int_map.
Print Assumptions C02_typed_int_slice.
Print Assumptions C02_typed_count.
Print Assumptions C02_typed_count_default.
Print Assumptions C02_int_attribute_survives_fasta.
Print Assumptions C02_int_attribute_survives_fastq.
Print Assumptions C02_format_batch_app.
Print Assumptions C02_format_batch_ok_iff.
Print Assumptions C02_format_batch_skip_ok.
Print Assumptions C02_format_batch_skip_id.
Print Assumptions C02_file_content.
Print Assumptions C02_shift_outside_14_172_refuted_upto_256.
Print Assumptions C02_shift_zero_refuted.
Print Assumptions C02_fastq_roundtrip_wide.
Print Assumptions C02_fastq_shift_domain_exact_upto_256.
Print Assumptions C02_fastq_length_mismatch_refused.
Print Assumptions C02_fasta_bare_title.
