(** C02, round 3 — executable model (definitions only) of the typed attribute getters of pkg/obiseq/attributes.go
    (GetIntAttribute, GetFloatAttribute, GetBoolAttribute, GetStringAttribute, GetIntMap, GetStringMap, GetIntSlice,
    OBITagRefIndex, Count, Taxid, GetLandmarkID) and of the converters of pkg/obiutils/goutils.go they rest on, as they act on a
    record that was READ from a title line: every number is a float64 (the token after [renum64]), every map a
    map[string]interface, every list a []interface. Plus the output-file discipline of WriteFastaToFile /
    WriteFastqToFile (truncate or append), FormatFastxBatch with skipEmpty, and new correspondence cases. *)
From Coq Require Import NArith ZArith List Bool.
From OBI.C02 Require Import Model.
Import ListNotations.
Open Scope N_scope.

(** * float64 value of a number token: sign and (mantissa, exponent) in the normal form of [to_f64] (zero: F64 0 0) *)
Definition tok_f64 (t : list N) : bool * f64 :=
  match tok_parts t with
  | (neg, M, E10) => (neg, if M =? 0 then F64 0 0 else to_f64_dec M E10)
  end.
(** Go's int(x) for a non-negative float64 inside the int64 range: truncation *)
Definition f64_trunc (x : f64) : N :=
  if (0 <=? fe x)%Z then fm x * p2 (fe x) else fm x / p2 (- fe x).
(** absolute value of int(float64 of the token). Integer tokens go through the integer transcription of the reader
    ([round64], about which the theorems are proved), every other token through the general one. *)
Definition tok_mag (t : list N) : N :=
  let (neg, ds) := split_sign t in
  if all_digits ds then round64 (dval ds) else f64_trunc (snd (tok_f64 t)).
Definition tok_trunc (t : list N) : Z :=
  if fst (split_sign t) then (- Z.of_N (tok_mag t))%Z else Z.of_N (tok_mag t).
(** the integer a token of digits denotes *)
Definition tokval (t : list N) : Z :=
  let (neg, ds) := split_sign t in if neg then (- Z.of_N (dval ds))%Z else Z.of_N (dval ds).

(** * the getters; the argument is the result of the map lookup *)
(** InterfaceToInt: numbers only (a float64 is truncated); bool, string, nil, map, list: error *)
Definition get_int (v : option jvalue) : option Z :=
  match v with Some (JNum t) => Some (tok_trunc t) | _ => None end.
Definition get_float (v : option jvalue) : option (bool * f64) :=
  match v with Some (JNum t) => Some (tok_f64 t) | _ => None end.
(** InterfaceToBool: bool, or a number different from zero *)
Definition get_bool (v : option jvalue) : option bool :=
  match v with
  | Some (JBool b) => Some b
  | Some (JNum t) => Some (negb (fm (snd (tok_f64 t)) =? 0))
  | _ => None
  end.
(** three-valued answers: [Mod r] = the getter answers r; [NotModelled]: fmt.Sprint of a non-string value *)
Inductive ans (A : Type) := Mod (r : option A) | NotModelled.
Arguments Mod {A} r. Arguments NotModelled {A}.
Definition get_string (v : option jvalue) : ans (list N) :=
  match v with Some (JStr s) => Mod (Some s) | None => Mod None | _ => NotModelled end.
Definition isnum (v : jvalue) : bool := match v with JNum _ => true | _ => false end.
Definition isstr (v : jvalue) : bool := match v with JStr _ => true | _ => false end.
Definition numz (v : jvalue) : Z := match v with JNum t => tok_trunc t | _ => 0%Z end.
Definition strof (v : jvalue) : list N := match v with JStr s => s | _ => [] end.
(** InterfaceToIntMap on a map[string]interface: every value through InterfaceToInt, the first failure fails the whole *)
Definition get_int_map (v : option jvalue) : option (list (list N * Z)) :=
  match v with
  | Some (JObj m) => if forallb (fun kv => isnum (snd kv)) m then Some (map (fun kv => (fst kv, numz (snd kv))) m) else None
  | _ => None
  end.
Definition get_string_map (v : option jvalue) : ans (list (list N * list N)) :=
  match v with
  | Some (JObj m) => if forallb (fun kv => isstr (snd kv)) m then Mod (Some (map (fun kv => (fst kv, strof (snd kv))) m)) else NotModelled
  | _ => Mod None
  end.
Definition get_int_slice (v : option jvalue) : option (list Z) :=
  match v with
  | Some (JArr l) => if forallb isnum l then Some (map numz l) else None
  | _ => None
  end.
(** strconv.Atoi: optional sign, digits, inside the int64 range *)
Definition atoi (k : list N) : option Z :=
  let (sgn, ds) := match k with
                   | c :: r => if c =? 45 then (true, r) else if c =? 43 then (false, r) else (false, k)
                   | [] => (false, [])
                   end in
  match ds with
  | [] => None
  | _ => if all_digits ds then
           let n := dval ds in
           if sgn then (if n <=? 2 ^ 63 then Some (- Z.of_N n)%Z else None)
           else (if n <? 2 ^ 63 then Some (Z.of_N n) else None)
         else None
  end.
Fixpoint atoi_all (m : list (list N * jvalue)) : option (list (Z * list N)) :=
  match m with
  | [] => Some []
  | (k, v) :: m' => match atoi k, atoi_all m' with Some z, Some r => Some ((z, strof v) :: r) | _, _ => None end
  end.
(** OBITagRefIndex(key): nil when absent; a map[string]interface: keys through Atoi (a failure panics), values through
    InterfaceToString; anything else panics (the harness reports a panic as nil) *)
Definition get_ref_index (v : option jvalue) : ans (list (Z * list N)) :=
  match v with
  | Some (JObj m) => if forallb (fun kv => isstr (snd kv)) m then Mod (atoi_all m)
                     else if forallb (fun kv => match atoi (fst kv) with Some _ => true | None => false end) m then NotModelled else Mod None
  | _ => Mod None
  end.
Definition key_count : list N := [99; 111; 117; 110; 116].
Definition key_taxid : list N := [116; 97; 120; 105; 100].
Definition key_landmark : list N := [108; 97; 110; 100; 109; 97; 114; 107; 95; 105; 100].
Definition int_or (d : Z) (v : option jvalue) : Z := match get_int v with Some z => z | None => d end.

(** * observations of the harness on one re-read record *)
Inductive gobs :=
| GI (k : list N) (r : option Z)
| GF (k : list N) (r : option (bool * f64))
| GB (k : list N) (r : option bool)
| GS (k : list N) (r : option (list N))
| GIM (k : list N) (r : option (list (list N * Z)))
| GSM (k : list N) (r : option (list (list N * list N)))
| GIS (k : list N) (r : option (list Z))
| GRI (k : list N) (r : option (list (Z * list N)))
| GCount (z : Z) | GTaxid (z : Z) | GLandmark (z : Z).

(** Go's int(float64) is only defined inside the int64 range: outside, any answer is accepted *)
Definition in64 (z : Z) : bool := (- 2 ^ 63 <=? z)%Z && (z <? 2 ^ 63)%Z.
Definition z_agree (m o : Z) : bool := if in64 m then (m =? o)%Z else true.
Definition oz_agree (m o : option Z) : bool :=
  match m, o with Some a, Some b => z_agree a b | None, None => true | _, _ => false end.
Fixpoint lz_agree (m o : list Z) : bool :=
  match m, o with [] , [] => true | a :: m', b :: o' => z_agree a b && lz_agree m' o' | _, _ => false end.
Fixpoint kz_agree (m o : list (list N * Z)) : bool :=
  match m, o with
  | [], [] => true
  | (k, a) :: m', (k', b) :: o' => nlist_eqb k k' && z_agree a b && kz_agree m' o'
  | _, _ => false
  end.
Fixpoint ks_agree (m o : list (list N * list N)) : bool :=
  match m, o with
  | [], [] => true
  | (k, a) :: m', (k', b) :: o' => nlist_eqb k k' && nlist_eqb a b && ks_agree m' o'
  | _, _ => false
  end.
Fixpoint zs_agree (m o : list (Z * list N)) : bool :=
  match m, o with
  | [], [] => true
  | (k, a) :: m', (k', b) :: o' => (k =? k')%Z && nlist_eqb a b && zs_agree m' o'
  | _, _ => false
  end.
Definition opt_agree {A} (f : A -> A -> bool) (m o : option A) : bool :=
  match m, o with Some a, Some b => f a b | None, None => true | _, _ => false end.
Definition ans_agree {A} (f : A -> A -> bool) (m : ans A) (o : option A) : bool :=
  match m with Mod r => opt_agree f r o | NotModelled => true end.
Definition f_agree (m o : bool * f64) : bool := Bool.eqb (fst m) (fst o) && f64_eqb (snd m) (snd o).

Definition gcheck (m : list (list N * jvalue)) (g : gobs) : bool :=
  match g with
  | GI k r => oz_agree (get_int (lookup_key k m)) r
  | GF k r => opt_agree f_agree (get_float (lookup_key k m)) r
  | GB k r => opt_agree Bool.eqb (get_bool (lookup_key k m)) r
  | GS k r => ans_agree nlist_eqb (get_string (lookup_key k m)) r
  | GIM k r => opt_agree kz_agree (get_int_map (lookup_key k m)) r
  | GSM k r => ans_agree ks_agree (get_string_map (lookup_key k m)) r
  | GIS k r => opt_agree lz_agree (get_int_slice (lookup_key k m)) r
  | GRI k r => ans_agree zs_agree (get_ref_index (lookup_key k m)) r
  | GCount z => z_agree (int_or 1 (lookup_key key_count m)) z
  | GTaxid z => z_agree (int_or 1 (lookup_key key_taxid m)) z
  | GLandmark z => z_agree (int_or (-1) (lookup_key key_landmark m)) z
  end.

(** * FormatFastaBatch / FormatFastqBatch with skipEmpty: records without nucleotides are left out *)
Definition nonempty_seq (r : wrec) : bool := negb (Nat.eqb (length (w_seq r)) 0).
Definition format_batch_skip (fq : bool) (shift : N) (l : list wrec) : res (list N) :=
  format_batch fq shift (filter nonempty_seq l).

(** * the output file of WriteFastaToFile / WriteFastqToFile: what was there is kept only in append mode; the batches
    come in the order of their numbers *)
Definition file_after (append : bool) (before : list N) (batches : list (list N)) : list N :=
  (if append then before else []) ++ concat batches.
(** the records cut into consecutive batches of [n] (IBatchOver) *)
Fixpoint batches_of (fuel n : nat) (l : list wrec) : list (list wrec) :=
  match fuel with
  | O => []
  | S f => match l with [] => [] | _ => firstn n l :: batches_of f n (skipn n l) end
  end.
Fixpoint format_all (fq : bool) (shift : N) (bs : list (list wrec)) : res (list (list N)) :=
  match bs with
  | [] => Ok []
  | b :: r => match format_batch fq shift b, format_all fq shift r with
              | Ok t, Ok ts => Ok (t :: ts)
              | _, _ => Fatal
              end
  end.

(** * correspondence cases of round 3 *)
Inductive ccase3 :=
| CTyped (guessed : bool) (d : list N) (obs : list gobs)         (* the typed getters on the record read from the title remainder d *)
| CReadFatal (fq : bool) (shift : N) (bytes : list N)             (* the chunk parser refuses the text *)
| CWriteFatal (fq : bool) (shift : N) (l : list wrec)             (* the batch formatter refuses the records (an empty sequence, skipEmpty off) *)
| CWriteSkip (fq : bool) (shift : N) (l : list wrec) (bytes : list N) (* skipEmpty on *)
| CFile (fq : bool) (append : bool) (before : list N) (n : nat) (l : list wrec) (content : list N). (* file written from batches of n records *)

Definition check3 (c : ccase3) : bool :=
  match c with
  | CTyped guessed d obs =>
    match (if guessed then read_guessed (jdec renum64) else read_header (jdec renum64)) (mkp [] d [] None) with
    | RRec r => forallb (gcheck (w_ann r)) obs
    | _ => false
    end
  | CReadFatal fq shift b =>
    match (if fq then parse_fastq shift b else parse_fasta b) with Ok _ => false | Fatal => true end
  | CWriteFatal fq shift l => match format_batch fq shift l with Ok _ => false | Fatal => true end
  | CWriteSkip fq shift l b => match format_batch_skip fq shift l with Ok b' => nlist_eqb b' b | Fatal => false end
  | CFile fq append before n l content =>
    match format_all fq 33 (batches_of (length l) n l) with
    | Ok ts => nlist_eqb (file_after append before ts) content
    | Fatal => false
    end
  end.

Fixpoint mismatches3_from (i : nat) (l : list ccase3) : list nat :=
  match l with
  | [] => []
  | c :: l' => let rest := mismatches3_from (S i) l' in if check3 c then rest else i :: rest
  end.
Definition mismatches3 := mismatches3_from 0.
