(* C11 — obipcr --fragmented at the level of the specification: searching the fragments of a linear template (no flanks
   requested) finds exactly the amplicons of the whole template, as a SET (duplicates: see Fragments.v). *)
From Coq Require Import ZArith NArith List Bool Lia.
Import ListNotations.
From OBI.C11 Require Import Model Spec Proofs Fragments.
Open Scope Z_scope.

Lemma slice_slice : forall (t : list nuc) s e a b, 0 <= s -> s <= a -> a <= b -> b <= e -> e <= len t ->
  slice (slice t s e) (a - s) (b - s) = slice t a b.
Proof.
  intros t s e a b Hs Hsa Hab Hbe He.
  assert (Hl : len (slice t s e) = e - s) by (apply slice_length; lia).
  apply (nth_ext _ _ 0%N 0%N).
  - rewrite !slice_len_nat by lia. f_equal. lia.
  - intros q Hq. rewrite slice_len_nat in Hq by lia.
    rewrite slice_nth by lia. rewrite slice_nth by lia. rewrite slice_nth by lia. f_equal. lia.
Qed.

(* a site of the fragment [s, e) at relative position i is a site of the template at s + i, and conversely *)
Lemma hit_slice : forall p e0 t s e i k, 0 <= s -> s <= e -> e <= len t ->
  (hit p e0 (slice t s e) i k <-> hit p e0 t (s + i) k /\ 0 <= i /\ s + i + len p <= e).
Proof.
  intros p e0 t s e i k Hs Hse He. unfold hit. rewrite !occ_mm.
  assert (Hl : len (slice t s e) = e - s) by (apply slice_length; lia). rewrite Hl.
  pose proof (len_nonneg p) as Hp.
  assert (Heq : 0 <= i -> s + i + len p <= e -> slice (slice t s e) i (i + len p) = slice t (s + i) (s + i + len p)).
  { intros Hi Hie. rewrite <- (slice_slice t s e (s + i) (s + i + len p)) by lia. f_equal; lia. }
  split.
  - intros ((H0 & H1 & H2) & Hk). rewrite Heq in H2 by lia. repeat split; auto; lia.
  - intros (((H0 & H1 & H2) & Hk) & Hi & Hie). rewrite Heq by lia. repeat split; auto; lia.
Qed.

Definition frag_amps (o : opts) (t : list nuc) (minsize length overlap : Z) (a : amplicon) : Prop :=
  exists f, In f (fragments minsize length overlap (len t)) /\ spec_pcr_lin o (slice t (fst f) (snd f)) a.

Lemma orient_slice_sound : forall o t s e p1 e1 p2 e2 fb a, o_ext o = None -> 0 <= s -> s <= e -> e <= len t ->
  spec_orient o (slice t s e) p1 e1 p2 e2 fb a -> spec_orient o t p1 e1 p2 e2 fb a.
Proof.
  intros o t s e p1 e1 p2 e2 fb a Hx Hs Hse He (i & k1 & j & k2 & from & to & H1 & H2 & Hb & Hcut & ->).
  apply hit_slice in H1; auto. apply hit_slice in H2; auto. destruct H1 as (H1 & Hi0 & Hi1). destruct H2 as (H2 & Hj0 & Hj1).
  unfold cut_lin in Hcut. rewrite Hx in Hcut. destruct Hcut as (-> & ->).
  pose proof (len_nonneg p1). pose proof (len_nonneg p2). destruct Hb as (Hins & Hb).
  exists (s + i), k1, (s + j), k2, (s + i + len p1), (s + j).
  split; [exact H1|]. split; [exact H2|].
  split. { replace (s + j - (s + i + len p1)) with (j - (i + len p1)) by lia. split; auto. }
  split. { unfold cut_lin. rewrite Hx. split; reflexivity. }
  rewrite <- (slice_slice t s e (s + i + len p1) (s + j)) by lia.
  rewrite <- (slice_slice t s e (s + i) (s + i + len p1)) by lia.
  rewrite <- (slice_slice t s e (s + j) (s + j + len p2)) by lia.
  repeat (f_equal; try lia).
Qed.

Lemma orient_slice_complete : forall o t s e p1 e1 p2 e2 fb a i j k1 k2, o_ext o = None -> 0 <= s -> s <= e -> e <= len t ->
  hit p1 e1 t i k1 -> hit p2 e2 t j k2 -> bounds_ok o (j - (i + len p1)) -> s <= i -> j + len p2 <= e ->
  a = mk_amp fb (slice t (i + len p1) j) (slice t i (i + len p1)) k1 (slice t j (j + len p2)) k2 ->
  spec_orient o (slice t s e) p1 e1 p2 e2 fb a.
Proof.
  intros o t s e p1 e1 p2 e2 fb a i j k1 k2 Hx Hs Hse He H1 H2 Hb Hsi Hje ->.
  pose proof (len_nonneg p1). pose proof (len_nonneg p2). pose proof Hb as (Hins & _).
  exists (i - s), k1, (j - s), k2, (i - s + len p1), (j - s).
  split. { apply hit_slice; auto. replace (s + (i - s)) with i by lia. split; [exact H1|lia]. }
  split. { apply hit_slice; auto. replace (s + (j - s)) with j by lia. split; [exact H2|lia]. }
  split. { replace (j - s - (i - s + len p1)) with (j - (i + len p1)) by lia. exact Hb. }
  split. { unfold cut_lin. rewrite Hx. split; reflexivity. }
  replace (i - s + len p1) with (i + len p1 - s) by lia. replace (j - s + len p2) with (j + len p2 - s) by lia.
  rewrite !slice_slice by lia. reflexivity.
Qed.

(* every amplicon found in a fragment is an amplicon of the template *)
Lemma fragmented_sound : forall o t minsize length overlap a,
  o_ext o = None -> overlap < length -> 0 <= overlap ->
  frag_amps o t minsize length overlap a -> spec_pcr_lin o t a.
Proof.
  intros o t minsize length overlap a Hx Hlo Ho ([s e] & Hin & Hspec). cbn [fst snd] in Hspec.
  assert (Hr : 0 <= s /\ s <= e /\ e <= len t).
  { destruct (Z.eq_dec (len t) 0) as [H0|H0].
    - unfold fragments in Hin. rewrite H0 in Hin. destruct (0 <=? minsize).
      + destruct Hin as [Hin|[]]. inversion Hin; subst. lia.
      + cbn in Hin. destruct Hin.
    - pose proof (len_nonneg t). assert (HN : 0 < len t) by lia.
      pose proof (fragments_wf minsize length overlap (len t) s e Hlo Ho HN Hin). lia. }
  destruct Hspec as [H|H]; [left|right]; apply (orient_slice_sound o t s e); auto; lia.
Qed.

(* every amplicon of the template whose insert is within max is found in a fragment, when the overlap holds both primers
   and the longest insert *)
Lemma fragmented_complete : forall o t minsize length overlap a,
  o_ext o = None -> 0 < o_max o -> overlap < length -> len (o_fwd o) + o_max o + len (o_rev o) <= overlap ->
  spec_pcr_lin o t a -> frag_amps o t minsize length overlap a.
Proof.
  intros o t minsize length overlap a Hx Hmax Hlo Hov Hspec.
  pose proof (len_nonneg (o_fwd o)). pose proof (len_nonneg (o_rev o)).
  assert (Hgen : forall p1 e1 p2 e2 fb, len p1 + len p2 = len (o_fwd o) + len (o_rev o) ->
            spec_orient o t p1 e1 p2 e2 fb a -> exists f, In f (fragments minsize length overlap (len t)) /\
              spec_orient o (slice t (fst f) (snd f)) p1 e1 p2 e2 fb a).
  { intros p1 e1 p2 e2 fb Hlen (i & k1 & j & k2 & from & to & H1 & H2 & Hb & Hcut & Ha).
    unfold cut_lin in Hcut. rewrite Hx in Hcut. destruct Hcut as (-> & ->).
    pose proof H1 as ((Hi0 & Hi1 & _) & _). pose proof H2 as ((Hj0 & Hj1 & _) & _).
    pose proof (len_nonneg p1). pose proof (len_nonneg p2). pose proof Hb as (Hins & _ & [Hm|Hm]); [lia|].
    destruct (fragments_cover minsize length overlap (len t) i (j + len p2)) as ([s e] & Hin & (Hs & He) & _); try lia.
    cbn [fst snd] in *. exists (s, e). split; [exact Hin|]. cbn [fst snd].
    assert (Hr : 0 <= s /\ s < e /\ e <= len t) by (apply (fragments_wf minsize length overlap); auto; lia).
    eapply orient_slice_complete; eauto; lia. }
  destruct Hspec as [H1|H1].
  - destruct (Hgen (o_fwd o) (o_ef o) (rc_primer (o_rev o)) (o_er o) true ltac:(rewrite rc_primer_len; lia) H1) as (f & Hin & Hs).
    exists f. split; auto. left. exact Hs.
  - destruct (Hgen (o_rev o) (o_er o) (rc_primer (o_fwd o)) (o_ef o) false ltac:(rewrite rc_primer_len; lia) H1) as (f & Hin & Hs).
    exists f. split; auto. right. exact Hs.
Qed.

(* ... carried to the model of _Pcr run on every fragment (what CLIPCR does with --fragmented): same SET of records *)
Lemma fragmented_impl : forall o t minsize length overlap a,
  linear_ok o -> o_ext o = None -> 0 < o_max o -> overlap < length -> len (o_fwd o) + o_max o + len (o_rev o) <= overlap ->
  ((exists f l, In f (fragments minsize length overlap (len t)) /\ pcr o (slice t (fst f) (snd f)) = Some l /\ In a l) <->
   (exists l, pcr o t = Some l /\ In a l)).
Proof.
  intros o t minsize length overlap a Hok Hx Hmax Hlo Hov.
  pose proof (len_nonneg (o_fwd o)). pose proof (len_nonneg (o_rev o)). split.
  - intros (f & l & Hin & Hl & Ha). apply pcr_lin_complete; auto.
    apply (fragmented_sound o t minsize length overlap); auto; try lia.
    exists f. split; auto. eapply pcr_lin_sound; eauto.
  - intros (l & Hl & Ha). assert (Hs : spec_pcr_lin o t a) by (eapply pcr_lin_sound; eauto).
    apply (fragmented_complete o t minsize length overlap) in Hs; auto.
    destruct Hs as (f & Hin & Hs). apply pcr_lin_complete in Hs; auto. destruct Hs as (l' & Hl' & Ha').
    exists f, l'. auto.
Qed.
