(* C11 — generic facts about flat_map, positions and permutations used by the multiset-level proofs *)
From Coq Require Import ZArith List Bool Lia Permutation.
Import ListNotations.
Open Scope Z_scope.

Lemma flat_map_ext_in : forall {A B} (f g : A -> list B) l,
  (forall a, In a l -> f a = g a) -> flat_map f l = flat_map g l.
Proof.
  intros A B f g l. induction l as [|a l IH]; intros H; [reflexivity|].
  cbn [flat_map]. rewrite (H a) by (left; reflexivity). rewrite IH; [reflexivity|].
  intros b Hb. apply H. right. exact Hb.
Qed.

Lemma flat_map_map : forall {A B C} (f : B -> list C) (g : A -> B) l,
  flat_map f (map g l) = flat_map (fun x => f (g x)) l.
Proof. intros. induction l as [|a l IH]; [reflexivity|]. cbn [map flat_map]. now rewrite IH. Qed.

Lemma map_flat_map : forall {A B C} (f : B -> C) (g : A -> list B) l,
  map f (flat_map g l) = flat_map (fun x => map f (g x)) l.
Proof. intros. induction l as [|a l IH]; [reflexivity|]. cbn [flat_map]. now rewrite map_app, IH. Qed.

Lemma flat_map_flat_map : forall {A B C} (f : B -> list C) (g : A -> list B) l,
  flat_map f (flat_map g l) = flat_map (fun x => flat_map f (g x)) l.
Proof. intros. induction l as [|a l IH]; [reflexivity|]. cbn [flat_map]. now rewrite flat_map_app, IH. Qed.

Lemma flat_map_nil : forall {A B} (f : A -> list B) l, (forall a, In a l -> f a = []) -> flat_map f l = [].
Proof.
  intros A B f l. induction l as [|a l IH]; intros H; [reflexivity|].
  cbn [flat_map]. rewrite (H a) by (left; reflexivity). rewrite IH; [reflexivity|]. intros b Hb. apply H. right. exact Hb.
Qed.

(* elements on which f is empty may be filtered out *)
Lemma flat_map_filter : forall {A B} (f : A -> list B) (w : A -> bool) l,
  (forall a, In a l -> w a = false -> f a = []) -> flat_map f (filter w l) = flat_map f l.
Proof.
  intros A B f w l. induction l as [|a l IH]; intros H; [reflexivity|].
  cbn [filter flat_map]. assert (IH' : flat_map f (filter w l) = flat_map f l).
  { apply IH. intros b Hb. apply H. right. exact Hb. }
  destruct (w a) eqn:E.
  - cbn [flat_map]. now rewrite IH'.
  - rewrite (H a) by (auto; left; reflexivity). now rewrite IH'.
Qed.

Lemma filter_all : forall {A} (w : A -> bool) l, (forall a, In a l -> w a = true) -> filter w l = l.
Proof.
  intros A w l. induction l as [|a l IH]; intros H; [reflexivity|].
  cbn [filter]. rewrite (H a) by (left; reflexivity). rewrite IH; [reflexivity|]. intros b Hb. apply H. right. exact Hb.
Qed.

Lemma flat_map_perm_pointwise : forall {A B} (f g : A -> list B) l,
  (forall a, In a l -> Permutation (f a) (g a)) -> Permutation (flat_map f l) (flat_map g l).
Proof.
  intros A B f g l. induction l as [|a l IH]; intros H; [constructor|].
  cbn [flat_map]. apply Permutation_app; [apply H; left; reflexivity|]. apply IH. intros b Hb. apply H. right. exact Hb.
Qed.

(* the two loops of a double enumeration may be exchanged *)
Lemma flat_map_swap : forall {A B C} (f : A -> B -> list C) la lb,
  Permutation (flat_map (fun a => flat_map (fun b => f a b) lb) la)
              (flat_map (fun b => flat_map (fun a => f a b) la) lb).
Proof.
  intros A B C f la. induction la as [|a la IH]; intros lb.
  - cbn [flat_map]. rewrite flat_map_nil; [constructor|reflexivity].
  - cbn [flat_map]. eapply Permutation_trans; [apply Permutation_app_head, IH|].
    clear IH. induction lb as [|b lb IHb]; [constructor|].
    cbn [flat_map]. rewrite <- !app_assoc. apply Permutation_app_head.
    eapply Permutation_trans; [|apply Permutation_app_head, IHb].
    rewrite !app_assoc. apply Permutation_app_tail. apply Permutation_app_comm.
Qed.

(* ---------- positions *)
Definition zpositions (n : Z) : list Z := map Z.of_nat (seq 0 (Z.to_nat n)).

Lemma in_zpositions : forall n i, In i (zpositions n) <-> 0 <= i < n.
Proof.
  intros n i. unfold zpositions. rewrite in_map_iff. split.
  - intros (k & <- & Hk). apply in_seq in Hk. lia.
  - intros H. exists (Z.to_nat i). split; [lia|]. apply in_seq. lia.
Qed.

Lemma zpositions_NoDup : forall n, NoDup (zpositions n).
Proof.
  intros n. unfold zpositions. generalize (seq_NoDup (Z.to_nat n) 0). generalize (seq 0 (Z.to_nat n)).
  induction l as [|a l IH]; intros H; [constructor|]. inversion H; subst. cbn [map]. constructor; [|auto].
  intros Hin. apply in_map_iff in Hin. destruct Hin as (b & Hb & Hin). apply Nat2Z.inj in Hb. subst. auto.
Qed.

Lemma NoDup_map_inj_on : forall {A B} (f : A -> B) l,
  (forall x y, In x l -> In y l -> f x = f y -> x = y) -> NoDup l -> NoDup (map f l).
Proof.
  intros A B f l. induction l as [|a l IH]; intros Hinj Hnd; [constructor|].
  inversion Hnd; subst. cbn [map]. constructor.
  - intros Hin. apply in_map_iff in Hin. destruct Hin as (b & Hb & Hin).
    assert (b = a) by (apply Hinj; [right; auto|left; auto|auto]). subst. auto.
  - apply IH; auto. intros x y Hx Hy. apply Hinj; right; auto.
Qed.

(* a map that sends [0, n) into itself injectively permutes the positions *)
Lemma zpositions_perm : forall n (s : Z -> Z),
  (forall i, 0 <= i < n -> 0 <= s i < n) ->
  (forall i j, 0 <= i < n -> 0 <= j < n -> s i = s j -> i = j) ->
  Permutation (map s (zpositions n)) (zpositions n).
Proof.
  intros n s Hr Hi. apply NoDup_Permutation_bis.
  - apply NoDup_map_inj_on; [|apply zpositions_NoDup]. intros x y Hx Hy. apply Hi; apply in_zpositions; auto.
  - rewrite map_length. lia.
  - intros y Hy. apply in_map_iff in Hy. destruct Hy as (x & <- & Hx). apply in_zpositions. apply Hr. apply in_zpositions. exact Hx.
Qed.

(* re-indexing an enumeration by a permutation of its index list *)
Lemma flat_map_reindex : forall {A B} (f : A -> list B) (s : A -> A) l,
  Permutation (map s l) l -> Permutation (flat_map (fun a => f (s a)) l) (flat_map f l).
Proof. intros A B f s l H. rewrite <- flat_map_map. apply Permutation_flat_map. exact H. Qed.

Lemma seq_add_map : forall a len s, seq (a + s) len = map (fun k => (a + k)%nat) (seq s len).
Proof.
  intros a len. induction len as [|len IH]; intros s; [reflexivity|].
  cbn [seq map]. f_equal. rewrite <- IH. f_equal. lia.
Qed.

Lemma zpositions_app : forall a b, 0 <= a -> 0 <= b ->
  zpositions (a + b) = zpositions a ++ map (fun i => a + i) (zpositions b).
Proof.
  intros a b Ha Hb. unfold zpositions. rewrite Z2Nat.inj_add by lia. rewrite seq_app, map_app. f_equal.
  rewrite map_map.
  replace (seq (0 + Z.to_nat a) (Z.to_nat b)) with (map (fun k => (Z.to_nat a + k)%nat) (seq 0 (Z.to_nat b))).
  - rewrite map_map. apply map_ext. intros k. lia.
  - rewrite <- seq_add_map. f_equal. lia.
Qed.

(* ---------- double enumerations re-indexed through permutations of both index lists *)
Lemma double_reindex : forall {H A} (S1' S1 S2' S2 : list H) (m1 m2 : H -> H) (c' c : H -> H -> list A),
  Permutation S1' (map m1 S1) -> Permutation S2' (map m2 S2) ->
  (forall h1 h2, In h1 S1 -> In h2 S2 -> c' (m1 h1) (m2 h2) = c h1 h2) ->
  Permutation (flat_map (fun a => flat_map (c' a) S2') S1') (flat_map (fun a => flat_map (c a) S2) S1).
Proof.
  intros H A S1' S1 S2' S2 m1 m2 c' c P1 P2 Hc.
  eapply Permutation_trans; [apply Permutation_flat_map, P1|]. rewrite flat_map_map.
  eapply Permutation_trans.
  { apply flat_map_perm_pointwise. intros h1 _. apply Permutation_flat_map, P2. }
  cbn beta. erewrite flat_map_ext_in; [apply Permutation_refl|].
  intros h1 Hh1. cbn beta. rewrite flat_map_map. apply flat_map_ext_in. intros h2 Hh2. apply Hc; auto.
Qed.

Lemma double_reindex_swap : forall {H A} (S1' S1 S2' S2 : list H) (m1 m2 : H -> H) (c' c : H -> H -> list A) (phi : A -> A),
  Permutation S1' (map m1 S1) -> Permutation S2' (map m2 S2) ->
  (forall h1 h2, In h1 S1 -> In h2 S2 -> c' (m1 h1) (m2 h2) = map phi (c h2 h1)) ->
  Permutation (flat_map (fun a => flat_map (c' a) S2') S1') (map phi (flat_map (fun b => flat_map (c b) S1) S2)).
Proof.
  intros H A S1' S1 S2' S2 m1 m2 c' c phi P1 P2 Hc.
  eapply Permutation_trans.
  { apply (double_reindex S1' S1 S2' S2 m1 m2 c' (fun h1 h2 => map phi (c h2 h1)) P1 P2 Hc). }
  eapply Permutation_trans; [apply flat_map_swap|].
  rewrite map_flat_map. erewrite flat_map_ext; [apply Permutation_refl|].
  intros b. cbn beta. now rewrite map_flat_map.
Qed.

(* an enumeration of positions re-indexed by a permutation s of the positions, each element relabelled by m *)
Lemma sites_reindex : forall {H} (g' g : Z -> list H) (m : H -> H) (s : Z -> Z) n,
  Permutation (map s (zpositions n)) (zpositions n) ->
  (forall i, 0 <= i < n -> g' i = map m (g (s i))) ->
  Permutation (flat_map g' (zpositions n)) (map m (flat_map g (zpositions n))).
Proof.
  intros H g' g m s n Hp Hg. rewrite map_flat_map.
  erewrite (flat_map_ext_in g'); [|intros i Hi; apply Hg, in_zpositions, Hi].
  apply (flat_map_reindex (fun i => map m (g i)) s). exact Hp.
Qed.
