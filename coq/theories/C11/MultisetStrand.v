From Coq Require Import ZArith NArith List Bool Lia Permutation.
Import ListNotations.
From OBI.C11 Require Import Model Spec Proofs Lists Multiset.
Open Scope Z_scope.

(* ====================== strand symmetry, linear templates, as multisets ====================== *)
Definition mirror (L m : Z) (h : Z * N) : Z * N := (L - fst h - m, snd h).

Lemma sites_range : forall p e t i k, In (i, k) (sites p e t) -> 0 <= i /\ i + len p <= len t.
Proof.
  intros p e t i k H. unfold sites in H. apply in_flat_map in H. destruct H as (i' & Hi' & Hin).
  apply in_zpositions in Hi'. unfold site_at in Hin.
  destruct (mm p (slice t i' (i' + len p)) <=? e)%N; [|inversion Hin].
  destruct Hin as [Heq|[]]. inversion Heq; subst. lia.
Qed.

Lemma sites_mirror : forall p e t,
  Permutation (sites (rc_primer p) e (rc t)) (map (mirror (len t) (len p)) (sites p e t)).
Proof.
  intros p e t. unfold sites. rewrite rc_primer_len, rc_len. set (L := len t). set (m := len p).
  pose proof (len_nonneg p) as Hm. fold m in Hm.
  rewrite !positions_z.
  apply (sites_reindex _ _ (mirror L m) (fun i => L - m - i)).
  - apply zpositions_perm; intros; lia.
  - intros i Hi. unfold site_at.
    rewrite slice_rc by (fold L; lia). fold L.
    rewrite mm_rc.
    + replace (L - (i + m)) with (L - m - i) by lia. replace (L - i) with (L - m - i + m) by lia.
      destruct (mm p (slice t (L - m - i) (L - m - i + m)) <=? e)%N; [|reflexivity].
      cbn [map]. unfold mirror. cbn [fst snd]. f_equal. f_equal. lia.
    + apply Nat2Z.inj. change (len p = len (slice t (L - (i + m)) (L - i))). rewrite slice_length; fold L; lia.
Qed.

Lemma mirror_invol : forall L m h, mirror L m (mirror L m h) = h.
Proof. intros L m [i k]. unfold mirror. cbn [fst snd]. f_equal. lia. Qed.

Lemma sites_mirror' : forall p e t,
  Permutation (sites p e (rc t)) (map (mirror (len t) (len p)) (sites (rc_primer p) e t)).
Proof.
  intros p e t. pose proof (sites_mirror p e (rc t)) as H. rewrite rc_invol, rc_len in H.
  apply (Permutation_map (mirror (len t) (len p))) in H. rewrite map_map in H.
  rewrite (map_ext (fun x => mirror (len t) (len p) (mirror (len t) (len p) x)) (fun h => h)) in H by (intros; apply mirror_invol).
  rewrite map_id in H.
  apply Permutation_sym. exact H.
Qed.

Lemma cut_mirror : forall o L i ma j mb,
  cut_lin_f o L (L - i - ma) ma (L - j - mb) mb =
  match cut_lin_f o L j mb i ma with Some (from, to) => Some (L - to, L - from) | None => None end.
Proof.
  intros o L i ma j mb. unfold cut_lin_f. destruct (o_ext o) as [x|].
  - destruct (o_full o).
    + destruct (0 <=? L - i - ma - x) eqn:E1; destruct (L - j - mb + mb + x <=? L) eqn:E2;
        destruct (0 <=? j - x) eqn:E3; destruct (i + ma + x <=? L) eqn:E4; cbn [andb];
        try apply Z.leb_le in E1; try apply Z.leb_le in E2; try apply Z.leb_le in E3; try apply Z.leb_le in E4;
        try apply Z.leb_gt in E1; try apply Z.leb_gt in E2; try apply Z.leb_gt in E3; try apply Z.leb_gt in E4;
        try lia; try reflexivity. f_equal. f_equal; lia.
    + f_equal. f_equal; lia.
  - f_equal. f_equal; lia.
Qed.

Lemma cell_lin_mirror : forall o t ma mb fb i k1 j k2, ext_ok o ->
  0 <= ma -> 0 <= mb -> 0 <= i -> i + ma <= len t -> 0 <= j -> j + mb <= len t ->
  cell_lin o (rc t) ma mb fb (mirror (len t) ma (i, k1)) (mirror (len t) mb (j, k2)) =
  map flip (cell_lin o t mb ma (negb fb) (j, k2) (i, k1)).
Proof.
  intros o t ma mb fb i k1 j k2 Hx Hma Hmb Hi0 Hi1 Hj0 Hj1.
  unfold cell_lin, mirror. cbn [fst snd]. rewrite rc_len. set (L := len t) in *.
  replace (L - j - mb - (L - i - ma + ma)) with (i - (j + mb)) by lia.
  destruct (length_ok o (i - (j + mb))) eqn:E1; [|reflexivity].
  apply length_ok_spec in E1. rewrite cut_mirror.
  destruct (cut_lin_f o L j mb i ma) as [[from to]|] eqn:E2; [|reflexivity].
  apply cut_lin_f_spec in E2.
  assert (Hr := cut_lin_range0 _ _ _ _ _ _ _ _ E2 Hx Hj0 Hmb Hma Hi1 (proj1 E1)).
  rewrite (slice_rc t (L - to) (L - from)) by (fold L; lia).
  rewrite (slice_rc t (L - i - ma) (L - i - ma + ma)) by (fold L; lia).
  rewrite (slice_rc t (L - j - mb) (L - j - mb + mb)) by (fold L; lia). fold L.
  replace (L - (L - from)) with from by lia. replace (L - (L - to)) with to by lia.
  replace (L - (L - i - ma + ma)) with i by lia. replace (L - (L - i - ma)) with (i + ma) by lia.
  replace (L - (L - j - mb + mb)) with j by lia. replace (L - (L - j - mb)) with (j + mb) by lia.
  destruct fb; cbn [mk_amp flip negb map]; rewrite ?rc_invol; reflexivity.
Qed.

Lemma amps_orient_mirror : forall o t pa ea pb eb fb, ext_ok o ->
  Permutation (amps_orient_lin o (rc t) pa ea (rc_primer pb) eb fb)
              (map flip (amps_orient_lin o t pb eb (rc_primer pa) ea (negb fb))).
Proof.
  intros o t pa ea pb eb fb Hx. unfold amps_orient_lin. rewrite !rc_primer_len.
  apply (double_reindex_swap _ (sites (rc_primer pa) ea t) _ (sites pb eb t)
           (mirror (len t) (len pa)) (mirror (len t) (len pb))).
  - apply sites_mirror'.
  - apply sites_mirror.
  - intros [i k1] [j k2] H1 H2. apply sites_range in H1, H2. rewrite rc_primer_len in H1.
    apply cell_lin_mirror; auto using len_nonneg; lia.
Qed.

Lemma map_flip_flip : forall l, map flip (map flip l) = l.
Proof. intros l. rewrite map_map. erewrite map_ext; [apply map_id|]. apply flip_invol. Qed.

(* strand symmetry of the specification, as multisets *)
Lemma amps_lin_strand : forall o t, ext_ok o -> Permutation (amps_lin o (rc t)) (map flip (amps_lin o t)).
Proof.
  intros o t Hx. unfold amps_lin. rewrite map_app.
  eapply Permutation_trans; [|apply Permutation_app_comm].
  apply Permutation_app.
  - apply (amps_orient_mirror o t (o_fwd o) (o_ef o) (o_rev o) (o_er o) true Hx).
  - apply (amps_orient_mirror o t (o_rev o) (o_er o) (o_fwd o) (o_ef o) false Hx).
Qed.

Lemma pcr_strand_multiset : forall o t l l', linear_ok o ->
  pcr o t = Some l -> pcr o (rc t) = Some l' -> Permutation l' (map flip l).
Proof.
  intros o t l l' Hok Hl Hl'. rewrite pcr_lin_list in Hl, Hl' by auto. inversion Hl; inversion Hl'; subst.
  apply amps_lin_strand. destruct Hok as (_ & Hx & _). exact Hx.
Qed.
