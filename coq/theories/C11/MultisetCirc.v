From Coq Require Import ZArith NArith List Bool Lia Permutation.
Import ListNotations.
From OBI.C11 Require Import Model Spec Proofs Lists Multiset.
Open Scope Z_scope.

(* ====================== circular templates: the model returns one record per pair of sites ====================== *)
Lemma fresh_circ : forall o t, o_circ o = true -> fresh o t = cdata t.
Proof. intros o t Hc. unfold fresh. rewrite Hc, visible_encode. reflexivity. Qed.

Lemma pair_guard : forall o t fb fm rm, len t <= fst3 fm \/ len t <= fst3 rm -> pair_amplicon o t fb fm rm = [].
Proof.
  intros o t fb fm rm H. unfold pair_amplicon.
  destruct (fst3 fm <? len t) eqn:E1; [|reflexivity]. destruct (fst3 rm <? len t) eqn:E2; [|reflexivity].
  apply Z.ltb_lt in E1, E2. lia.
Qed.

Lemma csites_range : forall p e t i k, In (i, k) (csites p e t) -> 0 <= i < len t.
Proof.
  intros p e t i k H. unfold csites in H. apply in_flat_map in H. destruct H as (i' & Hi' & Hin).
  apply in_zpositions in Hi'. unfold site_at in Hin.
  destruct (mm p (circ t i' (len p)) <=? e)%N; [|inversion Hin].
  destruct Hin as [Heq|[]]. inversion Heq; subst. lia.
Qed.

Lemma in_csites : forall p e t i k, In (i, k) (csites p e t) <-> chit p e t i k.
Proof.
  intros p e t i k. unfold csites, chit. rewrite in_flat_map. split.
  - intros (i' & Hi' & Hin). apply in_zpositions in Hi'. unfold site_at in Hin.
    destruct (mm p (circ t i' (len p)) <=? e)%N eqn:E; [|inversion Hin].
    destruct Hin as [Heq|[]]. inversion Heq; subst. apply N.leb_le in E. auto.
  - intros (Hi & Hm & Hk). exists i. split; [apply in_zpositions; auto|].
    unfold site_at. rewrite Hm. apply N.leb_le in Hk. rewrite Hk. left. reflexivity.
Qed.

(* enumerating the hits found in the circularly extended buffer = enumerating the sites of the circle, as long as
   hits starting in the extension are ignored (the posi < seq.Len() tests of _Pcr) *)
Lemma flat_allhits_cdata : forall {B} (F : Z * Z * N -> list B) p e t, len p <= 64 ->
  (forall fm, len t <= fst3 fm -> F fm = []) ->
  flat_map F (allhits p e (cdata t)) = flat_map F (map (triple (len p)) (csites p e t)).
Proof.
  intros B F p e t Hp HF. unfold allhits. rewrite hits_from_flat, !flat_map_map, flat_map_flat_map.
  unfold csites, positions. rewrite flat_map_map, flat_map_flat_map.
  assert (Hlen : length (cdata t) = (length t + 64)%nat) by (unfold cdata; rewrite app_length, circ_ext_length; reflexivity).
  rewrite Hlen. rewrite (flat_map_seq_cut _ (length t + 64) (Z.to_nat (len t))); [|unfold len; lia|].
  - apply flat_map_ext_in. intros n Hn. apply in_seq in Hn.
    assert (HL : 0 < len t) by (unfold len in *; lia).
    assert (Hn' : 0 <= Z.of_nat n < len t) by (unfold len in *; lia).
    f_equal. unfold hit_at, site_at.
    rewrite mism_mm by (rewrite skipn_length, Hlen; unfold len in *; lia).
    rewrite <- (slice_cdata t (Z.of_nat n) (len p)) by (pose proof (len_nonneg p); lia).
    unfold slice. replace (Z.to_nat (Z.of_nat n + len p - Z.of_nat n)) with (length p) by (unfold len; lia).
    rewrite Nat2Z.id, mm_firstn, Z.add_0_l. reflexivity.
  - intros k Hk. unfold hit_at.
    destruct (mism p (skipn k (cdata t))) as [kk|]; [|reflexivity]. destruct (kk <=? e)%N; [|reflexivity].
    cbn [flat_map]. rewrite HF; [reflexivity|]. unfold triple, fst3. cbn [fst]. unfold len in *. lia.
Qed.

Lemma pair_circ_eq : forall o t fb i m1 k1 j m2 k2,
  o_circ o = true -> ext_ok o -> 0 <= i < len t -> 0 < m1 -> 0 <= j < len t -> 0 < m2 ->
  pair_amplicon o t fb (i, i + m1, k1) (j, j + m2, k2) = map Some (cell_circ o t m1 m2 fb (i, k1) (j, k2)).
Proof.
  intros o t fb i m1 k1 j m2 k2 Hc Hx Hi Hm1 Hj Hm2.
  unfold pair_amplicon, cell_circ. cbn [fst3 snd3 err3 fst snd]. set (L := len t) in *.
  replace (i <? L) with true by (symmetry; apply Z.ltb_lt; lia).
  replace (j <? L) with true by (symmetry; apply Z.ltb_lt; lia). cbn [andb].
  unfold insert_length, cut_bounds, circ_cut. rewrite Hc. cbn [fst3 snd3 fst snd]. fold L.
  set (ins := (j - (i + m1)) mod L) in *.
  destruct (length_ok o ins) eqn:E1; [|reflexivity].
  apply length_ok_spec in E1. pose proof E1 as (Hins & _).
  assert (HL : 0 < len t) by (fold L; lia).
  destruct (o_ext o) as [x|] eqn:Eext.
  - specialize (Hx x Eext).
    rewrite !segment_circ by (auto; lia).
    replace (i + m1 - i) with m1 by lia. replace (j + m2 - j) with m2 by lia.
    replace (i - x + ins + (m1 + m2) + 2 * x - (i - x)) with (m1 + ins + m2 + 2 * x) by lia.
    reflexivity.
  - rewrite !segment_circ by (auto; lia).
    replace (i + m1 - i) with m1 by lia. replace (j + m2 - j) with m2 by lia.
    replace (i + m1 + ins - (i + m1)) with ins by lia. reflexivity.
Qed.

Lemma find_all_circ_window : forall p e t,
  find_all p e (cdata t) (len t) 0 (len t + MAX_PAT_LEN) = allhits p e (cdata t).
Proof.
  intros p e t. rewrite find_all_filter. unfold allhits. f_equal. apply filter_all.
  intros [i k] Hin. apply hits_in_range in Hin. rewrite cdata_len in Hin. cbn [fst Z.ltb Z.compare].
  pose proof (len_nonneg t). unfold MAX_PAT_LEN in *.
  replace (len t + 64 <? 0) with false by (symmetry; apply Z.ltb_ge; lia).
  apply andb_true_iff. split; apply Z.leb_le; [lia|]. rewrite cdata_len. apply Z.min_glb; lia.
Qed.

Lemma nonempty_len : forall {A} (p : list A), p <> [] -> 0 < len p.
Proof. intros A p H. destruct p; [congruence|unfold len; cbn [length]; lia]. Qed.

Lemma block_circ_list : forall o t pf ef pr er fb,
  o_circ o = true -> ext_ok o -> pf <> [] -> pr <> [] -> len pf <= 64 -> len pr <= 64 ->
  block o t pf ef pr er fb = map Some (amps_orient_circ o t pf ef pr er fb).
Proof.
  intros o t pf ef pr er fb Hc Hx Hpf Hpr Hf64 Hr64. unfold block. rewrite fresh_circ by auto.
  rewrite block_on_full.
  - rewrite flat_allhits_cdata; auto.
    + unfold amps_orient_circ. rewrite flat_map_map, <- flat_map_map_Some.
      apply flat_map_ext_in. intros [i k1] H1. rewrite flat_allhits_cdata; auto.
      * rewrite flat_map_map, <- flat_map_map_Some. apply flat_map_ext_in. intros [j k2] H2.
        apply csites_range in H1, H2. unfold triple. cbn [fst snd].
        apply pair_circ_eq; auto using nonempty_len.
      * intros rm Hrm. apply pair_guard. auto.
    + intros fm Hfm. apply flat_map_nil. intros rm _. apply pair_guard. auto.
  - rewrite cdata_len. unfold MAX_PAT_LEN. lia.
  - intros fm rm x Hfm Hrm _. unfold rms_win.
    destruct (allhits pf ef (cdata t)) as [|fm0 fms]; [inversion Hfm|].
    cbn zeta. rewrite Hc. rewrite find_all_circ_window. exact Hrm.
Qed.

Lemma pcr_circ_list : forall o t, circular_ok o -> pcr o t = Some (amps_circ o t).
Proof.
  intros o t (Hc & Hx & Hf & Hr & Hf64 & Hr64). unfold pcr, pcr_on. unfold MAX_PAT_LEN in *.
  fold (block o t (o_fwd o) (o_ef o) (rc_primer (o_rev o)) (o_er o) true).
  fold (block o t (o_rev o) (o_er o) (rc_primer (o_fwd o)) (o_ef o) false).
  rewrite !block_circ_list; auto using rc_primer_nonempty; rewrite ?rc_primer_len; auto.
  rewrite <- map_app. apply all_some_map_Some.
Qed.

(* the list specification against the relational one *)
Lemma in_amps_orient_circ : forall o t p1 e1 p2 e2 fb a,
  In a (amps_orient_circ o t p1 e1 p2 e2 fb) <-> spec_orient_circ o t p1 e1 p2 e2 fb a.
Proof.
  intros o t p1 e1 p2 e2 fb a. unfold amps_orient_circ, spec_orient_circ. rewrite in_flat_map. split.
  - intros ([i k1] & H1 & Hin). apply in_flat_map in Hin. destruct Hin as ([j k2] & H2 & Hin).
    apply in_csites in H1, H2. unfold cell_circ in Hin. cbn [fst snd] in Hin.
    destruct (length_ok o ((j - (i + len p1)) mod len t)) eqn:E; [|inversion Hin].
    destruct Hin as [<-|[]]. apply length_ok_spec in E.
    exists i, k1, j, k2. split; auto. split; auto. cbn zeta. split; auto.
    eexists. split; [|reflexivity]. unfold circ_cut. destruct (o_ext o); reflexivity.
  - intros (i & k1 & j & k2 & H1 & H2 & Hb & s & Hs & ->).
    exists (i, k1). split; [apply in_csites; auto|]. apply in_flat_map. exists (j, k2). split; [apply in_csites; auto|].
    unfold cell_circ. cbn [fst snd]. apply length_ok_spec in Hb. rewrite Hb. left.
    unfold circ_cut. destruct (o_ext o); subst s; reflexivity.
Qed.

Lemma in_amps_circ : forall o t a, In a (amps_circ o t) <-> spec_pcr_circ o t a.
Proof. intros. unfold amps_circ, spec_pcr_circ. rewrite in_app_iff, !in_amps_orient_circ. reflexivity. Qed.
