(* C11 — in-silico PCR: executable model of obiapat._Pcr and _Segment (pkg/obiapat/pcr.go), of the circular-aware
   obiseq.Subsequence and of the C sequence buffer (obiapat.c: new_apatseq / EncodeSequence), running on
   the SPECIFICATION matcher (start positions where the IUPAC primer fits with <= e mismatches, with that
   count) in place of the C bit-parallel matcher (whose exactness is property C10).
   Definitions only: no proofs here. *)
From Coq Require Import ZArith NArith List Bool.
Import ListNotations.
Open Scope Z_scope.

(* template letters: 0 a, 1 c, 2 g, 3 t, anything else (n, ...) >= 4;  primer symbols (one pattern position: IUPAC letter,
   [..] class, !negation, optional # mark): bit k < 4 = letter k accepted; bit 4 = obligatory position (`#`: no mismatch
   allowed there); bit 5 = letters other than a/c/g/t accepted (only negated positions: !X is the complement of X over
   the whole alphabet) *)
Definition nuc := N.
Definition sym := N.

Definition sym_match (p : sym) (x : nuc) : bool := if (x <? 4)%N then N.testbit p x else N.testbit p 5.
(* cost of a mismatch: 1, or more than any error budget (MAX_PAT_ERR = 64) on an obligatory position *)
Definition miss (p : sym) : N := if N.testbit p 4 then 1000%N else 1%N.
Definition comp_nuc (x : nuc) : nuc := if (x <? 4)%N then (3 - x)%N else x.
Definition b2n (b : bool) : N := if b then 1%N else 0%N.
Definition comp_sym (p : sym) : sym :=
  (b2n (N.testbit p 3) + 2 * b2n (N.testbit p 2) + 4 * b2n (N.testbit p 1) + 8 * b2n (N.testbit p 0)
   + 16 * b2n (N.testbit p 4) + 32 * b2n (N.testbit p 5))%N.
Definition rc (s : list nuc) : list nuc := rev (map comp_nuc s).
Definition rc_primer (p : list sym) : list sym := rev (map comp_sym p).

Definition len {A} (l : list A) : Z := Z.of_nat (length l).
Definition slice {A} (l : list A) (a b : Z) : list A := firstn (Z.to_nat (b - a)) (skipn (Z.to_nat a) l).

(* ---------------------------------------------------------------- specification matcher *)
(* number of mismatches (weighted by miss) of primer p against the text read from its head; None: the text is too short *)
Fixpoint mism (p : list sym) (w : list nuc) : option N :=
  match p, w with
  | [], _ => Some 0%N
  | _ :: _, [] => None
  | s :: p', x :: w' =>
      match mism p' w' with
      | None => None
      | Some k => Some (if sym_match s x then k else (k + miss s)%N)
      end
  end.

(* all (start, mismatches) with mismatches <= e, in increasing start order; i = position of the head of text *)
Fixpoint hits_from (p : list sym) (e : N) (text : list nuc) (i : Z) : list (Z * N) :=
  match text with
  | [] => []
  | _ :: tl =>
      match mism p text with
      | Some k => if (k <=? e)%N then (i, k) :: hits_from p e tl (i + 1) else hits_from p e tl (i + 1)
      | None => hits_from p e tl (i + 1)
      end
  end.

(* ---------------------------------------------------------------- the C sequence buffer *)
Definition MAX_PAT_LEN : Z := 64.

(* circular extension: MAX_PAT_LEN letters read cyclically from the start of the template *)
Definition circ_ext (t : list nuc) : list nuc :=
  match t with
  | [] => repeat 0%N 64
  | _ => map (fun q => nth (Z.to_nat (Z.of_nat q mod len t)) t 0%N) (seq 0 64)
  end.

(* new_apatseq/EncodeSequence into a (possibly recycled) buffer: the first seqlen+circular cells are
   overwritten, the rest of a recycled buffer keeps its old content *)
Definition encode_into (old : list nuc) (t : list nuc) (circular : bool) : list nuc :=
  let d := t ++ (if circular then circ_ext t else []) in
  d ++ skipn (length d) old.
(* what the matcher can read: cells [0, seqlen + circular) *)
Definition visible (buf : list nuc) (t : list nuc) (circular : bool) : list nuc :=
  firstn (length t + (if circular then 64 else 0)) buf.

(* ApatPattern.FindAllIndex(seq, begin, length) over the specification hits: matches lying entirely in
   [begin, min(begin+length+MAX_PAT_LEN, seqlen+circular)); triples (start, end, errors) *)
Definition find_all (p : list sym) (e : N) (data : list nuc) (L : Z) (begin length : Z) : list (Z * Z * N) :=
  let begin := if begin <? 0 then 0 else begin in
  let length := if length <? 0 then L else length in
  let stop := Z.min (begin + length + MAX_PAT_LEN) (len data) in
  map (fun h => (fst h, fst h + len p, snd h))
      (filter (fun h => (begin <=? fst h) && (fst h + len p <=? stop)) (hits_from p e data 0)).

(* ---------------------------------------------------------------- obiseq.Subsequence *)
(* None = the error return (which _Pcr turns into log.Fatal) or the division by a zero length *)
Definition subseq (t : list nuc) (from to : Z) (circular : bool) : option (list nuc) :=
  let L := len t in
  if (to <=? from) && negb circular then None
  else if from <? 0 then None
  else if (L <=? from) && negb circular then None
  else if L =? 0 then None
  else
    let from := from mod L in
    if (L <? to) && negb circular then None
    else
      let to := Z.rem (to - 1) L + 1 in
      if from <? to then Some (slice t from to)
      else Some (slice t from L ++ slice t 0 to).

(* ---------------------------------------------------------------- obiapat._Segment *)
(* the loop of _Segment: while the segment is shorter than n, append the piece of the circle that follows it, up to
   the end of the template at most; the fuel is never exhausted when fuel >= n (each turn adds at least one letter) *)
Fixpoint seg_loop (fuel : nat) (t s : list nuc) (from n : Z) : list nuc :=
  match fuel with
  | O => s
  | S f =>
      if len s <? n then
        let start := (from + len s) mod len t in
        let stop := Z.min (start + n - len s) (len t) in
        seg_loop f t (s ++ slice t start stop) from n
      else s
  end.

(* _Segment(reference, from, to, circular): Subsequence on a linear template; on a circular one the to-from letters read
   along the circle from position from (any integer), going around as many times as needed. None = error return /
   integer division by a zero length *)
Definition segment (t : list nuc) (from to : Z) (circular : bool) : option (list nuc) :=
  if negb circular then subseq t from to false
  else
    let L := len t in
    if L =? 0 then None
    else
      let n := to - from in
      let from := from mod L in
      match subseq t from (from + Z.min n L) true with
      | None => None
      | Some s => Some (seg_loop (Z.to_nat n) t s from n)
      end.

(* ---------------------------------------------------------------- _Pcr *)
Record opts := mko {
  o_fwd : list sym; o_rev : list sym; o_ef : N; o_er : N;
  o_min : Z; o_max : Z; o_ext : option Z; o_full : bool; o_circ : bool }.

(* (sequence, direction = forward?, forward_match, forward_error, reverse_match, reverse_error) *)
Definition amplicon := (list nuc * bool * list nuc * N * list nuc * N)%type.

Definition fst3 (m : Z * Z * N) : Z := fst (fst m).
Definition snd3 (m : Z * Z * N) : Z := snd (fst m).
Definition err3 (m : Z * Z * N) : N := snd m.

(* insert length computed for a pair (match of the searched primer, match of the complemented partner) *)
Definition insert_length (o : opts) (L : Z) (fm rm : Z * Z * N) : Z :=
  if o_circ o then (fst3 rm - snd3 fm) mod L
  else if fst3 fm <? snd3 rm then fst3 rm - snd3 fm else 0.

Definition length_ok (o : opts) (l : Z) : bool :=
  (0 <? l) && ((o_min o =? 0) || (o_min o <=? l)) && ((o_max o =? 0) || (l <=? o_max o)).

(* the bounds of the amplicon cut, ins = the insert length computed above: None = pair skipped (full extension requested
   and not available). On a circular template the segment starts at the end of the first match (or x bases before its
   start) and its length is the insert length measured along the circle (plus both matches and both flanks) *)
Definition cut_bounds (o : opts) (L : Z) (ins : Z) (fm rm : Z * Z * N) : option (Z * Z) :=
  match o_ext o with
  | None => if o_circ o then Some (snd3 fm, snd3 fm + ins) else Some (snd3 fm, fst3 rm)
  | Some x =>
      let from := fst3 fm - x in
      let to := snd3 rm + x in
      if o_circ o then Some (from, from + ins + (snd3 fm - fst3 fm + (snd3 rm - fst3 rm)) + 2 * x)
      else
        let from' := if o_full o then from else if from <? 0 then 0 else from in
        let to' := if o_full o then to else if L <? to then L else to in
        if (0 <=? from') && (to' <=? L) then Some (from', to') else None
  end.

Definition opt3 {A B C D} (a : option A) (b : option B) (c : option C) (f : A -> B -> C -> D) : option D :=
  match a, b, c with Some a, Some b, Some c => Some (f a b c) | _, _, _ => None end.

(* the record written for a pair: a = the cut segment, f = text under the searched primer (kf errors), r = text under
   the complemented partner (kr errors). First block: as read; second block: everything reverse-complemented and the
   roles of the primers exchanged. *)
Definition mk_amp (fwd_block : bool) (a f : list nuc) (kf : N) (r : list nuc) (kr : N) : amplicon :=
  if fwd_block then (a, true, f, kf, rc r, kr) else (rc a, false, rc r, kr, f, kf).

(* one pair of matches: [] skipped, [Some a] an amplicon, [None] the fatal error *)
Definition pair_amplicon (o : opts) (t : list nuc) (fwd_block : bool) (fm rm : Z * Z * N) : list (option amplicon) :=
  let L := len t in
  let ins := insert_length o L fm rm in
  if (fst3 fm <? L) && (fst3 rm <? L) && length_ok o ins then
    match cut_bounds o L ins fm rm with
    | None => []
    | Some (from, to) =>
        [ opt3 (segment t from to (o_circ o)) (segment t (fst3 fm) (snd3 fm) (o_circ o)) (segment t (fst3 rm) (snd3 rm) (o_circ o))
            (fun a f r => mk_amp fwd_block a f (err3 fm) r (err3 rm)) ]
    end
  else [].

(* one orientation block of _Pcr, reading the letters `data` visible in the C buffer: pf searched over the whole
   template, pr (the complemented partner) in the window [first match of pf, end of its last match + max + len pr)
   (+ the MAX_PAT_LEN margin added by FindAllIndex, see find_all) *)
Definition block_on (data : list nuc) (o : opts) (t : list nuc) (pf : list sym) (ef : N) (pr : list sym) (er : N)
           (fwd_block : bool) : list (option amplicon) :=
  let L := len t in
  let fms := find_all pf ef data L 0 (-1) in
  match fms with
  | [] => []
  | fm0 :: _ =>
      let begin := fst3 fm0 in
      let length := L - begin in
      let length := if 0 <? o_max o then snd3 (last fms fm0) - begin + o_max o + len pr else length in
      let begin := if o_circ o then 0 else begin in
      let length := if o_circ o then L + MAX_PAT_LEN else length in
      let rms := find_all pr er data L begin length in
      flat_map (fun fm => flat_map (fun rm => pair_amplicon o t fwd_block fm rm) rms) fms
  end.

Fixpoint all_some {A} (l : list (option A)) : option (list A) :=
  match l with
  | [] => Some []
  | None :: _ => None
  | Some a :: r => match all_some r with Some r' => Some (a :: r') | None => None end
  end.

(* _Pcr on the visible part of a C buffer; None = log.Fatal *)
Definition pcr_on (data : list nuc) (o : opts) (t : list nuc) : option (list amplicon) :=
  all_some (block_on data o t (o_fwd o) (o_ef o) (rc_primer (o_rev o)) (o_er o) true
            ++ block_on data o t (o_rev o) (o_er o) (rc_primer (o_fwd o)) (o_ef o) false).

(* PCRSim: a fresh C buffer for the template *)
Definition fresh (o : opts) (t : list nuc) : list nuc := visible (encode_into [] t (o_circ o)) t (o_circ o).

Definition block (o : opts) (t : list nuc) (pf : list sym) (ef : N) (pr : list sym) (er : N) (fwd_block : bool)
  : list (option amplicon) := block_on (fresh o t) o t pf ef pr er fwd_block.

Definition pcr (o : opts) (t : list nuc) : option (list amplicon) := pcr_on (fresh o t) o t.

(* _PCRSlice: the C buffer of the previous template is recycled (MakeApatSequence(sequence, circular, seq)) *)
Fixpoint pcr_slice_from (o : opts) (buf : list nuc) (ts : list (list nuc)) : list (option (list amplicon)) :=
  match ts with
  | [] => []
  | t :: r =>
      let buf' := encode_into buf t (o_circ o) in
      pcr_on (visible buf' t (o_circ o)) o t :: pcr_slice_from o buf' r
  end.

Definition pcr_slice (o : opts) (ts : list (list nuc)) : list (option (list amplicon)) := pcr_slice_from o [] ts.

(* ---------------------------------------------------------------- correspondence *)
Fixpoint list_eqb (a b : list N) : bool :=
  match a, b with
  | [], [] => true
  | x :: a', y :: b' => (x =? y)%N && list_eqb a' b'
  | _, _ => false
  end.

Definition amp_eqb (a b : amplicon) : bool :=
  match a, b with
  | (s1, d1, f1, e1, r1, g1), (s2, d2, f2, e2, r2, g2) =>
      list_eqb s1 s2 && Bool.eqb d1 d2 && list_eqb f1 f2 && (e1 =? e2)%N && list_eqb r1 r2 && (g1 =? g2)%N
  end.

Fixpoint remove_one (a : amplicon) (l : list amplicon) : option (list amplicon) :=
  match l with
  | [] => None
  | b :: r => if amp_eqb a b then Some r else match remove_one a r with Some r' => Some (b :: r') | None => None end
  end.

Fixpoint same_multiset (a b : list amplicon) : bool :=
  match a with
  | [] => match b with [] => true | _ => false end
  | x :: a' => match remove_one x b with Some b' => same_multiset a' b' | None => false end
  end.

Record case := mkc {
  c_fwd : list N; c_rev : list N; c_ef : N; c_er : N; c_min : N; c_max : N; c_ext : option N;
  c_full : bool; c_circ : bool; c_t : list N; c_obs : list amplicon }.

Definition opts_of (c : case) : opts :=
  mko (c_fwd c) (c_rev c) (c_ef c) (c_er c) (Z.of_N (c_min c)) (Z.of_N (c_max c))
      (match c_ext c with Some x => Some (Z.of_N x) | None => None end) (c_full c) (c_circ c).

Definition agrees (c : case) : bool :=
  match pcr (opts_of c) (c_t c) with
  | Some l => same_multiset l (c_obs c)
  | None => false
  end.

Fixpoint mismatches_from (i : nat) (cs : list case) : list nat :=
  match cs with
  | [] => []
  | c :: r => if agrees c then mismatches_from (S i) r else i :: mismatches_from (S i) r
  end.

Definition mismatches (cs : list case) : list nat := mismatches_from 0 cs.

(* ---------------------------------------------------------------- obiiter.IFragments (obipcr --fragmented) *)
(* the cutting loop `for i := 0; i < N; i += step`: fragment [i, min(i+length, N)), extended to N (and the loop ended)
   when fewer than step positions would remain after it; fuel N is enough when step >= 1 *)
Fixpoint frag_loop (fuel : nat) (N length step i : Z) : list (Z * Z) :=
  match fuel with
  | O => []
  | S f =>
      if i <? N then
        let e := Z.min (i + length) N in
        if N - e <? step then [(i, N)]
        else (i, e) :: frag_loop f N length step (i + step)
      else []
  end.

(* sequences not longer than minsize are passed unchanged *)
Definition fragments (minsize length overlap N : Z) : list (Z * Z) :=
  if N <=? minsize then [(0, N)] else frag_loop (Z.to_nat N) N length (length - overlap) 0.

Record fcase := mkf { f_minsize : Z; f_length : Z; f_overlap : Z; f_N : Z; f_obs : list (Z * Z) }.

Fixpoint zz_eqb (a b : list (Z * Z)) : bool :=
  match a, b with
  | [], [] => true
  | (x1, y1) :: a', (x2, y2) :: b' => (x1 =? x2) && (y1 =? y2) && zz_eqb a' b'
  | _, _ => false
  end.

Fixpoint frag_mismatches_from (i : nat) (cs : list fcase) : list nat :=
  match cs with
  | [] => []
  | c :: r =>
      if zz_eqb (fragments (f_minsize c) (f_length c) (f_overlap c) (f_N c)) (f_obs c) then frag_mismatches_from (S i) r
      else i :: frag_mismatches_from (S i) r
  end.

Definition frag_mismatches (cs : list fcase) : list nat := frag_mismatches_from 0 cs.
