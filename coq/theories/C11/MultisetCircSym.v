From Coq Require Import ZArith NArith List Bool Lia Permutation.
Import ListNotations.
From OBI.C11 Require Import Model Spec Proofs Lists Multiset MultisetStrand MultisetCirc.
Open Scope Z_scope.

(* ====================== rotation invariance as multisets ====================== *)
Definition unshift (r L : Z) (h : Z * N) : Z * N := ((fst h - r) mod L, snd h).

Lemma rot_len : forall r t, (r <= length t)%nat -> len (rot r t) = len t.
Proof. intros. unfold len. now rewrite rot_length. Qed.

Lemma csites_rot : forall p e t r, (r <= length t)%nat ->
  Permutation (csites p e (rot r t)) (map (unshift (Z.of_nat r) (len t)) (csites p e t)).
Proof.
  intros p e t r Hr. unfold csites. rewrite rot_len by auto. set (L := len t). set (R := Z.of_nat r).
  rewrite !positions_z.
  apply (sites_reindex _ _ (unshift R L) (fun i => (i + R) mod L)).
  - apply zpositions_perm.
    + intros i Hi. apply Z.mod_pos_bound. lia.
    + intros i j Hi Hj Heq.
      assert (H : (i + R - R) mod L = (j + R - R) mod L) by (rewrite <- (Zminus_mod_idemp_l (i + R)), Heq, Zminus_mod_idemp_l; reflexivity).
      replace (i + R - R) with i in H by lia. replace (j + R - R) with j in H by lia.
      rewrite !Z.mod_small in H by lia. exact H.
  - intros i Hi. unfold site_at.
    assert (Hpos : (0 < length t)%nat) by (unfold L, len in Hi; lia).
    rewrite circ_rot by auto. fold R. rewrite <- (circ_mod t (i + R)). fold L.
    destruct (mm p (circ t ((i + R) mod L) (len p)) <=? e)%N; [|reflexivity].
    cbn [map]. unfold unshift. cbn [fst snd]. f_equal. f_equal.
    rewrite Zminus_mod_idemp_l. replace (i + R - R) with i by lia. symmetry. apply Z.mod_small. lia.
Qed.

Lemma unshift_add : forall i r c L, 0 < L -> ((i - r) mod L + c + r) mod L = (i + c) mod L.
Proof.
  intros i r c L HL. rewrite <- Z.add_assoc, Zplus_mod_idemp_l. f_equal. lia.
Qed.

Lemma cell_circ_rot : forall o t r m1 m2 fb i k1 j k2, (r <= length t)%nat -> 0 <= i < len t -> 0 <= j < len t ->
  cell_circ o (rot r t) m1 m2 fb (unshift (Z.of_nat r) (len t) (i, k1)) (unshift (Z.of_nat r) (len t) (j, k2)) =
  cell_circ o t m1 m2 fb (i, k1) (j, k2).
Proof.
  intros o t r m1 m2 fb i k1 j k2 Hr Hi Hj. unfold cell_circ, unshift, circ_cut. cbn [fst snd].
  rewrite rot_len by auto. set (L := len t) in *. set (R := Z.of_nat r).
  assert (HL : 0 < L) by lia. assert (Hpos : (0 < length t)%nat) by (unfold L, len in HL; lia).
  assert (Hins : ((j - R) mod L - ((i - R) mod L + m1)) mod L = (j - (i + m1)) mod L).
  { replace (j - R) with (j + - R) by lia. replace (i - R) with (i + - R) by lia. apply mod_shift. exact HL. }
  rewrite Hins. destruct (length_ok o ((j - (i + m1)) mod L)); [|reflexivity].
  assert (Hf : circ (rot r t) ((i - R) mod L) m1 = circ t i m1).
  { rewrite circ_rot by auto. apply circ_congr. fold L R. replace ((i - R) mod L + R) with ((i - R) mod L + 0 + R) by lia.
    rewrite unshift_add by auto. f_equal. lia. }
  assert (Hrv : circ (rot r t) ((j - R) mod L) m2 = circ t j m2).
  { rewrite circ_rot by auto. apply circ_congr. fold L R. replace ((j - R) mod L + R) with ((j - R) mod L + 0 + R) by lia.
    rewrite unshift_add by auto. f_equal. lia. }
  rewrite Hf, Hrv.
  destruct (o_ext o) as [x|].
  - rewrite circ_rot by auto. fold R.
    rewrite (circ_congr t ((i - R) mod L - x + R) (i - x)); [reflexivity|]. fold L.
    replace ((i - R) mod L - x + R) with ((i - R) mod L + (- x) + R) by lia. rewrite unshift_add by auto. f_equal; lia.
  - rewrite circ_rot by auto. fold R.
    rewrite (circ_congr t ((i - R) mod L + m1 + R) (i + m1)); [reflexivity|]. fold L. apply unshift_add. auto.
Qed.

Lemma amps_orient_circ_rot : forall o t r p1 e1 p2 e2 fb, (r <= length t)%nat ->
  Permutation (amps_orient_circ o (rot r t) p1 e1 p2 e2 fb) (amps_orient_circ o t p1 e1 p2 e2 fb).
Proof.
  intros o t r p1 e1 p2 e2 fb Hr. unfold amps_orient_circ.
  apply (double_reindex _ (csites p1 e1 t) _ (csites p2 e2 t) (unshift (Z.of_nat r) (len t)) (unshift (Z.of_nat r) (len t))).
  - apply csites_rot. auto.
  - apply csites_rot. auto.
  - intros [i k1] [j k2] H1 H2. apply csites_range in H1, H2. apply cell_circ_rot; auto.
Qed.

Lemma amps_circ_rot : forall o t r, (r <= length t)%nat -> Permutation (amps_circ o (rot r t)) (amps_circ o t).
Proof. intros o t r Hr. unfold amps_circ. apply Permutation_app; apply amps_orient_circ_rot; auto. Qed.

Lemma pcr_rotation_multiset : forall o t r l l', (r <= length t)%nat -> circular_ok o ->
  pcr o t = Some l -> pcr o (rot r t) = Some l' -> Permutation l' l.
Proof.
  intros o t r l l' Hr Hok Hl Hl'. rewrite pcr_circ_list in Hl, Hl' by auto. inversion Hl; inversion Hl'; subst.
  apply amps_circ_rot. auto.
Qed.

(* ====================== strand symmetry on circular templates as multisets ====================== *)
Definition cmirror (L m : Z) (h : Z * N) : Z * N := ((- fst h - m) mod L, snd h).

Lemma cmirror_pos_invol : forall L m i, 0 <= i < L -> (- ((- i - m) mod L) - m) mod L = i.
Proof.
  intros L m i Hi. replace (- ((- i - m) mod L) - m) with (- m - (- i - m) mod L) by lia.
  rewrite Zminus_mod_idemp_r. replace (- m - (- i - m)) with i by lia. apply Z.mod_small. lia.
Qed.

Lemma csites_cmirror : forall p e t,
  Permutation (csites (rc_primer p) e (rc t)) (map (cmirror (len t) (len p)) (csites p e t)).
Proof.
  intros p e t. unfold csites. rewrite rc_primer_len, rc_len. set (L := len t). set (m := len p).
  pose proof (len_nonneg p) as Hm. fold m in Hm. rewrite !positions_z.
  apply (sites_reindex _ _ (cmirror L m) (fun i => (- i - m) mod L)).
  - apply zpositions_perm.
    + intros i Hi. apply Z.mod_pos_bound. lia.
    + intros i j Hi Hj Heq. rewrite <- (cmirror_pos_invol L m i), <- (cmirror_pos_invol L m j) by auto. now rewrite Heq.
  - intros i Hi. unfold site_at.
    rewrite circ_rc by (fold L; lia). rewrite mm_rc by (rewrite circ_length; unfold m, len; lia).
    rewrite <- (circ_mod t (- i - m)). fold L.
    destruct (mm p (circ t ((- i - m) mod L) m) <=? e)%N; [|reflexivity].
    cbn [map]. unfold cmirror. cbn [fst snd]. f_equal. f_equal. symmetry. apply cmirror_pos_invol. auto.
Qed.

Lemma csites_cmirror' : forall p e t,
  Permutation (csites p e (rc t)) (map (cmirror (len t) (len p)) (csites (rc_primer p) e t)).
Proof.
  intros p e t. pose proof (csites_cmirror p e (rc t)) as H. rewrite rc_invol, rc_len in H.
  apply (Permutation_map (cmirror (len t) (len p))) in H. rewrite map_map in H.
  rewrite (map_ext_in (fun x => cmirror (len t) (len p) (cmirror (len t) (len p) x)) (fun h => h)) in H.
  - rewrite map_id in H. apply Permutation_sym. exact H.
  - intros [i k] Hin. apply csites_range in Hin. rewrite rc_len in Hin. unfold cmirror. cbn [fst snd]. f_equal.
    apply cmirror_pos_invol. auto.
Qed.

Lemma cell_circ_mirror : forall o t ma mb fb i k1 j k2, ext_ok o ->
  0 <= ma -> 0 <= mb -> 0 <= i < len t -> 0 <= j < len t ->
  cell_circ o (rc t) ma mb fb (cmirror (len t) ma (i, k1)) (cmirror (len t) mb (j, k2)) =
  map flip (cell_circ o t mb ma (negb fb) (j, k2) (i, k1)).
Proof.
  intros o t ma mb fb i k1 j k2 Hx Hma Hmb Hi Hj. unfold cell_circ, cmirror, circ_cut. cbn [fst snd].
  rewrite rc_len. set (L := len t) in *. assert (HL : 0 < L) by lia.
  assert (Hins : ((- j - mb) mod L - ((- i - ma) mod L + ma)) mod L = (i - (j + mb)) mod L).
  { rewrite Zminus_mod, (Zplus_mod ((- i - ma) mod L) ma), !Z.mod_mod by lia.
    rewrite <- (Zplus_mod (- i - ma) ma), <- Zminus_mod. f_equal. lia. }
  rewrite Hins. set (n := (i - (j + mb)) mod L).
  assert (Hn : 0 <= n) by (apply Z.mod_pos_bound; lia).
  destruct (length_ok o n); [|reflexivity].
  assert (Hfm : circ (rc t) ((- i - ma) mod L) ma = rc (circ t i ma)).
  { rewrite circ_rc by (fold L; lia). f_equal. apply circ_congr. fold L.
    replace (- ((- i - ma) mod L) - ma) with (- ma - (- i - ma) mod L) by lia. rewrite Zminus_mod_idemp_r. f_equal. lia. }
  assert (Hrm : circ (rc t) ((- j - mb) mod L) mb = rc (circ t j mb)).
  { rewrite circ_rc by (fold L; lia). f_equal. apply circ_congr. fold L.
    replace (- ((- j - mb) mod L) - mb) with (- mb - (- j - mb) mod L) by lia. rewrite Zminus_mod_idemp_r. f_equal. lia. }
  rewrite Hfm, Hrm.
  assert (Hcut : match o_ext o with
                 | Some x => circ (rc t) ((- i - ma) mod L - x) (ma + n + mb + 2 * x)
                 | None => circ (rc t) ((- i - ma) mod L + ma) n
                 end = rc match o_ext o with
                          | Some x => circ t (j - x) (mb + n + ma + 2 * x)
                          | None => circ t (j + mb) n
                          end).
  { destruct (o_ext o) as [x|] eqn:Eext.
    - specialize (Hx x Eext). rewrite circ_rc by (fold L; lia). f_equal.
      replace (ma + n + mb + 2 * x) with (mb + n + ma + 2 * x) by lia. apply circ_congr. fold L.
      replace (- ((- i - ma) mod L - x) - (mb + n + ma + 2 * x)) with ((- x - mb - ma - n) - (- i - ma) mod L) by lia.
      rewrite Zminus_mod_idemp_r. unfold n.
      replace (- x - mb - ma - (i - (j + mb)) mod L - (- i - ma)) with ((i - x - mb) - (i - (j + mb)) mod L) by lia.
      rewrite Zminus_mod_idemp_r. f_equal. lia.
    - rewrite circ_rc by (fold L; lia). f_equal. apply circ_congr. fold L.
      replace (- ((- i - ma) mod L + ma) - n) with ((- ma - n) - (- i - ma) mod L) by lia.
      rewrite Zminus_mod_idemp_r. unfold n.
      replace (- ma - (i - (j + mb)) mod L - (- i - ma)) with (i - (i - (j + mb)) mod L) by lia.
      rewrite Zminus_mod_idemp_r. f_equal. lia. }
  rewrite Hcut.
  destruct fb; cbn [mk_amp flip negb map]; rewrite ?rc_invol; reflexivity.
Qed.

Lemma amps_orient_circ_mirror : forall o t pa ea pb eb fb, ext_ok o ->
  Permutation (amps_orient_circ o (rc t) pa ea (rc_primer pb) eb fb)
              (map flip (amps_orient_circ o t pb eb (rc_primer pa) ea (negb fb))).
Proof.
  intros o t pa ea pb eb fb Hx. unfold amps_orient_circ. rewrite !rc_primer_len.
  apply (double_reindex_swap _ (csites (rc_primer pa) ea t) _ (csites pb eb t)
           (cmirror (len t) (len pa)) (cmirror (len t) (len pb))).
  - apply csites_cmirror'.
  - apply csites_cmirror.
  - intros [i k1] [j k2] H1 H2. apply csites_range in H1, H2.
    apply cell_circ_mirror; auto using len_nonneg.
Qed.

Lemma amps_circ_strand : forall o t, ext_ok o -> Permutation (amps_circ o (rc t)) (map flip (amps_circ o t)).
Proof.
  intros o t Hx. unfold amps_circ. rewrite map_app.
  eapply Permutation_trans; [|apply Permutation_app_comm].
  apply Permutation_app.
  - apply (amps_orient_circ_mirror o t (o_fwd o) (o_ef o) (o_rev o) (o_er o) true Hx).
  - apply (amps_orient_circ_mirror o t (o_rev o) (o_er o) (o_fwd o) (o_ef o) false Hx).
Qed.

Lemma pcr_strand_circ_multiset : forall o t l l', circular_ok o ->
  pcr o t = Some l -> pcr o (rc t) = Some l' -> Permutation l' (map flip l).
Proof.
  intros o t l l' Hok Hl Hl'. rewrite pcr_circ_list in Hl, Hl' by auto. inversion Hl; inversion Hl'; subst.
  apply amps_circ_strand. destruct Hok as (_ & Hx & _). exact Hx.
Qed.

(* ====================== set-level corollaries ====================== *)
Lemma pcr_circ : forall o t, circular_ok o ->
  exists l, pcr o t = Some l /\ forall a, In a l <-> spec_pcr_circ o t a.
Proof. intros o t H. exists (amps_circ o t). split; [apply pcr_circ_list; auto|]. intros a. apply in_amps_circ. Qed.

Lemma pcr_circ_total : forall o t, circular_ok o -> pcr o t <> None.
Proof. intros o t H. rewrite pcr_circ_list by auto. discriminate. Qed.

Lemma pcr_circ_sound : forall o t l a, circular_ok o -> pcr o t = Some l -> In a l -> spec_pcr_circ o t a.
Proof. intros o t l a H Hl Ha. rewrite pcr_circ_list in Hl by auto. inversion Hl; subst. apply in_amps_circ, Ha. Qed.

Lemma pcr_circ_complete : forall o t a, circular_ok o -> spec_pcr_circ o t a -> exists l, pcr o t = Some l /\ In a l.
Proof. intros o t a H Ha. exists (amps_circ o t). split; [apply pcr_circ_list; auto|]. apply in_amps_circ, Ha. Qed.

Lemma pcr_circ_multiset : forall o t, circular_ok o -> exists l, pcr o t = Some l /\ Permutation l (amps_circ o t).
Proof. intros o t H. exists (amps_circ o t). split; [apply pcr_circ_list; auto|apply Permutation_refl]. Qed.

Lemma pcr_lin_multiset : forall o t, linear_ok o -> exists l, pcr o t = Some l /\ Permutation l (amps_lin o t).
Proof. intros o t H. exists (amps_lin o t). split; [apply pcr_lin_list; auto|apply Permutation_refl]. Qed.

(* the list specification of linear templates against the relational one *)
Lemma in_amps_lin : forall o t a, linear_ok o -> (In a (amps_lin o t) <-> spec_pcr_lin o t a).
Proof.
  intros o t a H. destruct (pcr_lin o t H) as (l & Hl & Hs). rewrite pcr_lin_list in Hl by auto. inversion Hl; subst. apply Hs.
Qed.

(* the known finding of round 1 "flanked amplicon longer than the circle", now repaired: forward primer acgt, reverse
   primer ggcc, extension 10, on the 30-base circle acgt a^15 ggcc t^7 the pair (acgt at 0, ggcc at 19) is reported with
   its 4+15+4+20 = 43 bases, read around the circle *)
Lemma overlong_flank_example :
  exists l, pcr (mko [1;2;4;8]%N [4;4;2;2]%N 0 0 0 0 (Some 10) false true)
              ([0;1;2;3] ++ repeat 0 15 ++ [2;2;1;1] ++ repeat 3 7)%N = Some l /\
    exists s f kf r kr, In (s, true, f, kf, r, kr) l /\ len s = len f + 15 + len r + 2 * 10.
Proof.
  eexists. split; [vm_compute; reflexivity|].
  do 5 eexists. split; [left; reflexivity|]. vm_compute. reflexivity.
Qed.
