(* C11, round 3 — provenance of the records of _Pcr: proofs (definitions in ModelQ.v) *)
From Coq Require Import ZArith NArith List Bool Lia.
Import ListNotations.
From OBI.C11 Require Import Model ModelQ Spec Proofs Multiset Lists.
Open Scope Z_scope.

Definition amp_seq (a : amplicon) : list nuc := fst (fst (fst (fst (fst a)))).
Definition amp_dir (a : amplicon) : bool := snd (fst (fst (fst (fst a)))).

(* ------------------------------------------------------------ cutting commutes with relabelling the letters *)
Lemma len_map : forall (f : N -> N) l, len (map f l) = len l.
Proof. intros. unfold len. rewrite map_length. reflexivity. Qed.

Lemma slice_map : forall (f : N -> N) l a b, slice (map f l) a b = map f (slice l a b).
Proof. intros. unfold slice. rewrite skipn_map, firstn_map. reflexivity. Qed.

Lemma subseq_map : forall (f : N -> N) l a b c, subseq (map f l) a b c = option_map (map f) (subseq l a b c).
Proof.
  intros f l a b c. unfold subseq, nuc. rewrite len_map.
  repeat match goal with |- context [if ?x then _ else _] => destruct x end;
    cbn [option_map]; rewrite ?slice_map, ?map_app; reflexivity.
Qed.

Lemma seg_loop_map : forall (f : N -> N) fuel l s from n,
  seg_loop fuel (map f l) (map f s) from n = map f (seg_loop fuel l s from n).
Proof.
  intros f fuel. induction fuel as [|fuel IH]; intros l s from n; cbn [seg_loop]; [reflexivity|].
  unfold nuc. rewrite !len_map. destruct (len s <? n); [|reflexivity].
  rewrite slice_map, <- map_app. apply IH.
Qed.

Lemma segment_map : forall (f : N -> N) l a b c, segment (map f l) a b c = option_map (map f) (segment l a b c).
Proof.
  intros f l a b c. unfold segment, nuc. destruct (negb c).
  - apply subseq_map.
  - rewrite len_map. destruct (len l =? 0); [reflexivity|].
    rewrite subseq_map. destruct (subseq l (a mod len l) (a mod len l + Z.min (b - a) (len l)) true) as [s|]; cbn [option_map]; [|reflexivity].
    rewrite seg_loop_map. reflexivity.
Qed.

Lemma tpos_length : forall n, length (tpos n) = n.
Proof. intros. unfold tpos. rewrite map_length, seq_length. reflexivity. Qed.

Lemma map_letter_tpos : forall t, map (letter t) (tpos (length t)) = t.
Proof.
  intros t. unfold tpos. rewrite map_map.
  apply nth_ext with (d := letter t 0%N) (d' := 0%N).
  - rewrite map_length, seq_length. reflexivity.
  - intros k Hk. rewrite map_length, seq_length in Hk.
    rewrite nth_map_seq by exact Hk. unfold letter. rewrite Nat2N.id. reflexivity.
Qed.

(* every base of a segment is the base at the position the same cut of the positions gives *)
Lemma segment_prov : forall t a b c,
  segment t a b c = option_map (map (letter t)) (segment (tpos (length t)) a b c).
Proof.
  intros t a b c. rewrite <- segment_map, map_letter_tpos. reflexivity.
Qed.

(* ------------------------------------------------------------ a segment holds letters of the sequence only *)
Lemma in_firstn : forall {A} n (l : list A) x, In x (firstn n l) -> In x l.
Proof. intros A n l x H. rewrite <- (firstn_skipn n l). apply in_or_app. left. exact H. Qed.

Lemma in_skipn : forall {A} n (l : list A) x, In x (skipn n l) -> In x l.
Proof. intros A n l x H. rewrite <- (firstn_skipn n l). apply in_or_app. right. exact H. Qed.

Lemma slice_incl : forall {A} (l : list A) a b, incl (slice l a b) l.
Proof. intros A l a b x H. unfold slice in H. apply in_firstn in H. apply in_skipn in H. exact H. Qed.

Lemma subseq_incl : forall l a b c s, subseq l a b c = Some s -> incl s l.
Proof.
  intros l a b c s. unfold subseq.
  repeat match goal with |- context [if ?x then _ else _] => destruct x end; try discriminate;
    intros H; injection H as <-.
  - apply slice_incl.
  - apply incl_app; apply slice_incl.
Qed.

Lemma seg_loop_incl : forall fuel l s from n, incl s l -> incl (seg_loop fuel l s from n) l.
Proof.
  induction fuel as [|fuel IH]; intros l s from n Hs; cbn [seg_loop]; [exact Hs|].
  destruct (len s <? n); [|exact Hs].
  apply IH. apply incl_app; [exact Hs|apply slice_incl].
Qed.

Lemma segment_incl : forall l a b c s, segment l a b c = Some s -> incl s l.
Proof.
  intros l a b c s. unfold segment. destruct (negb c).
  - apply subseq_incl.
  - destruct (len l =? 0); [discriminate|].
    destruct (subseq l (a mod len l) (a mod len l + Z.min (b - a) (len l)) true) as [s0|] eqn:E; [|discriminate].
    intros H. injection H as <-. apply seg_loop_incl. eapply subseq_incl. exact E.
Qed.

Lemma tpos_in : forall n p, In p (tpos n) -> (N.to_nat p < n)%nat.
Proof.
  intros n p H. unfold tpos in H. apply in_map_iff in H. destruct H as (k & <- & Hk).
  apply in_seq in Hk. rewrite Nat2N.id. lia.
Qed.

Lemma segment_prov_range : forall n a b c P,
  segment (tpos n) a b c = Some P -> Forall (fun p => (N.to_nat p < n)%nat) P.
Proof.
  intros n a b c P H. apply Forall_forall. intros p Hp. apply tpos_in.
  eapply segment_incl; eassumption.
Qed.

(* ------------------------------------------------------------ one pair of matches *)
Definition prov_ok (t : list nuc) (fb : bool) (oa : option amplicon) (oP : option (list N)) : Prop :=
  forall a, oa = Some a ->
    exists P, oP = Some P /\ amp_seq a = read t fb P /\ amp_dir a = fb /\ Forall (fun p => (N.to_nat p < length t)%nat) P.

Lemma rc_read : forall t P, rc (map (letter t) P) = read t false (rev P).
Proof. intros t P. unfold rc, read. rewrite map_map, <- map_rev. reflexivity. Qed.

Lemma pair_prov_spec : forall o t fb fm rm,
  Forall2 (prov_ok t fb) (pair_amplicon o t fb fm rm) (pair_prov o t fb fm rm).
Proof.
  intros o t fb fm rm. unfold pair_amplicon, pair_prov.
  destruct ((fst3 fm <? len t) && (fst3 rm <? len t) && length_ok o (insert_length o (len t) fm rm)); [|constructor].
  destruct (cut_bounds o (len t) (insert_length o (len t) fm rm) fm rm) as [[from to]|]; [|constructor].
  constructor; [|constructor].
  intros a Ha. rewrite (segment_prov t from to) in Ha.
  destruct (segment (tpos (length t)) from to (o_circ o)) as [P|] eqn:EP; [|discriminate Ha].
  cbn [option_map] in Ha. pose proof (segment_prov_range _ _ _ _ _ EP) as HR.
  unfold opt3 in Ha.
  destruct (segment t (fst3 fm) (snd3 fm) (o_circ o)) as [f|]; [|discriminate Ha].
  destruct (segment t (fst3 rm) (snd3 rm) (o_circ o)) as [r|]; [|discriminate Ha].
  injection Ha as <-. unfold mk_amp. destruct fb.
  - exists P. split; [reflexivity|]. split; [|split; [reflexivity|exact HR]].
    unfold amp_seq, read. cbn [fst]. reflexivity.
  - exists (rev P). split; [reflexivity|]. split; [|split; [reflexivity|apply Forall_rev; exact HR]].
    unfold amp_seq. cbn [fst]. apply rc_read.
Qed.

(* ------------------------------------------------------------ lifted to _Pcr *)
Lemma Forall2_flat_map : forall {A B C} (R : B -> C -> Prop) (f : A -> list B) (g : A -> list C) l,
  (forall x, Forall2 R (f x) (g x)) -> Forall2 R (flat_map f l) (flat_map g l).
Proof.
  intros A B C R f g l H. induction l as [|x l IH]; cbn [flat_map]; [constructor|].
  apply Forall2_app; [apply H|exact IH].
Qed.

Lemma Forall2_mono : forall {A B} (R1 R2 : A -> B -> Prop) l l',
  (forall a b, R1 a b -> R2 a b) -> Forall2 R1 l l' -> Forall2 R2 l l'.
Proof. intros A B R1 R2 l l' H F. induction F; constructor; auto. Qed.

Lemma Forall2_len : forall {A B} (R : A -> B -> Prop) l l', Forall2 R l l' -> length l = length l'.
Proof. intros A B R l l' F. induction F; cbn; [reflexivity|f_equal; assumption]. Qed.

Lemma block_prov_spec : forall data o t pf ef pr er fb,
  Forall2 (prov_ok t fb) (block_on data o t pf ef pr er fb) (block_prov data o t pf ef pr er fb).
Proof.
  intros. unfold block_on, block_prov.
  destruct (find_all pf ef data (len t) 0 (-1)) as [|fm0 fms]; [constructor|].
  apply Forall2_flat_map. intros fm. apply Forall2_flat_map. intros rm. apply pair_prov_spec.
Qed.

Definition rec_ok (t : list nuc) (a : amplicon) (P : list N) : Prop :=
  amp_seq a = read t (amp_dir a) P /\ Forall (fun p => (N.to_nat p < length t)%nat) P.

Definition prov_ok' (t : list nuc) (oa : option amplicon) (oP : option (list N)) : Prop :=
  forall a, oa = Some a -> exists P, oP = Some P /\ rec_ok t a P.

Lemma prov_ok_weaken : forall t fb oa oP, prov_ok t fb oa oP -> prov_ok' t oa oP.
Proof.
  intros t fb oa oP H a Ha. destruct (H a Ha) as (P & HP & Hs & Hd & HR).
  exists P. split; [exact HP|]. split; [rewrite Hd; exact Hs|exact HR].
Qed.

Lemma all_some_prov : forall t la lp l,
  Forall2 (prov_ok' t) la lp -> all_some la = Some l ->
  exists ps, all_some lp = Some ps /\ Forall2 (rec_ok t) l ps.
Proof.
  intros t la lp l F. revert l. induction F as [|oa oP la lp H F IH]; intros l Hl.
  - cbn in Hl. injection Hl as <-. exists []. split; [reflexivity|constructor].
  - cbn [all_some] in Hl. destruct oa as [a|]; [|discriminate Hl].
    destruct (all_some la) as [l'|]; [|discriminate Hl]. injection Hl as <-.
    destruct (H a eq_refl) as (P & -> & HP). destruct (IH l' eq_refl) as (ps & Hps & F2).
    exists (P :: ps). cbn [all_some]. rewrite Hps. split; [reflexivity|constructor; assumption].
Qed.

(* Provenance: whenever _Pcr returns records, every base of every record is the base (first block) or the complement of
   the base (second block: direction reverse) found at a definite position of the template, given by cutting the list of
   positions with the same bounds. *)
Theorem provenance : forall o t l, pcr o t = Some l ->
  exists ps, pcr_prov o t = Some ps /\ pcr_with_prov o t = Some (combine l ps) /\ length ps = length l /\
             Forall2 (rec_ok t) l ps.
Proof.
  intros o t l Hl. unfold pcr, pcr_on in Hl.
  assert (F : Forall2 (prov_ok' t)
                (block_on (fresh o t) o t (o_fwd o) (o_ef o) (rc_primer (o_rev o)) (o_er o) true ++
                 block_on (fresh o t) o t (o_rev o) (o_er o) (rc_primer (o_fwd o)) (o_ef o) false)
                (block_prov (fresh o t) o t (o_fwd o) (o_ef o) (rc_primer (o_rev o)) (o_er o) true ++
                 block_prov (fresh o t) o t (o_rev o) (o_er o) (rc_primer (o_fwd o)) (o_ef o) false)).
  { apply Forall2_app; (eapply Forall2_mono; [apply prov_ok_weaken|apply block_prov_spec]). }
  destruct (all_some_prov _ _ _ _ F Hl) as (ps & Hps & F2).
  exists ps. pose proof (Forall2_len _ _ _ F2) as Hlen.
  split; [exact Hps|]. split; [|split; [symmetry; exact Hlen|exact F2]].
  unfold pcr_with_prov. fold (pcr_prov o t) in Hps. unfold pcr_prov in Hps |- *. unfold pcr, pcr_on. rewrite Hl, Hps.
  rewrite Hlen, Nat.eqb_refl. reflexivity.
Qed.

Theorem pcr_with_prov_fst : forall o t ms, pcr_with_prov o t = Some ms -> pcr o t = Some (map fst ms).
Proof.
  intros o t ms. unfold pcr_with_prov. destruct (pcr o t) as [l|]; [|discriminate].
  destruct (pcr_prov o t) as [ps|]; [|discriminate].
  destruct (length l =? length ps)%nat eqn:E; [|discriminate]. apply Nat.eqb_eq in E.
  intros H. injection H as <-. f_equal. clear - E. revert ps E.
  induction l as [|a l IH]; intros [|p ps] E; cbn in *; try discriminate; [reflexivity|].
  f_equal. apply IH. lia.
Qed.

Theorem provenance_in : forall o t ms a P, pcr_with_prov o t = Some ms -> In (a, P) ms -> rec_ok t a P.
Proof.
  intros o t ms a P Hms Hin. pose proof (pcr_with_prov_fst _ _ _ Hms) as Hl.
  destruct (provenance _ _ _ Hl) as (ps & _ & Hw & _ & F2). rewrite Hms in Hw. injection Hw as E.
  remember (map fst ms) as l eqn:El. clear El Hl Hms. subst ms. clear - F2 Hin.
  induction F2 as [|a0 P0 l ps H F IH]; cbn in Hin; [contradiction|].
  destruct Hin as [E|Hin]; [injection E as <- <-; exact H|apply IH; exact Hin].
Qed.

(* base k and score k of a record come from the same position of the template *)
Theorem quals_aligned : forall t q (d : bool) P,
  combine (read t d P) (quals_of q P) =
  map (fun p => (if d then letter t p else comp_nuc (letter t p), nth (N.to_nat p) q 0%N)) P.
Proof. intros t q d P. induction P as [|p P IH]; cbn; [reflexivity|]. f_equal. exact IH. Qed.

Lemma nth_map_in : forall (f : N -> N) l k d d', (k < length l)%nat -> nth k (map f l) d = f (nth k l d').
Proof.
  intros f l. induction l as [|x l IH]; intros k d d' Hk; cbn in Hk; [lia|].
  destruct k as [|k]; cbn; [reflexivity|]. apply IH. lia.
Qed.

(* a mismatch position accepted by the check designates, in the record, the very base it designated in the template
   (its complement in a record of direction reverse) *)
Theorem designates_same_base : forall t (d : bool) P p j s, s = read t d P -> designates P p j = true ->
  nth (Z.to_nat (j - 1)) s 0%N = (if d then (fun x => x) else comp_nuc) (nth (Z.to_nat (p - 1)) t 0%N).
Proof.
  intros t d P p j s -> H. unfold designates in H. rewrite !andb_true_iff in H. destruct H as [[H1 H2] H3].
  apply Z.leb_le in H1, H2. apply Z.eqb_eq in H3. unfold len in H2.
  set (k := Z.to_nat (j - 1)) in *. assert (Hk : (k < length P)%nat) by lia.
  unfold read. rewrite (nth_map_in _ P k 0%N 0%N Hk). unfold letter.
  assert (E : N.to_nat (nth k P 0%N) = Z.to_nat (p - 1)) by lia.
  rewrite E. destruct d; reflexivity.
Qed.

Theorem shows_iff : forall P p, shows P p = true <-> exists k, (k < length P)%nat /\ Z.of_N (nth k P 0%N) = p - 1.
Proof.
  intros P p. unfold shows. rewrite existsb_exists. split.
  - intros (x & Hx & E). apply Z.eqb_eq in E. destruct (In_nth _ _ 0%N Hx) as (k & Hk & <-). exists k. auto.
  - intros (k & Hk & E). exists (nth k P 0%N). split; [apply nth_In; exact Hk|apply Z.eqb_eq; exact E].
Qed.

Theorem designates_shows : forall P p j, designates P p j = true -> shows P p = true.
Proof.
  intros P p j H. unfold designates in H. rewrite !andb_true_iff in H. destruct H as [[H1 H2] H3].
  apply Z.leb_le in H1, H2. apply Z.eqb_eq in H3. unfold len in H2.
  apply shows_iff. exists (Z.to_nat (j - 1)). split; [lia|exact H3].
Qed.

(* ------------------------------------------------------------ closed forms of the provenance *)
Lemma skipn_seq' : forall k s n, skipn k (seq s n) = seq (s + k) (n - k).
Proof.
  induction k as [|k IH]; intros s n; cbn [skipn].
  - rewrite Nat.add_0_r, Nat.sub_0_r. reflexivity.
  - destruct n as [|n]; cbn [seq]; [reflexivity|]. rewrite IH. f_equal; lia.
Qed.

Lemma firstn_seq' : forall k s n, firstn k (seq s n) = seq s (Nat.min k n).
Proof.
  induction k as [|k IH]; intros s n; cbn [firstn]; [reflexivity|].
  destruct n as [|n]; cbn [seq Nat.min]; [reflexivity|]. rewrite IH. reflexivity.
Qed.

(* linear template: the run of consecutive positions from .. to-1 *)
Theorem segment_tpos_linear : forall n a b, 0 <= a -> a < b -> b <= Z.of_nat n ->
  segment (tpos n) a b false = Some (map N.of_nat (seq (Z.to_nat a) (Z.to_nat (b - a)))).
Proof.
  intros n a b Ha Hab Hb. rewrite segment_lin.
  rewrite subseq_lin by (try lia; unfold len; rewrite tpos_length; lia).
  f_equal. unfold slice, tpos. rewrite skipn_map, firstn_map, skipn_seq', firstn_seq'. f_equal. f_equal; lia.
Qed.

(* circular template: position (from + k) mod L for the k-th base, however many turns the segment makes *)
Theorem segment_tpos_circular : forall n a b, (0 < n)%nat -> 0 < b - a ->
  segment (tpos n) a b true = Some (map (fun k => Z.to_N ((a + Z.of_nat k) mod Z.of_nat n)) (seq 0 (Z.to_nat (b - a)))).
Proof.
  intros n a b Hn Hab. rewrite segment_circ by (try lia; unfold len; rewrite tpos_length; lia).
  f_equal. unfold circ. apply map_ext_in. intros k _. unfold len. rewrite tpos_length.
  assert (Hm : 0 <= (a + Z.of_nat k) mod Z.of_nat n < Z.of_nat n) by (apply Z.mod_pos_bound; lia).
  unfold tpos. rewrite nth_map_seq by lia. lia.
Qed.

(* ------------------------------------------------------------ obiseq.Subsequence on a linear sequence: exact domain *)
(* it returns the bases [from, to) when 0 <= from < to <= length, and its error in every other case *)
Theorem subseq_linear_spec : forall t a b,
  subseq t a b false = if (0 <=? a) && (a <? b) && (b <=? len t) then Some (slice t a b) else None.
Proof.
  intros t a b. destruct ((0 <=? a) && (a <? b) && (b <=? len t)) eqn:G.
  - rewrite !andb_true_iff in G. destruct G as [[G1 G2] G3].
    apply Z.leb_le in G1, G3. apply Z.ltb_lt in G2. apply subseq_lin; lia.
  - unfold subseq. cbn [negb]. rewrite !andb_true_r.
    destruct (b <=? a) eqn:E1; [reflexivity|]. destruct (a <? 0) eqn:E2; [reflexivity|].
    destruct (len t <=? a) eqn:E3; [reflexivity|]. destruct (len t =? 0) eqn:E4; [reflexivity|].
    destruct (len t <? b) eqn:E5; [reflexivity|]. exfalso.
    apply Z.leb_gt in E1, E3. apply Z.ltb_ge in E2, E5.
    rewrite !andb_false_iff in G. destruct G as [[G|G]|G];
      [apply Z.leb_gt in G|apply Z.ltb_ge in G|apply Z.leb_gt in G]; lia.
Qed.

(* circular sequence: from < 0 is the only error of a non-empty circle; [from, to) with from < to <= from + length is read
   along the circle (what _Segment asks for) *)
Theorem subseq_circular_spec : forall t a b, 0 < len t -> 0 <= a -> a < b -> b <= a + len t ->
  subseq t a b true = Some (circ t a (b - a)).
Proof.
  intros t a b HL Ha Hab Hb. rewrite subseq_circ by lia. f_equal. f_equal.
  destruct (Z.eq_dec (b - a) (len t)) as [E|E].
  - rewrite E, Z.mod_same by lia. reflexivity.
  - rewrite Z.mod_small by lia. replace (b - a =? 0) with false by (symmetry; apply Z.eqb_neq; lia). reflexivity.
Qed.

(* ... and a negative start is refused whatever the topology *)
Theorem subseq_negative_start : forall t a b c, a < 0 -> subseq t a b c = None.
Proof.
  intros t a b c Ha. unfold subseq. destruct ((b <=? a) && negb c); [reflexivity|].
  replace (a <? 0) with true by (symmetry; apply Z.ltb_lt; lia). reflexivity.
Qed.

(* ------------------------------------------------------------ the arithmetic of _subseqMutation / _revcmpMutation *)
Lemma walk_length : forall L shift n, len (walk L shift n) = Z.max 0 n.
Proof. intros. unfold len, walk. rewrite map_length, seq_length. lia. Qed.

Lemma walk_nth : forall L shift n k, (k < Z.to_nat n)%nat -> 0 < L ->
  Z.of_N (nth k (walk L shift n) 0%N) = (shift + Z.of_nat k) mod L.
Proof.
  intros L shift n k Hk HL. unfold walk. rewrite nth_map_seq by exact Hk.
  pose proof (Z.mod_pos_bound (shift + Z.of_nat k) L HL). lia.
Qed.

Theorem mut_pos_sound : forall p shift L n j, 0 < L -> 0 <= shift < L -> 0 <= n <= L ->
  mut_pos p shift L n = Some j -> 1 <= p <= L /\ designates (walk L shift n) p j = true.
Proof.
  intros p shift L n j HL Hs Hn H. unfold mut_pos in H.
  destruct ((p <? 1) || (L <? p)) eqn:E; [discriminate H|].
  apply orb_false_iff in E. destruct E as [E1 E2]. apply Z.ltb_ge in E1, E2.
  split; [lia|]. cbn zeta in H.
  assert (Hj : 1 <= j <= n /\ (j = p - shift \/ j = p - shift + L)).
  { destruct (p - shift <=? 0) eqn:E3.
    - apply Z.leb_le in E3. destruct (p - shift + L <=? n) eqn:E4; [|discriminate H].
      apply Z.leb_le in E4. injection H as <-. lia.
    - apply Z.leb_gt in E3. destruct (p - shift <=? n) eqn:E4; [|discriminate H].
      apply Z.leb_le in E4. injection H as <-. lia. }
  destruct Hj as [Hj1 Hj2]. unfold designates. rewrite walk_length.
  rewrite !andb_true_iff. split; [split; [apply Z.leb_le; lia|apply Z.leb_le; lia]|].
  apply Z.eqb_eq. rewrite walk_nth by lia. rewrite Z2Nat.id by lia.
  destruct Hj2 as [-> | ->].
  - replace (shift + (p - shift - 1)) with (p - 1) by lia. apply Z.mod_small. lia.
  - replace (shift + (p - shift + L - 1)) with (p - 1 + 1 * L) by lia. rewrite Z.mod_add by lia. apply Z.mod_small. lia.
Qed.

Theorem mut_pos_complete : forall p shift L n, 0 < L -> 0 <= shift < L -> 0 <= n <= L -> 1 <= p <= L ->
  mut_pos p shift L n = None -> shows (walk L shift n) p = false.
Proof.
  intros p shift L n HL Hs Hn Hp H. destruct (shows (walk L shift n) p) eqn:S; [|reflexivity]. exfalso.
  apply shows_iff in S. destruct S as (k & Hk & E).
  unfold walk in Hk. rewrite map_length, seq_length in Hk.
  rewrite walk_nth in E by lia.
  assert (Hd : shift + Z.of_nat k = p - 1 \/ shift + Z.of_nat k = p - 1 + L).
  { pose proof (Z.div_mod (shift + Z.of_nat k) L ltac:(lia)) as D. rewrite E in D.
    assert (0 <= (shift + Z.of_nat k) / L < 2).
    { split; [apply Z.div_pos; lia|apply Z.div_lt_upper_bound; lia]. }
    assert ((shift + Z.of_nat k) / L = 0 \/ (shift + Z.of_nat k) / L = 1) as [Q|Q] by lia; rewrite Q in D; lia. }
  unfold mut_pos in H.
  replace ((p <? 1) || (L <? p)) with false in H
    by (symmetry; apply orb_false_iff; split; apply Z.ltb_ge; lia).
  cbn zeta in H.
  destruct (p - shift <=? 0) eqn:E3.
  - apply Z.leb_le in E3. destruct (p - shift + L <=? n) eqn:E4; [discriminate H|]. apply Z.leb_gt in E4. lia.
  - apply Z.leb_gt in E3. destruct (p - shift <=? n) eqn:E4; [discriminate H|]. apply Z.leb_gt in E4. lia.
Qed.

(* the windows Subsequence cuts are walks *)
Theorem segment_tpos_walk_linear : forall n a b, 0 <= a -> a < b -> b <= Z.of_nat n ->
  segment (tpos n) a b false = Some (walk (Z.of_nat n) a (b - a)).
Proof.
  intros n a b Ha Hab Hb. rewrite segment_tpos_linear by lia. f_equal. unfold walk.
  rewrite <- (Nat.add_0_r (Z.to_nat a)) at 1. rewrite seq_add_map, map_map.
  apply map_ext_in. intros k Hk. apply in_seq in Hk.
  rewrite Z.mod_small by lia. lia.
Qed.

Theorem segment_tpos_walk_circular : forall n a b, (0 < n)%nat -> 0 < b - a ->
  segment (tpos n) a b true = Some (walk (Z.of_nat n) (a mod Z.of_nat n) (b - a)).
Proof.
  intros n a b Hn Hab. rewrite segment_tpos_circular by lia. f_equal. unfold walk.
  apply map_ext. intros k. rewrite Zplus_mod_idemp_l. reflexivity.
Qed.

(* _revcmpMutation: position lseq - p + 1 of the reverse complement shows the complement of the base at p *)
Theorem rev_pos_same_base : forall s p, 1 <= p <= len s ->
  nth (Z.to_nat (rev_pos (len s) p - 1)) (rc s) 0%N = comp_nuc (nth (Z.to_nat (p - 1)) s 0%N).
Proof.
  intros s p Hp. unfold rev_pos, len in *. rewrite nth_rc by lia. f_equal. f_equal. lia.
Qed.
