(* C11 — multiset level: the model of _Pcr returns exactly (as a list, hence as a multiset) one record per pair of
   sites; strand symmetry and rotation invariance as permutations *)
From Coq Require Import ZArith NArith List Bool Lia Permutation.
Import ListNotations.
From OBI.C11 Require Import Model Spec Proofs Lists.
Open Scope Z_scope.

Lemma positions_z : forall n, positions n = zpositions n.
Proof. reflexivity. Qed.

(* ====================== _Segment on a circular template ====================== *)
Lemma circ_app : forall t a n1 n2, 0 <= n1 -> 0 <= n2 -> circ t a (n1 + n2) = circ t a n1 ++ circ t (a + n1) n2.
Proof.
  intros t a n1 n2 H1 H2. unfold circ. rewrite Z2Nat.inj_add by lia. rewrite seq_app, map_app. f_equal.
  cbn [plus]. rewrite (seq_add_map (Z.to_nat n1) (Z.to_nat n2) 0%nat) at 1 || idtac.
  replace (seq (Z.to_nat n1) (Z.to_nat n2)) with (map (fun k => (Z.to_nat n1 + k)%nat) (seq 0 (Z.to_nat n2))).
  - rewrite map_map. apply map_ext. intros q. f_equal. f_equal. f_equal. lia.
  - rewrite <- seq_add_map. f_equal. lia.
Qed.

Lemma circ_slice : forall t a b, 0 <= a -> a <= b -> b <= len t -> slice t a b = circ t a (b - a).
Proof.
  intros t a b Ha Hab Hb. apply (nth_ext _ _ 0%N 0%N).
  - rewrite slice_len_nat, circ_length by lia. reflexivity.
  - intros q Hq. rewrite slice_len_nat in Hq by lia. rewrite slice_nth by lia. rewrite circ_nth by lia.
    rewrite Z.mod_small by lia. f_equal. lia.
Qed.

Lemma circ_len : forall t a n, 0 <= n -> len (circ t a n) = n.
Proof. intros. unfold len. rewrite circ_length. lia. Qed.

Lemma seg_loop_circ : forall t f n fuel a, 0 < len t -> 0 <= a <= n -> n - a <= Z.of_nat fuel ->
  seg_loop fuel t (circ t f a) f n = circ t f n.
Proof.
  intros t f n fuel. induction fuel as [|fuel IH]; intros a HL Ha Hfuel.
  - cbn [seg_loop]. f_equal. lia.
  - cbn [seg_loop]. rewrite circ_len by lia.
    destruct (a <? n) eqn:E; [apply Z.ltb_lt in E|apply Z.ltb_ge in E; f_equal; lia].
    set (start := (f + a) mod len t). set (stop := Z.min (start + n - a) (len t)).
    assert (Hs : 0 <= start < len t) by (apply Z.mod_pos_bound; lia).
    assert (Hst : start < stop <= len t) by (unfold stop; lia).
    rewrite circ_slice by lia. unfold start at 1. rewrite circ_mod.
    rewrite <- circ_app by lia. apply IH; auto; unfold stop in *; lia.
Qed.

Lemma turn_len' : forall T L, 0 < T -> T <= L -> (if T mod L =? 0 then L else T mod L) = T.
Proof.
  intros T L HT HTL. destruct (Z.eq_dec T L) as [->|Hne].
  - rewrite Z_mod_same_full. reflexivity.
  - rewrite Z.mod_small by lia. replace (T =? 0) with false by (symmetry; apply Z.eqb_neq; lia). reflexivity.
Qed.

Lemma segment_circ : forall t from to, 0 < len t -> 0 < to - from ->
  segment t from to true = Some (circ t from (to - from)).
Proof.
  intros t from to HL Hn. unfold segment. cbn [negb].
  replace (len t =? 0) with false by (symmetry; apply Z.eqb_neq; lia).
  set (n := to - from) in *. set (f := from mod len t).
  assert (Hf : 0 <= f < len t) by (apply Z.mod_pos_bound; lia).
  rewrite subseq_circ by lia.
  replace (f + Z.min n (len t) - f) with (Z.min n (len t)) by lia.
  rewrite turn_len' by lia.
  rewrite seg_loop_circ by lia. unfold f. now rewrite circ_mod.
Qed.

(* ====================== all the hits of a primer, as an enumeration of positions ====================== *)
Definition triple (m : Z) (h : Z * N) : Z * Z * N := (fst h, fst h + m, snd h).

Definition hit_at (p : list sym) (e : N) (text : list nuc) (i0 : Z) (n : nat) : list (Z * N) :=
  match mism p (skipn n text) with
  | Some k => if (k <=? e)%N then [(i0 + Z.of_nat n, k)] else []
  | None => []
  end.

Lemma hits_from_flat : forall p e text i0,
  hits_from p e text i0 = flat_map (hit_at p e text i0) (seq 0 (length text)).
Proof.
  intros p e text. induction text as [|x tl IH]; intros i0; [reflexivity|].
  cbn [hits_from length seq flat_map]. rewrite <- seq_shift, flat_map_map.
  assert (Htl : hits_from p e tl (i0 + 1) = flat_map (fun n => hit_at p e (x :: tl) i0 (S n)) (seq 0 (length tl))).
  { rewrite IH. apply flat_map_ext. intros n. unfold hit_at. cbn [skipn].
    replace (i0 + 1 + Z.of_nat n) with (i0 + Z.of_nat (S n)) by lia. reflexivity. }
  unfold hit_at at 1. cbn [skipn]. rewrite Z.add_0_r.
  destruct (mism p (x :: tl)) as [k|]; [destruct (k <=? e)%N|]; rewrite Htl; reflexivity.
Qed.

Definition allhits (p : list sym) (e : N) (data : list nuc) : list (Z * Z * N) :=
  map (triple (len p)) (hits_from p e data 0).

Lemma hits_in_range : forall p e data i k, In (i, k) (hits_from p e data 0) -> 0 <= i /\ i + len p <= len data.
Proof.
  intros p e data i k H. apply hits_from_spec in H. destruct H as (n & -> & Hn & Hm & _).
  apply mism_some_len in Hm. rewrite skipn_length in Hm. unfold len. lia.
Qed.

Lemma find_all_filter : forall p e data L b l,
  find_all p e data L b l =
  map (triple (len p)) (filter (fun h => ((if b <? 0 then 0 else b) <=? fst h) &&
          (fst h + len p <=? Z.min ((if b <? 0 then 0 else b) + (if l <? 0 then L else l) + MAX_PAT_LEN) (len data)))
       (hits_from p e data 0)).
Proof. reflexivity. Qed.

(* the first search of a block (whole template) returns every hit *)
Lemma find_all_whole : forall p e data L, len data <= L + MAX_PAT_LEN -> find_all p e data L 0 (-1) = allhits p e data.
Proof.
  intros p e data L Hd. rewrite find_all_filter. unfold allhits. f_equal. apply filter_all.
  intros [i k] Hin. apply hits_in_range in Hin. cbn [fst Z.ltb Z.compare].
  apply andb_true_iff. split; apply Z.leb_le; [lia|]. apply Z.min_glb; lia.
Qed.

(* the partners kept by the second search of a block *)
Definition rms_win (data : list nuc) (o : opts) (L : Z) (pr : list sym) (er : N) (fms : list (Z * Z * N)) : list (Z * Z * N) :=
  match fms with
  | [] => []
  | fm0 :: _ =>
      let begin := fst3 fm0 in
      let length := L - begin in
      let length := if 0 <? o_max o then snd3 (last fms fm0) - begin + o_max o + len pr else length in
      let begin := if o_circ o then 0 else begin in
      let length := if o_circ o then L + MAX_PAT_LEN else length in
      find_all pr er data L begin length
  end.

Lemma block_on_rms : forall data o t pf ef pr er fb,
  block_on data o t pf ef pr er fb =
  let fms := find_all pf ef data (len t) 0 (-1) in
  flat_map (fun fm => flat_map (fun rm => pair_amplicon o t fb fm rm) (rms_win data o (len t) pr er fms)) fms.
Proof.
  intros. unfold block_on, rms_win. cbn zeta. destruct (find_all pf ef data (len t) 0 (-1)); reflexivity.
Qed.

Lemma triple_inj : forall m h h', triple m h = triple m h' -> h = h'.
Proof. intros m [i k] [i' k'] H. unfold triple in H. cbn [fst snd] in H. inversion H. reflexivity. Qed.

(* a block enumerates ALL the pairs (hit of the searched primer, hit of the complemented partner) as soon as the
   window of the second search keeps every partner that yields something *)
Lemma rms_win_form : forall data o L pr er fms, fms <> [] ->
  exists w, rms_win data o L pr er fms = map (triple (len pr)) (filter w (hits_from pr er data 0)).
Proof.
  intros data o L pr er fms H. destruct fms as [|fm0 fms]; [congruence|].
  eexists. unfold rms_win. cbn zeta. rewrite find_all_filter. reflexivity.
Qed.

Lemma block_on_full : forall data o t pf ef pr er fb,
  len data <= len t + MAX_PAT_LEN ->
  (forall fm rm x, In fm (allhits pf ef data) -> In rm (allhits pr er data) -> In x (pair_amplicon o t fb fm rm) ->
     In rm (rms_win data o (len t) pr er (allhits pf ef data))) ->
  block_on data o t pf ef pr er fb =
  flat_map (fun fm => flat_map (fun rm => pair_amplicon o t fb fm rm) (allhits pr er data)) (allhits pf ef data).
Proof.
  intros data o t pf ef pr er fb Hd Hwin. rewrite block_on_rms. cbn zeta. rewrite find_all_whole by auto.
  apply flat_map_ext_in. intros fm Hfm.
  destruct (rms_win_form data o (len t) pr er (allhits pf ef data)) as (w & Hw).
  { intros E. rewrite E in Hfm. inversion Hfm. }
  rewrite Hw in *. unfold allhits at 1.
  rewrite !flat_map_map. apply flat_map_filter.
  intros h Hh Hwf. destruct (pair_amplicon o t fb fm (triple (len pr) h)) as [|x l] eqn:Ep; [reflexivity|exfalso].
  assert (Hin : In (triple (len pr) h) (map (triple (len pr)) (hits_from pr er data 0))) by (apply in_map; exact Hh).
  specialize (Hwin fm (triple (len pr) h) x Hfm Hin). rewrite Ep in Hwin. specialize (Hwin (or_introl eq_refl)).
  apply in_map_iff in Hwin. destruct Hwin as (h' & Heq & Hin'). apply triple_inj in Heq. subst h'.
  apply filter_In in Hin'. destruct Hin' as [_ Hw']. rewrite Hwf in Hw'. discriminate.
Qed.

Lemma all_some_map_Some : forall {A} (l : list A), all_some (map Some l) = Some l.
Proof. intros A l. induction l as [|a l IH]; [reflexivity|]. cbn [map all_some]. now rewrite IH. Qed.

Lemma flat_map_map_Some : forall {A B} (g : A -> list B) l,
  flat_map (fun x => map Some (g x)) l = map Some (flat_map g l).
Proof. intros. symmetry. apply map_flat_map. Qed.

(* ====================== linear templates ====================== *)
Lemma mism_none : forall p w, (length w < length p)%nat -> mism p w = None.
Proof.
  intros p w H. destruct (mism p w) as [k|] eqn:E; [|reflexivity]. apply mism_some_len in E. lia.
Qed.

Lemma flat_map_seq_cut : forall {B} (f : nat -> list B) n n', (n' <= n)%nat ->
  (forall k, (n' <= k < n)%nat -> f k = []) -> flat_map f (seq 0 n) = flat_map f (seq 0 n').
Proof.
  intros B f n n' Hle Hnil. replace n with (n' + (n - n'))%nat by lia. rewrite seq_app, flat_map_app.
  rewrite (flat_map_nil f (seq (0 + n') (n - n'))); [apply app_nil_r|].
  intros k Hk. apply in_seq in Hk. apply Hnil. lia.
Qed.

(* the hits of the specification matcher on a linear template are the sites of the specification, in the same order *)
Lemma hits_sites : forall p e t, p <> [] -> hits_from p e t 0 = sites p e t.
Proof.
  intros p e t Hp. rewrite hits_from_flat. unfold sites, positions. rewrite flat_map_map.
  assert (Hm : (0 < length p)%nat) by (destruct p; [congruence|cbn; lia]).
  set (n' := Z.to_nat (len t - len p + 1)).
  assert (Hn' : (n' <= length t)%nat) by (unfold n', len; lia).
  rewrite (flat_map_seq_cut _ (length t) n' Hn').
  - apply flat_map_ext_in. intros n Hn. apply in_seq in Hn.
    assert (Hfit : (n + length p <= length t)%nat) by (unfold n', len in Hn; lia).
    unfold hit_at, site_at. rewrite mism_mm by (rewrite skipn_length; lia).
    unfold slice. replace (Z.to_nat (Z.of_nat n + len p - Z.of_nat n)) with (length p) by (unfold len; lia).
    rewrite Nat2Z.id, mm_firstn, Z.add_0_l. reflexivity.
  - intros k Hk. unfold hit_at. rewrite mism_none; [reflexivity|]. rewrite skipn_length. unfold n', len in Hk. lia.
Qed.

Lemma in_sites : forall p e t i k, p <> [] -> (In (i, k) (sites p e t) <-> hit p e t i k).
Proof. intros. rewrite <- hits_sites by auto. apply hits_from_hit. auto. Qed.

(* the window of the second search keeps every partner that yields an amplicon *)
Lemma rms_lin_keeps : forall o t pf ef pr er fb,
  o_circ o = false -> ext_ok o -> pf <> [] -> pr <> [] ->
  forall fm rm x, In fm (allhits pf ef t) -> In rm (allhits pr er t) -> In x (pair_amplicon o t fb fm rm) ->
    In rm (rms_win t o (len t) pr er (allhits pf ef t)).
Proof.
  intros o t pf ef pr er fb Hc Hx Hpf Hpr fm rm x Hfm Hrm Hin.
  assert (Hwhole : allhits pf ef t = find_all pf ef t (len t) 0 (-1)).
  { symmetry. apply find_all_whole. unfold MAX_PAT_LEN. lia. }
  rewrite Hwhole in *. set (L := len t) in *.
  assert (Hfms : forall m, In m (find_all pf ef t L 0 (-1)) <-> exists i k, m = (i, i + len pf, k) /\ hit pf ef t i k).
  { intros m. rewrite find_all_in by auto. cbn [Z.ltb Z.compare]. split.
    - intros (i & k & -> & Hh & _). eauto.
    - intros (i & k & -> & Hh). exists i, k. destruct (hit_range _ _ _ _ _ Hpf Hh) as (H0 & _ & H1).
      split; [reflexivity|]. split; [exact Hh|]. fold L in H1. unfold MAX_PAT_LEN. fold L. split; [lia|]. apply Z.min_glb; lia. }
  pose proof (find_all_incr pf ef t L 0 (-1)) as Hincr.
  apply Hfms in Hfm. destruct Hfm as (i & k1 & -> & Hh1).
  unfold allhits in Hrm. apply in_map_iff in Hrm. destruct Hrm as ([j k2] & <- & Hh2).
  apply hits_from_hit in Hh2; auto. unfold triple in *. cbn [fst snd] in *.
  destruct (find_all pf ef t L 0 (-1)) as [|fm0 fms] eqn:Efms.
  { assert (Hin0 : In (i, i + len pf, k1) []) by (apply Hfms; eauto). inversion Hin0. }
  unfold rms_win. cbn zeta. set (fl := fm0 :: fms) in *. rewrite Hc.
  destruct (hit_range _ _ _ _ _ Hpf Hh1) as (Hi0 & Hm1 & Hi1).
  destruct (hit_range _ _ _ _ _ Hpr Hh2) as (Hj0 & Hm2 & Hj1).
  apply pair_lin in Hin; auto. destruct Hin as ((Hins & Hmin & Hmax) & _).
  apply find_all_in; auto. exists j, k2. split; [reflexivity|]. split; [exact Hh2|].
  assert (Hi_in : In (i, i + len pf, k1) fl) by (apply Hfms; eauto).
  assert (Hb := incr_bounds (map fst3 fl) 0 i Hincr).
  assert (Hi_map : In i (map fst3 fl)). { apply in_map_iff. exists (i, i + len pf, k1). auto. }
  specialize (Hb Hi_map). destruct Hb as [Hb1 Hb2].
  change (hd 0 (map fst3 fl)) with (fst3 fm0) in Hb1.
  assert (Hlast : last (map fst3 fl) 0 = fst3 (last fl fm0)) by apply last_map_cons.
  assert (Hlast_in : In (last fl fm0) fl) by apply last_in_cons.
  apply Hfms in Hlast_in. destruct Hlast_in as (il & kl & Hl & _).
  rewrite Hlast, Hl in Hb2. cbn [fst3 fst] in Hb2.
  assert (Hbeg : 0 <= fst3 fm0).
  { assert (In fm0 fl) by (left; reflexivity). apply Hfms in H. destruct H as (i0 & k0 & -> & Hh0).
    apply hit_range in Hh0; auto. cbn. lia. }
  replace (fst3 fm0 <? 0) with false by (symmetry; apply Z.ltb_ge; lia).
  rewrite Hl. cbn [snd3 fst snd].
  fold L in Hj1, Hi1. unfold MAX_PAT_LEN in *.
  destruct (0 <? o_max o) eqn:Emax.
  * apply Z.ltb_lt in Emax.
    match goal with |- context [if ?c then _ else _] => replace c with false by (symmetry; apply Z.ltb_ge; lia) end.
    split; [lia|]. apply Z.min_glb; lia.
  * apply Z.ltb_ge in Emax.
    match goal with |- context [if ?c then _ else _] => replace c with false by (symmetry; apply Z.ltb_ge; lia) end.
    split; [lia|]. apply Z.min_glb; lia.
Qed.

Lemma fresh_lin : forall o t, o_circ o = false -> fresh o t = t.
Proof. intros o t Hc. unfold fresh. rewrite Hc, visible_encode. apply app_nil_r. Qed.

(* one block on a linear template = one record per pair of sites, in the order of the specification *)
Lemma block_lin_list : forall o t pf ef pr er fb,
  o_circ o = false -> ext_ok o -> pf <> [] -> pr <> [] ->
  block o t pf ef pr er fb = map Some (amps_orient_lin o t pf ef pr er fb).
Proof.
  intros o t pf ef pr er fb Hc Hx Hpf Hpr. unfold block. rewrite fresh_lin by auto.
  rewrite block_on_full.
  - unfold allhits, amps_orient_lin. rewrite !hits_sites by auto. rewrite flat_map_map.
    rewrite <- flat_map_map_Some. apply flat_map_ext_in. intros [i k1] H1.
    rewrite flat_map_map, <- flat_map_map_Some. apply flat_map_ext_in. intros [j k2] H2.
    apply in_sites in H1; auto. apply in_sites in H2; auto.
    destruct (hit_range _ _ _ _ _ Hpf H1) as (Hi0 & Hm1 & Hi1).
    destruct (hit_range _ _ _ _ _ Hpr H2) as (Hj0 & Hm2 & Hj1).
    unfold triple. cbn [fst snd]. apply pair_lin_eq; auto.
  - unfold MAX_PAT_LEN. lia.
  - apply rms_lin_keeps; auto.
Qed.

Lemma pcr_lin_list : forall o t, linear_ok o -> pcr o t = Some (amps_lin o t).
Proof.
  intros o t (Hc & Hx & Hf & Hr). unfold pcr, pcr_on.
  fold (block o t (o_fwd o) (o_ef o) (rc_primer (o_rev o)) (o_er o) true).
  fold (block o t (o_rev o) (o_er o) (rc_primer (o_fwd o)) (o_ef o) false).
  rewrite !block_lin_list; auto using rc_primer_nonempty.
  rewrite <- map_app. apply all_some_map_Some.
Qed.
