(* C11 — lemmas *)
From Coq Require Import ZArith NArith List Bool Lia.
Import ListNotations.
From OBI.C11 Require Import Model Spec.
Open Scope Z_scope.

Lemma circ_ext_length : forall t, length (circ_ext t) = 64%nat.
Proof. intros [|x t]; unfold circ_ext; [apply repeat_length|]. rewrite map_length, seq_length. reflexivity. Qed.

Lemma visible_encode : forall old t c,
  visible (encode_into old t c) t c = t ++ (if c then circ_ext t else []).
Proof.
  intros old t c. unfold visible, encode_into.
  set (d := t ++ (if c then circ_ext t else [])).
  assert (Hd : length d = (length t + (if c then 64 else 0))%nat).
  { unfold d. rewrite app_length. destruct c; [rewrite circ_ext_length|]; reflexivity. }
  rewrite <- Hd. rewrite firstn_app, Nat.sub_diag, firstn_all. cbn [firstn]. apply app_nil_r.
Qed.

Lemma batch_independent : forall old1 old2 t c,
  visible (encode_into old1 t c) t c = visible (encode_into old2 t c) t c.
Proof. intros. now rewrite !visible_encode. Qed.
(* ---------- hits_from *)
Lemma hits_from_spec : forall p e text i0 i k,
  In (i, k) (hits_from p e text i0) <->
  exists n, i = i0 + Z.of_nat n /\ (n < length text)%nat /\ mism p (skipn n text) = Some k /\ (k <= e)%N.
Proof.
  intros p e text. induction text as [|x tl IH]; intros i0 i k.
  - cbn. split; [tauto|]. intros (n & _ & Hn & _). inversion Hn.
  - cbn [hits_from].
    assert (Hrec : In (i, k) (hits_from p e tl (i0 + 1)) <->
                   exists n, i = i0 + Z.of_nat (S n) /\ (S n < length (x :: tl))%nat /\
                             mism p (skipn (S n) (x :: tl)) = Some k /\ (k <= e)%N).
    { rewrite IH. split; intros (n & H1 & H2 & H3); exists n; cbn [length skipn] in *; repeat split; try tauto; lia. }
    assert (Hsplit : (exists n, i = i0 + Z.of_nat n /\ (n < length (x :: tl))%nat /\
                        mism p (skipn n (x :: tl)) = Some k /\ (k <= e)%N) <->
                     ((i = i0 /\ mism p (x :: tl) = Some k /\ (k <= e)%N) \/
                      exists n, i = i0 + Z.of_nat (S n) /\ (S n < length (x :: tl))%nat /\
                             mism p (skipn (S n) (x :: tl)) = Some k /\ (k <= e)%N)).
    { split.
      - intros ([|n] & H1 & H2 & H3 & H4).
        + left. cbn in H3. repeat split; auto; lia.
        + right. exists n. auto.
      - intros [(H1 & H2 & H3)|(n & H)].
        + exists O. cbn. repeat split; auto; lia.
        + exists (S n). auto. }
    rewrite Hsplit, <- Hrec.
    destruct (mism p (x :: tl)) as [k0|] eqn:Hm.
    + destruct (k0 <=? e)%N eqn:Hle.
      * cbn [In]. split.
        -- intros [H|H]; [left|right; auto]. inversion H; subst. apply N.leb_le in Hle. auto.
        -- intros [(H1 & H2 & H3)|H]; [left|right; auto]. inversion H2; subst; auto.
      * split; [auto|]. intros [(H1 & H2 & H3)|H]; auto. inversion H2; subst. apply N.leb_gt in Hle. lia.
    + split; [auto|]. intros [(H1 & H2 & H3)|H]; auto. discriminate.
Qed.

Lemma mism_some_len : forall p w k, mism p w = Some k -> (length p <= length w)%nat.
Proof.
  induction p as [|s p IH]; intros w k H; cbn in *; [lia|].
  destruct w as [|x w]; [discriminate|]. destruct (mism p w) eqn:E; [|discriminate].
  apply IH in E. cbn. lia.
Qed.

Lemma len_nonneg : forall {A} (l : list A), 0 <= len l.
Proof. intros. unfold len. lia. Qed.

Lemma hits_from_hit : forall p e text i k, p <> [] ->
  (In (i, k) (hits_from p e text 0) <-> hit p e text i k).
Proof.
  intros p e text i k Hp. rewrite hits_from_spec. unfold hit, occ, len. split.
  - intros (n & -> & Hn & Hm & Hk). rewrite Z.add_0_l, Nat2Z.id. repeat split; auto; try lia.
    apply mism_some_len in Hm. rewrite skipn_length in Hm. lia.
  - intros ((H0 & Hl & Hm) & Hk). exists (Z.to_nat i). repeat split; auto; try lia.
    apply mism_some_len in Hm. rewrite skipn_length in Hm.
    destruct p; [congruence|]. cbn [length] in *. lia.
Qed.

(* increasing positions *)
Fixpoint incr (l : list Z) : Prop :=
  match l with [] => True | x :: r => (forall y, In y r -> x < y) /\ incr r end.

Lemma hits_from_lb : forall p e text i0 i k, In (i, k) (hits_from p e text i0) -> i0 <= i.
Proof. intros p e text i0 i k H. apply hits_from_spec in H. destruct H as (n & -> & _). lia. Qed.

Lemma hits_from_incr : forall p e text i0, incr (map fst (hits_from p e text i0)).
Proof.
  intros p e text. induction text as [|x tl IH]; intros i0; cbn [hits_from]; [exact I|].
  destruct (mism p (x :: tl)) as [k0|]; [destruct (k0 <=? e)%N|]; try apply IH.
  cbn [map incr fst]. split; [|apply IH].
  intros y Hy. apply in_map_iff in Hy. destruct Hy as ([i k] & <- & Hin). apply hits_from_lb in Hin. cbn. lia.
Qed.

Lemma incr_filter : forall {B} (g : Z * B -> bool) (l : list (Z * B)),
  incr (map fst l) -> incr (map fst (filter g l)).
Proof.
  intros B g l. induction l as [|a l IH]; cbn; [auto|]. intros [H1 H2].
  destruct (g a); cbn; [split|]; auto.
  intros y Hy. apply H1. apply in_map_iff in Hy. destruct Hy as (b & <- & Hb). apply filter_In in Hb.
  apply in_map. tauto.
Qed.

Lemma incr_bounds : forall l d x, incr l -> In x l -> hd d l <= x /\ x <= last l d.
Proof.
  induction l as [|a l IH]; intros d x Hi Hx; [inversion Hx|].
  destruct Hi as [H1 H2]. cbn [hd]. destruct Hx as [->|Hx].
  - split; [lia|]. destruct l as [|b l]; [cbn; lia|].
    assert (Hb : In (last (b :: l) d) (b :: l)).
    { clear. revert b. induction l as [|c l IH]; intros b; cbn; auto. right. apply IH. }
    change (last (x :: b :: l) d) with (last (b :: l) d). apply H1 in Hb. lia.
  - split; [apply H1 in Hx; lia|]. destruct l as [|b l]; [inversion Hx|].
    change (last (a :: b :: l) d) with (last (b :: l) d). apply IH; auto.
Qed.
(* ---------- find_all *)
Lemma find_all_in : forall p e data L b l m, p <> [] ->
  (In m (find_all p e data L b l) <->
   exists i k, m = (i, i + len p, k) /\ hit p e data i k /\
     (if b <? 0 then 0 else b) <= i /\
     i + len p <= Z.min ((if b <? 0 then 0 else b) + (if l <? 0 then L else l) + MAX_PAT_LEN) (len data)).
Proof.
  intros p e data L b l m Hp. unfold find_all. rewrite in_map_iff. split.
  - intros ([i k] & <- & Hin). apply filter_In in Hin. destruct Hin as [Hin Hc]. cbn [fst snd] in *.
    apply andb_true_iff in Hc. destruct Hc as [H1 H2]. apply Z.leb_le in H1, H2.
    exists i, k. rewrite <- hits_from_hit by auto. auto.
  - intros (i & k & -> & Hh & H1 & H2). exists (i, k). split; [reflexivity|].
    apply filter_In. split; [apply hits_from_hit; auto|]. cbn [fst snd].
    apply andb_true_iff. split; apply Z.leb_le; auto.
Qed.

Lemma find_all_incr : forall p e data L b l, incr (map fst3 (find_all p e data L b l)).
Proof.
  intros. unfold find_all. rewrite map_map. cbn [fst3 fst].
  erewrite map_ext; [apply incr_filter, hits_from_incr|]. intros [i k]. reflexivity.
Qed.

(* ---------- linear pieces *)
Lemma length_ok_spec : forall o l, length_ok o l = true <-> bounds_ok o l.
Proof.
  intros o l. unfold length_ok, bounds_ok.
  rewrite !andb_true_iff, !orb_true_iff, Z.ltb_lt, !Z.eqb_eq, !Z.leb_le. tauto.
Qed.

Lemma subseq_lin : forall t a b, 0 <= a -> a < b -> b <= len t -> subseq t a b false = Some (slice t a b).
Proof.
  intros t a b Ha Hab Hb. unfold subseq. set (L := len t) in *.
  replace (b <=? a) with false by (symmetry; apply Z.leb_gt; lia).
  replace (a <? 0) with false by (symmetry; apply Z.ltb_ge; lia).
  replace (L <=? a) with false by (symmetry; apply Z.leb_gt; lia).
  replace (L =? 0) with false by (symmetry; apply Z.eqb_neq; lia).
  replace (L <? b) with false by (symmetry; apply Z.ltb_ge; lia).
  cbn [andb negb]. rewrite Z.mod_small by lia. rewrite Z.rem_small by lia.
  replace (b - 1 + 1) with b by lia.
  replace (a <? b) with true by (symmetry; apply Z.ltb_lt; lia). reflexivity.
Qed.

Lemma cut_lin_f_spec : forall o L i m1 j m2 from to,
  cut_lin_f o L i m1 j m2 = Some (from, to) <-> cut_lin o L i m1 j m2 from to.
Proof.
  intros o L i m1 j m2 from to. unfold cut_lin_f, cut_lin.
  destruct (o_ext o) as [x|].
  - destruct (o_full o).
    + destruct (0 <=? i - x) eqn:E1; destruct (j + m2 + x <=? L) eqn:E2; cbn [andb];
        try apply Z.leb_le in E1; try apply Z.leb_le in E2; try apply Z.leb_gt in E1; try apply Z.leb_gt in E2;
        (split; [intros H; try discriminate; inversion H; subst; lia | intros (-> & -> & H1 & H2); try lia; reflexivity]).
    + split; [intros H; inversion H; subst; auto | intros (-> & ->); reflexivity].
  - split; [intros H; inversion H; subst; auto | intros (-> & ->); reflexivity].
Qed.

Lemma cut_bounds_lin_f : forall o L ins i m1 k1 j m2 k2, o_circ o = false ->
  cut_bounds o L ins (i, i + m1, k1) (j, j + m2, k2) = cut_lin_f o L i m1 j m2.
Proof.
  intros o L ins i m1 k1 j m2 k2 Hc. unfold cut_bounds, cut_lin_f. cbn [fst3 snd3 fst snd]. rewrite Hc.
  destruct (o_ext o) as [x|]; [|reflexivity].
  destruct (o_full o); [reflexivity|].
  destruct (i - x <? 0) eqn:E1; destruct (L <? j + m2 + x) eqn:E2;
    try apply Z.ltb_lt in E1; try apply Z.ltb_lt in E2; try apply Z.ltb_ge in E1; try apply Z.ltb_ge in E2.
  all: match goal with |- context [(?a <=? ?b) && (?c <=? ?d)] =>
         replace (a <=? b) with true by (symmetry; apply Z.leb_le; lia);
         replace (c <=? d) with true by (symmetry; apply Z.leb_le; lia) end.
  all: cbn [andb]; f_equal; f_equal; lia.
Qed.

Lemma cut_bounds_lin : forall o L ins i m1 k1 j m2 k2 from to, o_circ o = false ->
  (cut_bounds o L ins (i, i + m1, k1) (j, j + m2, k2) = Some (from, to) <-> cut_lin o L i m1 j m2 from to).
Proof. intros. rewrite cut_bounds_lin_f by auto. apply cut_lin_f_spec. Qed.

Lemma cut_lin_range : forall o L i m1 j m2 from to,
  cut_lin o L i m1 j m2 from to -> ext_ok o -> 0 <= i -> 0 < m1 -> 0 < m2 -> j + m2 <= L -> 0 < j - (i + m1) ->
  0 <= from /\ from < to /\ to <= L.
Proof.
  intros o L i m1 j m2 from to Hcut Hx Hi Hm1 Hm2 Hj Hins. unfold cut_lin in Hcut. unfold ext_ok in Hx.
  destruct (o_ext o) as [x|]; [specialize (Hx x eq_refl); destruct (o_full o)|]; lia.
Qed.

Lemma segment_lin : forall t a b, segment t a b false = subseq t a b false.
Proof. reflexivity. Qed.

Lemma pair_lin_eq : forall o t fb i m1 k1 j m2 k2,
  o_circ o = false -> ext_ok o ->
  0 <= i -> 0 < m1 -> i + m1 <= len t -> 0 <= j -> 0 < m2 -> j + m2 <= len t ->
  pair_amplicon o t fb (i, i + m1, k1) (j, j + m2, k2) = map Some (cell_lin o t m1 m2 fb (i, k1) (j, k2)).
Proof.
  intros o t fb i m1 k1 j m2 k2 Hc Hx Hi Hm1 Hil Hj Hm2 Hjl.
  unfold pair_amplicon, cell_lin. cbn [fst3 snd3 err3 fst snd]. set (L := len t) in *.
  replace (i <? L) with true by (symmetry; apply Z.ltb_lt; lia).
  replace (j <? L) with true by (symmetry; apply Z.ltb_lt; lia). cbn [andb].
  unfold insert_length. rewrite Hc. cbn [fst3 snd3 fst snd].
  destruct (i <? j + m2) eqn:E0.
  - destruct (length_ok o (j - (i + m1))) eqn:E1; [|reflexivity].
    apply length_ok_spec in E1. rewrite cut_bounds_lin_f by auto.
    destruct (cut_lin_f o L i m1 j m2) as [[from to]|] eqn:E2; [|reflexivity].
    apply cut_lin_f_spec in E2.
    assert (Hr := cut_lin_range _ _ _ _ _ _ _ _ E2 Hx Hi Hm1 Hm2 Hjl (proj1 E1)).
    rewrite !segment_lin. rewrite !subseq_lin by (fold L; lia). reflexivity.
  - apply Z.ltb_ge in E0. replace (length_ok o 0) with false by (unfold length_ok; reflexivity).
    replace (length_ok o (j - (i + m1))) with false; [reflexivity|].
    symmetry. unfold length_ok. replace (0 <? j - (i + m1)) with false by (symmetry; apply Z.ltb_ge; lia). reflexivity.
Qed.

Lemma pair_lin : forall o t fb i m1 k1 j m2 k2 x,
  o_circ o = false -> ext_ok o ->
  0 <= i -> 0 < m1 -> i + m1 <= len t -> 0 <= j -> 0 < m2 -> j + m2 <= len t ->
  (In x (pair_amplicon o t fb (i, i + m1, k1) (j, j + m2, k2)) <->
   bounds_ok o (j - (i + m1)) /\
   exists from to, cut_lin o (len t) i m1 j m2 from to /\
     x = Some (mk_amp fb (slice t from to) (slice t i (i + m1)) k1 (slice t j (j + m2)) k2)).
Proof.
  intros o t fb i m1 k1 j m2 k2 x Hc Hx Hi Hm1 Hil Hj Hm2 Hjl.
  rewrite pair_lin_eq by auto. unfold cell_lin. cbn [fst snd].
  destruct (length_ok o (j - (i + m1))) eqn:E1.
  - apply length_ok_spec in E1.
    destruct (cut_lin_f o (len t) i m1 j m2) as [[from to]|] eqn:E2.
    + cbn [map In]. split.
      * intros [<-|[]]. split; auto. exists from, to. split; [apply cut_lin_f_spec; auto|reflexivity].
      * intros (_ & from' & to' & Hcut' & ->). left. apply cut_lin_f_spec in Hcut'. rewrite E2 in Hcut'. inversion Hcut'. reflexivity.
    + split; [intros []|]. intros (_ & from & to & Hcut & _). apply cut_lin_f_spec in Hcut. rewrite E2 in Hcut. discriminate.
  - split; [intros []|]. intros (Hb & _). apply length_ok_spec in Hb. congruence.
Qed.

(* ---------- one block on a linear template *)
Lemma last_map_cons : forall (l : list (Z * Z * N)) a d d', last (map fst3 (a :: l)) d = fst3 (last (a :: l) d').
Proof.
  induction l as [|b l IH]; intros a d d'; [reflexivity|].
  change (last (map fst3 (a :: b :: l)) d) with (last (map fst3 (b :: l)) d).
  change (last (a :: b :: l) d') with (last (b :: l) d'). apply IH.
Qed.

Lemma last_in_cons : forall {A} (l : list A) a d, In (last (a :: l) d) (a :: l).
Proof.
  induction l as [|b l IH]; intros a d; [left; reflexivity|].
  right. change (last (a :: b :: l) d) with (last (b :: l) d). apply IH.
Qed.

Lemma hit_range : forall p e t i k, p <> [] -> hit p e t i k -> 0 <= i /\ 0 < len p /\ i + len p <= len t.
Proof.
  intros p e t i k Hp ((H0 & H1 & _) & _). repeat split; auto. destruct p; [congruence|]. unfold len. cbn [length]. lia.
Qed.

Lemma block_lin : forall o t pf ef pr er fb x,
  o_circ o = false -> ext_ok o -> pf <> [] -> pr <> [] ->
  (In x (block o t pf ef pr er fb) <->
   exists i k1 j k2, hit pf ef t i k1 /\ hit pr er t j k2 /\
     In x (pair_amplicon o t fb (i, i + len pf, k1) (j, j + len pr, k2))).
Proof.
  intros o t pf ef pr er fb x Hc Hx Hpf Hpr. unfold block, block_on, fresh. rewrite Hc.
  assert (Hdata : visible (encode_into [] t false) t false = t).
  { rewrite visible_encode. apply app_nil_r. }
  rewrite Hdata. set (L := len t).
  assert (Hfms : forall m, In m (find_all pf ef t L 0 (-1)) <-> exists i k, m = (i, i + len pf, k) /\ hit pf ef t i k).
  { intros m. rewrite find_all_in by auto. cbn [Z.ltb Z.compare]. split.
    - intros (i & k & -> & Hh & _). eauto.
    - intros (i & k & -> & Hh). exists i, k. destruct (hit_range _ _ _ _ _ Hpf Hh) as (H0 & _ & H1).
      split; [reflexivity|]. split; [exact Hh|]. fold L in H1. unfold MAX_PAT_LEN. fold L. split; [lia|]. apply Z.min_glb; lia. }
  pose proof (find_all_incr pf ef t L 0 (-1)) as Hincr.
  destruct (find_all pf ef t L 0 (-1)) as [|fm0 fms] eqn:Efms.
  - split; [intros []|]. intros (i & k1 & j & k2 & Hh1 & _). 
    assert (Hin : In (i, i + len pf, k1) []) by (apply Hfms; eauto). inversion Hin.
  - cbn zeta. set (fl := fm0 :: fms) in *.
    set (len0 := if 0 <? o_max o then snd3 (last fl fm0) - fst3 fm0 + o_max o + len pr else L - fst3 fm0).
    rewrite in_flat_map. split.
    + intros (fm & Hfm & Hin). apply in_flat_map in Hin. destruct Hin as (rm & Hrm & Hin).
      apply Hfms in Hfm. destruct Hfm as (i & k1 & -> & Hh1).
      apply find_all_in in Hrm; auto. destruct Hrm as (j & k2 & -> & Hh2 & _).
      exists i, k1, j, k2. auto.
    + intros (i & k1 & j & k2 & Hh1 & Hh2 & Hin).
      exists (i, i + len pf, k1). split; [apply Hfms; eauto|].
      apply in_flat_map. exists (j, j + len pr, k2). split; [|exact Hin].
      destruct (hit_range _ _ _ _ _ Hpf Hh1) as (Hi0 & Hm1 & Hi1).
      destruct (hit_range _ _ _ _ _ Hpr Hh2) as (Hj0 & Hm2 & Hj1).
      apply pair_lin in Hin; auto. destruct Hin as ((Hins & Hmin & Hmax) & _).
      apply find_all_in; auto. exists j, k2. split; [reflexivity|]. split; [exact Hh2|].
      (* the window *)
      assert (Hi_in : In (i, i + len pf, k1) fl) by (apply Hfms; eauto).
      assert (Hb := incr_bounds (map fst3 fl) 0 i Hincr).
      assert (Hi_map : In i (map fst3 fl)). { apply in_map_iff. exists (i, i + len pf, k1). auto. }
      specialize (Hb Hi_map). destruct Hb as [Hb1 Hb2].
      change (hd 0 (map fst3 fl)) with (fst3 fm0) in Hb1.
      assert (Hlast : last (map fst3 fl) 0 = fst3 (last fl fm0)) by apply last_map_cons.
      assert (Hlast_in : In (last fl fm0) fl) by apply last_in_cons.
      apply Hfms in Hlast_in. destruct Hlast_in as (il & kl & Hl & _).
      rewrite Hlast, Hl in Hb2. cbn [fst3 fst] in Hb2.
      assert (Hbeg : 0 <= fst3 fm0).
      { assert (In fm0 fl) by (left; reflexivity). apply Hfms in H. destruct H as (i0 & k0 & -> & Hh0).
        apply hit_range in Hh0; auto. cbn. lia. }
      replace (fst3 fm0 <? 0) with false by (symmetry; apply Z.ltb_ge; lia).
      fold len0. unfold len0. rewrite Hl. cbn [snd3 fst snd].
      fold L in Hj1, Hi1. fold L. unfold MAX_PAT_LEN in *.
      destruct (0 <? o_max o) eqn:Emax.
      * apply Z.ltb_lt in Emax.
        match goal with |- context [if ?c then _ else _] => replace c with false by (symmetry; apply Z.ltb_ge; lia) end.
        split; [lia|]. apply Z.min_glb; lia.
      * apply Z.ltb_ge in Emax.
        match goal with |- context [if ?c then _ else _] => replace c with false by (symmetry; apply Z.ltb_ge; lia) end.
        split; [lia|]. apply Z.min_glb; lia.
Qed.

(* ---------- the whole _Pcr on a linear template *)
Lemma all_some_spec : forall {A} (l : list (option A)),
  ~ In None l -> exists l', all_some l = Some l' /\ l = map Some l'.
Proof.
  induction l as [|[a|] l IH]; intros Hn.
  - exists []. auto.
  - destruct IH as (l' & H1 & H2); [intros H; apply Hn; right; exact H|].
    exists (a :: l'). cbn. rewrite H1, H2. auto.
  - exfalso. apply Hn. left. reflexivity.
Qed.

Lemma rc_primer_len : forall p, len (rc_primer p) = len p.
Proof. intros. unfold len, rc_primer. now rewrite rev_length, map_length. Qed.

Lemma rc_primer_nonempty : forall p, p <> [] -> rc_primer p <> [].
Proof.
  intros p Hp H. apply (f_equal (@length _)) in H. unfold rc_primer in H. rewrite rev_length, map_length in H.
  destruct p; [congruence|discriminate].
Qed.

Lemma block_lin_spec : forall o t pf ef pr er fb x,
  o_circ o = false -> ext_ok o -> pf <> [] -> pr <> [] ->
  (In x (block o t pf ef pr er fb) <-> exists a, x = Some a /\ spec_orient o t pf ef pr er fb a).
Proof.
  intros o t pf ef pr er fb x Hc Hx Hpf Hpr. rewrite block_lin by auto. unfold spec_orient. split.
  - intros (i & k1 & j & k2 & Hh1 & Hh2 & Hin).
    destruct (hit_range _ _ _ _ _ Hpf Hh1) as (Hi0 & Hm1 & Hi1).
    destruct (hit_range _ _ _ _ _ Hpr Hh2) as (Hj0 & Hm2 & Hj1).
    apply pair_lin in Hin; auto. destruct Hin as (Hb & from & to & Hcut & ->).
    eexists. split; [reflexivity|]. exists i, k1, j, k2, from, to. auto.
  - intros (a & -> & i & k1 & j & k2 & from & to & Hh1 & Hh2 & Hb & Hcut & ->).
    exists i, k1, j, k2. split; [auto|]. split; [auto|].
    destruct (hit_range _ _ _ _ _ Hpf Hh1) as (Hi0 & Hm1 & Hi1).
    destruct (hit_range _ _ _ _ _ Hpr Hh2) as (Hj0 & Hm2 & Hj1).
    apply pair_lin; auto. split; [auto|]. exists from, to. auto.
Qed.


Lemma pcr_lin : forall o t, linear_ok o ->
  exists l, pcr o t = Some l /\ forall a, In a l <-> spec_pcr_lin o t a.
Proof.
  intros o t (Hc & Hx & Hf & Hr). unfold pcr, pcr_on. fold (block o t (o_fwd o) (o_ef o) (rc_primer (o_rev o)) (o_er o) true). fold (block o t (o_rev o) (o_er o) (rc_primer (o_fwd o)) (o_ef o) false).
  set (b1 := block o t (o_fwd o) (o_ef o) (rc_primer (o_rev o)) (o_er o) true).
  set (b2 := block o t (o_rev o) (o_er o) (rc_primer (o_fwd o)) (o_ef o) false).
  assert (H1 : forall x, In x b1 <-> exists a, x = Some a /\
             spec_orient o t (o_fwd o) (o_ef o) (rc_primer (o_rev o)) (o_er o) true a).
  { intros x. apply block_lin_spec; auto using rc_primer_nonempty. }
  assert (H2 : forall x, In x b2 <-> exists a, x = Some a /\
             spec_orient o t (o_rev o) (o_er o) (rc_primer (o_fwd o)) (o_ef o) false a).
  { intros x. apply block_lin_spec; auto using rc_primer_nonempty. }
  destruct (all_some_spec (b1 ++ b2)) as (l & Hl & Heq).
  { intros Hn. apply in_app_or in Hn. destruct Hn as [Hn|Hn]; [apply H1 in Hn|apply H2 in Hn];
      destruct Hn as (a & Ha & _); discriminate. }
  exists l. split; [exact Hl|]. intros a. unfold spec_pcr_lin.
  assert (Hin : In a l <-> In (Some a) (b1 ++ b2)).
  { rewrite Heq. rewrite in_map_iff. split; [intros H; exists a; auto|]. intros (a' & Ha & Hin). inversion Ha; subst; auto. }
  rewrite Hin, in_app_iff, H1, H2. split.
  - intros [(a' & Ha & Hs)|(a' & Ha & Hs)]; inversion Ha; subst; auto.
  - intros [Hs|Hs]; [left|right]; eauto.
Qed.

Lemma pcr_lin_total : forall o t, linear_ok o -> pcr o t <> None.
Proof. intros o t H. destruct (pcr_lin o t H) as (l & Hl & _). congruence. Qed.

Lemma pcr_lin_sound : forall o t l a, linear_ok o -> pcr o t = Some l -> In a l -> spec_pcr_lin o t a.
Proof. intros o t l a H Hl Ha. destruct (pcr_lin o t H) as (l' & Hl' & Hs). rewrite Hl in Hl'. inversion Hl'; subst. apply Hs, Ha. Qed.

Lemma pcr_lin_complete : forall o t a, linear_ok o -> spec_pcr_lin o t a -> exists l, pcr o t = Some l /\ In a l.
Proof. intros o t a H Ha. destruct (pcr_lin o t H) as (l & Hl & Hs). exists l. split; auto. apply Hs, Ha. Qed.

(* ====================== strand symmetry ====================== *)
(* ---------- complement tables *)
Lemma comp_nuc_invol : forall x, comp_nuc (comp_nuc x) = x.
Proof.
  intros x. unfold comp_nuc. destruct (x <? 4)%N eqn:E.
  - apply N.ltb_lt in E. replace (3 - x <? 4)%N with true by (symmetry; apply N.ltb_lt; lia). lia.
  - rewrite E. reflexivity.
Qed.

Lemma rc_invol : forall t, rc (rc t) = t.
Proof.
  intros t. unfold rc. rewrite map_rev, rev_involutive, map_map.
  rewrite <- (map_id t) at 2. apply map_ext. apply comp_nuc_invol.
Qed.

Lemma rc_length : forall t, length (rc t) = length t.
Proof. intros. unfold rc. now rewrite rev_length, map_length. Qed.

Lemma rc_len : forall t, len (rc t) = len t.
Proof. intros. unfold len. now rewrite rc_length. Qed.

Lemma comp_sym_bits : forall s,
  N.testbit (comp_sym s) 0 = N.testbit s 3 /\ N.testbit (comp_sym s) 1 = N.testbit s 2 /\
  N.testbit (comp_sym s) 2 = N.testbit s 1 /\ N.testbit (comp_sym s) 3 = N.testbit s 0 /\
  N.testbit (comp_sym s) 4 = N.testbit s 4 /\ N.testbit (comp_sym s) 5 = N.testbit s 5.
Proof.
  intros s. unfold comp_sym.
  destruct (N.testbit s 0), (N.testbit s 1), (N.testbit s 2), (N.testbit s 3), (N.testbit s 4), (N.testbit s 5);
    vm_compute; repeat split.
Qed.

Lemma sym_match_comp : forall s x, sym_match (comp_sym s) (comp_nuc x) = sym_match s x.
Proof.
  intros s x. destruct (comp_sym_bits s) as (B0 & B1 & B2 & B3 & B4 & B5).
  unfold sym_match, comp_nuc. destruct (x <? 4)%N eqn:E.
  - apply N.ltb_lt in E. replace (3 - x <? 4)%N with true by (symmetry; apply N.ltb_lt; lia).
    assert (Hx : x = 0%N \/ x = 1%N \/ x = 2%N \/ x = 3%N) by lia.
    destruct Hx as [ -> | [ -> | [ -> | -> ] ] ]; cbn [N.sub Pos.sub_mask Pos.pred_double Pos.double_pred_mask]; auto.
  - rewrite E. exact B5.
Qed.

Lemma miss_comp : forall s, miss (comp_sym s) = miss s.
Proof. intros s. unfold miss. destruct (comp_sym_bits s) as (_ & _ & _ & _ & B4 & _). now rewrite B4. Qed.

(* ---------- mismatch count on an exact window *)

Lemma mism_mm : forall p text, (length p <= length text)%nat -> mism p text = Some (mm p text).
Proof.
  induction p as [|s p IH]; intros text H; [reflexivity|].
  destruct text as [|x text]; [cbn in H; lia|]. cbn in H. cbn [mism mm]. rewrite IH by lia.
  destruct (sym_match s x); f_equal; lia.
Qed.

Lemma mm_firstn : forall p text, mm p (firstn (length p) text) = mm p text.
Proof.
  induction p as [|s p IH]; intros text; [reflexivity|].
  destruct text as [|x text]; [reflexivity|]. cbn [length firstn mm]. now rewrite IH.
Qed.

Lemma mm_app : forall p1 w1 p2 w2, length p1 = length w1 -> mm (p1 ++ p2) (w1 ++ w2) = (mm p1 w1 + mm p2 w2)%N.
Proof.
  induction p1 as [|s p1 IH]; intros w1 p2 w2 H; destruct w1 as [|x w1]; try discriminate; [reflexivity|].
  cbn [app mm]. rewrite IH by (cbn in H; lia). lia.
Qed.

Lemma mm_rev : forall p w, length p = length w -> mm (rev p) (rev w) = mm p w.
Proof.
  induction p as [|s p IH]; intros w H; destruct w as [|x w]; try discriminate; [reflexivity|].
  cbn [rev]. rewrite mm_app by (rewrite !rev_length; cbn in H; lia). rewrite IH by (cbn in H; lia).
  cbn [mm]. lia.
Qed.

Lemma mm_comp : forall p w, mm (map comp_sym p) (map comp_nuc w) = mm p w.
Proof.
  induction p as [|s p IH]; intros w; [reflexivity|]. destruct w as [|x w]; [reflexivity|].
  cbn [map mm]. now rewrite sym_match_comp, miss_comp, IH.
Qed.

Lemma mm_rc : forall p w, length p = length w -> mm (rc_primer p) (rc w) = mm p w.
Proof.
  intros p w H. unfold rc_primer, rc. rewrite mm_rev by (now rewrite !map_length). apply mm_comp.
Qed.

(* ---------- slices *)
Lemma slice_length : forall {A} (t : list A) a b, 0 <= a -> a <= b -> b <= len t -> len (slice t a b) = b - a.
Proof.
  intros A t a b Ha Hab Hb. unfold slice, len in *. rewrite firstn_length, skipn_length. lia.
Qed.

Lemma slice_rc : forall t a b, 0 <= a -> a <= b -> b <= len t ->
  slice (rc t) a b = rc (slice t (len t - b) (len t - a)).
Proof.
  intros t a b Ha Hab Hb. unfold slice, rc, len in *.
  rewrite skipn_rev, firstn_rev, map_length, firstn_length, map_length.
  rewrite <- firstn_map, <- skipn_map. f_equal.
  rewrite skipn_firstn_comm. f_equal; [|f_equal]; lia.
Qed.

Lemma occ_mm : forall p t i k,
  occ p t i k <-> 0 <= i /\ i + len p <= len t /\ mm p (slice t i (i + len p)) = k.
Proof.
  intros p t i k. unfold occ. split; intros (H0 & H1 & H2); repeat split; auto.
  - rewrite mism_mm in H2 by (rewrite skipn_length; unfold len in *; lia). inversion H2.
    unfold slice. replace (Z.to_nat (i + len p - i)) with (length p) by (unfold len; lia). now rewrite mm_firstn.
  - rewrite mism_mm by (rewrite skipn_length; unfold len in *; lia). f_equal. rewrite <- H2.
    unfold slice. replace (Z.to_nat (i + len p - i)) with (length p) by (unfold len; lia). now rewrite mm_firstn.
Qed.

Lemma occ_mirror : forall p t i k,
  occ (rc_primer p) (rc t) i k <-> occ p t (len t - i - len p) k.
Proof.
  intros p t i k. rewrite !occ_mm, rc_primer_len, rc_len. split; intros (H0 & H1 & H2).
  - pose proof (len_nonneg p). repeat split; try lia.
    rewrite slice_rc in H2 by lia. rewrite mm_rc in H2.
    + rewrite <- H2. f_equal. f_equal; lia.
    + apply Nat2Z.inj. change (len p = len (slice t (len t - (i + len p)) (len t - i))). rewrite slice_length; lia.
  - pose proof (len_nonneg p). repeat split; try lia.
    rewrite slice_rc by lia. rewrite mm_rc.
    + rewrite <- H2. f_equal. f_equal; lia.
    + apply Nat2Z.inj. change (len p = len (slice t (len t - (i + len p)) (len t - i))). rewrite slice_length; lia.
Qed.

Lemma occ_mirror' : forall p t i k,
  occ p (rc t) i k <-> occ (rc_primer p) t (len t - i - len p) k.
Proof.
  intros p t i k. rewrite <- (rc_invol t) at 2. rewrite occ_mirror, rc_len.
  replace (len t - (len t - i - len p) - len p) with i by lia. reflexivity.
Qed.

(* ---------- strand symmetry of the specification *)
Lemma cut_lin_range0 : forall o L i m1 j m2 from to,
  cut_lin o L i m1 j m2 from to -> ext_ok o -> 0 <= i -> 0 <= m1 -> 0 <= m2 -> j + m2 <= L -> 0 < j - (i + m1) ->
  0 <= from /\ from <= to /\ to <= L.
Proof.
  intros o L i m1 j m2 from to Hcut Hx Hi Hm1 Hm2 Hj Hins. unfold cut_lin in Hcut. unfold ext_ok in Hx.
  destruct (o_ext o) as [x|]; [specialize (Hx x eq_refl); destruct (o_full o)|]; lia.
Qed.

Lemma flip_invol : forall a, flip (flip a) = a.
Proof. intros [[[[[s d] f] kf] r] kr]. cbn. now rewrite negb_involutive. Qed.

Lemma orient_mirror : forall o t pa ea pb eb fb a, ext_ok o ->
  spec_orient o (rc t) pa ea (rc_primer pb) eb fb a ->
  spec_orient o t pb eb (rc_primer pa) ea (negb fb) (flip a).
Proof.
  intros o t pa ea pb eb fb a Hx (i & k1 & j & k2 & from & to & (Ho1 & He1) & (Ho2 & He2) & Hb & Hcut & ->).
  rewrite rc_len in Hcut. rewrite rc_primer_len in *. set (L := len t) in *.
  pose proof (len_nonneg pa) as Hpa. pose proof (len_nonneg pb) as Hpb.
  pose proof Ho1 as (Hi0 & Hi1 & _). pose proof Ho2 as (Hj0 & Hj1 & _). rewrite rc_len in Hi1, Hj1. fold L in Hi1, Hj1.
  rewrite rc_primer_len in Hj1.
  assert (Hr := cut_lin_range0 _ _ _ _ _ _ _ _ Hcut Hx Hi0 Hpa Hpb Hj1 (proj1 Hb)).
  apply occ_mirror' in Ho1. apply occ_mirror in Ho2. fold L in Ho1, Ho2.
  exists (L - j - len pb), k2, (L - i - len pa), k1, (L - to), (L - from).
  split; [split; auto|]. split; [split; auto|].
  split. { replace (L - i - len pa - (L - j - len pb + len pb)) with (j - (i + len pa)) by lia. exact Hb. }
  split. { rewrite rc_primer_len. unfold cut_lin in *. destruct (o_ext o) as [x|]; [destruct (o_full o)|]; lia. }
  rewrite rc_primer_len.
  rewrite (slice_rc t from to) by lia. rewrite (slice_rc t i (i + len pa)) by lia. rewrite (slice_rc t j (j + len pb)) by lia.
  fold L. replace (L - (i + len pa)) with (L - i - len pa) by lia. replace (L - (j + len pb)) with (L - j - len pb) by lia.
  replace (L - j - len pb + len pb) with (L - j) by lia. replace (L - i - len pa + len pa) with (L - i) by lia.
  destruct fb; cbn [mk_amp flip negb]; rewrite !rc_invol; reflexivity.
Qed.

Lemma strand_symmetry_1 : forall o t a, ext_ok o -> spec_pcr_lin o (rc t) a -> spec_pcr_lin o t (flip a).
Proof.
  intros o t a Hx [H|H]; apply orient_mirror in H; auto; cbn [negb] in H; [right|left]; exact H.
Qed.

Lemma strand_symmetry : forall o t a, ext_ok o -> (spec_pcr_lin o (rc t) a <-> spec_pcr_lin o t (flip a)).
Proof.
  intros o t a Hx. split; [apply strand_symmetry_1; auto|]. intros H.
  rewrite <- (rc_invol t) in H. apply strand_symmetry_1 in H; auto. now rewrite flip_invol in H.
Qed.

(* carried to the model of the implementation *)
Lemma pcr_strand_symmetry : forall o t l l' a, linear_ok o ->
  pcr o t = Some l -> pcr o (rc t) = Some l' -> (In a l' <-> In (flip a) l).
Proof.
  intros o t l l' a Hok Hl Hl'. pose proof Hok as (_ & Hx & _).
  destruct (pcr_lin o t Hok) as (l1 & E1 & S1). destruct (pcr_lin o (rc t) Hok) as (l2 & E2 & S2).
  rewrite Hl in E1. rewrite Hl' in E2. inversion E1; inversion E2; subst.
  rewrite S1, S2. apply strand_symmetry; auto.
Qed.

(* ====================== rotation invariance (specification of circular templates) ====================== *)
(* ---------- rotation *)
Lemma rot_length : forall r t, (r <= length t)%nat -> length (rot r t) = length t.
Proof. intros r t H. unfold rot. rewrite app_length, skipn_length, firstn_length. lia. Qed.

Lemma nth_skipn' : forall {A} (l : list A) n k d, nth k (skipn n l) d = nth (n + k) l d.
Proof.
  intros A l n. revert l. induction n as [|n IH]; intros l k d; [reflexivity|].
  destruct l as [|x l]; [destruct k; reflexivity|]. cbn [skipn plus nth]. apply IH.
Qed.

Lemma nth_firstn' : forall {A} (l : list A) n k d, (k < n)%nat -> nth k (firstn n l) d = nth k l d.
Proof.
  intros A l n. revert l. induction n as [|n IH]; intros l k d H; [lia|].
  destruct l as [|x l]; [reflexivity|]. destruct k as [|k]; [reflexivity|]. cbn [firstn nth]. apply IH. lia.
Qed.

Lemma nth_rot : forall r t k d, (r <= length t)%nat -> 0 <= k < len t ->
  nth (Z.to_nat k) (rot r t) d = nth (Z.to_nat ((k + Z.of_nat r) mod len t)) t d.
Proof.
  intros r t k d Hr Hk. unfold rot, len in *. set (L := length t) in *.
  destruct (Z_lt_dec (k + Z.of_nat r) (Z.of_nat L)) as [Hlt|Hge].
  - rewrite Z.mod_small by lia. rewrite app_nth1 by (rewrite skipn_length; lia).
    rewrite nth_skipn'. f_equal. lia.
  - assert (Hm : (k + Z.of_nat r) mod Z.of_nat L = k + Z.of_nat r - Z.of_nat L).
    { symmetry. apply Z.mod_unique with (q := 1); lia. }
    rewrite Hm. rewrite app_nth2 by (rewrite skipn_length; lia). rewrite skipn_length.
    rewrite nth_firstn' by lia. f_equal. lia.
Qed.

Lemma circ_rot : forall r t a n, (r <= length t)%nat -> (0 < length t)%nat ->
  circ (rot r t) a n = circ t (a + Z.of_nat r) n.
Proof.
  intros r t a n Hr Hpos. unfold circ. apply map_ext. intros q.
  assert (Hlen : len (rot r t) = len t) by (unfold len; now rewrite rot_length).
  rewrite Hlen. rewrite nth_rot; auto.
  - f_equal. f_equal. rewrite Zplus_mod_idemp_l. f_equal. lia.
  - apply Z.mod_pos_bound. unfold len. lia.
Qed.

Lemma circ_mod : forall t a n, circ t (a mod len t) n = circ t a n.
Proof.
  intros t a n. unfold circ. apply map_ext. intros q. f_equal. f_equal. now rewrite Zplus_mod_idemp_l.
Qed.

Lemma circ_congr : forall t a b n, a mod len t = b mod len t -> circ t a n = circ t b n.
Proof. intros t a b n H. rewrite <- (circ_mod t a), <- (circ_mod t b), H. reflexivity. Qed.

Lemma chit_rot : forall r t p e i k, (r <= length t)%nat ->
  chit p e (rot r t) i k -> chit p e t ((i + Z.of_nat r) mod len t) k.
Proof.
  intros r t p e i k Hr (Hi & Hm & Hk).
  assert (Hlen : len (rot r t) = len t) by (unfold len; now rewrite rot_length).
  rewrite Hlen in Hi. assert (Hpos : (0 < length t)%nat) by (unfold len in Hi; lia).
  split; [apply Z.mod_pos_bound; lia|]. split; auto.
  rewrite circ_mod. rewrite <- circ_rot; auto.
Qed.

Lemma mod_shift : forall L x y f r, 0 < L ->
  ((x + r) mod L - ((y + r) mod L + f)) mod L = (x - (y + f)) mod L.
Proof.
  intros L x y f r HL.
  rewrite Zminus_mod, (Zplus_mod ((y + r) mod L) f), !Z.mod_mod by lia.
  rewrite <- (Zplus_mod (y + r) f), <- Zminus_mod. f_equal. lia.
Qed.

Lemma orient_rot : forall o t r p1 e1 p2 e2 fb a, (r <= length t)%nat ->
  spec_orient_circ o (rot r t) p1 e1 p2 e2 fb a -> spec_orient_circ o t p1 e1 p2 e2 fb a.
Proof.
  intros o t r p1 e1 p2 e2 fb a Hr (i & k1 & j & k2 & H1 & H2 & Hb & s & Hs & ->).
  assert (Hlen : len (rot r t) = len t) by (unfold len; now rewrite rot_length).
  pose proof H1 as (Hi & _). rewrite Hlen in Hi, Hb, Hs.
  assert (Hpos : (0 < length t)%nat) by (unfold len in Hi; lia).
  assert (HL : 0 < len t) by lia. set (R := Z.of_nat r) in *.
  exists ((i + R) mod len t), k1, ((j + R) mod len t), k2.
  split; [apply chit_rot; auto|]. split; [apply chit_rot; auto|].
  cbn zeta. rewrite mod_shift by auto. split; [exact Hb|].
  exists s. split.
  - destruct (o_ext o) as [x|].
    + subst s. rewrite circ_rot by auto. fold R. apply circ_congr.
      rewrite Zminus_mod_idemp_l. f_equal. lia.
    + subst s. rewrite circ_rot by auto. fold R. apply circ_congr.
      rewrite Zplus_mod_idemp_l. f_equal. lia.
  - rewrite !circ_rot by auto. fold R. rewrite !circ_mod. reflexivity.
Qed.

Lemma rot_rot : forall r t, (r <= length t)%nat -> rot (length t - r) (rot r t) = t.
Proof.
  intros r t Hr. unfold rot.
  rewrite skipn_app, firstn_app, skipn_length.
  replace (length t - r - (length t - r))%nat with O by lia. cbn [skipn firstn].
  rewrite (skipn_all2 (n := length t - r) (skipn r t)) by (rewrite skipn_length; lia).
  rewrite (firstn_all2 (n := length t - r) (skipn r t)) by (rewrite skipn_length; lia).
  rewrite app_nil_l, app_nil_r. apply firstn_skipn.
Qed.

Lemma rotation_invariant : forall o t r a, (r <= length t)%nat ->
  (spec_pcr_circ o (rot r t) a <-> spec_pcr_circ o t a).
Proof.
  intros o t r a Hr. split.
  - intros [H|H]; [left|right]; eapply orient_rot; eauto.
  - intros H. rewrite <- (rot_rot r t Hr) in H.
    destruct H as [H|H]; [left|right]; eapply orient_rot; try exact H; rewrite rot_length; auto; lia.
Qed.

(* ====================== circular templates: model = specification (no extension) ====================== *)
(* ---------- circular templates: the model against the circular specification *)
Lemma nth_map_seq : forall {B} (f : nat -> B) n k d, (k < n)%nat -> nth k (map f (seq 0 n)) d = f k.
Proof.
  intros B f n k d H. rewrite (nth_indep _ _ (f O)) by (rewrite map_length, seq_length; lia).
  rewrite map_nth, seq_nth by lia. reflexivity.
Qed.

Lemma circ_length : forall t a n, length (circ t a n) = Z.to_nat n.
Proof. intros. unfold circ. now rewrite map_length, seq_length. Qed.

Lemma circ_nth : forall t a n q, (q < Z.to_nat n)%nat ->
  nth q (circ t a n) 0%N = nth (Z.to_nat ((a + Z.of_nat q) mod len t)) t 0%N.
Proof. intros t a n q H. unfold circ. now rewrite nth_map_seq. Qed.

Definition cdata (t : list nuc) : list nuc := t ++ circ_ext t.

Lemma cdata_len : forall t, len (cdata t) = len t + 64.
Proof. intros. unfold cdata, len. rewrite app_length, circ_ext_length. lia. Qed.

Lemma cdata_nth : forall t k, 0 < len t -> 0 <= k < len t + 64 ->
  nth (Z.to_nat k) (cdata t) 0%N = nth (Z.to_nat (k mod len t)) t 0%N.
Proof.
  intros t k HL Hk. unfold cdata. destruct (Z_lt_dec k (len t)) as [Hlt|Hge].
  - rewrite app_nth1 by (unfold len in *; lia). now rewrite Z.mod_small by lia.
  - rewrite app_nth2 by (unfold len in *; lia).
    destruct t as [|x t']; [unfold len in HL; cbn in HL; lia|]. unfold circ_ext. set (t := x :: t') in *.
    rewrite nth_map_seq by (unfold len in *; lia).
    f_equal. f_equal. replace (Z.of_nat (Z.to_nat k - length t)) with (k - len t) by (unfold len in *; lia).
    rewrite <- (Z_mod_plus_full (k - len t) 1 (len t)). f_equal. lia.
Qed.

Lemma slice_nth : forall (t : list nuc) a b q, 0 <= a -> a <= b -> b <= len t -> (q < Z.to_nat (b - a))%nat ->
  nth q (slice t a b) 0%N = nth (Z.to_nat a + q) t 0%N.
Proof.
  intros t a b q Ha Hab Hb Hq. unfold slice. rewrite nth_firstn' by lia. now rewrite nth_skipn'.
Qed.

Lemma slice_len_nat : forall (t : list nuc) a b, 0 <= a -> a <= b -> b <= len t -> length (slice t a b) = Z.to_nat (b - a).
Proof. intros t a b Ha Hab Hb. unfold slice, len in *. rewrite firstn_length, skipn_length. lia. Qed.

Lemma slice_cdata : forall t i m, 0 < len t -> 0 <= i -> 0 <= m -> i + m <= len t + 64 ->
  slice (cdata t) i (i + m) = circ t i m.
Proof.
  intros t i m HL Hi Hm Him.
  apply (nth_ext _ _ 0%N 0%N).
  - rewrite slice_len_nat, circ_length by (rewrite ?cdata_len; lia). f_equal. lia.
  - intros q Hq. rewrite slice_len_nat in Hq by (rewrite ?cdata_len; lia).
    rewrite slice_nth by (rewrite ?cdata_len; lia). rewrite circ_nth by lia.
    replace (Z.to_nat i + q)%nat with (Z.to_nat (i + Z.of_nat q)) by lia.
    apply cdata_nth; lia.
Qed.

Lemma hit_cdata : forall p e t i k, p <> [] -> len p <= 64 -> 0 < len t -> i < len t ->
  (hit p e (cdata t) i k <-> chit p e t i k).
Proof.
  intros p e t i k Hp Hp64 HL Hi. unfold hit, chit. rewrite occ_mm, cdata_len. pose proof (len_nonneg p).
  split.
  - intros ((H0 & H1 & H2) & H3). rewrite slice_cdata in H2 by lia. repeat split; auto; lia.
  - intros ((H0 & _) & H2 & H3). rewrite slice_cdata by lia. repeat split; auto; lia.
Qed.

(* Subsequence(from, to, circular=true) reads (to - from) mod L letters along the circle, a whole turn when that is 0 *)
Lemma rem_norm : forall to L, 0 < L -> 0 <= to ->
  let t' := Z.rem (to - 1) L + 1 in 0 <= t' <= L /\ exists c, t' - to = L * c.
Proof.
  intros to L HL Ht t'. unfold t'. destruct (Z.eq_dec to 0) as [->|Hne].
  - destruct (Z.eq_dec L 1) as [->|HL1]; [cbn; split; [lia|exists 1; lia]|].
    replace (0 - 1) with (- (1)) by lia. rewrite Z.rem_opp_l by lia. rewrite Z.rem_small by lia.
    split; [lia|exists 0; lia].
  - rewrite Z.rem_mod_nonneg by lia.
    pose proof (Z.mod_pos_bound (to - 1) L HL). split; [lia|].
    exists (- ((to - 1) / L)). pose proof (Z.div_mod (to - 1) L). lia.
Qed.

Lemma mod_unique_shift : forall a L d c, 0 < L -> 0 <= d < L -> a = d + L * c -> a mod L = d.
Proof. intros a L d c HL Hd ->. rewrite Z.mul_comm, Z_mod_plus_full. apply Z.mod_small. lia. Qed.

Lemma subseq_circ : forall t from to, 0 < len t -> 0 <= from -> 0 <= to ->
  subseq t from to true =
  Some (circ t from (if (to - from) mod len t =? 0 then len t else (to - from) mod len t)).
Proof.
  intros t from to HL Hf Ht. unfold subseq. set (L := len t) in *.
  rewrite !andb_false_r.
  replace (from <? 0) with false by (symmetry; apply Z.ltb_ge; lia).
  replace (L =? 0) with false by (symmetry; apply Z.eqb_neq; lia).
  destruct (rem_norm to L HL Ht) as (Ht' & c & Hc). set (t' := Z.rem (to - 1) L + 1) in *.
  set (f := from mod L).
  assert (Hfr : 0 <= f < L) by (apply Z.mod_pos_bound; lia).
  assert (Hfrom : from = f + L * (from / L)). { unfold f. pose proof (Z.div_mod from L). lia. }
  assert (Hq : forall q, 0 <= q -> (from + q) mod L = (f + q) mod L).
  { intros q _. unfold f. now rewrite Zplus_mod_idemp_l. }
  destruct (f <? t') eqn:E; [apply Z.ltb_lt in E|apply Z.ltb_ge in E]; f_equal.
  - (* no wrap *)
    assert (Hn : (if (to - from) mod L =? 0 then L else (to - from) mod L) = t' - f).
    { destruct (Z.eq_dec (t' - f) L) as [HdL|HdL].
      - replace ((to - from) mod L) with 0; [cbn; lia|]. symmetry.
        apply (mod_unique_shift _ L 0 (1 - c - from / L)); lia.
      - replace ((to - from) mod L) with (t' - f).
        + replace (t' - f =? 0) with false by (symmetry; apply Z.eqb_neq; lia). reflexivity.
        + symmetry. apply (mod_unique_shift _ L (t' - f) (- c - from / L)); lia. }
    rewrite Hn. apply (nth_ext _ _ 0%N 0%N).
    + rewrite slice_len_nat, circ_length by (fold L; lia). reflexivity.
    + intros q Hq'. rewrite slice_len_nat in Hq' by (fold L; lia).
      rewrite slice_nth by (fold L; lia). rewrite circ_nth by lia. fold L.
      rewrite Hq by lia. rewrite Z.mod_small by lia. f_equal. lia.
  - (* wrap *)
    assert (Hn : (if (to - from) mod L =? 0 then L else (to - from) mod L) = L - f + t').
    { destruct (Z.eq_dec t' f) as [Heq|Hne].
      - replace ((to - from) mod L) with 0; [cbn; lia|]. symmetry.
        apply (mod_unique_shift _ L 0 (- c - from / L)); lia.
      - replace ((to - from) mod L) with (L - f + t').
        + replace (L - f + t' =? 0) with false by (symmetry; apply Z.eqb_neq; lia). reflexivity.
        + symmetry. apply (mod_unique_shift _ L (L - f + t') (- 1 - c - from / L)); lia. }
    rewrite Hn. apply (nth_ext _ _ 0%N 0%N).
    + rewrite app_length, !slice_len_nat, circ_length by (fold L; lia). lia.
    + intros q Hq'. rewrite app_length, !slice_len_nat in Hq' by (fold L; lia).
      rewrite circ_nth by lia. fold L. rewrite Hq by lia.
      destruct (Nat.lt_ge_cases q (Z.to_nat (L - f))) as [Hlt|Hge].
      * rewrite app_nth1 by (rewrite slice_len_nat by (fold L; lia); lia).
        rewrite slice_nth by (fold L; lia). rewrite Z.mod_small by lia. f_equal. lia.
      * rewrite app_nth2 by (rewrite slice_len_nat by (fold L; lia); lia).
        rewrite slice_len_nat by (fold L; lia). rewrite slice_nth by (fold L; lia).
        rewrite (mod_unique_shift (f + Z.of_nat q) L (f + Z.of_nat q - L) 1) by lia. f_equal. lia.
Qed.

(* CIRCPART *)
(* ====================== batches: the recycled C buffer ====================== *)
Lemma pcr_slice_from_spec : forall o ts buf, pcr_slice_from o buf ts = map (pcr o) ts.
Proof.
  intros o ts. induction ts as [|t r IH]; intros buf; [reflexivity|].
  cbn [pcr_slice_from map]. rewrite IH. f_equal. unfold pcr, fresh. now rewrite !visible_encode.
Qed.

Lemma pcr_slice_spec : forall o ts, pcr_slice o ts = map (pcr o) ts.
Proof. intros. apply pcr_slice_from_spec. Qed.

(* ====================== strand symmetry on circular templates ====================== *)
(* ---------- strand symmetry of the circular specification *)
Lemma nth_rc : forall t k, (k < length t)%nat -> nth k (rc t) 0%N = comp_nuc (nth (length t - S k) t 0%N).
Proof.
  intros t k Hk. unfold rc. rewrite rev_nth by (rewrite map_length; lia). rewrite map_length.
  rewrite (nth_indep _ _ (comp_nuc 0%N)) by (rewrite map_length; lia). apply map_nth.
Qed.

Lemma mod_neg_succ : forall x L, 0 < L -> (- x - 1) mod L = L - 1 - x mod L.
Proof.
  intros x L HL. pose proof (Z.div_mod x L). pose proof (Z.mod_pos_bound x L HL).
  symmetry. apply Z.mod_unique with (q := - (x / L) - 1); lia.
Qed.

Lemma circ_rc : forall t a n, 0 < len t -> 0 <= n -> circ (rc t) a n = rc (circ t (- a - n) n).
Proof.
  intros t a n HL Hn. apply (nth_ext _ _ 0%N 0%N).
  - rewrite rc_length, !circ_length. reflexivity.
  - intros q Hq. rewrite circ_length in Hq. rewrite circ_nth by lia. rewrite rc_len.
    assert (Hb := Z.mod_pos_bound (a + Z.of_nat q) (len t) HL).
    rewrite nth_rc by (unfold len in *; lia).
    rewrite nth_rc by (rewrite circ_length; lia). rewrite circ_length. f_equal.
    rewrite circ_nth by lia. f_equal.
    replace (- a - n + Z.of_nat (Z.to_nat n - S q)) with (- (a + Z.of_nat q) - 1) by lia.
    rewrite mod_neg_succ by lia. unfold len in *. lia.
Qed.

Lemma chit_rc : forall p e t i k, chit (rc_primer p) e (rc t) i k -> chit p e t ((- i - len p) mod len t) k.
Proof.
  intros p e t i k (Hi & Hm & Hk). rewrite rc_len in Hi. rewrite rc_primer_len in Hm.
  assert (HL : 0 < len t) by lia. pose proof (len_nonneg p).
  split; [apply Z.mod_pos_bound; lia|]. split; [|exact Hk].
  rewrite circ_mod. rewrite circ_rc in Hm by lia. rewrite mm_rc in Hm; [exact Hm|].
  rewrite circ_length. unfold len. lia.
Qed.

Lemma chit_rc' : forall p e t i k, chit p e (rc t) i k -> chit (rc_primer p) e t ((- i - len p) mod len t) k.
Proof.
  intros p e t i k (Hi & Hm & Hk). rewrite rc_len in Hi.
  assert (HL : 0 < len t) by lia. pose proof (len_nonneg p).
  split; [apply Z.mod_pos_bound; lia|]. split; [|exact Hk].
  rewrite rc_primer_len, circ_mod. rewrite circ_rc in Hm by lia.
  rewrite <- (mm_rc p) in Hm by (rewrite rc_length, circ_length; unfold len; lia).
  rewrite rc_invol in Hm. exact Hm.
Qed.

Lemma orient_circ_mirror : forall o t pa ea pb eb fb a,
  (forall x, o_ext o = Some x -> 0 <= x) ->
  spec_orient_circ o (rc t) pa ea (rc_primer pb) eb fb a ->
  spec_orient_circ o t pb eb (rc_primer pa) ea (negb fb) (flip a).
Proof.
  intros o t pa ea pb eb fb a Hx (i & k1 & j & k2 & H1 & H2 & Hb & s & Hs & ->).
  rewrite rc_len, rc_primer_len in *. set (L := len t) in *.
  pose proof H1 as (Hi & _). rewrite rc_len in Hi. fold L in Hi. assert (HL : 0 < L) by lia.
  pose proof (len_nonneg pa) as Hpa. pose proof (len_nonneg pb) as Hpb.
  apply chit_rc' in H1. apply chit_rc in H2. fold L in H1, H2.
  set (ins := (j - (i + len pa)) mod L) in *.
  assert (Hins : ((- i - len pa) mod L - ((- j - len pb) mod L + len pb)) mod L = ins).
  { unfold ins. rewrite Zminus_mod, (Zplus_mod ((- j - len pb) mod L) (len pb)), !Z.mod_mod by lia.
    rewrite <- (Zplus_mod (- j - len pb) (len pb)), <- Zminus_mod. f_equal. lia. }
  assert (Hins0 : 0 <= ins) by (apply Z.mod_pos_bound; lia).
  exists ((- j - len pb) mod L), k2, ((- i - len pa) mod L), k1.
  split; [exact H2|]. split; [exact H1|]. cbn zeta. rewrite rc_primer_len. fold L. rewrite Hins.
  split; [exact Hb|].
  assert (Hfm : circ (rc t) i (len pa) = rc (circ t ((- i - len pa) mod L) (len pa))).
  { rewrite circ_rc by (fold L; lia). f_equal. unfold L. now rewrite circ_mod. }
  assert (Hrm : circ (rc t) j (len pb) = rc (circ t ((- j - len pb) mod L) (len pb))).
  { rewrite circ_rc by (fold L; lia). f_equal. unfold L. now rewrite circ_mod. }
  destruct (o_ext o) as [x|] eqn:Eext.
  - subst s. specialize (Hx x eq_refl).
    exists (circ t ((- j - len pb) mod L - x) (len pb + ins + len pa + 2 * x)). split.
    + reflexivity.
    + rewrite Hfm, Hrm. rewrite circ_rc by (fold L; lia).
      replace (len pa + ins + len pb + 2 * x) with (len pb + ins + len pa + 2 * x) by lia.
      assert (Hc : circ t (- (i - x) - (len pb + ins + len pa + 2 * x)) (len pb + ins + len pa + 2 * x)
                   = circ t ((- j - len pb) mod L - x) (len pb + ins + len pa + 2 * x)).
      { apply circ_congr. fold L. rewrite (Zminus_mod ((- j - len pb) mod L) x), Z.mod_mod, <- Zminus_mod by lia.
        unfold ins. replace (- (i - x) - (len pb + (j - (i + len pa)) mod L + len pa + 2 * x))
          with ((- i - x - len pb - len pa) - (j - (i + len pa)) mod L) by lia.
        rewrite Zminus_mod_idemp_r. f_equal. lia. }
      rewrite Hc. destruct fb; cbn [mk_amp flip negb]; rewrite !rc_invol; reflexivity.
  - subst s. exists (circ t ((- j - len pb) mod L + len pb) ins). split; [reflexivity|].
    rewrite Hfm, Hrm. rewrite circ_rc by (fold L; lia).
    assert (Hc : circ t (- (i + len pa) - ins) ins = circ t ((- j - len pb) mod L + len pb) ins).
    { apply circ_congr. fold L. rewrite Zplus_mod_idemp_l. unfold ins. rewrite Zminus_mod_idemp_r. f_equal. lia. }
    rewrite Hc. destruct fb; cbn [mk_amp flip negb]; rewrite !rc_invol; reflexivity.
Qed.

Lemma strand_symmetry_circ_1 : forall o t a, ext_ok o -> spec_pcr_circ o (rc t) a -> spec_pcr_circ o t (flip a).
Proof.
  intros o t a Hx [H|H]; apply orient_circ_mirror in H; auto; cbn [negb] in H; [right|left]; exact H.
Qed.

Lemma strand_symmetry_circ : forall o t a, ext_ok o -> (spec_pcr_circ o (rc t) a <-> spec_pcr_circ o t (flip a)).
Proof.
  intros o t a Hx. split; [apply strand_symmetry_circ_1; auto|]. intros H.
  rewrite <- (rc_invol t) in H. apply strand_symmetry_circ_1 in H; auto. now rewrite flip_invol in H.
Qed.

