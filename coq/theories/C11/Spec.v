(* C11 — the specification the theorems speak about (Prop level; the executable model is in Model.v). *)
From Coq Require Import ZArith NArith List Bool.
Import ListNotations.
From OBI.C11 Require Import Model.
Open Scope Z_scope.

(* primer p lies on the text at position i with exactly k mismatching positions *)
Definition occ (p : list sym) (text : list nuc) (i : Z) (k : N) : Prop :=
  0 <= i /\ i + len p <= len text /\ mism p (skipn (Z.to_nat i) text) = Some k.

(* ... within the error budget e *)
Definition hit (p : list sym) (e : N) (text : list nuc) (i : Z) (k : N) : Prop :=
  occ p text i k /\ (k <= e)%N.

(* insert length within the bounds as the code documents them: 0 = no bound; touching/overlapping primers excluded *)
Definition bounds_ok (o : opts) (ins : Z) : Prop :=
  0 < ins /\ (o_min o = 0 \/ o_min o <= ins) /\ (o_max o = 0 \/ ins <= o_max o).

(* where the reported segment is cut on a linear template of length L; the first match is [i, i+m1), the second
   [j, j+m2): the insert alone without extension; primers + flanks of x bases with an extension, clipped at the
   ends of the template, or not reported at all when full flanks are demanded and not available *)
Definition cut_lin (o : opts) (L i m1 j m2 from to : Z) : Prop :=
  match o_ext o with
  | None => from = i + m1 /\ to = j
  | Some x =>
      if o_full o then from = i - x /\ to = j + m2 + x /\ 0 <= from /\ to <= L
      else from = Z.max 0 (i - x) /\ to = Z.min L (j + m2 + x)
  end.

(* amplicons of one orientation of a LINEAR template t: p1 matched at i, the complemented partner p2 matched
   downstream at j *)
Definition spec_orient (o : opts) (t : list nuc) (p1 : list sym) (e1 : N) (p2 : list sym) (e2 : N)
           (fwd_block : bool) (a : amplicon) : Prop :=
  exists i k1 j k2 from to,
    hit p1 e1 t i k1 /\ hit p2 e2 t j k2 /\
    bounds_ok o (j - (i + len p1)) /\
    cut_lin o (len t) i (len p1) j (len p2) from to /\
    a = mk_amp fwd_block (slice t from to) (slice t i (i + len p1)) k1 (slice t j (j + len p2)) k2.

(* the set of amplicons of a linear template: forward primer ... complemented reverse primer (direction forward),
   or reverse primer ... complemented forward primer (direction reverse, reported reverse-complemented) *)
Definition spec_pcr_lin (o : opts) (t : list nuc) (a : amplicon) : Prop :=
  spec_orient o t (o_fwd o) (o_ef o) (rc_primer (o_rev o)) (o_er o) true a \/
  spec_orient o t (o_rev o) (o_er o) (rc_primer (o_fwd o)) (o_ef o) false a.

(* well-formed options of a linear run: an extension, when requested, is >= 0 (HasExtension is `extension > -1`);
   primers are not empty; the forward primer fits the matcher's MAX_PAT_LEN *)
Definition ext_ok (o : opts) : Prop := forall x, o_ext o = Some x -> 0 <= x.
Definition linear_ok (o : opts) : Prop :=
  o_circ o = false /\ ext_ok o /\ o_fwd o <> [] /\ o_rev o <> [] /\ len (o_fwd o) <= MAX_PAT_LEN.

(* the same amplicon record with the direction flipped *)
Definition flip (a : amplicon) : amplicon :=
  match a with (s, d, f, kf, r, kr) => (s, negb d, f, kf, r, kr) end.

(* ---------------------------------------------------------------- circular templates *)
(* number of mismatching positions of primer p against a window of the same length *)
Fixpoint mm (p : list sym) (w : list nuc) : N :=
  match p, w with
  | s :: p', x :: w' => ((if sym_match s x then 0 else 1) + mm p' w')%N
  | _, _ => 0%N
  end.

(* n letters read along the circle t from position a (any integer) *)
Definition circ (t : list nuc) (a : Z) (n : Z) : list nuc :=
  map (fun q => nth (Z.to_nat ((a + Z.of_nat q) mod len t)) t 0%N) (seq 0 (Z.to_nat n)).

(* primer p lies on the circle at position i in [0, L) with k mismatches, within budget e *)
Definition chit (p : list sym) (e : N) (t : list nuc) (i : Z) (k : N) : Prop :=
  0 <= i < len t /\ mm p (circ t i (len p)) = k /\ (k <= e)%N.

(* amplicons of one orientation of a CIRCULAR template: the insert is the arc from the end of the first match to
   the start of the second one; with an extension of x bases the primers and x bases on each side are included
   (statement restricted to flanked amplicons not longer than the circle) *)
Definition spec_orient_circ (o : opts) (t : list nuc) (p1 : list sym) (e1 : N) (p2 : list sym) (e2 : N)
           (fwd_block : bool) (a : amplicon) : Prop :=
  exists i k1 j k2,
    chit p1 e1 t i k1 /\ chit p2 e2 t j k2 /\
    let ins := (j - (i + len p1)) mod len t in
    bounds_ok o ins /\
    exists s,
      match o_ext o with
      | None => s = circ t (i + len p1) ins
      | Some x => len p1 + ins + len p2 + 2 * x <= len t /\ s = circ t (i - x) (len p1 + ins + len p2 + 2 * x)
      end /\
      a = mk_amp fwd_block s (circ t i (len p1)) k1 (circ t j (len p2)) k2.

Definition spec_pcr_circ (o : opts) (t : list nuc) (a : amplicon) : Prop :=
  spec_orient_circ o t (o_fwd o) (o_ef o) (rc_primer (o_rev o)) (o_er o) true a \/
  spec_orient_circ o t (o_rev o) (o_er o) (rc_primer (o_fwd o)) (o_ef o) false a.

(* the same circle written from another origin *)
Definition rot (r : nat) (t : list nuc) : list nuc := skipn r t ++ firstn r t.

(* circular runs covered by the model-level theorems: primers non-empty, within the matcher's MAX_PAT_LEN and not
   longer than the circle (see the known finding "circular template shorter than a primer"); when an extension of x
   bases is requested, a max length is set and the longest flanked amplicon (primers + max + 2x) fits the circle (see
   the known finding "flanked amplicon longer than the circle") *)
Definition flank_fits (o : opts) (t : list nuc) : Prop :=
  match o_ext o with
  | None => True
  | Some x => 0 <= x /\ 0 < o_max o /\ len (o_fwd o) + o_max o + len (o_rev o) + 2 * x <= len t
  end.

Definition circular_ok (o : opts) (t : list nuc) : Prop :=
  o_circ o = true /\ flank_fits o t /\ o_fwd o <> [] /\ o_rev o <> [] /\
  len (o_fwd o) <= MAX_PAT_LEN /\ len (o_rev o) <= MAX_PAT_LEN /\ len (o_fwd o) <= len t /\ len (o_rev o) <= len t.
