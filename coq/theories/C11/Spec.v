(* C11 — the specification the theorems speak about (Prop level; the executable model is in Model.v). *)
From Coq Require Import ZArith NArith List Bool.
Import ListNotations.
From OBI.C11 Require Import Model.
Open Scope Z_scope.

(* primer p lies on the text at position i with exactly k mismatching positions *)
Definition occ (p : list sym) (text : list nuc) (i : Z) (k : N) : Prop :=
  0 <= i /\ i + len p <= len text /\ mism p (skipn (Z.to_nat i) text) = Some k.

(* ... within the error budget e *)
Definition hit (p : list sym) (e : N) (text : list nuc) (i : Z) (k : N) : Prop :=
  occ p text i k /\ (k <= e)%N.

(* insert length within the bounds as the code documents them: 0 = no bound; touching/overlapping primers excluded *)
Definition bounds_ok (o : opts) (ins : Z) : Prop :=
  0 < ins /\ (o_min o = 0 \/ o_min o <= ins) /\ (o_max o = 0 \/ ins <= o_max o).

(* where the reported segment is cut on a linear template of length L; the first match is [i, i+m1), the second
   [j, j+m2): the insert alone without extension; primers + flanks of x bases with an extension, clipped at the
   ends of the template, or not reported at all when full flanks are demanded and not available *)
Definition cut_lin (o : opts) (L i m1 j m2 from to : Z) : Prop :=
  match o_ext o with
  | None => from = i + m1 /\ to = j
  | Some x =>
      if o_full o then from = i - x /\ to = j + m2 + x /\ 0 <= from /\ to <= L
      else from = Z.max 0 (i - x) /\ to = Z.min L (j + m2 + x)
  end.

(* amplicons of one orientation of a LINEAR template t: p1 matched at i, the complemented partner p2 matched
   downstream at j *)
Definition spec_orient (o : opts) (t : list nuc) (p1 : list sym) (e1 : N) (p2 : list sym) (e2 : N)
           (fwd_block : bool) (a : amplicon) : Prop :=
  exists i k1 j k2 from to,
    hit p1 e1 t i k1 /\ hit p2 e2 t j k2 /\
    bounds_ok o (j - (i + len p1)) /\
    cut_lin o (len t) i (len p1) j (len p2) from to /\
    a = mk_amp fwd_block (slice t from to) (slice t i (i + len p1)) k1 (slice t j (j + len p2)) k2.

(* the set of amplicons of a linear template: forward primer ... complemented reverse primer (direction forward),
   or reverse primer ... complemented forward primer (direction reverse, reported reverse-complemented) *)
Definition spec_pcr_lin (o : opts) (t : list nuc) (a : amplicon) : Prop :=
  spec_orient o t (o_fwd o) (o_ef o) (rc_primer (o_rev o)) (o_er o) true a \/
  spec_orient o t (o_rev o) (o_er o) (rc_primer (o_fwd o)) (o_ef o) false a.

(* well-formed options of a linear run: an extension, when requested, is >= 0 (HasExtension is `extension > -1`);
   primers are not empty. (Round 1 also needed the forward primer to fit MAX_PAT_LEN: the window of the reverse-orientation
   search was sized with the wrong primer and relied on the margin of FindAllIndex; repaired.) *)
Definition ext_ok (o : opts) : Prop := forall x, o_ext o = Some x -> 0 <= x.
Definition linear_ok (o : opts) : Prop :=
  o_circ o = false /\ ext_ok o /\ o_fwd o <> [] /\ o_rev o <> [].

(* the same amplicon record with the direction flipped *)
Definition flip (a : amplicon) : amplicon :=
  match a with (s, d, f, kf, r, kr) => (s, negb d, f, kf, r, kr) end.

(* ---------------------------------------------------------------- circular templates *)
(* number of mismatching positions of primer p against a window of the same length (a mismatch on an obligatory position
   `#` counts miss = 1000 > any error budget: such a window is never a site) *)
Fixpoint mm (p : list sym) (w : list nuc) : N :=
  match p, w with
  | s :: p', x :: w' => ((if sym_match s x then 0 else miss s) + mm p' w')%N
  | _, _ => 0%N
  end.

(* n letters read along the circle t from position a (any integer) *)
Definition circ (t : list nuc) (a : Z) (n : Z) : list nuc :=
  map (fun q => nth (Z.to_nat ((a + Z.of_nat q) mod len t)) t 0%N) (seq 0 (Z.to_nat n)).

(* primer p lies on the circle at position i in [0, L) with k mismatches, within budget e *)
Definition chit (p : list sym) (e : N) (t : list nuc) (i : Z) (k : N) : Prop :=
  0 <= i < len t /\ mm p (circ t i (len p)) = k /\ (k <= e)%N.

(* amplicons of one orientation of a CIRCULAR template: the insert is the arc from the end of the first match to
   the start of the second one; with an extension of x bases the primers and x bases on each side are included, read
   along the circle (the flanked amplicon may be longer than the circle: it then goes around it more than once) *)
Definition spec_orient_circ (o : opts) (t : list nuc) (p1 : list sym) (e1 : N) (p2 : list sym) (e2 : N)
           (fwd_block : bool) (a : amplicon) : Prop :=
  exists i k1 j k2,
    chit p1 e1 t i k1 /\ chit p2 e2 t j k2 /\
    let ins := (j - (i + len p1)) mod len t in
    bounds_ok o ins /\
    exists s,
      match o_ext o with
      | None => s = circ t (i + len p1) ins
      | Some x => s = circ t (i - x) (len p1 + ins + len p2 + 2 * x)
      end /\
      a = mk_amp fwd_block s (circ t i (len p1)) k1 (circ t j (len p2)) k2.

Definition spec_pcr_circ (o : opts) (t : list nuc) (a : amplicon) : Prop :=
  spec_orient_circ o t (o_fwd o) (o_ef o) (rc_primer (o_rev o)) (o_er o) true a \/
  spec_orient_circ o t (o_rev o) (o_er o) (rc_primer (o_fwd o)) (o_ef o) false a.

(* the same circle written from another origin *)
Definition rot (r : nat) (t : list nuc) : list nuc := skipn r t ++ firstn r t.

(* circular runs covered by the model-level theorems: an extension, when requested, is >= 0; primers are non-empty and
   within the matcher's MAX_PAT_LEN. Nothing is assumed about the template: it may be empty, shorter than a primer
   (a site then goes around the circle several times), and the flanked amplicon may be longer than the circle. *)
Definition circular_ok (o : opts) : Prop :=
  o_circ o = true /\ ext_ok o /\ o_fwd o <> [] /\ o_rev o <> [] /\
  len (o_fwd o) <= MAX_PAT_LEN /\ len (o_rev o) <= MAX_PAT_LEN.

(* ================================================================ the specification as a MULTISET (a list up to order)
   One record per PAIR of sites: sites of a primer = the positions where it lies within its error budget, each with its
   number of mismatches; the amplicons of one orientation = one record for every (site of p1, site of p2) whose insert
   length is within the bounds (and, with --only-complete-flanking, whose flanks are available). *)
Definition positions (n : Z) : list Z := map Z.of_nat (seq 0 (Z.to_nat n)).

Definition site_at (p : list sym) (e : N) (w : list nuc) (i : Z) : list (Z * N) :=
  if (mm p w <=? e)%N then [(i, mm p w)] else [].

(* linear template: positions 0 .. L - m *)
Definition sites (p : list sym) (e : N) (t : list nuc) : list (Z * N) :=
  flat_map (fun i => site_at p e (slice t i (i + len p)) i) (positions (len t - len p + 1)).

Definition cut_lin_f (o : opts) (L i m1 j m2 : Z) : option (Z * Z) :=
  match o_ext o with
  | None => Some (i + m1, j)
  | Some x =>
      if o_full o then (if (0 <=? i - x) && (j + m2 + x <=? L) then Some (i - x, j + m2 + x) else None)
      else Some (Z.max 0 (i - x), Z.min L (j + m2 + x))
  end.

Definition cell_lin (o : opts) (t : list nuc) (m1 m2 : Z) (fwd_block : bool) (h1 h2 : Z * N) : list amplicon :=
  let i := fst h1 in let j := fst h2 in
  if length_ok o (j - (i + m1)) then
    match cut_lin_f o (len t) i m1 j m2 with
    | Some (from, to) => [mk_amp fwd_block (slice t from to) (slice t i (i + m1)) (snd h1) (slice t j (j + m2)) (snd h2)]
    | None => []
    end
  else [].

Definition amps_orient_lin (o : opts) (t : list nuc) (p1 : list sym) (e1 : N) (p2 : list sym) (e2 : N) (fwd_block : bool)
  : list amplicon :=
  flat_map (fun h1 => flat_map (fun h2 => cell_lin o t (len p1) (len p2) fwd_block h1 h2) (sites p2 e2 t)) (sites p1 e1 t).

Definition amps_lin (o : opts) (t : list nuc) : list amplicon :=
  amps_orient_lin o t (o_fwd o) (o_ef o) (rc_primer (o_rev o)) (o_er o) true ++
  amps_orient_lin o t (o_rev o) (o_er o) (rc_primer (o_fwd o)) (o_ef o) false.

(* circular template: positions 0 .. L - 1, the primer read along the circle *)
Definition csites (p : list sym) (e : N) (t : list nuc) : list (Z * N) :=
  flat_map (fun i => site_at p e (circ t i (len p)) i) (positions (len t)).

Definition circ_cut (o : opts) (t : list nuc) (i m1 j m2 : Z) : list nuc :=
  let ins := (j - (i + m1)) mod len t in
  match o_ext o with
  | None => circ t (i + m1) ins
  | Some x => circ t (i - x) (m1 + ins + m2 + 2 * x)
  end.

Definition cell_circ (o : opts) (t : list nuc) (m1 m2 : Z) (fwd_block : bool) (h1 h2 : Z * N) : list amplicon :=
  let i := fst h1 in let j := fst h2 in
  if length_ok o ((j - (i + m1)) mod len t) then
    [mk_amp fwd_block (circ_cut o t i m1 j m2) (circ t i m1) (snd h1) (circ t j m2) (snd h2)]
  else [].

Definition amps_orient_circ (o : opts) (t : list nuc) (p1 : list sym) (e1 : N) (p2 : list sym) (e2 : N) (fwd_block : bool)
  : list amplicon :=
  flat_map (fun h1 => flat_map (fun h2 => cell_circ o t (len p1) (len p2) fwd_block h1 h2) (csites p2 e2 t)) (csites p1 e1 t).

Definition amps_circ (o : opts) (t : list nuc) : list amplicon :=
  amps_orient_circ o t (o_fwd o) (o_ef o) (rc_primer (o_rev o)) (o_er o) true ++
  amps_orient_circ o t (o_rev o) (o_er o) (rc_primer (o_fwd o)) (o_ef o) false.
