(* C11, round 3 — what a record inherits from its template: PROVENANCE of every base of every record written by _Pcr
   (the template position it was read from), from which the Phred scores and the pairing_mismatches positions of the record
   follow; and the cases of the direct calls of obiseq.Subsequence / ReverseComplement (vh c11ops).
   Definitions only: no proofs here (ProofsQ.v). *)
From Coq Require Import ZArith NArith List Bool.
Import ListNotations.
From OBI.C11 Require Import Model.
Open Scope Z_scope.

(* the template positions 0 .. n-1, as letters: cutting THEM with the very functions that cut the bases (subseq, segment)
   tells where each base of a segment comes from *)
Definition tpos (n : nat) : list N := map N.of_nat (seq 0 n).

Definition letter (t : list nuc) (p : N) : nuc := nth (N.to_nat p) t 0%N.

(* provenance of the record written for one pair of matches (same guards as pair_amplicon): positions of its bases on the
   template as given, in record order (the second block reverse-complements the record: reversed provenance) *)
Definition pair_prov (o : opts) (t : list nuc) (fwd_block : bool) (fm rm : Z * Z * N) : list (option (list N)) :=
  let L := len t in
  let ins := insert_length o L fm rm in
  if (fst3 fm <? L) && (fst3 rm <? L) && length_ok o ins then
    match cut_bounds o L ins fm rm with
    | None => []
    | Some (from, to) =>
        [ match segment (tpos (length t)) from to (o_circ o) with
          | Some P => Some (if fwd_block then P else rev P)
          | None => None
          end ]
    end
  else [].

Definition block_prov (data : list nuc) (o : opts) (t : list nuc) (pf : list sym) (ef : N) (pr : list sym) (er : N)
           (fwd_block : bool) : list (option (list N)) :=
  let L := len t in
  let fms := find_all pf ef data L 0 (-1) in
  match fms with
  | [] => []
  | fm0 :: _ =>
      let begin := fst3 fm0 in
      let length := L - begin in
      let length := if 0 <? o_max o then snd3 (last fms fm0) - begin + o_max o + len pr else length in
      let begin := if o_circ o then 0 else begin in
      let length := if o_circ o then L + MAX_PAT_LEN else length in
      let rms := find_all pr er data L begin length in
      flat_map (fun fm => flat_map (fun rm => pair_prov o t fwd_block fm rm) rms) fms
  end.

(* the provenances of the records of pcr o t, in the same order *)
Definition pcr_prov (o : opts) (t : list nuc) : option (list (list N)) :=
  all_some (block_prov (fresh o t) o t (o_fwd o) (o_ef o) (rc_primer (o_rev o)) (o_er o) true
            ++ block_prov (fresh o t) o t (o_rev o) (o_er o) (rc_primer (o_fwd o)) (o_ef o) false).

(* the bases a provenance designates, read on the strand of the record *)
Definition read (t : list nuc) (fwd : bool) (P : list N) : list nuc :=
  map (fun p => if fwd then letter t p else comp_nuc (letter t p)) P.

(* Phred scores of a record: those of the tpos its bases come from (Subsequence / _Segment copy them with the bases,
   ReverseComplement reverses them) *)
Definition quals_of (q : list N) (P : list N) : list N := map (fun p => nth (N.to_nat p) q 0%N) P.

(* records with their provenance *)
Definition pcr_with_prov (o : opts) (t : list nuc) : option (list (amplicon * list N)) :=
  match pcr o t, pcr_prov o t with
  | Some l, Some ps => if (length l =? length ps)%nat then Some (combine l ps) else None
  | _, _ => None
  end.

(* ---------------------------------------------------------------- pairing_mismatches *)
(* a mismatch recorded at 1-based position p of the template is kept by a record iff the record shows that position; its
   new position j (1-based, record coordinates) must designate it: P[j-1] = p-1. (Subsequence keeps the first occurrence
   on the strand read; a record longer than its circle shows a position several times: any is accepted.) *)
Definition shows (P : list N) (p : Z) : bool := existsb (fun x => (Z.of_N x =? p - 1)) P.

Definition designates (P : list N) (p j : Z) : bool :=
  (1 <=? j) && (j <=? len P) && (Z.of_N (nth (Z.to_nat (j - 1)) P 0%N) =? p - 1).

Fixpoint lookup_pm (id : N) (l : list (N * Z)) : option Z :=
  match l with
  | [] => None
  | (i, j) :: r => if (i =? id)%N then Some j else lookup_pm id r
  end.

(* src: (key id, position on the template); obs: (key id, position on the record) *)
Definition pm_agrees (L : Z) (P : list N) (src obs : list (N * Z)) : bool :=
  forallb (fun kp => let '(id, p) := kp in
             match lookup_pm id obs with
             | Some j => (1 <=? p) && (p <=? L) && designates P p j
             | None => negb ((1 <=? p) && (p <=? L) && shows P p)
             end) src
  && forallb (fun kj => match lookup_pm (fst kj) src with Some _ => true | None => false end) obs
  && (length obs <=? length src)%nat.

(* ---------------------------------------------------------------- pairing_mismatches arithmetic of the code *)
(* obiseq._subseqMutation: new 1-based position of a mismatch recorded at position p, in a window of lseq bases starting at
   offset shift of a sequence of srclen bases (the window may wrap over the end); None = the mismatch is dropped.
   obiseq._revcmpMutation: its position on the reverse complement. walk: the positions such a window shows. *)
Definition mut_pos (p shift srclen lseq : Z) : option Z :=
  if (p <? 1) || (srclen <? p) then None
  else
    let q := p - shift in
    let q := if q <=? 0 then q + srclen else q in
    if q <=? lseq then Some q else None.

Definition rev_pos (lseq p : Z) : Z := lseq - p + 1.

Definition walk (L shift n : Z) : list N :=
  map (fun k => Z.to_N ((shift + Z.of_nat k) mod L)) (seq 0 (Z.to_nat n)).


(* ---------------------------------------------------------------- correspondence: records with scores and mismatches *)
Definition qrecord := (amplicon * list N * list (N * Z))%type.

Record qcase := mkq {
  q_fwd : list N; q_rev : list N; q_ef : N; q_er : N; q_min : N; q_max : N; q_ext : option N;
  q_full : bool; q_circ : bool; q_t : list N;
  q_quals : list N;              (* [] : the template has no scores *)
  q_pm : list (N * Z);           (* pairing_mismatches of the template *)
  q_obs : list qrecord }.

Definition qopts (c : qcase) : opts :=
  mko (q_fwd c) (q_rev c) (q_ef c) (q_er c) (Z.of_N (q_min c)) (Z.of_N (q_max c))
      (match q_ext c with Some x => Some (Z.of_N x) | None => None end) (q_full c) (q_circ c).

Definition qrec_agrees (c : qcase) (m : amplicon * list N) (r : qrecord) : bool :=
  let '(a, qa, pm) := r in
  if amp_eqb (fst m) a then
    if list_eqb (match q_quals c with [] => [] | q => quals_of q (snd m) end) qa
    then pm_agrees (len (q_t c)) (snd m) (q_pm c) pm else false
  else false.

Fixpoint remove_q (c : qcase) (m : amplicon * list N) (l : list qrecord) : option (list qrecord) :=
  match l with
  | [] => None
  | r :: rest => if qrec_agrees c m r then Some rest
                 else match remove_q c m rest with Some rest' => Some (r :: rest') | None => None end
  end.

(* greedy matching of the model's records against the observed ones (records with the same key, scores and admissible
   mismatch tpos are interchangeable) *)
Fixpoint match_all (c : qcase) (ms : list (amplicon * list N)) (obs : list qrecord) : bool :=
  match ms with
  | [] => match obs with [] => true | _ => false end
  | m :: ms' => match remove_q c m obs with Some obs' => match_all c ms' obs' | None => false end
  end.

Definition qagrees (c : qcase) : bool :=
  match pcr_with_prov (qopts c) (q_t c) with
  | Some ms => match_all c ms (q_obs c)
  | None => false
  end.

Fixpoint qmismatches_from (i : nat) (cs : list qcase) : list nat :=
  match cs with
  | [] => []
  | c :: r => if qagrees c then qmismatches_from (S i) r else i :: qmismatches_from (S i) r
  end.

Definition qmismatches (cs : list qcase) : list nat := qmismatches_from 0 cs.

(* ---------------------------------------------------------------- direct calls (vh c11ops) *)
Inductive opcase :=
| mks (t : list N) (from to : Z) (circular : bool) (obs : option (list N))    (* Subsequence: None = error return / panic *)
| mkr (t obs : list N)                                                         (* ReverseComplement *)
| mkm (p shift srclen lseq : Z) (obs : option Z)                               (* _subseqMutation, one mismatch *)
| mkv (lseq p : Z) (obs : option Z).                                           (* _revcmpMutation, one mismatch *)

Definition opt_eqb (a b : option (list N)) : bool :=
  match a, b with
  | Some x, Some y => list_eqb x y
  | None, None => true
  | _, _ => false
  end.

Definition op_agrees (c : opcase) : bool :=
  match c with
  | mks t from to circular obs => opt_eqb (subseq t from to circular) obs
  | mkr t obs => list_eqb (rc t) obs
  | mkm p shift srclen lseq obs =>
      match mut_pos p shift srclen lseq, obs with
      | Some a, Some b => a =? b
      | None, None => true
      | _, _ => false
      end
  | mkv lseq p obs => match obs with Some b => rev_pos lseq p =? b | None => false end
  end.

Fixpoint ops_mismatches_from (i : nat) (cs : list opcase) : list nat :=
  match cs with
  | [] => []
  | c :: r => if op_agrees c then ops_mismatches_from (S i) r else i :: ops_mismatches_from (S i) r
  end.

Definition ops_mismatches (cs : list opcase) : list nat := ops_mismatches_from 0 cs.
