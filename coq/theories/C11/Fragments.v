(* C11 — obiiter.IFragments (behind `obipcr --fragmented`): the fragment arithmetic. Definitions (frag_loop, fragments) are in
   Model.v; here: every short enough interval lies inside one fragment (no amplicon is lost at a cut), exactly one fragment
   OWNS it, and an interval found in two fragments lies in their overlap zone. *)
From Coq Require Import ZArith List Bool Lia.
Import ListNotations.
From OBI.C11 Require Import Model.
Open Scope Z_scope.


Lemma frag_loop_in : forall N length step, 0 < step -> forall fuel i s e, In (s, e) (frag_loop fuel N length step i) ->
  i <= s /\ s < N /\ (e = N \/ (e = s + length /\ step <= N - e)).
Proof.
  intros N length step Hstep. induction fuel as [|fuel IH]; intros i s e H; [inversion H|].
  cbn [frag_loop] in H. destruct (i <? N) eqn:E1; [apply Z.ltb_lt in E1|inversion H].
  destruct (N - Z.min (i + length) N <? step) eqn:E2.
  - destruct H as [H|[]]. inversion H; subst. lia.
  - apply Z.ltb_ge in E2. destruct H as [H|H].
    + inversion H; subst. repeat split; try lia.
    + apply IH in H. lia.
Qed.

(* completeness of the cutting: an interval [a, b) not longer than the overlap lies entirely inside a fragment *)
Lemma frag_loop_cover : forall N length step, 0 < step -> forall fuel i a b, 0 <= i -> i <= a -> a < b -> b <= N -> b - a <= length - step -> N - i <= Z.of_nat fuel ->
  exists s e, In (s, e) (frag_loop fuel N length step i) /\ s <= a /\ b <= e /\ (a < s + step \/ e = N).
Proof.
  intros N length step Hstep. induction fuel as [|fuel IH]; intros i a b Hi Hia Hab HbN Hsz Hfuel; [lia|].
  cbn [frag_loop]. replace (i <? N) with true by (symmetry; apply Z.ltb_lt; lia).
  destruct (N - Z.min (i + length) N <? step) eqn:E2.
  - exists i, N. split; [left; reflexivity|]. lia.
  - apply Z.ltb_ge in E2. destruct (Z_lt_dec a (i + step)) as [Hlt|Hge].
    + exists i, (Z.min (i + length) N). split; [left; reflexivity|]. lia.
    + destruct (IH (i + step) a b) as (s & e & Hin & H); try lia.
      exists s, e. split; [right; exact Hin|exact H].
Qed.

(* ownership: the fragment that starts at most step - 1 positions before a (or the last one) is unique *)
Lemma frag_loop_owner_unique : forall N length step, 0 < step -> forall fuel i a s1 e1 s2 e2,
  In (s1, e1) (frag_loop fuel N length step i) -> In (s2, e2) (frag_loop fuel N length step i) ->
  s1 <= a -> (a < s1 + step \/ e1 = N) -> s2 <= a -> (a < s2 + step \/ e2 = N) -> (s1, e1) = (s2, e2).
Proof.
  intros N length step Hstep. induction fuel as [|fuel IH]; intros i a s1 e1 s2 e2 H1 H2 Ha1 Ho1 Ha2 Ho2; [inversion H1|].
  cbn [frag_loop] in H1, H2. destruct (i <? N) eqn:E1; [apply Z.ltb_lt in E1|inversion H1].
  destruct (N - Z.min (i + length) N <? step) eqn:E2.
  - destruct H1 as [H1|[]]. destruct H2 as [H2|[]]. congruence.
  - apply Z.ltb_ge in E2. destruct H1 as [H1|H1]; destruct H2 as [H2|H2].
    + congruence.
    + inversion H1; subst. apply frag_loop_in in H2; lia.
    + inversion H2; subst. apply frag_loop_in in H1; lia.
    + eapply IH; eauto.
Qed.

(* two fragments holding the same interval: it lies in their overlap zone, which is at most `overlap` long *)
Lemma frag_loop_two : forall N length step, 0 < step -> forall fuel i s1 e1 s2 e2,
  In (s1, e1) (frag_loop fuel N length step i) -> In (s2, e2) (frag_loop fuel N length step i) -> s1 < s2 ->
  e1 = s1 + length /\ s1 + step <= s2.
Proof.
  intros N length step Hstep. induction fuel as [|fuel IH]; intros i s1 e1 s2 e2 H1 H2 Hlt; [inversion H1|].
  cbn [frag_loop] in H1, H2. destruct (i <? N) eqn:E1; [apply Z.ltb_lt in E1|inversion H1].
  destruct (N - Z.min (i + length) N <? step) eqn:E2.
  - destruct H1 as [H1|[]]. destruct H2 as [H2|[]]. inversion H1; inversion H2; subst. lia.
  - apply Z.ltb_ge in E2. destruct H1 as [H1|H1]; destruct H2 as [H2|H2].
    + inversion H1; inversion H2; subst. lia.
    + inversion H1; subst. apply frag_loop_in in H2; lia.
    + inversion H2; subst. apply frag_loop_in in H1; lia.
    + eapply IH; eauto.
Qed.

(* ---------------------------------------------------------------- IFragments as CLIPCR calls it *)
Definition inside (a b : Z) (f : Z * Z) : Prop := fst f <= a /\ b <= snd f.
(* the ownership rule a de-duplication has to implement: a fragment reports an amplicon iff the amplicon starts less
   than step = length - overlap positions after the fragment start, or the fragment is the last one of its sequence *)
Definition owns (N step a : Z) (f : Z * Z) : Prop := fst f <= a /\ (a < fst f + step \/ snd f = N).

Lemma fragments_cover : forall minsize length overlap N a b,
  overlap < length -> 0 <= overlap -> 0 <= a -> a < b -> b <= N -> b - a <= overlap ->
  exists f, In f (fragments minsize length overlap N) /\ inside a b f /\ owns N (length - overlap) a f.
Proof.
  intros minsize length overlap N a b Hlo Ho Ha Hab HbN Hsz. unfold fragments.
  destruct (N <=? minsize).
  - exists (0, N). split; [left; reflexivity|]. unfold inside, owns. cbn [fst snd]. lia.
  - destruct (frag_loop_cover N length (length - overlap) ltac:(lia) (Z.to_nat N) 0 a b) as (s & e & Hin & H); try lia.
    exists (s, e). split; [exact Hin|]. unfold inside, owns. cbn [fst snd]. lia.
Qed.

Lemma fragments_owner_unique : forall minsize length overlap N a f1 f2,
  overlap < length -> 0 <= overlap ->
  In f1 (fragments minsize length overlap N) -> In f2 (fragments minsize length overlap N) ->
  owns N (length - overlap) a f1 -> owns N (length - overlap) a f2 -> f1 = f2.
Proof.
  intros minsize length overlap N a [s1 e1] [s2 e2] Hlo Ho H1 H2 (Ha1 & Ho1) (Ha2 & Ho2). unfold fragments in *. cbn [fst snd] in *.
  destruct (N <=? minsize).
  - destruct H1 as [H1|[]]. destruct H2 as [H2|[]]. congruence.
  - eapply (frag_loop_owner_unique N length (length - overlap) ltac:(lia)); eauto; lia.
Qed.

Lemma fragments_duplicate_zone : forall minsize length overlap N a b f1 f2,
  overlap < length -> 0 <= overlap ->
  In f1 (fragments minsize length overlap N) -> In f2 (fragments minsize length overlap N) -> fst f1 < fst f2 ->
  inside a b f1 -> inside a b f2 ->
  fst f2 <= a /\ b <= fst f1 + length /\ fst f1 + length - fst f2 <= overlap.
Proof.
  intros minsize length overlap N a b [s1 e1] [s2 e2] Hlo Ho H1 H2 Hlt (Hi1 & Hi1') (Hi2 & Hi2'). unfold fragments in *. cbn [fst snd] in *.
  destruct (N <=? minsize).
  - destruct H1 as [H1|[]]. destruct H2 as [H2|[]]. inversion H1; inversion H2; subst. lia.
  - destruct (frag_loop_two N length (length - overlap) ltac:(lia) (Z.to_nat N) 0 s1 e1 s2 e2 H1 H2 Hlt). lia.
Qed.

Lemma fragments_wf : forall minsize length overlap N s e,
  overlap < length -> 0 <= overlap -> 0 < N -> In (s, e) (fragments minsize length overlap N) ->
  0 <= s /\ s < e /\ e <= N.
Proof.
  intros minsize length overlap N s e Hlo Ho HN H. unfold fragments in H. destruct (N <=? minsize).
  - destruct H as [H|[]]. inversion H; subst. lia.
  - apply (frag_loop_in N length (length - overlap)) in H; lia.
Qed.
