(* C11 — obligations (statements only; proofs in Proofs.v) *)
From Coq Require Import ZArith NArith List Bool.
Import ListNotations.
From OBI.C11 Require Import Model Spec Proofs.
Open Scope Z_scope.

(* On a linear template _Pcr never reaches its log.Fatal (every Subsequence call is in range). *)
Theorem C11_linear_never_fatal : forall o t, linear_ok o -> pcr o t <> None.
Proof. exact pcr_lin_total. Qed.

(* Soundness (linear templates): every reported amplicon is the segment cut for a pair (match of one primer within its
   error budget, downstream match of the complemented other primer within its budget), insert length within the
   min/max bounds (0 = no bound), flanks as requested, oriented forward->reverse, with the reported match strings and
   error counts. *)
Theorem C11_sound : forall o t l a, linear_ok o -> pcr o t = Some l -> In a l -> spec_pcr_lin o t a.
Proof. exact pcr_lin_sound. Qed.

(* Completeness (linear templates): every such pair is reported — the search window derived from the first and last
   forward match and from maxLength never hides a valid partner. *)
Theorem C11_complete : forall o t a, linear_ok o -> spec_pcr_lin o t a -> exists l, pcr o t = Some l /\ In a l.
Proof. exact pcr_lin_complete. Qed.

(* Strand symmetry of the specification: the amplicons of the reverse-complemented template are those of the
   template with the direction flipped (same sequence, same match strings, same error counts). *)
Theorem C11_strand_symmetry : forall o t a, ext_ok o ->
  (spec_pcr_lin o (rc t) a <-> spec_pcr_lin o t (flip a)).
Proof. exact strand_symmetry. Qed.

(* ... carried to the model of _Pcr (linear templates). PARTIAL with respect to the property text: this is equality
   of the SETS of reported records; that multiplicities agree as well (same multiset) is not proved here — it is
   checked on every run by the relational clause of tools/props/c11.py (implementation against implementation). *)
Theorem C11_strand_symmetry_impl_partial : forall o t l l' a, linear_ok o ->
  pcr o t = Some l -> pcr o (rc t) = Some l' -> (In a l' <-> In (flip a) l).
Proof. exact pcr_strand_symmetry. Qed.

(* Rotation invariance of the specification of circular templates: writing the same circle from another origin
   does not change the set of amplicons (sequences, directions, match strings, error counts).
   Specification level; carried to the model of _Pcr by C11_rotation_invariant_impl_partial below. On the unchanged
   code the implementation violated this clause (known_findings.d/C11.json: two fix: commits). *)
Theorem C11_rotation_invariant : forall o t r a, (r <= length t)%nat ->
  (spec_pcr_circ o (rot r t) a <-> spec_pcr_circ o t a).
Proof. exact rotation_invariant. Qed.

(* Circular templates, model of the (repaired) _Pcr against the circular specification. PARTIAL with respect to the
   property text: circular_ok restricts runs WITH an extension to those where a max length is set and the longest
   flanked amplicon (primers + max + 2 flanks) fits the circle; beyond that the code cuts the flanked segment modulo
   the template length (known finding, C11_circular_overlong_flank_refuted). Full statement: the same theorems for
   every o with o_circ o = true. *)
Theorem C11_circular_never_fatal_partial : forall o t, circular_ok o t -> pcr o t <> None.
Proof. exact pcr_circ_total. Qed.

Theorem C11_circular_sound_partial : forall o t l a, circular_ok o t -> pcr o t = Some l -> In a l -> spec_pcr_circ o t a.
Proof. exact pcr_circ_sound. Qed.

Theorem C11_circular_complete_partial : forall o t a, circular_ok o t -> spec_pcr_circ o t a ->
  exists l, pcr o t = Some l /\ In a l.
Proof. exact pcr_circ_complete. Qed.

(* The recorded known finding "flanked amplicon longer than the circle", on the model (faithful to the code): forward
   primer acgt, reverse primer ggcc, extension 10, on the 30-base circle acgt a^15 ggcc t^7 the pair (acgt at 0, ggcc at
   19) has a flanked amplicon of 4+15+4+20 = 43 bases; what is reported is 13 bases long — shorter than the two
   primers and the two flanks it is supposed to contain. *)
Theorem C11_circular_overlong_flank_refuted :
  exists o t l, o_circ o = true /\ o_ext o = Some 10 /\ pcr o t = Some l /\
    exists s f kf r kr, In (s, true, f, kf, r, kr) l /\ len s < len f + len r + 2 * 10.
Proof. exact overlong_flank_refuted. Qed.

(* Strand symmetry on circular templates: specification level, and carried to the model of _Pcr (sets of records). *)
Theorem C11_strand_symmetry_circular : forall o t a, ext_ok o ->
  (spec_pcr_circ o (rc t) a <-> spec_pcr_circ o t (flip a)).
Proof. exact strand_symmetry_circ. Qed.

Theorem C11_strand_symmetry_circular_impl_partial : forall o t l l' a, circular_ok o t ->
  pcr o t = Some l -> pcr o (rc t) = Some l' -> (In a l' <-> In (flip a) l).
Proof. exact pcr_strand_symmetry_circ. Qed.

(* Rotation invariance of the model of _Pcr: the SET of reported records does not depend on where the origin of the
   circular template is written (circular_ok: primers not longer than the circle, flanks fitting the circle). *)
Theorem C11_rotation_invariant_impl_partial : forall o t r l l' a, (r <= length t)%nat -> circular_ok o t ->
  pcr o t = Some l -> pcr o (rot r t) = Some l' -> (In a l' <-> In a l).
Proof. exact pcr_rotation. Qed.

(* The part of a recycled C buffer that the matcher can read after new_apatseq is the template (plus its
   circular extension) whatever the buffer held before. *)
Theorem C11_buffer_overwritten : forall old1 old2 t c,
  visible (encode_into old1 t c) t c = visible (encode_into old2 t c) t c.
Proof. exact batch_independent. Qed.

(* Batch independence: _PCRSlice, which recycles the C buffer of the previous template (whatever it contains:
   longer or shorter templates, another topology's extension), reports for every template of the batch exactly what
   a run on that template alone with a fresh buffer (PCRSim) reports — in particular the results do not depend on the
   order or composition of the batch. (The hit stacks are emptied by every search: find_all is a function of its
   arguments.) *)
Theorem C11_batch_independent : forall o ts buf, pcr_slice_from o buf ts = map (pcr o) ts.
Proof. exact pcr_slice_from_spec. Qed.

Example C11_batch_nonvacuous :
  let o := mko [1;2;4;8]%N [4;4;2;2]%N 0 0 0 0 None false false in
  pcr_slice o [[3;3;0;1;2;3;0;0;0;0;0;2;2;1;1;3;3;0;1;2;3;0;2;2;1;1]; [0;1;2;3;0;2;2;1;1]; []]%N =
  [Some [([0;0;0;0;0]%N, true, [0;1;2;3]%N, 0%N, [2;2;1;1]%N, 0%N);
         ([0;0;0;0;0;2;2;1;1;3;3;0;1;2;3;0]%N, true, [0;1;2;3]%N, 0%N, [2;2;1;1]%N, 0%N);
         ([0]%N, true, [0;1;2;3]%N, 0%N, [2;2;1;1]%N, 0%N);
         ([0;0]%N, false, [0;1;2;3]%N, 0%N, [2;2;1;1]%N, 0%N)];
   Some [([0]%N, true, [0;1;2;3]%N, 0%N, [2;2;1;1]%N, 0%N)];
   Some []].
Proof. vm_compute. reflexivity. Qed.

(* non-vacuity: a well-formed linear run (IUPAC reverse primer, one mismatch allowed, flank 1) that reports amplicons
   on both strands *)
Example C11_sound_nonvacuous :
  let o := mko [1;2;4;8]%N [4;12;2;2]%N 0 1 0 0 (Some 1) false false in
  let t := [3;0;1;2;3;0;0;2;2;1;3;3;3;2;0;1;1;0;0;0;1;2;3;0]%N in
  linear_ok o /\
  exists l, pcr o t = Some l /\ length l = 5%nat /\
    In ([3;0;1;2;3;0;0;2;2;1;3;3]%N, true, [0;1;2;3]%N, 0%N, [0;2;1;1]%N, 1%N) l /\
    In ([3;0;1;2;3;3;3;2;2;3;1;0]%N, false, [0;1;2;3]%N, 0%N, [2;0;1;1]%N, 1%N) l.
Proof.
  split; [repeat split; try discriminate; intros x H; inversion H; subst; discriminate|].
  eexists. split; [vm_compute; reflexivity|]. split; [reflexivity|]. cbn; auto 10.
Qed.

(* non-vacuity of the circular specification: forward primer acgt spanning the origin of the 17-base circle
   gtaaaaaggccttttac, complemented reverse primer ggcc at 7: insert aaaaa *)
Example C11_rotation_nonvacuous :
  let o := mko [1;2;4;8]%N [4;4;2;2]%N 0 0 0 0 None false true in
  let t := [2;3;0;0;0;0;0;2;2;1;1;3;3;3;3;0;1]%N in
  spec_pcr_circ o t ([0;0;0;0;0]%N, true, [0;1;2;3]%N, 0%N, [2;2;1;1]%N, 0%N) /\
  spec_pcr_circ o (rot 15 t) ([0;0;0;0;0]%N, true, [0;1;2;3]%N, 0%N, [2;2;1;1]%N, 0%N).
Proof.
  assert (H : forall o t a, o = mko [1;2;4;8]%N [4;4;2;2]%N 0 0 0 0 None false true ->
                t = [2;3;0;0;0;0;0;2;2;1;1;3;3;3;3;0;1]%N -> a = ([0;0;0;0;0]%N, true, [0;1;2;3]%N, 0%N, [2;2;1;1]%N, 0%N) ->
                spec_pcr_circ o t a).
  { intros o t a -> -> ->. left. exists 15, 0%N, 7, 0%N.
    split; [split; [vm_compute; split; [discriminate|reflexivity]|split; [reflexivity|discriminate]]|].
    split; [split; [vm_compute; split; [discriminate|reflexivity]|split; [reflexivity|discriminate]]|].
    split; [split; [reflexivity|split; left; reflexivity]|].
    eexists. split; reflexivity. }
  cbn zeta. split; [apply H; reflexivity|]. apply C11_rotation_invariant; [cbn; auto 20 with arith|apply H; reflexivity].
Qed.

(* non-vacuity of circular_ok with an extension: flank 2, max 6 on a 20-base circle, forward primer across the origin *)
Example C11_circular_nonvacuous :
  let o := mko [1;2;4;8]%N [4;4;2;2]%N 0 0 0 6 (Some 2) false true in
  let t := [2;3;0;0;0;0;0;2;2;1;1;3;3;3;3;3;3;3;0;1]%N in
  circular_ok o t /\
  pcr o t = Some [([3;3;0;1;2;3;0;0;0;0;0;2;2;1;1;3;3]%N, true, [0;1;2;3]%N, 0%N, [2;2;1;1]%N, 0%N)].
Proof.
  split; [|vm_compute; reflexivity].
  unfold circular_ok, flank_fits. cbn [o_circ o_ext o_max o_fwd o_rev].
  repeat split; try discriminate; vm_compute; discriminate.
Qed.

Print Assumptions C11_linear_never_fatal.
Print Assumptions C11_sound.
Print Assumptions C11_complete.
Print Assumptions C11_strand_symmetry.
Print Assumptions C11_strand_symmetry_impl_partial.
Print Assumptions C11_rotation_invariant.
Print Assumptions C11_circular_never_fatal_partial.
Print Assumptions C11_circular_sound_partial.
Print Assumptions C11_circular_complete_partial.
Print Assumptions C11_circular_overlong_flank_refuted.
Print Assumptions C11_strand_symmetry_circular.
Print Assumptions C11_strand_symmetry_circular_impl_partial.
Print Assumptions C11_rotation_invariant_impl_partial.
Print Assumptions C11_buffer_overwritten.
Print Assumptions C11_batch_independent.
