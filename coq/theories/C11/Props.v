(* C11 — obligations (statements only; proofs in Proofs.v) *)
From Coq Require Import ZArith NArith List Bool Permutation Lia.
Import ListNotations.
From OBI.C11 Require Import Model ModelQ Spec Proofs ProofsQ Multiset MultisetStrand MultisetCirc MultisetCircSym Fragments FragPcr.
Open Scope Z_scope.

(* On a linear template _Pcr never reaches its log.Fatal (every Subsequence call is in range). *)
Theorem C11_linear_never_fatal : forall o t, linear_ok o -> pcr o t <> None.
Proof. exact pcr_lin_total. Qed.

(* Soundness (linear templates): every reported amplicon is the segment cut for a pair (match of one primer within its
   error budget, downstream match of the complemented other primer within its budget), insert length within the
   min/max bounds (0 = no bound), flanks as requested, oriented forward->reverse, with the reported match strings and
   error counts. *)
Theorem C11_sound : forall o t l a, linear_ok o -> pcr o t = Some l -> In a l -> spec_pcr_lin o t a.
Proof. exact pcr_lin_sound. Qed.

(* Completeness (linear templates): every such pair is reported — the search window derived from the first and last
   forward match and from maxLength never hides a valid partner. *)
Theorem C11_complete : forall o t a, linear_ok o -> spec_pcr_lin o t a -> exists l, pcr o t = Some l /\ In a l.
Proof. exact pcr_lin_complete. Qed.

(* Strand symmetry of the specification: the amplicons of the reverse-complemented template are those of the
   template with the direction flipped (same sequence, same match strings, same error counts). *)
Theorem C11_strand_symmetry : forall o t a, ext_ok o ->
  (spec_pcr_lin o (rc t) a <-> spec_pcr_lin o t (flip a)).
Proof. exact strand_symmetry. Qed.

(* Soundness and completeness at the level of MULTISETS (linear templates): the list returned by the model of _Pcr is a
   permutation of amps_lin o t, the list holding exactly one record per pair (site of one primer, site of the
   complemented other primer) that satisfies the length bounds (Spec.v; sites = positions within the error budget) —
   no pair is reported twice, none is missing. In a (amps_lin o t) is the relational specification above. *)
Theorem C11_sound_complete_multiset : forall o t, linear_ok o ->
  exists l, pcr o t = Some l /\ Permutation l (amps_lin o t).
Proof. exact pcr_lin_multiset. Qed.

Theorem C11_amps_lin_spec : forall o t a, linear_ok o -> (In a (amps_lin o t) <-> spec_pcr_lin o t a).
Proof. exact in_amps_lin. Qed.

(* Strand symmetry as in the property text: reverse-complementing the template gives the same MULTISET of amplicons
   with the direction flipped — for the specification, and for the model of _Pcr (linear templates). *)
Theorem C11_strand_symmetry_multiset : forall o t, ext_ok o ->
  Permutation (amps_lin o (rc t)) (map flip (amps_lin o t)).
Proof. exact amps_lin_strand. Qed.

Theorem C11_strand_symmetry_impl : forall o t l l', linear_ok o ->
  pcr o t = Some l -> pcr o (rc t) = Some l' -> Permutation l' (map flip l).
Proof. exact pcr_strand_multiset. Qed.

(* Rotation invariance of the specification of circular templates: writing the same circle from another origin
   does not change the set of amplicons (sequences, directions, match strings, error counts).
   Specification level; carried to the model of _Pcr by C11_rotation_invariant_impl_partial below. On the unchanged
   code the implementation violated this clause (known_findings.d/C11.json: two fix: commits). *)
Theorem C11_rotation_invariant : forall o t r a, (r <= length t)%nat ->
  (spec_pcr_circ o (rot r t) a <-> spec_pcr_circ o t a).
Proof. exact rotation_invariant. Qed.

(* Circular templates, model of the (repaired) _Pcr and _Segment against the circular specification. The only
   hypotheses left (circular_ok) are on the options: extension >= 0 when requested, primers non-empty and within the
   matcher's MAX_PAT_LEN. The template is arbitrary: empty, shorter than a primer (round-1 known finding, repaired by
   the cyclic copy in EncodeSequence), flanked amplicon longer than the circle (round-1 known finding, repaired by
   _Segment walking around the circle). *)
Theorem C11_circular_never_fatal : forall o t, circular_ok o -> pcr o t <> None.
Proof. exact pcr_circ_total. Qed.

Theorem C11_circular_sound : forall o t l a, circular_ok o -> pcr o t = Some l -> In a l -> spec_pcr_circ o t a.
Proof. exact pcr_circ_sound. Qed.

Theorem C11_circular_complete : forall o t a, circular_ok o -> spec_pcr_circ o t a ->
  exists l, pcr o t = Some l /\ In a l.
Proof. exact pcr_circ_complete. Qed.

(* ... and as multisets: one record per pair of sites of the circle (amps_circ, Spec.v), whose members are exactly the
   amplicons of the relational specification (no hypothesis at all for that link). *)
Theorem C11_circular_sound_complete_multiset : forall o t, circular_ok o ->
  exists l, pcr o t = Some l /\ Permutation l (amps_circ o t).
Proof. exact pcr_circ_multiset. Qed.

Theorem C11_amps_circ_spec : forall o t a, In a (amps_circ o t) <-> spec_pcr_circ o t a.
Proof. exact in_amps_circ. Qed.

(* _Segment on a circular template: to - from letters read along the circle from position from (any integer), however
   many turns that takes. *)
Theorem C11_segment_circular : forall t from to, 0 < len t -> 0 < to - from ->
  segment t from to true = Some (circ t from (to - from)).
Proof. exact segment_circ. Qed.

(* Strand symmetry on circular templates: specification level (relational and multiset), and the model of _Pcr
   (multiset). *)
Theorem C11_strand_symmetry_circular : forall o t a, ext_ok o ->
  (spec_pcr_circ o (rc t) a <-> spec_pcr_circ o t (flip a)).
Proof. exact strand_symmetry_circ. Qed.

Theorem C11_strand_symmetry_circular_multiset : forall o t, ext_ok o ->
  Permutation (amps_circ o (rc t)) (map flip (amps_circ o t)).
Proof. exact amps_circ_strand. Qed.

Theorem C11_strand_symmetry_circular_impl : forall o t l l', circular_ok o ->
  pcr o t = Some l -> pcr o (rc t) = Some l' -> Permutation l' (map flip l).
Proof. exact pcr_strand_circ_multiset. Qed.

(* Rotation invariance as multisets: writing the same circle from another origin permutes the list of records — for the
   specification (no hypothesis) and for the model of _Pcr (circular_ok: options only). Stronger than the property text
   (which asks for the set). *)
Theorem C11_rotation_invariant_multiset : forall o t r, (r <= length t)%nat ->
  Permutation (amps_circ o (rot r t)) (amps_circ o t).
Proof. exact amps_circ_rot. Qed.

Theorem C11_rotation_invariant_impl : forall o t r l l', (r <= length t)%nat -> circular_ok o ->
  pcr o t = Some l -> pcr o (rot r t) = Some l' -> Permutation l' l.
Proof. exact pcr_rotation_multiset. Qed.

(* The part of a recycled C buffer that the matcher can read after new_apatseq is the template (plus its
   circular extension) whatever the buffer held before. *)
Theorem C11_buffer_overwritten : forall old1 old2 t c,
  visible (encode_into old1 t c) t c = visible (encode_into old2 t c) t c.
Proof. exact batch_independent. Qed.

(* Batch independence: _PCRSlice, which recycles the C buffer of the previous template (whatever it contains:
   longer or shorter templates, another topology's extension), reports for every template of the batch exactly what
   a run on that template alone with a fresh buffer (PCRSim) reports — in particular the results do not depend on the
   order or composition of the batch. (The hit stacks are emptied by every search: find_all is a function of its
   arguments.) *)
Theorem C11_batch_independent : forall o ts buf, pcr_slice_from o buf ts = map (pcr o) ts.
Proof. exact pcr_slice_from_spec. Qed.

(* obipcr --fragmented cuts long sequences with obiiter.IFragments(minsize = 1000 max, length = 100 max, overlap = max + both
   primer lengths) — model `fragments` (Model.v, tied to IFragments on every run). Hypothesis: overlap < length, i.e. a
   positive step (with the CLIPCR arguments: 99 max > sum of the primer lengths; false only for -L 1 with primers totalling
   99 bases or more, where the loop of IFragments does not advance).
   Completeness: every interval [a, b) not longer than the overlap — every amplicon, primers included, whose insert is
   within max — lies entirely inside a fragment, namely the one that OWNS position a (a fragment owns the positions less
   than step after its start; the last fragment owns everything after its start). *)
Theorem C11_fragments_cover : forall minsize length overlap N a b,
  overlap < length -> 0 <= overlap -> 0 <= a -> a < b -> b <= N -> b - a <= overlap ->
  exists f, In f (fragments minsize length overlap N) /\ inside a b f /\ owns N (length - overlap) a f.
Proof. exact fragments_cover. Qed.

(* ... the owner is unique: reporting an amplicon only from the fragment that owns its first position reports it exactly
   once (the rule a de-duplication has to implement; recorded known finding fragmented-duplicates). *)
Theorem C11_fragments_owner_unique : forall minsize length overlap N a f1 f2,
  overlap < length -> 0 <= overlap ->
  In f1 (fragments minsize length overlap N) -> In f2 (fragments minsize length overlap N) ->
  owns N (length - overlap) a f1 -> owns N (length - overlap) a f2 -> f1 = f2.
Proof. exact fragments_owner_unique. Qed.

(* Duplicates characterised: an interval found in two fragments lies in the zone they share, which is at most `overlap`
   long — so only amplicons (primers included) not longer than max + both primer lengths can be written twice, and they
   are exactly those lying inside such a zone. *)
Theorem C11_fragments_duplicate_zone : forall minsize length overlap N a b f1 f2,
  overlap < length -> 0 <= overlap ->
  In f1 (fragments minsize length overlap N) -> In f2 (fragments minsize length overlap N) -> fst f1 < fst f2 ->
  inside a b f1 -> inside a b f2 ->
  fst f2 <= a /\ b <= fst f1 + length /\ fst f1 + length - fst f2 <= overlap.
Proof. exact fragments_duplicate_zone. Qed.

Theorem C11_fragments_wf : forall minsize length overlap N s e,
  overlap < length -> 0 <= overlap -> 0 < N -> In (s, e) (fragments minsize length overlap N) ->
  0 <= s /\ s < e /\ e <= N.
Proof. exact fragments_wf. Qed.

(* obipcr --fragmented against the unfragmented search (linear templates, no flanks requested, max set — always the case
   from the command line): searching every fragment finds exactly the amplicons of the whole template, as a SET
   (specification level, and for the model of _Pcr run on each fragment). Hypotheses: a positive step and an overlap that
   holds both primers and the longest insert — what CLIPCR passes since the round-1 fix (overlap = max + both primer
   lengths). Not covered: flanks (--delta: clipped at fragment ends), multiplicities (duplicates, see above), ids. *)
Theorem C11_fragmented_sound : forall o t minsize length overlap a,
  o_ext o = None -> overlap < length -> 0 <= overlap ->
  frag_amps o t minsize length overlap a -> spec_pcr_lin o t a.
Proof. exact fragmented_sound. Qed.

Theorem C11_fragmented_complete : forall o t minsize length overlap a,
  o_ext o = None -> 0 < o_max o -> overlap < length -> len (o_fwd o) + o_max o + len (o_rev o) <= overlap ->
  spec_pcr_lin o t a -> frag_amps o t minsize length overlap a.
Proof. exact fragmented_complete. Qed.

Theorem C11_fragmented_impl : forall o t minsize length overlap a,
  linear_ok o -> o_ext o = None -> 0 < o_max o -> overlap < length -> len (o_fwd o) + o_max o + len (o_rev o) <= overlap ->
  ((exists f l, In f (fragments minsize length overlap (len t)) /\ pcr o (slice t (fst f) (snd f)) = Some l /\ In a l) <->
   (exists l, pcr o t = Some l /\ In a l)).
Proof. exact fragmented_impl. Qed.

(* the witness of the known finding: -L 25, primers of 8 bases: the 19-base amplicon at 2470 of a 26000-base sequence lies
   inside the first two fragments *)
Example C11_fragments_duplicate_witness :
  let fs := fragments 25000 2500 41 26000 in
  firstn 2 fs = [(0, 2500); (2459, 4959)] /\ inside 2470 2489 (0, 2500) /\ inside 2470 2489 (2459, 4959) /\
  owns 26000 2459 2470 (2459, 4959) /\ ~ owns 26000 2459 2470 (0, 2500).
Proof.
  cbn zeta. split; [vm_compute; reflexivity|]. unfold inside, owns. cbn [fst snd]. repeat split; try lia.
Qed.

Example C11_batch_nonvacuous :
  let o := mko [1;2;4;8]%N [4;4;2;2]%N 0 0 0 0 None false false in
  pcr_slice o [[3;3;0;1;2;3;0;0;0;0;0;2;2;1;1;3;3;0;1;2;3;0;2;2;1;1]; [0;1;2;3;0;2;2;1;1]; []]%N =
  [Some [([0;0;0;0;0]%N, true, [0;1;2;3]%N, 0%N, [2;2;1;1]%N, 0%N);
         ([0;0;0;0;0;2;2;1;1;3;3;0;1;2;3;0]%N, true, [0;1;2;3]%N, 0%N, [2;2;1;1]%N, 0%N);
         ([0]%N, true, [0;1;2;3]%N, 0%N, [2;2;1;1]%N, 0%N);
         ([0;0]%N, false, [0;1;2;3]%N, 0%N, [2;2;1;1]%N, 0%N)];
   Some [([0]%N, true, [0;1;2;3]%N, 0%N, [2;2;1;1]%N, 0%N)];
   Some []].
Proof. vm_compute. reflexivity. Qed.

(* non-vacuity: a well-formed linear run (IUPAC reverse primer, one mismatch allowed, flank 1) that reports amplicons
   on both strands *)
Example C11_sound_nonvacuous :
  let o := mko [1;2;4;8]%N [4;12;2;2]%N 0 1 0 0 (Some 1) false false in
  let t := [3;0;1;2;3;0;0;2;2;1;3;3;3;2;0;1;1;0;0;0;1;2;3;0]%N in
  linear_ok o /\
  exists l, pcr o t = Some l /\ length l = 5%nat /\
    In ([3;0;1;2;3;0;0;2;2;1;3;3]%N, true, [0;1;2;3]%N, 0%N, [0;2;1;1]%N, 1%N) l /\
    In ([3;0;1;2;3;3;3;2;2;3;1;0]%N, false, [0;1;2;3]%N, 0%N, [2;0;1;1]%N, 1%N) l.
Proof.
  split; [repeat split; try discriminate; intros x H; inversion H; subst; discriminate|].
  eexists. split; [vm_compute; reflexivity|]. split; [reflexivity|]. cbn; auto 10.
Qed.

(* the search window of the reverse orientation (repaired in round 2: sized with the complemented FORWARD primer): forward
   primer a^66, reverse primer c, max 5, template c ggggg t^66 — the amplicon carried by the reverse strand ends 72 bases
   after the first reverse-primer match; the former window (reverse primer length + FindAllIndex margin) stopped at 71 *)
Example C11_window_example :
  let o := mko (repeat 1%N 66) [2]%N 0 0 0 5 None false false in
  linear_ok o /\
  pcr o ([1] ++ repeat 2 5 ++ repeat 3 66)%N = Some [(repeat 1 5, false, repeat 0 66, 0, [1], 0)]%N.
Proof.
  split; [|vm_compute; reflexivity].
  repeat split; try discriminate.
Qed.

(* non-vacuity of the circular specification: forward primer acgt spanning the origin of the 17-base circle
   gtaaaaaggccttttac, complemented reverse primer ggcc at 7: insert aaaaa *)
Example C11_rotation_nonvacuous :
  let o := mko [1;2;4;8]%N [4;4;2;2]%N 0 0 0 0 None false true in
  let t := [2;3;0;0;0;0;0;2;2;1;1;3;3;3;3;0;1]%N in
  spec_pcr_circ o t ([0;0;0;0;0]%N, true, [0;1;2;3]%N, 0%N, [2;2;1;1]%N, 0%N) /\
  spec_pcr_circ o (rot 15 t) ([0;0;0;0;0]%N, true, [0;1;2;3]%N, 0%N, [2;2;1;1]%N, 0%N).
Proof.
  assert (H : forall o t a, o = mko [1;2;4;8]%N [4;4;2;2]%N 0 0 0 0 None false true ->
                t = [2;3;0;0;0;0;0;2;2;1;1;3;3;3;3;0;1]%N -> a = ([0;0;0;0;0]%N, true, [0;1;2;3]%N, 0%N, [2;2;1;1]%N, 0%N) ->
                spec_pcr_circ o t a).
  { intros o t a -> -> ->. left. exists 15, 0%N, 7, 0%N.
    split; [split; [vm_compute; split; [discriminate|reflexivity]|split; [reflexivity|discriminate]]|].
    split; [split; [vm_compute; split; [discriminate|reflexivity]|split; [reflexivity|discriminate]]|].
    split; [split; [reflexivity|split; left; reflexivity]|].
    eexists. split; reflexivity. }
  cbn zeta. split; [apply H; reflexivity|]. apply C11_rotation_invariant; [cbn; auto 20 with arith|apply H; reflexivity].
Qed.

(* non-vacuity of circular_ok with an extension: flank 2, max 6 on a 20-base circle, forward primer across the origin *)
Example C11_circular_nonvacuous :
  let o := mko [1;2;4;8]%N [4;4;2;2]%N 0 0 0 6 (Some 2) false true in
  let t := [2;3;0;0;0;0;0;2;2;1;1;3;3;3;3;3;3;3;0;1]%N in
  circular_ok o /\
  pcr o t = Some [([3;3;0;1;2;3;0;0;0;0;0;2;2;1;1;3;3]%N, true, [0;1;2;3]%N, 0%N, [2;2;1;1]%N, 0%N)].
Proof.
  split; [|vm_compute; reflexivity].
  unfold circular_ok, ext_ok. cbn [o_circ o_ext o_max o_fwd o_rev].
  repeat split; try discriminate; try (vm_compute; discriminate). intros x H. inversion H. discriminate.
Qed.

(* the two round-1 known findings on circular templates, repaired: (a) the 43-base flanked amplicon of a 30-base circle
   is reported whole; (b) primer acgtacgta (9 bases) on the 4-base circle acgt: both amplicons, full match strings *)
Example C11_circular_overlong_flank_example :
  exists l, pcr (mko [1;2;4;8]%N [4;4;2;2]%N 0 0 0 0 (Some 10) false true)
              ([0;1;2;3] ++ repeat 0 15 ++ [2;2;1;1] ++ repeat 3 7)%N = Some l /\
    exists s f kf r kr, In (s, true, f, kf, r, kr) l /\ len s = len f + 15 + len r + 2 * 10.
Proof. exact overlong_flank_example. Qed.

Example C11_circular_short_template_example :
  pcr (mko [1;2;4;8;1;2;4;8;1]%N [4;8;1]%N 0 0 0 0 None false true) [0;1;2;3]%N =
  Some [([1;2]%N, true, [0;1;2;3;0;1;2;3;0]%N, 0%N, [2;3;0]%N, 0%N);
        ([1;2]%N, false, [0;1;2;3;0;1;2;3;0]%N, 0%N, [2;3;0]%N, 0%N)].
Proof. vm_compute. reflexivity. Qed.


(* ---------------------------------------------------------------------------------------------------------------------
   Round 3 — what a record inherits from its template (Phred scores, pairing_mismatches): PROVENANCE.
   ModelQ.v pairs every record of the model of _Pcr with the list of template positions its bases were read from, obtained
   by cutting the list of positions 0..L-1 with the very function (_Segment / Subsequence) and the very bounds that cut the
   bases. Tied to the code on every run: the scores of the observed records must be the scores found at those positions and
   their pairing_mismatches must point at them (qmismatches). *)

(* Cutting commutes with relabelling the letters: _Segment / Subsequence only move letters around (they never look at
   them), so whatever is attached to the positions of the template travels with the bases. *)
Theorem C11_segment_relabel : forall (f : N -> N) l from to c,
  segment (map f l) from to c = option_map (map f) (segment l from to c).
Proof. exact segment_map. Qed.

(* Every record has a provenance, of its own length; every base of a record of direction forward is the base of the template
   at the position its provenance gives, every base of a record of direction reverse is the complement of that base; all
   positions lie inside the template. No hypothesis on the options nor on the template. *)
Theorem C11_provenance : forall o t l, pcr o t = Some l ->
  exists ps, pcr_prov o t = Some ps /\ pcr_with_prov o t = Some (combine l ps) /\ length ps = length l /\
             Forall2 (rec_ok t) l ps.
Proof. exact provenance. Qed.

Theorem C11_provenance_member : forall o t ms a P, pcr_with_prov o t = Some ms -> In (a, P) ms ->
  amp_seq a = read t (amp_dir a) P /\ Forall (fun p => (N.to_nat p < length t)%nat) P.
Proof. exact provenance_in. Qed.

Theorem C11_provenance_records : forall o t ms, pcr_with_prov o t = Some ms -> pcr o t = Some (map fst ms).
Proof. exact pcr_with_prov_fst. Qed.

(* Scores: base k and score k of a record come from the same position of the template (the score list of a record is
   quals_of q P: what the check compares with the scores of the real records). *)
Theorem C11_qualities_aligned : forall t q (d : bool) P,
  combine (read t d P) (quals_of q P) =
  map (fun p => (if d then letter t p else comp_nuc (letter t p), nth (N.to_nat p) q 0%N)) P.
Proof. exact quals_aligned. Qed.

(* pairing_mismatches: a position j accepted by the check for a mismatch recorded at position p of the template designates,
   in the record, the very base p designated in the template (its complement when the record is of direction reverse); and a
   mismatch may be dropped only when the record does not show its position (shows = false), see pm_agrees. *)
Theorem C11_mismatch_position_same_base : forall t (d : bool) P p j s, s = read t d P -> designates P p j = true ->
  nth (Z.to_nat (j - 1)) s 0%N = (if d then (fun x => x) else comp_nuc) (nth (Z.to_nat (p - 1)) t 0%N).
Proof. exact designates_same_base. Qed.

Theorem C11_mismatch_shown_iff : forall P p,
  shows P p = true <-> exists k, (k < length P)%nat /\ Z.of_N (nth k P 0%N) = p - 1.
Proof. exact shows_iff. Qed.

(* Closed forms: on a linear template the provenance of a cut [from, to) is the run from .. to-1; on a circular one the k-th
   base comes from position (from + k) mod L, however many turns the segment makes (flanked amplicon longer than its circle:
   a position is then shown several times). *)
Theorem C11_provenance_linear : forall n a b, 0 <= a -> a < b -> b <= Z.of_nat n ->
  segment (tpos n) a b false = Some (map N.of_nat (seq (Z.to_nat a) (Z.to_nat (b - a)))).
Proof. exact segment_tpos_linear. Qed.

Theorem C11_provenance_circular : forall n a b, (0 < n)%nat -> 0 < b - a ->
  segment (tpos n) a b true = Some (map (fun k => Z.to_N ((a + Z.of_nat k) mod Z.of_nat n)) (seq 0 (Z.to_nat (b - a)))).
Proof. exact segment_tpos_circular. Qed.

(* obiseq.Subsequence called directly (vh c11ops ties `subseq` to it, error returns included): exact domain on a linear
   sequence; the reading along the circle on the domain _Segment uses; a negative start is always refused. *)
Theorem C11_subsequence_linear_domain : forall t a b,
  subseq t a b false = if (0 <=? a) && (a <? b) && (b <=? len t) then Some (slice t a b) else None.
Proof. exact subseq_linear_spec. Qed.

Theorem C11_subsequence_circular : forall t a b, 0 < len t -> 0 <= a -> a < b -> b <= a + len t ->
  subseq t a b true = Some (circ t a (b - a)).
Proof. exact subseq_circular_spec. Qed.

Theorem C11_subsequence_negative_start : forall t a b c, a < 0 -> subseq t a b c = None.
Proof. exact subseq_negative_start. Qed.

(* non-vacuity: records with their provenance on both strands of a linear template (flank 1, clipped at neither end) and on a
   13-base circle whose flanked records go over the origin *)
Example C11_provenance_nonvacuous :
  (exists ms, pcr_with_prov (mko [1;2;4;8]%N [4;4;2;2]%N 0 0 0 0 (Some 1) false false)
                [3;3;0;1;2;3;0;0;0;2;2;1;1;3;3;0;2;2;1;1;3;0;1;2;3;0]%N = Some ms /\
     In (([3;0;1;2;3;0;0;0;2;2;1;1;3]%N, true, [0;1;2;3]%N, 0%N, [2;2;1;1]%N, 0%N), [1;2;3;4;5;6;7;8;9;10;11;12;13]%N) ms /\
     In (([3;0;1;2;3;0;2;2;1;1;3]%N, false, [0;1;2;3]%N, 0%N, [2;2;1;1]%N, 0%N), [25;24;23;22;21;20;19;18;17;16;15]%N) ms) /\
  pcr_with_prov (mko [1;2;4;8]%N [4;4;2;2]%N 0 0 0 0 (Some 2) false true) [2;3;0;0;0;2;2;1;1;3;3;0;1]%N =
  Some [(([3;3;0;1;2;3;0;0;0;2;2;1;1;3;3]%N, true, [0;1;2;3]%N, 0%N, [2;2;1;1]%N, 0%N), [9;10;11;12;0;1;2;3;4;5;6;7;8;9;10]%N);
        (([3;3;0;1;2;3;0;0;2;2;1;1;3;3]%N, false, [0;1;2;3]%N, 0%N, [2;2;1;1]%N, 0%N), [3;2;1;0;12;11;10;9;8;7;6;5;4;3]%N)].
Proof.
  split; [|vm_compute; reflexivity].
  eexists. split; [vm_compute; reflexivity|]. cbn; auto 10.
Qed.


(* The arithmetic of the code itself (obiseq._subseqMutation, tied to Subsequence called directly: mkm cases) against the
   provenance: in a window of n <= L bases starting at offset shift of a sequence of L bases, a mismatch recorded at p is
   moved to a position that designates the same base, and it is dropped only when the window does not show position p. *)
Theorem C11_mutation_shift_sound : forall p shift L n j, 0 < L -> 0 <= shift < L -> 0 <= n <= L ->
  mut_pos p shift L n = Some j -> 1 <= p <= L /\ designates (walk L shift n) p j = true.
Proof. exact mut_pos_sound. Qed.

Theorem C11_mutation_shift_complete : forall p shift L n, 0 < L -> 0 <= shift < L -> 0 <= n <= L -> 1 <= p <= L ->
  mut_pos p shift L n = None -> shows (walk L shift n) p = false.
Proof. exact mut_pos_complete. Qed.

(* ... the windows are what _Segment / Subsequence cut out of the positions (provenance), linear and circular *)
Theorem C11_provenance_walk_linear : forall n a b, 0 <= a -> a < b -> b <= Z.of_nat n ->
  segment (tpos n) a b false = Some (walk (Z.of_nat n) a (b - a)).
Proof. exact segment_tpos_walk_linear. Qed.

Theorem C11_provenance_walk_circular : forall n a b, (0 < n)%nat -> 0 < b - a ->
  segment (tpos n) a b true = Some (walk (Z.of_nat n) (a mod Z.of_nat n) (b - a)).
Proof. exact segment_tpos_walk_circular. Qed.

(* obiseq._revcmpMutation: position lseq - p + 1 of the reverse complement shows the complement of the base at p *)
Theorem C11_mutation_revcomp_same_base : forall s p, 1 <= p <= len s ->
  nth (Z.to_nat (rev_pos (len s) p - 1)) (rc s) 0%N = comp_nuc (nth (Z.to_nat (p - 1)) s 0%N).
Proof. exact rev_pos_same_base. Qed.

Example C11_mutation_shift_nonvacuous :
  mut_pos 8 6 17 5 = Some 2 /\ mut_pos 2 6 17 5 = None /\ mut_pos 1 14 23 19 = Some 10 /\ walk 23 14 19 = [14;15;16;17;18;19;20;21;22;0;1;2;3;4;5;6;7;8;9]%N.
Proof. vm_compute. repeat split; reflexivity. Qed.

Print Assumptions C11_linear_never_fatal.
Print Assumptions C11_sound.
Print Assumptions C11_complete.
Print Assumptions C11_strand_symmetry.
Print Assumptions C11_sound_complete_multiset.
Print Assumptions C11_amps_lin_spec.
Print Assumptions C11_strand_symmetry_multiset.
Print Assumptions C11_strand_symmetry_impl.
Print Assumptions C11_rotation_invariant.
Print Assumptions C11_circular_never_fatal.
Print Assumptions C11_circular_sound.
Print Assumptions C11_circular_complete.
Print Assumptions C11_circular_sound_complete_multiset.
Print Assumptions C11_amps_circ_spec.
Print Assumptions C11_segment_circular.
Print Assumptions C11_strand_symmetry_circular.
Print Assumptions C11_strand_symmetry_circular_multiset.
Print Assumptions C11_strand_symmetry_circular_impl.
Print Assumptions C11_rotation_invariant_multiset.
Print Assumptions C11_rotation_invariant_impl.
Print Assumptions C11_buffer_overwritten.
Print Assumptions C11_batch_independent.
Print Assumptions C11_fragments_cover.
Print Assumptions C11_fragments_owner_unique.
Print Assumptions C11_fragments_duplicate_zone.
Print Assumptions C11_fragments_wf.
Print Assumptions C11_fragmented_sound.
Print Assumptions C11_fragmented_complete.
Print Assumptions C11_fragmented_impl.
Print Assumptions C11_segment_relabel.
Print Assumptions C11_provenance.
Print Assumptions C11_provenance_member.
Print Assumptions C11_provenance_records.
Print Assumptions C11_qualities_aligned.
Print Assumptions C11_mismatch_position_same_base.
Print Assumptions C11_mismatch_shown_iff.
Print Assumptions C11_provenance_linear.
Print Assumptions C11_provenance_circular.
Print Assumptions C11_subsequence_linear_domain.
Print Assumptions C11_subsequence_circular.
Print Assumptions C11_subsequence_negative_start.
Print Assumptions C11_mutation_shift_sound.
Print Assumptions C11_mutation_shift_complete.
Print Assumptions C11_provenance_walk_linear.
Print Assumptions C11_provenance_walk_circular.
Print Assumptions C11_mutation_revcomp_same_base.
